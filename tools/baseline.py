"""Run /repo's pinned test suite and compare with /root/.vp/BASELINE.json (stable_pass).
Usage: /venv/bin/python tools/baseline.py [repo_dir]     exit 0 iff every stable_pass test still passes."""
import json
import os
import subprocess
import sys
import tempfile
import xml.etree.ElementTree as ET

repo = sys.argv[1] if len(sys.argv) > 1 else "/repo"
base = json.load(open("/root/.vp/BASELINE.json"))
with tempfile.TemporaryDirectory(dir="/var/tmp") as td:
    xml = os.path.join(td, "r.xml")
    env = dict(os.environ)
    env.pop("SKCHANGE_VERIF", None)
    env["PYTHONPATH"] = repo
    p = subprocess.run(["/venv/bin/python", "-m", "pytest", "-ra", "-q", "-p", "no:cacheprovider", "--timeout=900",
                        "--continue-on-collection-errors", f"--junitxml={xml}"], cwd=repo, env=env,
                       stdout=subprocess.PIPE, stderr=subprocess.STDOUT, text=True)
    print(p.stdout[-1500:])
    passed, failed = set(), set()
    for tc in ET.parse(xml).getroot().iter("testcase"):
        tid = (tc.get("classname") or "") + "::" + (tc.get("name") or "")
        if any(ch.tag in ("failure", "error") for ch in tc):
            failed.add(tid)
        elif any(ch.tag == "skipped" for ch in tc):
            pass
        else:
            passed.add(tid)
missing = [t for t in base["stable_pass"] if t not in passed]
print(f"stable_pass: {len(base['stable_pass'])}; passed now: {len(passed)}; stable tests not passing now: {len(missing)}")
for t in missing[:30]:
    print("  NOT PASSING:", t)
sys.exit(1 if missing else 0)
