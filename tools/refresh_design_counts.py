"""Refresh the theorem / case counts of DESIGN.md section 8.2 from the committed evidence files (run after `./check all --tier quick`)."""
import json
import os
import re

V = os.path.dirname(os.path.dirname(os.path.abspath(__file__)))
p = os.path.join(V, "DESIGN.md")
s = open(p).read()
total = 0.0
for k in range(1, 19):
    cid = f"C{k:02d}"
    e = json.load(open(os.path.join(V, "evidence", cid + ".json")))
    c = e["coverage"]
    total += float(e.get("wall_s", 0))
    ev = f"{c['evaluations']:,}".replace(",", " ")
    s, n = re.subn(rf"^\| {cid} \| \d+ \| (.*) \| [\d ]+ \|$", lambda m: f"| {cid} | {c['obligations']} | {m.group(1)} | {ev} |", s, flags=re.M)
    assert n == 1, cid
s = re.sub(r"all exit 0, [\d.]+ min in total", f"all exit 0, {total / 60:.1f} min in total", s)
open(p, "w").write(s)
print("refreshed; total quick wall", round(total / 60, 1), "min")
