"""Evaluate the checks against one seeded change.

  /venv/bin/python tools/try_seeded.py <dir-with patchK.diff/demoK.py/metaK.json> <K> [--all] [--thorough] [--no-suite]

Applies the patch to a scratch worktree of /repo (never to /repo itself, so background runs that read /repo are not
disturbed; the checks are pointed at the worktree through SKCHANGE_REPO), confirms the demonstration (passes on the
clean tree, fails with the change) and that the pinned test suite still passes with the change, runs the target
property's check (and with --all every other check), prints a JSON summary and removes the worktree."""
import json
import os
import re
import subprocess
import sys

V = os.path.dirname(os.path.dirname(os.path.abspath(__file__)))
WT = os.environ.get("VERIF_WT", "/var/tmp/wt_eval")


def sh(cmd, env=None, timeout=3600, cwd=None):
    e = dict(os.environ)
    if env:
        e.update(env)
    p = subprocess.run(cmd, shell=True, env=e, cwd=cwd, stdout=subprocess.PIPE, stderr=subprocess.STDOUT, text=True, timeout=timeout)
    return p.returncode, p.stdout


def main():
    d, k = sys.argv[1], sys.argv[2]
    flags = sys.argv[3:]
    meta = json.load(open(os.path.join(d, f"meta{k}.json")))
    cid = meta["property"]
    patch, demo = os.path.join(d, f"patch{k}.diff"), os.path.join(d, f"demo{k}.py")
    sh(f"git -C /repo worktree remove --force {WT}; rm -rf {WT}")
    rc, out = sh(f"git -C /repo worktree add -q {WT} HEAD")
    res = {"dir": d, "k": k, "property": cid, "what_changed": meta.get("what_changed", "")[:300]}
    try:
        pyenv = {"PYTHONPATH": WT, "PYTHONWARNINGS": "ignore", "PYTHONHASHSEED": "0"}
        rc0, o0 = sh(f"/venv/bin/python {demo}", env=pyenv, cwd=WT, timeout=900)
        res["demo_clean_passes"] = rc0 == 0
        rc, out = sh(f"git -C {WT} apply {patch}")
        res["patch_applies"] = rc == 0
        if rc != 0:
            res["apply_error"] = out[-500:]
            return res
        rc1, o1 = sh(f"/venv/bin/python {demo}", env=pyenv, cwd=WT, timeout=900)
        res["demo_fails_with_patch"] = rc1 != 0
        res["demo_output"] = o1[-400:]
        if "--no-suite" not in flags:
            rc, out = sh(f"/venv/bin/python {V}/tools/baseline.py {WT}", timeout=1800)
            res["suite_still_passes"] = rc == 0
            res["suite_tail"] = out.strip().splitlines()[-1] if out.strip() else ""
        tier = "thorough" if "--thorough" in flags else "quick"
        props = [cid]
        if "--all" in flags:
            man = json.load(open(os.path.join(V, "MANIFEST.json")))
            props += [c["property_id"] for c in man["checks"] if c["property_id"] != cid]
        res["checks"] = {}
        for pid in props:
            rc, out = sh(f"cd {V} && ./check {pid} --tier {tier}", env={"SKCHANGE_REPO": WT}, timeout=3600)
            lines = [l for l in out.splitlines() if l.startswith("VIOLATION") or l.startswith("[" + pid)]
            viol = [l for l in lines if l.startswith("VIOLATION")]
            whats = []
            for l in viol[:3]:
                mm = re.search(r"replay=(\S+)", l)
                if mm and os.path.exists(mm.group(1)):
                    r = json.load(open(mm.group(1)))
                    whats.append((("no-failing-input-found: " if l.rstrip().endswith("no-failing-input-found") else "") +
                                  str(r.get("what", r.get("obligations_not_checking", "")))[:300]))
            res["checks"][pid] = {"exit": rc, "violations": len(viol), "what": whats, "summary": (lines[-1] if lines else out[-300:])[:250]}
        res["caught_by_target"] = res["checks"][cid]["exit"] != 0
        res["caught_by"] = [p for p, r in res["checks"].items() if r["exit"] != 0]
    finally:
        sh(f"git -C /repo worktree remove --force {WT}; rm -rf {WT}")
        # restore the generated kernels for /repo itself
        sh(f"cd {V} && /venv/bin/python -c \"from harness import engine; engine.regenerate_gen()\"", env={"PYTHONPATH": f"/repo:{V}"})
    return res


if __name__ == "__main__":
    r = main()
    print(json.dumps(r, indent=1))
