"""Add theorems to a Properties/Cxx.v produced by mk_props.py (or hand-written in the same style).
Usage: add_props.py Cxx "<extra Require line or ''>" alias=lemma ...
Re-derives (header, alias=lemma pairs) from the existing file, appends the new pairs and regenerates the file."""
import re
import subprocess
import sys

cid, extra_req = sys.argv[1], sys.argv[2]
new = sys.argv[3:]
path = f"/verif/coq/Properties/{cid}.v"
src = open(path).read()
i = src.index("Theorem ")
header = src[:i].rstrip() + "\n"
if extra_req and extra_req not in header:
    header += extra_req + "\n"
pairs = re.findall(r"Theorem (\S+) :.*?\nProof\. exact @(\S+)\. Qed\.", src, re.S)
n_thm = len(re.findall(r"(?m)^Theorem ", src))
if len(pairs) != n_thm:
    sys.exit(f"{path}: not in mk_props style ({len(pairs)} of {n_thm} theorems are `exact @lemma`)")
open("/verif/build/_hdr.v", "w").write(header)
args = [f"{a}={l}" for a, l in pairs] + new
sys.exit(subprocess.call(["/venv/bin/python", "/verif/tools/mk_props.py", path, "/verif/build/_hdr.v"] + args))
