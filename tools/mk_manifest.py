"""Regenerates /verif/MANIFEST.json from the table below (kept in one place so the file is always valid)."""
import json
import os

V = os.path.dirname(os.path.dirname(os.path.abspath(__file__)))
BASE_TB = ("Trusted: Coq 8.16.1 kernel incl. its bytecode VM (vm_compute; no native_compute, no extraction); "
           "the correspondence harness (generators, table scorers, canonicalisation, cases.v printer/parser); "
           "CPython/NumPy/pandas/sktime as the platform. ")
CHECKS = {
    "C02": dict(
        technique="Coq proof (induction/invariants over the PELT loop, unbounded n) + model-vs-code correspondence with a verified checker",
        text="Theorems in coq/Properties/C02.v: for ANY cost function satisfying the split inequality, any n >= 2m, pen >= 0, the model of "
             "run_pelt returns an admissible segmentation minimising the penalised cost over all admissible segmentations, every prefix score is "
             "the optimal value F(t) (F proved equal to the min over segmentations), final score = cost of the output; refutation of the "
             "originally pinned immediate pruning. The hand-written model is tied to pelt.py on every run by exact equality of predict / "
             "transform_scores on integer table costs driven through the real PELT class, and the implementation's own output is re-checked "
             "by a Coq checker proved sound (C02_checker_sound).",
        note=BASE_TB + "Model/Pelt.v is hand-written (modelled, not verified: the NumPy array plumbing of run_pelt, BaseCost.evaluate, "
             "check_data). No axioms: every theorem is 'Closed under the global context'. Float rounding of real costs is outside the theorem "
             "(costs enter as exact values).",
        ref="DESIGN.md section 4 / C02"),
    "C13": dict(
        technique="Coq proof (characterisation of the accepted cuts) + exhaustive small-box correspondence against the real evaluate",
        text="Theorems in coq/Properties/C13.v: the model of evaluate's validation returns scores iff the argument is an integer array of "
             "the expected width whose rows are all spaced, strictly increasing and inside [0,n], and then scores exactly those rows; "
             "non-integer, 3-D and wrong-width arrays are rejected. Tie: for all 17 scorer compositions the real evaluate is run on the "
             "complete box [-2,n+2]^k (n=3,4; thorough 3..6) and the accepted set must equal the model's (decided inside Coq), exceptions "
             "must be ValueError, accepted values must equal the direct definition.",
        note=BASE_TB + "Model/Cuts.v is hand-written; harness/direct.py supplies the direct definitions (float tolerance 1e-7 relative). "
             "No axioms.",
        ref="DESIGN.md section 4 / C13"),
}
PENDING = {}
ALL = [f"C{i:02d}" for i in range(1, 19)]


def main():
    checks = []
    for cid in ALL:
        if cid not in CHECKS:
            continue
        c = CHECKS[cid]
        checks.append({
            "property_id": cid,
            "quick_cmd": f"cd /verif && ./check {cid} --tier quick",
            "thorough_cmd": f"cd /verif && ./check {cid} --tier thorough",
            "evidence_file": f"/verif/evidence/{cid}.json",
            "replay_cmd_template": "cd /verif && ./check replay {path}",
            "engine": "coq-proof+correspondence",
            "level_claimed": {"category": c.get("category", "proof"), "text": c["text"], "design_ref": c["ref"]},
            "level_note": c["note"],
            "technique": c["technique"],
        })
    na = [{"property_id": cid, "reason": PENDING.get(cid, "check under construction in this session (not yet claimed); Rocq proof applies, see DESIGN.md section 4")}
          for cid in ALL if cid not in CHECKS]
    man = {
        "version": 1,
        "setup_cmd": "cd /verif && ./check setup",
        "hooks": {"guard": "SKCHANGE_VERIF",
                  "enable": "no source hooks are needed: every observable is reached through the public API and documented extension points; checks export SKCHANGE_VERIF=1 anyway",
                  "baseline_off_cmd": "cd /repo && /venv/bin/python -m pytest -ra -q -p no:cacheprovider --timeout=900 --continue-on-collection-errors",
                  "source_commits": [], "add_only": True},
        "engines": [{"name": "coq-proof+correspondence", "path": "/verif/check",
                     "serves_properties": [c["property_id"] for c in checks],
                     "kind_free_text": "Coq 8.16 development (coq/) + Python correspondence harness (harness/) + fail-closed translator (translator/py2coq.py)"}],
        "checks": checks,
        "notes": "See DESIGN.md. known_findings.json lists recorded findings and fixed defects.",
        "not_applicable": na,
    }
    with open(os.path.join(V, "MANIFEST.json"), "w") as f:
        json.dump(man, f, indent=1)
    import jsonschema
    jsonschema.validate(man, json.load(open("/root/.vp/MANIFEST.schema.json")))
    print("MANIFEST.json written:", len(checks), "checks;", len(na), "not yet claimed")


if __name__ == "__main__":
    main()
