"""Regenerates /verif/MANIFEST.json from the table below (kept in one place so the file is always valid)."""
import json
import os

V = os.path.dirname(os.path.dirname(os.path.abspath(__file__)))
BASE_TB = ("Trusted: Coq 8.16.1 kernel incl. its bytecode VM (vm_compute; no native_compute, no extraction); "
           "the correspondence harness (generators, table scorers, canonicalisation, cases.v printer/parser); "
           "CPython/NumPy/pandas/sktime as the platform. ")
RT = ("Axioms (Reals theorems only): ClassicalDedekindReals.sig_forall_dec, sig_not_dec, FunctionalExtensionality.functional_extensionality_dep, "
      "Classical_Prop.classic (via the stdlib's ln). ")
CHECKS = {
    "C01": dict(
        technique="Coq proof over Reals about the kernels REGENERATED from the source by the translator (prefix-sum identities, likelihood algebra); Coq/Flocq proof of a rounding-error bound for the prefix-sum squared-error cost and refinement proof that the primitive-float program computes the Flocq model; correspondence with exact rational twins evaluated in Coq and bit-exact comparison of the primitive-float program with the code",
        text="Theorems in coq/Properties/C01.v about the kernels regenerated from /repo on every run, with prefix sums given by the model of col_cumsum(init_zero=True): for every data "
             "list and every 0 <= s < e <= n the squared-error cost equals the residual sum of squares of X[s:e] (optimal) / the sum of squared errors around the fixed mean; the "
             "Gaussian variance cost equals n ln(2 pi max(var, 1e-16)) + n, i.e. twice the negative log-likelihood at the MLE above the floor, and twice the negative log-likelihood at "
             "(mean, var) in fixed mode; the multivariate Gaussian cost's scalar assembly equals n p ln 2pi + n logdet + p n (resp. + quadratic form) and reduces to the univariate "
             "theorem for p = 1 (partial for p >= 2: NumPy's cov/slogdet/inv are oracles); evaluate returns one row per interval, each depending only on its own interval (batch / "
             "order / earlier-call independence of the row-wise model). Tie: translator on every run; the exact rational twins generated from the same source are evaluated in Coq "
             "on dyadic data, must bracket the real value and equal the direct definition in Q; kernels with log are re-evaluated from the translator's IR; every built-in cost and "
             "parameter mode is compared with the definition computed from X[s:e]; shapes and batch independence are compared bit for bit; the not-positive-definite error branch is exercised. FLOATING POINT: C01_float_* (Proofs/FloatError.v, FloatKernels2.v; Flocq model "
             "without overflow / underflow) bound the error of sequential summation, of a difference of rounded prefix sums and of the whole squared-error cost (optimal and fixed mean) by "
             "(4.2 e + 6) u resp. (2.04 e + 6) u times the natural scale; C01_primitive_float_* (Proofs/FloatRefine.v) prove that the executable primitive-float program with the kernel's operation "
             "order equals that model whenever a boolean trace checker accepts, hence the value is within the bound of the residual sum of squares; the harness compares that program bit for bit "
             "with L2Cost.evaluate and evaluates the checker on every case.",
        note=BASE_TB + RT + "translator/py2coq.py with its role signatures is trusted and validated on every run; binary64 rounding: proved bound for the squared-error cost (Flocq 4.1.0; "
             "the standard library's FloatAxioms / Uint63 axioms about primitive floats and integers are trusted), conditioned tolerance 1e-9 (sum|terms|+1) for the Gaussian costs; multivariate p >= 2: linear algebra is modelled as oracles, only differential testing against np.linalg.",
        ref="DESIGN.md section 4 / C01"),
    "C06": dict(
        technique="Coq proof over Reals (cost-difference adapters for any cost; CUSUM^2 = L2 change score; optimal <= fixed; split inequalities via ln u <= u - 1; sub-additivity of savings) on regenerated kernels; Coq/Flocq rounding-error bounds and primitive-float refinement for the CUSUM score and the L2 saving (bit-exact twins); exact integer adapter correspondence",
        text="Theorems in coq/Properties/C06.v: for ANY cost function the adapter models give C(s,e) - C(s,k) - C(k,e), C_fixed - C_optimal and C(s,e) - C(a,b) - C(pooled), non-negative "
             "whenever the split inequality / optimal <= fixed holds; for the kernels regenerated from /repo: the squared CUSUM equals the squared-error change score, the L2 saving "
             "equals the saving of the squared-error cost with baseline mean 0, the optimal-parameter cost never exceeds the fixed-parameter cost (L2; Gaussian variance above the "
             "floor), splitting an interval never increases the optimal cost (L2; Gaussian variance above the floor) -- exactly the hypotheses consumed by C02 / C03. Multivariate "
             "Gaussian inequalities are NOT proved (partial): differential run only. Tie: the three real adapters around user-defined exact integer costs must equal the defining "
             "difference exactly (decided in Coq), including the pooled-surroundings refit; built-in compositions and the direct scores are compared with the definitions from the rows; "
             "exact rational twin of l2_saving in Coq; translated cusum kernel re-evaluated.",
        note=BASE_TB + RT + "translator trusted and validated; binary64 rounding outside the theorems; multivariate Gaussian optimal<=fixed / split inequality unproved.",
        ref="DESIGN.md section 4 / C06"),
    "C02": dict(
        technique="Coq proof (induction/invariants over the PELT loop, unbounded n; over Z and over the reals, end-to-end for the built-in squared-error and Gaussian costs; near-optimality within 3 n eps under inexact arithmetic and, via Flocq, for the binary64 run itself, end-to-end from float data for the squared-error cost) + model-vs-code correspondence with a verified checker on integer tables and bit-exact on binary64 tables and from binary64 data, theorem premises evaluated on every float case",
        text="Theorems in coq/Properties/C02.v: for ANY cost function satisfying the split inequality, any n >= 2m, pen >= 0, the model of "
             "run_pelt returns an admissible segmentation minimising the penalised cost over all admissible segmentations, every prefix score is "
             "the optimal value F(t) (F proved equal to the min over segmentations), final score = cost of the output; refutation of the "
             "originally pinned immediate pruning. The hand-written model is tied to pelt.py on every run by exact equality of predict / "
             "transform_scores on integer table costs driven through the real PELT class, and the implementation's own output is re-checked "
             "by a Coq checker proved sound (C02_checker_sound). The same theorems are proved for REAL-valued costs (Model/PeltR.v, tied to the integer model by "
             "the embedding theorem C02_real_model_extends_integer_model), and with the kernels regenerated from the source the split hypothesis is discharged: "
             "PELT on the squared-error cost (one or several columns) and on the Gaussian variance cost (all admissible segments above the variance floor) returns an exact "
             "minimiser (C02_builtin_*_end_to_end). " + "The same search loop is also defined over an arbitrary number type (Model/Generic.v): its Z instance is proved equal to this model and its binary64 instance (Coq primitive floats) is executed on the float score tables of the REAL built-in scorers and must reproduce the real detector bit for bit; a glue stream compares repeated index labels, shared column labels, large int64 data, permuted columns, the no-detection format, caller-data mutation and aliasing of earlier results against the plain float64 array. ",
        note=BASE_TB + RT + "PrimFloat (binary64 add / comparisons) in the float-table checker only. Model/Pelt.v is hand-written (modelled, not verified: the NumPy array plumbing of run_pelt, BaseCost.evaluate, "
             "check_data). The theorems over Z are 'Closed under the global context'; those over R use the real-number axioms listed above. Float rounding of real costs is "
             "outside the optimality theorem (costs enter as exact values); the binary64 stream ties the loop, not the optimality.",
        ref="DESIGN.md section 4 / C02"),
    "C03": dict(
        technique="Coq proof (DP invariants with delayed pruning, best-subset exchange lemma; unbounded n, p; over Z and over the reals, end-to-end for the built-in L2 saving; near-optimality within 3 n eps under inexact arithmetic and, via Flocq, for the binary64 run itself, end-to-end from float data for univariate CAPA with the L2 saving) + model-vs-code correspondence with a verified checker on integer tables, bit-exact on binary64 savings and from binary64 data (generic dynamic programme on primitive floats, theorem premises evaluated on every float case) and against an exact-rational optimum",
        text="Theorems in coq/Properties/C03.v: for ANY per-column savings that are non-negative and sub-additive, non-negative penalties, 2 <= m <= M, "
             "the model of run_base_capa returns a valid anomaly set maximising the total penalised saving over all valid sets; each prefix score equals the "
             "optimum G(t) w.r.t. the true best-subset penalised saving (Pbest proved = max over non-empty component sets); re-evaluation = final score; "
             "ignore_point_anomalies drops exactly the points; scores non-negative and non-decreasing; refutation of the pinned immediate pruning. Tie: "
             "equality of predict / transform_scores with the real CAPA and MVCAPA on integer table savings (both ignore settings), and a sound Coq checker "
             "re-checks the implementation's own output. The hypotheses are discharged for the built-in L2 saving (non-negative, sub-additive) and for every cost-derived saving "
             "whose optimised cost satisfies the split inequality (C03_builtin_*, C03_cost_derived_savings_subadditive; over the reals, on the regenerated kernels). A glue stream compares "
             "repeated index labels, shared column labels, large int64 data, permuted columns, the no-detection format, caller-data mutation and aliasing against the plain array.",
        note=BASE_TB + RT + "Model/Capa.v is hand-written. The penalty callables/assigned penalties are inputs (C15 covers their formulas). The optimality theorems are closed; the three saving lemmas are over R.",
        ref="DESIGN.md section 4 / C03"),
    "C07": dict(
        technique="Coq proof (greedy-loop invariants, interval arithmetic; unbounded n) + Coq proof that the specification holds for ANY strict weak order on the scores, in particular binary64 without NaN (order embedding into the Z model; PrimFloat.ltb proved a strict weak order) + model-vs-code correspondence with direct spec checkers on integer tables and bit-exact on binary64 tables; via Flocq, soundness and completeness up to the proved CUSUM rounding error for the binary64 run from float data (one column), premises evaluated on every from-data case",
        text="Theorems in coq/Properties/C07.v: candidate intervals inside [0,n] with lengths in [2m, min(max,n)] and non-empty (given the float front-end oracle's "
             "postconditions); per-interval score/maximiser = max/first argmax over admissible splits; every changepoint supported by an above-threshold interval "
             "containing it; no above-threshold interval left without a changepoint; changepoints >= m apart and from the ends; raising the threshold only removes "
             "changepoints; totality. Tie: exact equality of predict and the scores table with the real SeededBinarySegmentation on integer change scores, plus the "
             "property clauses checked directly on the implementation's output inside Coq, plus implementation-level threshold monotonicity. " + "The same search loop is also defined over an arbitrary number type (Model/Generic.v): its Z instance is proved equal to this model and its binary64 instance (Coq primitive floats) is executed on the float score tables of the REAL built-in scorers and must reproduce the real detector bit for bit; a glue stream compares repeated index labels, shared column labels, large int64 data, permuted columns, the no-detection format, caller-data mutation and aliasing of earlier results against the plain float64 array. ",
        note=BASE_TB + "Model/Sbs.v hand-written; the floating-point front end of make_seeded_intervals (geomspace/round/log) is an ORACLE recomputed by the harness "
             "with the library's NumPy expressions (validated on every configuration, not proved). No axioms; PrimFloat (binary64) in the float-table checker only.",
        ref="DESIGN.md section 4 / C07"),
    "C08": dict(
        technique="Coq proof (run/peak characterisation by induction over the score list) + Coq proof that the specification holds for ANY strict weak order on the scores, in particular binary64 without NaN (order embedding into the Z model; PrimFloat.ltb proved a strict weak order) + model-vs-code correspondence on integer tables and bit-exact on binary64 tables; via Flocq, soundness and completeness up to the proved CUSUM rounding error for the binary64 run from float data (one column), premises evaluated on every from-data case",
        text="Theorems in coq/Properties/C08.v: score at t = change score of (t-b, t, t+b) on [b, n-b], 0 elsewhere; `where` = exactly the maximal runs; changepoints = "
             "first maxima of maximal above-threshold runs of length >= min_detection_interval; sorted; in [b, n-b] for thr >= 0; time reversal maps scores at t to n-t; "
             "refutation of the pinned one-short left window. Tie: exact equality of transform_scores / predict with the real MovingWindow on integer change scores and "
             "an implementation-level reversal run. " + "The same search loop is also defined over an arbitrary number type (Model/Generic.v): its Z instance is proved equal to this model and its binary64 instance (Coq primitive floats) is executed on the float score tables of the REAL built-in scorers and must reproduce the real detector bit for bit; a glue stream compares repeated index labels, shared column labels, large int64 data, permuted columns, the no-detection format, caller-data mutation and aliasing of earlier results against the plain float64 array. ",
        note=BASE_TB + "Model/Mw.v hand-written. No axioms; PrimFloat (binary64) in the float-table checker only. Thresholds >= 0 (a tuned threshold below zero is handled by the code since fix D25a and is exercised by C04 / C14).",
        ref="DESIGN.md section 4 / C08"),
    "C09": dict(
        technique="Coq proof (greedy-loop invariants, candidate-set characterisation) + Coq proof that the specification holds for ANY strict weak order on the scores, in particular binary64 without NaN (order embedding into the Z model; PrimFloat.ltb proved a strict weak order) + model-vs-code correspondence with direct spec checkers on integer tables and bit-exact on binary64 tables; via Flocq, soundness / completeness / well-formedness up to the proved rounding error of the L2 local anomaly score for the binary64 run from float data (one column), premise evaluated on every from-data case",
        text="Theorems in coq/Properties/C09.v: inner candidates = exactly the intervals strictly inside with length >= m and >= m surrounding samples; per-interval score = max "
             "over them; anomalies sorted, disjoint, length >= m, strictly inside the data; picks supported / complete / threshold-monotone; totality; m=1 length-2 intervals "
             "have no candidate (pinned crash). Tie: exact equality of predict and the scores table (incl. argmax columns) with the real CircularBinarySegmentation on integer "
             "local anomaly scores; clauses re-checked on the implementation's output in Coq. " + "The same search loop is also defined over an arbitrary number type (Model/Generic.v): its Z instance is proved equal to this model and its binary64 instance (Coq primitive floats) is executed on the float score tables of the REAL built-in scorers and must reproduce the real detector bit for bit; a glue stream compares repeated index labels, shared column labels, large int64 data, permuted columns, the no-detection format, caller-data mutation and aliasing of earlier results against the plain float64 array. ",
        note=BASE_TB + "Model/Cbs.v hand-written; candidate intervals share the SBS float front-end oracle. No axioms; PrimFloat (binary64) in the float-table checker only.",
        ref="DESIGN.md section 4 / C09"),
    "C04": dict(
        technique="Coq proof (well-formedness corollaries of the search-loop invariants, for arbitrary score functions over Z and -- for PELT, CAPA / MVCAPA and the greedy detectors -- for ANY number type incl. binary64 with NaN) + verified checkers applied to the real detectors' outputs",
        text="Theorems in coq/Properties/C04.v, for ARBITRARY score functions (no split hypothesis): PELT and seeded binary segmentation changepoints are strictly increasing, lie "
             "in [1, n-1], leave every segment incl. the first and last >= min_segment_length; moving-window changepoints are strictly increasing in [bandwidth, n-bandwidth] "
             "(threshold >= 0); CAPA / MVCAPA anomalies are sorted, pairwise disjoint, non-empty, inside [0,n], collective ones of length in [min,max]_segment_length and point ones "
             "of length 1, with ignore_point_anomalies removing exactly the latter; circular-binary-segmentation anomalies are sorted, disjoint, of length >= min_segment_length and "
             "strictly inside the data; MVCAPA column lists are non-empty, distinct and < p; labels are 1..K on a 0..K-1 range index; the boolean checkers used on the implementation "
             "are proved sound. Tie: all seven real detectors (built-in scorers on hostile data at boundary settings, and PELT/CAPA/MVCAPA on arbitrary integer tables) are run and "
             "their predict outputs checked by those verified checkers inside Coq plus frame-structure clauses; model = implementation equality is established by C02/C03/C07/C08/C09.",
        note=BASE_TB + "No axioms. The frame structure (pandas dtypes, IntervalIndex closedness) is checked in Python.",
        ref="DESIGN.md section 4 / C04"),
    "C05": dict(
        technique="Coq proof (pointwise label characterisation and exact round trips of the index-blind converter models) + model-vs-code correspondence over index kinds",
        text="Theorems in coq/Properties/C05.v: for every valid sparse output (incl. adjacent, length-1 and end-touching events) the dense labels are the segment number / "
             "the label of the covering anomaly / 0 (per affected column for the subset variant), have length n, and dense_to_sparse(sparse_to_dense y) = y (columns as sets); "
             "refutation of the originally pinned run-splitting. The models never receive X's index, so any index dependence of the code is a correspondence failure. Tie: "
             "the three pairs of static converters and transform() of stub detectors returning hand-built / random valid outputs are run under six index kinds and two column "
             "labellings and must equal the model exactly (decided in Coq), dense output must carry X's own index; the seven real detectors are run under every index kind.",
        note=BASE_TB + "Model/Convert.v hand-written (pandas IntervalIndex.get_indexer, diff, groupby are the platform). No axioms.",
        ref="DESIGN.md section 4 / C05"),
    "C14": dict(
        technique="Coq proof (characterisation of the documented domain; totality / non-empty search ranges of the algorithm models at the boundary values) + exhaustive configuration-grid correspondence",
        text="Theorems in coq/Properties/C14.v: Model/Config.expected says 'completes' exactly when the configuration is in the documented domain, the data have no missing values, "
             "n >= the documented minimum and the scorer can score segments that short; it says 'must raise ValueError' exactly when the configuration is outside the domain, values "
             "are missing or the data are too short; the domains are spelled out per detector; at the boundary values the algorithm models are total with non-empty search ranges "
             "(seeded intervals exist for max_interval_length = 2 min_segment_length and every n >= 2m; circular binary segmentation is total for m = 1; bandwidth 1 gives the symmetric "
             "cut; PELT is admissible at n = 2m). Tie: the complete grid of boundary and interior hyper-parameter values of all seven detectors x p x n around the minimum x NaN is "
             "run through construct -> fit -> predict; the outcome class must equal the model's (decided in Coq); any exception other than ValueError is a violation.",
        note=BASE_TB + "Model/Config.v hand-written (abstraction of a configuration to the quantities the checks inspect). `level`, penalty family names and the not-positive-definite "
             "branch are outside this grid (see assumptions in the evidence). When the scorer's min_size exceeds the requested segment length both ValueError and completion are "
             "permitted (MayRaiseValueError). No axioms.",
        ref="DESIGN.md section 4 / C14"),
    "C15": dict(
        technique="Coq proof over Reals of the formulas REGENERATED from the source by the translator, Q model of np.quantile with exceedance bound, PELT penalty monotonicity (over Z, over R, and end to end for the squared-error cost); correspondence on a parameter grid",
        text="Theorems in coq/Properties/C15.v about the kernels regenerated from /repo on every run: default penalties/thresholds equal 2 p log n, 2 p sqrt(log n), 2 p log(n L); "
             "CAPA's penalty = scale (k + 2 sqrt(k log n) + 2 log n), proportional to the scale, >= 0; dense = CAPA's penalty for p k parameters with zero betas; sparse = 2 log n + "
             "2 log(k p) per component, times the scale; both non-negative and non-decreasing in the number of components; the combined family is the pointwise minimum of the three "
             "cumulative sequences with non-negative betas, proportional to a common scale (intermediate sequence = SciPy oracle); tuned threshold (Q model of np.quantile) lies between "
             "the neighbouring order statistics and at most N-1-floor((N-1)(1-level)) scores exceed it; the literal 'fraction level' claim is refuted (known finding D18); a larger penalty "
             "never increases PELT's number of changepoints (from the C02 optimality theorems). Tie: every module-level penalty function and every fitted threshold_/penalty_ attribute is "
             "compared on a grid with the translator's own IR and with the documented formula; tuned thresholds are checked against the Q model inside Coq on the detectors' own scores; "
             "PELT monotonicity is run on exact table costs and real data.",
        note=BASE_TB + "Axioms (Reals theorems only): ClassicalDedekindReals.sig_forall_dec, sig_not_dec, FunctionalExtensionality.functional_extensionality_dep, and Classical_Prop.classic "
             "via the stdlib's ln. translator/py2coq.py and its role signatures are trusted, validated here by evaluating its IR against the real functions. scipy.stats.chi2 and "
             "np.quantile are modelled/oracles, binary64 rounding is outside the theorems (rel. tolerance 1e-11).",
        ref="DESIGN.md section 4 / C15"),
    "C16": dict(
        technique="Coq proof (first-argmax prefix of the decreasing order is the optimal non-empty subset; exchange argument) + model-vs-code correspondence with a spec checker",
        text="Theorems in coq/Properties/C16.v: the model of find_affected_components returns the first k columns of the decreasing order of the savings, k >= 1 the smallest size "
             "maximising the cumulative saving minus the per-component penalties; the columns are distinct, valid and listed by non-increasing saving; no excluded column has a larger "
             "saving than an included one; the subset attains the best-subset value Pbest over ALL non-empty subsets; a column permutation of the data permutes the reported columns "
             "(tie-free case); sub_s2d marks exactly the reported columns on exactly the anomaly's rows. Tie: per anomaly reported by the real MVCAPA on integer table savings "
             "(p = 2..6; sparse penalty made a half-integer so arithmetic is exact) the icolumns must satisfy every clause (decided in Coq) and equal the model on tie-free rows; "
             "transform must equal the dense marking model.",
        note=BASE_TB + "Model/Capa.affected hand-written. NumPy's argsort order among EQUAL savings is unspecified: equality with the model is required only when the savings are "
             "pairwise distinct; the clauses themselves are checked on every row. No axioms.",
        ref="DESIGN.md section 4 / C16"),
    "C17": dict(
        technique="Coq proof (groupby-on-dense-labels model = filter of the changepoint partition, for any statistic) + exact model-vs-code correspondence",
        text="Theorems in coq/Properties/C17.v, for ANY statistic, bounds, n >= 1 and valid changepoint list: the groups obtained from the wrapped detector's dense labels are exactly "
             "the segments delimited by its changepoints; the anomaliser's output is exactly the sub-list of those segments whose statistic is below stat_lower or above stat_upper "
             "(iff characterisation), in order, each as its own interval (adjacent flagged segments are never merged), sorted, disjoint, non-empty, inside [0,n]. Tie: the real "
             "StatThresholdAnomaliser around a stub detector with prescribed changepoints and around PELT / MovingWindow / SeededBinarySegmentation, with exact integer statistics, "
             "must equal both the model and its specification (decided in Coq); mean/median are compared with a direct computation under a decision margin; every case checks that "
             "the user's detector stays unfitted and unchanged while a clone is fitted (the object-level statement is C10's model).",
        note=BASE_TB + "Model/Anomaliser.v hand-written on top of Model/Convert.v; pandas concat / groupby are the platform. No axioms.",
        ref="DESIGN.md section 4 / C17"),
    "C18": dict(
        technique="Coq proof (placement / validation theorems for any number type) + bit-exact model-vs-code correspondence with the binary64 (PrimFloat) instance",
        text="Theorems in coq/Properties/C18.v, for ANY number type and affine map: output shape n x p; sequential in-place application of pairwise disjoint segments gives, "
             "row by row, affine(mean_k, var_k, Z_i) inside the k-th requested segment / anomaly and Z_i elsewhere; consecutive changepoint segments are disjoint and cover [0,n); "
             "alternating data has changepoints at the multiples of the segment length with the changed parameters on the first n_affected columns of odd segments; the generators "
             "return Err exactly for the listed inconsistent arguments (counts, positions past the end, negative positions, empty / inverted / non-pair anomalies, non-broadcastable "
             "vectors); outliers are added to exactly the listed rows, once each, and evenly spaced position lists are distinct, start at row 0, end at row n-1 and number k. "
             "Determinism holds by construction (the model is a function of its arguments and Z). Tie: the real generators are run on random and invalid argument sets; the binary64 "
             "instance of the model, fed the generator's own standard-normal output for the same seed, must equal the output bit for bit (decided in Coq with primitive floats); "
             "model Err <-> ValueError; repeated calls, frame shape, index and column names are checked.",
        note=BASE_TB + "Primitive floats (PrimFloat add / mul / sqrt, IEEE binary64) are part of the kernel's trusted computation here; no axioms ('Closed under the global context'). "
             "scipy's multivariate_normal.rvs supplies Z; np.linspace's float front end and np.round (n_affected) are oracles recomputed with the library's expressions and checked "
             "against positions_ok. Calls without any anomaly are outside the domain (p is derived from the first mean).",
        ref="DESIGN.md section 4 / C18"),
    "C10": dict(
        technique="Coq proof (state-machine model of the object heap; non-interference, fresh-object equivalence, update = fit on combined data, by induction over ALL histories) + random-history correspondence with a Coq-validated twin",
        text="Theorems in coq/Properties/C10.v about Model/Objects.v (scorer objects refitted in place by every predict and shared between detectors, fitted attributes, remembered "
             "training data, stored scores, sktime reset/clone/set_params), for histories of ANY length: an observation reads only the current hyper-parameters, the nested scorers' "
             "hyper-parameters, the fit record and the argument; a fitted detector's record was computed from its CURRENT hyper-parameters; no benign operation (earlier predict / "
             "transform / evaluate on any data, fits of scorers, any operation on other detectors sharing its scorers, construction, cloning) changes a later observation, also for "
             "whole sequences; the observation equals that of a freshly constructed detector fitted the same way (hypothesis: no nested hyper-parameter changed behind its back; the "
             "violation of that hypothesis is exhibited as a theorem and recorded as finding D20); update is fit on the combined data; set_params un-fits; clone is an unfitted copy "
             "leaving the original untouched; hyper-parameters change only through set_params. Tie: random histories on the real objects (detectors sharing cost objects, datasets of "
             "different n and p): every output must equal that of a fresh object built from the model's dependency tuple, NotFittedError exactly where the model says, final fitted "
             "flags / hyper-parameters equal, caller data untouched; the Python twin that supplies the tuples is replayed and compared with the proved model inside Coq on every history.",
        note=BASE_TB + "Thin model: the proof carries the state discipline; that the real objects obey it is established by the history correspondence. 'Last fit' of a shared scorer = "
             "last fit applied to that object by anyone. Composite scorers held by the user (ChangeScore(cost) shared as objects) are outside the model. No axioms.",
        ref="DESIGN.md section 4 / C10"),
    "C11": dict(
        technique="Coq (container-blind model, theorems immediate by construction) + exhaustive categorical correspondence against the reference representation",
        text="Model/Containers.v normalises every input (container kind, dtype, index kind, column labels, values) to its values before any algorithm runs; the theorems of "
             "coq/Properties/C11.v (same values => same result; dense output carries the input's own index; an ndarray gets the default range index) hold by construction -- "
             "deliberately, so that ANY dependence of the real code on the representation is a correspondence failure. Tie (this is where the assurance comes from): all seven "
             "detectors x {predict, transform, transform_scores, update} and eight scorers x evaluate are run on every combination of {DataFrame, 2-D ndarray, Series, 1-D ndarray} x "
             "{float64, int64} x {RangeIndex, offset RangeIndex, DatetimeIndex, PeriodIndex} x {default, string, 'labels'} column labels of the same integer-valued data; every result "
             "must equal the reference representation's, bit for bit for scores, and dense outputs must carry the input's index.",
        note=BASE_TB + "Partial by nature: pandas / sktime input checking is not modelled; the theorem is thin and the exhaustive categorical run carries the weight. The reference "
             "representation's behaviour is tied to the algorithm models by C02-C09. No axioms.",
        ref="DESIGN.md section 4 / C11"),
    "C12": dict(
        technique="Coq proof (kernel symmetries over Reals on regenerated kernels; exact extensionality / permutation / reversal theorems for every detector model; END-TO-END invariance of the outputs of PELT, moving window, seeded and circular binary segmentation over the reals under shift / positive scaling / reversal) + metamorphic correspondence runs",
        text="Theorems in coq/Properties/C12.v. Kernels regenerated from /repo: shift invariance of the optimal-parameter squared-error and Gaussian costs and of CUSUM; Gaussian cost "
             "changes by n ln a^2 under scaling so Gaussian change and local anomaly scores are scale invariant (above the variance floor); time reversal maps cost, saving, CUSUM "
             "and change-score values to those of the mirrored cuts; per-column outputs commute with column permutations and their sum is permutation invariant. Detector models "
             "(exact, any score function): PELT, seeded / circular binary segmentation, moving window and CAPA are functions of the aggregated score values only; the penalised saving "
             "is invariant under permutation of the column savings, CAPA/MVCAPA output is unchanged and MVCAPA's affected columns are permuted with the data (tie-free); PELT's optimal "
             "penalised cost is invariant under time reversal; moving-window scores at t map to n-t. Tie: translator for kernels; metamorphic pairs of runs of every real scorer "
             "(tolerance, exact permutation of per-column outputs) and detector (scores with tolerance, discrete outputs outside the rounding margin), and exact permuted table "
             "costs / savings through PELT, CAPA, MVCAPA.",
        note=BASE_TB + RT + "The step from 'equal score tables' to 'equal detections' is the extensionality theorems; the step from kernel identities over R to binary64 outputs "
             "is outside the theorems (margin rule in the metamorphic run). Multivariate Gaussian symmetries are tested, not proved.",
        ref="DESIGN.md section 4 / C12"),
    "C13": dict(
        technique="Coq proof (characterisation of the accepted cuts; machine-integer theorems: wrap-around refutations of the pinned code and exactness after conversion to int64) + exhaustive small-box correspondence against the real evaluate + narrow-dtype stream",
        text="Theorems in coq/Properties/C13.v: the model of evaluate's validation returns scores iff the argument is an integer array of "
             "the expected width whose rows are all spaced, strictly increasing and inside [0,n], and then scores exactly those rows; "
             "non-integer, 3-D and wrong-width arrays are rejected. Tie: for all 17 scorer compositions the real evaluate is run on the "
             "complete box [-2,n+2]^k (n=3,4; thorough 3..6) and the accepted set must equal the model's (decided inside Coq), exceptions "
             "must be ValueError, accepted values must equal the direct definition.",
        note=BASE_TB + "Model/Cuts.v is hand-written; harness/direct.py supplies the direct definitions (float tolerance 1e-7 relative). "
             "No axioms.",
        ref="DESIGN.md section 4 / C13"),
}
PENDING = {}
ALL = [f"C{i:02d}" for i in range(1, 19)]


def main():
    checks = []
    for cid in ALL:
        if cid not in CHECKS:
            continue
        c = CHECKS[cid]
        checks.append({
            "property_id": cid,
            "quick_cmd": f"cd /verif && ./check {cid} --tier quick",
            "thorough_cmd": f"cd /verif && ./check {cid} --tier thorough",
            "evidence_file": f"/verif/evidence/{cid}.json",
            "replay_cmd_template": "cd /verif && ./check replay {path}",
            "engine": "coq-proof+correspondence",
            "level_claimed": {"category": c.get("category", "proof"), "text": c["text"], "design_ref": c["ref"]},
            "level_note": c["note"],
            "technique": c["technique"],
        })
    na = [{"property_id": cid, "reason": PENDING.get(cid, "check under construction in this session (not yet claimed); Rocq proof applies, see DESIGN.md section 4")}
          for cid in ALL if cid not in CHECKS]
    man = {
        "version": 1,
        "setup_cmd": "cd /verif && ./check setup",
        "hooks": {"guard": "SKCHANGE_VERIF",
                  "enable": "no source hooks are needed: every observable is reached through the public API and documented extension points; checks export SKCHANGE_VERIF=1 anyway",
                  "baseline_off_cmd": "cd /repo && /venv/bin/python -m pytest -ra -q -p no:cacheprovider --timeout=900 --continue-on-collection-errors",
                  "source_commits": [], "add_only": True},
        "engines": [{"name": "coq-proof+correspondence", "path": "/verif/check",
                     "serves_properties": [c["property_id"] for c in checks],
                     "kind_free_text": "Coq 8.16 development (coq/) + Python correspondence harness (harness/) + fail-closed translator (translator/py2coq.py)"}],
        "checks": checks,
        "notes": "See DESIGN.md. known_findings.json lists recorded findings and fixed defects.",
        "not_applicable": na,
    }
    with open(os.path.join(V, "MANIFEST.json"), "w") as f:
        json.dump(man, f, indent=1)
    import jsonschema
    jsonschema.validate(man, json.load(open("/root/.vp/MANIFEST.schema.json")))
    print("MANIFEST.json written:", len(checks), "checks;", len(na), "not yet claimed")


if __name__ == "__main__":
    main()
