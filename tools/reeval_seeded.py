"""Re-evaluate every stored seeded change against the CURRENT checks and the CURRENT /repo HEAD (regression test of the machinery).
  /venv/bin/python tools/reeval_seeded.py [out.jsonl] [id-prefix ...]
For each seeded/<id>/: scratch worktree of /repo, apply patch.diff (a patch that no longer applies because a later fix touched the same lines is
recorded as such), demo on the patched tree, the target property's quick check through SKCHANGE_REPO.  Never touches /repo's working tree."""
import glob
import json
import os
import subprocess
import sys

V = os.path.dirname(os.path.dirname(os.path.abspath(__file__)))
WT = os.environ.get("VERIF_WT", "/var/tmp/wt_reeval")
out = sys.argv[1] if len(sys.argv) > 1 else os.path.join(V, "build", "reeval.jsonl")
prefixes = sys.argv[2:]


def sh(cmd, env=None, cwd=None, timeout=3600):
    e = dict(os.environ)
    e.update(env or {})
    p = subprocess.run(cmd, shell=True, env=e, cwd=cwd, stdout=subprocess.PIPE, stderr=subprocess.STDOUT, text=True, timeout=timeout)
    return p.returncode, p.stdout


for d in sorted(glob.glob(os.path.join(V, "seeded", "*"))):
    sid = os.path.basename(d)
    if prefixes and not any(sid.startswith(p) for p in prefixes):
        continue
    meta = json.load(open(os.path.join(d, "meta.json")))
    cid = meta.get("breaks_property") or meta.get("property")
    res = {"id": sid, "property": cid}
    sh(f"git -C /repo worktree remove --force {WT}; rm -rf {WT}")
    sh(f"git -C /repo worktree add -q {WT} HEAD")
    try:
        rc, o = sh(f"git -C {WT} apply {d}/patch.diff")
        res["applies"] = rc == 0
        if rc == 0:
            rc1, o1 = sh(f"/venv/bin/python {d}/demo.py", env={"PYTHONPATH": WT, "PYTHONWARNINGS": "ignore", "PYTHONHASHSEED": "0"}, cwd=WT, timeout=900)
            res["demo_fails_with_patch"] = rc1 != 0
            rc2, o2 = sh(f"cd {V} && ./check {cid} --tier quick", env={"SKCHANGE_REPO": WT})
            res["caught"] = rc2 != 0
            res["summary"] = ([l for l in o2.splitlines() if l.startswith("[" + cid)] or [o2[-200:]])[-1][:200]
    finally:
        sh(f"git -C /repo worktree remove --force {WT}; rm -rf {WT}")
    open(out, "a").write(json.dumps(res) + "\n")
sh(f"cd {V} && /venv/bin/python -c \"from harness import engine; engine.regenerate_gen()\"", env={"PYTHONPATH": f"/repo:{V}"})
open(out, "a").write("DONE\n")
