#!/bin/bash
# usage: tools/seeded_batch.sh <out.jsonl> dir:k dir:k ...   (sequential; appends one JSON object per line)
out=$1; shift
for dk in "$@"; do
  d=${dk%%:*}; k=${dk##*:}
  /venv/bin/python /verif/tools/try_seeded.py $d $k $SEEDED_FLAGS 2>&1 | grep -v conda | /venv/bin/python -c "import sys,json; print(json.dumps(json.load(sys.stdin)))" >> $out
done
