"""Generate a Properties/Cxx.v skeleton: for each (alias, lemma) ask Coq for the lemma's statement (Check) and
emit `Theorem alias : <statement>. Proof. exact lemma. Qed.` followed by Print Assumptions lines.
Usage: mk_props.py <out.v> <header-file> alias=lemma ...   (header-file holds the comment + Require lines)"""
import re
import subprocess
import sys

out, header = sys.argv[1], open(sys.argv[2]).read()
pairs = [a.split("=") for a in sys.argv[3:]]
probe = header + "\nSet Printing Width 100000. Set Printing Depth 100000.\n" + "".join(
    f'Goal True. idtac "@@{al}". exact I. Qed.\nCheck @{lm}.\n' for al, lm in pairs)
open("/verif/build/_probe.v", "w").write(probe)
p = subprocess.run("coqc -Q /verif/coq SK /verif/build/_probe.v", shell=True, capture_output=True, text=True)
if p.returncode:
    sys.exit(p.stdout + p.stderr)
parts = re.split(r"@@(\S+)\n", p.stdout)
body = [header, ""]
for k in range(1, len(parts), 2):
    al, txt = parts[k], parts[k + 1].strip()
    lm = dict(pairs)[al]
    ty = txt.split(":", 1)[1].strip()
    ty = re.sub(r"\s+", " ", ty)
    body.append(f"Theorem {al} : {ty}.\nProof. exact @{lm}. Qed.\n")
body += [f"Print Assumptions {al}." for al, _ in pairs]
open(out, "w").write("\n".join(body) + "\n")
print("wrote", out, len(pairs), "theorems")
