"""Store the evaluated seeded changes of one round under /verif/seeded/R<round>-<Cxx>-<k>/ (patch.diff, demo.py, meta.json).
  /venv/bin/python tools/store_seeded.py <round> <dir with out<round>_Cxx/> <results_first_pass.jsonl> <results_final.jsonl> "<origin text>"
The two result files are the outputs of tools/try_seeded.py (one JSON object per line) before and after the checks were strengthened."""
import json
import os
import shutil
import sys

V = os.path.dirname(os.path.dirname(os.path.abspath(__file__)))
rnd, base, first_f, final_f, origin = sys.argv[1:6]


def load(path):
    out = {}
    if os.path.exists(path):
        for line in open(path):
            if line.startswith("{"):
                d = json.loads(line)
                out[(d["property"], str(d["k"]))] = d
    return out


first, final = load(first_f), load(final_f)
n = 0
for (cid, k), fin in sorted(final.items()):
    src = os.path.join(base, f"out{rnd}_{cid}")
    dst = os.path.join(V, "seeded", f"R{rnd}-{cid}-{k}")
    os.makedirs(dst, exist_ok=True)
    shutil.copy(os.path.join(src, f"patch{k}.diff"), os.path.join(dst, "patch.diff"))
    shutil.copy(os.path.join(src, f"demo{k}.py"), os.path.join(dst, "demo.py"))
    m = json.load(open(os.path.join(src, f"meta{k}.json")))
    f1 = first.get((cid, k), {})
    chk = fin.get("checks", {}).get(cid, {})
    meta = {"id": f"R{rnd}-{cid}-{k}", "round": int(rnd), "breaks_property": cid, "files": m.get("files"), "what_changed": m.get("what_changed"),
            "needs_to_manifest": m.get("needs_to_manifest"), "why_tests_pass": m.get("why_tests_pass"), "origin": origin,
            "confirmed": {"demo_passes_on_clean_tree": fin.get("demo_clean_passes"), "demo_fails_with_patch": fin.get("demo_fails_with_patch"),
                          "pinned_suite_still_passes_with_patch": fin.get("suite_still_passes")},
            "what_was_run": "tools/try_seeded.py in a copy of /verif (scratch worktree of /repo, demo on clean and patched tree, tools/baseline.py on the patched tree, "
                            "`SKCHANGE_REPO=<worktree> ./check Cxx --tier quick`)",
            "result_first_pass (checks as they stood when the change was written)": ("caught by " + ", ".join(f1.get("caught_by", [])) if f1.get("caught_by") else
                                                                                      ("missed by the target check" if f1 else "not run")),
            "result_final": {"caught_by_target_check": bool(fin.get("caught_by_target")), "exit": chk.get("exit"), "report": chk.get("what", [])[:2], "summary": chk.get("summary")}}
    json.dump(meta, open(os.path.join(dst, "meta.json"), "w"), indent=1)
    n += 1
print("stored", n, "changes of round", rnd)
