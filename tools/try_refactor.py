"""Run every quick check against a BEHAVIOUR-PRESERVING change (false-alarm test).
  /venv/bin/python tools/try_refactor.py <patch.diff> [Cxx ...]      prints a JSON line {patch, alarms: {Cxx: summary}}"""
import json
import os
import re
import subprocess
import sys

V = os.path.dirname(os.path.dirname(os.path.abspath(__file__)))
WT = "/var/tmp/wt_refactor"


def sh(cmd, env=None, timeout=3600):
    e = dict(os.environ)
    if env:
        e.update(env)
    p = subprocess.run(cmd, shell=True, env=e, stdout=subprocess.PIPE, stderr=subprocess.STDOUT, text=True, timeout=timeout)
    return p.returncode, p.stdout


patch = sys.argv[1]
props = sys.argv[2:] or [c["property_id"] for c in json.load(open(os.path.join(V, "MANIFEST.json")))["checks"]]
sh(f"git -C /repo worktree remove --force {WT}; rm -rf {WT}")
sh(f"git -C /repo worktree add -q {WT} HEAD")
res = {"patch": patch, "alarms": {}, "quiet": []}
try:
    rc, out = sh(f"git -C {WT} apply {patch}")
    if rc:
        res["apply_error"] = out[-300:]
    else:
        for pid in props:
            rc, out = sh(f"cd {V} && ./check {pid} --tier quick", env={"SKCHANGE_REPO": WT})
            if rc:
                whats = []
                for l in out.splitlines():
                    mm = re.search(r"replay=(\S+)", l)
                    if l.startswith("VIOLATION") and mm and os.path.exists(mm.group(1)):
                        r = json.load(open(mm.group(1)))
                        whats.append(str(r.get("what", r.get("obligations_not_checking", r.get("correspondence_mismatches"))))[:400])
                res["alarms"][pid] = whats[:2]
            else:
                res["quiet"].append(pid)
finally:
    sh(f"git -C /repo worktree remove --force {WT}; rm -rf {WT}")
    sh(f"cd {V} && /venv/bin/python -c \"from harness import engine; engine.regenerate_gen()\"", env={"PYTHONPATH": f"/repo:{V}"})
print(json.dumps(res))
