"""Print a Python file without docstrings/blank lines, with line numbers (reading aid)."""
import ast,sys
src=open(sys.argv[1]).read()
tree=ast.parse(src)
lines=src.split('\n')
rm=set()
for node in ast.walk(tree):
    if isinstance(node,(ast.FunctionDef,ast.ClassDef,ast.Module)):
        b=node.body
        if b and isinstance(b[0],ast.Expr) and isinstance(b[0].value,ast.Constant) and isinstance(b[0].value.value,str):
            for i in range(b[0].lineno-1,b[0].end_lineno): rm.add(i)
for i,l in enumerate(lines):
    if i not in rm and l.strip(): print(f"{i+1:4d} {l}")
