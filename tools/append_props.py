"""Append `Theorem alias : <statement of lemma>. Proof. exact @lemma. Qed.` + Print Assumptions to a HAND-WRITTEN Properties/Cxx.v.
Usage: append_props.py Cxx "<extra Require line>" alias=lemma ..."""
import re
import subprocess
import sys

cid, extra_req = sys.argv[1], sys.argv[2]
pairs = sys.argv[3:]
path = f"/verif/coq/Properties/{cid}.v"
src = open(path).read()
# header for probing = everything up to the first Theorem/Definition/Section (the Require / Import / Open Scope lines)
m = re.search(r"(?m)^(Theorem|Definition|Section|Lemma) ", src)
header = src[:m.start()] + (extra_req + "\n" if extra_req else "")
open("/verif/build/_hdr.v", "w").write(header)
tmp = "/verif/build/_snippet.v"
rc = subprocess.call(["/venv/bin/python", "/verif/tools/mk_props.py", tmp, "/verif/build/_hdr.v"] + pairs)
if rc:
    sys.exit(rc)
snip = open(tmp).read()[len(header):]
if extra_req and extra_req not in src:
    src = src[:m.start()] + extra_req + "\n" + src[m.start():]
open(path, "w").write(src.rstrip() + "\n\n(** ---- added: statements re-derived from the lemma files by tools/append_props.py ---- *)\n" + snip.lstrip())
print("appended", len(pairs), "theorems to", path)
