(** The operation order of the CUSUM score, executed on Coq's primitive binary64 floats: the executable twin of
    [cusum_float53] (Proofs/FloatKernels2.v, where the same order is analysed with Flocq's rounding operator).  The harness can
    compare it BIT FOR BIT with  cusum_score(starts, ends, splits, sums)  (skchange/change_scores/cusum.py) on float data:
        n = e - s,  nb = k - s,  na = e - k          (integers; the products n * nb and n * na are INTEGER products,
                                                       converted to binary64 by the true division)
        before = S1[k] - S1[s]      after = S1[e] - S1[k]            S1 = sequential cumsum of x, S1[0] = 0
        bw = sqrt (na / (n * nb))   aw = sqrt (nb / (n * na))
        cusum = abs (bw * before - aw * after). *)
From Coq Require Import PrimFloat Uint63 ZArith List Arith Bool.
From SK Require Import Check.FloatKernelCheck.
Import ListNotations.

(** conversion of a (small, non-negative) integer; [of_natF n] is [of_ZF (Z.of_nat n)] *)
Definition of_ZF (z : Z) : float := PrimFloat.of_uint63 (Uint63.of_Z z).
(** the integer product of two lengths, converted (the product is taken in Z so that the definition runs on long series) *)
Definition of_prodF (a b : nat) : float := of_ZF (Z.of_nat a * Z.of_nat b).

Definition cusum_bwF (s k e : nat) : float := PrimFloat.sqrt (of_natF (e - k) / of_prodF (e - s) (k - s))%float.
Definition cusum_awF (s k e : nat) : float := PrimFloat.sqrt (of_natF (k - s) / of_prodF (e - s) (e - k))%float.

Definition cusum_F (l : list float) (s k e : nat) : float :=
  let before := (prefixF l k - prefixF l s)%float in
  let after := (prefixF l e - prefixF l k)%float in
  PrimFloat.abs (cusum_bwF s k e * before - cusum_awF s k e * after)%float.

Record fcu_case := { fcu_xs : list float; fcu_s : nat; fcu_k : nat; fcu_e : nat; fcu_val : float }.
Definition fcu_ok (c : fcu_case) : bool :=
  PrimFloat.eqb (cusum_F (fcu_xs c) (fcu_s c) (fcu_k c) (fcu_e c)) (fcu_val c).

(** a smoke test: x = 1 2 3 4 10 11, s = 0, k = 4, e = 6:  bw = sqrt (2/24), aw = sqrt (4/12), before = 10, after = 21; the value is 9.237604307034012 (Python floats) *)
Example fcu_demo :
  fcu_ok {| fcu_xs := [1; 2; 3; 4; 10; 11]%float; fcu_s := 0; fcu_k := 4; fcu_e := 6;
            fcu_val := 0x1.279a74590331cp+3%float |} = true.
Proof. vm_compute. reflexivity. Qed.
