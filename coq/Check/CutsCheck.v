(** Executable checkers used by the C13 correspondence (cases written by harness/c13.py). *)
From Coq Require Import ZArith List Bool.
From SK Require Import Lib.Base Model.Cuts.
Import ListNotations.
Open Scope Z_scope.

(** exhaustive box: the implementation accepted exactly the rows in [acc] *)
Definition box_case := (scorer_kind * Z * Z * nat * list (list Z))%type.
Definition box_case_ok (c : box_case) : bool :=
  let '(sk, n, lo, cnt, acc) := c in
  forallb (fun r => Bool.eqb (row_ok sk n r) (mem_row r acc)) (box lo cnt (width_of sk))
  && forallb (fun r => mem_row r (box lo cnt (width_of sk))) acc.

(** single argument: did the implementation accept it? *)
Definition arg_case := (scorer_kind * Z * cuts_arg * bool)%type.
Definition arg_case_ok (c : arg_case) : bool :=
  let '(sk, n, arg, accepted) := c in
  Bool.eqb (match evaluate (fun r => r) sk n arg with Some _ => true | None => false end) accepted.
