(** Integer score specifications shared by the SBS / MW / CBS correspondence cases: the
    harness plugs the same functions (harness/scorespec.py) into the real detectors. *)
From Coq Require Import ZArith List Bool Arith.
From SK Require Import Lib.Base.
Import ListNotations.
Open Scope Z_scope.

Definition zn (i : nat) : Z := Z.of_nat i.
Definition psum (xs : list Z) (i : nat) : Z := sumZ (firstn i xs).

Inductive cs_spec :=
| CsFormula (a b c d q off : Z)      (* ((a s + b k + c e + d s e + k k) mod q) - off *)
| CsCusum (xs : list Z).             (* | (e-k) (S k - S s) - (k-s) (S e - S k) |  (integer CUSUM numerator) *)
Definition cs_eval (sp : cs_spec) (s k e : nat) : Z :=
  match sp with
  | CsFormula a b c d q off => ((a * zn s + b * zn k + c * zn e + d * zn s * zn e + zn k * zn k) mod q) - off
  | CsCusum xs => Z.abs (zn (e - k) * (psum xs k - psum xs s) - zn (k - s) * (psum xs e - psum xs k))
  end.
Definition cs_agg (sps : list cs_spec) (s k e : nat) : Z := sumZ (map (fun sp => cs_eval sp s k e) sps).

Inductive ls_spec :=
| LsFormula (a b c d q off : Z)      (* ((a s + b x + c y + d e + x y) mod q) - off *)
| LsMean (xs : list Z).              (* | n_out * sum_in - n_in * sum_out |, out = [s,x) u [y,e) *)
Definition ls_eval (sp : ls_spec) (s x y e : nat) : Z :=
  match sp with
  | LsFormula a b c d q off => ((a * zn s + b * zn x + c * zn y + d * zn e + zn x * zn y) mod q) - off
  | LsMean xs =>
      let sin := psum xs y - psum xs x in
      let sout := (psum xs x - psum xs s) + (psum xs e - psum xs y) in
      Z.abs (zn ((x - s) + (e - y)) * sin - zn (y - x) * sout)
  end.
Definition ls_agg (sps : list ls_spec) (s x y e : nat) : Z := sumZ (map (fun sp => ls_eval sp s x y e) sps).
