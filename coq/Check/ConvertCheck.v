(** Checkers for the converter correspondence (C05). *)
From Coq Require Import List Arith Bool.
From SK Require Import Lib.Base Model.Convert.
Import ListNotations.
Close Scope Z_scope.
Open Scope nat_scope.

Definition pair_eqb (a b : nat * nat) := (fst a =? fst b) && (snd a =? snd b).
Definition eqb_pairs (a b : list (nat * nat)) : bool :=
  (length a =? length b) && forallb (fun xy => pair_eqb (fst xy) (snd xy)) (combine a b).
Definition eqb_mat (a b : list (list nat)) : bool :=
  (length a =? length b) && forallb (fun xy => eqb_listN (fst xy) (snd xy)) (combine a b).
Definition anom3_eqb (a b : anom3) : bool :=
  pair_eqb (fst a) (fst b) && eqb_listN (snd a) (snd b).
Definition eqb_anoms (a b : list anom3) : bool :=
  (length a =? length b) && forallb (fun xy => anom3_eqb (fst xy) (snd xy)) (combine a b).

(** (n, changepoints, implementation dense labels, implementation dense_to_sparse of them) *)
Definition cd_case := (nat * list nat * list nat * list nat)%type.
Definition cd_case_ok (c : cd_case) : bool :=
  let '(n, cpts, dense, back) := c in
  eqb_listN (cd_s2d n cpts) dense && eqb_listN (cd_d2s dense) back && eqb_listN back cpts.

Definition ca_case := (nat * list (nat * nat) * list nat * list (nat * nat))%type.
Definition ca_case_ok (c : ca_case) : bool :=
  let '(n, ivs, dense, back) := c in
  eqb_listN (ca_s2d n ivs) dense && eqb_pairs (ca_d2s dense) back && eqb_pairs back ivs.

(** subset: columns of the round trip are compared as sets (listed increasingly) *)
Definition sub_case := (nat * nat * list anom3 * list (list nat) * list anom3)%type.
Definition norm_cols (p : nat) (a : anom3) : anom3 := (fst a, filter (fun j => memb j (snd a)) (seq 0 p)).
Definition sub_case_ok (c : sub_case) : bool :=
  let '(n, p, anoms, dense, back) := c in
  eqb_mat (sub_s2d n p anoms) dense
  && eqb_anoms (sub_d2s p dense) (map (norm_cols p) back)
  && eqb_anoms (map (norm_cols p) back) (map (norm_cols p) anoms).
