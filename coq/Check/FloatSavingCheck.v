(** The operation order of the L2 SAVING kernel, executed on Coq's primitive binary64 floats: the executable twin of
    [l2_saving_float53] (Proofs/FloatSaving.v, where the same order is analysed with Flocq's rounding operator).  The harness can
    compare it BIT FOR BIT with  l2_saving(starts, ends, sums)  (skchange/anomaly_scores/l2_saving.py) on float data:
        n = e - s                                   (an integer, converted to binary64 by the true division)
        a = S1[e] - S1[s]                           S1 = sequential cumsum of x, S1[0] = 0
        saving = (a * a) / n                        ( ** 2 on float64 is one multiplication a * a, one rounding; one division).
    This file contains no proofs about reals and imports nothing from Flocq (it is loaded by generated case files). *)
From Coq Require Import PrimFloat Uint63 ZArith List Arith Bool.
From SK Require Import Check.FloatKernelCheck.
Import ListNotations.

Definition l2_saving_F (l : list float) (s e : nat) : float :=
  let a := (prefixF l e - prefixF l s)%float in
  ((a * a) / of_natF (e - s))%float.

(** equal as binary64 numbers ([PrimFloat.eqb]: +0 = -0), or both NaN (as [fsame] of Check/GenericCheck.v) *)
Definition fsv_same (a b : float) : bool := PrimFloat.eqb a b || (is_nan a && is_nan b).

Record fsv_case := { fsv_xs : list float; fsv_s : nat; fsv_e : nat; fsv_val : float }.
Definition fsv_ok (c : fsv_case) : bool :=
  fsv_same (l2_saving_F (fsv_xs c) (fsv_s c) (fsv_e c)) (fsv_val c).
(** the strict form: no NaN accepted *)
Definition fsv_ok_strict (c : fsv_case) : bool :=
  PrimFloat.eqb (l2_saving_F (fsv_xs c) (fsv_s c) (fsv_e c)) (fsv_val c).

(** smoke tests (values from Python floats, sequential cumsum):
    x = 1 2 3 4 10 11, s = 0, e = 6:  a = 31, saving = 961 / 6 = 160.16666666666666 *)
Example fsv_demo :
  fsv_ok {| fsv_xs := [1; 2; 3; 4; 10; 11]%float; fsv_s := 0; fsv_e := 6;
            fsv_val := 0x1.4055555555555p+7%float |} = true.
Proof. vm_compute. reflexivity. Qed.

(** x = 0.1 0.2 0.3 0.7 1.9 -2.3 0.45 (the binary64 numbers nearest to these decimals, written in hexadecimal), s = 2, e = 7: 0.22050000000000008 *)
Example fsv_demo_inexact :
  fsv_ok_strict {| fsv_xs := [0x1.999999999999ap-4; 0x1.999999999999ap-3; 0x1.3333333333333p-2; 0x1.6666666666666p-1;
                               0x1.e666666666666p+0; -0x1.2666666666666p+1; 0x1.ccccccccccccdp-2]%float; fsv_s := 2; fsv_e := 7;
                   fsv_val := 0x1.c395810624dd6p-3%float |} = true.
Proof. vm_compute. reflexivity. Qed.

(** an empty segment: 0 / 0 = NaN in both the implementation and the twin *)
Example fsv_demo_nan :
  fsv_ok {| fsv_xs := [1; 2; 3]%float; fsv_s := 2; fsv_e := 2; fsv_val := nan |} = true.
Proof. vm_compute. reflexivity. Qed.
