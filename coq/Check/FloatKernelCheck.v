(** The operation order of the squared-error kernel, executed on Coq's primitive binary64 floats: the executable twin of
    [l2_cost_float53] (Proofs/FloatError.v, where the same order is analysed with Flocq's rounding operator).  The harness
    compares it BIT FOR BIT with L2Cost().fit(X).evaluate on float data, which validates the operation order the rounding-error
    theorem is stated for:  S1 = sequential cumsum of x, S2 = sequential cumsum of x*x,
    cost = (S2[e] - S2[s]) - ((S1[e] - S1[s]) * (S1[e] - S1[s])) / (e - s). *)
From Coq Require Import PrimFloat Uint63 ZArith List Arith Bool.
Import ListNotations.

Definition fsumF (l : list float) : float := fold_left (fun acc y => (acc + y)%float) l 0%float.
Definition prefixF (l : list float) (i : nat) : float := fsumF (firstn i l).
Definition of_natF (n : nat) : float := PrimFloat.of_uint63 (Uint63.of_Z (Z.of_nat n)).
Definition l2_cost_F (l : list float) (s e : nat) : float :=
  let a := (prefixF l e - prefixF l s)%float in
  let sq := map (fun x => (x * x)%float) l in
  let b := (prefixF sq e - prefixF sq s)%float in
  (b - (a * a) / of_natF (e - s))%float.
(** fixed mean:  S2 - 2 mu S1 + n mu^2, in the code's order  (partial_sums2 - 2 * mean * partial_sums) + n * mean**2 *)
Definition l2_cost_fixed_F (mu : float) (l : list float) (s e : nat) : float :=
  let a := (prefixF l e - prefixF l s)%float in
  let sq := map (fun x => (x * x)%float) l in
  let b := (prefixF sq e - prefixF sq s)%float in
  ((b - (2 * mu) * a) + of_natF (e - s) * (mu * mu))%float.

Record fk_case := { fk_xs : list float; fk_mu : option float; fk_s : nat; fk_e : nat; fk_val : float }.
Definition fk_ok (c : fk_case) : bool :=
  let v := match fk_mu c with None => l2_cost_F (fk_xs c) (fk_s c) (fk_e c) | Some mu => l2_cost_fixed_F mu (fk_xs c) (fk_s c) (fk_e c) end in
  PrimFloat.eqb v (fk_val c).
