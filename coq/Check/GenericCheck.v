(** Correspondence cases on BINARY64 score tables: the real detectors run with their real (built-in)
    scorers on float data; the harness hands over the aggregated score of every cut the search may
    use (obtained from the same scorer object through evaluate), the generic model (Model/Generic.v)
    is evaluated at the binary64 instance and must reproduce the implementation's scores BIT FOR BIT
    and its detections exactly. *)
From Coq Require Import PrimFloat List Arith Bool.
From SK Require Import Lib.Base Model.Pelt Model.Mw Model.Sbs Model.Capa Model.Cbs Model.Generic Model.GenericF.
Import ListNotations.

(** same float: equal as numbers (so +0 = -0) or both NaN *)
Definition fsame (a b : float) : bool := PrimFloat.eqb a b || (is_nan a && is_nan b).
Definition flist_same (a b : list float) : bool :=
  (length a =? length b)%nat && forallb (fun xy => fsame (fst xy) (snd xy)) (combine a b).
Definition nlist_same (a b : list nat) : bool :=
  (length a =? length b)%nat && forallb (fun xy => (fst xy =? snd xy)%nat) (combine a b).
Definition pair_same (a b : nat * nat) : bool := (fst a =? fst b)%nat && (snd a =? snd b)%nat.
Definition plist_same (a b : list (nat * nat)) : bool :=
  (length a =? length b)%nat && forallb (fun xy => pair_same (fst xy) (snd xy)) (combine a b).

Definition ftab2 (t : list (list float)) (s e : nat) : float := nth e (nth s t []) 0%float.

(** ---- PELT: table[s][e] = aggregated cost of [s,e) ---- *)
Record fpelt_case := { fp_n : nat; fp_m : nat; fp_pen : float; fp_tab : list (list float);
                       fp_cpts : list nat; fp_scores : list float }.
Definition fpelt_case_ok (c : fpelt_case) : bool :=
  let '(sc, cp) := gpelt F64 (ftab2 (fp_tab c)) (fp_pen c) (fp_m c) (fp_m c - 1) (fp_n c) in
  (* the implementation reports scores for every t; the first m-1 entries hold -penalty in both *)
  flist_same sc (fp_scores c) && nlist_same cp (fp_cpts c).

(** ---- moving window: row[t] = aggregated change score of (t-b, t, t+b) ---- *)
Record fmw_case := { fw_n : nat; fw_b : nat; fw_thr : float; fw_mdi : nat; fw_row : list float;
                     fw_scores : list float; fw_cpts : list nat }.
Definition fmw_case_ok (c : fmw_case) : bool :=
  let CS := fun (_ k _ : nat) => nth k (fw_row c) 0%float in
  let '(sc, cp) := gmw F64 CS (fw_b c) (fw_n c) (fw_thr c) (fw_mdi c) in
  flist_same sc (fw_scores c) && nlist_same cp (fw_cpts c).

(** ---- seeded binary segmentation: rows[i] = scores of the splits s+m .. e-m of interval i ---- *)
Fixpoint find_row {A} (se : nat * nat) (ivs : list (nat * nat)) (rows : list (list A)) : list A :=
  match ivs, rows with
  | iv :: ti, r :: tr => if pair_same iv se then r else find_row se ti tr
  | _, _ => []
  end.
Record fsbs_case := { fs_m : nat; fs_thr : float; fs_ivs : list (nat * nat); fs_rows : list (list float);
                      fs_cpts : list nat; fs_argmax : list nat; fs_max : list float }.
Definition fsbs_case_ok (c : fsbs_case) : bool :=
  let CS := fun (s k e : nat) => nth (k - (s + fs_m c)) (find_row (s, e) (fs_ivs c) (fs_rows c)) 0%float in
  match gsbs F64 CS (fs_m c) (fs_thr c) (fs_ivs c) with
  | None => false
  | Some (cp, am) => nlist_same cp (fs_cpts c) && nlist_same (map fst am) (fs_argmax c)
                     && flist_same (map snd am) (fs_max c)
  end.

(** ---- circular binary segmentation: rows[i] = scores of anomaly_intervals s e m, in that order ---- *)
Fixpoint index_of (ab : nat * nat) (l : list (nat * nat)) (i : nat) : nat :=
  match l with
  | [] => i
  | x :: t => if pair_same x ab then i else index_of ab t (S i)
  end.
Record fcbs_case := { fc_m : nat; fc_thr : float; fc_ivs : list (nat * nat); fc_rows : list (list float);
                      fc_anoms : list (nat * nat); fc_inner : list (nat * nat); fc_max : list float }.
Definition fcbs_case_ok (c : fcbs_case) : bool :=
  let LS := fun (s a b e : nat) =>
              nth (index_of (a, b) (anomaly_intervals s e (fc_m c)) 0) (find_row (s, e) (fc_ivs c) (fc_rows c)) 0%float in
  match gcbs F64 LS (fc_m c) (fc_thr c) (fc_ivs c) with
  | None => false
  | Some (an, am) => plist_same an (fc_anoms c) && plist_same (map fst am) (fc_inner c)
                     && flist_same (map snd am) (fc_max c)
  end.

(** ---- the code AS FIXED (D25), for any threshold: Model/GenericAny.v at the binary64 instance ---- *)
From SK Require Import Model.GenericAny.
Definition fmw_any_case_ok (c : fmw_case) : bool :=
  let CS := fun (_ k _ : nat) => nth k (fw_row c) 0%float in
  let '(sc, cp) := gmw_any F64 CS (fw_b c) (fw_n c) (fw_thr c) (fw_mdi c) in
  flist_same sc (fw_scores c) && nlist_same cp (fw_cpts c).
Definition fsbs_any_case_ok (c : fsbs_case) : bool :=
  let CS := fun (s k e : nat) => nth (k - (s + fs_m c)) (find_row (s, e) (fs_ivs c) (fs_rows c)) 0%float in
  match gsbs_any F64 CS (fs_m c) (fs_thr c) (fs_ivs c) with
  | None => false
  | Some (cp, am) => nlist_same cp (fs_cpts c) && nlist_same (map fst am) (fs_argmax c)
                     && flist_same (map snd am) (fs_max c)
  end.
Definition fcbs_any_case_ok (c : fcbs_case) : bool :=
  let LS := fun (s a b e : nat) =>
              nth (index_of (a, b) (anomaly_intervals s e (fc_m c)) 0) (find_row (s, e) (fc_ivs c) (fc_rows c)) 0%float in
  match gcbs_any F64 LS (fc_m c) (fc_thr c) (fc_ivs c) with
  | None => false
  | Some (an, am) => plist_same an (fc_anoms c) && plist_same (map fst am) (fc_inner c)
                     && flist_same (map snd am) (fc_max c)
  end.
