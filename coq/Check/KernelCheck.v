(** Executable Q twins of the kernels regenerated from /repo (Gen/KernelsQ.v), evaluated on exact
    rational data and compared with the value the real function returned (C01, C06). *)
From Coq Require Import QArith Qminmax List Arith Bool.
From SK Require Import Lib.Base Gen.KernelsQ.
Import ListNotations.
Open Scope Q_scope.

Fixpoint sumQ (l : list Q) : Q := match l with [] => 0 | x :: t => x + sumQ t end.
(** col_cumsum(init_zero=True): prefix i = sum of the first i entries *)
Definition prefixQ (xs : list Q) (i : nat) : Q := sumQ (firstn i xs).
Definition sqQ (xs : list Q) : list Q := map (fun x => x * x) xs.

Inductive kq_kind := KL2Optim | KL2Fixed | KVar | KL2Saving.
Record kq_case := { kq_kind_ : kq_kind; kq_xs : list Q; kq_mu : Q; kq_s : nat; kq_e : nat; kq_lo : Q; kq_hi : Q }.

Definition kq_value (c : kq_case) : Q :=
  let S1 := prefixQ (kq_xs c) in let S2 := prefixQ (sqQ (kq_xs c)) in
  match kq_kind_ c with
  | KL2Optim => l2_cost_optim_Q S1 S2 (kq_s c) (kq_e c)
  | KL2Fixed => l2_cost_fixed_Q S1 S2 (kq_mu c) (kq_s c) (kq_e c)
  | KVar => var_from_sums_Q S1 S2 (kq_s c) (kq_e c)
  | KL2Saving => l2_saving_Q S1 (kq_s c) (kq_e c)
  end.

(** direct definitions on the slice, in Q *)
Definition sliceQ (s e : nat) (xs : list Q) : list Q := firstn (e - s) (skipn s xs).
Definition lenQ (l : list Q) : Q := inject_Z (Z.of_nat (length l)).
Definition meanQ (l : list Q) : Q := sumQ l / lenQ l.
Definition sseQ (mu : Q) (l : list Q) : Q := sumQ (map (fun x => (x - mu) * (x - mu)) l).
Definition kq_direct (c : kq_case) : Q :=
  let l := sliceQ (kq_s c) (kq_e c) (kq_xs c) in
  match kq_kind_ c with
  | KL2Optim => sseQ (meanQ l) l
  | KL2Fixed => sseQ (kq_mu c) l
  | KVar => Qmax (sseQ (meanQ l) l / lenQ l) (1 # 10000000000000000)
  | KL2Saving => sumQ l * sumQ l / lenQ l
  end.

(** the implementation's value lies in [lo, hi] around the twin, and the twin equals the direct definition *)
Definition kq_ok (c : kq_case) : bool :=
  Qle_bool (kq_lo c) (kq_value c) && Qle_bool (kq_value c) (kq_hi c) && Qeq_bool (kq_value c) (kq_direct c).

(** ---- the model of col_cumsum(x, init_zero=True) used by the C01 / C06 theorems: row i of the real prefix-sum array = prefixQ xs i ---- *)
Definition pf_case := (list Q * list Q)%type.     (* one data column, the real prefix sums of that column (n + 1 entries) *)
Definition pf_ok (c : pf_case) : bool :=
  let '(xs, sums) := c in
  (length sums =? S (length xs))%nat && forallb (fun i => Qeq_bool (prefixQ xs i) (nth i sums 0)) (seq 0 (S (length xs))).

(** ---- adapters on exact integer user costs (C06): ChangeScore / Saving / LocalAnomalyScore ---- *)
Open Scope Z_scope.
Inductive ad_case :=
| AdChange (c_se c_sk c_ke impl : Z)          (* C(s,e), C(s,k), C(k,e) of the user cost; implementation's change score *)
| AdSaving (c_fixed c_optim impl : Z)         (* cost at the baseline parameter, cost at the optimal parameter *)
| AdLocal (c_se c_ab c_pool impl : Z).        (* C(s,e), C(a,b), cost of the pooled surroundings *)
Definition ad_ok (c : ad_case) : bool :=
  match c with
  | AdChange se sk ke impl => impl =? se - (sk + ke)
  | AdSaving f o impl => impl =? f - o
  | AdLocal se ab pool impl => impl =? se - (ab + pool)
  end.
