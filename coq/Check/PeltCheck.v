(** Verified checker for PELT outputs (C02, C04): applied by the correspondence run to the
    IMPLEMENTATION's output, so a property failure of the real code is detected even where
    the model agrees with it. *)
From Coq Require Import ZArith List Lia Bool Arith.
From SK Require Import Lib.Base Model.Pelt Proofs.PeltSpec.
Import ListNotations.
Open Scope Z_scope.

Fixpoint admsegb (m prev : nat) (cpts : list nat) (T : nat) : bool :=
  match cpts with
  | [] => (prev + m <=? T)%nat
  | c :: tl => (prev + m <=? c)%nat && admsegb m c tl T
  end.

Lemma admsegb_spec m prev cpts T : admsegb m prev cpts T = true <-> admseg m prev cpts T.
Proof.
  revert prev; induction cpts as [|c tl IH]; intros prev; cbn.
  - apply Nat.leb_le.
  - rewrite andb_true_iff, IH, Nat.leb_le. tauto.
Qed.

(** boolean reflection of the split hypothesis on the finite range the run can touch *)
Definition split_okb (C : nat -> nat -> Z) (m n : nat) : bool :=
  forallb (fun s => forallb (fun k => forallb (fun e =>
      negb ((s + m <=? k)%nat && (k + m <=? e)%nat) || (C s k + C k e <=? C s e))
    (seq 0 (S n))) (seq 0 (S n))) (seq 0 (S n)).

Record pelt_case := {
  pc_n : nat; pc_m : nat; pc_pen : Z; pc_tab : list (list Z);
  pc_cpts : list nat;      (* implementation: predict(X)["ilocs"] *)
  pc_scores : list Z       (* implementation: transform_scores(X) *)
}.

(** the implementation's output satisfies the property (given the split inequality) *)
Definition pelt_spec_ok (c : pelt_case) : bool :=
  let C := tab2 (pc_tab c) in
  let n := pc_n c in let m := pc_m c in let pen := pc_pen c in
  let ft := Ftab C pen m n in
  (length (pc_scores c) =? n)%nat
  && admsegb m 0 (pc_cpts c) n
  && (pencost C pen (pc_cpts c) n =? nthZ (pc_scores c) (n - 1))
  && forallb (fun t => nthZ (pc_scores c) (t - 1) =? (if (t <? m)%nat then - pen else nthZ ft t)) (seq 1 n).

(** well-formedness only (arbitrary cost tables, C04) *)
Definition pelt_wf_ok (c : pelt_case) : bool :=
  let C := tab2 (pc_tab c) in
  (length (pc_scores c) =? pc_n c)%nat
  && admsegb (pc_m c) 0 (pc_cpts c) (pc_n c)
  && (pencost C (pc_pen c) (pc_cpts c) (pc_n c) =? nthZ (pc_scores c) (pc_n c - 1)).

(** model = implementation on the observables *)
Definition pelt_model_eq (c : pelt_case) : bool :=
  let '(sc, cp) := pelt (tab2 (pc_tab c)) (pc_pen c) (pc_m c) (pc_m c - 1) (pc_n c) in
  eqb_listZ sc (pc_scores c) && eqb_listN cp (pc_cpts c).

Definition pelt_case_ok (c : pelt_case) : bool :=
  pelt_model_eq c && (if split_okb (tab2 (pc_tab c)) (pc_m c) (pc_n c) then pelt_spec_ok c else pelt_wf_ok c).

(** Soundness: whatever produced the output, a passing check means it is an exact minimiser. *)
Theorem pelt_spec_ok_sound c :
  (1 <= pc_m c)%nat -> (pc_m c <= pc_n c)%nat ->
  pelt_spec_ok c = true ->
  let C := tab2 (pc_tab c) in
  Adm (pc_m c) (pc_cpts c) (pc_n c)
  /\ pencost C (pc_pen c) (pc_cpts c) (pc_n c) = F C (pc_pen c) (pc_m c) (pc_n c)
  /\ (forall c', Adm (pc_m c) c' (pc_n c) ->
        pencost C (pc_pen c) (pc_cpts c) (pc_n c) <= pencost C (pc_pen c) c' (pc_n c)).
Proof.
  intros Hm Hmn H. unfold pelt_spec_ok in H.
  apply andb_true_iff in H as [H Hall]. apply andb_true_iff in H as [H Hcost].
  apply andb_true_iff in H as [Hlen Hadm].
  apply admsegb_spec in Hadm. apply Z.eqb_eq in Hcost.
  rewrite forallb_forall in Hall.
  assert (Hn : nthZ (pc_scores c) (pc_n c - 1) = F (tab2 (pc_tab c)) (pc_pen c) (pc_m c) (pc_n c)).
  { specialize (Hall (pc_n c)). rewrite in_seq in Hall. specialize (Hall ltac:(lia)).
    apply Z.eqb_eq in Hall. rewrite Hall.
    replace (pc_n c <? pc_m c)%nat with false by (symmetry; apply Nat.ltb_ge; lia).
    reflexivity. }
  cbn zeta. split; [exact Hadm|]. split; [congruence|].
  intros c' Hc'. rewrite Hcost, Hn. apply F_lower; assumption.
Qed.
