(** Checkers for the generator correspondence (C18): Model/Generate.v instantiated with Coq's
    primitive binary64 floats, so that the comparison with NumPy is bit-exact. *)
From Coq Require Import PrimFloat List Arith Bool.
From SK Require Import Lib.Base Model.Generate.
Import ListNotations.

Definition faffine (mu v z : float) : float := (mu + sqrt v * z)%float.
Definition fadd (a b : float) : float := (a + b)%float.
Definition f0 : float := 0%float.

Definition row_eqb (a b : list float) : bool :=
  (length a =? length b)%nat && forallb (fun xy => PrimFloat.eqb (fst xy) (snd xy)) (combine a b).
Definition mat_eqb (a b : list (list float)) : bool :=
  (length a =? length b)%nat && forallb (fun xy => row_eqb (fst xy) (snd xy)) (combine a b).
Definition res_eqb (r : result (list (list float))) (impl : option (list (list float))) : bool :=
  match r, impl with
  | Ok a, Some b => mat_eqb a b
  | Err, None => true
  | _, _ => false
  end.

Inductive gen_case :=
| GChanging (n : nat) (neg : bool) (cpts : list nat) (means vars : list (list float)) (Zm : list (list float))
            (impl : option (list (list float)))
| GAnomalous (n : nat) (bad neg : bool) (anoms : list (nat * nat)) (means vars : list (list float)) (Zm : list (list float))
            (impl : option (list (list float)))
| GAlternating (nseg seglen p n_aff : nat) (mean var : float) (Zm : list (list float)) (impl : option (list (list float)))
| GOutliers (x : list (list float)) (k : nat) (pos : list nat) (size : float) (impl : list (list float)).

Definition gen_case_ok (c : gen_case) : bool :=
  match c with
  | GChanging n neg cpts ms vs Zm impl => res_eqb (changing float faffine n neg cpts ms vs Zm f0) impl
  | GAnomalous n bad neg an ms vs Zm impl => res_eqb (anomalous float faffine n bad neg an ms vs Zm f0) impl
  | GAlternating nseg seglen p n_aff mean var Zm impl =>
      res_eqb (alternating float faffine nseg seglen p n_aff mean var 0%float 1%float Zm f0) impl
  | GOutliers x k pos size impl =>
      positions_ok (length x) k pos && mat_eqb (add_outliers float fadd x pos size) impl
  end.
