(** Verified checker for CAPA / MVCAPA outputs (C03, C04, C16): applied to the
    IMPLEMENTATION's output by the correspondence run. *)
From Coq Require Import ZArith List Lia Bool Arith.
From SK Require Import Lib.Base Model.Capa Proofs.CapaSpec Proofs.CapaDP.
Import ListNotations.
Open Scope Z_scope.

Definition a_okb (m M : nat) (a : anom) : bool :=
  match a with Coll s e => (s + m <=? e)%nat && (e <=? s + M)%nat | Pt _ => true end.
Fixpoint valid_fromb (m M lo : nat) (l : list anom) (T : nat) : bool :=
  match l with
  | [] => (lo <=? T)%nat
  | a :: t => (lo <=? a_start a)%nat && a_okb m M a && valid_fromb m M (a_end a) t T
  end.
Lemma valid_fromb_spec m M lo l T : valid_fromb m M lo l T = true <-> valid_from m M lo l T.
Proof.
  revert lo; induction l as [|a t IH]; intros lo; cbn [valid_fromb valid_from].
  - apply Nat.leb_le.
  - rewrite !andb_true_iff, IH, Nat.leb_le.
    destruct a as [s e|x]; cbn [a_okb a_ok]; [rewrite andb_true_iff, !Nat.leb_le|]; tauto.
Qed.

Record capa_case := {
  cc_n : nat; cc_m : nat; cc_M : nat;
  cc_ac : Z; cc_bc : list Z; cc_ap : Z; cc_bp : list Z;
  cc_ctabs : list (list (list Z));   (* collective saving table per column *)
  cc_ptabs : list (list (list Z));   (* point saving table per column *)
  cc_anoms : list (nat * nat);       (* implementation: predict(X) intervals, ignore_point_anomalies = False *)
  cc_anoms_ign : list (nat * nat);   (* same with ignore_point_anomalies = True *)
  cc_scores : list Z                 (* implementation: transform_scores(X) *)
}.
Definition cc_Sc (c : capa_case) (s e : nat) : list Z := map (fun t => tab2 t s e) (cc_ctabs c).
Definition cc_Sp (c : capa_case) (t : nat) : list Z := map (fun tb => tab2 tb t (S t)) (cc_ptabs c).
Definition cc_PC (c : capa_case) := Pc (cc_Sc c) (cc_ac c) (cc_bc c).
Definition cc_PP (c : capa_case) := Pp (cc_Sp c) (cc_ap c) (cc_bp c).

(** boolean reflection (on the range the run can touch) of the hypotheses of the optimality theorem *)
Definition hsub_okb (c : capa_case) : bool :=
  let n := cc_n c in let m := cc_m c in let M := cc_M c in
  let K := cc_ac c + sumZ (cc_bc c) in
  forallb (fun s => forallb (fun k => forallb (fun e =>
      negb ((s + m <=? k)%nat && (k + m <=? e)%nat && (e <=? s + M)%nat)
      || (cc_PC c s e <=? cc_PC c s k + K + cc_PC c k e))
    (seq 0 (S n))) (seq 0 (S n))) (seq 0 (S n)).

Definition pair_eqb (a b : nat * nat) := (fst a =? fst b)%nat && (snd a =? snd b)%nat.
Definition eqb_pairs (a b : list (nat * nat)) : bool :=
  (length a =? length b)%nat && forallb (fun xy => pair_eqb (fst xy) (snd xy)) (combine a b).

(** well-formedness + "re-evaluating the reported anomalies gives the final score" + ignore flag *)
Definition capa_wf_ok (c : capa_case) : bool :=
  (length (cc_scores c) =? cc_n c)%nat
  && valid_fromb (cc_m c) (cc_M c) 0 (map to_anom (cc_anoms c)) (cc_n c)
  && (value (cc_PC c) (cc_PP c) (map to_anom (cc_anoms c)) =? nthZ (0 :: cc_scores c) (cc_n c))
  && eqb_pairs (cc_anoms_ign c) (filter (fun se => negb (is_point se)) (cc_anoms c)).

(** every prefix score is the optimum G *)
Definition capa_opt_ok (c : capa_case) : bool :=
  let gt := Gtab (cc_PC c) (cc_PP c) (cc_m c) (cc_M c) (cc_n c) in
  forallb (fun t => nthZ (cc_scores c) t =? nthZ gt (S t)) (seq 0 (cc_n c)).

Definition capa_model_eq (c : capa_case) : bool :=
  let '(sc, cl, pt) := capa (cc_Sc c) (cc_Sp c) (cc_ac c) (cc_bc c) (cc_ap c) (cc_bp c)
                            (cc_m c) (cc_M c) (cc_m c - 1) (cc_n c) in
  eqb_listZ sc (cc_scores c)
  && eqb_pairs (capa_predict false cl pt) (cc_anoms c)
  && eqb_pairs (capa_predict true cl pt) (cc_anoms_ign c).

Definition capa_case_ok (c : capa_case) : bool :=
  capa_model_eq c && capa_wf_ok c && (if hsub_okb c then capa_opt_ok c else true).

(** Soundness: a passing check of the final score means the implementation's anomalies are
    a maximiser over ALL valid anomaly sets, whatever computed them. *)
Theorem capa_check_sound c :
  (1 <= cc_m c)%nat ->
  capa_wf_ok c = true ->
  nthZ (0 :: cc_scores c) (cc_n c) = G (cc_PC c) (cc_PP c) (cc_m c) (cc_M c) (cc_n c) ->
  Valid (cc_m c) (cc_M c) (map to_anom (cc_anoms c)) (cc_n c)
  /\ forall l, Valid (cc_m c) (cc_M c) l (cc_n c) ->
       value (cc_PC c) (cc_PP c) l <= value (cc_PC c) (cc_PP c) (map to_anom (cc_anoms c)).
Proof.
  intros Hm H HG. unfold capa_wf_ok in H.
  apply andb_true_iff in H as [H _]. apply andb_true_iff in H as [H Hval].
  apply andb_true_iff in H as [_ Hv].
  apply valid_fromb_spec in Hv. apply Z.eqb_eq in Hval.
  split; [exact Hv|]. intros l Hl. rewrite Hval, HG. apply G_upper; assumption.
Qed.
