(** Correspondence cases for CAPA / MVCAPA on BINARY64 saving tables: the generic dynamic programme (Model/GenericCapa.v) at the instance
    of Coq's primitive floats must reproduce the real detector's cumulative scores bit for bit and its anomalies exactly.  [fa_sc s e] /
    [fa_sp t] hold the per-column savings of the real scorer for every interval the search may use. *)
From Coq Require Import PrimFloat List Arith Bool.
From SK Require Import Lib.Base Model.Capa Model.Generic Model.GenericF Model.GenericCapa Check.GenericCheck Proofs.GenericCapaWf.
Import ListNotations.

Record fcapa_case := { fa_n : nat; fa_m : nat; fa_M : nat; fa_ac : float; fa_bc : list float; fa_ap : float; fa_bp : list float;
                       fa_sc : list (list (list float));      (* [s][e] -> p values *)
                       fa_sp : list (list float);             (* [t] -> p values *)
                       fa_scores : list float; fa_coll : list (nat * nat); fa_pts : list (nat * nat) }.

Definition fcapa_case_ok (c : fcapa_case) : bool :=
  let Sc := fun s e => nth e (nth s (fa_sc c) []) [] in
  let Sp := fun t => nth t (fa_sp c) [] in
  let '(sc, co, pt) := gcapa F64 F64_tiny Sc Sp (fa_ac c) (fa_bc c) (fa_ap c) (fa_bp c) (fa_m c) (fa_M c) (fa_m c - 1) (fa_n c) in
  flist_same sc (fa_scores c) && plist_same (sort_pairs co) (sort_pairs (fa_coll c)) && plist_same (sort_pairs pt) (sort_pairs (fa_pts c)).
