(** Checker for the StatThresholdAnomaliser correspondence (C17). *)
From Coq Require Import ZArith List Arith Bool.
From SK Require Import Lib.Base Model.Convert Model.Anomaliser Check.ConvertCheck Model.Capa.
Import ListNotations.
Open Scope Z_scope.

(** integer statistics of the rows at the given positions of the data [xs] *)
Inductive stat_kind := StSum | StMax | StMin | StLen | StFirst | StSecondLargest.   (* the last one is axis-sensitive: it needs the segment as a 1-D sample *)
Definition stat_eval (k : stat_kind) (xs : list Z) (rows : list nat) : Z :=
  let vals := map (nthZ xs) rows in
  match k with
  | StSum => sumZ vals
  | StMax => match vals with [] => 0 | v :: t => maxl v t end
  | StMin => match vals with [] => 0 | v :: t => minl v t end
  | StLen => Z.of_nat (length rows)
  | StFirst => hd 0 vals
  | StSecondLargest => match sort_desc vals with _ :: y :: _ => y | x :: _ => x | [] => 0 end
  end.

Record an_case := { ac_n : nat; ac_cpts : list nat; ac_xs : list Z; ac_stat : stat_kind; ac_lo : Z; ac_hi : Z;
                    ac_impl : list (nat * nat) }.

(** model = implementation, and the implementation's output is exactly the flagged segments (spec) *)
Definition an_case_ok (c : an_case) : bool :=
  let st := stat_eval (ac_stat c) (ac_xs c) in
  eqb_pairs (anomalise st (ac_lo c) (ac_hi c) (ac_n c) (ac_cpts c)) (ac_impl c)
  && eqb_pairs (anomalise_spec st (ac_lo c) (ac_hi c) (ac_n c) (ac_cpts c)) (ac_impl c).
