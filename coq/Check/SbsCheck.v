(** Checkers for the seeded binary segmentation correspondence (C07, C04). *)
From Coq Require Import ZArith List Bool Arith.
From SK Require Import Lib.Base Model.Sbs Check.Scores.
Import ListNotations.
Open Scope Z_scope.

Record sbs_case := {
  sc_n : nat; sc_m : nat; sc_maxlen : nat;
  sc_lens : list (nat * nat);          (* oracle: (interval_len, step) pairs of the float front end *)
  sc_thr : Z;
  sc_score : list cs_spec;             (* one per column *)
  sc_cpts : list nat;                  (* implementation: predict(X)["ilocs"] *)
  sc_rows : list (nat * nat * nat * Z) (* implementation: detector.scores rows (start, end, argmax_cpt, score) *)
}.
Definition row_iv (r : nat * nat * nat * Z) : nat * nat := (fst (fst (fst r)), snd (fst (fst r))).
Definition row_arg (r : nat * nat * nat * Z) : nat := snd (fst r).
Definition row_score (r : nat * nat * nat * Z) : Z := snd r.

Definition pair_eqb (a b : nat * nat) := (fst a =? fst b)%nat && (snd a =? snd b)%nat.

(** candidate intervals of the implementation satisfy the first sentence of C07 *)
Definition sbs_intervals_ok (c : sbs_case) : bool :=
  negb (match sc_rows c with [] => true | _ => false end)
  && forallb (fun r => let '(s, e) := row_iv r in
                (s <? e)%nat && (e <=? sc_n c)%nat && (2 * sc_m c <=? e - s)%nat
                && (e - s <=? Nat.min (sc_maxlen c) (sc_n c))%nat) (sc_rows c).

(** per-interval score and argmax are the max / first argmax over admissible splits *)
Definition sbs_rows_ok (c : sbs_case) : bool :=
  forallb (fun r => match amoc (cs_agg (sc_score c)) (sc_m c) (row_iv r) with
                    | Some (k, v) => (k =? row_arg r)%nat && (v =? row_score r)
                    | None => false end) (sc_rows c).

(** the "hence" clauses, checked directly on the implementation's output *)
Definition sbs_supported_ok (c : sbs_case) : bool :=
  forallb (fun cp => existsb (fun r => (row_arg r =? cp)%nat && (sc_thr c <? row_score r)
                                       && contains (row_iv r) cp) (sc_rows c)) (sc_cpts c).
Definition sbs_complete_ok (c : sbs_case) : bool :=
  forallb (fun r => negb (sc_thr c <? row_score r) || existsb (contains (row_iv r)) (sc_cpts c)) (sc_rows c).
Fixpoint gaps_ok (m prev : nat) (l : list nat) (n : nat) : bool :=
  match l with [] => (prev + m <=? n)%nat | c :: t => (prev + m <=? c)%nat && gaps_ok m c t n end.
Definition sbs_wf_ok (c : sbs_case) : bool := gaps_ok (sc_m c) 0 (sc_cpts c) (sc_n c).

(** model = implementation: intervals (integer part of make_seeded_intervals), table, changepoints *)
Definition sbs_model_eq (c : sbs_case) : bool :=
  let ivs := seeded_intervals (sc_n c) (2 * sc_m c) (sc_lens c) in
  (length ivs =? length (sc_rows c))%nat
  && forallb (fun xy => pair_eqb (fst xy) (row_iv (snd xy))) (combine ivs (sc_rows c))
  && match sbs (cs_agg (sc_score c)) (sc_m c) (sc_thr c) ivs with
     | Some (cpts, am) =>
         eqb_listN cpts (sc_cpts c)
         && eqb_listN (map fst am) (map row_arg (sc_rows c))
         && eqb_listZ (map snd am) (map row_score (sc_rows c))
     | None => false
     end.

Definition sbs_spec_ok (c : sbs_case) : bool :=
  sbs_intervals_ok c && sbs_rows_ok c && sbs_supported_ok c && sbs_complete_ok c && sbs_wf_ok c.
Definition sbs_case_ok (c : sbs_case) : bool := sbs_model_eq c && sbs_spec_ok c.

(** threshold monotonicity on a pair of implementation runs *)
Definition incl_ok (small big : list nat) : bool := forallb (fun c => memb c big) small.
