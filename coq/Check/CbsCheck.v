(** Checkers for the circular binary segmentation correspondence (C09, C04). *)
From Coq Require Import ZArith List Bool Arith.
From SK Require Import Lib.Base Model.Sbs Model.Cbs Model.Capa Check.Scores.
Import ListNotations.
Open Scope Z_scope.

Record cbs_case := {
  bc_n : nat; bc_m : nat; bc_maxlen : nat;
  bc_lens : list (nat * nat);
  bc_thr : Z;
  bc_score : list ls_spec;
  bc_anoms : list (nat * nat);                      (* implementation: predict(X) intervals *)
  bc_rows : list ((nat * nat) * (nat * nat) * Z)    (* implementation: detector.scores rows ((start,end),(argmax start,end),score) *)
}.
Definition brow_iv (r : (nat * nat) * (nat * nat) * Z) := fst (fst r).
Definition brow_inner (r : (nat * nat) * (nat * nat) * Z) := snd (fst r).
Definition brow_score (r : (nat * nat) * (nat * nat) * Z) := snd r.
Definition pair_eqb (a b : nat * nat) := (fst a =? fst b)%nat && (snd a =? snd b)%nat.
Definition eqb_pairs (a b : list (nat * nat)) : bool :=
  (length a =? length b)%nat && forallb (fun xy => pair_eqb (fst xy) (snd xy)) (combine a b).

(** per-interval score / argmax: maximum over the inner candidates; the reported inner interval attains it *)
Definition cbs_rows_ok (c : cbs_case) : bool :=
  forallb (fun r =>
     let '(s, e) := brow_iv r in
     match best_inner (ls_agg (bc_score c)) (bc_m c) (s, e) with
     | Some (_, v) => (v =? brow_score r)
                      && existsb (pair_eqb (brow_inner r)) (anomaly_intervals s e (bc_m c))
                      && (ls_agg (bc_score c) s (fst (brow_inner r)) (snd (brow_inner r)) e =? v)
     | None => (brow_score r =? 0)
     end) (bc_rows c).

(** anomalies sorted, disjoint, length >= m, strictly inside the data *)
Fixpoint anoms_wf (m lo : nat) (l : list (nat * nat)) (n : nat) : bool :=
  match l with [] => true
  | (a, z) :: t => (lo <=? a)%nat && (1 <=? a)%nat && (a + m <=? z)%nat && (z + 1 <=? n)%nat && anoms_wf m z t n end.
Definition cbs_supported_ok (c : cbs_case) : bool :=
  forallb (fun ab => existsb (fun r => pair_eqb (brow_inner r) ab && (bc_thr c <? brow_score r)) (bc_rows c)) (bc_anoms c).
Definition cbs_complete_ok (c : cbs_case) : bool :=
  forallb (fun r => negb (bc_thr c <? brow_score r) || existsb (fun ab => overlaps ab (brow_iv r)) (bc_anoms c)) (bc_rows c).

Definition cbs_model_eq (c : cbs_case) : bool :=
  let ivs := seeded_intervals (bc_n c) (2 * bc_m c) (bc_lens c) in
  eqb_pairs ivs (map brow_iv (bc_rows c))
  && match cbs (ls_agg (bc_score c)) (bc_m c) (bc_thr c) ivs with
     | Some (anoms, am) =>
         eqb_pairs anoms (bc_anoms c)
         && eqb_pairs (map fst am) (map brow_inner (bc_rows c))
         && eqb_listZ (map snd am) (map brow_score (bc_rows c))
     | None => false
     end.

Definition cbs_spec_ok (c : cbs_case) : bool :=
  cbs_rows_ok c && anoms_wf (bc_m c) 0 (bc_anoms c) (bc_n c) && cbs_supported_ok c && cbs_complete_ok c.
Definition cbs_case_ok (c : cbs_case) : bool := cbs_model_eq c && cbs_spec_ok c.

Definition incl_pairs_ok (x : list (nat * nat) * list (nat * nat)) : bool :=
  forallb (fun ab => existsb (pair_eqb ab) (snd x)) (fst x).
