(** Checkers for the moving-window correspondence (C08, C04). *)
From Coq Require Import ZArith List Bool Arith.
From SK Require Import Lib.Base Model.Mw Check.Scores.
Import ListNotations.
Open Scope Z_scope.

Record mw_case := {
  mc_n : nat; mc_b : nat; mc_mdi : nat; mc_thr : Z;
  mc_score : list cs_spec;
  mc_scores : list Z;      (* implementation: transform_scores(X) *)
  mc_cpts : list nat       (* implementation: predict(X)["ilocs"] *)
}.

(** score definition, checked directly on the implementation's scores *)
Definition mw_scores_ok (c : mw_case) : bool :=
  (length (mc_scores c) =? mc_n c)%nat
  && forallb (fun t => nthZ (mc_scores c) t =?
                 (if (mc_b c <=? t)%nat && (t + mc_b c <=? mc_n c)%nat
                  then cs_agg (mc_score c) (t - mc_b c) t (t + mc_b c) else 0)) (seq 0 (mc_n c)).

Definition mw_model_eq (c : mw_case) : bool :=
  let '(sc, cp) := mw (cs_agg (mc_score c)) (mc_b c) (mc_n c) (mc_thr c) (mc_mdi c) in
  eqb_listZ sc (mc_scores c) && eqb_listN cp (mc_cpts c).

(** changepoints in [b, n-b], strictly increasing, each above the threshold *)
Fixpoint incr_ok (prev : option nat) (l : list nat) : bool :=
  match l with [] => true
  | c :: t => (match prev with None => true | Some p => (p <? c)%nat end) && incr_ok (Some c) t end.
Definition mw_wf_ok (c : mw_case) : bool :=
  incr_ok None (mc_cpts c)
  && forallb (fun cp => (mc_b c <=? cp)%nat && (cp + mc_b c <=? mc_n c)%nat && (mc_thr c <? nthZ (mc_scores c) cp)) (mc_cpts c).

Definition mw_case_ok (c : mw_case) : bool := mw_model_eq c && mw_scores_ok c && mw_wf_ok c.

(** reversal: implementation scores of the mirrored score function vs original *)
Definition mw_reversal_ok (x : nat * list Z * list Z) : bool :=
  let '(n, sc, screv) := x in
  forallb (fun t => nthZ screv t =? nthZ sc (n - t)) (seq 1 (n - 1)).
