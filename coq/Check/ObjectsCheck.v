(** Checker for the object-history correspondence (C10): the harness carries a Python twin of
    Model/Objects.step; every generated history is replayed here and the twin's outputs and final
    state summary must equal the model's.  (The twin supplies the dependency tuples from which the
    harness rebuilds fresh objects; this file is what ties the twin to the proved model.) *)
From Coq Require Import List Arith Bool.
From SK Require Import Lib.Base Model.Objects.
Import ListNotations.

Definition obs_eqb (a b : obsop) : bool :=
  match a, b with Predict, Predict | Transform, Transform | TransformScores, TransformScores => true | _, _ => false end.
Definition fitrec_eqb (a b : fitrec) : bool :=
  (f_params a =? f_params b) && eqb_listN (f_sparams a) (f_sparams b) && dterm_eqb (f_data a) (f_data b).
Definition out_eqb (a b : out) : bool :=
  match a, b with
  | ONone, ONone | OBadRef, OBadRef | ONotFitted, ONotFitted => true
  | ONew i, ONew j => i =? j
  | OEval p D c, OEval p' D' c' => (p =? p') && dterm_eqb D D' && (c =? c')
  | ODet o p sp fr x, ODet o' p' sp' fr' x' => obs_eqb o o' && (p =? p') && eqb_listN sp sp' && fitrec_eqb fr fr' && (x =? x')
  | _, _ => false
  end.
Fixpoint outs_eqb (a b : list out) : bool :=
  match a, b with
  | [], [] => true
  | x :: a', y :: b' => out_eqb x y && outs_eqb a' b'
  | _, _ => false
  end.

(** final state summary: per detector (params, fitted?), per scorer (param, fitted?) *)
Definition summary (h : heap) : list (nat * bool) * list (nat * bool) :=
  (map (fun d => (d_params d, match d_fit d with Some _ => true | None => false end)) (detectors h),
   map (fun s => (s_param s, match s_fit s with Some _ => true | None => false end)) (scorers h)).
Definition nb_eqb (a b : list (nat * bool)) : bool :=
  (length a =? length b) && forallb (fun xy => (fst (fst xy) =? fst (snd xy)) && Bool.eqb (snd (fst xy)) (snd (snd xy))) (combine a b).

Definition hist_case := (list op * list out * (list (nat * bool) * list (nat * bool)))%type.
Definition hist_ok (c : hist_case) : bool :=
  let '(ops, outs, (sd, ss)) := c in
  let '(h, o) := run empty ops in
  outs_eqb o outs && nb_eqb (fst (summary h)) sd && nb_eqb (snd (summary h)) ss.
