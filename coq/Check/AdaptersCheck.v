(** Checker for the adapter-history correspondence (C10, shared inner cost objects): the harness
    carries a Python twin of Model/Adapters.astep; every generated history is replayed here and the
    twin's outputs and final state summary must equal the model's.  Soundness of this checker is
    proved in Proofs/AdaptersProofs.v ([ahist_ok_sound]). *)
From Coq Require Import List Arith Bool.
From SK Require Import Lib.Base Model.Adapters.
Import ListNotations.

Definition akind_eqb (a b : akind) : bool :=
  match a, b with KChange, KChange | KSaving, KSaving | KLocal, KLocal => true | _, _ => false end.

Definition optnat_eqb (a b : option nat) : bool :=
  match a, b with
  | None, None => true
  | Some x, Some y => Nat.eqb x y
  | _, _ => false
  end.

Definition aout_eqb (a b : aout) : bool :=
  match a, b with
  | ANone, ANone | ABadRef, ABadRef | ANotFitted, ANotFitted => true
  | ANew i, ANew j => Nat.eqb i j
  | AVal k p d cp cd own, AVal k' p' d' cp' cd' own' =>
      akind_eqb k k' && Nat.eqb p p' && Nat.eqb d d' && Nat.eqb cp cp' && optnat_eqb cd cd' && Nat.eqb own own'
  | _, _ => false
  end.

Fixpoint aouts_eqb (a b : list aout) : bool :=
  match a, b with
  | [], [] => true
  | x :: a', y :: b' => aout_eqb x y && aouts_eqb a' b'
  | _, _ => false
  end.

(** final state summary: per cost (hyperparam, fitted?), per adapter fitted? *)
Definition asummary (h : aheap) : list (nat * bool) * list bool :=
  (map (fun c => (c_param c, match c_fit c with Some _ => true | None => false end)) (costs h),
   map (fun a => match a_fit a with Some _ => true | None => false end) (adapters h)).

Fixpoint anb_eqb (a b : list (nat * bool)) : bool :=
  match a, b with
  | [], [] => true
  | x :: a', y :: b' => Nat.eqb (fst x) (fst y) && Bool.eqb (snd x) (snd y) && anb_eqb a' b'
  | _, _ => false
  end.

Fixpoint abools_eqb (a b : list bool) : bool :=
  match a, b with
  | [], [] => true
  | x :: a', y :: b' => Bool.eqb x y && abools_eqb a' b'
  | _, _ => false
  end.

Definition ahist_case := (list aop * list aout * (list (nat * bool) * list bool))%type.
Definition ahist_ok (c : ahist_case) : bool :=
  let '(ops, outs, (sc, sa)) := c in
  let '(h, o) := arun aempty ops in
  aouts_eqb o outs && anb_eqb (fst (asummary h)) sc && abools_eqb (snd (asummary h)) sa.
