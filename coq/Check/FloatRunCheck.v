(** Premises of the binary64 run theorems (Proofs/PeltFloat.v, Proofs/CapaFloat.v) evaluated on the harness's float-table cases: every float the run of
    PELT / CAPA can look at is finite.  On such a run the binary64 loop IS the inexact real-valued loop on the realised values ([gpelt_F64_is_peltA],
    [gcapa_F64_is_capaA]) and the near-optimality theorems apply.  The harness reports for how many of its cases (on which the model reproduces the real
    detector bit for bit) the premise holds. *)
From Coq Require Import PrimFloat List Arith Bool.
From SK Require Import Lib.Base Model.Generic Model.GenericF Model.GenericCapa Check.GenericCheck Check.GenericCapaCheck Proofs.GenericCapaWf Proofs.PeltFloat Proofs.CapaFloat.
Import ListNotations.

Definition fpelt_case_premise (c : fpelt_case) : bool :=
  pelt_trace_finite (ftab2 (fp_tab c)) (fp_pen c) (fp_m c) (fp_m c - 1) (fp_n c).

Definition fcapa_case_premise (c : fcapa_case) : bool :=
  let Sc := fun s e => nth e (nth s (fa_sc c) []) [] in
  let Sp := fun t => nth t (fa_sp c) [] in
  capa_trace_finite F64_tiny Sc Sp (fa_ac c) (fa_ap c) (fa_bc c) (fa_bp c) (fa_m c) (fa_M c) (fa_m c - 1) (fa_n c).
