(** Premises of the binary64 run theorems (Proofs/PeltFloat.v, Proofs/CapaFloat.v) evaluated on the harness's float-table cases: every float the run of
    PELT / CAPA can look at is finite.  On such a run the binary64 loop IS the inexact real-valued loop on the realised values ([gpelt_F64_is_peltA],
    [gcapa_F64_is_capaA]) and the near-optimality theorems apply.  The harness reports for how many of its cases (on which the model reproduces the real
    detector bit for bit) the premise holds. *)
From Coq Require Import PrimFloat List Arith Bool.
From SK Require Import Lib.Base Model.Generic Model.GenericF Model.GenericCapa Check.GenericCheck Check.GenericCapaCheck Proofs.GenericCapaWf Proofs.PeltFloat Proofs.CapaFloat.
Import ListNotations.

Definition fpelt_case_premise (c : fpelt_case) : bool :=
  pelt_trace_finite (ftab2 (fp_tab c)) (fp_pen c) (fp_m c) (fp_m c - 1) (fp_n c).

Definition fcapa_case_premise (c : fcapa_case) : bool :=
  let Sc := fun s e => nth e (nth s (fa_sc c) []) [] in
  let Sp := fun t => nth t (fa_sp c) [] in
  capa_trace_finite F64_tiny Sc Sp (fa_ac c) (fa_ap c) (fa_bc c) (fa_bp c) (fa_m c) (fa_M c) (fa_m c - 1) (fa_n c).

(** END TO END, squared-error cost on one column (Properties/C02_binary64_l2.v): from the float DATA -- no score table handed over -- the binary64 kernel twin
    [l2_cost_F] feeds the binary64 PELT loop; the result must be the implementation's changepoints and scores bit for bit, and all four boolean premises of
    [C02_binary64_l2_end_to_end_all_premises_boolean] must evaluate to true. *)
From SK Require Import Check.FloatKernelCheck Proofs.FloatRefine Proofs.PeltFloatL2.
Record fpl2_case := { f2_xs : list float; f2_pen : float; f2_m : nat; f2_mag : float; f2_b : float; f2_cpts : list nat; f2_scores : list float }.
Definition fpl2_case_ok (c : fpl2_case) : bool :=
  let '(sc, cp) := gpelt F64 (l2_cost_F (f2_xs c)) (f2_pen c) (f2_m c) (f2_m c - 1) (length (f2_xs c)) in
  flist_same sc (f2_scores c) && nlist_same cp (f2_cpts c).
Definition fpl2_case_premise (c : fpl2_case) : bool :=
  let n := length (f2_xs c) in
  l2_all_trace_ok (f2_xs c) && pelt_trace_finite (l2_cost_F (f2_xs c)) (f2_pen c) (f2_m c) (f2_m c - 1) n
  && pelt_mag_ok (l2_cost_F (f2_xs c)) (f2_pen c) (f2_m c) (f2_m c - 1) n (f2_mag c) && l2_absmax_ok (f2_xs c) (f2_b c).

(** The same for CAPA with the L2 saving on one column (Properties/C03_binary64_l2.v): from the DATA, [l2_saving_F] feeds the binary64 CAPA loop. *)
From SK Require Import Model.Capa Check.FloatSavingCheck Proofs.CapaFloatL2.
Record fcl2_case := { g2_xs : list float; g2_ac : float; g2_ap : float; g2_m : nat; g2_M : nat; g2_mag : float; g2_b : float;
                      g2_scores : list float; g2_coll : list (nat * nat); g2_pts : list (nat * nat) }.
Definition fcl2_case_ok (c : fcl2_case) : bool :=
  let '(sc, co, pt) := gcapa F64 F64_tiny (l2ScF (g2_xs c)) (l2SpF (g2_xs c)) (g2_ac c) [0%float] (g2_ap c) [0%float] (g2_m c) (g2_M c) (g2_m c - 1) (length (g2_xs c)) in
  flist_same sc (g2_scores c) && plist_same (sort_pairs co) (sort_pairs (g2_coll c)) && plist_same (sort_pairs pt) (sort_pairs (g2_pts c)).
Definition fcl2_case_premise (c : fcl2_case) : bool :=
  let n := length (g2_xs c) in
  l2_saving_all_trace_ok (g2_xs c)
  && capa_trace_finite F64_tiny (l2ScF (g2_xs c)) (l2SpF (g2_xs c)) (g2_ac c) (g2_ap c) [0%float] [0%float] (g2_m c) (g2_M c) (g2_m c - 1) n
  && capa_mag_ok F64_tiny (l2ScF (g2_xs c)) (l2SpF (g2_xs c)) (g2_ac c) (g2_ap c) [0%float] [0%float] (g2_m c) (g2_M c) (g2_m c - 1) n (g2_mag c)
  && l2_absmax_ok (g2_xs c) (g2_b c).

(** From the DATA with the CUSUM score on one column: the moving window and seeded binary segmentation (these detectors only COMPARE scores: Properties/C07_float.v,
    C08_float.v, C0x_any_threshold_float.v hold for whatever floats the scorer produced; here the scores themselves come from the binary64 twin [cusum_F] of the kernel, whose
    refinement / error theorem (Properties/C06.v, premise [cusum_trace_ok]) says how far they are from the real CUSUM statistic). *)
From SK Require Import Check.FloatKernelCheck2 Model.GenericAny Proofs.FloatKernels2 Proofs.MwSbsFloatCusum.
Record fmw2_case := { w2_xs : list float; w2_b : nat; w2_thr : float; w2_mdi : nat; w2_scores : list float; w2_cpts : list nat }.
Definition fmw2_case_ok (c : fmw2_case) : bool :=
  let '(sc, cp) := gmw_any F64 (cusum_F (w2_xs c)) (w2_b c) (length (w2_xs c)) (w2_thr c) (w2_mdi c) in
  flist_same sc (w2_scores c) && nlist_same cp (w2_cpts c).
(** the premise of Properties/C08_binary64_cusum.v ([mw_cusum_trace_ok]: every admissible cut stays in the normal range; the series is shorter than 2^46) and a finite threshold *)
Definition fmw2_case_premise (c : fmw2_case) : bool :=
  mw_cusum_trace_ok (w2_xs c) (w2_b c) && PrimFloat.is_finite (w2_thr c).
Record fsbs2_case := { s2_xs : list float; s2_m : nat; s2_thr : float; s2_ivs : list (nat * nat); s2_cpts : list nat; s2_argmax : list nat; s2_max : list float }.
Definition fsbs2_case_ok (c : fsbs2_case) : bool :=
  match gsbs_any F64 (cusum_F (s2_xs c)) (s2_m c) (s2_thr c) (s2_ivs c) with
  | None => false
  | Some (cp, am) => nlist_same cp (s2_cpts c) && nlist_same (map fst am) (s2_argmax c) && flist_same (map snd am) (s2_max c)
  end.
(** the premise of Properties/C07_binary64_cusum.v ([sbs_cusum_trace_ok]) and a finite threshold *)
Definition fsbs2_case_premise (c : fsbs2_case) : bool :=
  sbs_cusum_trace_ok (s2_xs c) (s2_m c) (s2_ivs c) && PrimFloat.is_finite (s2_thr c).

(** Circular binary segmentation from the DATA, squared-error cost on one column: the local anomaly score of (s, a, b, e) is
    outer - (inner + surrounding), the surrounding cost being the cost of the CONCATENATED rows before and after the inner interval, fitted afresh (its own prefix sums). *)
Definition fslice (s e : nat) (l : list float) : list float := firstn (e - s) (skipn s l).
Definition local_l2_F (l : list float) (s a b e : nat) : float :=
  let outer := l2_cost_F l s e in
  let inner := l2_cost_F l a b in
  let sur_data := fslice s a l ++ fslice b e l in
  let sur := l2_cost_F sur_data 0 (length sur_data) in
  (outer - (inner + sur))%float.
Record fcbs2_case := { c2_xs : list float; c2_m : nat; c2_thr : float; c2_ivs : list (nat * nat);
                       c2_anoms : list (nat * nat); c2_inner : list (nat * nat); c2_max : list float }.
Definition fcbs2_case_ok (c : fcbs2_case) : bool :=
  match gcbs_any F64 (local_l2_F (c2_xs c)) (c2_m c) (c2_thr c) (c2_ivs c) with
  | None => false
  | Some (an, am) => plist_same an (c2_anoms c) && plist_same (map fst am) (c2_inner c) && flist_same (map snd am) (c2_max c)
  end.

(** Several columns (Properties/C02_binary64_l2_columns.v): the per-column kernel twins aggregated as NumPy's row sum does for fewer than 8 columns. *)
From SK Require Import Proofs.PeltFloatL2Multi.
Record fpl2m_case := { m2_cols : list (list float); m2_n : nat; m2_pen : float; m2_m : nat; m2_mag : float; m2_b : float; m2_cpts : list nat; m2_scores : list float }.
Definition fpl2m_case_ok (c : fpl2m_case) : bool :=
  let '(sc, cp) := gpelt F64 (CfM (m2_cols c)) (m2_pen c) (m2_m c) (m2_m c - 1) (m2_n c) in
  flist_same sc (m2_scores c) && nlist_same cp (m2_cpts c).
Definition fpl2m_case_premise (c : fpl2m_case) : bool :=
  cols_length_ok (m2_cols c) (m2_n c) && l2_all_trace_ok_cols (m2_cols c)
  && pelt_trace_finite (CfM (m2_cols c)) (m2_pen c) (m2_m c) (m2_m c - 1) (m2_n c)
  && pelt_mag_ok (CfM (m2_cols c)) (m2_pen c) (m2_m c) (m2_m c - 1) (m2_n c) (m2_mag c)
  && agg_mag_ok (m2_cols c) (m2_n c) (m2_mag c) && l2_absmax_ok_cols (m2_cols c) (m2_b c).

(** CAPA with the L2 saving on SEVERAL columns (Properties/C03_binary64_l2_columns.v): all betas zero (what the CAPA class uses), the row sum in NumPy's order ([gsum] is the left fold). *)
From SK Require Import Proofs.CapaFloatL2Multi.
Record fcl2m_case := { h2_cols : list (list float); h2_n : nat; h2_ac : float; h2_ap : float; h2_m : nat; h2_M : nat; h2_mag : float; h2_b : float;
                       h2_scores : list float; h2_coll : list (nat * nat); h2_pts : list (nat * nat) }.
Definition fcl2m_case_ok (c : fcl2m_case) : bool :=
  let z := repeat 0%float (length (h2_cols c)) in
  let '(sc, co, pt) := gcapa F64 F64_tiny (l2ScFM (h2_cols c)) (l2SpFM (h2_cols c)) (h2_ac c) z (h2_ap c) z (h2_m c) (h2_M c) (h2_m c - 1) (h2_n c) in
  flist_same sc (h2_scores c) && plist_same (sort_pairs co) (sort_pairs (h2_coll c)) && plist_same (sort_pairs pt) (sort_pairs (h2_pts c)).
Definition fcl2m_case_premise (c : fcl2m_case) : bool :=
  let z := repeat 0%float (length (h2_cols c)) in
  cols_length_ok (h2_cols c) (h2_n c) && l2_saving_all_trace_ok_cols (h2_cols c)
  && capa_trace_finite F64_tiny (l2ScFM (h2_cols c)) (l2SpFM (h2_cols c)) (h2_ac c) (h2_ap c) z z (h2_m c) (h2_M c) (h2_m c - 1) (h2_n c)
  && capa_mag_ok F64_tiny (l2ScFM (h2_cols c)) (l2SpFM (h2_cols c)) (h2_ac c) (h2_ap c) z z (h2_m c) (h2_M c) (h2_m c - 1) (h2_n c) (h2_mag c)
  && sav_agg_mag_ok (h2_cols c) (h2_n c) (h2_mag c) && l2_absmax_ok_cols (h2_cols c) (h2_b c).

