(** The premise of Properties/C09_binary64_l2.v and a finite threshold, evaluated on the from-data cases of circular binary segmentation (a file of its own: Proofs/CbsFloatL2.v
    is stated about the definitions of Check/FloatRunCheck.v). *)
From Coq Require Import PrimFloat List Arith Bool.
From SK Require Import Lib.Base Check.FloatRunCheck Proofs.CbsFloatL2.
Import ListNotations.
Definition fcbs2_case_premise (c : fcbs2_case) : bool :=
  cbs_local_trace_ok (c2_xs c) (c2_m c) (c2_ivs c) && PrimFloat.is_finite (c2_thr c).
