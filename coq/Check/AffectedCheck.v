(** Checker for MVCAPA's affected columns (C16), applied to the implementation's output. *)
From Coq Require Import ZArith List Arith Bool.
From SK Require Import Lib.Base Model.Capa Model.Convert Check.ConvertCheck.
Import ListNotations.
Open Scope Z_scope.

Fixpoint nodupb (l : list nat) : bool :=
  match l with [] => true | x :: t => negb (memb x t) && nodupb t end.
Fixpoint nodupZb (l : list Z) : bool :=
  match l with [] => true | x :: t => negb (existsb (Z.eqb x) t) && nodupZb t end.
Fixpoint noninc (l : list Z) : bool :=
  match l with x :: ((y :: _) as t) => (y <=? x) && noninc t | _ => true end.

(** sav: the savings of the columns on the anomaly's interval; cols: the reported columns *)
Record af_case := { af_sav : list Z; af_alpha : Z; af_betas : list Z; af_cols : list nat }.

(** what the property says, decidable on any reported column list (valid also when savings tie):
    non-empty, distinct, valid positions, listed by non-increasing saving, no excluded column with a
    larger saving than an included one, and as many columns as the optimal prefix size *)
Definition af_spec_ok (c : af_case) : bool :=
  let p := length (af_sav c) in
  let vals := map (nthZ (af_sav c)) (af_cols c) in
  negb (Nat.eqb (length (af_cols c)) 0)
  && nodupb (af_cols c)
  && forallb (fun j => (j <? p)%nat) (af_cols c)
  && noninc vals
  && forallb (fun j => memb j (af_cols c) || forallb (fun v => nthZ (af_sav c) j <=? v) vals) (seq 0 p)
  && (length (af_cols c) =? length (affected (af_sav c) (af_alpha c) (af_betas c)))%nat.

(** exact equality with the model when the savings are pairwise distinct (NumPy's argsort order of
    equal values is unspecified) *)
Definition af_case_ok (c : af_case) : bool :=
  af_spec_ok c
  && (if nodupZb (af_sav c) then eqb_listN (affected (af_sav c) (af_alpha c) (af_betas c)) (af_cols c) else true).

(** transform marks exactly the reported columns on exactly the anomaly's rows *)
Definition af_dense_ok (c : nat * nat * list anom3 * list (list nat)) : bool :=
  let '(n, p, anoms, dense) := c in eqb_mat (sub_s2d n p anoms) dense.
