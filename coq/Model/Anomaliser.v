(** Executable model of skchange/anomaly_detectors/anomalisers.py :
    StatThresholdAnomaliser._predict.

    The code takes the wrapped change detector's DENSE segment labels
    ([transform(X)["labels"]], modelled by [Convert.cd_s2d]), groups the rows of X
    (after [reset_index(drop=True)], i.e. by integer position) by label, evaluates the
    statistic on the first column of every group and reports the group
    [(first position, last position + 1)] when the statistic is below [stat_lower] or
    above [stat_upper].  [pandas.groupby] iterates the labels in increasing order.

    The statistic is a Section variable [stat : list nat -> Z] over the POSITIONS of
    the rows handed to it (the data never enter the model: the statistic of the rows
    at positions [rows] is whatever the user's callable returns on them). *)
From Coq Require Import ZArith List Lia Bool Arith.
From SK Require Import Lib.Base Model.Convert.
Import ListNotations.
Open Scope Z_scope.

(** the segments delimited by changepoints: [0] + cpts + [n] pairwise *)
Fixpoint segs_from (prev : nat) (cpts : list nat) (n : nat) : list (nat * nat) :=
  match cpts with
  | [] => [(prev, n)]
  | c :: t => (prev, c) :: segs_from c t n
  end.
Definition segments (n : nat) (cpts : list nat) : list (nat * nat) := segs_from 0 cpts n.

(** positions carrying label [k] in a dense label vector *)
Definition rows_of (labels : list nat) (k : nat) : list nat :=
  map fst (filter (fun il => (snd il =? k)%nat) (combine (seq 0 (length labels)) labels)).

(** groupby("labels"): groups in increasing label order, empty groups skipped *)
Definition groups (labels : list nat) : list (list nat) :=
  filter (fun g => negb (Nat.eqb (length g) 0))
         (map (rows_of labels) (seq 0 (S (fold_right Nat.max 0%nat labels)))).

Section Anomaliser.
Variable stat : list nat -> Z.
Variables lo hi : Z.

Definition flagged (rows : list nat) : bool := (stat rows <? lo) || (hi <? stat rows).

(** (segment.index[0], segment.index[-1] + 1) *)
Definition span (rows : list nat) : nat * nat := (hd 0%nat rows, S (last rows 0%nat)).

(** _predict given the inner detector's dense labels *)
Definition anomalise_labels (labels : list nat) : list (nat * nat) :=
  map span (filter flagged (groups labels)).

(** _predict given the inner detector's changepoints on the same data (length n) *)
Definition anomalise (n : nat) (cpts : list nat) : list (nat * nat) :=
  anomalise_labels (cd_s2d n cpts).

(** the specification: exactly the flagged segments, each as its own interval *)
Definition seg_rows (se : nat * nat) : list nat := seq (fst se) (snd se - fst se).
Definition anomalise_spec (n : nat) (cpts : list nat) : list (nat * nat) :=
  filter (fun se => flagged (seg_rows se)) (segments n cpts).
End Anomaliser.
