(** The search loops of the detectors over an ARBITRARY number type.

    Model/Pelt.v, Mw.v, Sbs.v and Cbs.v are stated over Z (exact integer tables: executable, and the
    type the optimality / greedy-specification theorems are proved for).  This file repeats the same
    definitions, line by line, over a record [num] of the operations the real loops use on score
    values: a zero, addition, negation and the two comparisons.  Three instances matter:

      - Z        : [Proofs/GenericZ.v] proves that every generic function at the Z instance IS the
                   Z model, so all theorems about the Z models are theorems about these definitions;
      - binary64 : [Model/GenericF.v] -- Coq's primitive floats, the arithmetic the real code runs
                   on.  At this instance the definitions are executable on the float score tables of
                   the real scorers, and the harness compares them bit for bit with the real
                   detectors (Check/GenericCheck.v);
      - R        : Model/PeltR.v (the end-to-end theorems for the built-in costs).

    Nothing here depends on laws of the operations: those enter the theorems, not the model. *)
From Coq Require Import List Bool Arith.
From SK Require Import Lib.Base Model.Pelt Model.Mw Model.Sbs Model.Capa Model.Cbs.
Import ListNotations.

Record num := {
  T : Type;
  zero : T;
  add : T -> T -> T;
  neg : T -> T;
  ltb : T -> T -> bool;
  leb : T -> T -> bool
}.

Section Generic.
Variable N : num.
Notation V := (T N).
Notation "x <! y" := (ltb N x y) (at level 70).
Notation "x <=! y" := (leb N x y) (at level 70).
Notation "x +! y" := (add N x y) (at level 50, left associativity).

Definition nthV (l : list V) (i : nat) : V := nth i l (zero N).

(** first extremal position, as np.argmin / np.argmax *)
Fixpoint gargmin_from (bi : nat) (b : V) (i : nat) (l : list V) : nat * V :=
  match l with
  | [] => (bi, b)
  | x :: t => if x <! b then gargmin_from i x (S i) t else gargmin_from bi b (S i) t
  end.
Definition gargmin (l : list V) : option (nat * V) :=
  match l with [] => None | x :: t => Some (gargmin_from 0 x 1 t) end.

Fixpoint gargmax_from (bi : nat) (b : V) (i : nat) (l : list V) : nat * V :=
  match l with
  | [] => (bi, b)
  | x :: t => if b <! x then gargmax_from i x (S i) t else gargmax_from bi b (S i) t
  end.
Definition gargmax (l : list V) : option (nat * V) :=
  match l with [] => None | x :: t => Some (gargmax_from 0 x 1 t) end.

(** ------------------------------ moving window (Model/Mw.v) ------------------------------ *)
Definition gmw_scores (CS : nat -> nat -> nat -> V) (b n : nat) : list V :=
  map (fun t => if (b <=? t)%nat && (t + b <=? n)%nat then CS (t - b) t (t + b) else zero N) (seq 0 n).

Definition gmw_cpts (scores : list V) (thr : V) (mdi : nat) : list nat :=
  flat_map (fun se =>
      let '(s, e) := se in
      if (mdi <=? e - s)%nat then
        match gargmax (slice s e scores) with Some (i, _) => [(s + i)%nat] | None => [] end
      else [])
    (where_runs (map (fun v => thr <! v) scores)).

Definition gmw (CS : nat -> nat -> nat -> V) (b n : nat) (thr : V) (mdi : nat) : list V * list nat :=
  let sc := gmw_scores CS b n in (sc, gmw_cpts sc thr mdi).

(** ------------------------ seeded binary segmentation (Model/Sbs.v) ------------------------ *)
Definition gamoc (CS : nat -> nat -> nat -> V) (m : nat) (se : nat * nat) : option (nat * V) :=
  let '(s, e) := se in
  let splits := seq (s + m) (e - m + 1 - (s + m)) in
  match gargmax (map (fun k => CS s k e) splits) with
  | None => None
  | Some (i, v) => Some ((s + m + i)%nat, v)
  end.

Fixpoint gamocs (CS : nat -> nat -> nat -> V) (m : nat) (ivs : list (nat * nat)) : option (list (nat * V)) :=
  match ivs with
  | [] => Some []
  | se :: t => match gamoc CS m se, gamocs CS m t with
               | Some x, Some r => Some (x :: r)
               | _, _ => None
               end
  end.

Fixpoint ggreedy_cpts (fuel : nat) (thr : V) (ivs : list (nat * nat)) (maxs : list nat)
         (scores : list V) : option (list nat) :=
  if negb (existsb (fun v => thr <! v) scores) then Some [] else
  match fuel with
  | O => None
  | S f =>
    match gargmax scores with
    | None => Some []
    | Some (i, _) =>
      let c := nthN maxs i in
      let scores' := map (fun sv => if contains (fst sv) c then zero N else snd sv) (combine ivs scores) in
      match ggreedy_cpts f thr ivs maxs scores' with
      | Some r => Some (c :: r)
      | None => None
      end
    end
  end.

Definition gsbs (CS : nat -> nat -> nat -> V) (m : nat) (thr : V) (ivs : list (nat * nat))
  : option (list nat * list (nat * V)) :=
  match gamocs CS m ivs with
  | None => None
  | Some am =>
    match ggreedy_cpts (length ivs) thr ivs (map fst am) (map snd am) with
    | None => None
    | Some picks => Some (sort_nat picks, am)
    end
  end.

(** ----------------------- circular binary segmentation (Model/Cbs.v) ----------------------- *)
Definition gbest_inner (LS : nat -> nat -> nat -> nat -> V) (m : nat) (se : nat * nat) : option ((nat * nat) * V) :=
  let '(s, e) := se in
  let cands := anomaly_intervals s e m in
  match gargmax (map (fun ab => LS s (fst ab) (snd ab) e) cands) with
  | None => None
  | Some (i, v) => Some (nth i cands (0, 0)%nat, v)
  end.
Definition ginner_or_zero (LS : nat -> nat -> nat -> nat -> V) (m : nat) (se : nat * nat) : (nat * nat) * V :=
  match gbest_inner LS m se with Some x => x | None => ((0, 0)%nat, zero N) end.

Fixpoint ggreedy_anoms (fuel : nat) (thr : V) (ivs : list (nat * nat)) (inner : list (nat * nat))
         (scores : list V) : option (list (nat * nat)) :=
  if negb (existsb (fun v => thr <! v) scores) then Some [] else
  match fuel with
  | O => None
  | S f =>
    match gargmax scores with
    | None => Some []
    | Some (i, _) =>
      let ab := nth i inner (0, 0)%nat in
      let scores' := map (fun sv => if overlaps ab (fst sv) then zero N else snd sv) (combine ivs scores) in
      match ggreedy_anoms f thr ivs inner scores' with
      | Some r => Some (ab :: r)
      | None => None
      end
    end
  end.

Definition gcbs (LS : nat -> nat -> nat -> nat -> V) (m : nat) (thr : V) (ivs : list (nat * nat))
  : option (list (nat * nat) * list ((nat * nat) * V)) :=
  let am := map (ginner_or_zero LS m) ivs in
  match ggreedy_anoms (length ivs) thr ivs (map fst am) (map snd am) with
  | None => None
  | Some picks => Some (sort_pairs picks, am)
  end.

(** ------------------------------------ PELT (Model/Pelt.v) ------------------------------------ *)
Section GPelt.
Variable C : nat -> nat -> V.
Variable pen : V.
Variable m : nat.
Variable delay : nat.

Record gst := { gopt : list V; gprev : list nat; gstarts : list nat; gpending : list (list nat) }.

Definition ginit : gst :=
  {| gopt := repeat (neg N pen) m ++ map (fun e => C 0 e) (seq m m);
     gprev := repeat 0%nat (2 * m - 1);
     gstarts := [0%nat];
     gpending := [] |}.

Definition gstep (s : gst) (t : nat) : gst :=
  let T' := S t in
  let starts1 := gstarts s ++ [t - (m - 1)]%nat in
  let cands := map (fun a => nthV (gopt s) a +! C a T' +! pen) starts1 in
  match gargmin cands with
  | None => s
  | Some (i, b) =>
    let drop := map fst (filter (fun ac => negb (snd ac <=! b +! pen)) (combine starts1 cands)) in
    let pend := gpending s ++ [drop] in
    let '(now, pend') := if (delay <? length pend)%nat then (hd [] pend, tl pend) else ([], pend) in
    {| gopt := gopt s ++ [b];
       gprev := gprev s ++ [nthN starts1 i];
       gstarts := removeall now starts1;
       gpending := pend' |}
  end.

Definition grun (n : nat) : gst :=
  fold_left gstep (seq (2 * m - 1) (n - (2 * m - 1))) ginit.

Definition gpelt (n : nat) : list V * list nat :=
  let s := grun n in (tl (gopt s), Pelt.changepoints (gprev s) n).
End GPelt.

End Generic.

(** the Z instance *)
Definition Zn : num :=
  {| T := BinNums.Z; zero := BinNums.Z0; add := BinInt.Z.add; neg := BinInt.Z.opp;
     ltb := BinInt.Z.ltb; leb := BinInt.Z.leb |}.
