(** Executable model of skchange/anomaly_detectors/mvcapa.py :
    penalise_savings, optimise_savings, run_base_capa, get_anomalies,
    find_affected_components, and of the CAPA / MVCAPA [_predict] post-processing.

    Savings enter as per-column integer vectors: [Sc s e] (collective, interval
    [s,e)) and [Sp t] (point, interval [t,t+1)) -- what
    [collective_saving.evaluate] / [point_saving.evaluate] return for one row.
    [delay]: iterations a "saving too low" pruning decision waits before it is
    applied (code after the fix: m - 1; originally pinned code: 0). *)
From Coq Require Import ZArith List Lia Bool Arith.
From SK Require Import Lib.Base.
Import ListNotations.
Open Scope Z_scope.

(** ---------- penalise_savings (one row) ---------- *)

(** insertion sort, decreasing *)
Fixpoint insert_desc (x : Z) (l : list Z) : list Z :=
  match l with
  | [] => [x]
  | y :: t => if y <? x then x :: l else y :: insert_desc x t
  end.
Fixpoint sort_desc (l : list Z) : list Z :=
  match l with [] => [] | x :: t => insert_desc x (sort_desc t) end.

(** running sums: cumsum [a;b;c] = [a; a+b; a+b+c] *)
Fixpoint cumsum_from (acc : Z) (l : list Z) : list Z :=
  match l with [] => [] | x :: t => (acc + x) :: cumsum_from (acc + x) t end.
Definition cumsum (l : list Z) : list Z := cumsum_from 0 l.

Definition sub_lists (a b : list Z) : list Z := map (fun xy => fst xy - snd xy) (combine a b).

(** np.all(betas < 1e-8) on integer-valued betas *)
Definition all_tiny (betas : list Z) : bool := forallb (fun b => b <=? 0) betas.
Definition all_equal (betas : list Z) : bool :=
  match betas with [] => true | b0 :: _ => forallb (fun b => b =? b0) betas end.

Definition penalise (sav : list Z) (alpha : Z) (betas : list Z) : Z :=
  if all_tiny betas then sumZ sav - alpha
  else if all_equal betas then
    sumZ (map (fun s => Z.max (s - hd 0 betas) 0) sav) - alpha
  else
    match argmax (map (fun c => c - alpha) (cumsum (sub_lists (sort_desc sav) betas))) with
    | Some (_, v) => v
    | None => 0 (* p = 0: excluded by the theorems *)
    end.

(** ---------- find_affected_components (one anomaly) ---------- *)

(** decreasing argsort: positions of [sav] ordered by decreasing value; among equal
    values the smaller column comes first (NumPy leaves the order of ties
    unspecified -- compared only on tie-free rows). *)
Fixpoint insert_idx (sav : list Z) (j : nat) (l : list nat) : list nat :=
  match l with
  | [] => [j]
  | k :: t => if nthZ sav k <? nthZ sav j then j :: l else k :: insert_idx sav j t
  end.
Definition argsort_desc (sav : list Z) : list nat :=
  fold_right (insert_idx sav) [] (seq 0 (length sav)).

Definition affected (sav : list Z) (alpha : Z) (betas : list Z) : list nat :=
  let order := argsort_desc sav in
  let pensav := map (fun c => c - alpha)
                    (cumsum (sub_lists (map (nthZ sav) order) betas)) in
  match argmax pensav with
  | Some (k, _) => firstn (S k) order
  | None => []
  end.

(** ---------- run_base_capa ---------- *)
Section Capa.
Variable Sc : nat -> nat -> list Z.
Variable Sp : nat -> list Z.
Variables (ac : Z) (bc : list Z) (ap : Z) (bp : list Z).
Variables (m M : nat).   (* min / max segment length *)
Variable delay : nat.

Definition Pc (s e : nat) : Z := penalise (Sc s e) ac bc.
Definition Pp (t : nat) : Z := penalise (Sp t) ap bp.

Record st := { opt : list Z;                 (* opt_savings[0 .. t]       *)
               astart : list (option nat);    (* opt_anomaly_starts[0..t-1], None = NaN *)
               starts : list nat;
               pending : list (list nat) }.

Definition init : st := {| opt := [0]; astart := []; starts := []; pending := [] |}.

(** one loop iteration for time index t (prefix end T = t + 1) *)
Definition step (s : st) (t : nat) : st :=
  let T := S t in
  let ot := nthZ (opt s) t in
  let starts1 := if (m <=? T)%nat then starts s ++ [T - m]%nat else starts s in
  let cands := map (fun a => nthZ (opt s) a + Pc a T) starts1 in
  let optp := ot + Pp t in
  (* np.argmax over [opt[t], opt_collective, opt_point]; first maximum wins *)
  let '(choice, best) :=
    match argmax cands with
    | None => if ot <? optp then (Some t, optp) else (None, ot)
    | Some (i, oc) =>
        if ot <? oc then (if oc <? optp then (Some t, optp) else (Some (nthN starts1 i), oc))
        else (if ot <? optp then (Some t, optp) else (None, ot))
    end in
  let low := map fst (filter (fun ac0 => snd ac0 + (ac + sumZ bc) <? best) (combine starts1 cands)) in
  let pend := pending s ++ [low] in
  let '(now, pend') := if (delay <? length pend)%nat then (hd [] pend, tl pend) else ([], pend) in
  let keep := filter (fun a => negb (memb a now) && negb (a + M <? T + 1)%nat) starts1 in
  {| opt := opt s ++ [best];
     astart := astart s ++ [choice];
     starts := keep;
     pending := pend' |}.

Definition run (n : nat) : st := fold_left step (seq 0 n) init.

(** get_anomalies: [e] = i + 1 of the code. Output in the code's (decreasing) order. *)
Fixpoint get_anoms (fuel : nat) (as_ : list (option nat)) (e : nat)
  : list (nat * nat) * list (nat * nat) :=
  match fuel with
  | O => ([], [])
  | S f =>
    match e with
    | O => ([], [])
    | S i =>
      match nth i as_ None with
      | None => get_anoms f as_ i
      | Some a =>
          if (a <? i)%nat then let '(c, p) := get_anoms f as_ a in ((a, S i) :: c, p)
          else if (a =? i)%nat then let '(c, p) := get_anoms f as_ i in (c, (i, S i) :: p)
          else get_anoms f as_ i
      end
    end
  end.

(** (scores = opt_savings[1:], collective anomalies, point anomalies) *)
Definition capa (n : nat) : list Z * list (nat * nat) * list (nat * nat) :=
  let s := run n in
  let '(c, p) := get_anoms n (astart s) n in (tl (opt s), c, p).
End Capa.

(** ---------- _predict post-processing: merge, optional drop of points, sort ---------- *)
Definition pair_ltb (a b : nat * nat) : bool :=
  (fst a <? fst b)%nat || ((fst a =? fst b)%nat && (snd a <? snd b)%nat).
Fixpoint insert_pair (x : nat * nat) (l : list (nat * nat)) :=
  match l with [] => [x] | y :: t => if pair_ltb x y then x :: l else y :: insert_pair x t end.
Definition sort_pairs (l : list (nat * nat)) := fold_right insert_pair [] l.

Definition capa_predict (ignore_points : bool) (c p : list (nat * nat)) : list (nat * nat) :=
  sort_pairs (if ignore_points then c else c ++ p).
