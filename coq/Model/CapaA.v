(** Inexact twin of Model/CapaR.v : the same transcription of run_base_capa, where every
    arithmetic step that the code performs in binary64 is an UNINTERPRETED function

      [Vc a T g]  the computed value of  g + Pc a T   (candidate of start [a] at end [T]),
      [Vp t g]    the computed value of  g + Pp t     (point option at time [t]),
      [Wk a T c]  the computed value of  c + K        (left-hand side of the prune test applied
                  to the candidate of start [a] at end [T]),

    so that the rounding of the penalised savings, of the sums [opt[a] + saving] and of
    the prune test are all covered.  [stepA] mirrors [stepC] of Model/CapaR.v line by
    line; the record [stC], [initC], [argmaxR] and (from Model/Capa.v) [get_anoms],
    [capa_predict] are reused.  With the exact functions the model IS [capaR]
    ([capaA_exact]).  The robustness theorem is in Proofs/CapaApprox.v. *)
From Coq Require Import Reals List Lia Bool Arith.
From SK Require Import Lib.Base Model.Capa Model.PeltR Proofs.RealLib Model.CapaR.
Import ListNotations.
Open Scope R_scope.

Section CapaA.
Variable Vc : nat -> nat -> R -> R.   (* Vc a T g = COMPUTED g + Pc a T *)
Variable Vp : nat -> R -> R.          (* Vp t g   = COMPUTED g + Pp t   *)
Variable Wk : nat -> nat -> R -> R.   (* Wk a T c = COMPUTED c + K, for the candidate of start a at end T *)
Variables (m M : nat).                (* min / max segment length *)
Variable delay : nat.

(** one loop iteration for time index t (prefix end T = t + 1) *)
Definition stepA (s : stC) (t : nat) : stC :=
  let T := S t in
  let ot := nthR (optC s) t in
  let starts1 := if (m <=? T)%nat then startsC s ++ [T - m]%nat else startsC s in
  let cands := map (fun a => Vc a T (nthR (optC s) a)) starts1 in
  let optp := Vp t ot in
  (* np.argmax over [opt[t], opt_collective, opt_point]; first maximum wins *)
  let '(choice, best) :=
    match argmaxR cands with
    | None => if Rltb ot optp then (Some t, optp) else (None, ot)
    | Some (i, oc) =>
        if Rltb ot oc then (if Rltb oc optp then (Some t, optp) else (Some (nthN starts1 i), oc))
        else (if Rltb ot optp then (Some t, optp) else (None, ot))
    end in
  let low := map fst (filter (fun ac0 => Rltb (Wk (fst ac0) T (snd ac0)) best) (combine starts1 cands)) in
  let pend := pendingC s ++ [low] in
  let '(now, pend') := if (delay <? length pend)%nat then (hd [] pend, tl pend) else ([], pend) in
  let keep := filter (fun a => negb (memb a now) && negb (a + M <? T + 1)%nat) starts1 in
  {| optC := optC s ++ [best];
     astartC := astartC s ++ [choice];
     startsC := keep;
     pendingC := pend' |}.

Definition runA (n : nat) : stC := fold_left stepA (seq 0 n) initC.

(** (scores = opt_savings[1:], collective anomalies, point anomalies) *)
Definition capaA (n : nat) : list R * list (nat * nat) * list (nat * nat) :=
  let s := runA n in
  let '(c, p) := get_anoms n (astartC s) n in (tl (optC s), c, p).
End CapaA.

(** sanity: with exact arithmetic the inexact model is the real model, definitionally *)
Lemma stepA_exact (Sc : nat -> nat -> list R) (Sp : nat -> list R)
      (ac : R) (bc : list R) (ap : R) (bp : list R) (m M delay : nat) s t :
  stepA (fun a T g => g + PcR Sc ac bc a T) (fun t g => g + PpR Sp ap bp t)
        (fun _ _ c => c + (ac + sumR bc)) m M delay s t
  = stepC Sc Sp ac bc ap bp m M delay s t.
Proof. reflexivity. Qed.

Lemma runA_exact (Sc : nat -> nat -> list R) (Sp : nat -> list R)
      (ac : R) (bc : list R) (ap : R) (bp : list R) (m M delay n : nat) :
  runA (fun a T g => g + PcR Sc ac bc a T) (fun t g => g + PpR Sp ap bp t)
       (fun _ _ c => c + (ac + sumR bc)) m M delay n
  = runC Sc Sp ac bc ap bp m M delay n.
Proof. reflexivity. Qed.

Lemma capaA_exact (Sc : nat -> nat -> list R) (Sp : nat -> list R)
      (ac : R) (bc : list R) (ap : R) (bp : list R) (m M delay n : nat) :
  capaA (fun a T g => g + PcR Sc ac bc a T) (fun t g => g + PpR Sp ap bp t)
        (fun _ _ c => c + (ac + sumR bc)) m M delay n
  = capaR Sc Sp ac bc ap bp m M delay n.
Proof. reflexivity. Qed.
