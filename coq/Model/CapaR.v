(** Real-valued twin of Model/Capa.v : the same transcription of penalise_savings,
    find_affected_components, run_base_capa and get_anomalies, with per-column savings
    [Sc : nat -> nat -> list R], [Sp : nat -> list R] and real penalties.  Every
    definition mirrors the one of Model/Capa.v line by line (suffix [R]); the
    comparisons [<?] / [<=?] / [=?] of Z become the boolean wrappers [Rltb] / [Rleb]
    (Model/PeltR.v) and [Reqb] of [Rlt_dec] / [Rle_dec] / [Req_EM_T], [Z.max] becomes
    [Rmax].  The decreasing insertion sort and the first-maximum convention of the
    argmax are the same as over Z.  The model is a specification object: it is
    related to the executable Z model by [capaR_of_Z] in Proofs/CapaReal.v, it is not
    meant to compute.

    [nthN], [memb] (Lib/Base.v), [get_anoms], [capa_predict] (Model/Capa.v) only
    work on nat and are reused; [nthR], [Rltb], [Rleb] come from Model/PeltR.v and
    [sumR] from Proofs/RealLib.v.  The record of the dynamic programme is called
    [stC] (fields [optC], ...) because [stR] / [optR] are taken by Model/PeltR.v. *)
From Coq Require Import Reals List Lia Bool Arith.
From SK Require Import Lib.Base Model.Capa Model.PeltR Proofs.RealLib.
Import ListNotations.
Open Scope R_scope.

Definition Reqb (x y : R) : bool := if Req_EM_T x y then true else false.

(** first maximum, as np.argmax (twin of [argmax_from] / [argmax] of Lib/Base.v) *)
Fixpoint argmaxR_from (bi : nat) (b : R) (i : nat) (l : list R) : nat * R :=
  match l with
  | [] => (bi, b)
  | x :: t => if Rltb b x then argmaxR_from i x (S i) t else argmaxR_from bi b (S i) t
  end.
Definition argmaxR (l : list R) : option (nat * R) :=
  match l with [] => None | x :: t => Some (argmaxR_from 0 x 1 t) end.

Definition maxlR (d : R) (l : list R) : R := fold_left Rmax l d.

(** ---------- penalise_savings (one row) ---------- *)

(** insertion sort, decreasing *)
Fixpoint insert_descR (x : R) (l : list R) : list R :=
  match l with
  | [] => [x]
  | y :: t => if Rltb y x then x :: l else y :: insert_descR x t
  end.
Fixpoint sort_descR (l : list R) : list R :=
  match l with [] => [] | x :: t => insert_descR x (sort_descR t) end.

(** running sums: cumsum [a;b;c] = [a; a+b; a+b+c] *)
Fixpoint cumsumR_from (acc : R) (l : list R) : list R :=
  match l with [] => [] | x :: t => (acc + x) :: cumsumR_from (acc + x) t end.
Definition cumsumR (l : list R) : list R := cumsumR_from 0 l.

Definition sub_listsR (a b : list R) : list R := map (fun xy => fst xy - snd xy) (combine a b).

Definition all_tinyR (betas : list R) : bool := forallb (fun b => Rleb b 0) betas.
Definition all_equalR (betas : list R) : bool :=
  match betas with [] => true | b0 :: _ => forallb (fun b => Reqb b b0) betas end.

Definition penaliseR (sav : list R) (alpha : R) (betas : list R) : R :=
  if all_tinyR betas then sumR sav - alpha
  else if all_equalR betas then
    sumR (map (fun s => Rmax (s - hd 0 betas) 0) sav) - alpha
  else
    match argmaxR (map (fun c => c - alpha) (cumsumR (sub_listsR (sort_descR sav) betas))) with
    | Some (_, v) => v
    | None => 0 (* p = 0: excluded by the theorems *)
    end.

(** ---------- find_affected_components (one anomaly) ---------- *)

Fixpoint insert_idxR (sav : list R) (j : nat) (l : list nat) : list nat :=
  match l with
  | [] => [j]
  | k :: t => if Rltb (nthR sav k) (nthR sav j) then j :: l else k :: insert_idxR sav j t
  end.
Definition argsort_descR (sav : list R) : list nat :=
  fold_right (insert_idxR sav) [] (seq 0 (length sav)).

Definition affectedR (sav : list R) (alpha : R) (betas : list R) : list nat :=
  let order := argsort_descR sav in
  let pensav := map (fun c => c - alpha)
                    (cumsumR (sub_listsR (map (nthR sav) order) betas)) in
  match argmaxR pensav with
  | Some (k, _) => firstn (S k) order
  | None => []
  end.

(** ---------- run_base_capa ---------- *)
Section CapaR.
Variable Sc : nat -> nat -> list R.
Variable Sp : nat -> list R.
Variables (ac : R) (bc : list R) (ap : R) (bp : list R).
Variables (m M : nat).   (* min / max segment length *)
Variable delay : nat.

Definition PcR (s e : nat) : R := penaliseR (Sc s e) ac bc.
Definition PpR (t : nat) : R := penaliseR (Sp t) ap bp.

Record stC := { optC : list R;                 (* opt_savings[0 .. t]       *)
                astartC : list (option nat);   (* opt_anomaly_starts[0..t-1], None = NaN *)
                startsC : list nat;
                pendingC : list (list nat) }.

Definition initC : stC := {| optC := [0]; astartC := []; startsC := []; pendingC := [] |}.

(** one loop iteration for time index t (prefix end T = t + 1) *)
Definition stepC (s : stC) (t : nat) : stC :=
  let T := S t in
  let ot := nthR (optC s) t in
  let starts1 := if (m <=? T)%nat then startsC s ++ [T - m]%nat else startsC s in
  let cands := map (fun a => nthR (optC s) a + PcR a T) starts1 in
  let optp := ot + PpR t in
  (* np.argmax over [opt[t], opt_collective, opt_point]; first maximum wins *)
  let '(choice, best) :=
    match argmaxR cands with
    | None => if Rltb ot optp then (Some t, optp) else (None, ot)
    | Some (i, oc) =>
        if Rltb ot oc then (if Rltb oc optp then (Some t, optp) else (Some (nthN starts1 i), oc))
        else (if Rltb ot optp then (Some t, optp) else (None, ot))
    end in
  let low := map fst (filter (fun ac0 => Rltb (snd ac0 + (ac + sumR bc)) best) (combine starts1 cands)) in
  let pend := pendingC s ++ [low] in
  let '(now, pend') := if (delay <? length pend)%nat then (hd [] pend, tl pend) else ([], pend) in
  let keep := filter (fun a => negb (memb a now) && negb (a + M <? T + 1)%nat) starts1 in
  {| optC := optC s ++ [best];
     astartC := astartC s ++ [choice];
     startsC := keep;
     pendingC := pend' |}.

Definition runC (n : nat) : stC := fold_left stepC (seq 0 n) initC.

(** (scores = opt_savings[1:], collective anomalies, point anomalies); [get_anoms] of
    Model/Capa.v only reads the back-pointers *)
Definition capaR (n : nat) : list R * list (nat * nat) * list (nat * nat) :=
  let s := runC n in
  let '(c, p) := get_anoms n (astartC s) n in (tl (optC s), c, p).
End CapaR.
