(** Executable model of skchange/change_detectors/moving_window.py :
    moving_window_transform, utils.numba.general.where,
    get_moving_window_changepoints. *)
From Coq Require Import ZArith List Lia Bool Arith.
From SK Require Import Lib.Base.
Import ListNotations.
Open Scope Z_scope.

Section Mw.
Variable CS : nat -> nat -> nat -> Z.   (* change score of (start, split, end), summed over columns *)
Variable b : nat.                        (* bandwidth *)

(** scores[t] = CS (t-b) t (t+b) for t in [b, n-b], 0 elsewhere *)
Definition mw_scores (n : nat) : list Z :=
  map (fun t => if (b <=? t)%nat && (t + b <=? n)%nat then CS (t - b) t (t + b) else 0) (seq 0 n).
End Mw.

(** where(indicator): maximal runs of true as (start, end) pairs.
    [cur] = Some start of the open run. *)
Fixpoint where_from (i : nat) (cur : option nat) (l : list bool) : list (nat * nat) :=
  match l with
  | [] => match cur with Some s => [(s, i)] | None => [] end
  | v :: t =>
    match v, cur with
    | true, None => where_from (S i) (Some i) t
    | true, Some _ => where_from (S i) cur t
    | false, Some s => (s, i) :: where_from (S i) None t
    | false, None => where_from (S i) None t
    end
  end.
Definition where_runs (l : list bool) : list (nat * nat) := where_from 0 None l.

Definition slice {A} (s e : nat) (l : list A) : list A := firstn (e - s) (skipn s l).

Definition mw_cpts (scores : list Z) (thr : Z) (mdi : nat) : list nat :=
  flat_map (fun se =>
      let '(s, e) := se in
      if (mdi <=? e - s)%nat then
        match argmax (slice s e scores) with Some (i, _) => [(s + i)%nat] | None => [] end
      else [])
    (where_runs (map (fun v => thr <? v) scores)).

Definition mw (CS : nat -> nat -> nat -> Z) (b n : nat) (thr : Z) (mdi : nat) : list Z * list nat :=
  let sc := mw_scores CS b n in (sc, mw_cpts sc thr mdi).
