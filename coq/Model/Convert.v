(** Executable model of the sparse <-> dense converters:
    ChangeDetector.sparse_to_dense / dense_to_sparse,
    CollectiveAnomalyDetector.sparse_to_dense / dense_to_sparse,
    SubsetCollectiveAnomalyDetector.sparse_to_dense / dense_to_sparse.

    None of the functions takes the index of X: the converters work on integer
    positions only (that is the property), so any dependence of the real code on the
    index values shows up as a correspondence failure. *)
From Coq Require Import ZArith List Lia Bool Arith.
From SK Require Import Lib.Base.
Import ListNotations.
Close Scope Z_scope.
Open Scope nat_scope.

(** labels[a:b] = v with Python slice semantics on a list *)
Definition assign {A} (l : list A) (a b : nat) (v : A) : list A :=
  map (fun ix => if (a <=? fst ix) && (fst ix <? b) then v else snd ix) (combine (seq 0 (length l)) l).

(** ---------- change detectors ---------- *)
(** changepoints = [0] + cpts + [n]; labels[c_i : c_{i+1}] = i *)
Fixpoint cd_fill (l : list nat) (prev : nat) (cpts : list nat) (n : nat) (i : nat) : list nat :=
  match cpts with
  | [] => assign l prev n i
  | c :: t => cd_fill (assign l prev c i) c t n (S i)
  end.
Definition cd_s2d (n : nat) (cpts : list nat) : list nat := cd_fill (repeat 0 n) 0 cpts n 0.

(** positions i >= 1 with labels[i] <> labels[i-1] *)
Fixpoint cd_d2s_from (i : nat) (prev : nat) (l : list nat) : list nat :=
  match l with
  | [] => []
  | x :: t => if (x =? prev) then cd_d2s_from (S i) x t else i :: cd_d2s_from (S i) x t
  end.
Definition cd_d2s (labels : list nat) : list nat :=
  match labels with [] => [] | x :: t => cd_d2s_from 1 x t end.

(** ---------- collective anomaly detectors ---------- *)
(** IntervalIndex.get_indexer(position) + 1 : label of the (first) interval containing i *)
Fixpoint find_iv (i : nat) (ivs : list (nat * nat)) (k : nat) : nat :=
  match ivs with
  | [] => 0
  | (s, e) :: t => if (s <=? i) && (i <? e) then k else find_iv i t (S k)
  end.
Definition ca_s2d (n : nat) (ivs : list (nat * nat)) : list nat :=
  map (fun i => find_iv i ivs 1) (seq 0 n).

(** maximal runs of one positive label, as (start, end) in position order.
    [cur] = Some (start, label) of the open run. *)
Fixpoint ca_runs (i : nat) (cur : option (nat * nat)) (l : list nat) : list (nat * nat) :=
  match l with
  | [] => match cur with Some (s, _) => [(s, i)] | None => [] end
  | x :: t =>
    match cur with
    | None => if (0 <? x) then ca_runs (S i) (Some (i, x)) t else ca_runs (S i) None t
    | Some (s, lab) =>
        if (x =? lab) then ca_runs (S i) cur t
        else if (0 <? x) then (s, i) :: ca_runs (S i) (Some (i, x)) t
        else (s, i) :: ca_runs (S i) None t
    end
  end.
Definition ca_d2s (labels : list nat) : list (nat * nat) := ca_runs 0 None labels.

(** ---------- subset collective anomaly detectors ---------- *)
Definition anom3 := (nat * nat * list nat)%type.   (* start, end, affected columns *)

(** labels[start:end, cols] = k on an n x p matrix (list of rows) *)
Definition sub_assign (mat : list (list nat)) (a : anom3) (k : nat) : list (list nat) :=
  let '(s, e, cols) := a in
  map (fun ir => if (s <=? fst ir) && (fst ir <? e)
                 then map (fun jc => if memb (fst jc) cols then k else snd jc)
                          (combine (seq 0 (length (snd ir))) (snd ir))
                 else snd ir)
      (combine (seq 0 (length mat)) mat).
Fixpoint sub_fill (mat : list (list nat)) (anoms : list anom3) (k : nat) : list (list nat) :=
  match anoms with [] => mat | a :: t => sub_fill (sub_assign mat a k) t (S k) end.
Definition sub_s2d (n p : nat) (anoms : list anom3) : list (list nat) :=
  sub_fill (repeat (repeat 0 p) n) anoms 1.

(** for each label k = 1..K present: rows first..last+1 where it occurs, columns where it occurs *)
Definition rows_with (mat : list (list nat)) (k : nat) : list nat :=
  map fst (filter (fun ir => existsb (Nat.eqb k) (snd ir)) (combine (seq 0 (length mat)) mat)).
Definition cols_with (mat : list (list nat)) (p k : nat) : list nat :=
  filter (fun j => existsb (fun r => nth j r 0 =? k) mat) (seq 0 p).
Definition max_label (mat : list (list nat)) : nat :=
  fold_right Nat.max 0 (map (fold_right Nat.max 0) mat).
Definition sub_d2s (p : nat) (mat : list (list nat)) : list anom3 :=
  flat_map (fun k => match rows_with mat k with
                     | [] => []
                     | r :: t => [(r, S (last t r), cols_with mat p k)]
                     end)
           (seq 1 (max_label mat)).
