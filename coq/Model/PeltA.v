(** PELT under INEXACT arithmetic.

    Mirror of Model/PeltR.v (itself the real-valued twin of the transcription of
    skchange's run_pelt) in which every arithmetic step that the binary64 code rounds is
    replaced by an ARBITRARY function:

    - [V a T g]  : the COMPUTED candidate value [opt_cost[a] + cost(a, T) + penalty] for
                   the start [a] and the (exclusive) end [T], when the value stored in
                   [opt_cost[a]] is [g]  (covers the rounding error of the cost itself and
                   of the two additions);
    - [W T b]    : the COMPUTED [b + penalty] used on the right of the prune test of the
                   iteration whose segment end is [T] ([b] = the value just stored in
                   [opt_cost[T]]);
    - [I0 e]     : the COMPUTED cost of the segment [0, e) written by the initial block.

    Nothing is assumed on [V], [W], [I0] here; Proofs/PeltApprox.v assumes that they are
    within [eps] of the exact expressions.  The state record [stR], [argminR], [Rltb],
    [Rleb], [nthR], [backtrackR], [changepointsR] are those of Model/PeltR.v. *)
From Coq Require Import Reals List Lia Bool Arith.
From SK Require Import Lib.Base Model.PeltR.
Import ListNotations.
Open Scope R_scope.

Section PeltA.
Variable V : nat -> nat -> R -> R.
Variable W : nat -> R -> R.
Variable I0 : nat -> R.
Variable pen : R.
Variable m : nat.       (* min_segment_length *)
Variable delay : nat.

(** state before the loop: opt_cost[0..2m-1], prev_cpts[0..2m-2] = 0, starts = [0] *)
Definition initA : stR :=
  {| optR := repeat (- pen) m ++ map I0 (seq m m);
     prevR := repeat 0%nat (2 * m - 1);
     startsR := [0%nat];
     pendingR := [] |}.

(** one loop iteration for observation index [t] (segment end T = t + 1) *)
Definition stepA (s : stR) (t : nat) : stR :=
  let T := S t in
  let starts1 := startsR s ++ [t - (m - 1)]%nat in
  let cands := map (fun a => V a T (nthR (optR s) a)) starts1 in
  match argminR cands with
  | None => s  (* unreachable: starts1 is never empty *)
  | Some (i, b) =>
    let drop := map fst (filter (fun ac => negb (Rleb (snd ac) (W T b))) (combine starts1 cands)) in
    let pend := pendingR s ++ [drop] in
    let '(now, pend') := if (delay <? length pend)%nat then (hd [] pend, tl pend) else ([], pend) in
    {| optR := optR s ++ [b];
       prevR := prevR s ++ [nthN starts1 i];
       startsR := removeall now starts1;
       pendingR := pend' |}
  end.

Definition runA (n : nat) : stR :=
  fold_left stepA (seq (2 * m - 1) (n - (2 * m - 1))) initA.

(** (scores = opt_cost[1:], changepoints) *)
Definition peltA (n : nat) : list R * list nat :=
  let s := runA n in (tl (optR s), changepointsR (prevR s) n).
End PeltA.

(** Sanity: with the exact candidate / threshold / initial functions the inexact model
    IS the real model of Model/PeltR.v. *)
Lemma peltA_exact (C : nat -> nat -> R) (pen : R) (m delay n : nat) :
  peltA (fun a T g => g + C a T + pen) (fun _ b => b + pen) (C 0%nat) pen m delay n
  = peltR C pen m delay n.
Proof. reflexivity. Qed.
