(** Executable model of skchange/anomaly_detectors/circular_binseg.py :
    make_anomaly_intervals, the per-interval argmax of run_circular_binseg and
    greedy_anomaly_selection. Candidate (outer) intervals come from
    Model/Sbs.seeded_intervals. *)
From Coq Require Import ZArith List Lia Bool Arith.
From SK Require Import Lib.Base Model.Sbs Model.Capa.
Import ListNotations.
Open Scope Z_scope.

(** for i in range(s+1, e-m+2): for j in range(i+m, e): if (e-j)+(i-s) >= m *)
Definition anomaly_intervals (s e m : nat) : list (nat * nat) :=
  flat_map (fun i =>
    flat_map (fun j => if (m <=? (e - j) + (i - s))%nat then [(i, j)] else [])
             (seq (i + m) (e - (i + m))))
    (seq (s + 1) (e - m + 2 - (s + 1))).

Section Cbs.
Variable LS : nat -> nat -> nat -> nat -> Z.  (* local anomaly score of (s, a, b, e), summed over columns *)
Variable m : nat.

(** Some (inner interval, score) of the first maximiser; None when the outer interval
    admits no inner interval (the code after "fix: circular binseg ..." skips it,
    leaving score 0 and argmax (0,0); the pinned code raised from np.argmax). *)
Definition best_inner (se : nat * nat) : option ((nat * nat) * Z) :=
  let '(s, e) := se in
  let cands := anomaly_intervals s e m in
  match argmax (map (fun ab => LS s (fst ab) (snd ab) e) cands) with
  | None => None
  | Some (i, v) => Some (nth i cands (0, 0)%nat, v)
  end.

Definition inner_or_zero (se : nat * nat) : (nat * nat) * Z :=
  match best_inner se with Some x => x | None => ((0, 0)%nat, 0) end.
End Cbs.

Definition overlaps (ab se : nat * nat) : bool := (fst se <? snd ab)%nat && (fst ab <? snd se)%nat.

Fixpoint greedy_anoms (fuel : nat) (thr : Z) (ivs : list (nat * nat)) (inner : list (nat * nat))
         (scores : list Z) : option (list (nat * nat)) :=
  if negb (existsb (fun v => thr <? v) scores) then Some [] else
  match fuel with
  | O => None
  | S f =>
    match argmax scores with
    | None => Some []
    | Some (i, _) =>
      let ab := nth i inner (0, 0)%nat in
      let scores' := map (fun sv => if overlaps ab (fst sv) then 0 else snd sv) (combine ivs scores) in
      match greedy_anoms f thr ivs inner scores' with
      | Some r => Some (ab :: r)
      | None => None
      end
    end
  end.

(** run_circular_binseg: (sorted anomalies, per-interval (inner, score)) *)
Definition cbs (LS : nat -> nat -> nat -> nat -> Z) (m : nat) (thr : Z) (ivs : list (nat * nat))
  : option (list (nat * nat) * list ((nat * nat) * Z)) :=
  let am := map (inner_or_zero LS m) ivs in
  match greedy_anoms (length ivs) thr ivs (map fst am) (map snd am) with
  | None => None
  | Some picks => Some (sort_pairs picks, am)
  end.
