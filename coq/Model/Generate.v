(** Executable model of skchange/datasets/generate.py :
    generate_changing_data, generate_anomalous_data, generate_alternating_data,
    add_linspace_outliers.

    The model is parametric in the number type [num] and in
    [affine mu v z] (= mu + sqrt v * z in the code); Check/GenerateCheck.v
    instantiates it with Coq's primitive binary64 floats so that the comparison
    with NumPy is bit-exact.  The standard-normal draw
    [multivariate_normal.rvs(zeros(p), eye(p), n, seed)] is the INPUT matrix [Zm]
    (n rows of p numbers): the property defines the output relative to "the
    standard-normal output for the same seed".

    Means / variances of a segment are lists of length 1 (broadcast over the p
    columns, NumPy broadcasting) or p; p = length of the first mean.  Any other
    length makes NumPy raise ValueError ("could not broadcast"), modelled as [Err].

    Python slice semantics for NON-NEGATIVE bounds: x[a:b] touches rows
    a <= i < min b n, nothing when a >= b.  Negative bounds are rejected
    (positions outside the data). *)
From Coq Require Import List Arith Bool Lia.
Import ListNotations.

Inductive result (A : Type) : Type := Ok (a : A) | Err.
Arguments Ok {A} a.
Arguments Err {A}.

Section Generate.
Variable num : Type.
Variable affine : num -> num -> num -> num.   (* affine mu v z = mu + sqrt v * z *)
Variable add : num -> num -> num.

Definition matrix := list (list num).

(** per-column parameter j of a length-1 or length-p vector *)
Definition bc (v : list num) (d : num) (j : nat) : num :=
  match v with [x] => x | _ => nth j v d end.

Definition vec_ok (p : nat) (v : list num) : bool := (length v =? 1) || (length v =? p).

(** x[a:b] = mean + sqrt(var) * x[a:b] on a list of rows *)
Definition apply_row (mu va : list num) (d : num) (row : list num) : list num :=
  map (fun jz => affine (bc mu d (fst jz)) (bc va d (fst jz)) (snd jz))
      (combine (seq 0 (length row)) row).
Definition apply_seg (x : matrix) (a b : nat) (mu va : list num) (d : num) : matrix :=
  map (fun ir => if (a <=? fst ir) && (fst ir <? b) then apply_row mu va d (snd ir) else snd ir)
      (combine (seq 0 (length x)) x).

Definition seg := (nat * nat * list num * list num)%type.   (* start, end, mean, variance *)

Fixpoint apply_all (x : matrix) (segs : list seg) (d : num) : matrix :=
  match segs with
  | [] => x
  | (a, b, mu, va) :: t => apply_all (apply_seg x a b mu va d) t d
  end.

(** len(means) == 1  ->  means * k *)
Definition recycle {A} (l : list A) (k : nat) : list A :=
  match l with [x] => repeat x k | _ => l end.

Fixpoint consecutive (prev : nat) (cpts : list nat) (n : nat) : list (nat * nat) :=
  match cpts with [] => [(prev, n)] | c :: t => (prev, c) :: consecutive c t n end.

Fixpoint zip4 (ivs : list (nat * nat)) (ms vs : list (list num)) : list seg :=
  match ivs, ms, vs with
  | (a, b) :: ti, m :: tm, v :: tv => (a, b, m, v) :: zip4 ti tm tv
  | _, _, _ => []
  end.

(** generate_changing_data; changepoints are given as integers (Z-valued positions are
    mapped by the harness: a negative changepoint is passed as [neg := true]) *)
Definition changing (n : nat) (neg : bool) (cpts : list nat) (means vars : list (list num))
    (Zm : matrix) (d : num) : result matrix :=
  let k := S (length cpts) in
  let ms := recycle means k in
  let vs := recycle vars k in
  if negb ((length ms =? k) && (length vs =? k)) then Err
  else if existsb (fun c => n - 1 <? c) cpts then Err
  else if neg then Err
  else
    let p := length (hd [] ms) in
    if negb (forallb (vec_ok p) ms && forallb (vec_ok p) vs) then Err
    else Ok (apply_all Zm (zip4 (consecutive 0 cpts n) ms vs) d).

(** generate_anomalous_data; [bad_shape] = some anomaly is not a pair, [neg] = some
    start is negative *)
Definition anomalous (n : nat) (bad_shape neg : bool) (anoms : list (nat * nat))
    (means vars : list (list num)) (Zm : matrix) (d : num) : result matrix :=
  let k := length anoms in
  let ms := recycle means k in
  let vs := recycle vars k in
  if negb ((length ms =? k) && (length vs =? k)) then Err
  else if bad_shape then Err
  else if existsb (fun se => snd se <=? fst se) anoms then Err
  else if existsb (fun se => n <? snd se) anoms then Err
  else if neg then Err
  else
    let p := length (hd [] ms) in
    if negb (forallb (vec_ok p) ms && forallb (vec_ok p) vs) then Err
    else Ok (apply_all Zm (zip4 anoms ms vs) d).

(** generate_alternating_data: segment i has the neutral parameters for even i and
    (mean on the first n_aff columns, variance on the first n_aff columns) for odd i.
    [n_aff] = int(np.round(p * affected_proportion)) is computed by the caller (float
    rounding oracle); [zero], [one] are the neutral mean / variance. *)
Definition alt_vec (p n_aff : nat) (v neutral : num) : list num :=
  repeat v n_aff ++ repeat neutral (p - n_aff).
Definition alternating (nseg seglen p n_aff : nat) (mean var zero one : num)
    (Zm : matrix) (d : num) : result matrix :=
  let means := map (fun i => if Nat.even i then repeat zero p else alt_vec p n_aff mean zero) (seq 0 nseg) in
  let vars := map (fun i => if Nat.even i then repeat one p else alt_vec p n_aff var one) (seq 0 nseg) in
  changing (seglen * nseg) false (map (fun i => seglen * i) (seq 1 (nseg - 1))) means vars Zm d.

(** add_linspace_outliers: df.iloc[positions] += size.  The positions come from
    np.linspace(0, n_rows - 1, k, dtype=int) (binary64 arithmetic, then floor): an
    oracle recomputed by the harness.  NumPy's fancy-index "+=" adds ONCE to a row
    that is listed several times. *)
Definition add_outliers (x : matrix) (positions : list nat) (size : num) : matrix :=
  map (fun ir => if existsb (Nat.eqb (fst ir)) positions then map (fun z => add z size) (snd ir) else snd ir)
      (combine (seq 0 (length x)) x).
End Generate.

(** exact-integer evenly spaced positions: floor (i * (n - 1) / (k - 1)) *)
Definition linspace_int (n k : nat) : list nat :=
  match k with
  | 0 => []
  | 1 => [0]
  | _ => map (fun i => (i * (n - 1)) / (k - 1)) (seq 0 k)
  end.

(** what the outlier positions must satisfy: k of them, first row, last row, non-decreasing,
    strictly increasing when k <= n, consecutive gaps differing by at most 1 from the
    exact spacing *)
Definition positions_ok (n k : nat) (pos : list nat) : bool :=
  (length pos =? k)
  && match pos with [] => true | a :: _ => (a =? 0) end
  && ((k <? 2) || (last pos 0 =? n - 1))
  && forallb (fun i => nth i pos 0 <=? nth (S i) pos 0) (seq 0 (k - 1))
  && ((n <? k) || forallb (fun i => nth i pos 0 <? nth (S i) pos 0) (seq 0 (k - 1)))
  && forallb (fun i => (nth i pos 0 <=? nth i (linspace_int n k) 0)
                        && (nth i (linspace_int n k) 0 <=? nth i pos 0 + 1)) (seq 0 k).
