(** The binary64 instance of the generic search loops: Coq's primitive floats (IEEE 754 binary64,
    round to nearest even) -- the arithmetic NumPy performs on float64 arrays.  Comparisons with a
    NaN are false, as in NumPy; the harness never feeds NaN scores (np.argmax treats NaN as maximal,
    which the first-strict-improvement scan does not). *)
From Coq Require Import PrimFloat.
From SK Require Import Model.Generic.

Definition F64 : num :=
  {| T := float; zero := 0%float; add := PrimFloat.add; neg := PrimFloat.opp;
     ltb := PrimFloat.ltb; leb := PrimFloat.leb |}.
