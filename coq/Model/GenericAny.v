(** The greedy selection loops of the three threshold detectors AS FIXED: well behaved for EVERY
    threshold, including a negative one (a threshold tuned on constant data can be slightly negative).

    Model/Generic.v has the loops as the original code had them: a removed candidate gets the score
    [zero N] and the loop runs while some score exceeds the threshold, so that for a negative threshold
    the removed candidates stay selectable for ever (the model runs out of [fuel]); the moving window
    takes its runs over all [n] positions, including the zero placeholders of the first and last [b].

    The fixed code
      - seeded binary segmentation : removed intervals get the score -infinity
                                     ([scores[...] = -np.inf]);
      - circular binary segmentation: every candidate WITHOUT an admissible inner interval (inner end
                                     <= inner start: the [(0,0)] placeholder of [ginner_or_zero]) is set
                                     to -infinity before the loop; candidates overlapping the chosen
                                     anomaly are set to -infinity;
      - moving window              : the runs are taken over the admissible positions only,
                                     [scores[b : n - b + 1]], and the changepoints are shifted by [b].

    [num] has no -infinity.  A score that may have been removed is an [option (T N)]: [None] is
    -infinity -- it exceeds no threshold ([gabove]) and is below every proper score ([oltb]), exactly
    as [-np.inf > thr] is False and [-np.inf < x] is True for every finite [x].  [oargmax] is
    np.argmax on such a vector (first maximum); it reports [None] when there is no proper score at
    all (np.argmax would report position 0, but the loops only call it when some score exceeds the
    threshold).

    Nothing here depends on laws of the operations.  Proofs/AnyThreshold.v proves that these
    definitions coincide with those of Model/Generic.v for a non-negative threshold, and that they
    terminate with a well-formed result for every threshold. *)
From Coq Require Import List Bool Arith.
From SK Require Import Lib.Base Model.Mw Model.Sbs Model.Capa Model.Cbs Model.Generic.
Import ListNotations.

Section GenericAny.
Variable N : num.
Notation V := (T N).
Notation "x <! y" := (ltb N x y) (at level 70).

(** [v > thr] for a possibly removed score *)
Definition gabove (thr : V) (v : option V) : bool :=
  match v with Some x => thr <! x | None => false end.

(** [a < b] on possibly removed scores: -infinity is below every proper score and nothing else *)
Definition oltb (a b : option V) : bool :=
  match a, b with
  | _, None => false
  | None, Some _ => true
  | Some x, Some y => x <! y
  end.

(** first maximal position, as np.argmax on a vector that may contain -infinity *)
Fixpoint oargmax_from (bi : nat) (b : option V) (i : nat) (l : list (option V)) : nat * option V :=
  match l with
  | [] => (bi, b)
  | x :: t => if oltb b x then oargmax_from i x (S i) t else oargmax_from bi b (S i) t
  end.

Definition oargmax (l : list (option V)) : option (nat * V) :=
  match l with
  | [] => None
  | x :: t => match oargmax_from 0 x 1 t with
              | (i, Some v) => Some (i, v)
              | (_, None) => None
              end
  end.

(** ------------------------ seeded binary segmentation ------------------------ *)
Fixpoint ggreedy_cpts_any (fuel : nat) (thr : V) (ivs : list (nat * nat)) (maxs : list nat)
         (scores : list (option V)) : option (list nat) :=
  if negb (existsb (gabove thr) scores) then Some [] else
  match fuel with
  | O => None
  | S f =>
    match oargmax scores with
    | None => Some []
    | Some (i, _) =>
      let c := nthN maxs i in
      let scores' := map (fun sv => if contains (fst sv) c then None else snd sv) (combine ivs scores) in
      match ggreedy_cpts_any f thr ivs maxs scores' with
      | Some r => Some (c :: r)
      | None => None
      end
    end
  end.

(** the per-interval part is that of [gsbs]; every candidate starts with its proper score *)
Definition gsbs_any (CS : nat -> nat -> nat -> V) (m : nat) (thr : V) (ivs : list (nat * nat))
  : option (list nat * list (nat * V)) :=
  match gamocs N CS m ivs with
  | None => None
  | Some am =>
    match ggreedy_cpts_any (length ivs) thr ivs (map fst am) (map Some (map snd am)) with
    | None => None
    | Some picks => Some (sort_nat picks, am)
    end
  end.

(** ----------------------- circular binary segmentation ----------------------- *)
Fixpoint ggreedy_anoms_any (fuel : nat) (thr : V) (ivs : list (nat * nat)) (inner : list (nat * nat))
         (scores : list (option V)) : option (list (nat * nat)) :=
  if negb (existsb (gabove thr) scores) then Some [] else
  match fuel with
  | O => None
  | S f =>
    match oargmax scores with
    | None => Some []
    | Some (i, _) =>
      let ab := nth i inner (0, 0)%nat in
      let scores' := map (fun sv => if overlaps ab (fst sv) then None else snd sv) (combine ivs scores) in
      match ggreedy_anoms_any f thr ivs inner scores' with
      | Some r => Some (ab :: r)
      | None => None
      end
    end
  end.

(** a candidate whose reported inner interval [(a, z)] has [z <= a] has no admissible inner interval:
    it starts removed *)
Definition cbs_initial (x : (nat * nat) * V) : option V :=
  if (snd (fst x) <=? fst (fst x))%nat then None else Some (snd x).

Definition gcbs_any (LS : nat -> nat -> nat -> nat -> V) (m : nat) (thr : V) (ivs : list (nat * nat))
  : option (list (nat * nat) * list ((nat * nat) * V)) :=
  let am := map (ginner_or_zero N LS m) ivs in
  match ggreedy_anoms_any (length ivs) thr ivs (map fst am) (map cbs_initial am) with
  | None => None
  | Some picks => Some (sort_pairs picks, am)
  end.

(** ------------------------------ moving window ------------------------------ *)
(** the scores vector is unchanged; the runs are those of [scores[b : n - b + 1]] (meant for
    [2 * b <= n]) *)
Definition gmw_any (CS : nat -> nat -> nat -> V) (b n : nat) (thr : V) (mdi : nat) : list V * list nat :=
  let sc := gmw_scores N CS b n in
  (sc, map (fun c => (c + b)%nat) (gmw_cpts N (slice b (n - b + 1) sc) thr mdi)).

End GenericAny.
