(** Object-state model for property C10 (results depend only on hyper-parameters,
    training data and the input).

    What is modelled (skchange/base/base_detector.py, base_interval_scorer.py, the
    detectors' [_fit] / [_predict], sktime's reset / set_params / clone):

    - LEAF SCORER objects (costs, CUSUM, L2Saving, ...): a hyper-parameter and the data
      of the last [fit] applied to that very object, by anyone.  A detector keeps the
      user's scorer object (no copy) and REFITS IT IN PLACE on the input of every
      predict / transform / transform_scores, and on the training data when the
      threshold is tuned at fit time.
    - DETECTOR objects: hyper-parameters, references to scorer objects (aliasing between
      detectors allowed), the fitted attributes (threshold_/penalty_..., represented by
      what they were computed from), the remembered training data [_X] and the scores of
      the most recent predict stored on the detector.
    - sktime semantics: [set_params] = assign + reset (the object becomes unfitted, all
      non-hyper-parameter attributes are dropped); nested [set_params(cost__param=..)]
      mutates the user's scorer object and resets both; [clone] = a new unfitted object
      with fresh unfitted copies of the nested scorers.

    Data sets, hyper-parameter settings and cuts are abstract identifiers (nat); the
    combination performed by [update] (pandas [combine_first]) is a symbolic term.
    The OUTPUT of an observing operation is the tuple of things the real computation
    reads -- its dependency set.  The theorem (Proofs/ObjectsProofs.v) says that this
    tuple is a function of (current hyper-parameters, data of the last fit (+ updates),
    argument) only, as computed by an independent scan of the history. *)
From Coq Require Import List Arith Bool Lia.
Import ListNotations.

Inductive dterm : Type :=
| Raw (id : nat)                       (* a data set supplied by the caller *)
| Comb (newer older : dterm).          (* X_new.combine_first(X_old) *)

Fixpoint dterm_eqb (a b : dterm) : bool :=
  match a, b with
  | Raw i, Raw j => i =? j
  | Comb a1 a2, Comb b1 b2 => dterm_eqb a1 b1 && dterm_eqb a2 b2
  | _, _ => false
  end.

Record scorer := { s_param : nat; s_fit : option dterm }.

(** what the fitted attributes of a detector were computed from *)
Record fitrec := { f_params : nat; f_sparams : list nat; f_data : dterm }.

Record detector := {
  d_params : nat;
  d_tunes : bool;                  (* threshold tuned on the training scores at fit time *)
  d_scorers : list nat;            (* references into the scorer heap *)
  d_fit : option fitrec;           (* None = not fitted *)
  d_X : option dterm;              (* _X *)
  d_scores : option (nat * dterm)  (* .scores of the last predict: (params, input) *)
}.

Record heap := { scorers : list scorer; detectors : list detector }.
Definition empty : heap := {| scorers := []; detectors := [] |}.

Inductive obsop := Predict | Transform | TransformScores.

Inductive op : Type :=
| NewS (param : nat)
| NewD (params : nat) (tunes : bool) (refs : list nat)
| SetD (d : nat) (params : nat) (tunes : bool)    (* detector.set_params(<own hyper-parameters>) *)
| SetNested (d : nat) (k : nat) (param : nat)     (* detector.set_params(<scorer k>__param = ...) *)
| SetS (s : nat) (param : nat)                    (* scorer.set_params(...) *)
| CloneD (d : nat)
| CloneS (s : nat)
| FitS (s : nat) (data : nat)
| EvalS (s : nat) (cuts : nat)
| FitD (d : nat) (data : dterm)              (* caller data: Raw k, or a combination the caller built *)
| UpdateD (d : nat) (data : nat)
| Observe (o : obsop) (d : nat) (x : nat).

Inductive out : Type :=
| ONone                              (* operation returns self / nothing observable *)
| ONew (id : nat)                    (* id of the created object *)
| OBadRef                            (* the harness never generates these *)
| ONotFitted                         (* NotFittedError *)
| OEval (param : nat) (data : dterm) (cuts : nat)
| ODet (o : obsop) (params : nat) (sparams : list nat) (fit : fitrec) (x : nat).

Definition upd {A} (l : list A) (i : nat) (v : A) : list A :=
  map (fun ix => if fst ix =? i then v else snd ix) (combine (seq 0 (length l)) l).

Definition set_sfit (ss : list scorer) (refs : list nat) (D : dterm) : list scorer :=
  map (fun ix => if existsb (Nat.eqb (fst ix)) refs
                 then {| s_param := s_param (snd ix); s_fit := Some D |} else snd ix)
      (combine (seq 0 (length ss)) ss).

Definition sparams_of (ss : list scorer) (refs : list nat) : list nat :=
  map (fun r => match nth_error ss r with Some s => s_param s | None => 0 end) refs.

Definition reset_d (d : detector) (params : nat) (tunes : bool) : detector :=
  {| d_params := params; d_tunes := tunes; d_scorers := d_scorers d;
     d_fit := None; d_X := None; d_scores := None |}.

(** fit / update of detector d on the (possibly combined) data D *)
Definition do_fit (h : heap) (i : nat) (d : detector) (D : dterm) : heap :=
  let ss := if d_tunes d then set_sfit (scorers h) (d_scorers d) D else scorers h in
  let d' := {| d_params := d_params d; d_tunes := d_tunes d; d_scorers := d_scorers d;
               d_fit := Some {| f_params := d_params d;
                                f_sparams := sparams_of (scorers h) (d_scorers d);
                                f_data := D |};
               d_X := Some D; d_scores := d_scores d |} in
  {| scorers := ss; detectors := upd (detectors h) i d' |}.

Definition step (h : heap) (o : op) : heap * out :=
  match o with
  | NewS p =>
      ({| scorers := scorers h ++ [{| s_param := p; s_fit := None |}]; detectors := detectors h |},
       ONew (length (scorers h)))
  | NewD p tn refs =>
      if forallb (fun r => r <? length (scorers h)) refs then
        ({| scorers := scorers h;
            detectors := detectors h ++ [{| d_params := p; d_tunes := tn; d_scorers := refs;
                                            d_fit := None; d_X := None; d_scores := None |}] |},
         ONew (length (detectors h)))
      else (h, OBadRef)
  | SetD i p tn =>
      match nth_error (detectors h) i with
      | Some d => ({| scorers := scorers h; detectors := upd (detectors h) i (reset_d d p tn) |}, ONone)
      | None => (h, OBadRef)
      end
  | SetNested i k p =>
      match nth_error (detectors h) i with
      | Some d =>
          match nth_error (d_scorers d) k with
          | Some r =>
              ({| scorers := upd (scorers h) r {| s_param := p; s_fit := None |};
                  detectors := upd (detectors h) i (reset_d d (d_params d) (d_tunes d)) |}, ONone)
          | None => (h, OBadRef)
          end
      | None => (h, OBadRef)
      end
  | SetS r p =>
      if r <? length (scorers h)
      then ({| scorers := upd (scorers h) r {| s_param := p; s_fit := None |}; detectors := detectors h |}, ONone)
      else (h, OBadRef)
  | CloneS r =>
      match nth_error (scorers h) r with
      | Some s => ({| scorers := scorers h ++ [{| s_param := s_param s; s_fit := None |}];
                      detectors := detectors h |}, ONew (length (scorers h)))
      | None => (h, OBadRef)
      end
  | CloneD i =>
      match nth_error (detectors h) i with
      | Some d =>
          let n0 := length (scorers h) in
          let news := map (fun p => {| s_param := p; s_fit := None |}) (sparams_of (scorers h) (d_scorers d)) in
          ({| scorers := scorers h ++ news;
              detectors := detectors h ++ [{| d_params := d_params d; d_tunes := d_tunes d;
                                              d_scorers := seq n0 (length (d_scorers d));
                                              d_fit := None; d_X := None; d_scores := None |}] |},
           ONew (length (detectors h)))
      | None => (h, OBadRef)
      end
  | FitS r D =>
      match nth_error (scorers h) r with
      | Some s => ({| scorers := upd (scorers h) r {| s_param := s_param s; s_fit := Some (Raw D) |};
                      detectors := detectors h |}, ONone)
      | None => (h, OBadRef)
      end
  | EvalS r c =>
      match nth_error (scorers h) r with
      | Some s => match s_fit s with
                  | Some D => (h, OEval (s_param s) D c)
                  | None => (h, ONotFitted)
                  end
      | None => (h, OBadRef)
      end
  | FitD i D =>
      match nth_error (detectors h) i with
      | Some d => (do_fit h i d D, ONone)
      | None => (h, OBadRef)
      end
  | UpdateD i D =>
      match nth_error (detectors h) i with
      | Some d =>
          match d_fit d, d_X d with
          | Some _, Some old => (do_fit h i d (Comb (Raw D) old), ONone)
          | _, _ => (h, ONotFitted)
          end
      | None => (h, OBadRef)
      end
  | Observe ob i x =>
      match nth_error (detectors h) i with
      | Some d =>
          match d_fit d with
          | Some fr =>
              let d' := {| d_params := d_params d; d_tunes := d_tunes d; d_scorers := d_scorers d;
                           d_fit := d_fit d; d_X := d_X d; d_scores := Some (d_params d, Raw x) |} in
              ({| scorers := set_sfit (scorers h) (d_scorers d) (Raw x);
                  detectors := upd (detectors h) i d' |},
               ODet ob (d_params d) (sparams_of (scorers h) (d_scorers d)) fr x)
          | None => (h, ONotFitted)
          end
      | None => (h, OBadRef)
      end
  end.

(** run a history, collecting every output *)
Fixpoint run (h : heap) (ops : list op) : heap * list out :=
  match ops with
  | [] => (h, [])
  | o :: t => let '(h1, r) := step h o in let '(h2, rs) := run h1 t in (h2, r :: rs)
  end.
