(** Model of the detectors' documented hyper-parameter domains and data requirements
    (constructor checks check_larger_than / check_in_interval, check_data in _fit / _predict,
    the scorer's own min_size check in evaluate) -- property C14.

    A configuration is abstracted to the quantities the checks look at.  [expected] says, for a
    detector, a configuration and a data shape, whether the run must end in ValueError or must
    complete with well-formed output; nothing else is permitted (apart from the documented
    not-positive-definite error of the multivariate Gaussian cost on degenerate data, which the
    harness never generates). *)
From Coq Require Import ZArith List Bool Lia.
Import ListNotations.
Open Scope Z_scope.

Inductive det := Pelt | Mw | Sbs | Cbs | Capa | Mvcapa.

Record cfg := {
  c_m : Z;            (* min_segment_length *)
  c_M : Z;            (* max_segment_length (CAPA, MVCAPA) / max_interval_length (SBS, CBS) *)
  c_b : Z;            (* bandwidth *)
  c_mdi : Z;          (* min_detection_interval *)
  c_gf_ok : bool;     (* growth_factor in (1, 2] *)
  c_scales_ok : bool; (* every scale is None-where-allowed or >= 0 *)
  c_ms : Z;           (* min_size of the (collective) scorer on this data *)
  c_pms : Z           (* min_size of the point saving (CAPA, MVCAPA) *)
}.

Definition config_ok (d : det) (c : cfg) : bool :=
  match d with
  | Pelt => c_scales_ok c && (1 <=? c_m c)
  | Mw => c_scales_ok c && (1 <=? c_b c) && (1 <=? c_mdi c) && ((c_mdi c <=? 1) || (2 * c_mdi c + 2 <=? c_b c))
  | Sbs | Cbs => c_scales_ok c && (1 <=? c_m c) && (2 * c_m c <=? c_M c) && c_gf_ok c
  | Capa | Mvcapa => c_scales_ok c && (2 <=? c_m c) && (c_m c <=? c_M c) && (c_pms c =? 1)
  end.

(** documented minimum number of samples *)
Definition min_len (d : det) (c : cfg) : Z :=
  match d with
  | Pelt | Sbs | Cbs => 2 * c_m c
  | Mw => 2 * c_b c
  | Capa | Mvcapa => c_m c
  end.

(** the chosen scorer can score segments as short as the configuration asks for *)
Definition scorer_ok (d : det) (c : cfg) : bool :=
  match d with
  | Mw => c_ms c <=? c_b c
  | _ => c_ms c <=? c_m c
  end.

(** [MayRaiseValueError]: the chosen scorer cannot score segments as short as requested; the run
    either raises ValueError (as soon as such a segment is evaluated) or completes (when the data are
    so short that no such segment is ever evaluated) -- the property permits both. *)
Inductive outcome := Completes | RaisesValueError | MayRaiseValueError.

Definition expected (d : det) (c : cfg) (n : Z) (has_nan : bool) : outcome :=
  if negb (config_ok d c) then RaisesValueError
  else if has_nan then RaisesValueError
  else if n <? min_len d c then RaisesValueError
  else if negb (scorer_ok d c) then MayRaiseValueError
  else Completes.

(** StatThresholdAnomaliser: its own check plus the wrapped detector's *)
Definition expected_anomaliser (lo_le_hi : bool) (d : det) (c : cfg) (n : Z) (has_nan : bool) : outcome :=
  if negb lo_le_hi then RaisesValueError else expected d c n has_nan.
