(** Container-blind model of the data entry points (property C11).

    Every entry point that accepts data (fit, update, predict, transform, transform_scores; scorer
    fit) first normalises its argument -- check_series / check_data / as_2d_array -- to an n x p
    matrix of numbers; everything downstream is a function of that matrix alone.  The model makes
    this explicit: an input is a container kind, a dtype, an index kind, column names and the
    VALUES; [norm] forgets everything but the values, and every entry point is [algo (norm x)]
    for an arbitrary [algo].  Dense outputs additionally carry the input's own index.

    The theorems (same values => same results; dense output index = input index) hold by
    construction: the model is container-blind on purpose, so that ANY dependence of the real code
    on the container, dtype, index or column names is a correspondence failure. *)
From Coq Require Import ZArith List.
Import ListNotations.

Inductive container := Array2D | Array1D | SeriesC | FrameC.
Inductive dtype := Int64 | Float64.
Inductive index_kind := Range0 | RangeOffset | RangeStep | DatetimeIx | PeriodIx.
Inductive colnames := DefaultCols | StringCols | HostileCols.   (* hostile: a column called "labels" *)

Record input := { i_cont : container; i_dtype : dtype; i_index : index_kind; i_cols : colnames;
                  i_values : list (list Z) }.

Definition norm (x : input) : list (list Z) := i_values x.
(** an ndarray has no index: pandas gives it RangeIndex(0..n) *)
Definition index_of (x : input) : index_kind :=
  match i_cont x with Array2D | Array1D => Range0 | _ => i_index x end.

Section Entry.
Variable out : Type.
Variable algo : list (list Z) -> out.            (* fitted detector / scorer applied to a matrix *)
Definition run (x : input) : out := algo (norm x).
Definition run_dense (x : input) : index_kind * out := (index_of x, algo (norm x)).
End Entry.

(** a 1-D container is admissible only for p = 1 *)
Definition admissible (x : input) : bool :=
  match i_cont x with
  | Array1D | SeriesC => forallb (fun r => Nat.eqb (length r) 1) (i_values x)
  | _ => true
  end.
