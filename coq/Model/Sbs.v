(** Executable model of skchange/change_detectors/seeded_binseg.py :
    the integer part of make_seeded_intervals, run_seeded_binseg's per-interval
    argmax, and greedy_changepoint_selection.

    The floating-point front end of make_seeded_intervals
    (n_lengths, np.geomspace, np.round, step = max(1, round(step_factor * len)))
    is NOT modelled: its result, the list of (interval_len, step) pairs, is an input
    [lens] (an oracle recomputed by the harness with the same NumPy expressions).
    Its postconditions are hypotheses of the theorems. *)
From Coq Require Import ZArith List Lia Bool Arith.
From SK Require Import Lib.Base.
Import ListNotations.
Open Scope Z_scope.

(** ---------- seeded intervals, integer part ---------- *)
Definition ceil_div (a b : nat) : nat := ((a + b - 1) / b)%nat.

(** intervals of one length: starts i*step, ends min(i*step+len, n), i = 0..n_steps,
    with the code's fix-up of the last start *)
Definition intervals_of_len (n minlen len step : nat) : list (nat * nat) :=
  let n_steps := ceil_div (n - len) step in
  let raw := map (fun i => (i * step, Nat.min (i * step + len) n))%nat (seq 0 (S n_steps)) in
  let lst := last raw (0, 0)%nat in
  if (snd lst - fst lst <? minlen)%nat
  then removelast raw ++ [(n - minlen, snd lst)%nat]
  else raw.

Definition seeded_intervals (n minlen : nat) (lens : list (nat * nat)) : list (nat * nat) :=
  flat_map (fun ls => intervals_of_len n minlen (fst ls) (snd ls)) lens.

(** ---------- per-interval maximisation ---------- *)
Section Sbs.
Variable CS : nat -> nat -> nat -> Z.   (* change score of (start, split, end), summed over columns *)
Variable m : nat.                        (* min_segment_length *)

(** splits = arange(start + m, end - m + 1); first argmax. None = NumPy's
    "attempt to get argmax of an empty sequence". *)
Definition amoc (se : nat * nat) : option (nat * Z) :=
  let '(s, e) := se in
  let splits := seq (s + m) (e - m + 1 - (s + m)) in
  match argmax (map (fun k => CS s k e) splits) with
  | None => None
  | Some (i, v) => Some ((s + m + i)%nat, v)
  end.

Fixpoint amocs (ivs : list (nat * nat)) : option (list (nat * Z)) :=
  match ivs with
  | [] => Some []
  | se :: t => match amoc se, amocs t with
               | Some x, Some r => Some (x :: r)
               | _, _ => None
               end
  end.
End Sbs.

(** ---------- greedy_changepoint_selection ---------- *)
Fixpoint insert_nat (x : nat) (l : list nat) : list nat :=
  match l with [] => [x] | y :: t => if (x <=? y)%nat then x :: l else y :: insert_nat x t end.
Definition sort_nat (l : list nat) : list nat := fold_right insert_nat [] l.

Definition contains (se : nat * nat) (c : nat) : bool := (fst se <=? c)%nat && (c <? snd se)%nat.

(** [scores], [maxs], [ivs] run in parallel. Returns the picks in the order they
    are made; None = fuel exhausted (only possible for a negative threshold, where
    the real loop does not terminate). *)
Fixpoint greedy_cpts (fuel : nat) (thr : Z) (ivs : list (nat * nat)) (maxs : list nat)
         (scores : list Z) : option (list nat) :=
  if negb (existsb (fun v => thr <? v) scores) then Some [] else
  match fuel with
  | O => None
  | S f =>
    match argmax scores with
    | None => Some []
    | Some (i, _) =>
      let c := nthN maxs i in
      let scores' := map (fun sv => if contains (fst sv) c then 0 else snd sv) (combine ivs scores) in
      match greedy_cpts f thr ivs maxs scores' with
      | Some r => Some (c :: r)
      | None => None
      end
    end
  end.

(** run_seeded_binseg: (sorted changepoints, scores table rows (start,end,argmax,score)) *)
Definition sbs (CS : nat -> nat -> nat -> Z) (m : nat) (thr : Z) (ivs : list (nat * nat))
  : option (list nat * list (nat * Z)) :=
  match amocs CS m ivs with
  | None => None
  | Some am =>
    match greedy_cpts (length ivs) thr ivs (map fst am) (map snd am) with
    | None => None
    | Some picks => Some (sort_nat picks, am)
    end
  end.
