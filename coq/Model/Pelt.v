(** Executable model of skchange/change_detectors/pelt.py : run_pelt + get_changepoints.

    The cost enters only as the aggregated (summed over columns) value [C s e] of the
    interval [s, e) -- exactly what the code obtains from
    [np.sum(cost.evaluate(intervals), axis=1)].  [split_cost] is 0 (the only value
    the PELT class ever passes).  [delay] is the number of iterations a pruning
    decision waits in [pending_prunes] before it is applied:
      - the code after "fix: PELT ..." uses delay = m - 1 (pop once len >= m),
      - the originally pinned code is delay = 0 (immediate pruning). *)
From Coq Require Import ZArith List Lia Bool Arith.
From SK Require Import Lib.Base.
Import ListNotations.
Open Scope Z_scope.

Section Pelt.
Variable C : nat -> nat -> Z.
Variable pen : Z.
Variable m : nat.       (* min_segment_length *)
Variable delay : nat.

Record st := { opt : list Z;            (* opt_cost[0 .. T]            *)
               prev : list nat;         (* prev_cpts[0 .. T-1]         *)
               starts : list nat;       (* cost_eval_starts            *)
               pending : list (list nat) (* pending_prunes, oldest first *) }.

(** state before the loop: opt_cost[0..2m-1], prev_cpts[0..2m-2] = 0, starts = [0] *)
Definition init : st :=
  {| opt := repeat (- pen) m ++ map (fun e => C 0 e) (seq m m);
     prev := repeat 0%nat (2 * m - 1);
     starts := [0%nat];
     pending := [] |}.

(** one loop iteration for observation index [t] (segment end T = t + 1) *)
Definition step (s : st) (t : nat) : st :=
  let T := S t in
  let starts1 := starts s ++ [t - (m - 1)]%nat in
  let cands := map (fun a => nthZ (opt s) a + C a T + pen) starts1 in
  match argmin cands with
  | None => s  (* unreachable: starts1 is never empty *)
  | Some (i, b) =>
    let drop := map fst (filter (fun ac => negb (snd ac <=? b + pen)) (combine starts1 cands)) in
    let pend := pending s ++ [drop] in
    let '(now, pend') := if (delay <? length pend)%nat then (hd [] pend, tl pend) else ([], pend) in
    {| opt := opt s ++ [b];
       prev := prev s ++ [nthN starts1 i];
       starts := removeall now starts1;
       pending := pend' |}
  end.

Definition run (n : nat) : st :=
  fold_left step (seq (2 * m - 1) (n - (2 * m - 1))) init.

(** get_changepoints: follow prev pointers from the last observation; [e] is the
    exclusive end of the segment being resolved (the code's i + 1). Returns the
    changepoints in increasing order WITH the artificial 0 in front. *)
Fixpoint backtrack (fuel : nat) (pv : list nat) (e : nat) (acc : list nat) : list nat :=
  match fuel with
  | O => acc
  | S f => match e with
           | O => acc
           | S i => let c := nthN pv i in backtrack f pv c (c :: acc)
           end
  end.

Definition changepoints (pv : list nat) (n : nat) : list nat := tl (backtrack n pv n []).

(** (scores = opt_cost[1:], changepoints) *)
Definition pelt (n : nat) : list Z * list nat :=
  let s := run n in (tl (opt s), changepoints (prev s) n).
End Pelt.
