(** Real-valued twin of Model/Pelt.v : the same transcription of run_pelt +
    get_changepoints, with the aggregated cost [C : nat -> nat -> R], the penalty
    [pen : R] and lists of reals.  Every definition mirrors the one of Model/Pelt.v
    line by line; the comparisons [<?] / [<=?] of Z become the boolean wrappers
    [Rltb] / [Rleb] of [Rlt_dec] / [Rle_dec] (the model is a specification object:
    it is related to the executable Z model by [peltR_of_Z] in Proofs/PeltReal.v,
    it is not meant to compute).

    [nthN], [memb], [removeall] of Lib/Base.v work on nat and are reused. *)
From Coq Require Import Reals List Lia Bool Arith.
From SK Require Import Lib.Base.
Import ListNotations.
Open Scope R_scope.

(** boolean comparisons over R *)
Definition Rltb (x y : R) : bool := if Rlt_dec x y then true else false.
Definition Rleb (x y : R) : bool := if Rle_dec x y then true else false.

(** real twins of the Lib/Base.v helpers over Z *)
Definition nthR (l : list R) (i : nat) : R := nth i l 0.

(** [argminR_from bi b i l]: scan [l] (whose first element has index [i]) keeping the
    first strict improvement over the current best [(bi, b)] -- same FIRST-minimum
    tie-breaking as [argmin_from]. *)
Fixpoint argminR_from (bi : nat) (b : R) (i : nat) (l : list R) : nat * R :=
  match l with
  | [] => (bi, b)
  | x :: t => if Rltb x b then argminR_from i x (S i) t else argminR_from bi b (S i) t
  end.
Definition argminR (l : list R) : option (nat * R) :=
  match l with [] => None | x :: t => Some (argminR_from 0 x 1 t) end.

Section PeltR.
Variable C : nat -> nat -> R.
Variable pen : R.
Variable m : nat.       (* min_segment_length *)
Variable delay : nat.

Record stR := { optR : list R;             (* opt_cost[0 .. T]            *)
                prevR : list nat;          (* prev_cpts[0 .. T-1]         *)
                startsR : list nat;        (* cost_eval_starts            *)
                pendingR : list (list nat) (* pending_prunes, oldest first *) }.

(** state before the loop: opt_cost[0..2m-1], prev_cpts[0..2m-2] = 0, starts = [0] *)
Definition initR : stR :=
  {| optR := repeat (- pen) m ++ map (fun e => C 0 e) (seq m m);
     prevR := repeat 0%nat (2 * m - 1);
     startsR := [0%nat];
     pendingR := [] |}.

(** one loop iteration for observation index [t] (segment end T = t + 1) *)
Definition stepR (s : stR) (t : nat) : stR :=
  let T := S t in
  let starts1 := startsR s ++ [t - (m - 1)]%nat in
  let cands := map (fun a => nthR (optR s) a + C a T + pen) starts1 in
  match argminR cands with
  | None => s  (* unreachable: starts1 is never empty *)
  | Some (i, b) =>
    let drop := map fst (filter (fun ac => negb (Rleb (snd ac) (b + pen))) (combine starts1 cands)) in
    let pend := pendingR s ++ [drop] in
    let '(now, pend') := if (delay <? length pend)%nat then (hd [] pend, tl pend) else ([], pend) in
    {| optR := optR s ++ [b];
       prevR := prevR s ++ [nthN starts1 i];
       startsR := removeall now starts1;
       pendingR := pend' |}
  end.

Definition runR (n : nat) : stR :=
  fold_left stepR (seq (2 * m - 1) (n - (2 * m - 1))) initR.

(** get_changepoints: follow prev pointers from the last observation; [e] is the
    exclusive end of the segment being resolved (the code's i + 1). Returns the
    changepoints in increasing order WITH the artificial 0 in front. *)
Fixpoint backtrackR (fuel : nat) (pv : list nat) (e : nat) (acc : list nat) : list nat :=
  match fuel with
  | O => acc
  | S f => match e with
           | O => acc
           | S i => let c := nthN pv i in backtrackR f pv c (c :: acc)
           end
  end.

Definition changepointsR (pv : list nat) (n : nat) : list nat := tl (backtrackR n pv n []).

(** (scores = opt_cost[1:], changepoints) *)
Definition peltR (n : nat) : list R * list nat :=
  let s := runR n in (tl (optR s), changepointsR (prevR s) n).
End PeltR.
