(** Executable model of BaseIntervalScorer.evaluate's input validation:
    as_2d_array(cuts, vector_as_column=False), check_cuts_array, the extra checks of
    LocalAnomalyScore._check_cuts, and the bounds check 0 <= cut <= n.
    None = ValueError. *)
From Coq Require Import ZArith List Lia Bool Arith.
From SK Require Import Lib.Base.
Import ListNotations.
Open Scope Z_scope.

(** what the caller passes, after np.asarray *)
Inductive cuts_arg :=
| IntRows (width : nat) (rows : list (list Z))  (* integer dtype, 1-D (a single row) or 2-D; every row has [width] entries *)
| NonInt                                        (* float / bool / object dtype, including the empty list *)
| Dim3.                                         (* more than two dimensions *)

(** which validation applies *)
Inductive scorer_kind :=
| Plain (k : nat) (min_size : Z)   (* costs and savings (k = 2), change scores (k = 3) *)
| Local (min_size : Z).            (* local anomaly scores (k = 4) with their own spacing rule *)

Definition width_of (sk : scorer_kind) : nat := match sk with Plain k _ => k | Local _ => 4%nat end.

Fixpoint diffs (r : list Z) : list Z :=
  match r with
  | a :: ((b :: _) as t) => (b - a) :: diffs t
  | _ => []
  end.

Definition in_bounds (n : Z) (r : list Z) : bool := forallb (fun x => (0 <=? x) && (x <=? n)) r.

Definition row_ok (sk : scorer_kind) (n : Z) (r : list Z) : bool :=
  match sk with
  | Plain _ ms => forallb (fun d => ms <=? d) (diffs r) && in_bounds n r
  | Local ms =>
      forallb (fun d => 1 <=? d) (diffs r)
      && (ms <=? nthZ r 2 - nthZ r 1)
      && (ms <=? (nthZ r 1 - nthZ r 0) + (nthZ r 3 - nthZ r 2))
      && in_bounds n r
  end.

Definition evaluate {A} (score : list Z -> A) (sk : scorer_kind) (n : Z) (arg : cuts_arg)
  : option (list A) :=
  match arg with
  | IntRows w rows =>
      if (w =? width_of sk)%nat && forallb (row_ok sk n) rows then Some (map score rows) else None
  | NonInt => None
  | Dim3 => None
  end.

(** ---- the exhaustive box used by the correspondence check ---- *)
Fixpoint box (lo : Z) (cnt : nat) (k : nat) : list (list Z) :=
  match k with
  | O => [[]]
  | S k' => flat_map (fun x => map (cons x) (box lo cnt k')) (map (fun i => lo + Z.of_nat i) (seq 0 cnt))
  end.
Definition eqb_row (a b : list Z) : bool := eqb_listZ a b.
Definition mem_row (r : list Z) (l : list (list Z)) : bool := existsb (eqb_row r) l.
