(** Object-state model of the cost-based adapters held by the USER and sharing their inner cost
    object (extension of Model/Objects.v for property C10):
      ChangeScore(cost), Saving(baseline_cost), LocalAnomalyScore(cost)
    (skchange/change_scores/from_cost.py, skchange/anomaly_scores/from_cost.py,
    skchange/base/base_interval_scorer.py).

    - a COST object has a hyper-parameter and the data of the last fit applied to it by anyone;
    - an adapter keeps a REFERENCE to the user's cost object ([a_cost]), remembers the data of its
      own last fit ([a_fit]: used for the bounds check of evaluate and, for LocalAnomalyScore, to
      slice the surroundings) and may own a PRIVATE clone of the cost:
        Saving             : the optimised cost (hyper-parameter None = 0), cloned in __init__, fitted
                             together with the baseline cost;
        LocalAnomalyScore  : the cost used on the pooled surroundings; re-cloned from the user's cost
                             at every fit (so it carries the user's CURRENT hyper-parameter) and refitted
                             on data sliced from the adapter's own last-fit data at every evaluate.
    - [FitA a D] sets the adapter's data, refits the shared cost on D (in place!) and refreshes /
      refits the private clone; [FitC c D] fits a cost directly (the user, another adapter or a detector's
      predict does this); [SetC c p] is set_params on the cost object (resets it);
      [EvalA a] returns the dependency tuple of the values: which hyper-parameters and which data the
      numbers are computed from.  An adapter whose own fitted flag is unset refuses ([ANotFitted]); a cost
      that was reset behind the adapter's back makes the nested evaluate refuse too. *)
From Coq Require Import List Arith Bool.
Import ListNotations.

Inductive akind := KChange | KSaving | KLocal.

Record cost := { c_param : nat; c_fit : option nat }.
Record adapter := {
  a_kind : akind;
  a_cost : nat;               (* reference into the cost heap: the user's object *)
  a_clone_param : nat;        (* hyper-parameter of the private clone (Saving: 0 = None; Local: copied at fit) *)
  a_clone_fit : option nat;   (* Saving: data the optimised clone is fitted on *)
  a_fit : option nat          (* data of the adapter's own last fit *)
}.
Record aheap := { costs : list cost; adapters : list adapter }.
Definition aempty : aheap := {| costs := []; adapters := [] |}.

Inductive aop :=
| NewC (param : nat)
| NewA (k : akind) (c : nat)
| SetC (c : nat) (param : nat)
| FitC (c : nat) (D : nat)
| FitA (a : nat) (D : nat)
| EvalA (a : nat).

Inductive aout :=
| ANone
| ANew (id : nat)
| ABadRef
| ANotFitted
(** values computed from: the user's cost (param, data), the private clone (param, data), and the adapter's own data
    (bounds; source of the surroundings for KLocal) *)
| AVal (k : akind) (cost_param : nat) (cost_data : nat) (clone_param : nat) (clone_data : option nat) (own_data : nat).

Definition aupd {A} (l : list A) (i : nat) (v : A) : list A :=
  map (fun ix => if fst ix =? i then v else snd ix) (combine (seq 0 (length l)) l).

Definition astep (h : aheap) (o : aop) : aheap * aout :=
  match o with
  | NewC p => ({| costs := costs h ++ [{| c_param := p; c_fit := None |}]; adapters := adapters h |}, ANew (length (costs h)))
  | NewA k c =>
      match nth_error (costs h) c with
      | Some co =>
          ({| costs := costs h;
              adapters := adapters h ++ [{| a_kind := k; a_cost := c;
                                            a_clone_param := match k with KSaving => 0 | _ => c_param co end;
                                            a_clone_fit := None; a_fit := None |}] |},
           ANew (length (adapters h)))
      | None => (h, ABadRef)
      end
  | SetC c p =>
      if c <? length (costs h)
      then ({| costs := aupd (costs h) c {| c_param := p; c_fit := None |}; adapters := adapters h |}, ANone)
      else (h, ABadRef)
  | FitC c D =>
      match nth_error (costs h) c with
      | Some co => ({| costs := aupd (costs h) c {| c_param := c_param co; c_fit := Some D |}; adapters := adapters h |}, ANone)
      | None => (h, ABadRef)
      end
  | FitA a D =>
      match nth_error (adapters h) a with
      | Some ad =>
          match nth_error (costs h) (a_cost ad) with
          | Some co =>
              let ad' := {| a_kind := a_kind ad; a_cost := a_cost ad;
                            a_clone_param := match a_kind ad with KLocal => c_param co | _ => a_clone_param ad end;
                            a_clone_fit := match a_kind ad with KSaving => Some D | _ => a_clone_fit ad end;
                            a_fit := Some D |} in
              ({| costs := aupd (costs h) (a_cost ad) {| c_param := c_param co; c_fit := Some D |};
                  adapters := aupd (adapters h) a ad' |}, ANone)
          | None => (h, ABadRef)
          end
      | None => (h, ABadRef)
      end
  | EvalA a =>
      match nth_error (adapters h) a with
      | Some ad =>
          match a_fit ad, nth_error (costs h) (a_cost ad) with
          | Some own, Some co =>
              match c_fit co with
              | Some cd => (h, AVal (a_kind ad) (c_param co) cd (a_clone_param ad) (a_clone_fit ad) own)
              | None => (h, ANotFitted)
              end
          | None, Some _ => (h, ANotFitted)
          | _, None => (h, ABadRef)
          end
      | None => (h, ABadRef)
      end
  end.

Fixpoint arun (h : aheap) (ops : list aop) : aheap * list aout :=
  match ops with
  | [] => (h, [])
  | o :: t => let '(h1, r) := astep h o in let '(h2, rs) := arun h1 t in (h2, r :: rs)
  end.

(** what a fresh adapter of kind k around a fresh cost with hyper-parameter p, fitted once on D, evaluates to *)
Definition fresh_val (k : akind) (p D : nat) : aout :=
  AVal k p D (match k with KSaving => 0 | _ => p end) (match k with KSaving => Some D | _ => None end) D.
