(** Hand model of the tuned threshold: NumPy's np.quantile(scores, q) with the
    default "linear" interpolation, over exact rationals.

        x = sort(scores)  (ascending, N entries)
        h = (N - 1) * q ; lo = floor h ; frac = h - lo
        result = x[lo] + frac * (x[min(lo + 1, N - 1)] - x[lo])

    The detectors call it with q = 1 - level on the training scores.
    This file must stay free of any Reals import (theorems are axiom-free). *)
From Coq Require Import QArith Qround Lia List ZArith.
Import ListNotations.
Open Scope Q_scope.

(** insertion sort by the boolean order test *)
Fixpoint insertQ (x : Q) (l : list Q) : list Q :=
  match l with
  | [] => [x]
  | y :: t => if Qle_bool x y then x :: y :: t else y :: insertQ x t
  end.

Fixpoint sortQ (l : list Q) : list Q :=
  match l with [] => [] | x :: t => insertQ x (sortQ t) end.

(** virtual index h = (N-1) * q and its integer part *)
Definition quantile_h (N : nat) (q : Q) : Q := inject_Z (Z.of_nat (N - 1)) * q.
Definition quantile_lo (N : nat) (q : Q) : nat := Z.to_nat (Qfloor (quantile_h N q)).
Definition quantile_hi (N : nat) (q : Q) : nat := Nat.min (quantile_lo N q + 1) (N - 1).
Definition quantile_frac (N : nat) (q : Q) : Q := quantile_h N q - inject_Z (Qfloor (quantile_h N q)).

Definition quantile_linear (scores : list Q) (q : Q) : Q :=
  let xs := sortQ scores in
  let N := length scores in
  let xlo := nth (quantile_lo N q) xs 0 in
  let xhi := nth (quantile_hi N q) xs 0 in
  xlo + quantile_frac N q * (xhi - xlo).

(** number of scores strictly above a threshold *)
Definition count_above (thr : Q) (scores : list Q) : nat :=
  length (filter (fun x => negb (Qle_bool x thr)) scores).
