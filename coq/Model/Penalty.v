(** Hand model of skchange's *combined* MVCAPA penalty
    (skchange/anomaly_detectors/mvcapa.py, combined_mvcapa_penalty).

    The library forms three cumulative penalty sequences indexed by the number
    j = 1..p of affected components,
        dense_penalties[j-1]        = dense_alpha + cumsum(dense_betas)[j-1]
        sparse_penalties[j-1]       = sparse_alpha + cumsum(sparse_betas)[j-1]
        intermediate_penalties[j-1] = intermediate_alpha + cumsum(intermediate_betas)[j-1]
    takes their pointwise minimum, prepends a 0 and returns
        (alpha = 0, betas = np.diff(pointwise_min_penalties)).
    The intermediate sequence calls SciPy's chi-square quantile / density and is
    therefore an oracle here: the three sequences are arbitrary functions nat -> R. *)
From Coq Require Import Reals.
From SK Require Import Gen.KernelsR.
Open Scope R_scope.

(** pointwise_min_penalties[j], j = 0..p  (entry 0 is the prepended zero) *)
Definition cum_min (d sp im : nat -> R) (j : nat) : R :=
  match j with O => 0 | _ => Rmin (d j) (Rmin (sp j) (im j)) end.

(** betas[j], j = 0..p-1  (np.diff of the above) *)
Definition combined_beta (d sp im : nat -> R) (j : nat) : R :=
  cum_min d sp im (S j) - cum_min d sp im j.

(** cumulative penalty paid for k affected components: beta 0 + ... + beta (k-1) *)
Fixpoint cum_of (beta : nat -> R) (k : nat) : R :=
  match k with O => 0 | S k' => cum_of beta k' + beta k' end.

(** The dense and sparse cumulative sequences, instantiated from the generated
    (alpha, beta) kernels: alpha + j * beta (all betas of one penalty are equal). *)
Definition dense_cum (n p npv : nat) (scale : R) (j : nat) : R :=
  dense_mvcapa_penalty_alpha_R n p npv scale + INR j * dense_mvcapa_penalty_beta_R n p npv scale.

Definition sparse_cum (n p npv : nat) (scale : R) (j : nat) : R :=
  sparse_mvcapa_penalty_alpha_R n p npv scale + INR j * sparse_mvcapa_penalty_beta_R n p npv scale.
