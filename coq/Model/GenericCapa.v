(** CAPA / MVCAPA over an ARBITRARY number type: Model/Capa.v repeated line by line over the record
    [num] of Model/Generic.v (zero, addition, negation, the two comparisons).

    Conventions (every operation on a score value is taken from [N]):
      - subtraction        x - y        is   [add x (neg y)]                              ([gsub]);
      - maximum            max a b      is   [if ltb a b then b else a]                   ([gmax]):
                           on a tie (and whenever [ltb a b] is false, e.g. a NaN operand) the FIRST
                           argument is returned, which is what [Z.max a b] does ([Z.max] returns [a]
                           unless [a ?= b] is [Lt]); [Rmax a b] returns [b] on a tie, the same real;
      - equality test      a = b        is   [negb (ltb a b) && negb (ltb b a)]           ([geqb]);
      - sums                            ([gsum]) are LEFT folds of [add] starting from the FIRST element,
                                        ((x0 + x1) + x2) + ..., which is the order in which NumPy's
                                        savings.sum(axis=1) / betas.sum() add fewer than 8 entries (one
                                        element: the element itself; the empty sum is [zero]); over Z and R
                                        this is [sumZ] / [sumR] by associativity and commutativity, on
                                        binary64 it is the sum NumPy computes; running sums start from
                                        [zero] as [cumsum];
      - the decreasing insertion sort, the decreasing argsort and the first-maximum argmax
        ([gargmax] of Model/Generic.v) are those of Model/Capa.v / Lib/Base.v.

    One thing of Model/Capa.v is NOT expressible with the operations of [num]: the test
    "np.all(betas < 1e-8)" of penalise_savings, which the Z model realises as "beta <= 0" ([all_tiny]).
    It is an extra ARGUMENT of the generic definitions: [tiny : T N -> bool] (first argument after [N]).
    Two ways to build it from a constant are provided: [gtiny_le N c] ("beta <= c"; with c = 0 it is,
    by computation, the test of the Z and of the R model) and [gtiny_lt N c] ("beta < c"; the test of the
    code with c = 1e-8 at binary64; at Z with c = 1 it is extensionally the test of the Z model).

    The nat-only parts ([get_anoms], [capa_predict], [sort_pairs], [memb], [nthN]) are reused.
    Nothing here depends on laws of the operations. *)
From Coq Require Import List Bool Arith.
From SK Require Import Lib.Base Model.Capa Model.Generic.
Import ListNotations.

Section GenericCapa.
Variable N : num.
Notation V := (T N).
Notation "x <! y" := (ltb N x y) (at level 70).
Notation "x <=! y" := (leb N x y) (at level 70).
Notation "x +! y" := (add N x y) (at level 50, left associativity).

(** derived operations *)
Definition gsub (x y : V) : V := x +! neg N y.
Definition gmax (a b : V) : V := if a <! b then b else a.
Definition geqb (a b : V) : bool := negb (a <! b) && negb (b <! a).
Notation "x -! y" := (gsub x y) (at level 50, left associativity).

(** the two constructions of the "beta is negligible" test from a constant *)
Definition gtiny_le (c : V) : V -> bool := fun b => b <=! c.
Definition gtiny_lt (c : V) : V -> bool := fun b => b <! c.

Definition gsum (l : list V) : V :=
  match l with [] => zero N | x :: t => fold_left (add N) t x end.

(** ---------- penalise_savings (one row) ---------- *)

(** insertion sort, decreasing *)
Fixpoint ginsert_desc (x : V) (l : list V) : list V :=
  match l with
  | [] => [x]
  | y :: t => if y <! x then x :: l else y :: ginsert_desc x t
  end.
Fixpoint gsort_desc (l : list V) : list V :=
  match l with [] => [] | x :: t => ginsert_desc x (gsort_desc t) end.

(** running sums: cumsum [a;b;c] = [a; a+b; a+b+c] *)
Fixpoint gcumsum_from (acc : V) (l : list V) : list V :=
  match l with [] => [] | x :: t => (acc +! x) :: gcumsum_from (acc +! x) t end.
Definition gcumsum (l : list V) : list V := gcumsum_from (zero N) l.

Definition gsub_lists (a b : list V) : list V := map (fun xy => fst xy -! snd xy) (combine a b).

Section Penalise.
Variable tiny : V -> bool.   (* np.all(betas < 1e-8), one beta *)

Definition gall_tiny (betas : list V) : bool := forallb tiny betas.
Definition gall_equal (betas : list V) : bool :=
  match betas with [] => true | b0 :: _ => forallb (fun b => geqb b b0) betas end.

Definition gpenalise (sav : list V) (alpha : V) (betas : list V) : V :=
  if gall_tiny betas then gsum sav -! alpha
  else if gall_equal betas then
    gsum (map (fun s => gmax (s -! hd (zero N) betas) (zero N)) sav) -! alpha
  else
    match gargmax N (map (fun c => c -! alpha) (gcumsum (gsub_lists (gsort_desc sav) betas))) with
    | Some (_, v) => v
    | None => zero N (* p = 0 *)
    end.
End Penalise.

(** ---------- find_affected_components (one anomaly) ---------- *)
Fixpoint ginsert_idx (sav : list V) (j : nat) (l : list nat) : list nat :=
  match l with
  | [] => [j]
  | k :: t => if nthV N sav k <! nthV N sav j then j :: l else k :: ginsert_idx sav j t
  end.
Definition gargsort_desc (sav : list V) : list nat :=
  fold_right (ginsert_idx sav) [] (seq 0 (length sav)).

Definition gaffected (sav : list V) (alpha : V) (betas : list V) : list nat :=
  let order := gargsort_desc sav in
  let pensav := map (fun c => c -! alpha)
                    (gcumsum (gsub_lists (map (nthV N sav) order) betas)) in
  match gargmax N pensav with
  | Some (k, _) => firstn (S k) order
  | None => []
  end.

(** ---------- run_base_capa ---------- *)
Section GCapa.
Variable tiny : V -> bool.
Variable Sc : nat -> nat -> list V.
Variable Sp : nat -> list V.
Variables (ac : V) (bc : list V) (ap : V) (bp : list V).
Variables (m M : nat).   (* min / max segment length *)
Variable delay : nat.

Definition gPc (s e : nat) : V := gpenalise tiny (Sc s e) ac bc.
Definition gPp (t : nat) : V := gpenalise tiny (Sp t) ap bp.

Record gcst := { gcopt : list V;                 (* opt_savings[0 .. t]       *)
                 gcastart : list (option nat);   (* opt_anomaly_starts[0..t-1], None = NaN *)
                 gcstarts : list nat;
                 gcpending : list (list nat) }.

Definition gcinit : gcst := {| gcopt := [zero N]; gcastart := []; gcstarts := []; gcpending := [] |}.

(** one loop iteration for time index t (prefix end T' = t + 1) *)
Definition gcstep (s : gcst) (t : nat) : gcst :=
  let T' := S t in
  let ot := nthV N (gcopt s) t in
  let starts1 := if (m <=? T')%nat then gcstarts s ++ [T' - m]%nat else gcstarts s in
  let cands := map (fun a => nthV N (gcopt s) a +! gPc a T') starts1 in
  let optp := ot +! gPp t in
  (* np.argmax over [opt[t], opt_collective, opt_point]; first maximum wins *)
  let '(choice, best) :=
    match gargmax N cands with
    | None => if ot <! optp then (Some t, optp) else (None, ot)
    | Some (i, oc) =>
        if ot <! oc then (if oc <! optp then (Some t, optp) else (Some (nthN starts1 i), oc))
        else (if ot <! optp then (Some t, optp) else (None, ot))
    end in
  let low := map fst (filter (fun ac0 => snd ac0 +! (ac +! gsum bc) <! best) (combine starts1 cands)) in
  let pend := gcpending s ++ [low] in
  let '(now, pend') := if (delay <? length pend)%nat then (hd [] pend, tl pend) else ([], pend) in
  let keep := filter (fun a => negb (memb a now) && negb (a + M <? T' + 1)%nat) starts1 in
  {| gcopt := gcopt s ++ [best];
     gcastart := gcastart s ++ [choice];
     gcstarts := keep;
     gcpending := pend' |}.

Definition gcrun (n : nat) : gcst := fold_left gcstep (seq 0 n) gcinit.

(** (scores = opt_savings[1:], collective anomalies, point anomalies); [get_anoms] of Model/Capa.v
    only reads the back-pointers *)
Definition gcapa (n : nat) : list V * list (nat * nat) * list (nat * nat) :=
  let s := gcrun n in
  let '(c, p) := get_anoms n (gcastart s) n in (tl (gcopt s), c, p).
End GCapa.

End GenericCapa.
