(** Shared list utilities: first-index argmin / argmax as NumPy defines them
    (np.argmin / np.argmax return the FIRST extremal position), lookups, sums. *)
From Coq Require Import ZArith List Lia Bool Arith.
Import ListNotations.
Open Scope Z_scope.

Definition nthZ (l : list Z) (i : nat) : Z := nth i l 0.
Definition nthN (l : list nat) (i : nat) : nat := nth i l 0%nat.

Fixpoint sumZ (l : list Z) : Z := match l with [] => 0 | x :: t => x + sumZ t end.

(** [argmin_from bi b i l]: scan [l] (whose first element has index [i]) keeping the
    first strict improvement over the current best [(bi, b)]. *)
Fixpoint argmin_from (bi : nat) (b : Z) (i : nat) (l : list Z) : nat * Z :=
  match l with
  | [] => (bi, b)
  | x :: t => if x <? b then argmin_from i x (S i) t else argmin_from bi b (S i) t
  end.
Definition argmin (l : list Z) : option (nat * Z) :=
  match l with [] => None | x :: t => Some (argmin_from 0 x 1 t) end.

Fixpoint argmax_from (bi : nat) (b : Z) (i : nat) (l : list Z) : nat * Z :=
  match l with
  | [] => (bi, b)
  | x :: t => if b <? x then argmax_from i x (S i) t else argmax_from bi b (S i) t
  end.
Definition argmax (l : list Z) : option (nat * Z) :=
  match l with [] => None | x :: t => Some (argmax_from 0 x 1 t) end.

Definition maxl (d : Z) (l : list Z) : Z := fold_left Z.max l d.
Definition minl (d : Z) (l : list Z) : Z := fold_left Z.min l d.

Definition memb (a : nat) (l : list nat) : bool := existsb (Nat.eqb a) l.
Definition removeall (now R : list nat) : list nat := filter (fun a => negb (memb a now)) R.

Definition eqb_listZ (a b : list Z) : bool :=
  (length a =? length b)%nat && forallb (fun xy => fst xy =? snd xy) (combine a b).
Definition eqb_listN (a b : list nat) : bool :=
  (length a =? length b)%nat && forallb (fun xy => (fst xy =? snd xy)%nat) (combine a b).

(** indices of the elements of [l] satisfying [f] *)
Definition bad_indices {A} (f : A -> bool) (l : list A) : list nat :=
  map fst (filter (fun ic => negb (f (snd ic))) (combine (seq 0 (length l)) l)).

(** table lookups used by the correspondence cases *)
Definition tab2 (t : list (list Z)) (s e : nat) : Z := nth e (nth s t []) 0.
