(* GENERATED on every check run by /verif/translator/py2coq.py from the kernel sources
   under /repo -- do not edit; see DESIGN.md section 2.2. *)
From Coq Require Import QArith Qabs Qminmax.
Open Scope Q_scope.

Definition l2_cost_optim_Q (S1 : nat -> Q) (S2 : nat -> Q) (s : nat) (e : nat) : Q := (((S2 e) - (S2 s)) - ((((S1 e) - (S1 s)) ^ 2) / (inject_Z (Z.of_nat ((e - s))%nat)))).
Definition l2_cost_fixed_Q (S1 : nat -> Q) (S2 : nat -> Q) (mu : Q) (s : nat) (e : nat) : Q := ((((S2 e) - (S2 s)) - (((2 # 1) * mu) * ((S1 e) - (S1 s)))) + ((inject_Z (Z.of_nat ((e - s))%nat)) * (mu ^ 2))).
Definition var_from_sums_Q (S1 : nat -> Q) (S2 : nat -> Q) (s : nat) (e : nat) : Q := (Qmax ((((S2 e) - (S2 s)) / (inject_Z (Z.of_nat ((e - s))%nat))) - ((((S1 e) - (S1 s)) / (inject_Z (Z.of_nat ((e - s))%nat))) ^ 2)) (1 # 10000000000000000)).
(* no Q twin for gaussian_var_cost_optim: transcendental in Q *)
(* no Q twin for gaussian_var_cost_fixed: transcendental in Q *)
(* no Q twin for cusum_score: transcendental in Q *)
Definition l2_saving_Q (S1 : nat -> Q) (s : nat) (e : nat) : Q := ((((S1 e) - (S1 s)) ^ 2) / (inject_Z (Z.of_nat ((e - s))%nat))).
(* no Q twin for gaussian_ll_at_mle_for_segment: transcendental in Q *)
(* no Q twin for gaussian_ll_at_fixed_for_segment: transcendental in Q *)
(* no Q twin for capa_penalty: transcendental in Q *)
(* no Q twin for dense_mvcapa_penalty: transcendental in Q *)
(* no Q twin for sparse_mvcapa_penalty: transcendental in Q *)
(* no Q twin for intermediate_penalty_curve: transcendental in Q *)
(* no Q twin for pelt_default_penalty: transcendental in Q *)
(* no Q twin for sbs_default_threshold: transcendental in Q *)
(* no Q twin for mw_default_threshold: transcendental in Q *)
(* no Q twin for cbs_default_threshold: transcendental in Q *)
