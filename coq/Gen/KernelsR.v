(* GENERATED on every check run by /verif/translator/py2coq.py from the kernel sources
   under /repo -- do not edit; see DESIGN.md section 2.2. *)
From Coq Require Import Reals.
Open Scope R_scope.

Definition l2_cost_optim_R (S1 : nat -> R) (S2 : nat -> R) (s : nat) (e : nat) : R := (((S2 e) - (S2 s)) - ((((S1 e) - (S1 s)) ^ 2) / (INR ((e - s))%nat))).
Definition l2_cost_fixed_R (S1 : nat -> R) (S2 : nat -> R) (mu : R) (s : nat) (e : nat) : R := ((((S2 e) - (S2 s)) - ((2 * mu) * ((S1 e) - (S1 s)))) + ((INR ((e - s))%nat) * (mu ^ 2))).
Definition var_from_sums_R (S1 : nat -> R) (S2 : nat -> R) (s : nat) (e : nat) : R := (Rmax ((((S2 e) - (S2 s)) / (INR ((e - s))%nat)) - ((((S1 e) - (S1 s)) / (INR ((e - s))%nat)) ^ 2)) (1 / 10000000000000000)).
Definition gaussian_var_cost_optim_R (S1 : nat -> R) (S2 : nat -> R) (s : nat) (e : nat) : R := (- (((- (INR ((e - s))%nat)) * (ln ((2 * PI) * (Rmax ((((S2 e) - (S2 s)) / (INR ((e - s))%nat)) - ((((S1 e) - (S1 s)) / (INR ((e - s))%nat)) ^ 2)) (1 / 10000000000000000))))) - (INR ((e - s))%nat))).
Definition gaussian_var_cost_fixed_R (S1 : nat -> R) (S2 : nat -> R) (mu : R) (v : R) (s : nat) (e : nat) : R := (- (((- (INR ((e - s))%nat)) * (ln ((2 * PI) * v))) - (((((S2 e) - (S2 s)) - ((2 * mu) * ((S1 e) - (S1 s)))) + ((INR ((e - s))%nat) * (mu ^ 2))) / v))).
Definition cusum_score_R (S1 : nat -> R) (s : nat) (k : nat) (e : nat) : R := (Rabs (((sqrt ((INR ((e - k))%nat) / (INR (((e - s) * (k - s)))%nat))) * ((S1 k) - (S1 s))) - ((sqrt ((INR ((k - s))%nat) / (INR (((e - s) * (e - k)))%nat))) * ((S1 e) - (S1 k))))).
Definition l2_saving_R (S1 : nat -> R) (s : nat) (e : nat) : R := ((((S1 e) - (S1 s)) ^ 2) / (INR ((e - s))%nat)).
Definition gaussian_ll_at_mle_for_segment_R (p : nat) (logdet : R) (s : nat) (e : nat) : R := (((((- (INR ((e - s))%nat)) * (INR (p)%nat)) * (ln (2 * PI))) - ((INR ((e - s))%nat) * logdet)) - (INR ((p * (e - s)))%nat)).
Definition gaussian_ll_at_fixed_for_segment_R (p : nat) (logdet : R) (quadsum : R) (s : nat) (e : nat) : R := (((((- (INR ((e - s))%nat)) * (INR (p)%nat)) * (ln (2 * PI))) - ((INR ((e - s))%nat) * logdet)) - quadsum).
Definition capa_penalty_R (n : nat) (n_params : nat) (scale : R) : R := (scale * (((INR (n_params)%nat) + (2 * (sqrt ((INR (n_params)%nat) * (ln (INR (n)%nat)))))) + (2 * (ln (INR (n)%nat))))).
Definition dense_mvcapa_penalty_alpha_R (n : nat) (p : nat) (npv : nat) (scale : R) : R := (scale * (((INR ((p * npv))%nat) + (2 * (sqrt ((INR ((p * npv))%nat) * (ln (INR (n)%nat)))))) + (2 * (ln (INR (n)%nat))))).
Definition dense_mvcapa_penalty_beta_R (n : nat) (p : nat) (npv : nat) (scale : R) : R := 0.
Definition sparse_mvcapa_penalty_alpha_R (n : nat) (p : nat) (npv : nat) (scale : R) : R := ((2 * scale) * (ln (INR (n)%nat))).
Definition sparse_mvcapa_penalty_beta_R (n : nat) (p : nat) (npv : nat) (scale : R) : R := ((2 * scale) * (ln (INR ((npv * p))%nat))).
Definition intermediate_penalty_curve_R (n : nat) (p : nat) (npv : nat) (scale : R) (j : nat) (c_j : R) (f_j : R) : R := (scale * ((((2 * ((ln (INR (n)%nat)) + (ln (INR (p)%nat)))) + (INR ((j * npv))%nat)) + (((INR ((2 * p))%nat) * c_j) * f_j)) + (2 * (sqrt (((INR ((j * npv))%nat) + (((INR ((2 * p))%nat) * c_j) * f_j)) * ((ln (INR (n)%nat)) + (ln (INR (p)%nat)))))))).
Definition pelt_default_penalty_R (n : nat) (p : nat) : R := ((INR ((2 * p))%nat) * (ln (INR (n)%nat))).
Definition sbs_default_threshold_R (n : nat) (p : nat) : R := ((INR ((2 * p))%nat) * (sqrt (ln (INR (n)%nat)))).
Definition mw_default_threshold_R (n : nat) (p : nat) (b : nat) (level : R) : R := (((INR (p)%nat) * (((((2 * (ln ((INR (n)%nat) / (INR (b)%nat)))) + ((1 / 2) * (ln (ln ((INR (n)%nat) / (INR (b)%nat)))))) + (ln (3 / 2))) - ((1 / 2) * (ln PI))) + (- (ln (ln (1 / (sqrt (1 - level)))))))) / (sqrt (2 * (ln ((INR (n)%nat) / (INR (b)%nat)))))).
Definition cbs_default_threshold_R (n : nat) (p : nat) (maxlen : nat) : R := ((INR ((2 * p))%nat) * (ln (INR ((n * maxlen))%nat))).
