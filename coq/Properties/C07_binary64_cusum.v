(** C07 END TO END in binary64, CUSUM score on one column: `gsbs_any F64 (cusum_F xs) m thr ivs` is the run the harness compares bit for bit with the real SeededBinarySegmentation FROM THE DATA
    (`cusum_F` = the kernel twin, compared bit for bit with `CUSUM.evaluate` by C06).  Under the boolean premise `sbs_cusum_trace_ok` (evaluated on every case of that stream) and a finite
    threshold of ANY sign: the reported per-interval maximum is the float maximum over the admissible splits, within the proved error of the maximum of the TRUE statistic; every reported
    true statistic exceeds the threshold up to that error (soundness); every admissible position whose true statistic exceeds the threshold by more than the error lies in a maximal
    run above the threshold, and a run of at least min_detection_interval positions yields a changepoint at its first maximum (completeness). *)
From Coq Require Import Reals Lra Lia List Arith ZArith Bool Floats Psatz Sorted.
From Flocq Require Import Core BinarySingleNaN.
From Flocq Require IEEE754.PrimFloat.
From SK Require Import Gen.KernelsR Proofs.RealLib Proofs.CostKernels Proofs.ScoreKernels Proofs.FloatError
  Check.FloatKernelCheck Check.FloatKernelCheck2 Proofs.FloatRefine Proofs.FloatKernels2 Proofs.PeltFloat Proofs.PeltFloatL2.
(* the list vocabulary of the detectors ([slice] on any list) is imported last: it shadows the real-number one *)
From SK Require Import Lib.Base Model.Mw Model.Sbs Model.Capa Model.Cbs Model.PeltR Model.Generic Model.GenericF Model.GenericAny.
From SK Require Import Proofs.ArgmaxLemmas Proofs.MwProofs Proofs.GenericRank Proofs.GenericOrder Proofs.GenericSpec Proofs.GenericInstances
  Proofs.AnyThreshold Proofs.AnyThresholdF.
Import ListNotations.

From SK Require Import Proofs.MwSbsFloatCusum.


Theorem C07_binary64_cusum_interval_maximum : forall (xs : list PrimFloat.float) (m : nat) (thr : PrimFloat.float) (ivs : list (nat * nat)) (cpts : list nat) (am : list (nat * PrimFloat.float)), sbs_cusum_trace_ok xs m ivs = true -> gsbs_any F64 (cusum_F xs) m thr ivs = Some (cpts, am) -> length am = length ivs /\ (forall i s e : nat, (i < length ivs)%nat -> nth i ivs (0%nat, 0%nat) = (s, e) -> exists k : nat, nth i am (0%nat, 0%float) = (k, cusum_F xs s k e) /\ (s + m <= k)%nat /\ (k + m <= e)%nat /\ finF (cusum_F xs s k e) = true /\ (forall k' : nat, (s + m <= k')%nat -> (k' + m <= e)%nat -> (cusum_F xs s k e <? cusum_F xs s k' e)%float = false) /\ (forall k' : nat, (s + m <= k')%nat -> (k' < k)%nat -> (cusum_F xs s k' e <? cusum_F xs s k e)%float = true) /\ (Rabs (FR (cusum_F xs s k e) - cusum_score_R (prefix (map FR xs)) s k e) <= cusum_E xs s k e)%R /\ (forall k' : nat, (s + m <= k')%nat -> (k' + m <= e)%nat -> (cusum_score_R (prefix (map FR xs)) s k' e - cusum_E xs s k' e <= FR (cusum_F xs s k e))%R) /\ (forall k' : nat, (s + m <= k')%nat -> (k' + m <= e)%nat -> (cusum_score_R (prefix (map FR xs)) s k' e <= cusum_score_R (prefix (map FR xs)) s k e + cusum_E xs s k e + cusum_E xs s k' e)%R)).
Proof. exact @sbs_F64_cusum_interval_max. Qed.

Theorem C07_binary64_cusum_sound : forall (xs : list PrimFloat.float) (m : nat) (thr : PrimFloat.float) (ivs : list (nat * nat)) (cpts : list nat) (am : list (nat * PrimFloat.float)), sbs_cusum_trace_ok xs m ivs = true -> finF thr = true -> gsbs_any F64 (cusum_F xs) m thr ivs = Some (cpts, am) -> forall c : nat, In c cpts -> exists i s e : nat, (i < length ivs)%nat /\ nth i ivs (0%nat, 0%nat) = (s, e) /\ nth i am (0%nat, 0%float) = (c, cusum_F xs s c e) /\ (s + m <= c)%nat /\ (c + m <= e)%nat /\ (thr <? cusum_F xs s c e)%float = true /\ (forall k' : nat, (s + m <= k')%nat -> (k' + m <= e)%nat -> (cusum_F xs s c e <? cusum_F xs s k' e)%float = false) /\ (forall k' : nat, (s + m <= k')%nat -> (k' < c)%nat -> (cusum_F xs s k' e <? cusum_F xs s c e)%float = true) /\ (cusum_score_R (prefix (map FR xs)) s c e > FR thr - cusum_E xs s c e)%R /\ (forall k' : nat, (s + m <= k')%nat -> (k' + m <= e)%nat -> (cusum_score_R (prefix (map FR xs)) s k' e <= cusum_score_R (prefix (map FR xs)) s c e + cusum_E xs s c e + cusum_E xs s k' e)%R).
Proof. exact @sbs_F64_cusum_sound. Qed.

Theorem C07_binary64_cusum_complete : forall (xs : list PrimFloat.float) (m : nat) (thr : PrimFloat.float) (ivs : list (nat * nat)) (cpts : list nat) (am : list (nat * PrimFloat.float)), sbs_cusum_trace_ok xs m ivs = true -> finF thr = true -> gsbs_any F64 (cusum_F xs) m thr ivs = Some (cpts, am) -> forall i s e k : nat, (i < length ivs)%nat -> nth i ivs (0%nat, 0%nat) = (s, e) -> (s + m <= k)%nat -> (k + m <= e)%nat -> (cusum_score_R (prefix (map FR xs)) s k e > FR thr + cusum_E xs s k e)%R -> (thr <? cusum_F xs s k e)%float = true /\ (thr <? snd (nth i am (0%nat, 0)))%float = true /\ (exists c : nat, In c cpts /\ (s <= c < e)%nat).
Proof. exact @sbs_F64_cusum_complete. Qed.

Theorem C07_binary64_cusum_example_sound : exists s e : nat, In (s, e) demo_ivs /\ (s + 2 <= 6)%nat /\ (6 + 2 <= e)%nat /\ (2 <? cusum_F demo_shift s 6 e)%float = true /\ (cusum_score_R (prefix (map FR demo_shift)) s 6 e > FR 2 - cusum_E demo_shift s 6 e)%R.
Proof. exact @demo_sbs_sound. Qed.

Print Assumptions C07_binary64_cusum_interval_maximum.
Print Assumptions C07_binary64_cusum_sound.
Print Assumptions C07_binary64_cusum_complete.
Print Assumptions C07_binary64_cusum_example_sound.
