(** C06 -- scores derived from costs equal their defining cost differences.

    The adapters (ChangeScore / Saving / LocalAnomalyScore) are modelled by hand for ANY cost
    function (change_score, saving, local_score of Proofs/ScoreKernels.v); the directly
    implemented scores (CUSUM, L2 saving) and the built-in costs are the kernels REGENERATED from
    /repo on every run.  All statements are over Coq's real numbers ("up to rounding" = exact).
    The multivariate Gaussian inequalities are NOT proved (matrix analysis): supported by the
    differential run only. *)
From Coq Require Import Reals List Arith.
From SK Require Import Gen.KernelsR Proofs.RealLib Proofs.ScoreKernels.
Import ListNotations.
From SK Require Import Check.KernelCheck Proofs.CheckerSoundness.


Theorem C06_change_score_is_cost_difference : forall (C : nat -> nat -> R) (s k e : nat), change_score C s k e = (C s e - (C s k + C k e))%R.
Proof. exact @change_score_def. Qed.

Theorem C06_saving_is_cost_difference : forall (Cf Co : nat -> nat -> R) (s e : nat), saving Cf Co s e = (Cf s e - Co s e)%R.
Proof. exact @saving_def. Qed.

Theorem C06_local_score_is_cost_difference : forall (C : nat -> nat -> R) (Cpool : R) (s a b e : nat), local_score C Cpool s a b e = (C s e - (C a b + Cpool))%R.
Proof. exact @local_score_def. Qed.

Theorem C06_change_score_nonneg_when_split_holds : forall (C : nat -> nat -> R) (s k e : nat), (C s k + C k e <= C s e)%R -> (0 <= change_score C s k e)%R.
Proof. exact @change_score_nonneg_of_split. Qed.

Theorem C06_saving_nonneg_when_optim_le_fixed : forall (Cf Co : nat -> nat -> R) (s e : nat), (Co s e <= Cf s e)%R -> (0 <= saving Cf Co s e)%R.
Proof. exact @saving_nonneg_of_optim_le_fixed. Qed.

Theorem C06_local_score_nonneg_when_split_holds : forall (C : nat -> nat -> R) (Cpool : R) (s a b e : nat), (C a b + Cpool <= C s e)%R -> (0 <= local_score C Cpool s a b e)%R.
Proof. exact @local_score_nonneg_of_split. Qed.

Theorem C06_squared_cusum_is_l2_change_score : forall (S1 S2 : nat -> R) (s k e : nat), (s < k)%nat -> (k < e)%nat -> (cusum_score_R S1 s k e ^ 2)%R = change_score (l2_cost_optim_R S1 S2) s k e.
Proof. exact @cusum_sq_is_l2_change_score. Qed.

Theorem C06_l2_saving_is_saving_of_l2_cost_at_zero : forall (S1 S2 : nat -> R) (s e : nat), (s < e)%nat -> l2_saving_R S1 s e = saving (l2_cost_fixed_R S1 S2 0) (l2_cost_optim_R S1 S2) s e.
Proof. exact @l2_saving_is_saving_of_l2. Qed.

Theorem C06_l2_optim_le_fixed : forall (S1 S2 : nat -> R) (mu : R) (s e : nat), (s < e)%nat -> (l2_cost_optim_R S1 S2 s e <= l2_cost_fixed_R S1 S2 mu s e)%R.
Proof. exact @l2_optim_le_fixed. Qed.

Theorem C06_l2_split_never_increases : forall (S1 S2 : nat -> R) (s k e : nat), (s < k)%nat -> (k < e)%nat -> (l2_cost_optim_R S1 S2 s k + l2_cost_optim_R S1 S2 k e <= l2_cost_optim_R S1 S2 s e)%R.
Proof. exact @l2_split. Qed.

Theorem C06_l2_optim_nonneg : forall (xs : list R) (s e : nat), (s < e)%nat -> (e <= length xs)%nat -> (0 <= l2_cost_optim_R (prefix xs) (prefix (sq xs)) s e)%R.
Proof. exact @l2_optim_nonneg. Qed.

Theorem C06_gaussian_optim_le_fixed : forall (S1 S2 : nat -> R) (mu v : R) (s e : nat), (s < e)%nat -> (floor_var <= V S1 S2 s e)%R -> (0 < v)%R -> (gaussian_var_cost_optim_R S1 S2 s e <= gaussian_var_cost_fixed_R S1 S2 mu v s e)%R.
Proof. exact @gvar_optim_le_fixed. Qed.

Theorem C06_gaussian_split_never_increases : forall (S1 S2 : nat -> R) (s k e : nat), (s < k)%nat -> (k < e)%nat -> (floor_var <= V S1 S2 s k)%R -> (floor_var <= V S1 S2 k e)%R -> (floor_var <= V S1 S2 s e)%R -> (gaussian_var_cost_optim_R S1 S2 s k + gaussian_var_cost_optim_R S1 S2 k e <= gaussian_var_cost_optim_R S1 S2 s e)%R.
Proof. exact @gvar_split. Qed.

Theorem C06_variance_floor : forall (S1 S2 : nat -> R) (s e : nat), (s < e)%nat -> (floor_var <= var_from_sums_R S1 S2 s e)%R.
Proof. exact @var_from_sums_ge_floor. Qed.

Theorem C06_adapter_checker_sound : forall c : ad_case, ad_ok c = true -> match c with | AdChange c_se c_sk c_ke impl => impl = c_se - (c_sk + c_ke) | AdSaving c_fixed c_optim impl => impl = c_fixed - c_optim | AdLocal c_se c_ab c_pool impl => impl = c_se - (c_ab + c_pool) end.
Proof. exact @ad_ok_sound. Qed.

Theorem C06_twin_checker_sound : forall c : kq_case, kq_ok c = true -> QArith_base.Qle (kq_lo c) (kq_value c) /\ QArith_base.Qle (kq_value c) (kq_hi c) /\ QArith_base.Qeq (kq_value c) (kq_direct c).
Proof. exact @kq_ok_sound. Qed.

Print Assumptions C06_change_score_is_cost_difference.
Print Assumptions C06_saving_is_cost_difference.
Print Assumptions C06_local_score_is_cost_difference.
Print Assumptions C06_change_score_nonneg_when_split_holds.
Print Assumptions C06_saving_nonneg_when_optim_le_fixed.
Print Assumptions C06_local_score_nonneg_when_split_holds.
Print Assumptions C06_squared_cusum_is_l2_change_score.
Print Assumptions C06_l2_saving_is_saving_of_l2_cost_at_zero.
Print Assumptions C06_l2_optim_le_fixed.
Print Assumptions C06_l2_split_never_increases.
Print Assumptions C06_l2_optim_nonneg.
Print Assumptions C06_gaussian_optim_le_fixed.
Print Assumptions C06_gaussian_split_never_increases.
Print Assumptions C06_variance_floor.
Print Assumptions C06_adapter_checker_sound.
Print Assumptions C06_twin_checker_sound.

(** ---- added: statements re-derived from the lemma files by tools/append_props.py ---- *)
Theorem C06_l2_saving_subadditive : forall (S1 : nat -> R) (s k e : nat), (s < k)%nat -> (k < e)%nat -> (l2_saving_R S1 s e <= l2_saving_R S1 s k + l2_saving_R S1 k e)%R.
Proof. exact @l2_saving_subadditive. Qed.

Theorem C06_l2_saving_split_gap_is_l2_change_score : forall (S1 S2 : nat -> R) (s k e : nat), (s < k)%nat -> (k < e)%nat -> (l2_saving_R S1 s k + l2_saving_R S1 k e - l2_saving_R S1 s e)%R = change_score (l2_cost_optim_R S1 S2) s k e.
Proof. exact @l2_saving_split_gap_is_change_score. Qed.

Theorem C06_fixed_l2_cost_additive : forall (S1 S2 : nat -> R) (mu : R) (s k e : nat), (s <= k)%nat -> (k <= e)%nat -> l2_cost_fixed_R S1 S2 mu s e = (l2_cost_fixed_R S1 S2 mu s k + l2_cost_fixed_R S1 S2 mu k e)%R.
Proof. exact @l2_fixed_additive. Qed.

Theorem C06_fixed_gaussian_cost_additive : forall (S1 S2 : nat -> R) (mu v : R) (s k e : nat), (s <= k)%nat -> (k <= e)%nat -> v <> 0%R -> gaussian_var_cost_fixed_R S1 S2 mu v s e = (gaussian_var_cost_fixed_R S1 S2 mu v s k + gaussian_var_cost_fixed_R S1 S2 mu v k e)%R.
Proof. exact @gvar_fixed_additive. Qed.

Theorem C06_cost_saving_subadditive_when_split_holds : forall (Cf Co : nat -> nat -> R) (s k e : nat), Cf s e = (Cf s k + Cf k e)%R -> (Co s k + Co k e <= Co s e)%R -> (saving Cf Co s e <= saving Cf Co s k + saving Cf Co k e)%R.
Proof. exact @saving_subadditive_of_parts. Qed.

Theorem C06_l2_cost_saving_subadditive : forall (S1 S2 : nat -> R) (mu : R) (s k e : nat), (s < k)%nat -> (k < e)%nat -> (saving (l2_cost_fixed_R S1 S2 mu) (l2_cost_optim_R S1 S2) s e <= saving (l2_cost_fixed_R S1 S2 mu) (l2_cost_optim_R S1 S2) s k + saving (l2_cost_fixed_R S1 S2 mu) (l2_cost_optim_R S1 S2) k e)%R.
Proof. exact @l2_cost_saving_subadditive. Qed.

Theorem C06_gaussian_cost_saving_subadditive_above_floor : forall (S1 S2 : nat -> R) (mu v : R) (s k e : nat), (s < k)%nat -> (k < e)%nat -> v <> 0%R -> (floor_var <= V S1 S2 s k)%R -> (floor_var <= V S1 S2 k e)%R -> (floor_var <= V S1 S2 s e)%R -> (saving (gaussian_var_cost_fixed_R S1 S2 mu v) (gaussian_var_cost_optim_R S1 S2) s e <= saving (gaussian_var_cost_fixed_R S1 S2 mu v) (gaussian_var_cost_optim_R S1 S2) s k + saving (gaussian_var_cost_fixed_R S1 S2 mu v) (gaussian_var_cost_optim_R S1 S2) k e)%R.
Proof. exact @gvar_cost_saving_subadditive. Qed.

Theorem C06_gaussian_split_can_fail_at_the_floor : let W := fun n V : R => (n * ln (2 * PI * Rmax V floor_var) + n)%R in exists nb na Vb Va Vn : R, (0 < nb)%R /\ (0 < na)%R /\ (0 <= Vb)%R /\ (0 <= Va)%R /\ (nb * Vb + na * Va)%R = ((nb + na) * Vn)%R /\ (W (nb + na) Vn < W nb Vb + W na Va)%R.
Proof. exact @gvar_split_can_fail_at_the_floor. Qed.

Print Assumptions C06_l2_saving_subadditive.
Print Assumptions C06_l2_saving_split_gap_is_l2_change_score.
Print Assumptions C06_fixed_l2_cost_additive.
Print Assumptions C06_fixed_gaussian_cost_additive.
Print Assumptions C06_cost_saving_subadditive_when_split_holds.
Print Assumptions C06_l2_cost_saving_subadditive.
Print Assumptions C06_gaussian_cost_saving_subadditive_above_floor.
Print Assumptions C06_gaussian_split_can_fail_at_the_floor.

(* floating-point statements: Flocq rounding model and the primitive-float program of the CUSUM score *)
From Flocq Require Import Core Relative.
From SK Require Import Check.FloatKernelCheck Check.FloatKernelCheck2 Proofs.FloatError Proofs.FloatRefine Proofs.FloatKernels2.
Open Scope R_scope.
(** ---- added: statements re-derived from the lemma files by tools/append_props.py ---- *)
Theorem C06_float_cusum_error : forall (l : list R) (s k e : nat), (s < k)%nat -> (k < e)%nat -> INR e * u53 <= 1 / 100 -> Rabs (cusum_float53 l s k e - cusum_score_R (prefix l) s k e) <= (204 / 100 * INR e + 6) * u53 * (cusum_bw s k e * sumR (map Rabs (firstn e l)) + cusum_aw s k e * sumR (map Rabs (firstn e l))).
Proof. exact @cusum_float53_error. Qed.

Theorem C06_primitive_float_cusum_program_refines_rounding_model : forall (l : list PrimFloat.float) (s k e : nat), cusum_trace_ok l s k e = true -> FR (cusum_F l s k e) = cusum_float53 (map FR l) s k e.
Proof. exact @cusum_F_refines. Qed.

Theorem C06_primitive_float_cusum_within_bound_of_real_score : forall (l : list PrimFloat.float) (s k e : nat), cusum_trace_ok l s k e = true -> INR e * u53 <= 1 / 100 -> Rabs (FR (cusum_F l s k e) - cusum_score_R (prefix (map FR l)) s k e) <= (204 / 100 * INR e + 6) * u53 * (cusum_bw s k e * sumR (map Rabs (firstn e (map FR l))) + cusum_aw s k e * sumR (map Rabs (firstn e (map FR l)))).
Proof. exact @cusum_F_vs_score_R. Qed.

Theorem C06_primitive_float_sqrt_is_binary64_rounding : forall x : PrimFloat.float, FR (PrimFloat.sqrt x) = rnd_binary64 (sqrt (FR x)).
Proof. exact @FR_sqrt. Qed.

Print Assumptions C06_float_cusum_error.
Print Assumptions C06_primitive_float_cusum_program_refines_rounding_model.
Print Assumptions C06_primitive_float_cusum_within_bound_of_real_score.
Print Assumptions C06_primitive_float_sqrt_is_binary64_rounding.
