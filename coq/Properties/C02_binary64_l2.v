(** C02 END TO END in binary64, squared-error cost, one column: from the float DATA to the changepoints.  `gpelt F64 (l2_cost_F l) penf m (m-1) n` is the run the harness compares
    bit for bit with the real PELT (table stream) and `l2_cost_F` the kernel twin it compares bit for bit with `L2Cost.evaluate` (C01).  All premises are boolean and evaluated by
    `vm_compute` (on every univariate L2 case of the float stream: Check/FloatRunCheck.v): every cost's computation stays in the normal range (`l2_all_trace_ok`), every float of
    the run is finite (`pelt_trace_finite`), the sums formed are below `Magf` (`pelt_mag_ok`), the data below `Bf` (`l2_absmax_ok`).  Conclusion: the reported changepoints are
    admissible and their penalised RESIDUAL SUM OF SQUARES (of the real numbers the floats denote) is within an explicit `3 n (delta + 2 u Mag)` of the minimum. *)
From Coq Require Import Reals List Bool Arith PrimFloat.
From SK Require Import Lib.Base Model.Pelt Model.PeltR Model.Generic Model.GenericF Proofs.PeltSpec Proofs.PeltReal Proofs.RealLib Proofs.FloatError Proofs.FloatRefine Check.FloatKernelCheck Proofs.PeltFloat Proofs.PeltFloatL2.
Import ListNotations.


Theorem C02_binary64_l2_end_to_end : forall (l : list float) (penf Magf : float) (m : nat) (Sc : R), let n := length l in let Cf := l2_cost_F l in (1 <= m)%nat -> (2 * m <= n)%nat -> INR n * u53 <= 1 / 100 -> l2_all_trace_ok l = true -> pelt_trace_finite Cf penf m (m - 1) n = true -> pelt_mag_ok Cf penf m (m - 1) n Magf = true -> (forall a T : nat, (a < T <= n)%nat -> l2_scale (map FR l) a T <= Sc) -> let cpts := snd (gpelt F64 Cf penf m (m - 1) n) in let delta := (42 / 10 * INR n + 6) * u53 * Sc in let Mag := FR Magf / (1 - u53) in Adm m cpts n /\ (forall c : list nat, Adm m c n -> pencostR (fun s e : nat => rss (slice s e (map FR l))) (FR penf) cpts n <= pencostR (fun s e : nat => rss (slice s e (map FR l))) (FR penf) c n + 3 * INR n * (delta + 2 * u53 * Mag)).
Proof. exact @pelt_F64_l2_end_to_end. Qed.

Theorem C02_binary64_l2_final_score : forall (l : list float) (penf Magf : float) (m : nat) (Sc : R), let n := length l in let Cf := l2_cost_F l in (1 <= m)%nat -> (2 * m <= n)%nat -> INR n * u53 <= 1 / 100 -> l2_all_trace_ok l = true -> pelt_trace_finite Cf penf m (m - 1) n = true -> pelt_mag_ok Cf penf m (m - 1) n Magf = true -> (forall a T : nat, (a < T <= n)%nat -> l2_scale (map FR l) a T <= Sc) -> let out := gpelt F64 Cf penf m (m - 1) n in let delta := (42 / 10 * INR n + 6) * u53 * Sc in let Mag := FR Magf / (1 - u53) in Rabs (FR (nthV F64 (fst out) (n - 1)) - pencostR (fun s e : nat => rss (slice s e (map FR l))) (FR penf) (snd out) n) <= INR n * (delta + 2 * u53 * Mag).
Proof. exact @pelt_F64_l2_final_score. Qed.

Theorem C02_binary64_l2_end_to_end_all_premises_boolean : forall (l : list float) (penf Magf Bf : float) (m : nat), let n := length l in let Cf := l2_cost_F l in (1 <= m)%nat -> (2 * m <= n)%nat -> INR n * u53 <= 1 / 100 -> l2_all_trace_ok l = true -> pelt_trace_finite Cf penf m (m - 1) n = true -> pelt_mag_ok Cf penf m (m - 1) n Magf = true -> l2_absmax_ok l Bf = true -> let cpts := snd (gpelt F64 Cf penf m (m - 1) n) in let Sc := INR n * (INR n + 1) * FR Bf ^ 2 in let delta := (42 / 10 * INR n + 6) * u53 * Sc in let Mag := FR Magf / (1 - u53) in Adm m cpts n /\ (forall c : list nat, Adm m c n -> pencostR (fun s e : nat => rss (slice s e (map FR l))) (FR penf) cpts n <= pencostR (fun s e : nat => rss (slice s e (map FR l))) (FR penf) c n + 3 * INR n * (delta + 2 * u53 * Mag)).
Proof. exact @pelt_F64_l2_end_to_end_absmax. Qed.

Theorem C02_binary64_l2_example_premises_hold : pelt_mag_ok (l2_cost_F e2_xs) e2_pen 2 1 8 e2_Mag = true.
Proof. exact @e2_mag_ok. Qed.

Theorem C02_binary64_l2_example_within_1e9_of_optimal : forall c : list nat, Adm 2 c 8 -> pencostR (fun s e : nat => rss (slice s e e2_xsR)) (3 / 2) [4%nat] 8 <= pencostR (fun s e : nat => rss (slice s e e2_xsR)) (3 / 2) c 8 + 1 / 1000000000.
Proof. exact @e2_end_to_end_1e9. Qed.

Print Assumptions C02_binary64_l2_end_to_end.
Print Assumptions C02_binary64_l2_final_score.
Print Assumptions C02_binary64_l2_end_to_end_all_premises_boolean.
Print Assumptions C02_binary64_l2_example_premises_hold.
Print Assumptions C02_binary64_l2_example_within_1e9_of_optimal.
