(** C15 -- thresholds and penalties follow their documented formulas and act monotonically.

    The formula kernels are REGENERATED from /repo on every run (Gen/KernelsR.v); the
    theorems below are statements about those generated definitions over Coq's real numbers.
    The combined MVCAPA penalty is the hand model Model/Penalty.v (SciPy's chi-square
    quantile/density behind the intermediate sequence is an oracle: an arbitrary sequence).
    The tuned threshold is the hand model Model/Quantile.v of np.quantile (linear
    interpolation) over exact rationals. *)
From Coq Require Import Reals QArith Qround ZArith List Lia.
From SK Require Import Gen.KernelsR Model.Penalty Proofs.PenaltyProofs Model.Quantile Proofs.QuantileProofs.
From SK Require Import Lib.Base Model.Pelt Proofs.PeltSpec Proofs.PeltRefine.
Import ListNotations.

(** default values: 2 p log n (PELT), 2 p sqrt(log n) (seeded binary segmentation),
    2 p log (n * max_interval_length) (circular binary segmentation) *)
From SK Require Import Proofs.IntermediatePenalty.
Theorem C15_pelt_default : forall n p, pelt_default_penalty_R n p = (2 * INR p * ln (INR n))%R.
Proof. exact pelt_penalty_formula. Qed.
Theorem C15_sbs_default : forall n p, sbs_default_threshold_R n p = (2 * INR p * sqrt (ln (INR n)))%R.
Proof. exact sbs_threshold_formula. Qed.
Theorem C15_cbs_default : forall n p maxlen, cbs_default_threshold_R n p maxlen = (2 * INR p * ln (INR n * INR maxlen))%R.
Proof. exact cbs_threshold_formula. Qed.

(** CAPA's collective penalty: scale * (k + 2 sqrt(k log n) + 2 log n); proportional to the scale; >= 0 *)
Theorem C15_capa_penalty : forall n k scale,
  capa_penalty_R n k scale = (scale * (INR k + 2 * sqrt (INR k * ln (INR n)) + 2 * ln (INR n)))%R.
Proof. exact capa_penalty_formula. Qed.
Theorem C15_capa_penalty_proportional : forall n k scale, capa_penalty_R n k scale = (scale * capa_penalty_R n k 1)%R.
Proof. exact capa_penalty_scale. Qed.
Theorem C15_capa_penalty_nonneg : forall n k scale, (1 <= n)%nat -> (0 <= scale)%R -> (0 <= capa_penalty_R n k scale)%R.
Proof. exact capa_penalty_nonneg. Qed.

(** dense family: CAPA's penalty for all p*k parameters, no per-component part *)
Theorem C15_dense : forall n p npv scale,
  dense_mvcapa_penalty_alpha_R n p npv scale = capa_penalty_R n (p * npv) scale /\
  dense_mvcapa_penalty_beta_R n p npv scale = 0%R.
Proof. exact dense_formula. Qed.
(** sparse family: 2 log n, plus 2 log(k p) per component, times the scale *)
Theorem C15_sparse : forall n p npv scale,
  sparse_mvcapa_penalty_alpha_R n p npv scale = (scale * (2 * ln (INR n)))%R /\
  sparse_mvcapa_penalty_beta_R n p npv scale = (scale * (2 * ln (INR npv * INR p)))%R.
Proof. exact sparse_formula. Qed.
Theorem C15_dense_sparse_proportional : forall n p npv scale j,
  dense_cum n p npv scale j = (scale * dense_cum n p npv 1 j)%R /\
  sparse_cum n p npv scale j = (scale * sparse_cum n p npv 1 j)%R.
Proof. intros; split; [apply dense_cum_scale|apply sparse_cum_scale]. Qed.
Theorem C15_dense_sparse_nonneg_nondecreasing : forall n p npv scale j,
  (1 <= n)%nat -> (1 <= npv)%nat -> (1 <= p)%nat -> (0 <= scale)%R ->
  (0 <= dense_cum n p npv scale j /\ dense_cum n p npv scale j <= dense_cum n p npv scale (S j) /\
   0 <= sparse_cum n p npv scale j /\ sparse_cum n p npv scale j <= sparse_cum n p npv scale (S j))%R.
Proof.
  intros n p npv scale j Hn Hv Hp Hs. repeat split.
  - apply dense_cum_nonneg; assumption.
  - apply dense_cum_nondecr.
  - apply sparse_cum_nonneg; assumption.
  - apply sparse_cum_nondecr; assumption.
Qed.

(** combined family: cumulative penalty for k components = pointwise minimum of the three;
    per-component terms >= 0 when the three sequences are non-negative and non-decreasing;
    proportional to a common scale *)
Theorem C15_combined_is_pointwise_min : forall d sp im k, (1 <= k)%nat ->
  cum_of (combined_beta d sp im) k = Rmin (d k) (Rmin (sp k) (im k)).
Proof. exact combined_is_pointwise_min. Qed.
Theorem C15_combined_betas_nonneg : forall n p npv scale im j,
  (1 <= n)%nat -> (1 <= npv)%nat -> (1 <= p)%nat -> (0 <= scale)%R ->
  (0 <= im 1%nat)%R -> nondecr_on im p -> (j < p)%nat ->
  (0 <= combined_beta (dense_cum n p npv scale) (sparse_cum n p npv scale) im j)%R.
Proof. exact combined_betas_nonneg_inst. Qed.
Theorem C15_combined_proportional : forall d sp im c k, (0 <= c)%R ->
  cum_min (fun j => c * d j)%R (fun j => c * sp j)%R (fun j => c * im j)%R k = (c * cum_min d sp im k)%R.
Proof. exact combined_scale. Qed.
(** the originally pinned call passed the scale in the place of n_params_per_variable:
    right at scale 1, wrong (too small) at scale 4 *)
Theorem C15_combined_scale_slip_refuted : forall n p npv, (2 <= n)%nat ->
  (dense_mvcapa_penalty_alpha_R n (p * npv) 4 1 < dense_mvcapa_penalty_alpha_R n p npv 4)%R.
Proof. exact combined_dense_slip_differs. Qed.

(** tuned threshold = linearly interpolated (1 - level) quantile: between the two neighbouring order
    statistics; at most N - 1 - floor((N-1) q) training scores exceed it; the literal claim "at most a
    fraction level exceeds it" is FALSE for the interpolated quantile (recorded finding D18) *)
Theorem C15_quantile_between : forall scores q, scores <> [] -> (0 <= q)%Q -> (q <= 1)%Q ->
  (nth (quantile_lo (length scores) q) (sortQ scores) 0 <= quantile_linear scores q /\
   quantile_linear scores q <= nth (quantile_hi (length scores) q) (sortQ scores) 0)%Q.
Proof. exact quantile_between. Qed.
Theorem C15_exceedance_bound : forall scores q, scores <> [] -> (0 <= q)%Q -> (q <= 1)%Q ->
  (count_above (quantile_linear scores q) scores
     <= length scores - 1 - Z.to_nat (Qfloor (inject_Z (Z.of_nat (length scores - 1)) * q)))%nat.
Proof. exact exceed_bound. Qed.
Theorem C15_exceed_fraction_refuted : exists (scores : list Q) (level : Q),
  (0 < level /\ level < 1)%Q /\
  ~ (inject_Z (Z.of_nat (count_above (quantile_linear scores (1 - level)) scores))
       <= level * inject_Z (Z.of_nat (length scores)))%Q.
Proof. exact exceed_fraction_refuted. Qed.

(** a larger penalty never increases the number of changepoints PELT reports *)
Theorem C15_pelt_penalty_monotone : forall (C : nat -> nat -> Z) (pen1 pen2 : Z) (m n : nat),
  (1 <= m)%nat -> (2 * m <= n)%nat -> (0 <= pen1 < pen2)%Z ->
  (forall s k e, (s + m <= k)%nat -> (k + m <= e)%nat -> (C s k + C k e <= C s e)%Z) ->
  (length (snd (pelt C pen2 m (m - 1) n)) <= length (snd (pelt C pen1 m (m - 1) n)))%nat.
Proof. intros C pen1 pen2 m n Hm Hn Hp Hs. apply pelt_penalty_monotone; auto. lia. Qed.

Print Assumptions C15_pelt_default.
Print Assumptions C15_sbs_default.
Print Assumptions C15_cbs_default.
Print Assumptions C15_capa_penalty.
Print Assumptions C15_capa_penalty_proportional.
Print Assumptions C15_capa_penalty_nonneg.
Print Assumptions C15_dense.
Print Assumptions C15_sparse.
Print Assumptions C15_dense_sparse_proportional.
Print Assumptions C15_dense_sparse_nonneg_nondecreasing.
Print Assumptions C15_combined_is_pointwise_min.
Print Assumptions C15_combined_betas_nonneg.
Print Assumptions C15_combined_proportional.
Print Assumptions C15_combined_scale_slip_refuted.
Print Assumptions C15_quantile_between.
Print Assumptions C15_exceedance_bound.
Print Assumptions C15_exceed_fraction_refuted.
Print Assumptions C15_pelt_penalty_monotone.

(** ---- added: statements re-derived from the lemma files by tools/append_props.py ---- *)
Theorem C15_intermediate_curve_formula : forall (n p npv : nat) (scale : R) (j : nat) (c f : R), intermediate_penalty_curve_R n p npv scale j c f = inter_doc n p npv scale j c f.
Proof. exact @intermediate_curve_formula. Qed.

Theorem C15_intermediate_curve_proportional : forall (n p npv : nat) (scale : R) (j : nat) (c f : R), intermediate_penalty_curve_R n p npv scale j c f = scale * intermediate_penalty_curve_R n p npv 1 j c f.
Proof. exact @intermediate_curve_scale. Qed.

Theorem C15_intermediate_curve_nonneg : forall (n p npv : nat) (scale : R) (j : nat) (c f : R), (1 <= n)%nat -> (1 <= p)%nat -> 0 <= scale -> 0 <= c -> 0 <= f -> 0 <= intermediate_penalty_curve_R n p npv scale j c f.
Proof. exact @intermediate_curve_nonneg. Qed.

Print Assumptions C15_intermediate_curve_formula.
Print Assumptions C15_intermediate_curve_proportional.
Print Assumptions C15_intermediate_curve_nonneg.

(** ---- a larger penalty never yields more changepoints: over the reals, and end to end for the squared-error cost ---- *)
From SK Require Import Model.PeltR Proofs.PeltSpec Proofs.RealLib Proofs.CostKernels Proofs.PeltReal Proofs.PeltRealMonotone.
Open Scope R_scope.
Theorem C15_pelt_penalty_monotone_over_reals : forall (C : nat -> nat -> R) (pen1 pen2 : R) (m delay n : nat),
  (1 <= m)%nat -> (2 * m <= n)%nat -> 0 <= pen1 < pen2 -> (m <= delay + 1)%nat ->
  (forall s k e, (s + m <= k)%nat -> (k + m <= e)%nat -> (e <= n)%nat -> C s k + C k e <= C s e) ->
  (length (snd (peltR C pen2 m delay n)) <= length (snd (peltR C pen1 m delay n)))%nat.
Proof. exact peltR_penalty_monotone. Qed.

Theorem C15_pelt_l2_penalty_monotone_end_to_end : forall (xs : list R) (pen1 pen2 : R) (m : nat),
  (1 <= m)%nat -> (2 * m <= length xs)%nat -> 0 <= pen1 < pen2 ->
  let C := l2_cost_optim_R (prefix xs) (prefix (sq xs)) in
  (length (snd (peltR C pen2 m (m - 1) (length xs))) <= length (snd (peltR C pen1 m (m - 1) (length xs))))%nat.
Proof. exact pelt_l2_penalty_monotone. Qed.

Print Assumptions C15_pelt_penalty_monotone_over_reals.
Print Assumptions C15_pelt_l2_penalty_monotone_end_to_end.

