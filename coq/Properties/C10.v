(** C10 -- results depend only on hyper-parameters, training data and the input.

    Model/Objects.v is a state machine over a heap of scorer objects and detector objects that
    mirrors the attribute mutations of the real code: detectors keep the user's scorer object and
    refit it in place at every predict / transform / transform_scores (and at fit when the
    threshold is tuned), store the scores of the last predict on themselves, remember the
    training data for update; set_params = assign + reset; clone = fresh unfitted copies.
    The OUTPUT of an observing operation is its dependency tuple.  The theorems are proved for
    ALL histories (induction over the operation list): non-interference of earlier calls and of
    other detectors sharing scorers, equality with a freshly constructed object fitted the same
    way, update = fit on the combined data, frame properties of hyper-parameters.
    Limit made explicit: [stale_sparams_possible] -- changing a nested scorer's hyper-parameter
    behind a fitted detector's back leaves the fitted attributes computed from the old value. *)
From Coq Require Import List Arith Bool.
From SK Require Import Lib.Base Model.Objects Proofs.ObjectsProofs.
Import ListNotations.
From SK Require Import Check.ObjectsCheck Proofs.CheckerSoundness.
From SK Require Import Model.Adapters Check.AdaptersCheck Proofs.AdaptersProofs.


Theorem C10_wellformed_heaps : forall h : heap, reachable h -> heap_ok h.
Proof. exact @reachable_heap_ok. Qed.

Theorem C10_observation_reads_only : forall (h : heap) (ob : obsop) (i x : nat) (d : detector) (fr : fitrec), nth_error (detectors h) i = Some d -> d_fit d = Some fr -> snd (step h (Observe ob i x)) = ODet ob (d_params d) (sparams_of (scorers h) (d_scorers d)) fr x.
Proof. exact @observe_reads. Qed.

Theorem C10_unfitted_detector_refuses : forall (h : heap) (ob : obsop) (i x : nat) (d : detector), nth_error (detectors h) i = Some d -> d_fit d = None -> snd (step h (Observe ob i x)) = ONotFitted /\ fst (step h (Observe ob i x)) = h.
Proof. exact @observe_unfitted. Qed.

Theorem C10_evaluate_reads_only : forall (h : heap) (r c : nat) (s : scorer), nth_error (scorers h) r = Some s -> step h (EvalS r c) = (h, match s_fit s with | Some D => OEval (s_param s) D c | None => ONotFitted end).
Proof. exact @eval_reads. Qed.

Theorem C10_fitted_means_current_params : forall (h : heap) (i : nat) (d : detector) (fr : fitrec), reachable h -> nth_error (detectors h) i = Some d -> d_fit d = Some fr -> f_params fr = d_params d /\ d_X d = Some (f_data fr).
Proof. exact @fitted_params_current. Qed.

Theorem C10_earlier_calls_do_not_interfere : forall (h : heap) (o : op) (i : nat) (ob : obsop) (x : nat), benign i o = true -> heap_ok h -> i < length (detectors h) -> snd (step (fst (step h o)) (Observe ob i x)) = snd (step h (Observe ob i x)).
Proof. exact @benign_preserves_observation. Qed.

Theorem C10_any_benign_history_does_not_interfere : forall (ops : list op) (h : heap) (i : nat) (ob : obsop) (x : nat), forallb (benign i) ops = true -> heap_ok h -> i < length (detectors h) -> snd (step (fst (run h ops)) (Observe ob i x)) = snd (step h (Observe ob i x)).
Proof. exact @benign_seq_preserves_observation. Qed.

Theorem C10_history_suffix_irrelevant : forall (pre ops : list op) (i : nat) (ob : obsop) (x : nat), forallb (benign i) ops = true -> i < length (detectors (fst (run empty pre))) -> snd (step (fst (run empty (pre ++ ops))) (Observe ob i x)) = snd (step (fst (run empty pre)) (Observe ob i x)).
Proof. exact @benign_suffix_irrelevant. Qed.

Theorem C10_evaluate_not_interfered : forall (h : heap) (o : op) (r c : nat), eval_benign h r o = true -> r < length (scorers h) -> snd (step (fst (step h o)) (EvalS r c)) = snd (step h (EvalS r c)).
Proof. exact @eval_preserved. Qed.

Theorem C10_evaluate_history : forall (ops : list op) (h : heap) (r c : nat), forallb (eval_benign_static r) ops = true -> r < length (scorers h) -> snd (step (fst (run h ops)) (EvalS r c)) = snd (step h (EvalS r c)).
Proof. exact @eval_seq_preserved. Qed.

Theorem C10_fresh_object_observation : forall (P : nat) (tn : bool) (SP : list nat) (D : dterm) (ob : obsop) (x : nat), snd (step (fst (run empty (fresh_history P tn SP D))) (Observe ob 0 x)) = ODet ob P SP {| f_params := P; f_sparams := SP; f_data := D |} x.
Proof. exact @fresh_observation. Qed.

Theorem C10_equals_fresh_object : forall (h : heap) (i : nat) (d : detector) (fr : fitrec) (ob : obsop) (x : nat), reachable h -> nth_error (detectors h) i = Some d -> d_fit d = Some fr -> f_sparams fr = sparams_of (scorers h) (d_scorers d) -> snd (step h (Observe ob i x)) = snd (step (fst (run empty (fresh_history (d_params d) (d_tunes d) (sparams_of (scorers h) (d_scorers d)) (f_data fr)))) (Observe ob 0 x)).
Proof. exact @observe_equals_fresh. Qed.

Theorem C10_equals_fresh_object_without_nested_sets : forall (ops : list op) (i : nat) (d : detector) (fr : fitrec) (ob : obsop) (x : nat), forallb (fun o : op => negb (is_sset o)) ops = true -> let h := fst (run empty ops) in nth_error (detectors h) i = Some d -> d_fit d = Some fr -> snd (step h (Observe ob i x)) = snd (step (fst (run empty (fresh_history (d_params d) (d_tunes d) (sparams_of (scorers h) (d_scorers d)) (f_data fr)))) (Observe ob 0 x)).
Proof. exact @observe_equals_fresh_no_sets. Qed.

Theorem C10_equal_configuration_equal_output : forall (h1 h2 : heap) (i1 i2 : nat) (d1 d2 : detector) (fr1 fr2 : fitrec) (ob : obsop) (x : nat), reachable h1 -> reachable h2 -> nth_error (detectors h1) i1 = Some d1 -> nth_error (detectors h2) i2 = Some d2 -> d_fit d1 = Some fr1 -> d_fit d2 = Some fr2 -> f_sparams fr1 = sparams_of (scorers h1) (d_scorers d1) -> f_sparams fr2 = sparams_of (scorers h2) (d_scorers d2) -> d_params d1 = d_params d2 -> sparams_of (scorers h1) (d_scorers d1) = sparams_of (scorers h2) (d_scorers d2) -> f_data fr1 = f_data fr2 -> snd (step h1 (Observe ob i1 x)) = snd (step h2 (Observe ob i2 x)).
Proof. exact @observations_agree. Qed.

Theorem C10_stale_nested_parameter_possible : exists (ops : list op) (i : nat) (d : detector) (fr : fitrec), nth_error (detectors (fst (run empty ops))) i = Some d /\ d_fit d = Some fr /\ f_sparams fr <> sparams_of (scorers (fst (run empty ops))) (d_scorers d).
Proof. exact @stale_sparams_possible. Qed.

Theorem C10_update_is_fit_on_combined : forall (h : heap) (i : nat) (d : detector) (fr : fitrec) (D : nat), reachable h -> nth_error (detectors h) i = Some d -> d_fit d = Some fr -> step h (UpdateD i D) = step h (FitD i (Comb (Raw D) (f_data fr))).
Proof. exact @update_is_fit_on_combined_reachable. Qed.

Theorem C10_update_unfitted : forall (h : heap) (i : nat) (d : detector) (D : nat), nth_error (detectors h) i = Some d -> d_fit d = None -> snd (step h (UpdateD i D)) = ONotFitted /\ fst (step h (UpdateD i D)) = h.
Proof. exact @update_unfitted. Qed.

Theorem C10_set_params_unfits : forall (h : heap) (i : nat) (d : detector) (p : nat) (tn : bool), nth_error (detectors h) i = Some d -> nth_error (detectors (fst (step h (SetD i p tn)))) i = Some (reset_d d p tn) /\ (forall (ob : obsop) (x : nat), step (fst (step h (SetD i p tn))) (Observe ob i x) = (fst (step h (SetD i p tn)), ONotFitted)) /\ (forall D : nat, step (fst (step h (SetD i p tn))) (UpdateD i D) = (fst (step h (SetD i p tn)), ONotFitted)).
Proof. exact @set_params_unfits. Qed.

Theorem C10_nested_set_params_unfits : forall (h : heap) (i k p : nat) (d : detector) (r : nat), heap_ok h -> nth_error (detectors h) i = Some d -> nth_error (d_scorers d) k = Some r -> let h' := fst (step h (SetNested i k p)) in nth_error (detectors h') i = Some (reset_d d (d_params d) (d_tunes d)) /\ nth_error (scorers h') r = Some {| s_param := p; s_fit := None |} /\ (forall (ob : obsop) (x : nat), step h' (Observe ob i x) = (h', ONotFitted)).
Proof. exact @set_nested_unfits. Qed.

Theorem C10_clone_is_unfitted_copy : forall (h : heap) (i : nat) (d : detector), nth_error (detectors h) i = Some d -> let h' := fst (step h (CloneD i)) in snd (step h (CloneD i)) = ONew (length (detectors h)) /\ (exists d' : detector, nth_error (detectors h') (length (detectors h)) = Some d' /\ d_params d' = d_params d /\ d_tunes d' = d_tunes d /\ d_fit d' = None /\ d_X d' = None /\ d_scores d' = None /\ length (d_scorers d') = length (d_scorers d) /\ NoDup (d_scorers d') /\ (forall r : nat, In r (d_scorers d') -> length (scorers h) <= r /\ (exists s : scorer, nth_error (scorers h') r = Some s /\ s_fit s = None)) /\ sparams_of (scorers h') (d_scorers d') = sparams_of (scorers h) (d_scorers d)).
Proof. exact @clone_is_unfitted_copy. Qed.

Theorem C10_clone_leaves_original : forall (h : heap) (i : nat), exists (ss : list scorer) (ds : list detector), scorers (fst (step h (CloneD i))) = scorers h ++ ss /\ detectors (fst (step h (CloneD i))) = detectors h ++ ds.
Proof. exact @clone_does_not_touch_original. Qed.

Theorem C10_hyperparameters_change_only_by_set_params : forall (h : heap) (o : op), (forall (i : nat) (d : detector), nth_error (detectors h) i = Some d -> touches_params i o = false -> exists d' : detector, nth_error (detectors (fst (step h o))) i = Some d' /\ d_params d' = d_params d /\ d_tunes d' = d_tunes d /\ d_scorers d' = d_scorers d) /\ (forall (r : nat) (s : scorer), nth_error (scorers h) r = Some s -> param_target h o <> Some r -> exists s' : scorer, nth_error (scorers (fst (step h o))) r = Some s' /\ s_param s' = s_param s).
Proof. exact @hyperparams_only_by_set. Qed.

Theorem C10_scorer_references_never_change : forall (h : heap) (o : op) (i : nat) (d : detector), nth_error (detectors h) i = Some d -> exists d' : detector, nth_error (detectors (fst (step h o))) i = Some d' /\ d_scorers d' = d_scorers d.
Proof. exact @scorer_refs_never_change. Qed.

Theorem C10_twin_checker_sound : forall (ops : list op) (outs : list out) (sd ss : list (nat * bool)), hist_ok (ops, outs, (sd, ss)) = true -> snd (run empty ops) = outs /\ summary (fst (run empty ops)) = (sd, ss).
Proof. exact @hist_ok_sound. Qed.

Theorem C10_adapter_heaps_wellformed : forall h : aheap, areachable h -> aheap_ok h.
Proof. exact @areachable_aheap_ok. Qed.

Theorem C10_adapter_fit_then_evaluate_is_fresh : forall (h : aheap) (a D : nat) (ad : adapter) (co : cost), aheap_ok h -> nth_error (adapters h) a = Some ad -> nth_error (costs h) (a_cost ad) = Some co -> aout_norm (snd (astep (fst (astep h (FitA a D))) (EvalA a))) = fresh_val (a_kind ad) (c_param co) D.
Proof. exact @fit_then_eval_is_fresh_norm. Qed.

Theorem C10_adapter_fresh_value : forall (k : akind) (p D : nat), snd (arun aempty [NewC p; NewA k 0; FitA 0 D; EvalA 0]) = [ANew 0; ANew 0; ANone; fresh_val k p D].
Proof. exact @fresh_adapter_val. Qed.

Theorem C10_adapter_reads_last_fit_of_shared_cost : forall (h : aheap) (a : nat) (ad : adapter) (co : cost) (own D' : nat), nth_error (adapters h) a = Some ad -> nth_error (costs h) (a_cost ad) = Some co -> a_fit ad = Some own -> snd (astep (fst (astep h (FitC (a_cost ad) D'))) (EvalA a)) = AVal (a_kind ad) (c_param co) D' (a_clone_param ad) (a_clone_fit ad) own.
Proof. exact @eval_reads_last_cost_fit. Qed.

Theorem C10_adapter_reads_last_fit_by_other_adapter : forall (h : aheap) (a b : nat) (ad bd : adapter) (co : cost) (own D' : nat), nth_error (adapters h) a = Some ad -> nth_error (adapters h) b = Some bd -> b <> a -> a_cost bd = a_cost ad -> nth_error (costs h) (a_cost ad) = Some co -> a_fit ad = Some own -> snd (astep (fst (astep h (FitA b D'))) (EvalA a)) = AVal (a_kind ad) (c_param co) D' (a_clone_param ad) (a_clone_fit ad) own.
Proof. exact @eval_reads_last_adapter_fit. Qed.

Theorem C10_adapter_unaffected_by_unrelated_operations : forall (ops : list aop) (h : aheap) (a : nat) (ad : adapter), aheap_ok h -> nth_error (adapters h) a = Some ad -> untouching (a_cost ad) a h ops = true -> snd (astep (fst (arun h ops)) (EvalA a)) = snd (astep h (EvalA a)).
Proof. exact @eval_unaffected_run. Qed.

Theorem C10_adapter_refuses_after_cost_reset : forall (h : aheap) (a : nat) (ad : adapter) (p : nat), nth_error (adapters h) a = Some ad -> a_cost ad < length (costs h) -> a_fit ad <> None -> snd (astep (fst (astep h (SetC (a_cost ad) p))) (EvalA a)) = ANotFitted.
Proof. exact @set_behind_back_refuses. Qed.

Theorem C10_adapter_refit_recovers : forall (h : aheap) (a : nat) (ad : adapter) (p D : nat), aheap_ok h -> nth_error (adapters h) a = Some ad -> aout_norm (snd (astep (fst (astep (fst (astep h (SetC (a_cost ad) p))) (FitA a D))) (EvalA a))) = fresh_val (a_kind ad) p D.
Proof. exact @refit_recovers_norm. Qed.

Theorem C10_adapter_unfitted_refuses : forall (h : aheap) (a : nat) (ad : adapter), nth_error (adapters h) a = Some ad -> a_cost ad < length (costs h) -> a_fit ad = None -> snd (astep h (EvalA a)) = ANotFitted.
Proof. exact @unfitted_adapter_refuses. Qed.

Theorem C10_adapter_twin_checker_sound : forall (ops : list aop) (outs : list aout) (sc : list (nat * bool)) (sa : list bool), ahist_ok (ops, outs, (sc, sa)) = true -> snd (arun aempty ops) = outs /\ asummary (fst (arun aempty ops)) = (sc, sa).
Proof. exact @ahist_ok_sound. Qed.

Print Assumptions C10_wellformed_heaps.
Print Assumptions C10_observation_reads_only.
Print Assumptions C10_unfitted_detector_refuses.
Print Assumptions C10_evaluate_reads_only.
Print Assumptions C10_fitted_means_current_params.
Print Assumptions C10_earlier_calls_do_not_interfere.
Print Assumptions C10_any_benign_history_does_not_interfere.
Print Assumptions C10_history_suffix_irrelevant.
Print Assumptions C10_evaluate_not_interfered.
Print Assumptions C10_evaluate_history.
Print Assumptions C10_fresh_object_observation.
Print Assumptions C10_equals_fresh_object.
Print Assumptions C10_equals_fresh_object_without_nested_sets.
Print Assumptions C10_equal_configuration_equal_output.
Print Assumptions C10_stale_nested_parameter_possible.
Print Assumptions C10_update_is_fit_on_combined.
Print Assumptions C10_update_unfitted.
Print Assumptions C10_set_params_unfits.
Print Assumptions C10_nested_set_params_unfits.
Print Assumptions C10_clone_is_unfitted_copy.
Print Assumptions C10_clone_leaves_original.
Print Assumptions C10_hyperparameters_change_only_by_set_params.
Print Assumptions C10_scorer_references_never_change.
Print Assumptions C10_twin_checker_sound.
Print Assumptions C10_adapter_heaps_wellformed.
Print Assumptions C10_adapter_fit_then_evaluate_is_fresh.
Print Assumptions C10_adapter_fresh_value.
Print Assumptions C10_adapter_reads_last_fit_of_shared_cost.
Print Assumptions C10_adapter_reads_last_fit_by_other_adapter.
Print Assumptions C10_adapter_unaffected_by_unrelated_operations.
Print Assumptions C10_adapter_refuses_after_cost_reset.
Print Assumptions C10_adapter_refit_recovers.
Print Assumptions C10_adapter_unfitted_refuses.
Print Assumptions C10_adapter_twin_checker_sound.
