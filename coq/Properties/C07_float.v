(** C07, transferred: the specification theorems of the greedy search for ANY number type whose comparison is a strict weak order on the
    values read (Proofs/GenericSpec.v, derived from Properties/C07.v through an order embedding into Z), and their instances for binary64
    scores without NaN (Proofs/GenericInstances.v: PrimFloat.ltb is a strict weak order on non-NaN floats, infinities included). *)
From Coq Require Import ZArith List Bool Arith Floats.
From SK Require Import Lib.Base Model.Mw Model.Sbs Model.Capa Model.Cbs Model.Generic Model.GenericF.
From SK Require Import Proofs.GenericRank Proofs.GenericOrder Proofs.GenericSpec Proofs.GenericInstances.
Import ListNotations.


Theorem C07_float_F64_swo : swo F64 nonnan.
Proof. exact @F64_swo. Qed.

Theorem C07_float_F64_C07_total : forall (CS : nat -> nat -> nat -> float) (m n : nat) (thr : float) (ivs : list (nat * nat)), (forall s e k : nat, In (s, e) ivs -> (s + m <= k)%nat -> (k + m <= e)%nat -> nonnan (CS s k e)) -> nonnan thr -> (thr <? 0)%float = false -> (1 <= m)%nat -> (forall s e : nat, In (s, e) ivs -> (s + 2 * m <= e <= n)%nat) -> exists r : list nat * list (nat * T F64), gsbs F64 CS m thr ivs = Some r.
Proof. exact @F64_C07_total. Qed.

Theorem C07_float_F64_C07_interval_scores : forall (CS : nat -> nat -> nat -> float) (m n : nat) (thr : float) (ivs : list (nat * nat)), (forall s e k : nat, In (s, e) ivs -> (s + m <= k)%nat -> (k + m <= e)%nat -> nonnan (CS s k e)) -> nonnan thr -> (thr <? 0)%float = false -> (1 <= m)%nat -> (forall s e : nat, In (s, e) ivs -> (s + 2 * m <= e <= n)%nat) -> forall (cpts : list nat) (am : list (nat * float)), gsbs F64 CS m thr ivs = Some (cpts, am) -> length am = length ivs /\ (forall i : nat, (i < length ivs)%nat -> let '(s, e) := nth i ivs (0%nat, 0%nat) in let '(k, v) := nth i am (0%nat, 0%float) in ((s + m <= k)%nat /\ (k + m <= e)%nat) /\ v = CS s k e /\ (forall k' : nat, (s + m <= k')%nat /\ (k' + m <= e)%nat -> (v <? CS s k' e)%float = false /\ ((k' < k)%nat -> (CS s k' e <? v)%float = true))).
Proof. exact @F64_C07_interval_scores. Qed.

Theorem C07_float_F64_C07_changepoints_supported : forall (CS : nat -> nat -> nat -> float) (m n : nat) (thr : float) (ivs : list (nat * nat)), (forall s e k : nat, In (s, e) ivs -> (s + m <= k)%nat -> (k + m <= e)%nat -> nonnan (CS s k e)) -> nonnan thr -> (thr <? 0)%float = false -> (1 <= m)%nat -> (forall s e : nat, In (s, e) ivs -> (s + 2 * m <= e <= n)%nat) -> forall (cpts : list nat) (am : list (nat * float)), gsbs F64 CS m thr ivs = Some (cpts, am) -> forall c : nat, In c cpts -> exists i : nat, (i < length ivs)%nat /\ fst (nth i am (0%nat, 0%float)) = c /\ (thr <? snd (nth i am (0%nat, 0)))%float = true /\ contains (nth i ivs (0%nat, 0%nat)) c = true.
Proof. exact @F64_C07_changepoints_supported. Qed.

Theorem C07_float_F64_C07_no_interval_left : forall (CS : nat -> nat -> nat -> float) (m n : nat) (thr : float) (ivs : list (nat * nat)), (forall s e k : nat, In (s, e) ivs -> (s + m <= k)%nat -> (k + m <= e)%nat -> nonnan (CS s k e)) -> nonnan thr -> (thr <? 0)%float = false -> (1 <= m)%nat -> (forall s e : nat, In (s, e) ivs -> (s + 2 * m <= e <= n)%nat) -> forall (cpts : list nat) (am : list (nat * float)), gsbs F64 CS m thr ivs = Some (cpts, am) -> forall i : nat, (i < length ivs)%nat -> (thr <? snd (nth i am (0%nat, 0)))%float = true -> exists c : nat, In c cpts /\ contains (nth i ivs (0%nat, 0%nat)) c = true.
Proof. exact @F64_C07_no_interval_left. Qed.

Theorem C07_float_F64_C07_changepoints_wellformed : forall (CS : nat -> nat -> nat -> float) (m n : nat) (thr : float) (ivs : list (nat * nat)), (forall s e k : nat, In (s, e) ivs -> (s + m <= k)%nat -> (k + m <= e)%nat -> nonnan (CS s k e)) -> nonnan thr -> (thr <? 0)%float = false -> (1 <= m)%nat -> (forall s e : nat, In (s, e) ivs -> (s + 2 * m <= e <= n)%nat) -> forall (cpts : list nat) (am : list (nat * float)), gsbs F64 CS m thr ivs = Some (cpts, am) -> (forall i : nat, (S i < length cpts)%nat -> (nthN cpts i + m <= nthN cpts (S i))%nat) /\ (forall c : nat, In c cpts -> (m <= c)%nat /\ (c + m <= n)%nat).
Proof. exact @F64_C07_changepoints_wellformed. Qed.

Theorem C07_float_F64_C07_threshold_monotone : forall (CS : nat -> nat -> nat -> float) (m n : nat) (thr : float) (ivs : list (nat * nat)), (forall s e k : nat, In (s, e) ivs -> (s + m <= k)%nat -> (k + m <= e)%nat -> nonnan (CS s k e)) -> nonnan thr -> (thr <? 0)%float = false -> (1 <= m)%nat -> (forall s e : nat, In (s, e) ivs -> (s + 2 * m <= e <= n)%nat) -> forall (cpts : list nat) (am : list (nat * float)), gsbs F64 CS m thr ivs = Some (cpts, am) -> forall (thr' : float) (cpts' : list nat) (am' : list (nat * T F64)), nonnan thr' -> (thr' <? thr)%float = false -> gsbs F64 CS m thr' ivs = Some (cpts', am') -> incl cpts' cpts.
Proof. exact @F64_C07_threshold_monotone. Qed.

Theorem C07_any_order_G07_interval_scores : forall (N : num) (ok : T N -> Prop), swo N ok -> ok (zero N) -> forall (CS : nat -> nat -> nat -> T N) (m n : nat) (thr : T N) (ivs : list (nat * nat)), sbs_table_ok N ok CS m ivs -> ok thr -> ltb N thr (zero N) = false -> (1 <= m)%nat -> (forall s e : nat, In (s, e) ivs -> (s + 2 * m <= e <= n)%nat) -> forall (cpts : list nat) (am : list (nat * T N)), gsbs N CS m thr ivs = Some (cpts, am) -> length am = length ivs /\ (forall i : nat, (i < length ivs)%nat -> let '(s, e) := nth i ivs (0%nat, 0%nat) in let '(k, v) := nth i am (0%nat, zero N) in ((s + m <= k)%nat /\ (k + m <= e)%nat) /\ v = CS s k e /\ (forall k' : nat, (s + m <= k')%nat /\ (k' + m <= e)%nat -> ltb N v (CS s k' e) = false /\ ((k' < k)%nat -> ltb N (CS s k' e) v = true))).
Proof. exact @G07_interval_scores. Qed.

Theorem C07_any_order_G07_changepoints_supported : forall (N : num) (ok : T N -> Prop), swo N ok -> ok (zero N) -> forall (CS : nat -> nat -> nat -> T N) (m n : nat) (thr : T N) (ivs : list (nat * nat)), sbs_table_ok N ok CS m ivs -> ok thr -> ltb N thr (zero N) = false -> (1 <= m)%nat -> (forall s e : nat, In (s, e) ivs -> (s + 2 * m <= e <= n)%nat) -> forall (cpts : list nat) (am : list (nat * T N)), gsbs N CS m thr ivs = Some (cpts, am) -> forall c : nat, In c cpts -> exists i : nat, (i < length ivs)%nat /\ fst (nth i am (0%nat, zero N)) = c /\ ltb N thr (snd (nth i am (0%nat, zero N))) = true /\ contains (nth i ivs (0%nat, 0%nat)) c = true.
Proof. exact @G07_changepoints_supported. Qed.

Theorem C07_any_order_G07_no_interval_left : forall (N : num) (ok : T N -> Prop), swo N ok -> ok (zero N) -> forall (CS : nat -> nat -> nat -> T N) (m n : nat) (thr : T N) (ivs : list (nat * nat)), sbs_table_ok N ok CS m ivs -> ok thr -> ltb N thr (zero N) = false -> (1 <= m)%nat -> (forall s e : nat, In (s, e) ivs -> (s + 2 * m <= e <= n)%nat) -> forall (cpts : list nat) (am : list (nat * T N)), gsbs N CS m thr ivs = Some (cpts, am) -> forall i : nat, (i < length ivs)%nat -> ltb N thr (snd (nth i am (0%nat, zero N))) = true -> exists c : nat, In c cpts /\ contains (nth i ivs (0%nat, 0%nat)) c = true.
Proof. exact @G07_no_interval_left. Qed.

Theorem C07_any_order_G07_threshold_monotone : forall (N : num) (ok : T N -> Prop), swo N ok -> ok (zero N) -> forall (CS : nat -> nat -> nat -> T N) (m n : nat) (thr : T N) (ivs : list (nat * nat)), sbs_table_ok N ok CS m ivs -> ok thr -> ltb N thr (zero N) = false -> (1 <= m)%nat -> (forall s e : nat, In (s, e) ivs -> (s + 2 * m <= e <= n)%nat) -> forall (cpts : list nat) (am : list (nat * T N)), gsbs N CS m thr ivs = Some (cpts, am) -> forall (thr' : T N) (cpts' : list nat) (am' : list (nat * T N)), ok thr' -> ltb N thr' thr = false -> gsbs N CS m thr' ivs = Some (cpts', am') -> incl cpts' cpts.
Proof. exact @G07_threshold_monotone. Qed.

Print Assumptions C07_float_F64_swo.
Print Assumptions C07_float_F64_C07_total.
Print Assumptions C07_float_F64_C07_interval_scores.
Print Assumptions C07_float_F64_C07_changepoints_supported.
Print Assumptions C07_float_F64_C07_no_interval_left.
Print Assumptions C07_float_F64_C07_changepoints_wellformed.
Print Assumptions C07_float_F64_C07_threshold_monotone.
Print Assumptions C07_any_order_G07_interval_scores.
Print Assumptions C07_any_order_G07_changepoints_supported.
Print Assumptions C07_any_order_G07_no_interval_left.
Print Assumptions C07_any_order_G07_threshold_monotone.
