(** C02 -- PELT returns an exact minimiser of the penalised segmentation cost.

    [pelt_code] is the model of run_pelt + get_changepoints as the code stands after
    "fix: PELT delays pruning ..." (pruning decisions wait m-1 iterations).
    [C s e] is the cost of [s,e) summed over columns -- ANY function, which is the
    quantifier "built-in and user-defined costs".  [F] is the unpruned optimal-partitioning
    recursion, proved equal to the minimum over all admissible segmentations
    (F_lower / F_upper). *)
From Coq Require Import ZArith List Lia.
From SK Require Import Lib.Base Model.Pelt Proofs.PeltSpec Proofs.PeltRefine Check.PeltCheck.
Open Scope Z_scope.

From SK Require Import Proofs.ValidCuts.
Definition pelt_code (C : nat -> nat -> Z) (pen : Z) (m n : nat) := pelt C pen m (m - 1) n.
Definition split_ineq (C : nat -> nat -> Z) (m : nat) : Prop :=
  forall s k e, (s + m <= k)%nat -> (k + m <= e)%nat -> C s k + C k e <= C s e.

(** the recursion F is the minimum over all admissible segmentations *)
Theorem C02_F_is_lower_bound : forall C pen m, (1 <= m)%nat ->
  forall T cpts, Adm m cpts T -> F C pen m T <= pencost C pen cpts T.
Proof. exact F_lower. Qed.
Print Assumptions C02_F_is_lower_bound.

Theorem C02_F_is_attained : forall C pen m, (1 <= m)%nat ->
  forall T, (m <= T)%nat -> exists cpts, Adm m cpts T /\ pencost C pen cpts T = F C pen m T.
Proof. exact F_upper. Qed.
Print Assumptions C02_F_is_attained.

(** the returned changepoints form an admissible segmentation (any cost) *)
Theorem C02_changepoints_admissible : forall C pen m n, (1 <= m)%nat -> (2 * m <= n)%nat ->
  Adm m (snd (pelt_code C pen m n)) n.
Proof. intros; apply pelt_adm; assumption. Qed.
Print Assumptions C02_changepoints_admissible.

(** the final score is the penalised cost of exactly the returned segmentation (any cost) *)
Theorem C02_final_score_is_cost_of_output : forall C pen m n, (1 <= m)%nat -> (2 * m <= n)%nat ->
  nth (n - 1) (fst (pelt_code C pen m n)) 0 = pencost C pen (snd (pelt_code C pen m n)) n.
Proof. intros; apply pelt_final_is_pencost; assumption. Qed.
Print Assumptions C02_final_score_is_cost_of_output.

(** every prefix score is the optimal penalised cost of that prefix *)
Theorem C02_prefix_scores_optimal : forall C pen m n, (1 <= m)%nat -> (2 * m <= n)%nat -> 0 <= pen ->
  split_ineq C m ->
  forall t, (m <= t <= n)%nat -> nth (t - 1) (fst (pelt_code C pen m n)) 0 = F C pen m t.
Proof. intros C pen m n Hm Hn Hp Hs. apply pelt_scores_optimal; auto. lia. Qed.
Print Assumptions C02_prefix_scores_optimal.

(** the returned changepoints minimise the penalised cost over ALL admissible segmentations *)
Theorem C02_output_is_minimiser : forall C pen m n, (1 <= m)%nat -> (2 * m <= n)%nat -> 0 <= pen ->
  split_ineq C m ->
  forall c, Adm m c n -> pencost C pen (snd (pelt_code C pen m n)) n <= pencost C pen c n.
Proof. intros C pen m n Hm Hn Hp Hs. apply pelt_optimal; auto. lia. Qed.
Print Assumptions C02_output_is_minimiser.

(** the originally pinned code (pruning applied at once) violates the property for m >= 2 *)
Theorem C02_immediate_pruning_refuted :
  exists (C : nat -> nat -> Z) (pen : Z) (m n : nat),
    (1 <= m)%nat /\ (2 * m <= n)%nat /\ 0 <= pen /\ split_ineq C m /\
    nth (n - 1) (fst (pelt C pen m 0 n)) 0 <> F C pen m n.
Proof. exact pelt_immediate_pruning_refuted. Qed.
Print Assumptions C02_immediate_pruning_refuted.

(** the checker applied to the implementation's own output is sound *)
Theorem C02_checker_sound : forall c, (1 <= pc_m c)%nat -> (pc_m c <= pc_n c)%nat ->
  pelt_spec_ok c = true ->
  let C := tab2 (pc_tab c) in
  Adm (pc_m c) (pc_cpts c) (pc_n c)
  /\ pencost C (pc_pen c) (pc_cpts c) (pc_n c) = F C (pc_pen c) (pc_m c) (pc_n c)
  /\ (forall c', Adm (pc_m c) c' (pc_n c) ->
        pencost C (pc_pen c) (pc_cpts c) (pc_n c) <= pencost C (pc_pen c) c' (pc_n c)).
Proof. exact pelt_spec_ok_sound. Qed.
Print Assumptions C02_checker_sound.

(** ---- added: statements re-derived from the lemma files by tools/append_props.py ---- *)
Theorem C02_only_valid_cuts_matter : forall (C1 C2 : nat -> nat -> Z) (pen : Z) (m n : nat), (1 <= m)%nat -> (2 * m <= n)%nat -> (forall s e : nat, (s + m <= e)%nat -> (e <= n)%nat -> C1 s e = C2 s e) -> pelt C1 pen m (m - 1) n = pelt C2 pen m (m - 1) n.
Proof. exact @pelt_ext_valid. Qed.

Print Assumptions C02_only_valid_cuts_matter.
