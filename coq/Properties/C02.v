(** C02 -- PELT returns an exact minimiser of the penalised segmentation cost.

    [pelt_code] is the model of run_pelt + get_changepoints as the code stands after
    "fix: PELT delays pruning ..." (pruning decisions wait m-1 iterations).
    [C s e] is the cost of [s,e) summed over columns -- ANY function, which is the
    quantifier "built-in and user-defined costs".  [F] is the unpruned optimal-partitioning
    recursion, proved equal to the minimum over all admissible segmentations
    (F_lower / F_upper). *)
From Coq Require Import ZArith List Lia.
From SK Require Import Lib.Base Model.Pelt Proofs.PeltSpec Proofs.PeltRefine Check.PeltCheck.
Open Scope Z_scope.

From SK Require Import Proofs.ValidCuts.
From Coq Require Import Reals.
From SK Require Import Gen.KernelsR Proofs.RealLib Proofs.CostKernels Model.PeltR Proofs.PeltReal Model.Generic Proofs.GenericZ Proofs.GenericR.
Close Scope R_scope.
Open Scope Z_scope.
Definition pelt_code (C : nat -> nat -> Z) (pen : Z) (m n : nat) := pelt C pen m (m - 1) n.
Definition split_ineq (C : nat -> nat -> Z) (m : nat) : Prop :=
  forall s k e, (s + m <= k)%nat -> (k + m <= e)%nat -> C s k + C k e <= C s e.

(** the recursion F is the minimum over all admissible segmentations *)
Theorem C02_F_is_lower_bound : forall C pen m, (1 <= m)%nat ->
  forall T cpts, Adm m cpts T -> F C pen m T <= pencost C pen cpts T.
Proof. exact F_lower. Qed.
Print Assumptions C02_F_is_lower_bound.

Theorem C02_F_is_attained : forall C pen m, (1 <= m)%nat ->
  forall T, (m <= T)%nat -> exists cpts, Adm m cpts T /\ pencost C pen cpts T = F C pen m T.
Proof. exact F_upper. Qed.
Print Assumptions C02_F_is_attained.

(** the returned changepoints form an admissible segmentation (any cost) *)
Theorem C02_changepoints_admissible : forall C pen m n, (1 <= m)%nat -> (2 * m <= n)%nat ->
  Adm m (snd (pelt_code C pen m n)) n.
Proof. intros; apply pelt_adm; assumption. Qed.
Print Assumptions C02_changepoints_admissible.

(** the final score is the penalised cost of exactly the returned segmentation (any cost) *)
Theorem C02_final_score_is_cost_of_output : forall C pen m n, (1 <= m)%nat -> (2 * m <= n)%nat ->
  nth (n - 1) (fst (pelt_code C pen m n)) 0 = pencost C pen (snd (pelt_code C pen m n)) n.
Proof. intros; apply pelt_final_is_pencost; assumption. Qed.
Print Assumptions C02_final_score_is_cost_of_output.

(** every prefix score is the optimal penalised cost of that prefix *)
Theorem C02_prefix_scores_optimal : forall C pen m n, (1 <= m)%nat -> (2 * m <= n)%nat -> 0 <= pen ->
  split_ineq C m ->
  forall t, (m <= t <= n)%nat -> nth (t - 1) (fst (pelt_code C pen m n)) 0 = F C pen m t.
Proof. intros C pen m n Hm Hn Hp Hs. apply pelt_scores_optimal; auto. lia. Qed.
Print Assumptions C02_prefix_scores_optimal.

(** the returned changepoints minimise the penalised cost over ALL admissible segmentations *)
Theorem C02_output_is_minimiser : forall C pen m n, (1 <= m)%nat -> (2 * m <= n)%nat -> 0 <= pen ->
  split_ineq C m ->
  forall c, Adm m c n -> pencost C pen (snd (pelt_code C pen m n)) n <= pencost C pen c n.
Proof. intros C pen m n Hm Hn Hp Hs. apply pelt_optimal; auto. lia. Qed.
Print Assumptions C02_output_is_minimiser.

(** the originally pinned code (pruning applied at once) violates the property for m >= 2 *)
Theorem C02_immediate_pruning_refuted :
  exists (C : nat -> nat -> Z) (pen : Z) (m n : nat),
    (1 <= m)%nat /\ (2 * m <= n)%nat /\ 0 <= pen /\ split_ineq C m /\
    nth (n - 1) (fst (pelt C pen m 0 n)) 0 <> F C pen m n.
Proof. exact pelt_immediate_pruning_refuted. Qed.
Print Assumptions C02_immediate_pruning_refuted.

(** the checker applied to the implementation's own output is sound *)
Theorem C02_checker_sound : forall c, (1 <= pc_m c)%nat -> (pc_m c <= pc_n c)%nat ->
  pelt_spec_ok c = true ->
  let C := tab2 (pc_tab c) in
  Adm (pc_m c) (pc_cpts c) (pc_n c)
  /\ pencost C (pc_pen c) (pc_cpts c) (pc_n c) = F C (pc_pen c) (pc_m c) (pc_n c)
  /\ (forall c', Adm (pc_m c) c' (pc_n c) ->
        pencost C (pc_pen c) (pc_cpts c) (pc_n c) <= pencost C (pc_pen c) c' (pc_n c)).
Proof. exact pelt_spec_ok_sound. Qed.
Print Assumptions C02_checker_sound.

(** ---- added: statements re-derived from the lemma files by tools/append_props.py ---- *)
Theorem C02_only_valid_cuts_matter : forall (C1 C2 : nat -> nat -> Z) (pen : Z) (m n : nat), (1 <= m)%nat -> (2 * m <= n)%nat -> (forall s e : nat, (s + m <= e)%nat -> (e <= n)%nat -> C1 s e = C2 s e) -> pelt C1 pen m (m - 1) n = pelt C2 pen m (m - 1) n.
Proof. exact @pelt_ext_valid. Qed.

Print Assumptions C02_only_valid_cuts_matter.

(* the statements below are over the real numbers *)
Open Scope R_scope.
(** ---- added: statements re-derived from the lemma files by tools/append_props.py ---- *)
Theorem C02_generic_loop_at_Z_is_the_model : forall (C : nat -> nat -> T Zn) (pen : T Zn) (m d n : nat), gpelt Zn C pen m d n = pelt C pen m d n.
Proof. exact @gpelt_Z. Qed.

Theorem C02_generic_loop_at_R_is_the_real_model : forall (C : nat -> nat -> T Rn) (pen : T Rn) (m d n : nat), gpelt Rn C pen m d n = peltR C pen m d n.
Proof. exact @gpelt_R. Qed.

Theorem C02_real_model_extends_integer_model : forall (C : nat -> nat -> Z) (pen : Z) (m d n : nat), peltR (fun s e : nat => IZR (C s e)) (IZR pen) m d n = (map IZR (fst (pelt C pen m d n)), snd (pelt C pen m d n)).
Proof. exact @peltR_of_Z. Qed.

Theorem C02_real_costs_changepoints_admissible : forall (C : nat -> nat -> R) (pen : R) (m delay n : nat), (1 <= m)%nat -> (2 * m <= n)%nat -> Adm m (snd (peltR C pen m delay n)) n.
Proof. exact @peltR_adm. Qed.

Theorem C02_real_costs_final_score_is_cost_of_output : forall (C : nat -> nat -> R) (pen : R) (m delay n : nat), (1 <= m)%nat -> (2 * m <= n)%nat -> nth (n - 1) (fst (peltR C pen m delay n)) 0 = pencostR C pen (snd (peltR C pen m delay n)) n.
Proof. exact @peltR_final_is_pencost. Qed.

Theorem C02_real_costs_prefix_scores_optimal : forall (C : nat -> nat -> R) (pen : R) (m delay n : nat), (1 <= m)%nat -> (2 * m <= n)%nat -> 0 <= pen -> (m <= delay + 1)%nat -> (forall s k e : nat, (s + m <= k)%nat -> (k + m <= e)%nat -> (e <= n)%nat -> C s k + C k e <= C s e) -> forall t : nat, (m <= t <= n)%nat -> nth (t - 1) (fst (peltR C pen m delay n)) 0 = FR C pen m t.
Proof. exact @peltR_scores_optimal_bounded. Qed.

Theorem C02_real_costs_output_is_minimiser : forall (C : nat -> nat -> R) (pen : R) (m delay n : nat), (1 <= m)%nat -> (2 * m <= n)%nat -> 0 <= pen -> (m <= delay + 1)%nat -> (forall s k e : nat, (s + m <= k)%nat -> (k + m <= e)%nat -> (e <= n)%nat -> C s k + C k e <= C s e) -> forall c : list nat, Adm m c n -> pencostR C pen (snd (peltR C pen m delay n)) n <= pencostR C pen c n.
Proof. exact @peltR_optimal_bounded. Qed.

Theorem C02_builtin_l2_cost_end_to_end : forall (xs : list R) (pen : R) (m : nat), (1 <= m)%nat -> (2 * m <= length xs)%nat -> 0 <= pen -> let n := length xs in let cpts := snd (peltR (l2_cost_optim_R (prefix xs) (prefix (sq xs))) pen m (m - 1) n) in Adm m cpts n /\ (forall c : list nat, Adm m c n -> pencostR (fun s e : nat => rss (slice s e xs)) pen cpts n <= pencostR (fun s e : nat => rss (slice s e xs)) pen c n).
Proof. exact @pelt_l2_end_to_end_rss. Qed.

Theorem C02_builtin_l2_cost_final_score : forall (xs : list R) (pen : R) (m : nat), (1 <= m)%nat -> (2 * m <= length xs)%nat -> 0 <= pen -> let n := length xs in let out := peltR (l2_cost_optim_R (prefix xs) (prefix (sq xs))) pen m (m - 1) n in nth (n - 1) (fst out) 0 = pencostR (fun s e : nat => rss (slice s e xs)) pen (snd out) n.
Proof. exact @pelt_l2_final_score_rss. Qed.

Theorem C02_builtin_l2_cost_multicolumn_end_to_end : forall (xss : list (list R)) (pen : R) (m n : nat), (1 <= m)%nat -> (2 * m <= n)%nat -> 0 <= pen -> (forall xs : list R, In xs xss -> length xs = n) -> let cpts := snd (peltR (l2_multi xss) pen m (m - 1) n) in Adm m cpts n /\ (forall c : list nat, Adm m c n -> pencostR (rss_multi xss) pen cpts n <= pencostR (rss_multi xss) pen c n).
Proof. exact @pelt_l2_multicolumn_end_to_end_rss. Qed.

Theorem C02_builtin_gaussian_cost_end_to_end : forall (xs : list R) (pen : R) (m : nat), (1 <= m)%nat -> (2 * m <= length xs)%nat -> 0 <= pen -> var_above_floor xs m -> let n := length xs in let cpts := snd (peltR (gaussian_var_cost_optim_R (prefix xs) (prefix (sq xs))) pen m (m - 1) n) in let nll := fun s e : nat => nll2 (meanR (slice s e xs)) (varR (slice s e xs)) (slice s e xs) in Adm m cpts n /\ (forall c : list nat, Adm m c n -> pencostR nll pen cpts n <= pencostR nll pen c n).
Proof. exact @pelt_gvar_end_to_end_nll. Qed.

Theorem C02_generic_loop_l2_optimal : forall (xs : list R) (pen : R) (m : nat), (1 <= m)%nat -> (2 * m <= length xs)%nat -> 0 <= pen -> let n := length xs in let P1 := prefix xs in let P2 := prefix (sq xs) in let cpts := snd (gpelt Rn (l2_cost_optim_R P1 P2) pen m (m - 1) n) in Adm m cpts n /\ (forall c : list nat, Adm m c n -> pencostR (l2_cost_optim_R P1 P2) pen cpts n <= pencostR (l2_cost_optim_R P1 P2) pen c n).
Proof. exact @generic_pelt_l2_optimal. Qed.

Print Assumptions C02_generic_loop_at_Z_is_the_model.
Print Assumptions C02_generic_loop_at_R_is_the_real_model.
Print Assumptions C02_real_model_extends_integer_model.
Print Assumptions C02_real_costs_changepoints_admissible.
Print Assumptions C02_real_costs_final_score_is_cost_of_output.
Print Assumptions C02_real_costs_prefix_scores_optimal.
Print Assumptions C02_real_costs_output_is_minimiser.
Print Assumptions C02_builtin_l2_cost_end_to_end.
Print Assumptions C02_builtin_l2_cost_final_score.
Print Assumptions C02_builtin_l2_cost_multicolumn_end_to_end.
Print Assumptions C02_builtin_gaussian_cost_end_to_end.
Print Assumptions C02_generic_loop_l2_optimal.
