(** C11 -- outputs do not depend on how the same numbers are passed in.

    Model/Containers.v is container-blind BY CONSTRUCTION: these theorems are deliberately
    immediate.  Their content is the correspondence run: the real detectors and scorers are run
    on every representation of the same values and must agree with the reference representation
    (whose behaviour is tied to the algorithm models by C02-C09). *)
From Coq Require Import ZArith List.
From SK Require Import Model.Containers.
Import ListNotations.

Theorem C11_same_values_same_result : forall (out : Type) (algo : list (list Z) -> out) x1 x2,
  i_values x1 = i_values x2 -> run out algo x1 = run out algo x2.
Proof. intros out algo x1 x2 H. unfold run, norm. rewrite H. reflexivity. Qed.

Theorem C11_dense_output_carries_own_index : forall (out : Type) (algo : list (list Z) -> out) x,
  fst (run_dense out algo x) = index_of x /\ snd (run_dense out algo x) = run out algo x.
Proof. intros; split; reflexivity. Qed.

Theorem C11_dense_values_container_blind : forall (out : Type) (algo : list (list Z) -> out) x1 x2,
  i_values x1 = i_values x2 -> snd (run_dense out algo x1) = snd (run_dense out algo x2).
Proof. intros out algo x1 x2 H. unfold run_dense, norm. cbn [snd]. rewrite H. reflexivity. Qed.

Theorem C11_array_index_is_default_range : forall x, i_cont x = Array2D \/ i_cont x = Array1D -> index_of x = Range0.
Proof. intros x [H|H]; unfold index_of; rewrite H; reflexivity. Qed.

Print Assumptions C11_same_values_same_result.
Print Assumptions C11_dense_output_carries_own_index.
Print Assumptions C11_dense_values_container_blind.
Print Assumptions C11_array_index_is_default_range.
