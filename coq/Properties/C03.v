(** C03 -- CAPA / MVCAPA anomalies maximise the total penalised saving.

    [capa_code] is the model of run_base_capa + get_anomalies + the _predict
    post-processing as the code stands after the "fix:" commits (point anomalies reported
    as [t,t+1), optimal start taken from the pruned start list, alpha charged once,
    pruning decisions delayed by m-1 iterations, point anomalies allowed in the first m-1
    samples).  [Sc s e] / [Sp t] are the per-column savings -- ANY functions, which is the
    quantifier "built-in and user-defined savings". *)
From Coq Require Import ZArith List Lia.
From SK Require Import Lib.Base Model.Capa Proofs.CapaSpec Proofs.CapaDP Proofs.Penalise Check.CapaCheck.
Open Scope Z_scope.

From SK Require Import Proofs.ValidCuts.
From Coq Require Import Reals.
From SK Require Import Gen.KernelsR Proofs.RealLib Proofs.ScoreKernels.
From SK Require Import Model.PeltR Model.CapaR Proofs.CapaReal.
Close Scope R_scope.
Open Scope Z_scope.
Definition capa_code Sc Sp ac bc ap bp m M n := capa Sc Sp ac bc ap bp m M (m - 1) n.

Section C03.
Variables (Sc : nat -> nat -> list Z) (Sp : nat -> list Z) (ac : Z) (bc : list Z) (ap : Z) (bp : list Z).
Variables (m M n : nat).
Hypothesis Hm : (2 <= m)%nat.
Hypothesis HM : (m <= M)%nat.

Notation PC := (Pc Sc ac bc).
Notation PP := (Pp Sp ap bp).

(** hypotheses of the property: p >= 1 columns, non-negative per-component penalties,
    non-negative savings that are sub-additive under splitting (column by column) *)
Definition penalties_ok : Prop :=
  (1 <= length bc)%nat /\ (1 <= length bp)%nat /\ 0 <= ac /\ 0 <= ap /\
  (forall b, In b bc -> 0 <= b) /\ (forall b, In b bp -> 0 <= b).
Definition savings_ok : Prop :=
  (forall s e, length (Sc s e) = length bc) /\ (forall t, length (Sp t) = length bp) /\
  (forall s e x, In x (Sc s e) -> 0 <= x) /\ (forall t x, In x (Sp t) -> 0 <= x).
Definition subadditive : Prop :=
  forall s k e j, (s + m <= k)%nat -> (k + m <= e)%nat -> (e <= s + M)%nat -> (j < length bc)%nat ->
    nthZ (Sc s e) j <= nthZ (Sc s k) j + nthZ (Sc k e) j.

Lemma Hsub_from_columns : penalties_ok -> savings_ok -> subadditive ->
  forall s k e, (s + m <= k)%nat -> (k + m <= e)%nat -> (e <= s + M)%nat ->
    PC s e <= PC s k + (ac + sumZ bc) + PC k e.
Proof.
  intros (Hb1 & _ & _ & _ & Hbc & _) (Hl & _ & Hnn & _) Hsa s k e H1 H2 H3.
  unfold Pc. apply penalise_subadditive; auto.
  - intros x Hx. eapply Hnn; eauto.
  - intros x Hx. eapply Hnn; eauto.
  - intros x Hx. eapply Hnn; eauto.
Qed.

Variables (scores : list Z) (c p : list (nat * nat)).
Hypothesis Hrun : capa_code Sc Sp ac bc ap bp m M n = (scores, c, p).

(** (1) the cumulative score at every time is the optimum for that prefix, where the
        optimum is taken w.r.t. the TRUE best-subset penalised saving [Pbest] *)
Theorem C03_scores_are_prefix_optima : penalties_ok -> savings_ok -> subadditive ->
  forall t, (t < n)%nat ->
    nthZ scores t = G (fun s e => Pbest (Sc s e) ac bc) (fun t => Pbest (Sp t) ap bp) m M (S t).
Proof.
  intros Hp Hs Hsa t Ht.
  rewrite <- G_penalise_eq_Pbest; try tauto.
  - eapply capa_scores_optimal_min_delay; eauto. apply Hsub_from_columns; auto.
  - destruct Hp; tauto. - destruct Hp; tauto. - destruct Hp; tauto. - destruct Hp; tauto.
  - destruct Hs; tauto. - destruct Hs; tauto.
  - destruct Hp as (_&_&_&_&H&_); exact H. - destruct Hp as (_&_&_&_&_&H); exact H.
  - destruct Hs as (_&_&H&_); exact H. - destruct Hs as (_&_&_&H); exact H.
Qed.

(** (2) the reported anomalies are a valid anomaly set (any savings) *)
Theorem C03_output_valid :
  Valid m M (map to_anom (capa_predict false c p)) n.
Proof. eapply capa_wellformed; eauto. Qed.

(** (3) re-evaluating the reported anomalies gives exactly the final score (any savings) *)
Theorem C03_reevaluation_gives_final_score :
  value PC PP (map to_anom (capa_predict false c p)) = nthZ (0 :: scores) n.
Proof. eapply capa_value_is_final_score; eauto. Qed.

(** (4) the reported anomalies maximise the total penalised saving over ALL valid sets *)
Theorem C03_output_is_maximiser : penalties_ok -> savings_ok -> subadditive ->
  forall l, Valid m M l n ->
    value PC PP l <= value PC PP (map to_anom (capa_predict false c p)).
Proof.
  intros Hp Hs Hsa. eapply capa_optimal; eauto; [lia|]. apply Hsub_from_columns; auto.
Qed.

(** (5) scores are non-negative and non-decreasing (any savings) *)
Theorem C03_scores_nonneg_monotone :
  (forall t, (t < n)%nat -> 0 <= nthZ scores t) /\
  (forall t, (S t < n)%nat -> nthZ scores t <= nthZ scores (S t)).
Proof. split; [eapply capa_scores_nonneg|eapply capa_scores_monotone]; eauto. Qed.

(** (6) ignore_point_anomalies drops exactly the point anomalies *)
Theorem C03_ignore_points :
  capa_predict true c p = filter (fun se => negb (is_point se)) (capa_predict false c p).
Proof. eapply capa_ignore_points; eauto. Qed.
End C03.

(** the penalised saving computed by the code is the best over non-empty component sets *)
Theorem C03_Pbest_is_best_subset : forall sav alpha betas, length betas = length sav -> (1 <= length sav)%nat ->
  (forall J, subset_ok (length sav) J -> subset_value sav alpha betas J <= Pbest sav alpha betas) /\
  (exists J, subset_ok (length sav) J /\ subset_value sav alpha betas J = Pbest sav alpha betas).
Proof. intros; split; [intros; apply Pbest_upper; auto|apply Pbest_attained; auto]. Qed.

Theorem C03_penalise_vs_best_subset : forall sav alpha betas, length betas = length sav -> (1 <= length sav)%nat ->
  (forall b, In b betas -> 0 <= b) -> (forall x, In x sav -> 0 <= x) ->
  Pbest sav alpha betas <= penalise sav alpha betas <= Z.max (Pbest sav alpha betas) (- alpha).
Proof. exact penalise_spec. Qed.

(** G is the maximum over all valid anomaly sets *)
Theorem C03_G_is_upper_bound : forall pc pp m M, (1 <= m)%nat ->
  forall T l, Valid m M l T -> value pc pp l <= G pc pp m M T.
Proof. exact G_upper. Qed.
Theorem C03_G_is_attained : forall pc pp m M, (1 <= m)%nat ->
  forall T, exists l, Valid m M l T /\ value pc pp l = G pc pp m M T.
Proof. exact G_attained. Qed.

(** the originally pinned immediate pruning violates the property *)
Theorem C03_immediate_pruning_refuted :
  exists Sc Sp ac bc ap bp m M n, (2 <= m <= M)%nat /\
    (forall s k e, (s + m <= k)%nat -> (k + m <= e)%nat -> (e <= s + M)%nat ->
        Pc Sc ac bc s e <= Pc Sc ac bc s k + (ac + sumZ bc) + Pc Sc ac bc k e) /\
    exists t scores c p, (t < n)%nat /\ capa Sc Sp ac bc ap bp m M 0 n = (scores, c, p) /\
      nthZ scores t <> G (Pc Sc ac bc) (Pp Sp ap bp) m M (S t).
Proof. exact capa_immediate_pruning_refuted. Qed.

Theorem C03_checker_sound : forall c, (1 <= cc_m c)%nat -> capa_wf_ok c = true ->
  nthZ (0 :: cc_scores c) (cc_n c) = G (cc_PC c) (cc_PP c) (cc_m c) (cc_M c) (cc_n c) ->
  Valid (cc_m c) (cc_M c) (map to_anom (cc_anoms c)) (cc_n c)
  /\ forall l, Valid (cc_m c) (cc_M c) l (cc_n c) ->
       value (cc_PC c) (cc_PP c) l <= value (cc_PC c) (cc_PP c) (map to_anom (cc_anoms c)).
Proof. exact capa_check_sound. Qed.

Print Assumptions C03_scores_are_prefix_optima.
Print Assumptions C03_output_valid.
Print Assumptions C03_reevaluation_gives_final_score.
Print Assumptions C03_output_is_maximiser.
Print Assumptions C03_scores_nonneg_monotone.
Print Assumptions C03_ignore_points.
Print Assumptions C03_Pbest_is_best_subset.
Print Assumptions C03_penalise_vs_best_subset.
Print Assumptions C03_G_is_upper_bound.
Print Assumptions C03_G_is_attained.
Print Assumptions C03_immediate_pruning_refuted.
Print Assumptions C03_checker_sound.

(** ---- added: statements re-derived from the lemma files by tools/append_props.py ---- *)
Theorem C03_only_valid_cuts_matter : forall (Sc1 Sc2 : nat -> nat -> list Z) (Sp1 Sp2 : nat -> list Z) (ac : Z) (bc : list Z) (ap : Z) (bp : list Z) (m M delay n : nat), (1 <= m)%nat -> (m <= M)%nat -> (forall s e : nat, (s + m <= e)%nat -> (e <= s + M)%nat -> (e <= n)%nat -> Sc1 s e = Sc2 s e) -> (forall t : nat, (t < n)%nat -> Sp1 t = Sp2 t) -> capa Sc1 Sp1 ac bc ap bp m M delay n = capa Sc2 Sp2 ac bc ap bp m M delay n.
Proof. exact @capa_ext_valid_maxlen. Qed.

Print Assumptions C03_only_valid_cuts_matter.

(* the statements below are over the real numbers *)
Open Scope R_scope.
(** ---- added: statements re-derived from the lemma files by tools/append_props.py ---- *)
Theorem C03_builtin_l2_saving_nonneg : forall (S1 : nat -> R) (s e : nat), (s < e)%nat -> 0 <= l2_saving_R S1 s e.
Proof. exact @l2_saving_nonneg. Qed.

Theorem C03_builtin_l2_saving_subadditive : forall (S1 : nat -> R) (s k e : nat), (s < k)%nat -> (k < e)%nat -> l2_saving_R S1 s e <= l2_saving_R S1 s k + l2_saving_R S1 k e.
Proof. exact @l2_saving_subadditive. Qed.

Theorem C03_cost_derived_savings_subadditive : forall (Cf Co : nat -> nat -> R) (s k e : nat), Cf s e = Cf s k + Cf k e -> Co s k + Co k e <= Co s e -> saving Cf Co s e <= saving Cf Co s k + saving Cf Co k e.
Proof. exact @saving_subadditive_of_parts. Qed.

Print Assumptions C03_builtin_l2_saving_nonneg.
Print Assumptions C03_builtin_l2_saving_subadditive.
Print Assumptions C03_cost_derived_savings_subadditive.

(** ---- added: statements re-derived from the lemma files by tools/append_props.py ---- *)
Theorem C03_real_savings_scores_are_prefix_optima : forall (Sc : nat -> nat -> list R) (Sp : nat -> list R) (ac : R) (bc : list R) (ap : R) (bp : list R) (m M n : nat), (2 <= m)%nat -> (m <= M)%nat -> forall (scores : list R) (c p : list (nat * nat)), capaR_code Sc Sp ac bc ap bp m M n = (scores, c, p) -> penalties_okR ac bc ap bp -> savings_okR Sc Sp bc bp -> subadditiveR Sc bc m M -> forall t : nat, (t < n)%nat -> nthR scores t = GR (fun s e : nat => PbestR (Sc s e) ac bc) (fun t0 : nat => PbestR (Sp t0) ap bp) m M (S t).
Proof. exact @capaR_scores_are_prefix_optima. Qed.

Theorem C03_real_savings_output_valid : forall (Sc : nat -> nat -> list R) (Sp : nat -> list R) (ac : R) (bc : list R) (ap : R) (bp : list R) (m M n : nat), (2 <= m)%nat -> (m <= M)%nat -> forall (scores : list R) (c p : list (nat * nat)), capaR_code Sc Sp ac bc ap bp m M n = (scores, c, p) -> Valid m M (map to_anom (capa_predict false c p)) n.
Proof. exact @capaR_output_valid. Qed.

Theorem C03_real_savings_reevaluation_gives_final_score : forall (Sc : nat -> nat -> list R) (Sp : nat -> list R) (ac : R) (bc : list R) (ap : R) (bp : list R) (m M n : nat), (2 <= m)%nat -> (m <= M)%nat -> forall (scores : list R) (c p : list (nat * nat)), capaR_code Sc Sp ac bc ap bp m M n = (scores, c, p) -> totalR (PcR Sc ac bc) (PpR Sp ap bp) (map to_anom (capa_predict false c p)) = nthR (0 :: scores) n.
Proof. exact @capaR_reevaluation_gives_final_score. Qed.

Theorem C03_real_savings_output_is_maximiser : forall (Sc : nat -> nat -> list R) (Sp : nat -> list R) (ac : R) (bc : list R) (ap : R) (bp : list R) (m M n : nat), (2 <= m)%nat -> (m <= M)%nat -> forall (scores : list R) (c p : list (nat * nat)), capaR_code Sc Sp ac bc ap bp m M n = (scores, c, p) -> penalties_okR ac bc ap bp -> savings_okR Sc Sp bc bp -> subadditiveR Sc bc m M -> forall l : list anom, Valid m M l n -> totalR (PcR Sc ac bc) (PpR Sp ap bp) l <= totalR (PcR Sc ac bc) (PpR Sp ap bp) (map to_anom (capa_predict false c p)).
Proof. exact @capaR_output_is_maximiser. Qed.

Theorem C03_real_savings_scores_nonneg_monotone : forall (Sc : nat -> nat -> list R) (Sp : nat -> list R) (ac : R) (bc : list R) (ap : R) (bp : list R) (m M n : nat), (2 <= m)%nat -> (m <= M)%nat -> forall (scores : list R) (c p : list (nat * nat)), capaR_code Sc Sp ac bc ap bp m M n = (scores, c, p) -> (forall t : nat, (t < n)%nat -> 0 <= nthR scores t) /\ (forall t : nat, (S t < n)%nat -> nthR scores t <= nthR scores (S t)).
Proof. exact @capaR_scores_nonneg_monotone. Qed.

Theorem C03_real_savings_ignore_points : forall (Sc : nat -> nat -> list R) (Sp : nat -> list R) (ac : R) (bc : list R) (ap : R) (bp : list R) (m M n : nat) (scores : list R) (c p : list (nat * nat)), capaR_code Sc Sp ac bc ap bp m M n = (scores, c, p) -> capa_predict true c p = filter (fun se : nat * nat => negb (is_point se)) (capa_predict false c p).
Proof. exact @capaR_ignore_point_anomalies. Qed.

Theorem C03_real_savings_Pbest_is_best_subset : forall (sav : list R) (alpha : R) (betas : list R), length betas = length sav -> (1 <= length sav)%nat -> (forall J : list nat, subset_ok (length sav) J -> subset_valueR sav alpha betas J <= PbestR sav alpha betas) /\ (exists J : list nat, subset_ok (length sav) J /\ subset_valueR sav alpha betas J = PbestR sav alpha betas).
Proof. exact @PbestR_is_best_subset. Qed.

Theorem C03_real_savings_penalise_vs_best_subset : forall (sav : list R) (alpha : R) (betas : list R), length betas = length sav -> (1 <= length sav)%nat -> (forall b : R, In b betas -> 0 <= b) -> (forall x : R, In x sav -> 0 <= x) -> penaliseR sav alpha betas = (if all_tinyR betas then PbestR sav alpha betas else if all_equalR betas then Rmax (PbestR sav alpha betas) (- alpha) else PbestR sav alpha betas).
Proof. exact @penaliseR_eq_Pbest. Qed.

Theorem C03_real_model_extends_integer_model : forall (Sc : nat -> nat -> list Z) (Sp : nat -> list Z) (ac : Z) (bc : list Z) (ap : Z) (bp : list Z) (m M d n : nat) (scores : list Z) (c p : list (nat * nat)), capa Sc Sp ac bc ap bp m M d n = (scores, c, p) -> capaR (fun s e : nat => map IZR (Sc s e)) (fun t : nat => map IZR (Sp t)) (IZR ac) (map IZR bc) (IZR ap) (map IZR bp) m M d n = (map IZR scores, c, p).
Proof. exact @capaR_of_Z. Qed.

Theorem C03_builtin_l2_saving_end_to_end : forall (xss : list (list R)) (ac : R) (bc : list R) (ap : R) (bp : list R) (m M n : nat) (scores : list R) (c p : list (nat * nat)), (2 <= m)%nat -> (m <= M)%nat -> (1 <= length xss)%nat -> length bc = length xss -> length bp = length xss -> 0 <= ac -> 0 <= ap -> (forall b : R, In b bc -> 0 <= b) -> (forall b : R, In b bp -> 0 <= b) -> capaR (l2Sc xss) (l2Sp xss) ac bc ap bp m M (m - 1) n = (scores, c, p) -> let PC := PcR (l2Sc xss) ac bc in let PP := PpR (l2Sp xss) ap bp in let out := map to_anom (capa_predict false c p) in Valid m M out n /\ totalR PC PP out = nthR (0 :: scores) n /\ (forall l : list anom, Valid m M l n -> totalR PC PP l <= totalR PC PP out) /\ (forall t : nat, (t < n)%nat -> nthR scores t = GR (fun s e : nat => PbestR (l2Sc xss s e) ac bc) (fun t0 : nat => PbestR (l2Sp xss t0) ap bp) m M (S t)).
Proof. exact @capa_l2_end_to_end. Qed.

Print Assumptions C03_real_savings_scores_are_prefix_optima.
Print Assumptions C03_real_savings_output_valid.
Print Assumptions C03_real_savings_reevaluation_gives_final_score.
Print Assumptions C03_real_savings_output_is_maximiser.
Print Assumptions C03_real_savings_scores_nonneg_monotone.
Print Assumptions C03_real_savings_ignore_points.
Print Assumptions C03_real_savings_Pbest_is_best_subset.
Print Assumptions C03_real_savings_penalise_vs_best_subset.
Print Assumptions C03_real_model_extends_integer_model.
Print Assumptions C03_builtin_l2_saving_end_to_end.
