(** C17 -- StatThresholdAnomaliser flags exactly the out-of-range segments.

    Model/Anomaliser.v mirrors the code: dense segment labels of the wrapped detector
    (Convert.cd_s2d), groupby label, statistic per group, one interval per flagged group.
    The statistic is ANY function of the rows handed to it; the theorems hold for every
    statistic, bounds, n >= 1 and valid changepoint list. *)
From Coq Require Import ZArith List Arith Bool.
From SK Require Import Lib.Base Model.Convert Proofs.ConvertProofs Model.Anomaliser Proofs.AnomaliserProofs.
Import ListNotations.
From SK Require Import Check.AnomaliserCheck Proofs.CheckerSoundness.


Theorem C17_groups_are_the_segments : forall (n : nat) (cpts : list nat), cpts_ok n cpts -> (0 < n)%nat -> groups (cd_s2d n cpts) = map seg_rows (segments n cpts).
Proof. exact @groups_of_dense. Qed.

Theorem C17_output_is_exactly_the_flagged_segments : forall (stat : list nat -> Z) (lo hi : Z) (n : nat) (cpts : list nat), cpts_ok n cpts -> (0 < n)%nat -> anomalise stat lo hi n cpts = anomalise_spec stat lo hi n cpts.
Proof. exact @anomalise_is_spec. Qed.

Theorem C17_reported_iff_flagged_segment : forall (stat : list nat -> Z) (lo hi : Z) (n : nat) (cpts : list nat) (s e : nat), cpts_ok n cpts -> (0 < n)%nat -> In (s, e) (anomalise stat lo hi n cpts) <-> In (s, e) (segments n cpts) /\ flagged stat lo hi (seq s (e - s)) = true.
Proof. exact @anomalise_iff. Qed.

Theorem C17_segments_partition_the_data : forall (n : nat) (cpts : list nat), cpts_ok n cpts -> (0 < n)%nat -> ivs_ok n (segments n cpts) /\ (forall i : nat, (i < n)%nat -> exists s e : nat, In (s, e) (segments n cpts) /\ (s <= i < e)%nat).
Proof. exact @segments_partition. Qed.

Theorem C17_segments_touch : forall (n : nat) (cpts : list nat) (k s1 e1 s2 e2 : nat), nth_error (segments n cpts) k = Some (s1, e1) -> nth_error (segments n cpts) (S k) = Some (s2, e2) -> e1 = s2.
Proof. exact @segments_consecutive. Qed.

Theorem C17_number_of_segments : forall (n : nat) (cpts : list nat), length (segments n cpts) = S (length cpts).
Proof. exact @segments_length. Qed.

Theorem C17_output_wellformed : forall (stat : list nat -> Z) (lo hi : Z) (n : nat) (cpts : list nat), cpts_ok n cpts -> (0 < n)%nat -> ivs_ok n (anomalise stat lo hi n cpts).
Proof. exact @anomalise_ok. Qed.

Theorem C17_adjacent_segments_not_merged : forall (stat : list nat -> Z) (lo hi : Z) (n : nat) (cpts : list nat), cpts_ok n cpts -> (0 < n)%nat -> forall s e : nat, In (s, e) (anomalise stat lo hi n cpts) -> In (s, e) (segments n cpts).
Proof. exact @anomalise_not_merged. Qed.

Theorem C17_all_flagged : forall (stat : list nat -> Z) (lo hi : Z) (n : nat) (cpts : list nat), cpts_ok n cpts -> (0 < n)%nat -> (forall se : nat * nat, In se (segments n cpts) -> flagged stat lo hi (seg_rows se) = true) -> anomalise stat lo hi n cpts = segments n cpts.
Proof. exact @anomalise_all_flagged. Qed.

Theorem C17_count : forall (stat : list nat -> Z) (lo hi : Z) (n : nat) (cpts : list nat), cpts_ok n cpts -> (0 < n)%nat -> length (anomalise stat lo hi n cpts) = length (filter (fun se : nat * nat => flagged stat lo hi (seg_rows se)) (segments n cpts)).
Proof. exact @anomalise_length. Qed.

Theorem C17_adjacent_example : anomalise ex_stat 3 10 6 [2%nat; 4%nat] = [(0%nat, 2%nat); (2%nat, 4%nat)].
Proof. exact @anomalise_adjacent_example. Qed.

Theorem C17_checker_sound : forall c : an_case, an_case_ok c = true -> let st := stat_eval (ac_stat c) (ac_xs c) in ac_impl c = anomalise st (ac_lo c) (ac_hi c) (ac_n c) (ac_cpts c) /\ anomalise st (ac_lo c) (ac_hi c) (ac_n c) (ac_cpts c) = anomalise_spec st (ac_lo c) (ac_hi c) (ac_n c) (ac_cpts c).
Proof. exact @an_case_ok_sound. Qed.

Print Assumptions C17_groups_are_the_segments.
Print Assumptions C17_output_is_exactly_the_flagged_segments.
Print Assumptions C17_reported_iff_flagged_segment.
Print Assumptions C17_segments_partition_the_data.
Print Assumptions C17_segments_touch.
Print Assumptions C17_number_of_segments.
Print Assumptions C17_output_wellformed.
Print Assumptions C17_adjacent_segments_not_merged.
Print Assumptions C17_all_flagged.
Print Assumptions C17_count.
Print Assumptions C17_adjacent_example.
Print Assumptions C17_checker_sound.
