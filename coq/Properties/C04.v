(** C04 -- detections are well-formed and respect the configured length limits.

    Concrete well-formedness clauses for every detector model, for ARBITRARY score functions
    (no split / sub-additivity hypothesis): they follow from the structure of the search loops
    alone.  Statements: Proofs/WellFormed.v (unpacking pelt_adm, capa_wellformed, sbs_wellformed,
    cbs_wellformed, the moving-window range lemmas and affected_ok into the clauses of the
    property). *)
From Coq Require Import ZArith List Arith Sorted.
From SK Require Import Lib.Base Model.Pelt Model.Capa Model.Sbs Model.Cbs Model.Mw Proofs.PeltSpec Proofs.CapaSpec.
From SK Require Import Properties.C02 Proofs.WellFormed.
Import ListNotations.


Theorem C04_admissible_means : forall (m : nat) (cpts : list nat) (n : nat), (1 <= m)%nat -> Adm m cpts n <-> (m <= n)%nat /\ (forall c : nat, In c cpts -> (m <= c)%nat /\ (c + m <= n)%nat) /\ (forall i : nat, (S i < length cpts)%nat -> (nthN cpts i + m <= nthN cpts (S i))%nat).
Proof. exact @adm_iff_concrete. Qed.

Theorem C04_pelt_changepoints : forall (C : nat -> nat -> Z) (pen : Z) (m n : nat), (1 <= m)%nat -> (2 * m <= n)%nat -> let cpts := snd (pelt_code C pen m n) in StronglySorted lt cpts /\ (forall c : nat, In c cpts -> (1 <= c <= n - 1)%nat /\ (m <= c)%nat /\ (c + m <= n)%nat) /\ (forall i : nat, (S i < length cpts)%nat -> (nthN cpts i + m <= nthN cpts (S i))%nat).
Proof. exact @pelt_wellformed. Qed.

Theorem C04_pelt_changepoints_any_delay : forall (C : nat -> nat -> Z) (pen : Z) (m delay n : nat), (1 <= m)%nat -> (2 * m <= n)%nat -> let cpts := snd (pelt C pen m delay n) in StronglySorted lt cpts /\ (forall c : nat, In c cpts -> (1 <= c <= n - 1)%nat /\ (m <= c)%nat /\ (c + m <= n)%nat) /\ (forall i : nat, (S i < length cpts)%nat -> (nthN cpts i + m <= nthN cpts (S i))%nat).
Proof. exact @pelt_wellformed_any_delay. Qed.

Theorem C04_pelt_count : forall (C : nat -> nat -> Z) (pen : Z) (m n : nat), (1 <= m)%nat -> (2 * m <= n)%nat -> ((length (snd (pelt_code C pen m n)) + 1) * m <= n)%nat.
Proof. exact @pelt_count. Qed.

Theorem C04_sbs_changepoints : forall (CS : nat -> nat -> nat -> Z) (m : nat) (thr : Z) (n : nat) (ivs : list (nat * nat)) (cpts : list nat) (am : list (nat * Z)), 0 <= thr -> (1 <= m)%nat -> (forall s e : nat, In (s, e) ivs -> (s + 2 * m <= e <= n)%nat) -> sbs CS m thr ivs = Some (cpts, am) -> StronglySorted lt cpts /\ (forall c : nat, In c cpts -> (1 <= c <= n - 1)%nat /\ (m <= c)%nat /\ (c + m <= n)%nat) /\ (forall i : nat, (S i < length cpts)%nat -> (nthN cpts i + m <= nthN cpts (S i))%nat).
Proof. exact @sbs_output_wellformed. Qed.

Theorem C04_moving_window_changepoints : forall (CS : nat -> nat -> nat -> Z) (b n : nat) (thr : Z) (mdi : nat), 0 <= thr -> (1 <= b)%nat -> let cpts := snd (mw CS b n thr mdi) in StronglySorted lt cpts /\ (forall c : nat, In c cpts -> (b <= c)%nat /\ (c + b <= n)%nat /\ (1 <= c <= n - 1)%nat).
Proof. exact @mw_output_wellformed. Qed.

Theorem C04_capa_anomalies : forall (Sc : nat -> nat -> list Z) (Sp : nat -> list Z) (ac : Z) (bc : list Z) (ap : Z) (bp : list Z) (m M delay n : nat), (2 <= m)%nat -> (m <= M)%nat -> forall (scores : list Z) (c p : list (nat * nat)), capa Sc Sp ac bc ap bp m M delay n = (scores, c, p) -> ((forall s e : nat, In (s, e) (capa_predict false c p) -> (s < e <= n)%nat /\ (e = S s \/ (s + m <= e <= s + M)%nat)) /\ (forall i : nat, (S i < length (capa_predict false c p))%nat -> (snd (nth i (capa_predict false c p) (0, 0)) <= fst (nth (S i) (capa_predict false c p) (0, 0)))%nat)) /\ ((forall s e : nat, In (s, e) (capa_predict true c p) -> (s < e <= n)%nat /\ (e = S s \/ (s + m <= e <= s + M)%nat)) /\ (forall i : nat, (S i < length (capa_predict true c p))%nat -> (snd (nth i (capa_predict true c p) (0, 0)) <= fst (nth (S i) (capa_predict true c p) (0, 0)))%nat)) /\ (forall s e : nat, In (s, e) (capa_predict true c p) -> e <> S s /\ (s + m <= e <= s + M)%nat /\ In (s, e) (capa_predict false c p)).
Proof. exact @capa_output_wellformed. Qed.

Theorem C04_capa_anomalies_disjoint : forall (Sc : nat -> nat -> list Z) (Sp : nat -> list Z) (ac : Z) (bc : list Z) (ap : Z) (bp : list Z) (m M delay n : nat), (2 <= m)%nat -> (m <= M)%nat -> forall (scores : list Z) (c p : list (nat * nat)), capa Sc Sp ac bc ap bp m M delay n = (scores, c, p) -> StronglySorted iv_before (capa_predict false c p) /\ StronglySorted iv_before (capa_predict true c p).
Proof. exact @capa_output_pairwise_disjoint. Qed.

Theorem C04_anomaly_sets : forall (m M : nat) (ivs : list (nat * nat)) (n : nat), (2 <= m)%nat -> (m <= M)%nat -> Valid m M (map to_anom ivs) n -> (forall s e : nat, In (s, e) ivs -> (s < e <= n)%nat /\ (e = S s \/ (s + m <= e <= s + M)%nat)) /\ (forall i : nat, (S i < length ivs)%nat -> (snd (nth i ivs (0, 0)) <= fst (nth (S i) ivs (0, 0)))%nat).
Proof. exact @valid_concrete. Qed.

Theorem C04_cbs_anomalies : forall (LS : nat -> nat -> nat -> nat -> Z) (m : nat) (thr : Z) (n : nat) (ivs anoms : list (nat * nat)) (am : list (nat * nat * Z)), 0 <= thr -> (1 <= m)%nat -> (forall s e : nat, In (s, e) ivs -> (e <= n)%nat) -> cbs LS m thr ivs = Some (anoms, am) -> (forall i : nat, (S i < length anoms)%nat -> (fst (CbsProofs.nthP anoms i) < fst (CbsProofs.nthP anoms (S i)))%nat /\ (snd (CbsProofs.nthP anoms i) <= fst (CbsProofs.nthP anoms (S i)))%nat) /\ (forall a z : nat, In (a, z) anoms -> (a < z)%nat /\ (1 <= a)%nat /\ (z <= n - 1)%nat /\ (z < n)%nat /\ (a + m <= z)%nat) /\ StronglySorted iv_before anoms.
Proof. exact @cbs_output_wellformed. Qed.

Theorem C04_mvcapa_columns : forall (sav : list Z) (alpha : Z) (betas : list Z), length betas = length sav -> (1 <= length sav)%nat -> affected sav alpha betas <> [] /\ NoDup (affected sav alpha betas) /\ (forall j : nat, In j (affected sav alpha betas) -> (j < length sav)%nat).
Proof. exact @affected_columns_wellformed. Qed.

Theorem C04_mvcapa_columns_count : forall (sav : list Z) (alpha : Z) (betas : list Z), length betas = length sav -> (1 <= length sav)%nat -> (1 <= length (affected sav alpha betas) <= length sav)%nat.
Proof. exact @affected_columns_count. Qed.

Theorem C04_event_labels : forall K i : nat, (i < K)%nat -> nth i (event_labels K) 0%nat = S i.
Proof. exact @event_labels_spec. Qed.

Theorem C04_range_index : forall K i : nat, (i < K)%nat -> nth i (range_index K) 0%nat = i.
Proof. exact @range_index_spec. Qed.

Theorem C04_checker_changepoints_sound : forall (m n : nat) (cpts : list nat), (1 <= m)%nat -> cpts_wf_b m n cpts = true -> StronglySorted lt cpts /\ (forall c : nat, In c cpts -> (1 <= c <= n - 1)%nat /\ (m <= c)%nat /\ (c + m <= n)%nat) /\ (forall i : nat, (S i < length cpts)%nat -> (nthN cpts i + m <= nthN cpts (S i))%nat).
Proof. exact @cpts_wf_b_sound. Qed.

Theorem C04_checker_intervals_sound : forall (m M n : nat) (ivs : list (nat * nat)), intervals_wf_b m M n ivs = true -> intervals_wf m M n ivs.
Proof. exact @intervals_wf_b_sound. Qed.

Print Assumptions C04_admissible_means.
Print Assumptions C04_pelt_changepoints.
Print Assumptions C04_pelt_changepoints_any_delay.
Print Assumptions C04_pelt_count.
Print Assumptions C04_sbs_changepoints.
Print Assumptions C04_moving_window_changepoints.
Print Assumptions C04_capa_anomalies.
Print Assumptions C04_capa_anomalies_disjoint.
Print Assumptions C04_anomaly_sets.
Print Assumptions C04_cbs_anomalies.
Print Assumptions C04_mvcapa_columns.
Print Assumptions C04_mvcapa_columns_count.
Print Assumptions C04_event_labels.
Print Assumptions C04_range_index.
Print Assumptions C04_checker_changepoints_sound.
Print Assumptions C04_checker_intervals_sound.
