(** C09, transferred: the specification theorems of the greedy search for ANY number type whose comparison is a strict weak order on the
    values read (Proofs/GenericSpec.v, derived from Properties/C09.v through an order embedding into Z), and their instances for binary64
    scores without NaN (Proofs/GenericInstances.v: PrimFloat.ltb is a strict weak order on non-NaN floats, infinities included). *)
From Coq Require Import ZArith List Bool Arith Floats.
From SK Require Import Lib.Base Model.Mw Model.Sbs Model.Capa Model.Cbs Model.Generic Model.GenericF.
From SK Require Import Proofs.GenericRank Proofs.GenericOrder Proofs.GenericSpec Proofs.GenericInstances.
Import ListNotations.


Theorem C09_float_F64_swo : swo F64 nonnan.
Proof. exact @F64_swo. Qed.

Theorem C09_float_F64_C09_interval_scores : forall (LS : nat -> nat -> nat -> nat -> float) (m s e a z : nat) (v : T F64), (forall a0 z0 : nat, In (a0, z0) (anomaly_intervals s e m) -> nonnan (LS s a0 z0 e)) -> gbest_inner F64 LS m (s, e) = Some (a, z, v) -> In (a, z) (anomaly_intervals s e m) /\ v = LS s a z e /\ (forall a' z' : nat, In (a', z') (anomaly_intervals s e m) -> (v <? LS s a' z' e)%float = false).
Proof. exact @F64_C09_interval_scores. Qed.

Theorem C09_float_F64_C09_wellformed : forall (LS : nat -> nat -> nat -> nat -> float) (m : nat) (thr : float) (n : nat) (ivs anoms : list (nat * nat)) (am : list (nat * nat * T F64)), F64_cbs_table_ok LS m ivs -> nonnan thr -> (thr <? 0)%float = false -> (1 <= m)%nat -> (forall s e : nat, In (s, e) ivs -> (e <= n)%nat) -> gcbs F64 LS m thr ivs = Some (anoms, am) -> (forall i : nat, (S i < length anoms)%nat -> (fst (CbsProofs.nthP anoms i) < fst (CbsProofs.nthP anoms (S i)))%nat /\ (snd (CbsProofs.nthP anoms i) <= fst (CbsProofs.nthP anoms (S i)))%nat) /\ (forall a z : nat, In (a, z) anoms -> (1 <= a)%nat /\ (a + m <= z <= n - 1)%nat) /\ am = map (ginner_or_zero F64 LS m) ivs /\ (exists picks : list (nat * nat), ggreedy_anoms F64 (length ivs) thr ivs (map fst am) (map snd am) = Some picks /\ anoms = sort_pairs picks /\ Permutation.Permutation anoms picks).
Proof. exact @F64_C09_wellformed. Qed.

Theorem C09_float_F64_C09_total : forall (LS : nat -> nat -> nat -> nat -> float) (m : nat) (thr : float) (ivs : list (nat * nat)), F64_cbs_table_ok LS m ivs -> nonnan thr -> (thr <? 0)%float = false -> exists r : list (nat * nat) * list (nat * nat * T F64), gcbs F64 LS m thr ivs = Some r.
Proof. exact @F64_C09_total. Qed.

Theorem C09_float_F64_C09_anomalies_supported_and_complete : forall (LS : nat -> nat -> nat -> nat -> float) (m : nat) (thr : float) (ivs anoms : list (nat * nat)) (am : list (nat * nat * T F64)), F64_cbs_table_ok LS m ivs -> nonnan thr -> (thr <? 0)%float = false -> gcbs F64 LS m thr ivs = Some (anoms, am) -> (forall ab : nat * nat, In ab anoms -> exists i : nat, (i < length ivs)%nat /\ fst (nth i am (0%nat, 0%nat, 0%float)) = ab /\ (thr <? snd (nth i am (0%nat, 0%nat, 0)))%float = true) /\ (forall i : nat, (i < length ivs)%nat -> (thr <? snd (nth i am (0%nat, 0%nat, 0)))%float = true -> exists ab : nat * nat, In ab anoms /\ overlaps ab (CbsProofs.nthP ivs i) = true).
Proof. exact @F64_C09_anomalies_supported_and_complete. Qed.

Theorem C09_any_order_G09_interval_scores : forall (N : num) (ok : T N -> Prop), swo N ok -> ok (zero N) -> forall (LS : nat -> nat -> nat -> nat -> T N) (m s e a z : nat) (v : T N), (forall a0 z0 : nat, In (a0, z0) (anomaly_intervals s e m) -> ok (LS s a0 z0 e)) -> gbest_inner N LS m (s, e) = Some (a, z, v) -> In (a, z) (anomaly_intervals s e m) /\ v = LS s a z e /\ (forall a' z' : nat, In (a', z') (anomaly_intervals s e m) -> ltb N v (LS s a' z' e) = false).
Proof. exact @G09_interval_scores. Qed.

Theorem C09_any_order_G09_wellformed : forall (N : num) (ok : T N -> Prop), swo N ok -> ok (zero N) -> forall (LS : nat -> nat -> nat -> nat -> T N) (m : nat) (thr : T N) (n : nat) (ivs anoms : list (nat * nat)) (am : list (nat * nat * T N)), cbs_table_ok N ok LS m ivs -> ok thr -> ltb N thr (zero N) = false -> (1 <= m)%nat -> (forall s e : nat, In (s, e) ivs -> (e <= n)%nat) -> gcbs N LS m thr ivs = Some (anoms, am) -> (forall i : nat, (S i < length anoms)%nat -> (fst (CbsProofs.nthP anoms i) < fst (CbsProofs.nthP anoms (S i)))%nat /\ (snd (CbsProofs.nthP anoms i) <= fst (CbsProofs.nthP anoms (S i)))%nat) /\ (forall a z : nat, In (a, z) anoms -> (1 <= a)%nat /\ (a + m <= z <= n - 1)%nat) /\ am = map (ginner_or_zero N LS m) ivs /\ (exists picks : list (nat * nat), ggreedy_anoms N (length ivs) thr ivs (map fst am) (map snd am) = Some picks /\ anoms = sort_pairs picks /\ Permutation.Permutation anoms picks).
Proof. exact @G09_wellformed. Qed.

Print Assumptions C09_float_F64_swo.
Print Assumptions C09_float_F64_C09_interval_scores.
Print Assumptions C09_float_F64_C09_wellformed.
Print Assumptions C09_float_F64_C09_total.
Print Assumptions C09_float_F64_C09_anomalies_supported_and_complete.
Print Assumptions C09_any_order_G09_interval_scores.
Print Assumptions C09_any_order_G09_wellformed.
