(** C08 for binary64 scores and ANY threshold: instances of Proofs/AnyThreshold.v (Proofs/AnyThresholdF.v). Termination and well-formedness need no
    hypothesis on the numbers at all (NaN included); the specification clauses need non-NaN scores and threshold. *)
From Coq Require Import ZArith List Bool Arith Sorted Floats.
From SK Require Import Lib.Base Model.Mw Model.Sbs Model.Capa Model.Cbs Model.Generic Model.GenericF Model.GenericAny.
From SK Require Import Proofs.GenericRank Proofs.GenericOrder Proofs.GenericSpec Proofs.GenericInstances Proofs.AnyThreshold Proofs.AnyThresholdF.
Import ListNotations.


Theorem C08_float_any_threshold_in_range : forall (CS : nat -> nat -> nat -> T F64) (b n : nat) (thr : T F64) (mdi c : nat), (2 * b <= n)%nat -> In c (snd (gmw_any F64 CS b n thr mdi)) -> (b <= c)%nat /\ (c + b <= n)%nat.
Proof. exact @F64_mw_any_in_range. Qed.

Theorem C08_float_any_threshold_sorted : forall (CS : nat -> nat -> nat -> T F64) (b n : nat) (thr : T F64) (mdi : nat), StronglySorted lt (snd (gmw_any F64 CS b n thr mdi)).
Proof. exact @F64_mw_any_sorted. Qed.

Print Assumptions C08_float_any_threshold_in_range.
Print Assumptions C08_float_any_threshold_sorted.
