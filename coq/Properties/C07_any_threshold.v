(** C07 for ANY threshold: the code as it stands after the fixes D25 (removed candidates can never be selected again; the moving window looks at admissible
    positions only) is modelled in Model/GenericAny.v (a removed candidate is [None]).  It coincides with the model of Properties/C07.v for a non-negative
    threshold, and for EVERY threshold -- a tuned threshold can be slightly negative -- it terminates with a well-formed result. *)
From Coq Require Import ZArith List Bool Arith Sorted.
From SK Require Import Lib.Base Model.Mw Model.Sbs Model.Capa Model.Cbs Model.Generic Model.GenericAny.
From SK Require Import Proofs.GenericRank Proofs.GenericOrder Proofs.GenericSpec Proofs.AnyThreshold.
Import ListNotations.


Theorem C07_any_threshold_total : forall (N : num) (CS : nat -> nat -> nat -> T N) (m : nat) (thr : T N) (n : nat) (ivs : list (nat * nat)), (1 <= m)%nat -> (forall s e : nat, In (s, e) ivs -> (s + 2 * m <= e <= n)%nat) -> exists r : list nat * list (nat * T N), gsbs_any N CS m thr ivs = Some r.
Proof. exact @gsbs_any_total. Qed.

Theorem C07_any_threshold_wellformed : forall (N : num) (CS : nat -> nat -> nat -> T N) (m : nat) (thr : T N) (n : nat) (ivs : list (nat * nat)) (cpts : list nat) (am : list (nat * T N)), (1 <= m)%nat -> (forall s e : nat, In (s, e) ivs -> (s + 2 * m <= e <= n)%nat) -> gsbs_any N CS m thr ivs = Some (cpts, am) -> (forall i : nat, (S i < length cpts)%nat -> (nthN cpts i < nthN cpts (S i))%nat /\ (nthN cpts i + m <= nthN cpts (S i))%nat) /\ (forall c : nat, In c cpts -> (m <= c)%nat /\ (c + m <= n)%nat) /\ (forall c : nat, In c cpts -> exists i : nat, (i < length ivs)%nat /\ fst (nth i am (0%nat, zero N)) = c /\ contains (nth i ivs (0%nat, 0%nat)) c = true) /\ gamocs N CS m ivs = Some am.
Proof. exact @gsbs_any_wellformed. Qed.

Theorem C07_any_threshold_agrees_with_model : forall (CS : nat -> nat -> nat -> T Zn) (m : nat) (thr : Z) (ivs : list (nat * nat)), 0 <= thr -> gsbs_any Zn CS m thr ivs = sbs CS m thr ivs.
Proof. exact @sbs_any_Z. Qed.

Theorem C07_any_threshold_agrees_for_any_order : forall (N : num) (ok : T N -> Prop), swo N ok -> ok (zero N) -> forall thr : T N, ok thr -> ltb N thr (zero N) = false -> forall (CS : nat -> nat -> nat -> T N) (m : nat) (ivs : list (nat * nat)), sbs_table_ok N ok CS m ivs -> gsbs_any N CS m thr ivs = gsbs N CS m thr ivs.
Proof. exact @gsbs_any_agrees. Qed.

Theorem C07_any_threshold_changepoints_supported : forall (N : num) (ok : T N -> Prop), swo N ok -> forall (CS : nat -> nat -> nat -> T N) (m n : nat) (thr : T N) (ivs : list (nat * nat)), sbs_table_ok N ok CS m ivs -> ok thr -> (1 <= m)%nat -> (forall s e : nat, In (s, e) ivs -> (s + 2 * m <= e <= n)%nat) -> forall (cpts : list nat) (am : list (nat * T N)), gsbs_any N CS m thr ivs = Some (cpts, am) -> forall c : nat, In c cpts -> exists i : nat, (i < length ivs)%nat /\ fst (nth i am (0%nat, zero N)) = c /\ ltb N thr (snd (nth i am (0%nat, zero N))) = true /\ contains (nth i ivs (0%nat, 0%nat)) c = true.
Proof. exact @gsbs_any_supported. Qed.

Theorem C07_any_threshold_no_interval_left : forall (N : num) (ok : T N -> Prop), swo N ok -> forall (CS : nat -> nat -> nat -> T N) (m n : nat) (thr : T N) (ivs : list (nat * nat)), sbs_table_ok N ok CS m ivs -> ok thr -> (1 <= m)%nat -> (forall s e : nat, In (s, e) ivs -> (s + 2 * m <= e <= n)%nat) -> forall (cpts : list nat) (am : list (nat * T N)), gsbs_any N CS m thr ivs = Some (cpts, am) -> forall i : nat, (i < length ivs)%nat -> ltb N thr (snd (nth i am (0%nat, zero N))) = true -> exists c : nat, In c cpts /\ contains (nth i ivs (0%nat, 0%nat)) c = true.
Proof. exact @gsbs_any_no_interval_left. Qed.

Theorem C07_any_threshold_monotone : forall (N : num) (ok : T N -> Prop), swo N ok -> forall (CS : nat -> nat -> nat -> T N) (m n : nat) (thr : T N) (ivs : list (nat * nat)), sbs_table_ok N ok CS m ivs -> ok thr -> (1 <= m)%nat -> (forall s e : nat, In (s, e) ivs -> (s + 2 * m <= e <= n)%nat) -> forall (cpts : list nat) (am : list (nat * T N)), gsbs_any N CS m thr ivs = Some (cpts, am) -> forall (thr' : T N) (cpts' : list nat) (am' : list (nat * T N)), ok thr' -> ltb N thr' thr = false -> gsbs_any N CS m thr' ivs = Some (cpts', am') -> incl cpts' cpts.
Proof. exact @gsbs_any_threshold_monotone. Qed.

Print Assumptions C07_any_threshold_total.
Print Assumptions C07_any_threshold_wellformed.
Print Assumptions C07_any_threshold_agrees_with_model.
Print Assumptions C07_any_threshold_agrees_for_any_order.
Print Assumptions C07_any_threshold_changepoints_supported.
Print Assumptions C07_any_threshold_no_interval_left.
Print Assumptions C07_any_threshold_monotone.
