(** C09 for ANY threshold: the code as it stands after the fixes D25 (removed candidates can never be selected again; the moving window looks at admissible
    positions only) is modelled in Model/GenericAny.v (a removed candidate is [None]).  It coincides with the model of Properties/C09.v for a non-negative
    threshold, and for EVERY threshold -- a tuned threshold can be slightly negative -- it terminates with a well-formed result. *)
From Coq Require Import ZArith List Bool Arith Sorted.
From SK Require Import Lib.Base Model.Mw Model.Sbs Model.Capa Model.Cbs Model.Generic Model.GenericAny.
From SK Require Import Proofs.GenericRank Proofs.GenericOrder Proofs.GenericSpec Proofs.AnyThreshold.
Import ListNotations.


Theorem C09_any_threshold_total : forall (N : num) (LS : nat -> nat -> nat -> nat -> T N) (m : nat) (thr : T N) (ivs : list (nat * nat)), exists r : list (nat * nat) * list (nat * nat * T N), gcbs_any N LS m thr ivs = Some r.
Proof. exact @gcbs_any_total. Qed.

Theorem C09_any_threshold_wellformed : forall (N : num) (LS : nat -> nat -> nat -> nat -> T N) (m : nat) (thr : T N) (n : nat) (ivs anoms : list (nat * nat)) (am : list (nat * nat * T N)), (1 <= m)%nat -> (forall s e : nat, In (s, e) ivs -> (e <= n)%nat) -> gcbs_any N LS m thr ivs = Some (anoms, am) -> (forall i : nat, (S i < length anoms)%nat -> (fst (CbsProofs.nthP anoms i) < fst (CbsProofs.nthP anoms (S i)))%nat /\ (snd (CbsProofs.nthP anoms i) <= fst (CbsProofs.nthP anoms (S i)))%nat) /\ (forall a z : nat, In (a, z) anoms -> (1 <= a)%nat /\ (a + m <= z <= n - 1)%nat) /\ (forall ab : nat * nat, In ab anoms -> exists i : nat, (i < length ivs)%nat /\ fst (nth i am (0%nat, 0%nat, zero N)) = ab /\ In ab (anomaly_intervals (fst (CbsProofs.nthP ivs i)) (snd (CbsProofs.nthP ivs i)) m)) /\ am = map (ginner_or_zero N LS m) ivs.
Proof. exact @gcbs_any_wellformed. Qed.

Theorem C09_any_threshold_agrees_with_model : forall (LS : nat -> nat -> nat -> nat -> T Zn) (m : nat) (thr : Z) (ivs : list (nat * nat)), 0 <= thr -> (1 <= m)%nat -> gcbs_any Zn LS m thr ivs = cbs LS m thr ivs.
Proof. exact @cbs_any_Z. Qed.

Theorem C09_any_threshold_agrees_for_any_order : forall (N : num) (ok : T N -> Prop), swo N ok -> ok (zero N) -> forall thr : T N, ok thr -> ltb N thr (zero N) = false -> forall (LS : nat -> nat -> nat -> nat -> T N) (m : nat) (ivs : list (nat * nat)), (1 <= m)%nat -> cbs_table_ok N ok LS m ivs -> gcbs_any N LS m thr ivs = gcbs N LS m thr ivs.
Proof. exact @gcbs_any_agrees. Qed.

Theorem C09_any_threshold_supported_and_complete : forall (N : num) (ok : T N -> Prop), swo N ok -> forall (LS : nat -> nat -> nat -> nat -> T N) (m : nat) (thr : T N) (ivs : list (nat * nat)), cbs_table_ok N ok LS m ivs -> ok thr -> (1 <= m)%nat -> forall (anoms : list (nat * nat)) (am : list (nat * nat * T N)), gcbs_any N LS m thr ivs = Some (anoms, am) -> (forall ab : nat * nat, In ab anoms -> exists i : nat, (i < length ivs)%nat /\ fst (nth i am (0%nat, 0%nat, zero N)) = ab /\ gabove N thr (cbs_initial N (nth i am (0%nat, 0%nat, zero N))) = true) /\ (forall i : nat, (i < length ivs)%nat -> gabove N thr (cbs_initial N (nth i am (0%nat, 0%nat, zero N))) = true -> exists ab : nat * nat, In ab anoms /\ overlaps ab (CbsProofs.nthP ivs i) = true).
Proof. exact @gcbs_any_supported_and_complete. Qed.

Print Assumptions C09_any_threshold_total.
Print Assumptions C09_any_threshold_wellformed.
Print Assumptions C09_any_threshold_agrees_with_model.
Print Assumptions C09_any_threshold_agrees_for_any_order.
Print Assumptions C09_any_threshold_supported_and_complete.
