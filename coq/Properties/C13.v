(** C13 -- evaluate either rejects a cuts array or scores exactly the cuts it describes. *)
From Coq Require Import ZArith List.
From SK Require Import Lib.Base Model.Cuts Proofs.CutsProofs.

Theorem C13_accepts_iff_valid : forall (A : Type) (score : list Z -> A) sk n arg r,
  evaluate score sk n arg = Some r <->
  exists rows, arg = IntRows (width_of sk) rows /\ Forall (row_valid sk n) rows /\ r = map score rows.
Proof. exact @evaluate_accepts_iff. Qed.
Print Assumptions C13_accepts_iff_valid.

Theorem C13_never_scores_invalid : forall (A : Type) (score : list Z -> A) sk n w rows r,
  (match sk with Plain _ ms => (1 <= ms)%Z | Local _ => True end) ->
  evaluate score sk n (IntRows w rows) = Some r ->
  forall row, In row rows ->
    (forall x, In x row -> (0 <= x <= n)%Z) /\
    (forall i j, (i < j < length row)%nat -> (nthZ row i < nthZ row j)%Z).
Proof. exact @evaluate_never_scores_invalid. Qed.
Print Assumptions C13_never_scores_invalid.

Theorem C13_rejects_nonint_and_3d : forall (A : Type) (score : list Z -> A) sk n,
  evaluate score sk n NonInt = None /\ evaluate score sk n Dim3 = None.
Proof. exact @evaluate_rejects_nonint_and_3d. Qed.
Print Assumptions C13_rejects_nonint_and_3d.

Theorem C13_rejects_wrong_width : forall (A : Type) (score : list Z -> A) sk n w rows,
  w <> width_of sk -> evaluate score sk n (IntRows w rows) = None.
Proof. exact @evaluate_rejects_wrong_width. Qed.
Print Assumptions C13_rejects_wrong_width.

(** ---- added: statements re-derived from the lemma files by tools/append_props.py ---- *)
Theorem C13_unsigned_differences_accept_a_decreasing_row_refuted : exists w a b min_size : Z, b < a /\ 0 <= b /\ a < 2 ^ w /\ 1 <= min_size <= wrapu w (b - a).
Proof. exact @unsigned_diff_accepts_decreasing_row_refuted. Qed.

Theorem C13_narrow_dtype_position_product_wraps_refuted : exists w n nb : Z, 0 < nb < n /\ n < 2 ^ (w - 1) /\ wraps w (n * nb) <> n * nb.
Proof. exact @narrow_dtype_product_wraps_refuted. Qed.

Theorem C13_int64_holds_every_narrower_value : forall w x : Z, 1 <= w <= 63 -> 0 <= x < 2 ^ w -> wraps 64 x = x.
Proof. exact @int64_holds_every_narrower_value. Qed.

Theorem C13_int64_differences_exact : forall a b : Z, 0 <= a < 2 ^ 62 -> 0 <= b < 2 ^ 62 -> wraps 64 (b - a) = b - a.
Proof. exact @int64_differences_exact. Qed.

Theorem C13_int64_position_products_exact : forall n a : Z, 0 <= a <= n -> n < 2 ^ 31 -> wraps 64 (n * a) = n * a.
Proof. exact @int64_position_products_exact. Qed.

Print Assumptions C13_unsigned_differences_accept_a_decreasing_row_refuted.
Print Assumptions C13_narrow_dtype_position_product_wraps_refuted.
Print Assumptions C13_int64_holds_every_narrower_value.
Print Assumptions C13_int64_differences_exact.
Print Assumptions C13_int64_position_products_exact.
