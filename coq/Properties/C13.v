(** C13 -- evaluate either rejects a cuts array or scores exactly the cuts it describes. *)
From Coq Require Import ZArith List.
From SK Require Import Lib.Base Model.Cuts Proofs.CutsProofs.

Theorem C13_accepts_iff_valid : forall (A : Type) (score : list Z -> A) sk n arg r,
  evaluate score sk n arg = Some r <->
  exists rows, arg = IntRows (width_of sk) rows /\ Forall (row_valid sk n) rows /\ r = map score rows.
Proof. exact @evaluate_accepts_iff. Qed.
Print Assumptions C13_accepts_iff_valid.

Theorem C13_never_scores_invalid : forall (A : Type) (score : list Z -> A) sk n w rows r,
  (match sk with Plain _ ms => (1 <= ms)%Z | Local _ => True end) ->
  evaluate score sk n (IntRows w rows) = Some r ->
  forall row, In row rows ->
    (forall x, In x row -> (0 <= x <= n)%Z) /\
    (forall i j, (i < j < length row)%nat -> (nthZ row i < nthZ row j)%Z).
Proof. exact @evaluate_never_scores_invalid. Qed.
Print Assumptions C13_never_scores_invalid.

Theorem C13_rejects_nonint_and_3d : forall (A : Type) (score : list Z -> A) sk n,
  evaluate score sk n NonInt = None /\ evaluate score sk n Dim3 = None.
Proof. exact @evaluate_rejects_nonint_and_3d. Qed.
Print Assumptions C13_rejects_nonint_and_3d.

Theorem C13_rejects_wrong_width : forall (A : Type) (score : list Z -> A) sk n w rows,
  w <> width_of sk -> evaluate score sk n (IntRows w rows) = None.
Proof. exact @evaluate_rejects_wrong_width. Qed.
Print Assumptions C13_rejects_wrong_width.
