(** C05 -- dense labels and sparse detections describe the same events for any index.

    The converters are modelled on integer POSITIONS only (Model/Convert.v): none of the
    model functions receives the index of X, so "whatever the type or values of X's
    index" holds of the model by construction and any index dependence of the real code
    is a correspondence failure.  Valid sparse outputs include adjacent intervals,
    length-1 intervals and events touching 0 and n. *)
From Coq Require Import List Arith Permutation.
From SK Require Import Lib.Base Model.Convert Proofs.ConvertProofs.
Import ListNotations.
Close Scope Z_scope.
Open Scope nat_scope.

(** change detectors: label = segment number; length n; exact round trip *)
From SK Require Import Check.ConvertCheck Proofs.CheckerSoundness.
Theorem C05_change_dense_label : forall n cpts i, cpts_ok n cpts -> i < n ->
  nth i (cd_s2d n cpts) 0 = length (filter (fun c => c <=? i) cpts).
Proof. exact cd_s2d_label. Qed.
Theorem C05_change_dense_length : forall n cpts, length (cd_s2d n cpts) = n.
Proof. exact cd_s2d_length. Qed.
Theorem C05_change_roundtrip : forall n cpts, cpts_ok n cpts -> cd_d2s (cd_s2d n cpts) = cpts.
Proof. exact cd_roundtrip. Qed.
Theorem C05_change_sparse_of_any_labels : forall labels i,
  In i (cd_d2s labels) <-> 1 <= i < length labels /\ nth i labels 0 <> nth (i - 1) labels 0.
Proof. exact cd_d2s_spec. Qed.

(** collective anomalies: label = number of the covering anomaly, 0 if none; exact round trip,
    including adjacent and length-1 anomalies and anomalies at 0 / n *)
Theorem C05_anomaly_dense_label : forall n ivs i, ivs_ok n ivs -> i < n ->
  (forall k s e, nth_error ivs k = Some (s, e) -> s <= i < e -> nth i (ca_s2d n ivs) 0 = S k) /\
  ((forall s e, In (s, e) ivs -> ~ s <= i < e) -> nth i (ca_s2d n ivs) 0 = 0).
Proof. exact ca_s2d_label. Qed.
Theorem C05_anomaly_dense_length : forall n ivs, length (ca_s2d n ivs) = n.
Proof. exact ca_s2d_length. Qed.
Theorem C05_anomaly_roundtrip : forall n ivs, ivs_ok n ivs -> ca_d2s (ca_s2d n ivs) = ivs.
Proof. exact ca_roundtrip. Qed.
Theorem C05_anomaly_sparse_of_any_labels : forall labels, ivs_ok (length labels) (ca_d2s labels).
Proof. exact ca_d2s_spec. Qed.

(** subset anomalies: per affected column; round trip up to the order of the affected columns *)
Theorem C05_subset_dense_shape : forall n p anoms,
  length (sub_s2d n p anoms) = n /\ forall r, In r (sub_s2d n p anoms) -> length r = p.
Proof. exact sub_s2d_shape. Qed.
Theorem C05_subset_dense_label : forall n p anoms i j, anoms_ok n p anoms -> i < n -> j < p ->
  (forall k s e cols, nth_error anoms k = Some (s, e, cols) -> s <= i < e -> In j cols ->
      nth j (nth i (sub_s2d n p anoms) []) 0 = S k) /\
  ((forall s e cols, In (s, e, cols) anoms -> ~ (s <= i < e /\ In j cols)) ->
      nth j (nth i (sub_s2d n p anoms) []) 0 = 0).
Proof. exact sub_s2d_label. Qed.
Theorem C05_subset_roundtrip : forall n p anoms, anoms_ok n p anoms ->
  sub_d2s p (sub_s2d n p anoms) = map (fun a => (fst a, filter (fun j => memb j (snd a)) (seq 0 p))) anoms.
Proof. exact sub_roundtrip. Qed.
Theorem C05_subset_columns_same_set : forall p cols, NoDup cols -> Forall (fun j => j < p) cols ->
  Permutation (filter (fun j => memb j cols) (seq 0 p)) cols.
Proof. exact cols_filter_permutation. Qed.

(** the originally pinned dense_to_sparse (runs split only where positions jump) fails on adjacent anomalies *)
Theorem C05_adjacent_roundtrip_refuted : exists n ivs, ivs_ok n ivs /\ ca_d2s_pinned (ca_s2d n ivs) <> ivs.
Proof. exact ca_roundtrip_adjacent_refuted. Qed.

Print Assumptions C05_change_dense_label.
Print Assumptions C05_change_dense_length.
Print Assumptions C05_change_roundtrip.
Print Assumptions C05_change_sparse_of_any_labels.
Print Assumptions C05_anomaly_dense_label.
Print Assumptions C05_anomaly_dense_length.
Print Assumptions C05_anomaly_roundtrip.
Print Assumptions C05_anomaly_sparse_of_any_labels.
Print Assumptions C05_subset_dense_shape.
Print Assumptions C05_subset_dense_label.
Print Assumptions C05_subset_roundtrip.
Print Assumptions C05_subset_columns_same_set.
Print Assumptions C05_adjacent_roundtrip_refuted.

(** ---- added: statements re-derived from the lemma files by tools/append_props.py ---- *)
Theorem C05_change_checker_sound : forall (n : nat) (cpts dense back : list nat), cd_case_ok (n, cpts, dense, back) = true -> cd_s2d n cpts = dense /\ cd_d2s dense = back /\ back = cpts.
Proof. exact @cd_case_ok_sound. Qed.

Theorem C05_anomaly_checker_sound : forall (n : nat) (ivs : list (nat * nat)) (dense : list nat) (back : list (nat * nat)), ca_case_ok (n, ivs, dense, back) = true -> ca_s2d n ivs = dense /\ ca_d2s dense = back /\ back = ivs.
Proof. exact @ca_case_ok_sound. Qed.

Theorem C05_subset_checker_sound : forall (n p : nat) (anoms : list anom3) (dense : list (list nat)) (back : list anom3), sub_case_ok (n, p, anoms, dense, back) = true -> sub_s2d n p anoms = dense /\ sub_d2s p dense = map (norm_cols p) back /\ map (norm_cols p) back = map (norm_cols p) anoms.
Proof. exact @sub_case_ok_sound. Qed.

Print Assumptions C05_change_checker_sound.
Print Assumptions C05_anomaly_checker_sound.
Print Assumptions C05_subset_checker_sound.
