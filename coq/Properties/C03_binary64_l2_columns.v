(** C03 END TO END in binary64, CAPA with the L2 saving on SEVERAL columns, every beta negligible (what the CAPA class uses).  `penalise_savings` adds the row of per-column savings with
    `savings.sum(axis=1)`: for fewer than 8 columns NumPy adds sequentially from the left starting from the first element, which IS `gsum` of Model/GenericCapa.v (the left fold).  All
    premises boolean (`cols_length_ok`, `l2_saving_all_trace_ok_cols`, `capa_trace_finite`, `capa_mag_ok`, `sav_agg_mag_ok`, `l2_absmax_ok_cols`).  Objective: the column sum of the L2
    savings minus the penalty (the one of `C03_builtin_l2_saving_end_to_end` for several columns, `PcR (l2Sc ..) alpha (repeat 0 p)`). *)
From Coq Require Import Reals List Bool Arith PrimFloat.
From SK Require Import Lib.Base Model.Capa Model.PeltR Model.CapaR Model.Generic Model.GenericF Model.GenericCapa Proofs.CapaSpec Proofs.CapaReal Proofs.RealLib Gen.KernelsR Proofs.FloatError Proofs.FloatRefine Proofs.GenericCapaWf Check.FloatSavingCheck Proofs.FloatSaving Proofs.CapaFloat Proofs.PeltFloatL2 Proofs.PeltFloatL2Multi Proofs.CapaFloatL2 Proofs.CapaFloatL2Multi.
Import ListNotations.


Theorem C03_binary64_l2_columns_row_sum_is_numpy_order : forall cs : list float, gsum F64 cs = aggF cs.
Proof. exact @gsum_F64_is_aggF. Qed.

Theorem C03_binary64_l2_columns_penalised_saving_shape : forall (sav : list float) (alpha : float) (p : nat), gpenalise F64 F64_tiny sav alpha (repeat 0%float p) = (gsum F64 sav + - alpha)%float.
Proof. exact @penalise_l2_multi_shape. Qed.

Theorem C03_binary64_l2_columns_objective_is_the_real_models : forall (ls : list (list float)) (alpha : R) (p s e : nat), PcR (l2Sc (map (map FR) ls)) alpha (repeat 0 p) s e = sumRl (map (fun l => l2_saving_R (prefix (map FR l)) s e) ls) - alpha.
Proof. exact @l2_multi_pc_is_PcR. Qed.

Theorem C03_binary64_l2_columns_end_to_end : forall (ls : list (list float)) (acf apf Magf Bf : float) (m M n : nat) (scoresF : list float) (c pa : list (nat * nat)), let p := length ls in let z := repeat 0%float p in (2 <= m)%nat -> (m <= M)%nat -> INR n * u53 <= 1 / 100 -> (1 <= p)%nat -> cols_length_ok ls n = true -> l2_saving_all_trace_ok_cols ls = true -> capa_trace_finite F64_tiny (l2ScFM ls) (l2SpFM ls) acf apf z z m M (m - 1) n = true -> capa_mag_ok F64_tiny (l2ScFM ls) (l2SpFM ls) acf apf z z m M (m - 1) n Magf = true -> sav_agg_mag_ok ls n Magf = true -> l2_absmax_ok_cols ls Bf = true -> gcapa F64 F64_tiny (l2ScFM ls) (l2SpFM ls) acf z apf z m M (m - 1) n = (scoresF, c, pa) -> let pc := fun s e : nat => sumRl (map (fun l => l2_saving_R (prefix (map FR l)) s e) ls) - FR acf in let pp := fun t : nat => sumRl (map (fun l => l2_saving_R (prefix (map FR l)) t (S t)) ls) - FR apf in let out := map to_anom (capa_predict false c pa) in let Mag := FR Magf / (1 - u53) in let delta := (42 / 10 * INR n + 5) * u53 * (INR n * FR Bf) ^ 2 in Valid m M out n /\ (forall l' : list anom, Valid m M l' n -> totalR pc pp l' <= totalR pc pp out + 3 * INR n * (INR p * delta + (INR p + 1) * u53 * Mag)).
Proof. exact @capa_F64_l2_multi_end_to_end. Qed.

Theorem C03_binary64_l2_columns_final_score : forall (ls : list (list float)) (acf apf Magf Bf : float) (m M n : nat) (scoresF : list float) (c pa : list (nat * nat)), let p := length ls in let z := repeat 0%float p in (2 <= m)%nat -> (m <= M)%nat -> (1 <= n)%nat -> INR n * u53 <= 1 / 100 -> (1 <= p)%nat -> cols_length_ok ls n = true -> l2_saving_all_trace_ok_cols ls = true -> capa_trace_finite F64_tiny (l2ScFM ls) (l2SpFM ls) acf apf z z m M (m - 1) n = true -> capa_mag_ok F64_tiny (l2ScFM ls) (l2SpFM ls) acf apf z z m M (m - 1) n Magf = true -> sav_agg_mag_ok ls n Magf = true -> l2_absmax_ok_cols ls Bf = true -> gcapa F64 F64_tiny (l2ScFM ls) (l2SpFM ls) acf z apf z m M (m - 1) n = (scoresF, c, pa) -> let pc := fun s e : nat => sumRl (map (fun l => l2_saving_R (prefix (map FR l)) s e) ls) - FR acf in let pp := fun t : nat => sumRl (map (fun l => l2_saving_R (prefix (map FR l)) t (S t)) ls) - FR apf in let out := map to_anom (capa_predict false c pa) in let Mag := FR Magf / (1 - u53) in let delta := (42 / 10 * INR n + 5) * u53 * (INR n * FR Bf) ^ 2 in Rabs (FR (nthV F64 scoresF (n - 1)) - totalR pc pp out) <= INR n * (INR p * delta + (INR p + 1) * u53 * Mag).
Proof. exact @capa_F64_l2_multi_final_score. Qed.

Theorem C03_binary64_l2_columns_one_column_is_the_one_column_run : forall (l : list float) (acf apf : float) (m M n : nat), gcapa F64 F64_tiny (l2ScFM [l]) (l2SpFM [l]) acf (repeat 0%float 1) apf (repeat 0%float 1) m M (m - 1) n = gcapa F64 F64_tiny (l2ScF l) (l2SpF l) acf [0%float] apf [0%float] m M (m - 1) n.
Proof. exact @capa_multi_one_column_run. Qed.

Theorem C03_binary64_l2_columns_example_within_1e9_of_optimal : forall l' : list anom, Valid 2 4 l' 8 -> totalR (fun s e : nat => sumRl (map (fun xs => l2_saving_R (prefix xs) s e) m3_colsR) - 12) (fun t : nat => sumRl (map (fun xs => l2_saving_R (prefix xs) t (S t)) m3_colsR) - 20) l' <= 13069 / 192 + 1 / 1000000000.
Proof. exact @m3_end_to_end_1e9. Qed.

Print Assumptions C03_binary64_l2_columns_row_sum_is_numpy_order.
Print Assumptions C03_binary64_l2_columns_penalised_saving_shape.
Print Assumptions C03_binary64_l2_columns_objective_is_the_real_models.
Print Assumptions C03_binary64_l2_columns_end_to_end.
Print Assumptions C03_binary64_l2_columns_final_score.
Print Assumptions C03_binary64_l2_columns_one_column_is_the_one_column_run.
Print Assumptions C03_binary64_l2_columns_example_within_1e9_of_optimal.
