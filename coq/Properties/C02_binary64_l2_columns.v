(** C02 END TO END in binary64, squared-error cost, SEVERAL columns (fewer than 8: NumPy's `np.sum(costs, axis=1)` then adds the per-column costs sequentially from the left,
    `aggF`; checked bit for bit by the from-data stream with 1..7 columns).  All premises boolean (`cols_length_ok`, `l2_all_trace_ok_cols`, `pelt_trace_finite`, `pelt_mag_ok`,
    `agg_mag_ok`, `l2_absmax_ok_cols`), evaluated by `vm_compute` on every case of that stream.  Objective: the sum over the columns of the residual sums of squares (the one of
    `C02_builtin_l2_cost_end_to_end` for several columns). *)
From Coq Require Import Reals List Bool Arith PrimFloat.
From SK Require Import Lib.Base Model.Pelt Model.PeltR Model.Generic Model.GenericF Proofs.PeltSpec Proofs.PeltReal Proofs.RealLib Proofs.FloatError Proofs.FloatRefine Check.FloatKernelCheck Proofs.PeltFloat Proofs.PeltFloatL2 Proofs.PeltFloatL2Multi.
Import ListNotations.


Theorem C02_binary64_aggregation_error : forall (Magf : float) (delta : R) (cs : list float) (rs : list R), finF Magf = true -> agg_ok Magf cs = true -> close_list delta cs rs -> Rabs (FR (aggF cs) - sumRl rs) <= INR (length cs) * delta + INR (length cs - 1) * u53 * (FR Magf / (1 - u53)).
Proof. exact @agg_error. Qed.

Theorem C02_binary64_l2_columns_end_to_end : forall (ls : list (list float)) (penf Magf Bf : float) (m n : nat), let p := length ls in let Cf := CfM ls in (1 <= m)%nat -> (2 * m <= n)%nat -> INR n * u53 <= 1 / 100 -> (1 <= p)%nat -> cols_length_ok ls n = true -> l2_all_trace_ok_cols ls = true -> pelt_trace_finite Cf penf m (m - 1) n = true -> pelt_mag_ok Cf penf m (m - 1) n Magf = true -> agg_mag_ok ls n Magf = true -> l2_absmax_ok_cols ls Bf = true -> let cpts := snd (gpelt F64 Cf penf m (m - 1) n) in let Ctrue := fun s e : nat => sumRl (map (fun l : list float => rss (slice s e (map FR l))) ls) in let delta := (42 / 10 * INR n + 6) * u53 * (INR n * (INR n + 1) * FR Bf ^ 2) in let Mag := FR Magf / (1 - u53) in Adm m cpts n /\ (forall c : list nat, Adm m c n -> pencostR Ctrue (FR penf) cpts n <= pencostR Ctrue (FR penf) c n + 3 * INR n * (INR p * delta + (INR p + 1) * u53 * Mag)).
Proof. exact @pelt_F64_l2_multi_end_to_end. Qed.

Theorem C02_binary64_l2_columns_final_score : forall (ls : list (list float)) (penf Magf Bf : float) (m n : nat), let p := length ls in let Cf := CfM ls in (1 <= m)%nat -> (2 * m <= n)%nat -> INR n * u53 <= 1 / 100 -> (1 <= p)%nat -> cols_length_ok ls n = true -> l2_all_trace_ok_cols ls = true -> pelt_trace_finite Cf penf m (m - 1) n = true -> pelt_mag_ok Cf penf m (m - 1) n Magf = true -> agg_mag_ok ls n Magf = true -> l2_absmax_ok_cols ls Bf = true -> let out := gpelt F64 Cf penf m (m - 1) n in let Ctrue := fun s e : nat => sumRl (map (fun l : list float => rss (slice s e (map FR l))) ls) in let delta := (42 / 10 * INR n + 6) * u53 * (INR n * (INR n + 1) * FR Bf ^ 2) in let Mag := FR Magf / (1 - u53) in Rabs (FR (nthV F64 (fst out) (n - 1)) - pencostR Ctrue (FR penf) (snd out) n) <= INR n * (INR p * delta + (INR p + 1) * u53 * Mag).
Proof. exact @pelt_F64_l2_multi_final_score. Qed.

Theorem C02_binary64_l2_columns_one_column_is_the_kernel : forall l : list float, CfM [l] = l2_cost_F l.
Proof. exact @CfM_one_column. Qed.

Theorem C02_binary64_l2_columns_example_within_1e9_of_optimal : forall c : list nat, Adm 2 c 8 -> pencostR (rss_multi e3_colsR) 3 [4%nat] 8 <= pencostR (rss_multi e3_colsR) 3 c 8 + 1 / 1000000000.
Proof. exact @e3_end_to_end_1e9. Qed.

Print Assumptions C02_binary64_aggregation_error.
Print Assumptions C02_binary64_l2_columns_end_to_end.
Print Assumptions C02_binary64_l2_columns_final_score.
Print Assumptions C02_binary64_l2_columns_one_column_is_the_kernel.
Print Assumptions C02_binary64_l2_columns_example_within_1e9_of_optimal.
