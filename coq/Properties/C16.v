(** C16 -- MVCAPA's affected columns are the optimal sparse subset for each anomaly.

    Model: Capa.affected (find_affected_components): decreasing argsort of the savings, cumulative
    penalised sum, FIRST argmax, prefix.  Statements are those of Proofs/Penalise.v (A1),
    Proofs/CapaSymmetry.v (column permutation) and Proofs/ConvertProofs.v (dense marking). *)
From Coq Require Import ZArith List Arith Bool Permutation.
From SK Require Import Lib.Base Model.Capa Model.Convert Proofs.Penalise Proofs.CapaSymmetry Proofs.ConvertProofs.
Import ListNotations.


Theorem C16_prefix_of_decreasing_order : forall (sav : list Z) (alpha : Z) (betas : list Z), length betas = length sav -> 1 <= length sav -> exists k : nat, 1 <= k <= length sav /\ affected sav alpha betas = firstn k (argsort_desc sav).
Proof. exact @affected_prefix. Qed.

Theorem C16_columns_valid_distinct_nonempty : forall (sav : list Z) (alpha : Z) (betas : list Z), length betas = length sav -> 1 <= length sav -> subset_ok (length sav) (affected sav alpha betas).
Proof. exact @affected_ok. Qed.

Theorem C16_listed_by_decreasing_saving : forall (sav : list Z) (alpha : Z) (betas : list Z), length betas = length sav -> 1 <= length sav -> forall i i' : nat, i <= i' < length (affected sav alpha betas) -> (nthZ sav (nth i' (affected sav alpha betas) 0%nat) <= nthZ sav (nth i (affected sav alpha betas) 0%nat))%Z.
Proof. exact @affected_decreasing. Qed.

Theorem C16_no_excluded_column_larger : forall (sav : list Z) (alpha : Z) (betas : list Z), length betas = length sav -> 1 <= length sav -> forall j j' : nat, In j (affected sav alpha betas) -> j' < length sav -> ~ In j' (affected sav alpha betas) -> (nthZ sav j' <= nthZ sav j)%Z.
Proof. exact @affected_excluded_not_larger. Qed.

Theorem C16_value_of_reported_subset : forall (sav : list Z) (alpha : Z) (betas : list Z), length betas = length sav -> 1 <= length sav -> subset_value sav alpha betas (affected sav alpha betas) = Pbest sav alpha betas.
Proof. exact @affected_value. Qed.

Theorem C16_reported_subset_is_optimal : forall (sav : list Z) (alpha : Z) (betas : list Z), length betas = length sav -> 1 <= length sav -> subset_value sav alpha betas (affected sav alpha betas) = Pbest sav alpha betas /\ (forall J' : list nat, subset_ok (length sav) J' -> (subset_value sav alpha betas J' <= subset_value sav alpha betas (affected sav alpha betas))%Z).
Proof. exact @affected_optimal. Qed.

Theorem C16_smallest_optimal_size : forall (sav : list Z) (alpha : Z) (betas : list Z), length betas = length sav -> 1 <= length sav -> forall k' : nat, 1 <= k' < length (affected sav alpha betas) -> (subset_value sav alpha betas (firstn k' (argsort_desc sav)) < subset_value sav alpha betas (affected sav alpha betas))%Z.
Proof. exact @affected_smallest_k. Qed.

Theorem C16_argsort_is_permutation : forall sav : list Z, Permutation (argsort_desc sav) (seq 0 (length sav)).
Proof. exact @argsort_desc_perm. Qed.

Theorem C16_argsort_sorted : forall (sav : list Z) (i i' : nat), i <= i' < length sav -> (nthZ sav (nth i' (argsort_desc sav) 0%nat) <= nthZ sav (nth i (argsort_desc sav) 0%nat))%Z.
Proof. exact @argsort_desc_sorted. Qed.

Theorem C16_columns_permute_with_data : forall (p : nat) (sigma : list nat) (sav : list Z), Permutation sigma (seq 0 p) -> length sav = p -> NoDup sav -> forall (alpha : Z) (betas : list Z), map (fun j : nat => nth j sigma 0) (affected (map (fun j : nat => nthZ sav (nth j sigma 0)) (seq 0 p)) alpha betas) = affected sav alpha betas.
Proof. exact @affected_perm. Qed.

Theorem C16_dense_marks_exactly_these_columns : forall (n p : nat) (anoms : list anom3) (i j : nat), anoms_ok n p anoms -> i < n -> j < p -> (forall (k s e : nat) (cols : list nat), nth_error anoms k = Some (s, e, cols) -> s <= i < e -> In j cols -> nth j (nth i (sub_s2d n p anoms) []) 0 = S k) /\ ((forall (s e : nat) (cols : list nat), In (s, e, cols) anoms -> ~ (s <= i < e /\ In j cols)) -> nth j (nth i (sub_s2d n p anoms) []) 0 = 0).
Proof. exact @sub_s2d_label. Qed.

Theorem C16_dense_shape : forall (n p : nat) (anoms : list anom3), length (sub_s2d n p anoms) = n /\ (forall r : list nat, In r (sub_s2d n p anoms) -> length r = p).
Proof. exact @sub_s2d_shape. Qed.

Print Assumptions C16_prefix_of_decreasing_order.
Print Assumptions C16_columns_valid_distinct_nonempty.
Print Assumptions C16_listed_by_decreasing_saving.
Print Assumptions C16_no_excluded_column_larger.
Print Assumptions C16_value_of_reported_subset.
Print Assumptions C16_reported_subset_is_optimal.
Print Assumptions C16_smallest_optimal_size.
Print Assumptions C16_argsort_is_permutation.
Print Assumptions C16_argsort_sorted.
Print Assumptions C16_columns_permute_with_data.
Print Assumptions C16_dense_marks_exactly_these_columns.
Print Assumptions C16_dense_shape.
