(** C16 -- MVCAPA's affected columns are the optimal sparse subset for each anomaly.

    Model: Capa.affected (find_affected_components): decreasing argsort of the savings, cumulative
    penalised sum, FIRST argmax, prefix.  Statements are those of Proofs/Penalise.v (A1),
    Proofs/CapaSymmetry.v (column permutation) and Proofs/ConvertProofs.v (dense marking). *)
From Coq Require Import ZArith List Arith Bool Permutation.
From SK Require Import Lib.Base Model.Capa Model.Convert Proofs.Penalise Proofs.CapaSymmetry Proofs.ConvertProofs.
Import ListNotations.
From SK Require Import Check.AffectedCheck Proofs.CheckerSoundness.


Theorem C16_prefix_of_decreasing_order : forall (sav : list Z) (alpha : Z) (betas : list Z), length betas = length sav -> (1 <= length sav)%nat -> exists k : nat, (1 <= k <= length sav)%nat /\ affected sav alpha betas = firstn k (argsort_desc sav).
Proof. exact @affected_prefix. Qed.

Theorem C16_columns_valid_distinct_nonempty : forall (sav : list Z) (alpha : Z) (betas : list Z), length betas = length sav -> (1 <= length sav)%nat -> subset_ok (length sav) (affected sav alpha betas).
Proof. exact @affected_ok. Qed.

Theorem C16_listed_by_decreasing_saving : forall (sav : list Z) (alpha : Z) (betas : list Z), length betas = length sav -> (1 <= length sav)%nat -> forall i i' : nat, (i <= i' < length (affected sav alpha betas))%nat -> nthZ sav (nth i' (affected sav alpha betas) 0%nat) <= nthZ sav (nth i (affected sav alpha betas) 0%nat).
Proof. exact @affected_decreasing. Qed.

Theorem C16_no_excluded_column_larger : forall (sav : list Z) (alpha : Z) (betas : list Z), length betas = length sav -> (1 <= length sav)%nat -> forall j j' : nat, In j (affected sav alpha betas) -> (j' < length sav)%nat -> ~ In j' (affected sav alpha betas) -> nthZ sav j' <= nthZ sav j.
Proof. exact @affected_excluded_not_larger. Qed.

Theorem C16_value_of_reported_subset : forall (sav : list Z) (alpha : Z) (betas : list Z), length betas = length sav -> (1 <= length sav)%nat -> subset_value sav alpha betas (affected sav alpha betas) = Pbest sav alpha betas.
Proof. exact @affected_value. Qed.

Theorem C16_reported_subset_is_optimal : forall (sav : list Z) (alpha : Z) (betas : list Z), length betas = length sav -> (1 <= length sav)%nat -> subset_value sav alpha betas (affected sav alpha betas) = Pbest sav alpha betas /\ (forall J' : list nat, subset_ok (length sav) J' -> subset_value sav alpha betas J' <= subset_value sav alpha betas (affected sav alpha betas)).
Proof. exact @affected_optimal. Qed.

Theorem C16_smallest_optimal_size : forall (sav : list Z) (alpha : Z) (betas : list Z), length betas = length sav -> (1 <= length sav)%nat -> forall k' : nat, (1 <= k' < length (affected sav alpha betas))%nat -> subset_value sav alpha betas (firstn k' (argsort_desc sav)) < subset_value sav alpha betas (affected sav alpha betas).
Proof. exact @affected_smallest_k. Qed.

Theorem C16_argsort_is_permutation : forall sav : list Z, Permutation (argsort_desc sav) (seq 0 (length sav)).
Proof. exact @argsort_desc_perm. Qed.

Theorem C16_argsort_sorted : forall (sav : list Z) (i i' : nat), (i <= i' < length sav)%nat -> nthZ sav (nth i' (argsort_desc sav) 0%nat) <= nthZ sav (nth i (argsort_desc sav) 0%nat).
Proof. exact @argsort_desc_sorted. Qed.

Theorem C16_columns_permute_with_data : forall (p : nat) (sigma : list nat) (sav : list Z), Permutation sigma (seq 0 p) -> length sav = p -> NoDup sav -> forall (alpha : Z) (betas : list Z), map (fun j : nat => nth j sigma 0%nat) (affected (map (fun j : nat => nthZ sav (nth j sigma 0%nat)) (seq 0 p)) alpha betas) = affected sav alpha betas.
Proof. exact @affected_perm. Qed.

Theorem C16_dense_marks_exactly_these_columns : forall (n p : nat) (anoms : list anom3) (i j : nat), anoms_ok n p anoms -> (i < n)%nat -> (j < p)%nat -> (forall (k s e : nat) (cols : list nat), nth_error anoms k = Some (s, e, cols) -> (s <= i < e)%nat -> In j cols -> nth j (nth i (sub_s2d n p anoms) []) 0%nat = S k) /\ ((forall (s e : nat) (cols : list nat), In (s, e, cols) anoms -> ~ ((s <= i < e)%nat /\ In j cols)) -> nth j (nth i (sub_s2d n p anoms) []) 0%nat = 0%nat).
Proof. exact @sub_s2d_label. Qed.

Theorem C16_dense_shape : forall (n p : nat) (anoms : list anom3), length (sub_s2d n p anoms) = n /\ (forall r : list nat, In r (sub_s2d n p anoms) -> length r = p).
Proof. exact @sub_s2d_shape. Qed.

Theorem C16_checker_sound : forall c : af_case, af_spec_ok c = true -> af_cols c <> [] /\ NoDup (af_cols c) /\ (forall j : nat, In j (af_cols c) -> (j < length (af_sav c))%nat) /\ (forall i i' : nat, (i <= i')%nat -> (i' < length (af_cols c))%nat -> nthZ (af_sav c) (nthN (af_cols c) i') <= nthZ (af_sav c) (nthN (af_cols c) i)) /\ (forall j : nat, (j < length (af_sav c))%nat -> ~ In j (af_cols c) -> forall i : nat, In i (af_cols c) -> nthZ (af_sav c) j <= nthZ (af_sav c) i) /\ length (af_cols c) = length (affected (af_sav c) (af_alpha c) (af_betas c)).
Proof. exact @af_spec_ok_sound. Qed.

Theorem C16_checker_exact_when_tie_free : forall c : af_case, af_case_ok c = true -> af_spec c /\ (NoDup (af_sav c) -> af_cols c = affected (af_sav c) (af_alpha c) (af_betas c)).
Proof. exact @af_case_ok_sound. Qed.

Theorem C16_dense_checker_sound : forall (n p : nat) (anoms : list anom3) (dense : list (list nat)), af_dense_ok (n, p, anoms, dense) = true -> sub_s2d n p anoms = dense.
Proof. exact @af_dense_ok_sound. Qed.

Print Assumptions C16_prefix_of_decreasing_order.
Print Assumptions C16_columns_valid_distinct_nonempty.
Print Assumptions C16_listed_by_decreasing_saving.
Print Assumptions C16_no_excluded_column_larger.
Print Assumptions C16_value_of_reported_subset.
Print Assumptions C16_reported_subset_is_optimal.
Print Assumptions C16_smallest_optimal_size.
Print Assumptions C16_argsort_is_permutation.
Print Assumptions C16_argsort_sorted.
Print Assumptions C16_columns_permute_with_data.
Print Assumptions C16_dense_marks_exactly_these_columns.
Print Assumptions C16_dense_shape.
Print Assumptions C16_checker_sound.
Print Assumptions C16_checker_exact_when_tie_free.
Print Assumptions C16_dense_checker_sound.
