(** C08 END TO END in binary64, CUSUM score on one column: `gmw_any F64 (cusum_F xs) b n thr mdi` is the run the harness compares bit for bit with the real MovingWindow FROM THE DATA
    (`cusum_F` = the kernel twin, compared bit for bit with `CUSUM.evaluate` by C06).  Under the boolean premise `mw_cusum_trace_ok` (evaluated on every case of that stream) and a finite
    threshold of ANY sign: every published score is within the proved error `cusum_E` of the TRUE CUSUM statistic of the real numbers the floats denote; every reported changepoint's
    true statistic exceeds the threshold up to that error (soundness); every admissible position whose true statistic exceeds the threshold by more than the error lies in a maximal
    run above the threshold, and a run of at least min_detection_interval positions yields a changepoint at its first maximum (completeness). *)
From Coq Require Import Reals Lra Lia List Arith ZArith Bool Floats Psatz Sorted.
From Flocq Require Import Core BinarySingleNaN.
From Flocq Require IEEE754.PrimFloat.
From SK Require Import Gen.KernelsR Proofs.RealLib Proofs.CostKernels Proofs.ScoreKernels Proofs.FloatError
  Check.FloatKernelCheck Check.FloatKernelCheck2 Proofs.FloatRefine Proofs.FloatKernels2 Proofs.PeltFloat Proofs.PeltFloatL2.
(* the list vocabulary of the detectors ([slice] on any list) is imported last: it shadows the real-number one *)
From SK Require Import Lib.Base Model.Mw Model.Sbs Model.Capa Model.Cbs Model.PeltR Model.Generic Model.GenericF Model.GenericAny.
From SK Require Import Proofs.ArgmaxLemmas Proofs.MwProofs Proofs.GenericRank Proofs.GenericOrder Proofs.GenericSpec Proofs.GenericInstances
  Proofs.AnyThreshold Proofs.AnyThresholdF.
Import ListNotations.

From SK Require Import Proofs.MwSbsFloatCusum.


Theorem C08_binary64_cusum_scores : forall (xs : list PrimFloat.float) (b : nat) (thr : T F64) (mdi : nat), mw_cusum_trace_ok xs b = true -> let n := length xs in let scores := fst (gmw_any F64 (cusum_F xs) b n thr mdi) in length scores = n /\ (forall t : nat, (t < n)%nat -> ((b <= t)%nat /\ (t + b <= n)%nat -> nthV F64 scores t = cusum_F xs (t - b) t (t + b) /\ finF (nthV F64 scores t) = true /\ (Rabs (FR (nthV F64 scores t) - cusum_score_R (prefix (map FR xs)) (t - b) t (t + b)) <= cusum_E xs (t - b) t (t + b))%R) /\ (~ ((b <= t)%nat /\ (t + b <= n)%nat) -> nthV F64 scores t = 0%float)).
Proof. exact @mw_F64_cusum_scores. Qed.

Theorem C08_binary64_cusum_sound : forall (xs : list PrimFloat.float) (b : nat) (thr : PrimFloat.float) (mdi c : nat), mw_cusum_trace_ok xs b = true -> finF thr = true -> In c (snd (gmw_any F64 (cusum_F xs) b (length xs) thr mdi)) -> ((b <= c)%nat /\ (c + b <= length xs)%nat) /\ (thr <? cusum_F xs (c - b) c (c + b))%float = true /\ (cusum_score_R (prefix (map FR xs)) (c - b) c (c + b) > FR thr - cusum_E xs (c - b) c (c + b))%R.
Proof. exact @mw_F64_cusum_sound. Qed.

Theorem C08_binary64_cusum_complete : forall (xs : list PrimFloat.float) (b : nat) (thr : PrimFloat.float) (mdi t : nat), mw_cusum_trace_ok xs b = true -> finF thr = true -> (b <= t)%nat -> (t + b <= length xs)%nat -> (cusum_score_R (prefix (map FR xs)) (t - b) t (t + b) > FR thr + cusum_E xs (t - b) t (t + b))%R -> let n := length xs in let score := fun i : nat => cusum_F xs (i - b) i (i + b) in let stat := fun i : nat => cusum_score_R (prefix (map FR xs)) (i - b) i (i + b) in let err := fun i : nat => cusum_E xs (i - b) i (i + b) in (thr <? score t)%float = true /\ (exists a z : nat, In ((a - b)%nat, (z - b)%nat) (where_runs (map (fun v : PrimFloat.float => (thr <? v)%float) (slice b (n - b + 1) (gmw_scores F64 (cusum_F xs) b n)))) /\ (b <= a <= t)%nat /\ (t < z)%nat /\ (z + b <= n + 1)%nat /\ (forall i : nat, (a <= i < z)%nat -> (thr <? score i)%float = true) /\ (a = b \/ (thr <? score (a - 1)%nat)%float = false) /\ ((z + b)%nat = (n + 1)%nat \/ (thr <? score z)%float = false) /\ ((mdi <= z - a)%nat -> exists c : nat, In c (snd (gmw_any F64 (cusum_F xs) b n thr mdi)) /\ (a <= c < z)%nat /\ (forall i : nat, (a <= i < z)%nat -> (score c <? score i)%float = false) /\ (forall i : nat, (a <= i < c)%nat -> (score i <? score c)%float = true) /\ (forall i : nat, (a <= i < z)%nat -> (stat i <= stat c + err c + err i)%R))).
Proof. exact @mw_F64_cusum_complete. Qed.

Theorem C08_binary64_cusum_example_premise : mw_cusum_trace_ok demo_shift 3 = true.
Proof. exact @demo_mw_premise. Qed.

Theorem C08_binary64_cusum_example_sound : (2 <? cusum_F demo_shift 3 6 9)%float = true /\ (cusum_score_R (prefix (map FR demo_shift)) 3 6 9 > FR 2 - cusum_E demo_shift 3 6 9)%R.
Proof. exact @demo_mw_sound. Qed.

Print Assumptions C08_binary64_cusum_scores.
Print Assumptions C08_binary64_cusum_sound.
Print Assumptions C08_binary64_cusum_complete.
Print Assumptions C08_binary64_cusum_example_premise.
Print Assumptions C08_binary64_cusum_example_sound.
