(** C01 -- cost values equal their definition on every admissible interval.

    The kernels are REGENERATED from /repo on every run (Gen/KernelsR.v); the theorems are about
    those generated definitions, over Coq's real numbers, with the prefix sums instantiated by the
    model of col_cumsum(init_zero=True) ([prefix xs i] = sum of the first i entries).  "Up to
    prefix-sum rounding error" of the property = exact equality over R.  Multivariate Gaussian
    cost: the scalar assembly is translated, log-determinant and quadratic form are oracles
    (NumPy linear algebra), fully discharged for p = 1.  Statements: Proofs/CostKernels.v. *)
From Coq Require Import Reals List Arith Permutation.
From SK Require Import Gen.KernelsR Proofs.RealLib Proofs.CostKernels.
Import ListNotations.


From Flocq Require Import Core Relative.
From SK Require Import Proofs.FloatError.
From SK Require Import Check.FloatKernelCheck Proofs.FloatRefine.
From SK Require Import Check.FloatKernelCheck2 Proofs.FloatKernels2.
Theorem C01_l2_optim_is_residual_sum_of_squares : forall (xs : list R) (s e : nat), (s < e <= length xs)%nat -> l2_cost_optim_R (prefix xs) (prefix (sq xs)) s e = rss (slice s e xs).
Proof. exact @l2_optim_is_rss. Qed.

Theorem C01_l2_fixed_is_sum_of_squared_errors : forall (xs : list R) (s e : nat), (s <= e <= length xs)%nat -> forall mu : R, l2_cost_fixed_R (prefix xs) (prefix (sq xs)) mu s e = sse mu (slice s e xs).
Proof. exact @l2_fixed_is_sse. Qed.

Theorem C01_variance_is_floored_ml_variance : forall (xs : list R) (s e : nat), (s < e <= length xs)%nat -> var_from_sums_R (prefix xs) (prefix (sq xs)) s e = Rmax (varR (slice s e xs)) floor_var.
Proof. exact @var_from_sums_is_var. Qed.

Theorem C01_gaussian_optim_value : forall (xs : list R) (s e : nat), (s < e <= length xs)%nat -> gaussian_var_cost_optim_R (prefix xs) (prefix (sq xs)) s e = INR (e - s) * ln (2 * PI * Rmax (varR (slice s e xs)) floor_var) + INR (e - s).
Proof. exact @gvar_optim_value. Qed.

Theorem C01_gaussian_optim_is_twice_neg_loglik_at_mle : forall (xs : list R) (s e : nat), (s < e <= length xs)%nat -> floor_var <= varR (slice s e xs) -> gaussian_var_cost_optim_R (prefix xs) (prefix (sq xs)) s e = nll2 (meanR (slice s e xs)) (varR (slice s e xs)) (slice s e xs).
Proof. exact @gvar_optim_is_nll_at_mle. Qed.

Theorem C01_gaussian_fixed_is_twice_neg_loglik : forall (xs : list R) (s e : nat), (s <= e <= length xs)%nat -> forall mu v : R, 0 < v -> gaussian_var_cost_fixed_R (prefix xs) (prefix (sq xs)) mu v s e = nll2 mu v (slice s e xs).
Proof. exact @gvar_fixed_is_nll. Qed.

Theorem C01_multivariate_optim_assembly : forall (p : nat) (logdet : R) (s e : nat), (s <= e)%nat -> - gaussian_ll_at_mle_for_segment_R p logdet s e = INR (e - s) * INR p * ln (2 * PI) + INR (e - s) * logdet + INR p * INR (e - s).
Proof. exact @gcov_mle_cost. Qed.

Theorem C01_multivariate_fixed_assembly : forall (p : nat) (logdet quadsum : R) (s e : nat), - gaussian_ll_at_fixed_for_segment_R p logdet quadsum s e = INR (e - s) * INR p * ln (2 * PI) + INR (e - s) * logdet + quadsum.
Proof. exact @gcov_fixed_cost. Qed.

Theorem C01_multivariate_p1_optim : forall (xs : list R) (s e : nat) (logdet : R), (s < e <= length xs)%nat -> logdet = ln (varR (slice s e xs)) -> floor_var <= varR (slice s e xs) -> - gaussian_ll_at_mle_for_segment_R 1 logdet s e = gaussian_var_cost_optim_R (prefix xs) (prefix (sq xs)) s e.
Proof. exact @gcov_mle_p1_is_gvar. Qed.

Theorem C01_multivariate_p1_fixed : forall (xs : list R) (s e : nat) (mu v logdet quadsum : R), (s <= e <= length xs)%nat -> 0 < v -> logdet = ln v -> quadsum = sse mu (slice s e xs) / v -> - gaussian_ll_at_fixed_for_segment_R 1 logdet quadsum s e = gaussian_var_cost_fixed_R (prefix xs) (prefix (sq xs)) mu v s e.
Proof. exact @gcov_fixed_p1_is_gvar. Qed.

Theorem C01_batch_length : forall (A : Type) (k : nat -> nat -> A) (cuts : list (nat * nat)), length (evaluate_rows k cuts) = length cuts.
Proof. exact @evaluate_rows_length. Qed.

Theorem C01_batch_row_independent : forall (A : Type) (k : nat -> nat -> A) (cuts : list (nat * nat)) (i : nat) (d : A), (i < length cuts)%nat -> nth i (evaluate_rows k cuts) d = k (fst (nth i cuts (0%nat, 0%nat))) (snd (nth i cuts (0%nat, 0%nat))).
Proof. exact @evaluate_rows_nth. Qed.

Theorem C01_batch_concatenation : forall (A : Type) (k : nat -> nat -> A) (cuts1 cuts2 : list (nat * nat)), evaluate_rows k (cuts1 ++ cuts2) = evaluate_rows k cuts1 ++ evaluate_rows k cuts2.
Proof. exact @evaluate_rows_app. Qed.

Theorem C01_batch_order : forall (A : Type) (k : nat -> nat -> A) (cuts cuts' : list (nat * nat)), Permutation cuts cuts' -> Permutation (evaluate_rows k cuts) (evaluate_rows k cuts').
Proof. exact @evaluate_rows_perm. Qed.

Print Assumptions C01_l2_optim_is_residual_sum_of_squares.
Print Assumptions C01_l2_fixed_is_sum_of_squared_errors.
Print Assumptions C01_variance_is_floored_ml_variance.
Print Assumptions C01_gaussian_optim_value.
Print Assumptions C01_gaussian_optim_is_twice_neg_loglik_at_mle.
Print Assumptions C01_gaussian_fixed_is_twice_neg_loglik.
Print Assumptions C01_multivariate_optim_assembly.
Print Assumptions C01_multivariate_fixed_assembly.
Print Assumptions C01_multivariate_p1_optim.
Print Assumptions C01_multivariate_p1_fixed.
Print Assumptions C01_batch_length.
Print Assumptions C01_batch_row_independent.
Print Assumptions C01_batch_concatenation.
Print Assumptions C01_batch_order.

(** ---- added: statements re-derived from the lemma files by tools/append_props.py ---- *)
Theorem C01_float_sequential_sum_error : forall l : list R, Rabs (fsum53 l - sumR l) <= ((1 + u53) ^ length l - 1) * sumR (map Rabs l).
Proof. exact @fsum53_error. Qed.

Theorem C01_float_prefix_difference_error : forall (l : list R) (s e : nat), (s <= e)%nat -> INR e * u53 <= 1 / 100 -> Rabs (rnd53 (fprefix53 l e - fprefix53 l s) - sumR (slice s e l)) <= (204 / 100 * INR e + 204 / 100) * u53 * sumR (map Rabs (firstn e l)).
Proof. exact @fdiff53_error. Qed.

Theorem C01_float_l2_cost_error : forall (l : list R) (s e : nat), (s < e)%nat -> INR e * u53 <= 1 / 100 -> Rabs (l2_cost_float53 l s e - l2_cost_optim_R (prefix l) (prefix (sq l)) s e) <= (42 / 10 * INR e + 6) * u53 * (sumR (map (fun x : R => x * x) (firstn e l)) + sumR (map Rabs (firstn e l)) ^ 2 / INR (e - s)).
Proof. exact @l2_cost_float53_error. Qed.

Theorem C01_float_l2_cost_vs_residual_sum_of_squares : forall (l : list R) (s e : nat), (s < e <= length l)%nat -> INR e * u53 <= 1 / 100 -> Rabs (l2_cost_float53 l s e - rss (slice s e l)) <= (42 / 10 * INR e + 6) * u53 * l2_scale l s e.
Proof. exact @l2_cost_float53_vs_rss. Qed.

Theorem C01_float_l2_cost_within_test_tolerance : forall (l : list R) (s e : nat), (s < e)%nat -> INR e <= 2000000 -> Rabs (l2_cost_float53 l s e - l2_cost_optim_R (prefix l) (prefix (sq l)) s e) <= 1 / 1000000000 * l2_scale l s e.
Proof. exact @l2_cost_float53_tolerance. Qed.

Theorem C01_float_model_is_binary64_on_normal_range : forall x : R, bpow radix2 (-1022) <= Rabs x -> rnd_binary64 x = rnd53 x.
Proof. exact @rnd53_is_binary64_normal. Qed.

Theorem C01_float_l2_cost_operation_order : forall (l : list R) (s e : nat), l2_cost_float53 l s e = (let S1 := fprefix53 l in let S2 := fprefix53 (map (fun x : R => rnd53 (x * x)) l) in let a := rnd53 (S1 e - S1 s) in rnd53 (rnd53 (S2 e - S2 s) - rnd53 (rnd53 (a * a) / INR (e - s)))).
Proof. exact @l2_cost_float53_unfold. Qed.

Print Assumptions C01_float_sequential_sum_error.
Print Assumptions C01_float_prefix_difference_error.
Print Assumptions C01_float_l2_cost_error.
Print Assumptions C01_float_l2_cost_vs_residual_sum_of_squares.
Print Assumptions C01_float_l2_cost_within_test_tolerance.
Print Assumptions C01_float_model_is_binary64_on_normal_range.
Print Assumptions C01_float_l2_cost_operation_order.

(** ---- added: statements re-derived from the lemma files by tools/append_props.py ---- *)
Theorem C01_primitive_float_program_refines_rounding_model : forall (l : list PrimFloat.float) (s e : nat), l2_trace_ok l s e = true -> FR (l2_cost_F l s e) = l2_cost_float53 (map FR l) s e.
Proof. exact @l2_cost_F_refines. Qed.

Theorem C01_primitive_float_cost_within_bound_of_residual_sum_of_squares : forall (l : list PrimFloat.float) (s e : nat), l2_trace_ok l s e = true -> INR e * u53 <= 1 / 100 -> Rabs (FR (l2_cost_F l s e) - rss (slice s e (map FR l))) <= (42 / 10 * INR e + 6) * u53 * l2_scale (map FR l) s e.
Proof. exact @l2_cost_F_vs_rss. Qed.

Theorem C01_primitive_float_cost_within_test_tolerance : forall (l : list PrimFloat.float) (s e : nat), l2_trace_ok l s e = true -> INR e <= 2000000 -> Rabs (FR (l2_cost_F l s e) - rss (slice s e (map FR l))) <= 1 / 1000000000 * l2_scale (map FR l) s e.
Proof. exact @l2_cost_F_tolerance. Qed.

Theorem C01_primitive_float_addition_is_binary64_rounding : forall x y : PrimFloat.float, finF x = true -> finF y = true -> finF (PrimFloat.add x y) = true -> FR (PrimFloat.add x y) = rnd_binary64 (FR x + FR y).
Proof. exact @FR_add. Qed.

Theorem C01_primitive_float_multiplication_is_binary64_rounding : forall x y : PrimFloat.float, finF (PrimFloat.mul x y) = true -> FR (PrimFloat.mul x y) = rnd_binary64 (FR x * FR y).
Proof. exact @FR_mul. Qed.

Theorem C01_primitive_float_division_is_binary64_rounding : forall x y : PrimFloat.float, FR y <> 0 -> finF (PrimFloat.div x y) = true -> FR (PrimFloat.div x y) = rnd_binary64 (FR x / FR y).
Proof. exact @FR_div. Qed.

Theorem C01_trace_checker_accepts_ordinary_data : l2_trace_ok demo_xs 1 7 = true.
Proof. exact @demo_trace_ok. Qed.

Print Assumptions C01_primitive_float_program_refines_rounding_model.
Print Assumptions C01_primitive_float_cost_within_bound_of_residual_sum_of_squares.
Print Assumptions C01_primitive_float_cost_within_test_tolerance.
Print Assumptions C01_primitive_float_addition_is_binary64_rounding.
Print Assumptions C01_primitive_float_multiplication_is_binary64_rounding.
Print Assumptions C01_primitive_float_division_is_binary64_rounding.
Print Assumptions C01_trace_checker_accepts_ordinary_data.

(** ---- added: statements re-derived from the lemma files by tools/append_props.py ---- *)
Theorem C01_float_fixed_mean_cost_error : forall (mu : R) (l : list R) (s e : nat), (s <= e)%nat -> INR e * u53 <= 1 / 100 -> Rabs (l2_fixed_float53 mu l s e - l2_cost_fixed_R (prefix l) (prefix (sq l)) mu s e) <= (204 / 100 * INR e + 6) * u53 * l2_fixed_scale mu l s e.
Proof. exact @l2_fixed_float53_error. Qed.

Theorem C01_float_fixed_mean_cost_vs_sum_of_squared_errors : forall (mu : R) (l : list R) (s e : nat), (s <= e <= length l)%nat -> INR e * u53 <= 1 / 100 -> Rabs (l2_fixed_float53 mu l s e - sse mu (slice s e l)) <= (204 / 100 * INR e + 6) * u53 * l2_fixed_scale mu l s e.
Proof. exact @l2_fixed_float53_vs_sse. Qed.

Theorem C01_primitive_float_fixed_mean_program_refines_rounding_model : forall (mu : PrimFloat.float) (l : list PrimFloat.float) (s e : nat), l2_fixed_trace_ok mu l s e = true -> FR (l2_cost_fixed_F mu l s e) = l2_fixed_float53 (FR mu) (map FR l) s e.
Proof. exact @l2_cost_fixed_F_refines. Qed.

Theorem C01_primitive_float_fixed_mean_cost_within_bound : forall (mu : PrimFloat.float) (l : list PrimFloat.float) (s e : nat), l2_fixed_trace_ok mu l s e = true -> INR e * u53 <= 1 / 100 -> Rabs (FR (l2_cost_fixed_F mu l s e) - sse (FR mu) (slice s e (map FR l))) <= (204 / 100 * INR e + 6) * u53 * l2_fixed_scale (FR mu) (map FR l) s e.
Proof. exact @l2_cost_fixed_F_vs_sse. Qed.

Print Assumptions C01_float_fixed_mean_cost_error.
Print Assumptions C01_float_fixed_mean_cost_vs_sum_of_squared_errors.
Print Assumptions C01_primitive_float_fixed_mean_program_refines_rounding_model.
Print Assumptions C01_primitive_float_fixed_mean_cost_within_bound.
