(** C02 under INEXACT arithmetic: the pruned programme in which every arithmetic step the binary64 code rounds (the cost, the two additions of the candidate value, the sum on the
    right of the prune test, the initial block) is replaced by an ARBITRARY function within eps of the exact expression (Model/PeltA.v; with the exact functions it IS peltR).
    Exact optimality is not a theorem about rounded arithmetic; what holds is: the output is admissible whatever the values, the reported final score is within n eps of the TRUE
    penalised cost of the reported segmentation, and that cost is within 3 n eps of the optimum.  The `_run` versions need the eps-hypotheses only at the values the run itself
    stores, so that V / W can be instantiated by tables of realised binary64 values. *)
From Coq Require Import Reals List Bool Arith.
From SK Require Import Lib.Base Model.Pelt Model.PeltR Model.PeltA Proofs.PeltSpec Proofs.PeltReal Proofs.PeltApprox.
Import ListNotations.


Theorem C02_inexact_model_with_exact_steps_is_the_real_model : forall (C : nat -> nat -> R) (pen : R) (m delay n : nat), peltA (fun (a T : nat) (g : R) => g + C a T + pen) (fun (_ : nat) (b : R) => b + pen) (C 0%nat) pen m delay n = peltR C pen m delay n.
Proof. exact @peltA_exact. Qed.

Theorem C02_inexact_output_admissible : forall (V : nat -> nat -> R -> R) (W : nat -> R -> R) (I0 : nat -> R) (pen : R) (m delay n : nat), (1 <= m)%nat -> (2 * m <= n)%nat -> Adm m (snd (peltA V W I0 pen m delay n)) n.
Proof. exact @peltA_adm. Qed.

Theorem C02_inexact_final_score_close_to_true_cost : forall (V : nat -> nat -> R -> R) (W : nat -> R -> R) (I0 : nat -> R) (C : nat -> nat -> R) (pen eps : R) (m delay n : nat), (1 <= m)%nat -> (2 * m <= n)%nat -> (forall (a T : nat) (g : R), Rabs (V a T g - (g + C a T + pen)) <= eps) -> (forall e : nat, Rabs (I0 e - C 0%nat e) <= eps) -> Rabs (nth (n - 1) (fst (peltA V W I0 pen m delay n)) 0 - pencostR C pen (snd (peltA V W I0 pen m delay n)) n) <= INR n * eps.
Proof. exact @peltA_final_close. Qed.

Theorem C02_inexact_output_near_optimal : forall (V : nat -> nat -> R -> R) (W : nat -> R -> R) (I0 : nat -> R) (C : nat -> nat -> R) (pen eps : R) (m delay n N : nat), (1 <= m)%nat -> (m <= delay + 1)%nat -> (2 * m <= n)%nat -> (n <= N)%nat -> (forall s k e : nat, (s + m <= k)%nat -> (k + m <= e)%nat -> (e <= N)%nat -> C s k + C k e <= C s e) -> (forall (a T : nat) (g : R), Rabs (V a T g - (g + C a T + pen)) <= eps) -> (forall (T : nat) (b : R), Rabs (W T b - (b + pen)) <= eps) -> (forall e : nat, Rabs (I0 e - C 0%nat e) <= eps) -> forall c : list nat, Adm m c n -> pencostR C pen (snd (peltA V W I0 pen m delay n)) n <= pencostR C pen c n + K_pelt * INR n * eps.
Proof. exact @peltA_near_optimal. Qed.

Theorem C02_inexact_final_score_close_realised_values : forall (V : nat -> nat -> R -> R) (W : nat -> R -> R) (I0 : nat -> R) (C : nat -> nat -> R) (pen eps : R) (m delay n : nat), (1 <= m)%nat -> (2 * m <= n)%nat -> (forall a T : nat, (a < T <= n)%nat -> Rabs (V a T (storedA V W I0 pen m delay n a) - (storedA V W I0 pen m delay n a + C a T + pen)) <= eps) -> (forall e : nat, (m <= e < 2 * m)%nat -> Rabs (I0 e - C 0%nat e) <= eps) -> Rabs (nth (n - 1) (fst (peltA V W I0 pen m delay n)) 0 - pencostR C pen (snd (peltA V W I0 pen m delay n)) n) <= INR n * eps.
Proof. exact @peltA_final_close_run. Qed.

Theorem C02_inexact_output_near_optimal_realised_values : forall (V : nat -> nat -> R -> R) (W : nat -> R -> R) (I0 : nat -> R) (C : nat -> nat -> R) (pen eps : R) (m delay n N : nat), (1 <= m)%nat -> (m <= delay + 1)%nat -> (2 * m <= n)%nat -> (n <= N)%nat -> (forall s k e : nat, (s + m <= k)%nat -> (k + m <= e)%nat -> (e <= N)%nat -> C s k + C k e <= C s e) -> (forall a T : nat, (a < T <= n)%nat -> Rabs (V a T (storedA V W I0 pen m delay n a) - (storedA V W I0 pen m delay n a + C a T + pen)) <= eps) -> (forall T : nat, (T <= n)%nat -> Rabs (W T (storedA V W I0 pen m delay n T) - (storedA V W I0 pen m delay n T + pen)) <= eps) -> (forall e : nat, (m <= e < 2 * m)%nat -> Rabs (I0 e - C 0%nat e) <= eps) -> forall c : list nat, Adm m c n -> pencostR C pen (snd (peltA V W I0 pen m delay n)) n <= pencostR C pen c n + K_pelt * INR n * eps.
Proof. exact @peltA_near_optimal_run. Qed.

Theorem C02_inexact_scores_close_to_prefix_optima : forall (V : nat -> nat -> R -> R) (W : nat -> R -> R) (I0 : nat -> R) (C : nat -> nat -> R) (pen eps : R) (m delay n N : nat), (1 <= m)%nat -> (m <= delay + 1)%nat -> (2 * m <= n)%nat -> (n <= N)%nat -> (forall s k e : nat, (s + m <= k)%nat -> (k + m <= e)%nat -> (e <= N)%nat -> C s k + C k e <= C s e) -> (forall (a T : nat) (g : R), Rabs (V a T g - (g + C a T + pen)) <= eps) -> (forall (T : nat) (b : R), Rabs (W T b - (b + pen)) <= eps) -> (forall e : nat, Rabs (I0 e - C 0%nat e) <= eps) -> forall t : nat, (m <= t <= n)%nat -> FR C pen m t - INR t * eps <= nth (t - 1) (fst (peltA V W I0 pen m delay n)) 0 <= FR C pen m t + 2 * INR t * eps.
Proof. exact @peltA_scores_close. Qed.

Theorem C02_inexact_hypotheses_satisfiable : forall c : list nat, Adm 1 c 10 -> pencostR (fun _ _ : nat => 0) 1 (snd (peltA (Vbad (fun _ _ : nat => 0) 1 (1 / 8)) (Wbad 1 (1 / 8)) (Ibad (fun _ _ : nat => 0) (1 / 8)) 1 1 0 10)) 10 <= pencostR (fun _ _ : nat => 0) 1 c 10 + 3 * INR 10 * (1 / 8).
Proof. exact @peltA_near_optimal_instance. Qed.

Print Assumptions C02_inexact_model_with_exact_steps_is_the_real_model.
Print Assumptions C02_inexact_output_admissible.
Print Assumptions C02_inexact_final_score_close_to_true_cost.
Print Assumptions C02_inexact_output_near_optimal.
Print Assumptions C02_inexact_final_score_close_realised_values.
Print Assumptions C02_inexact_output_near_optimal_realised_values.
Print Assumptions C02_inexact_scores_close_to_prefix_optima.
Print Assumptions C02_inexact_hypotheses_satisfiable.
