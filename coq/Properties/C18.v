(** C18 -- data generators are reproducible and place segments exactly where requested.

    Model/Generate.v is parametric in the number type and in [affine mu v z] (= mu + sqrt v * z):
    every theorem below holds for ANY number type, in particular for the binary64 instance that
    Check/GenerateCheck.v compares bit-for-bit with NumPy.  The standard-normal draw for the seed
    is the input matrix [Zm]; determinism is by construction (the model is a function of its
    arguments and [Zm]).  Statements are those of Proofs/GenerateProofs.v. *)
From Coq Require Import List Arith Bool ZArith.
From SK Require Import Model.Generate Proofs.GenerateProofs.
Import ListNotations.


Theorem C18_changing_shape : forall (num : Type) (affine : num -> num -> num -> num) (n : nat) (neg : bool) (cpts : list nat) (means vars : list (list num)) (Zm : matrix num) (d : num) (out : matrix num), changing num affine n neg cpts means vars Zm d = Ok out -> length out = length Zm /\ (forall i : nat, length (nth i out []) = length (nth i Zm [])).
Proof. exact @changing_shape. Qed.

Theorem C18_anomalous_shape : forall (num : Type) (affine : num -> num -> num -> num) (n : nat) (bad_shape neg : bool) (anoms : list (nat * nat)) (means vars : list (list num)) (Zm : matrix num) (d : num) (out : matrix num), anomalous num affine n bad_shape neg anoms means vars Zm d = Ok out -> length out = length Zm /\ (forall i : nat, length (nth i out []) = length (nth i Zm [])).
Proof. exact @anomalous_shape. Qed.

Theorem C18_alternating_shape : forall (num : Type) (affine : num -> num -> num -> num) (nseg seglen p n_aff : nat) (mean var zero one : num) (Zm : matrix num) (d : num) (out : matrix num), alternating num affine nseg seglen p n_aff mean var zero one Zm d = Ok out -> length out = length Zm /\ (forall i : nat, length (nth i out []) = length (nth i Zm [])).
Proof. exact @alternating_shape. Qed.

Theorem C18_segments_disjoint : forall (cpts : list nat) (n : nat), nondecr 0 cpts -> disjoint_ranges (consecutive 0 cpts n).
Proof. exact @consecutive_disjoint. Qed.

Theorem C18_segments_cover : forall (cpts : list nat) (n i : nat), i < n -> exists k a b : nat, nth_error (consecutive 0 cpts n) k = Some (a, b) /\ a <= i < b.
Proof. exact @consecutive_cover. Qed.

Theorem C18_sequential_application : forall (num : Type) (affine : num -> num -> num -> num) (segs : list (seg num)) (x : list (list num)) (d : num) (i : nat), disjoint_segs num segs -> i < length x -> (forall (a b : nat) (mu va : list num), In (a, b, mu, va) segs -> a <= i < b -> nth i (apply_all num affine x segs d) [] = apply_row num affine mu va d (nth i x [])) /\ ((forall (a b : nat) (mu va : list num), In (a, b, mu, va) segs -> ~ a <= i < b) -> nth i (apply_all num affine x segs d) [] = nth i x []).
Proof. exact @apply_all_disjoint. Qed.

Theorem C18_row_is_affine : forall (num : Type) (affine : num -> num -> num -> num) (mu va : list num) (d : num) (row : list num) (j : nat) (d' d'' : num), j < length row -> nth j (apply_row num affine mu va d row) d' = affine (bc num mu d j) (bc num va d j) (nth j row d'').
Proof. exact @apply_row_nth. Qed.

Theorem C18_changing_placement : forall (num : Type) (affine : num -> num -> num -> num) (n : nat) (neg : bool) (cpts : list nat) (means vars : list (list num)) (Zm : matrix num) (d : num) (out : matrix num), changing num affine n neg cpts means vars Zm d = Ok out -> nondecr 0 cpts -> length Zm = n -> forall i k a b : nat, i < n -> nth_error (consecutive 0 cpts n) k = Some (a, b) -> a <= i < b -> nth i out [] = apply_row num affine (nth k (recycle means (S (length cpts))) []) (nth k (recycle vars (S (length cpts))) []) d (nth i Zm []).
Proof. exact @changing_placement. Qed.

Theorem C18_anomalous_placement : forall (num : Type) (affine : num -> num -> num -> num) (n : nat) (bad_shape neg : bool) (anoms : list (nat * nat)) (means vars : list (list num)) (Zm : matrix num) (d : num) (out : matrix num), anomalous num affine n bad_shape neg anoms means vars Zm d = Ok out -> disjoint_ranges anoms -> length Zm = n -> (forall i k a b : nat, nth_error anoms k = Some (a, b) -> a <= i < b -> nth i out [] = apply_row num affine (nth k (recycle means (length anoms)) []) (nth k (recycle vars (length anoms)) []) d (nth i Zm [])) /\ (forall i : nat, (forall a b : nat, In (a, b) anoms -> ~ a <= i < b) -> nth i out [] = nth i Zm []).
Proof. exact @anomalous_placement. Qed.

Theorem C18_alternating_changepoints : forall (num : Type) (affine : num -> num -> num -> num) (nseg seglen p n_aff : nat) (mean var zero one : num) (Zm : matrix num) (d : num), alternating num affine nseg seglen p n_aff mean var zero one Zm d = changing num affine (seglen * nseg) false (alt_cpts nseg seglen) (alt_means num nseg p n_aff mean zero) (alt_means num nseg p n_aff var one) Zm d /\ length (alt_cpts nseg seglen) = nseg - 1 /\ (forall k : nat, k < nseg - 1 -> nth k (alt_cpts nseg seglen) 0 = seglen * S k).
Proof. exact @alternating_cpts. Qed.

Theorem C18_alternating_placement : forall (num : Type) (affine : num -> num -> num -> num) (nseg seglen p n_aff : nat) (mean var zero one : num) (Zm : matrix num) (d : num) (out : matrix num), alternating num affine nseg seglen p n_aff mean var zero one Zm d = Ok out -> length Zm = seglen * nseg -> 0 < seglen -> n_aff <= p -> (forall i : nat, i < length Zm -> length (nth i Zm []) = p) -> forall (i j : nat) (d' : num), i < seglen * nseg -> j < p -> nth j (nth i out []) d' = (if Nat.even (i / seglen) then affine zero one (nth j (nth i Zm []) d') else if j <? n_aff then affine mean var (nth j (nth i Zm []) d') else affine zero one (nth j (nth i Zm []) d')).
Proof. exact @alternating_placement. Qed.

Theorem C18_changing_valid_iff : forall (num : Type) (affine : num -> num -> num -> num) (n : nat) (neg : bool) (cpts : list nat) (means vars : list (list num)) (Zm : matrix num) (d : num), (exists out : matrix num, changing num affine n neg cpts means vars Zm d = Ok out) <-> changing_valid num n neg cpts means vars = true.
Proof. exact @changing_ok_iff. Qed.

Theorem C18_changing_valid_spec : forall (num : Type) (n : nat) (neg : bool) (cpts : list nat) (means vars : list (list num)), changing_valid num n neg cpts means vars = true <-> length (recycle means (S (length cpts))) = S (length cpts) /\ length (recycle vars (S (length cpts))) = S (length cpts) /\ (forall c : nat, In c cpts -> c <= n - 1) /\ neg = false /\ (forall v : list num, In v (recycle means (S (length cpts))) -> length v = 1 \/ length v = length (hd [] (recycle means (S (length cpts))))) /\ (forall v : list num, In v (recycle vars (S (length cpts))) -> length v = 1 \/ length v = length (hd [] (recycle means (S (length cpts))))).
Proof. exact @changing_valid_spec. Qed.

Theorem C18_changing_err_count : forall (num : Type) (affine : num -> num -> num -> num) (n : nat) (neg : bool) (cpts : list nat) (means vars : list (list num)) (Zm : matrix num) (d : num), length (recycle means (S (length cpts))) <> S (length cpts) \/ length (recycle vars (S (length cpts))) <> S (length cpts) -> changing num affine n neg cpts means vars Zm d = Err.
Proof. exact @changing_err_count. Qed.

Theorem C18_changing_err_range : forall (num : Type) (affine : num -> num -> num -> num) (n : nat) (neg : bool) (cpts : list nat) (means vars : list (list num)) (Zm : matrix num) (d : num), (exists c : nat, In c cpts /\ n - 1 < c) -> changing num affine n neg cpts means vars Zm d = Err.
Proof. exact @changing_err_range. Qed.

Theorem C18_changing_err_negative : forall (num : Type) (affine : num -> num -> num -> num) (n : nat) (cpts : list nat) (means vars : list (list num)) (Zm : matrix num) (d : num), changing num affine n true cpts means vars Zm d = Err.
Proof. exact @changing_err_neg. Qed.

Theorem C18_anomalous_valid_iff : forall (num : Type) (affine : num -> num -> num -> num) (n : nat) (bad_shape neg : bool) (anoms : list (nat * nat)) (means vars : list (list num)) (Zm : matrix num) (d : num), (exists out : matrix num, anomalous num affine n bad_shape neg anoms means vars Zm d = Ok out) <-> anomalous_valid num n bad_shape neg anoms means vars = true.
Proof. exact @anomalous_ok_iff. Qed.

Theorem C18_anomalous_valid_spec : forall (num : Type) (n : nat) (bad_shape neg : bool) (anoms : list (nat * nat)) (means vars : list (list num)), anomalous_valid num n bad_shape neg anoms means vars = true <-> length (recycle means (length anoms)) = length anoms /\ length (recycle vars (length anoms)) = length anoms /\ bad_shape = false /\ (forall se : nat * nat, In se anoms -> fst se < snd se) /\ (forall se : nat * nat, In se anoms -> snd se <= n) /\ neg = false /\ (forall v : list num, In v (recycle means (length anoms)) -> length v = 1 \/ length v = length (hd [] (recycle means (length anoms)))) /\ (forall v : list num, In v (recycle vars (length anoms)) -> length v = 1 \/ length v = length (hd [] (recycle means (length anoms)))).
Proof. exact @anomalous_valid_spec. Qed.

Theorem C18_anomalous_err_count : forall (num : Type) (affine : num -> num -> num -> num) (n : nat) (bad_shape neg : bool) (anoms : list (nat * nat)) (means vars : list (list num)) (Zm : matrix num) (d : num), length (recycle means (length anoms)) <> length anoms \/ length (recycle vars (length anoms)) <> length anoms -> anomalous num affine n bad_shape neg anoms means vars Zm d = Err.
Proof. exact @anomalous_err_count. Qed.

Theorem C18_anomalous_err_shape : forall (num : Type) (affine : num -> num -> num -> num) (n : nat) (neg : bool) (anoms : list (nat * nat)) (means vars : list (list num)) (Zm : matrix num) (d : num), anomalous num affine n true neg anoms means vars Zm d = Err.
Proof. exact @anomalous_err_shape. Qed.

Theorem C18_anomalous_err_empty : forall (num : Type) (affine : num -> num -> num -> num) (n : nat) (bad_shape neg : bool) (anoms : list (nat * nat)) (means vars : list (list num)) (Zm : matrix num) (d : num), (exists se : nat * nat, In se anoms /\ snd se <= fst se) -> anomalous num affine n bad_shape neg anoms means vars Zm d = Err.
Proof. exact @anomalous_err_empty. Qed.

Theorem C18_anomalous_err_range : forall (num : Type) (affine : num -> num -> num -> num) (n : nat) (bad_shape neg : bool) (anoms : list (nat * nat)) (means vars : list (list num)) (Zm : matrix num) (d : num), (exists se : nat * nat, In se anoms /\ n < snd se) -> anomalous num affine n bad_shape neg anoms means vars Zm d = Err.
Proof. exact @anomalous_err_range. Qed.

Theorem C18_anomalous_err_negative : forall (num : Type) (affine : num -> num -> num -> num) (n : nat) (bad_shape : bool) (anoms : list (nat * nat)) (means vars : list (list num)) (Zm : matrix num) (d : num), anomalous num affine n bad_shape true anoms means vars Zm d = Err.
Proof. exact @anomalous_err_neg. Qed.

Theorem C18_outliers_rows : forall (num : Type) (add : num -> num -> num) (x : list (list num)) (pos : list nat) (size : num) (i : nat), i < length x -> nth i (add_outliers num add x pos size) [] = (if existsb (Nat.eqb i) pos then map (fun z : num => add z size) (nth i x []) else nth i x []).
Proof. exact @add_outliers_nth. Qed.

Theorem C18_outliers_count : forall (num : Type) (add : num -> num -> num) (x : list (list num)) (size : num) (n k : nat) (pos : list nat), positions_ok n k pos = true -> k <= n -> length x = n -> exists hit : list nat, NoDup hit /\ length hit = k /\ (forall i : nat, In i hit -> i < n /\ nth i (add_outliers num add x pos size) [] = map (fun z : num => add z size) (nth i x [])) /\ (forall i : nat, ~ In i hit -> nth i (add_outliers num add x pos size) [] = nth i x []).
Proof. exact @add_outliers_count. Qed.

Theorem C18_positions_consequences : forall (n k : nat) (pos : list nat), positions_ok n k pos = true -> length pos = k /\ (1 <= k -> hd 0 pos = 0) /\ (2 <= k -> last pos 0 = n - 1) /\ (k <= n -> NoDup pos).
Proof. exact @positions_ok_consequences. Qed.

Theorem C18_positions_count : forall (n k : nat) (pos : list nat), positions_ok n k pos = true -> k <= n -> length (filter (fun i : nat => existsb (Nat.eqb i) pos) (seq 0 n)) = k.
Proof. exact @positions_ok_count. Qed.

Theorem C18_integer_linspace_ok : forall n k : nat, positions_ok n k (linspace_int n k) = true.
Proof. exact @linspace_int_ok_all. Qed.

Theorem C18_integer_linspace_distinct : forall n k : nat, k <= n -> NoDup (linspace_int n k).
Proof. exact @linspace_int_NoDup. Qed.

Print Assumptions C18_changing_shape.
Print Assumptions C18_anomalous_shape.
Print Assumptions C18_alternating_shape.
Print Assumptions C18_segments_disjoint.
Print Assumptions C18_segments_cover.
Print Assumptions C18_sequential_application.
Print Assumptions C18_row_is_affine.
Print Assumptions C18_changing_placement.
Print Assumptions C18_anomalous_placement.
Print Assumptions C18_alternating_changepoints.
Print Assumptions C18_alternating_placement.
Print Assumptions C18_changing_valid_iff.
Print Assumptions C18_changing_valid_spec.
Print Assumptions C18_changing_err_count.
Print Assumptions C18_changing_err_range.
Print Assumptions C18_changing_err_negative.
Print Assumptions C18_anomalous_valid_iff.
Print Assumptions C18_anomalous_valid_spec.
Print Assumptions C18_anomalous_err_count.
Print Assumptions C18_anomalous_err_shape.
Print Assumptions C18_anomalous_err_empty.
Print Assumptions C18_anomalous_err_range.
Print Assumptions C18_anomalous_err_negative.
Print Assumptions C18_outliers_rows.
Print Assumptions C18_outliers_count.
Print Assumptions C18_positions_consequences.
Print Assumptions C18_positions_count.
Print Assumptions C18_integer_linspace_ok.
Print Assumptions C18_integer_linspace_distinct.
