(** C03: one definition of the CAPA / MVCAPA dynamic programme over an arbitrary record of operations (Model/GenericCapa.v); the integer model tied to the code and the
    real-valued model carrying the end-to-end theorem are its instances. *)
From Coq Require Import ZArith Reals List Bool Arith.
From SK Require Import Lib.Base Model.Capa Model.PeltR Model.CapaR Model.Generic Model.GenericCapa Proofs.GenericR Proofs.GenericCapaZ Proofs.GenericCapaR.
Import ListNotations.


Theorem C03_generic_loop_at_Z_is_the_model : forall (Sc : nat -> nat -> list Z) (Sp : nat -> list Z) (ac : Z) (bc : list Z) (ap : Z) (bp : list Z) (m M delay n : nat), gcapa Zn (gtiny_le Zn 0%Z) Sc Sp ac bc ap bp m M delay n = capa Sc Sp ac bc ap bp m M delay n.
Proof. exact @gcapa_Z. Qed.

Theorem C03_generic_penalise_at_Z_is_the_model : forall (sav : list Z) (alpha : Z) (betas : list Z), gpenalise Zn (gtiny_le Zn 0%Z) sav alpha betas = penalise sav alpha betas.
Proof. exact @gpenalise_Z. Qed.

Theorem C03_generic_affected_at_Z_is_the_model : forall (sav : list Z) (alpha : Z) (betas : list Z), gaffected Zn sav alpha betas = affected sav alpha betas.
Proof. exact @gaffected_Z. Qed.

Theorem C03_generic_loop_at_R_is_the_real_model : forall (Sc : nat -> nat -> list R) (Sp : nat -> list R) (ac : R) (bc : list R) (ap : R) (bp : list R) (m M delay n : nat), gcapa Rn (gtiny_le Rn 0) Sc Sp ac bc ap bp m M delay n = capaR Sc Sp ac bc ap bp m M delay n.
Proof. exact @gcapa_R. Qed.

Print Assumptions C03_generic_loop_at_Z_is_the_model.
Print Assumptions C03_generic_penalise_at_Z_is_the_model.
Print Assumptions C03_generic_affected_at_Z_is_the_model.
Print Assumptions C03_generic_loop_at_R_is_the_real_model.
