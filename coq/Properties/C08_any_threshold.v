(** C08 for ANY threshold: the code as it stands after the fixes D25 (removed candidates can never be selected again; the moving window looks at admissible
    positions only) is modelled in Model/GenericAny.v (a removed candidate is [None]).  It coincides with the model of Properties/C08.v for a non-negative
    threshold, and for EVERY threshold -- a tuned threshold can be slightly negative -- it terminates with a well-formed result. *)
From Coq Require Import ZArith List Bool Arith Sorted.
From SK Require Import Lib.Base Model.Mw Model.Sbs Model.Capa Model.Cbs Model.Generic Model.GenericAny.
From SK Require Import Proofs.GenericRank Proofs.GenericOrder Proofs.GenericSpec Proofs.AnyThreshold.
Import ListNotations.


Theorem C08_any_threshold_changepoints_in_range : forall (N : num) (CS : nat -> nat -> nat -> T N) (b n : nat) (thr : T N) (mdi c : nat), (2 * b <= n)%nat -> In c (snd (gmw_any N CS b n thr mdi)) -> (b <= c)%nat /\ (c + b <= n)%nat.
Proof. exact @gmw_any_in_range. Qed.

Theorem C08_any_threshold_changepoints_sorted : forall (N : num) (CS : nat -> nat -> nat -> T N) (b n : nat) (thr : T N) (mdi : nat), StronglySorted lt (snd (gmw_any N CS b n thr mdi)).
Proof. exact @gmw_any_sorted. Qed.

Theorem C08_any_threshold_agrees_with_model : forall (CS : nat -> nat -> nat -> T Zn) (b n : nat) (thr : Z) (mdi : nat), 0 <= thr -> (2 * b <= n)%nat -> gmw_any Zn CS b n thr mdi = mw CS b n thr mdi.
Proof. exact @mw_any_Z. Qed.

Theorem C08_any_threshold_agrees_for_any_numbers : forall (N : num) (thr : T N) (CS : nat -> nat -> nat -> T N) (b n mdi : nat), ltb N thr (zero N) = false -> (2 * b <= n)%nat -> gmw_any N CS b n thr mdi = gmw N CS b n thr mdi.
Proof. exact @gmw_any_agrees. Qed.

Print Assumptions C08_any_threshold_changepoints_in_range.
Print Assumptions C08_any_threshold_changepoints_sorted.
Print Assumptions C08_any_threshold_agrees_with_model.
Print Assumptions C08_any_threshold_agrees_for_any_numbers.
