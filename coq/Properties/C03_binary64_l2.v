(** C03 END TO END in binary64, CAPA with the L2 saving on one column: from the float DATA to the anomalies.  `gcapa F64 F64_tiny (l2ScF l) (l2SpF l) acf [0] apf [0] m M (m-1) n` is
    the run the harness compares bit for bit with the real CAPA FROM THE DATA (no saving table handed over: `l2_saving_F` is the kernel twin, itself compared bit for bit with
    `L2Saving.evaluate` by C06).  All premises are boolean and evaluated by `vm_compute` on every case of that stream (Check/FloatRunCheck.v).  Conclusion: the reported anomalies are
    valid and their total penalised saving (over the real numbers the floats denote; the objective of `C03_builtin_l2_saving_end_to_end`) is within an explicit bound of the maximum. *)
From Coq Require Import Reals List Bool Arith PrimFloat.
From SK Require Import Lib.Base Model.Capa Model.PeltR Model.CapaR Model.Generic Model.GenericF Model.GenericCapa Proofs.CapaSpec Proofs.CapaReal Proofs.RealLib Gen.KernelsR Proofs.FloatError Proofs.FloatRefine Proofs.GenericCapaWf Check.FloatSavingCheck Proofs.FloatSaving Proofs.CapaFloat Proofs.PeltFloatL2 Proofs.CapaFloatL2.
Import ListNotations.


Theorem C03_binary64_l2_penalised_saving_shape : forall x alpha : float, gpenalise F64 F64_tiny [x] alpha [0%float] = (x + - alpha)%float.
Proof. exact @penalise_l2_shape. Qed.

Theorem C03_binary64_l2_objective_is_the_real_models : forall (xs : list R) (alpha : R) (s e : nat), PcR (l2Sc [xs]) alpha [0] s e = l2_saving_R (prefix xs) s e - alpha.
Proof. exact @l2_pc_is_PcR. Qed.

Theorem C03_binary64_l2_end_to_end : forall (l : list float) (acf apf Magf : float) (m M : nat) (Sc : R) (scoresF : list float) (c p : list (nat * nat)), let n := length l in (2 <= m)%nat -> (m <= M)%nat -> INR n * u53 <= 1 / 100 -> l2_saving_all_trace_ok l = true -> capa_trace_finite F64_tiny (l2ScF l) (l2SpF l) acf apf [0%float] [0%float] m M (m - 1) n = true -> capa_mag_ok F64_tiny (l2ScF l) (l2SpF l) acf apf [0%float] [0%float] m M (m - 1) n Magf = true -> (forall a T : nat, (a < T <= n)%nat -> l2_saving_scale (map FR l) a T <= Sc) -> gcapa F64 F64_tiny (l2ScF l) (l2SpF l) acf [0%float] apf [0%float] m M (m - 1) n = (scoresF, c, p) -> let pc := fun s e : nat => l2_saving_R (prefix (map FR l)) s e - FR acf in let pp := fun t : nat => l2_saving_R (prefix (map FR l)) t (S t) - FR apf in let out := map to_anom (capa_predict false c p) in let Mag := FR Magf / (1 - u53) in let delta := (42 / 10 * INR n + 5) * u53 * Sc + u53 * Mag in Valid m M out n /\ (forall l' : list anom, Valid m M l' n -> totalR pc pp l' <= totalR pc pp out + 3 * INR n * (delta + u53 * Mag)).
Proof. exact @capa_F64_l2_end_to_end. Qed.

Theorem C03_binary64_l2_final_score : forall (l : list float) (acf apf Magf : float) (m M : nat) (Sc : R) (scoresF : list float) (c p : list (nat * nat)), let n := length l in (2 <= m)%nat -> (m <= M)%nat -> (1 <= n)%nat -> INR n * u53 <= 1 / 100 -> l2_saving_all_trace_ok l = true -> capa_trace_finite F64_tiny (l2ScF l) (l2SpF l) acf apf [0%float] [0%float] m M (m - 1) n = true -> capa_mag_ok F64_tiny (l2ScF l) (l2SpF l) acf apf [0%float] [0%float] m M (m - 1) n Magf = true -> (forall a T : nat, (a < T <= n)%nat -> l2_saving_scale (map FR l) a T <= Sc) -> gcapa F64 F64_tiny (l2ScF l) (l2SpF l) acf [0%float] apf [0%float] m M (m - 1) n = (scoresF, c, p) -> let pc := fun s e : nat => l2_saving_R (prefix (map FR l)) s e - FR acf in let pp := fun t : nat => l2_saving_R (prefix (map FR l)) t (S t) - FR apf in let out := map to_anom (capa_predict false c p) in let Mag := FR Magf / (1 - u53) in let delta := (42 / 10 * INR n + 5) * u53 * Sc + u53 * Mag in Rabs (FR (nthV F64 scoresF (n - 1)) - totalR pc pp out) <= INR n * (delta + u53 * Mag).
Proof. exact @capa_F64_l2_final_score. Qed.

Theorem C03_binary64_l2_end_to_end_all_premises_boolean : forall (l : list float) (acf apf Magf Bf : float) (m M : nat) (scoresF : list float) (c p : list (nat * nat)), let n := length l in (2 <= m)%nat -> (m <= M)%nat -> INR n * u53 <= 1 / 100 -> l2_saving_all_trace_ok l = true -> capa_trace_finite F64_tiny (l2ScF l) (l2SpF l) acf apf [0%float] [0%float] m M (m - 1) n = true -> capa_mag_ok F64_tiny (l2ScF l) (l2SpF l) acf apf [0%float] [0%float] m M (m - 1) n Magf = true -> l2_absmax_ok l Bf = true -> gcapa F64 F64_tiny (l2ScF l) (l2SpF l) acf [0%float] apf [0%float] m M (m - 1) n = (scoresF, c, p) -> let pc := fun s e : nat => l2_saving_R (prefix (map FR l)) s e - FR acf in let pp := fun t : nat => l2_saving_R (prefix (map FR l)) t (S t) - FR apf in let out := map to_anom (capa_predict false c p) in let Mag := FR Magf / (1 - u53) in let Sc := (INR n * FR Bf) ^ 2 in let delta := (42 / 10 * INR n + 5) * u53 * Sc + u53 * Mag in Valid m M out n /\ (forall l' : list anom, Valid m M l' n -> totalR pc pp l' <= totalR pc pp out + 3 * INR n * (delta + u53 * Mag)).
Proof. exact @capa_F64_l2_end_to_end_absmax. Qed.

Theorem C03_binary64_l2_example_within_1e9_of_optimal : forall l' : list anom, Valid 2 4 l' 8 -> totalR (fun s e : nat => l2_saving_R (prefix e3_xsR) s e - 8) (fun t : nat => l2_saving_R (prefix e3_xsR) t (S t) - 12) l' <= 43 + 1 / 1000000000.
Proof. exact @e3_end_to_end_1e9. Qed.

Print Assumptions C03_binary64_l2_penalised_saving_shape.
Print Assumptions C03_binary64_l2_objective_is_the_real_models.
Print Assumptions C03_binary64_l2_end_to_end.
Print Assumptions C03_binary64_l2_final_score.
Print Assumptions C03_binary64_l2_end_to_end_all_premises_boolean.
Print Assumptions C03_binary64_l2_example_within_1e9_of_optimal.
