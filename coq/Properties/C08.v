(** C08 -- moving window: symmetric two-sided scores and peak-of-run detections.
    [mw CS b n thr mdi] models moving_window_transform + where +
    get_moving_window_changepoints (code after "fix: moving window uses bandwidth samples
    before the split") for ANY aggregated change score [CS s k e]. *)
From Coq Require Import ZArith List Lia Sorted.
From SK Require Import Lib.Base Model.Mw Proofs.MwProofs.
Import ListNotations.
Open Scope Z_scope.

(** score at t = change score between X[t-b:t] and X[t:t+b] for b <= t <= n-b, 0 elsewhere *)
From SK Require Import Check.Scores Check.MwCheck Proofs.CheckerSoundness Proofs.ValidCuts.
From SK Require Import Model.Generic Proofs.GenericZ.
Theorem C08_scores : forall CS b n t, (t < n)%nat ->
  length (mw_scores CS b n) = n /\
  nthZ (mw_scores CS b n) t = if ((b <=? t)%nat && (t + b <=? n)%nat)%bool then CS (t - b)%nat t (t + b)%nat else 0.
Proof. intros. split; [apply mw_scores_length|apply mw_scores_nth; assumption]. Qed.

(** [where] returns exactly the maximal runs *)
Theorem C08_runs_are_maximal : forall l a z, In (a, z) (where_runs l) <->
  (a < z <= length l)%nat /\ (forall i, (a <= i < z)%nat -> nth i l false = true) /\
  (a = 0%nat \/ nth (a - 1) l false = false) /\ (z = length l \/ nth z l false = false).
Proof. exact where_runs_spec. Qed.

(** the changepoints are exactly the first maxima of the maximal above-threshold runs of
    length >= min_detection_interval *)
Theorem C08_changepoints_are_run_peaks : forall scores thr mdi c,
  In c (mw_cpts scores thr mdi) <->
  exists a z, In (a, z) (where_runs (map (fun v => thr <? v) scores)) /\ (mdi <= z - a)%nat /\ (a <= c < z)%nat /\
    (forall i, (a <= i < z)%nat -> nthZ scores i <= nthZ scores c) /\
    (forall i, (a <= i < c)%nat -> nthZ scores i < nthZ scores c).
Proof. exact mw_cpts_spec. Qed.

Theorem C08_changepoints_sorted : forall scores thr mdi, StronglySorted lt (mw_cpts scores thr mdi).
Proof. exact mw_cpts_sorted. Qed.

(** changepoints lie in [b, n-b] (C04) and score above the threshold *)
Theorem C08_changepoints_in_range : forall CS b n thr mdi c, 0 <= thr ->
  In c (snd (mw CS b n thr mdi)) -> (b <= c /\ c + b <= n)%nat.
Proof. exact mw_cpts_range. Qed.
Theorem C08_changepoints_above_threshold : forall scores thr mdi c,
  In c (mw_cpts scores thr mdi) -> (c < length scores)%nat /\ thr < nthZ scores c.
Proof. exact mw_cpts_above. Qed.

(** reversing the series in time maps the score at t to n - t *)
Theorem C08_reversal : forall CS b n t, (1 <= t < n)%nat ->
  nthZ (mw_scores (fun s k e => CS (n - e) (n - k) (n - s))%nat b n) t = nthZ (mw_scores CS b n) (n - t)%nat.
Proof. exact mw_reversal_scores. Qed.

Theorem C08_ext : forall CS1 CS2 b n thr mdi, (forall s k e, CS1 s k e = CS2 s k e) -> mw CS1 b n thr mdi = mw CS2 b n thr mdi.
Proof. exact mw_ext. Qed.

(** the originally pinned left window X[t-b+1:t] is NOT the symmetric score *)
Definition mw_scores_pinned (CS : nat -> nat -> nat -> Z) (b n : nat) : list Z :=
  map (fun t => if ((b <=? t)%nat && (t + b <=? n)%nat)%bool then CS (t - b + 1)%nat t (t + b)%nat else 0) (seq 0 n).
Theorem C08_left_window_refuted : exists CS b n t, (b <= t /\ t + b <= n)%nat /\
  nthZ (mw_scores_pinned CS b n) t <> CS (t - b)%nat t (t + b)%nat.
Proof. exists (fun s k e => Z.of_nat s), 2%nat, 4%nat, 2%nat. split; [lia|]. vm_compute. discriminate. Qed.

Print Assumptions C08_scores.
Print Assumptions C08_runs_are_maximal.
Print Assumptions C08_changepoints_are_run_peaks.
Print Assumptions C08_changepoints_sorted.
Print Assumptions C08_changepoints_in_range.
Print Assumptions C08_changepoints_above_threshold.
Print Assumptions C08_reversal.
Print Assumptions C08_ext.
Print Assumptions C08_left_window_refuted.

(** ---- added: statements re-derived from the lemma files by tools/append_props.py ---- *)
Theorem C08_scores_checker_sound : forall c : mw_case, mw_scores_ok c = true -> length (mc_scores c) = mc_n c /\ (forall t : nat, (t < mc_n c)%nat -> (mc_b c <= t)%nat -> (t + mc_b c <= mc_n c)%nat -> nthZ (mc_scores c) t = cs_agg (mc_score c) (t - mc_b c) t (t + mc_b c)) /\ (forall t : nat, (t < mc_b c)%nat \/ (mc_n c < t + mc_b c)%nat -> nthZ (mc_scores c) t = 0) /\ mc_scores c = mw_scores (cs_agg (mc_score c)) (mc_b c) (mc_n c).
Proof. exact @mw_scores_ok_sound. Qed.

Theorem C08_wellformedness_checker_sound : forall c : mw_case, mw_wf_ok c = true -> StronglySorted lt (mc_cpts c) /\ (forall i j : nat, (i < j < length (mc_cpts c))%nat -> (nthN (mc_cpts c) i < nthN (mc_cpts c) j)%nat) /\ (forall cp : nat, In cp (mc_cpts c) -> ((mc_b c <= cp)%nat /\ (cp + mc_b c <= mc_n c)%nat) /\ mc_thr c < nthZ (mc_scores c) cp).
Proof. exact @mw_wf_ok_sound. Qed.

Theorem C08_model_equality_checker_sound : forall c : mw_case, mw_model_eq c = true -> mw (cs_agg (mc_score c)) (mc_b c) (mc_n c) (mc_thr c) (mc_mdi c) = (mc_scores c, mc_cpts c).
Proof. exact @mw_model_eq_sound. Qed.

Theorem C08_reversal_checker_sound : forall (n : nat) (sc screv : list Z), mw_reversal_ok (n, sc, screv) = true -> forall t : nat, (1 <= t < n)%nat -> nthZ screv t = nthZ sc (n - t).
Proof. exact @mw_reversal_ok_sound. Qed.

Theorem C08_only_valid_cuts_matter : forall (CS1 CS2 : nat -> nat -> nat -> Z) (b n : nat) (thr : Z) (mdi : nat), (forall t : nat, (b <= t)%nat -> (t + b <= n)%nat -> CS1 (t - b)%nat t (t + b)%nat = CS2 (t - b)%nat t (t + b)%nat) -> mw CS1 b n thr mdi = mw CS2 b n thr mdi.
Proof. exact @mw_ext_valid. Qed.

Print Assumptions C08_scores_checker_sound.
Print Assumptions C08_wellformedness_checker_sound.
Print Assumptions C08_model_equality_checker_sound.
Print Assumptions C08_reversal_checker_sound.
Print Assumptions C08_only_valid_cuts_matter.

(** ---- added: statements re-derived from the lemma files by tools/append_props.py ---- *)
Theorem C08_generic_loop_at_Z_is_the_model : forall (CS : nat -> nat -> nat -> T Zn) (b n : nat) (thr : T Zn) (mdi : nat), gmw Zn CS b n thr mdi = mw CS b n thr mdi.
Proof. exact @gmw_Z. Qed.

Print Assumptions C08_generic_loop_at_Z_is_the_model.
