(** C09 END TO END in binary64, squared-error local anomaly score on one column: `gcbs_any F64 (local_l2_F xs) m thr ivs` is the run the harness compares bit for bit with the real
    CircularBinarySegmentation FROM THE DATA (`local_l2_F` = outer cost - (inner cost + cost of the concatenated surrounding rows, fitted afresh), on the kernel twin `l2_cost_F`).  Under
    the boolean premise `cbs_local_trace_ok` (evaluated on every case of that stream) and a finite threshold of any sign: the kernel is within the explicit `local_E` of the TRUE local
    anomaly score (residual sums of squares of the real numbers the floats denote); every reported anomaly is the first float maximiser of the inner intervals of some seeded interval,
    its true score exceeds the threshold up to the error (soundness); a candidate whose true score exceeds the threshold by more than the error forces a reported anomaly overlapping
    its seeded interval (completeness); the reported anomalies are sorted, disjoint and respect the minimum length (well-formedness, no real-number axiom). *)
From Coq Require Import Reals Lra Lia List Arith ZArith Bool Floats Psatz Sorted.
From Flocq Require Import Core Relative BinarySingleNaN.
From Flocq Require IEEE754.PrimFloat.
From SK Require Import Gen.KernelsR Proofs.RealLib Proofs.CostKernels Proofs.ScoreKernels Proofs.FloatError
  Check.FloatKernelCheck Check.FloatKernelCheck2 Proofs.FloatRefine Proofs.FloatKernels2 Proofs.PeltFloat Proofs.PeltFloatL2.
(* the list vocabulary of the detectors ([slice] on any list) is imported last: it shadows the real-number one *)
From SK Require Import Lib.Base Model.Mw Model.Sbs Model.Capa Model.Cbs Model.PeltR Model.Generic Model.GenericF Model.GenericAny.
From SK Require Import Proofs.ArgmaxLemmas Proofs.MwProofs Proofs.CbsProofs Proofs.GenericRank Proofs.GenericOrder Proofs.GenericSpec
  Proofs.GenericInstances Proofs.AnyThreshold Proofs.AnyThresholdF Proofs.MwSbsFloatCusum Check.FloatRunCheck.
Import ListNotations.
From SK Require Import Proofs.CbsFloatL2.


Theorem C09_binary64_local_score_within_bound_of_true_score : forall (l : list PrimFloat.float) (s a b e : nat), local_l2_trace_ok l s a b e = true -> small_n (length l) = true -> (Rabs (FR (local_l2_F l s a b e) - local_R (map FR l) s a b e) <= local_E l s a b e)%R.
Proof. exact @local_l2_F_vs_R. Qed.

Theorem C09_binary64_l2_interval_maximum : forall (xs : list PrimFloat.float) (m : nat) (thr : PrimFloat.float) (ivs anoms : list (nat * nat)) (am : list (nat * nat * PrimFloat.float)), cbs_local_trace_ok xs m ivs = true -> gcbs_any F64 (local_l2_F xs) m thr ivs = Some (anoms, am) -> length am = length ivs /\ (forall i s e : nat, (i < length ivs)%nat -> nth i ivs (0%nat, 0%nat) = (s, e) -> anomaly_intervals s e m = [] /\ nth i am (0%nat, 0%nat, 0%float) = (0%nat, 0%nat, 0%float) \/ (exists a b : nat, nth i am (0%nat, 0%nat, 0%float) = (a, b, local_l2_F xs s a b e) /\ In (a, b) (anomaly_intervals s e m) /\ ((s < a)%nat /\ (a + m <= b)%nat /\ (b < e)%nat /\ (m <= e - b + (a - s))%nat) /\ finF (local_l2_F xs s a b e) = true /\ (forall a' b' : nat, In (a', b') (anomaly_intervals s e m) -> (local_l2_F xs s a b e <? local_l2_F xs s a' b' e)%float = false) /\ (exists j : nat, (j < length (anomaly_intervals s e m))%nat /\ nth j (anomaly_intervals s e m) (0%nat, 0%nat) = (a, b) /\ (forall j' : nat, (j' < j)%nat -> (local_l2_F xs s (fst (nth j' (anomaly_intervals s e m) (0%nat, 0%nat))) (snd (nth j' (anomaly_intervals s e m) (0%nat, 0%nat))) e <? local_l2_F xs s a b e)%float = true)) /\ (Rabs (FR (local_l2_F xs s a b e) - local_R (map FR xs) s a b e) <= local_E xs s a b e)%R /\ (forall a' b' : nat, In (a', b') (anomaly_intervals s e m) -> (local_R (map FR xs) s a' b' e - local_E xs s a' b' e <= FR (local_l2_F xs s a b e))%R) /\ (forall a' b' : nat, In (a', b') (anomaly_intervals s e m) -> (local_R (map FR xs) s a' b' e <= local_R (map FR xs) s a b e + local_E xs s a b e + local_E xs s a' b' e)%R))).
Proof. exact @cbs_F64_local_interval_max. Qed.

Theorem C09_binary64_l2_sound : forall (xs : list PrimFloat.float) (m : nat) (thr : PrimFloat.float) (ivs anoms : list (nat * nat)) (am : list (nat * nat * PrimFloat.float)), cbs_local_trace_ok xs m ivs = true -> finF thr = true -> gcbs_any F64 (local_l2_F xs) m thr ivs = Some (anoms, am) -> forall a b : nat, In (a, b) anoms -> exists i s e : nat, (i < length ivs)%nat /\ nth i ivs (0%nat, 0%nat) = (s, e) /\ nth i am (0%nat, 0%nat, 0%float) = (a, b, local_l2_F xs s a b e) /\ In (a, b) (anomaly_intervals s e m) /\ ((s < a)%nat /\ (a + m <= b)%nat /\ (b < e)%nat /\ (e <= length xs)%nat /\ (m <= e - b + (a - s))%nat) /\ (thr <? local_l2_F xs s a b e)%float = true /\ (forall a' b' : nat, In (a', b') (anomaly_intervals s e m) -> (local_l2_F xs s a b e <? local_l2_F xs s a' b' e)%float = false) /\ (local_R (map FR xs) s a b e > FR thr - local_E xs s a b e)%R /\ (forall a' b' : nat, In (a', b') (anomaly_intervals s e m) -> (local_R (map FR xs) s a' b' e <= local_R (map FR xs) s a b e + local_E xs s a b e + local_E xs s a' b' e)%R).
Proof. exact @cbs_F64_local_sound. Qed.

Theorem C09_binary64_l2_complete : forall (xs : list PrimFloat.float) (m : nat) (thr : PrimFloat.float) (ivs anoms : list (nat * nat)) (am : list (nat * nat * PrimFloat.float)), cbs_local_trace_ok xs m ivs = true -> finF thr = true -> gcbs_any F64 (local_l2_F xs) m thr ivs = Some (anoms, am) -> forall i s e a b : nat, (i < length ivs)%nat -> nth i ivs (0%nat, 0%nat) = (s, e) -> In (a, b) (anomaly_intervals s e m) -> (local_R (map FR xs) s a b e > FR thr + local_E xs s a b e)%R -> (thr <? local_l2_F xs s a b e)%float = true /\ (thr <? snd (nth i am (0%nat, 0%nat, 0)))%float = true /\ (exists a' b' : nat, In (a', b') anoms /\ (s < b')%nat /\ (a' < e)%nat).
Proof. exact @cbs_F64_local_complete. Qed.

Theorem C09_binary64_l2_wellformed : forall (xs : list PrimFloat.float) (m : nat) (thr : PrimFloat.float) (ivs anoms : list (nat * nat)) (am : list (nat * nat * PrimFloat.float)), cbs_local_trace_ok xs m ivs = true -> gcbs_any F64 (local_l2_F xs) m thr ivs = Some (anoms, am) -> (forall i : nat, (S i < length anoms)%nat -> (fst (nthP anoms i) < fst (nthP anoms (S i)))%nat /\ (snd (nthP anoms i) <= fst (nthP anoms (S i)))%nat) /\ (forall a b : nat, In (a, b) anoms -> (1 <= a)%nat /\ (a + m <= b <= length xs - 1)%nat).
Proof. exact @cbs_F64_local_wellformed. Qed.

Theorem C09_binary64_l2_example_premise : cbs_local_trace_ok demo_bump 2 demo_civs = true.
Proof. exact @demo_cbs_premise. Qed.

Theorem C09_binary64_l2_example_error_small : (local_E demo_bump 2 4 8 10 <= 1 / 1000000000)%R.
Proof. exact @demo_cbs_error_small. Qed.

Print Assumptions C09_binary64_local_score_within_bound_of_true_score.
Print Assumptions C09_binary64_l2_interval_maximum.
Print Assumptions C09_binary64_l2_sound.
Print Assumptions C09_binary64_l2_complete.
Print Assumptions C09_binary64_l2_wellformed.
Print Assumptions C09_binary64_l2_example_premise.
Print Assumptions C09_binary64_l2_example_error_small.
