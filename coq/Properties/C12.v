(** C12 -- detections respect the model's symmetries: permutation, shift, scale, reversal.

    Kernel level (over Coq's reals, on the kernels REGENERATED from /repo): shift invariance of the
    optimal-parameter costs and of CUSUM, positive-scale behaviour (the n ln a^2 terms cancel in
    Gaussian change / local scores), time reversal maps values to those of the mirrored cuts,
    per-column kernels commute with column permutations and their sum is permutation invariant.
    Algorithm level (exact, any score function): every detector model is a function of the
    aggregated score values only (extensionality), CAPA / MVCAPA are invariant under permutation
    of the per-column saving vectors and MVCAPA's affected columns are permuted accordingly,
    PELT's optimal penalised cost is unchanged by time reversal, moving-window scores at t map
    to n - t. *)
From Coq Require Import Reals ZArith List Arith Permutation.
From SK Require Import Lib.Base Gen.KernelsR Proofs.RealLib Proofs.ScoreKernels Proofs.Symmetry.
From SK Require Import Model.Pelt Proofs.PeltSpec Proofs.PeltRefine Model.Capa Proofs.CapaSymmetry.
From SK Require Import Model.Sbs Proofs.SbsProofs Model.Cbs Proofs.CbsProofs Model.Mw Proofs.MwProofs.
Import ListNotations.


From SK Require Import Model.PeltR Model.Generic Proofs.GenericR Proofs.PeltReal Proofs.SymmetryDetectors.
Theorem C12_l2_cost_shift : forall (c : R) (xs : list R) (s e : nat), (s < e <= length xs)%nat -> l2_cost_optim_R (P1 (shift c xs)) (P2 (shift c xs)) s e = l2_cost_optim_R (P1 xs) (P2 xs) s e.
Proof. exact @l2_optim_shift. Qed.

Theorem C12_gaussian_cost_shift : forall (c : R) (xs : list R) (s e : nat), (s < e <= length xs)%nat -> gaussian_var_cost_optim_R (P1 (shift c xs)) (P2 (shift c xs)) s e = gaussian_var_cost_optim_R (P1 xs) (P2 xs) s e.
Proof. exact @gvar_optim_shift. Qed.

Theorem C12_cusum_shift : forall (c : R) (xs : list R) (s k e : nat), (s < k < e)%nat -> (e <= length xs)%nat -> cusum_score_R (P1 (shift c xs)) s k e = cusum_score_R (P1 xs) s k e.
Proof. exact @cusum_shift. Qed.

Theorem C12_local_gaussian_score_shift : forall (c : R) (whole inner before after : list R), local_gcost (shift c whole) (shift c inner) (shift c before) (shift c after) = local_gcost whole inner before after.
Proof. exact @local_gcost_shift. Qed.

Theorem C12_gaussian_cost_scale : forall (a : R) (xs : list R) (s e : nat), (0 < a)%R -> (s < e <= length xs)%nat -> (floor_var <= uvar_se xs s e)%R -> (floor_var <= uvar_se (scale a xs) s e)%R -> gaussian_var_cost_optim_R (P1 (scale a xs)) (P2 (scale a xs)) s e = (gaussian_var_cost_optim_R (P1 xs) (P2 xs) s e + INR (e - s) * ln (a ^ 2))%R.
Proof. exact @gvar_optim_scale. Qed.

Theorem C12_gaussian_change_score_scale : forall (a : R) (xs : list R) (s k e : nat), (0 < a)%R -> (s < k < e)%nat -> (e <= length xs)%nat -> (floor_var <= uvar_se xs s e)%R -> (floor_var <= uvar_se (scale a xs) s e)%R -> (floor_var <= uvar_se xs s k)%R -> (floor_var <= uvar_se (scale a xs) s k)%R -> (floor_var <= uvar_se xs k e)%R -> (floor_var <= uvar_se (scale a xs) k e)%R -> let C := gaussian_var_cost_optim_R (P1 xs) (P2 xs) in let C' := gaussian_var_cost_optim_R (P1 (scale a xs)) (P2 (scale a xs)) in (C' s e - (C' s k + C' k e))%R = (C s e - (C s k + C k e))%R.
Proof. exact @gvar_change_score_scale. Qed.

Theorem C12_local_gaussian_score_scale : forall (a : R) (whole inner before after : list R), (0 < a)%R -> length whole = (length inner + length (before ++ after))%nat -> (0 < varR whole)%R -> (0 < varR inner)%R -> (0 < varR (before ++ after))%R -> local_gcost (scale a whole) (scale a inner) (scale a before) (scale a after) = local_gcost whole inner before after.
Proof. exact @local_gcost_scale. Qed.

Theorem C12_l2_cost_reversal : forall (xs : list R) (s e : nat), (s < e <= length xs)%nat -> l2_cost_optim_R (P1 (rev xs)) (P2 (rev xs)) (length xs - e) (length xs - s) = l2_cost_optim_R (P1 xs) (P2 xs) s e.
Proof. exact @l2_optim_rev. Qed.

Theorem C12_l2_fixed_cost_reversal : forall (xs : list R) (mu : R) (s e : nat), (s < e <= length xs)%nat -> l2_cost_fixed_R (P1 (rev xs)) (P2 (rev xs)) mu (length xs - e) (length xs - s) = l2_cost_fixed_R (P1 xs) (P2 xs) mu s e.
Proof. exact @l2_fixed_rev. Qed.

Theorem C12_gaussian_cost_reversal : forall (xs : list R) (s e : nat), (s < e <= length xs)%nat -> gaussian_var_cost_optim_R (P1 (rev xs)) (P2 (rev xs)) (length xs - e) (length xs - s) = gaussian_var_cost_optim_R (P1 xs) (P2 xs) s e.
Proof. exact @gvar_optim_rev. Qed.

Theorem C12_gaussian_fixed_cost_reversal : forall (xs : list R) (mu v : R) (s e : nat), (s < e <= length xs)%nat -> gaussian_var_cost_fixed_R (P1 (rev xs)) (P2 (rev xs)) mu v (length xs - e) (length xs - s) = gaussian_var_cost_fixed_R (P1 xs) (P2 xs) mu v s e.
Proof. exact @gvar_fixed_rev. Qed.

Theorem C12_l2_saving_reversal : forall (xs : list R) (s e : nat), (s < e <= length xs)%nat -> l2_saving_R (P1 (rev xs)) (length xs - e) (length xs - s) = l2_saving_R (P1 xs) s e.
Proof. exact @l2_saving_rev. Qed.

Theorem C12_cusum_reversal : forall (xs : list R) (s k e : nat), (s < k < e)%nat -> (e <= length xs)%nat -> cusum_score_R (P1 (rev xs)) (length xs - e) (length xs - k) (length xs - s) = cusum_score_R (P1 xs) s k e.
Proof. exact @cusum_rev. Qed.

Theorem C12_change_score_reversal : forall (xs : list R) (C C' : nat -> nat -> R) (s k e : nat), (forall a b : nat, (a < b <= length xs)%nat -> C' (length xs - b)%nat (length xs - a)%nat = C a b) -> (s < k < e)%nat -> (e <= length xs)%nat -> change_score C' (length xs - e) (length xs - k) (length xs - s) = change_score C s k e.
Proof. exact @change_score_rev. Qed.

Theorem C12_per_column_outputs_permute : forall (kern : (nat -> R) -> (nat -> R) -> nat -> nat -> R) (cols cols' : list (list R)) (s e : nat), Permutation cols cols' -> Permutation (per_column kern cols s e) (per_column kern cols' s e).
Proof. exact @per_column_perm. Qed.

Theorem C12_per_column_cut_outputs_permute : forall (kern : (nat -> R) -> nat -> nat -> nat -> R) (cols cols' : list (list R)) (s k e : nat), Permutation cols cols' -> Permutation (per_column_cut kern cols s k e) (per_column_cut kern cols' s k e).
Proof. exact @per_column_cut_perm. Qed.

Theorem C12_aggregate_permutation_invariant : forall (kern : (nat -> R) -> (nat -> R) -> nat -> nat -> R) (cols cols' : list (list R)) (s e : nat), Permutation cols cols' -> sumR (per_column kern cols s e) = sumR (per_column kern cols' s e).
Proof. exact @aggregated_perm. Qed.

Theorem C12_aggregate_cut_permutation_invariant : forall (kern : (nat -> R) -> nat -> nat -> nat -> R) (cols cols' : list (list R)) (s k e : nat), Permutation cols cols' -> sumR (per_column_cut kern cols s k e) = sumR (per_column_cut kern cols' s k e).
Proof. exact @aggregated_cut_perm. Qed.

Theorem C12_pelt_depends_on_scores_only : forall (C1 C2 : nat -> nat -> Z) (pen : Z) (m delay n : nat), (forall s e : nat, C1 s e = C2 s e) -> pelt C1 pen m delay n = pelt C2 pen m delay n.
Proof. exact @pelt_ext. Qed.

Theorem C12_sbs_depends_on_scores_only : forall (CS1 CS2 : nat -> nat -> nat -> Z) (m : nat) (thr : Z) (ivs : list (nat * nat)), (forall s k e : nat, CS1 s k e = CS2 s k e) -> sbs CS1 m thr ivs = sbs CS2 m thr ivs.
Proof. exact @sbs_ext. Qed.

Theorem C12_cbs_depends_on_scores_only : forall (LS1 LS2 : nat -> nat -> nat -> nat -> Z) (m : nat) (thr : Z) (ivs : list (nat * nat)), (forall s a z e : nat, LS1 s a z e = LS2 s a z e) -> cbs LS1 m thr ivs = cbs LS2 m thr ivs.
Proof. exact @cbs_ext. Qed.

Theorem C12_mw_depends_on_scores_only : forall (CS1 CS2 : nat -> nat -> nat -> Z) (b n : nat) (thr : Z) (mdi : nat), (forall s k e : nat, CS1 s k e = CS2 s k e) -> mw CS1 b n thr mdi = mw CS2 b n thr mdi.
Proof. exact @mw_ext. Qed.

Theorem C12_capa_depends_on_savings_only : forall (Sc1 Sc2 : nat -> nat -> list Z) (Sp1 Sp2 : nat -> list Z) (ac : Z) (bc : list Z) (ap : Z) (bp : list Z) (m M delay n : nat), (forall s e : nat, Sc1 s e = Sc2 s e) -> (forall t : nat, Sp1 t = Sp2 t) -> capa Sc1 Sp1 ac bc ap bp m M delay n = capa Sc2 Sp2 ac bc ap bp m M delay n.
Proof. exact @capa_ext. Qed.

Theorem C12_penalised_saving_column_order : forall (sav sav' : list Z) (alpha : Z) (betas : list Z), Permutation sav sav' -> penalise sav alpha betas = penalise sav' alpha betas.
Proof. exact @penalise_perm. Qed.

Theorem C12_capa_column_permutation : forall (Sc1 Sc2 : nat -> nat -> list Z) (Sp1 Sp2 : nat -> list Z) (ac : Z) (bc : list Z) (ap : Z) (bp : list Z) (m M delay n : nat), (forall s e : nat, Permutation (Sc1 s e) (Sc2 s e)) -> (forall t : nat, Permutation (Sp1 t) (Sp2 t)) -> capa Sc1 Sp1 ac bc ap bp m M delay n = capa Sc2 Sp2 ac bc ap bp m M delay n.
Proof. exact @capa_column_perm. Qed.

Theorem C12_affected_columns_permute : forall (p : nat) (sigma : list nat) (sav : list Z), Permutation sigma (seq 0 p) -> length sav = p -> NoDup sav -> forall (alpha : Z) (betas : list Z), map (fun j : nat => nth j sigma 0%nat) (affected (map (fun j : nat => nthZ sav (nth j sigma 0%nat)) (seq 0 p)) alpha betas) = affected sav alpha betas.
Proof. exact @affected_perm. Qed.

Theorem C12_pelt_optimal_cost_reversal : forall (C : nat -> nat -> Z) (pen : Z) (m n : nat), (1 <= m)%nat -> F (Crev C n) pen m n = F C pen m n.
Proof. exact @F_reverse. Qed.

Theorem C12_mw_scores_reversal : forall (CS : nat -> nat -> nat -> Z) (b n t : nat), (1 <= t < n)%nat -> nthZ (mw_scores (fun s k e : nat => CS (n - e)%nat (n - k)%nat (n - s)%nat) b n) t = nthZ (mw_scores CS b n) (n - t).
Proof. exact @mw_reversal_scores. Qed.

Print Assumptions C12_l2_cost_shift.
Print Assumptions C12_gaussian_cost_shift.
Print Assumptions C12_cusum_shift.
Print Assumptions C12_local_gaussian_score_shift.
Print Assumptions C12_gaussian_cost_scale.
Print Assumptions C12_gaussian_change_score_scale.
Print Assumptions C12_local_gaussian_score_scale.
Print Assumptions C12_l2_cost_reversal.
Print Assumptions C12_l2_fixed_cost_reversal.
Print Assumptions C12_gaussian_cost_reversal.
Print Assumptions C12_gaussian_fixed_cost_reversal.
Print Assumptions C12_l2_saving_reversal.
Print Assumptions C12_cusum_reversal.
Print Assumptions C12_change_score_reversal.
Print Assumptions C12_per_column_outputs_permute.
Print Assumptions C12_per_column_cut_outputs_permute.
Print Assumptions C12_aggregate_permutation_invariant.
Print Assumptions C12_aggregate_cut_permutation_invariant.
Print Assumptions C12_pelt_depends_on_scores_only.
Print Assumptions C12_sbs_depends_on_scores_only.
Print Assumptions C12_cbs_depends_on_scores_only.
Print Assumptions C12_mw_depends_on_scores_only.
Print Assumptions C12_capa_depends_on_savings_only.
Print Assumptions C12_penalised_saving_column_order.
Print Assumptions C12_capa_column_permutation.
Print Assumptions C12_affected_columns_permute.
Print Assumptions C12_pelt_optimal_cost_reversal.
Print Assumptions C12_mw_scores_reversal.

(** ---- added: statements re-derived from the lemma files by tools/append_props.py ---- *)
Theorem C12_pelt_output_shift_invariant_l2 : forall (c : R) (xs : list R) (pen : R) (m : nat), (1 <= m)%nat -> (2 * m - 1 <= length xs)%nat -> peltR (l2_cost_optim_R (prefix (shift c xs)) (prefix (sq (shift c xs)))) pen m (m - 1) (length xs) = peltR (l2_cost_optim_R (prefix xs) (prefix (sq xs))) pen m (m - 1) (length xs).
Proof. exact @pelt_l2_shift. Qed.

Theorem C12_pelt_output_shift_invariant_gaussian : forall (c : R) (xs : list R) (pen : R) (m : nat), (1 <= m)%nat -> (2 * m - 1 <= length xs)%nat -> peltR (gaussian_var_cost_optim_R (prefix (shift c xs)) (prefix (sq (shift c xs)))) pen m (m - 1) (length xs) = peltR (gaussian_var_cost_optim_R (prefix xs) (prefix (sq xs))) pen m (m - 1) (length xs).
Proof. exact @pelt_gvar_shift. Qed.

Theorem C12_pelt_output_shift_invariant_multicolumn : forall (cxs : list (R * list R)) (pen : R) (m delay n : nat), (1 <= m)%nat -> (2 * m - 1 <= n)%nat -> (forall cx : R * list R, In cx cxs -> length (snd cx) = n) -> peltR (l2_multi (shift_cols cxs)) pen m delay n = peltR (l2_multi (map snd cxs)) pen m delay n.
Proof. exact @pelt_l2_multicolumn_shift. Qed.

Theorem C12_moving_window_output_shift_invariant_cusum : forall (c : R) (xs : list R) (b : nat) (thr : R) (mdi : nat), (1 <= b)%nat -> gmw Rn (cusum_score_R (prefix (shift c xs))) b (length xs) thr mdi = gmw Rn (cusum_score_R (prefix xs)) b (length xs) thr mdi.
Proof. exact @mw_cusum_shift. Qed.

Theorem C12_moving_window_output_shift_invariant_l2 : forall (c : R) (xs : list R) (b : nat) (thr : R) (mdi : nat), (1 <= b)%nat -> gmw Rn (ScoreKernels.change_score (l2_cost_optim_R (prefix (shift c xs)) (prefix (sq (shift c xs))))) b (length xs) thr mdi = gmw Rn (ScoreKernels.change_score (l2_cost_optim_R (prefix xs) (prefix (sq xs)))) b (length xs) thr mdi.
Proof. exact @mw_l2_shift. Qed.

Theorem C12_moving_window_output_shift_invariant_gaussian : forall (c : R) (xs : list R) (b : nat) (thr : R) (mdi : nat), (1 <= b)%nat -> gmw Rn (ScoreKernels.change_score (gaussian_var_cost_optim_R (prefix (shift c xs)) (prefix (sq (shift c xs))))) b (length xs) thr mdi = gmw Rn (ScoreKernels.change_score (gaussian_var_cost_optim_R (prefix xs) (prefix (sq xs)))) b (length xs) thr mdi.
Proof. exact @mw_gvar_shift. Qed.

Theorem C12_seeded_binseg_output_shift_invariant_cusum : forall (c : R) (xs : list R) (m : nat) (thr : R) (ivs : list (nat * nat)), (1 <= m)%nat -> ivs_inside ivs (length xs) -> gsbs Rn (cusum_score_R (prefix (shift c xs))) m thr ivs = gsbs Rn (cusum_score_R (prefix xs)) m thr ivs.
Proof. exact @sbs_cusum_shift. Qed.

Theorem C12_seeded_binseg_output_shift_invariant_l2 : forall (c : R) (xs : list R) (m : nat) (thr : R) (ivs : list (nat * nat)), (1 <= m)%nat -> ivs_inside ivs (length xs) -> gsbs Rn (ScoreKernels.change_score (l2_cost_optim_R (prefix (shift c xs)) (prefix (sq (shift c xs))))) m thr ivs = gsbs Rn (ScoreKernels.change_score (l2_cost_optim_R (prefix xs) (prefix (sq xs)))) m thr ivs.
Proof. exact @sbs_l2_shift. Qed.

Theorem C12_circular_binseg_output_shift_invariant_l2 : forall (c : R) (xs : list R) (m : nat) (thr : R) (ivs : list (nat * nat)), (1 <= m)%nat -> ivs_inside ivs (length xs) -> gcbs Rn (l2_local (shift c xs)) m thr ivs = gcbs Rn (l2_local xs) m thr ivs.
Proof. exact @cbs_l2_shift. Qed.

Theorem C12_circular_binseg_output_shift_invariant_gaussian : forall (c : R) (xs : list R) (m : nat) (thr : R) (ivs : list (nat * nat)), (1 <= m)%nat -> ivs_inside ivs (length xs) -> gcbs Rn (gvar_local (shift c xs)) m thr ivs = gcbs Rn (gvar_local xs) m thr ivs.
Proof. exact @cbs_gvar_shift. Qed.

Theorem C12_pelt_changepoints_scale_invariant_gaussian : forall (a : R) (xs : list R) (pen : R) (m : nat), 0 < a -> (1 <= m)%nat -> (2 * m - 1 <= length xs)%nat -> (forall s e : nat, (s + m <= e)%nat -> (e <= length xs)%nat -> floor_ok a xs s e) -> snd (peltR (gaussian_var_cost_optim_R (prefix (scale a xs)) (prefix (sq (scale a xs)))) pen m (m - 1) (length xs)) = snd (peltR (gaussian_var_cost_optim_R (prefix xs) (prefix (sq xs))) pen m (m - 1) (length xs)).
Proof. exact @pelt_gvar_scale. Qed.

Theorem C12_moving_window_output_scale_invariant_gaussian : forall (a : R) (xs : list R) (b : nat) (thr : R) (mdi : nat), 0 < a -> (1 <= b)%nat -> (forall t : nat, (b <= t)%nat -> (t + b <= length xs)%nat -> floor_ok a xs (t - b) (t + b) /\ floor_ok a xs (t - b) t /\ floor_ok a xs t (t + b)) -> gmw Rn (ScoreKernels.change_score (gaussian_var_cost_optim_R (prefix (scale a xs)) (prefix (sq (scale a xs))))) b (length xs) thr mdi = gmw Rn (ScoreKernels.change_score (gaussian_var_cost_optim_R (prefix xs) (prefix (sq xs)))) b (length xs) thr mdi.
Proof. exact @mw_gvar_scale. Qed.

Theorem C12_seeded_binseg_output_scale_invariant_gaussian : forall (a : R) (xs : list R) (m : nat) (thr : R) (ivs : list (nat * nat)), 0 < a -> (1 <= m)%nat -> ivs_inside ivs (length xs) -> (forall s e k : nat, In (s, e) ivs -> (s + m <= k)%nat -> (k + m <= e)%nat -> floor_ok a xs s e /\ floor_ok a xs s k /\ floor_ok a xs k e) -> gsbs Rn (ScoreKernels.change_score (gaussian_var_cost_optim_R (prefix (scale a xs)) (prefix (sq (scale a xs))))) m thr ivs = gsbs Rn (ScoreKernels.change_score (gaussian_var_cost_optim_R (prefix xs) (prefix (sq xs)))) m thr ivs.
Proof. exact @sbs_gvar_scale. Qed.

Theorem C12_circular_binseg_output_scale_invariant_gaussian : forall (a : R) (xs : list R) (m : nat) (thr : R) (ivs : list (nat * nat)), 0 < a -> (1 <= m)%nat -> ivs_inside ivs (length xs) -> (forall s e i j : nat, In (s, e) ivs -> In (i, j) (anomaly_intervals s e m) -> floor_ok a xs s e /\ floor_ok a xs i j /\ pooled_floor_ok a xs s i j e) -> gcbs Rn (gvar_local (scale a xs)) m thr ivs = gcbs Rn (gvar_local xs) m thr ivs.
Proof. exact @cbs_gvar_scale. Qed.

Theorem C12_pelt_optimal_cost_reversal_invariant_l2 : forall (xs : list R) (pen : R) (m : nat), (1 <= m)%nat -> FR (l2_cost_optim_R (prefix (rev xs)) (prefix (sq (rev xs)))) pen m (length xs) = FR (l2_cost_optim_R (prefix xs) (prefix (sq xs))) pen m (length xs).
Proof. exact @FR_l2_rev. Qed.

Theorem C12_pelt_final_score_reversal_invariant_l2 : forall (xs : list R) (pen : R) (m : nat), (1 <= m)%nat -> (2 * m <= length xs)%nat -> 0 <= pen -> nth (length xs - 1) (fst (peltR (l2_cost_optim_R (prefix (rev xs)) (prefix (sq (rev xs)))) pen m (m - 1) (length xs))) 0 = nth (length xs - 1) (fst (peltR (l2_cost_optim_R (prefix xs) (prefix (sq xs))) pen m (m - 1) (length xs))) 0.
Proof. exact @pelt_l2_rev_final_score. Qed.

Theorem C12_pelt_only_valid_cuts_matter_over_reals : forall (C1 C2 : nat -> nat -> R) (pen : R) (m n : nat), (1 <= m)%nat -> (2 * m - 1 <= n)%nat -> (forall s e : nat, (s + m <= e)%nat -> (e <= n)%nat -> C1 s e = C2 s e) -> peltR C1 pen m (m - 1) n = peltR C2 pen m (m - 1) n.
Proof. exact @peltR_ext_valid. Qed.

Print Assumptions C12_pelt_output_shift_invariant_l2.
Print Assumptions C12_pelt_output_shift_invariant_gaussian.
Print Assumptions C12_pelt_output_shift_invariant_multicolumn.
Print Assumptions C12_moving_window_output_shift_invariant_cusum.
Print Assumptions C12_moving_window_output_shift_invariant_l2.
Print Assumptions C12_moving_window_output_shift_invariant_gaussian.
Print Assumptions C12_seeded_binseg_output_shift_invariant_cusum.
Print Assumptions C12_seeded_binseg_output_shift_invariant_l2.
Print Assumptions C12_circular_binseg_output_shift_invariant_l2.
Print Assumptions C12_circular_binseg_output_shift_invariant_gaussian.
Print Assumptions C12_pelt_changepoints_scale_invariant_gaussian.
Print Assumptions C12_moving_window_output_scale_invariant_gaussian.
Print Assumptions C12_seeded_binseg_output_scale_invariant_gaussian.
Print Assumptions C12_circular_binseg_output_scale_invariant_gaussian.
Print Assumptions C12_pelt_optimal_cost_reversal_invariant_l2.
Print Assumptions C12_pelt_final_score_reversal_invariant_l2.
Print Assumptions C12_pelt_only_valid_cuts_matter_over_reals.
