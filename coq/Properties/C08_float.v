(** C08, transferred: the specification theorems of the greedy search for ANY number type whose comparison is a strict weak order on the
    values read (Proofs/GenericSpec.v, derived from Properties/C08.v through an order embedding into Z), and their instances for binary64
    scores without NaN (Proofs/GenericInstances.v: PrimFloat.ltb is a strict weak order on non-NaN floats, infinities included). *)
From Coq Require Import ZArith List Bool Arith Floats.
From SK Require Import Lib.Base Model.Mw Model.Sbs Model.Capa Model.Cbs Model.Generic Model.GenericF.
From SK Require Import Proofs.GenericRank Proofs.GenericOrder Proofs.GenericSpec Proofs.GenericInstances.
Import ListNotations.


Theorem C08_float_F64_swo : swo F64 nonnan.
Proof. exact @F64_swo. Qed.

Theorem C08_float_F64_C08_run : forall (CS : nat -> nat -> nat -> float) (b n : nat) (thr : float) (mdi : nat) (scores : list (T F64)) (cpts : list nat), (forall t : nat, (b <= t)%nat -> (t + b <= n)%nat -> nonnan (CS (t - b)%nat t (t + b)%nat)) -> nonnan thr -> gmw F64 CS b n thr mdi = (scores, cpts) -> scores = gmw_scores F64 CS b n /\ Forall nonnan scores /\ Sorted.StronglySorted lt cpts /\ (forall c : nat, In c cpts <-> (exists a z : nat, In (a, z) (where_runs (map (fun v : float => (thr <? v)%float) scores)) /\ (mdi <= z - a)%nat /\ (a <= c < z)%nat /\ (forall i : nat, (a <= i < z)%nat -> (nthV F64 scores c <? nthV F64 scores i)%float = false) /\ (forall i : nat, (a <= i < c)%nat -> (nthV F64 scores i <? nthV F64 scores c)%float = true))).
Proof. exact @F64_C08_run. Qed.

Theorem C08_float_F64_C08_changepoints_in_range : forall (CS : nat -> nat -> nat -> float) (b n : nat) (thr : float) (mdi c : nat), (forall t : nat, (b <= t)%nat -> (t + b <= n)%nat -> nonnan (CS (t - b)%nat t (t + b)%nat)) -> nonnan thr -> (thr <? 0)%float = false -> In c (snd (gmw F64 CS b n thr mdi)) -> (b <= c)%nat /\ (c + b <= n)%nat.
Proof. exact @F64_C08_changepoints_in_range. Qed.

Theorem C08_float_F64_C08_changepoints_above_threshold : forall (scores : list float) (thr : float) (mdi c : nat), Forall nonnan scores -> nonnan thr -> In c (gmw_cpts F64 scores thr mdi) -> (c < length scores)%nat /\ (thr <? nthV F64 scores c)%float = true.
Proof. exact @F64_C08_changepoints_above_threshold. Qed.

Theorem C08_any_order_G08_changepoints_are_run_peaks : forall (N : num) (ok : T N -> Prop), swo N ok -> ok (zero N) -> forall (scores : list (T N)) (thr : T N) (mdi c : nat), Forall ok scores -> ok thr -> In c (gmw_cpts N scores thr mdi) <-> (exists a z : nat, In (a, z) (where_runs (map (fun v : T N => ltb N thr v) scores)) /\ (mdi <= z - a)%nat /\ (a <= c < z)%nat /\ (forall i : nat, (a <= i < z)%nat -> ltb N (nthV N scores c) (nthV N scores i) = false) /\ (forall i : nat, (a <= i < c)%nat -> ltb N (nthV N scores i) (nthV N scores c) = true)).
Proof. exact @G08_changepoints_are_run_peaks. Qed.

Theorem C08_any_order_G08_scores : forall (N : num) (CS : nat -> nat -> nat -> T N) (b n t : nat), (t < n)%nat -> length (gmw_scores N CS b n) = n /\ nthV N (gmw_scores N CS b n) t = (if (b <=? t)%nat && (t + b <=? n)%nat then CS (t - b)%nat t (t + b)%nat else zero N).
Proof. exact @G08_scores. Qed.

Theorem C08_any_order_G08_reversal : forall (N : num) (CS : nat -> nat -> nat -> T N) (b n t : nat), (1 <= t < n)%nat -> nthV N (gmw_scores N (fun s k e : nat => CS (n - e)%nat (n - k)%nat (n - s)%nat) b n) t = nthV N (gmw_scores N CS b n) (n - t).
Proof. exact @G08_reversal. Qed.

Print Assumptions C08_float_F64_swo.
Print Assumptions C08_float_F64_C08_run.
Print Assumptions C08_float_F64_C08_changepoints_in_range.
Print Assumptions C08_float_F64_C08_changepoints_above_threshold.
Print Assumptions C08_any_order_G08_changepoints_are_run_peaks.
Print Assumptions C08_any_order_G08_scores.
Print Assumptions C08_any_order_G08_reversal.
