(** C03 for the BINARY64 run: `gcapa F64` is the generic CAPA / MVCAPA loop at Coq's primitive floats, which the float-table stream compares bit for bit with the real detectors.  On a
    run all of whose floats are finite (`capa_trace_finite`, evaluated by the harness on every float-table case) that loop IS the inexact real-valued loop of Model/CapaA.v on the
    realised values; hence the reported anomalies are valid, the final score is within n eps of their TRUE total penalised saving and that total is within 3 n eps of the optimum
    (eps = error delta of one penalised saving + one binary64 rounding u Mag). *)
From Coq Require Import Reals List Bool Arith PrimFloat.
From SK Require Import Lib.Base Model.Capa Model.PeltR Model.CapaR Model.CapaA Model.Generic Model.GenericF Model.GenericCapa Proofs.CapaReal Proofs.CapaApprox Proofs.FloatError Proofs.FloatRefine Proofs.CapaFloat.
Import ListNotations.


Theorem C03_binary64_run_is_the_inexact_real_run_on_realised_values : forall (tiny : float -> bool) (Sc : nat -> nat -> list float) (Sp : nat -> list float) (ac ap : float) (bc bp : list float) (m M delay n : nat) (scoresF : list (T F64)) (c p : list (nat * nat)), (1 <= m)%nat -> capa_trace_finite tiny Sc Sp ac ap bc bp m M delay n = true -> gcapa F64 tiny Sc Sp ac bc ap bp m M delay n = (scoresF, c, p) -> capaA (Vct tiny Sc Sp ac ap bc bp m M delay n) (Vpt tiny Sc Sp ac ap bc bp m M delay n) (Wkt tiny Sc Sp ac ap bc bp m M delay n) m M delay n = (map FR scoresF, c, p).
Proof. exact @gcapa_F64_is_capaA. Qed.

Theorem C03_binary64_output_near_optimal : forall (tiny : float -> bool) (Sc : nat -> nat -> list float) (Sp : nat -> list float) (ac ap : float) (bc bp : list float) (m M delay n : nat) (pc : nat -> nat -> R) (pp : nat -> R) (K eps : R) (scoresF : list (T F64)) (c p : list (nat * nat)), (2 <= m)%nat -> (m <= M)%nat -> (m <= delay + 1)%nat -> 0 <= eps -> (forall s k e : nat, (s + m <= k)%nat -> (k + m <= e)%nat -> (e <= s + M)%nat -> pc s e <= pc s k + K + pc k e) -> capa_trace_finite tiny Sc Sp ac ap bc bp m M delay n = true -> (forall a T : nat, (a < T <= n)%nat -> Rabs (FR (nthV F64 (optF tiny Sc Sp ac ap bc bp m M delay n) a + PcF tiny Sc ac bc a T) - (FR (nthV F64 (optF tiny Sc Sp ac ap bc bp m M delay n) a) + pc a T)) <= eps) -> (forall t : nat, (t < n)%nat -> Rabs (FR (nthV F64 (optF tiny Sc Sp ac ap bc bp m M delay n) t + PpF tiny Sp ap bp t) - (FR (nthV F64 (optF tiny Sc Sp ac ap bc bp m M delay n) t) + pp t)) <= eps) -> (forall a T : nat, (a < T <= n)%nat -> Rabs (FR (nthV F64 (optF tiny Sc Sp ac ap bc bp m M delay n) a + PcF tiny Sc ac bc a T + Kf ac bc) - (FR (nthV F64 (optF tiny Sc Sp ac ap bc bp m M delay n) a + PcF tiny Sc ac bc a T) + K)) <= eps) -> gcapa F64 tiny Sc Sp ac bc ap bp m M delay n = (scoresF, c, p) -> forall l : list CapaSpec.anom, CapaSpec.Valid m M l n -> totalR pc pp l <= totalR pc pp (map CapaSpec.to_anom (capa_predict false c p)) + 3 * INR n * eps.
Proof. exact @capa_F64_near_optimal. Qed.

Theorem C03_binary64_final_score_close_to_true_total : forall (tiny : float -> bool) (Sc : nat -> nat -> list float) (Sp : nat -> list float) (ac ap : float) (bc bp : list float) (m M delay n : nat) (pc : nat -> nat -> R) (pp : nat -> R) (eps : R) (scoresF : list (T F64)) (c p : list (nat * nat)), (2 <= m)%nat -> (m <= M)%nat -> 0 <= eps -> capa_trace_finite tiny Sc Sp ac ap bc bp m M delay n = true -> (forall a T : nat, (a < T <= n)%nat -> Rabs (FR (nthV F64 (optF tiny Sc Sp ac ap bc bp m M delay n) a + PcF tiny Sc ac bc a T) - (FR (nthV F64 (optF tiny Sc Sp ac ap bc bp m M delay n) a) + pc a T)) <= eps) -> (forall t : nat, (t < n)%nat -> Rabs (FR (nthV F64 (optF tiny Sc Sp ac ap bc bp m M delay n) t + PpF tiny Sp ap bp t) - (FR (nthV F64 (optF tiny Sc Sp ac ap bc bp m M delay n) t) + pp t)) <= eps) -> gcapa F64 tiny Sc Sp ac bc ap bp m M delay n = (scoresF, c, p) -> (1 <= n)%nat -> Rabs (FR (nthV F64 scoresF (n - 1)) - totalR pc pp (map CapaSpec.to_anom (capa_predict false c p))) <= INR n * eps.
Proof. exact @capa_F64_final_close. Qed.

Theorem C03_binary64_output_near_optimal_from_saving_error_and_magnitude : forall (tiny : float -> bool) (Sc : nat -> nat -> list float) (Sp : nat -> list float) (ac ap : float) (bc bp : list float) (m M delay n : nat) (pc : nat -> nat -> R) (pp : nat -> R) (K delta Mag : R), capa_trace_finite tiny Sc Sp ac ap bc bp m M delay n = true -> (forall a T : nat, (a < T <= n)%nat -> Rabs (FR (PcF tiny Sc ac bc a T) - pc a T) <= delta) -> (forall t : nat, (t < n)%nat -> Rabs (FR (PpF tiny Sp ap bp t) - pp t) <= delta) -> Rabs (FR (Kf ac bc) - K) <= delta -> (forall a T : nat, (a < T <= n)%nat -> Rabs (FR (nthV F64 (optF tiny Sc Sp ac ap bc bp m M delay n) a) + FR (PcF tiny Sc ac bc a T)) <= Mag) -> (forall t : nat, (t < n)%nat -> Rabs (FR (nthV F64 (optF tiny Sc Sp ac ap bc bp m M delay n) t) + FR (PpF tiny Sp ap bp t)) <= Mag) -> (forall a T : nat, (a < T <= n)%nat -> Rabs (FR (nthV F64 (optF tiny Sc Sp ac ap bc bp m M delay n) a + PcF tiny Sc ac bc a T) + FR (Kf ac bc)) <= Mag) -> 0 <= Mag -> forall (scoresF : list (T F64)) (c p : list (nat * nat)), (2 <= m)%nat -> (m <= M)%nat -> (m <= delay + 1)%nat -> (forall s k e : nat, (s + m <= k)%nat -> (k + m <= e)%nat -> (e <= s + M)%nat -> pc s e <= pc s k + K + pc k e) -> gcapa F64 tiny Sc Sp ac bc ap bp m M delay n = (scoresF, c, p) -> forall l : list CapaSpec.anom, CapaSpec.Valid m M l n -> totalR pc pp l <= totalR pc pp (map CapaSpec.to_anom (capa_predict false c p)) + 3 * INR n * (delta + u53 * Mag).
Proof. exact @capa_F64_near_optimal_bounds. Qed.

Theorem C03_binary64_premise_holds_on_an_example : capa_trace_finite ex_tiny ex_Sc ex_Sp ex_ac ex_ap ex_bc ex_bp 2 4 1 6 = true.
Proof. exact @ex_trace_finite. Qed.

Theorem C03_binary64_premise_rejects_overflow : capa_trace_finite ex_tiny ex_Sc ex_Sp 1.7976931348623157e+308 ex_ap [1.7976931348623157e+308%float] ex_bp 2 4 1 6 = false.
Proof. exact @ex_trace_overflow. Qed.

Print Assumptions C03_binary64_run_is_the_inexact_real_run_on_realised_values.
Print Assumptions C03_binary64_output_near_optimal.
Print Assumptions C03_binary64_final_score_close_to_true_total.
Print Assumptions C03_binary64_output_near_optimal_from_saving_error_and_magnitude.
Print Assumptions C03_binary64_premise_holds_on_an_example.
Print Assumptions C03_binary64_premise_rejects_overflow.
