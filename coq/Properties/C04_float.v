(** C04, for ANY number type: the structure of what PELT and CAPA / MVCAPA report cannot be broken by the score values.  The search loops are defined once over an
    arbitrary record of operations (Model/Generic.v, Model/GenericCapa.v; their Z instances are the models tied to the code, Proofs/GenericZ.v, GenericCapaZ.v);
    the well-formedness theorems below assume NOTHING about the operations, so they hold for binary64 scores, NaN and infinities included. *)
From Coq Require Import ZArith List Bool Arith Sorted Floats.
From SK Require Import Lib.Base Model.Pelt Model.Capa Model.Generic Model.GenericF Model.GenericCapa Proofs.PeltSpec Proofs.CapaSpec.
From SK Require Import Proofs.GenericPeltWf Proofs.GenericCapaWf.
Import ListNotations.


Theorem C04_any_numbers_pelt_changepoints_admissible : forall (N : num) (C : nat -> nat -> T N) (pen : T N) (m delay n : nat), 1 <= m -> 2 * m <= n -> Adm m (snd (gpelt N C pen m delay n)) n.
Proof. exact @gpelt_adm. Qed.

Theorem C04_any_numbers_pelt_wellformed : forall (N : num) (C : nat -> nat -> T N) (pen : T N) (m delay n : nat), 1 <= m -> 2 * m <= n -> let cpts := snd (gpelt N C pen m delay n) in StronglySorted lt cpts /\ (forall c : nat, In c cpts -> 1 <= c <= n - 1 /\ m <= c /\ c + m <= n) /\ (forall i : nat, S i < length cpts -> nthN cpts i + m <= nthN cpts (S i)).
Proof. exact @gpelt_wellformed. Qed.

Theorem C04_any_numbers_pelt_scores_length : forall (N : num) (C : nat -> nat -> T N) (pen : T N) (m delay n : nat), 1 <= m -> 2 * m <= n -> length (fst (gpelt N C pen m delay n)) = n.
Proof. exact @gpelt_scores_length. Qed.

Theorem C04_float_pelt_wellformed : forall (C : nat -> nat -> T F64) (pen : T F64) (m delay n : nat), 1 <= m -> 2 * m <= n -> let cpts := snd (gpelt F64 C pen m delay n) in StronglySorted lt cpts /\ (forall c : nat, In c cpts -> 1 <= c <= n - 1 /\ m <= c /\ c + m <= n) /\ (forall i : nat, S i < length cpts -> nthN cpts i + m <= nthN cpts (S i)).
Proof. exact @F64_pelt_wellformed. Qed.

Theorem C04_float_pelt_wellformed_even_all_nan : forall m delay n : nat, 1 <= m -> 2 * m <= n -> Adm m (snd (gpelt F64 (fun _ _ : nat => nan) nan m delay n)) n.
Proof. exact @F64_pelt_adm_all_nan. Qed.

Theorem C04_any_numbers_capa_output_valid : forall (N : num) (tiny : T N -> bool) (Sc : nat -> nat -> list (T N)) (Sp : nat -> list (T N)) (ac : T N) (bc : list (T N)) (ap : T N) (bp : list (T N)) (m M delay n : nat) (scores : list (T N)) (c p : list (nat * nat)), 2 <= m <= M -> gcapa N tiny Sc Sp ac bc ap bp m M delay n = (scores, c, p) -> Valid m M (map to_anom (capa_predict false c p)) n /\ length scores = n.
Proof. exact @gcapa_wellformed. Qed.

Theorem C04_any_numbers_capa_ignore_points : forall (N : num) (tiny : T N -> bool) (Sc : nat -> nat -> list (T N)) (Sp : nat -> list (T N)) (ac : T N) (bc : list (T N)) (ap : T N) (bp : list (T N)) (m M delay n : nat) (scores : list (T N)) (c p : list (nat * nat)), gcapa N tiny Sc Sp ac bc ap bp m M delay n = (scores, c, p) -> capa_predict true c p = filter (fun se : nat * nat => negb (is_point se)) (capa_predict false c p).
Proof. exact @gcapa_ignore_points. Qed.

Theorem C04_any_numbers_capa_intervals_in_range : forall (N : num) (tiny : T N -> bool) (Sc : nat -> nat -> list (T N)) (Sp : nat -> list (T N)) (ac : T N) (bc : list (T N)) (ap : T N) (bp : list (T N)) (m M delay n : nat) (scores : list (T N)) (c p : list (nat * nat)), gcapa N tiny Sc Sp ac bc ap bp m M delay n = (scores, c, p) -> forall se : nat * nat, In se (capa_predict false c p) -> fst se < snd se <= n.
Proof. exact @gcapa_intervals_in_range. Qed.

Theorem C04_float_capa_output_valid : forall (Sc : nat -> nat -> list float) (Sp : nat -> list float) (ac : float) (bc : list float) (ap : float) (bp : list float) (m M delay n : nat) (scores : list float) (c p : list (nat * nat)), 2 <= m <= M -> gcapa F64 F64_tiny Sc Sp ac bc ap bp m M delay n = (scores, c, p) -> Valid m M (map to_anom (capa_predict false c p)) n /\ length scores = n.
Proof. exact @F64_capa_output_valid. Qed.

Print Assumptions C04_any_numbers_pelt_changepoints_admissible.
Print Assumptions C04_any_numbers_pelt_wellformed.
Print Assumptions C04_any_numbers_pelt_scores_length.
Print Assumptions C04_float_pelt_wellformed.
Print Assumptions C04_float_pelt_wellformed_even_all_nan.
Print Assumptions C04_any_numbers_capa_output_valid.
Print Assumptions C04_any_numbers_capa_ignore_points.
Print Assumptions C04_any_numbers_capa_intervals_in_range.
Print Assumptions C04_float_capa_output_valid.
