(** C02 for the BINARY64 run: `gpelt F64` is the generic PELT loop at Coq's primitive floats, which the float-table stream compares bit for bit with the real PELT.  On a run all of
    whose floats are finite (the boolean, vm_compute-able premise `pelt_trace_finite`, evaluated by the harness on every float-table case) that loop IS the inexact real-valued loop
    of Model/PeltA.v on the table of realised values; hence the changepoints the binary64 run reports are admissible, its final score is within n eps of the TRUE penalised cost of
    the reported segmentation and that cost is within 3 n eps of the optimum, where eps bounds the error of one candidate value: the cost's own error delta plus two binary64
    roundings, 2 u Mag (u = 2^-53, Mag a bound on the sums formed). *)
From Coq Require Import Reals List Bool Arith PrimFloat.
From SK Require Import Lib.Base Model.Pelt Model.PeltR Model.PeltA Model.Generic Model.GenericF Proofs.PeltSpec Proofs.PeltReal Proofs.PeltApprox Proofs.FloatError Proofs.FloatRefine Proofs.PeltFloat.
Import ListNotations.


Theorem C02_binary64_run_is_the_inexact_real_run_on_realised_values : forall (Cf : nat -> nat -> float) (penf : float) (m delay n : nat), pelt_trace_finite Cf penf m delay n = true -> (1 <= m)%nat -> (2 * m <= n)%nat -> peltA (Vt Cf penf m delay n) (Wt Cf penf m delay n) (I0t Cf) (FR penf) m delay n = (map FR (fst (gpelt F64 Cf penf m delay n)), snd (gpelt F64 Cf penf m delay n)).
Proof. exact @gpelt_F64_is_peltA. Qed.

Theorem C02_binary64_one_candidate_rounding_error : forall g c p : float, finF g = true -> finF c = true -> finF p = true -> finF (g + c) = true -> finF (g + c + p) = true -> Rabs (FR (g + c + p) - (FR g + FR c + FR p)) <= u53 * Rabs (FR g + FR c) + u53 * Rabs (FR (g + c) + FR p).
Proof. exact @FR_cand_error. Qed.

Theorem C02_binary64_output_near_optimal : forall (Cf : nat -> nat -> float) (penf : float) (C : nat -> nat -> R) (eps : R) (m delay n : nat), (1 <= m)%nat -> (m <= delay + 1)%nat -> (2 * m <= n)%nat -> pelt_trace_finite Cf penf m delay n = true -> (forall s k e : nat, (s + m <= k)%nat -> (k + m <= e)%nat -> (e <= n)%nat -> C s k + C k e <= C s e) -> (forall a T : nat, (a < T <= n)%nat -> Rabs (FR (nthV F64 (optF64 Cf penf m delay n) a + Cf a T + penf) - (FR (nthV F64 (optF64 Cf penf m delay n) a) + C a T + FR penf)) <= eps) -> (forall T : nat, (T <= n)%nat -> Rabs (FR (nthV F64 (optF64 Cf penf m delay n) T + penf) - (FR (nthV F64 (optF64 Cf penf m delay n) T) + FR penf)) <= eps) -> (forall e : nat, (m <= e < 2 * m)%nat -> Rabs (FR (Cf 0%nat e) - C 0%nat e) <= eps) -> forall c : list nat, Adm m c n -> pencostR C (FR penf) (snd (gpelt F64 Cf penf m delay n)) n <= pencostR C (FR penf) c n + 3 * INR n * eps.
Proof. exact @pelt_F64_near_optimal. Qed.

Theorem C02_binary64_final_score_close_to_true_cost : forall (Cf : nat -> nat -> float) (penf : float) (C : nat -> nat -> R) (eps : R) (m delay n : nat), (1 <= m)%nat -> (2 * m <= n)%nat -> pelt_trace_finite Cf penf m delay n = true -> (forall a T : nat, (a < T <= n)%nat -> Rabs (FR (nthV F64 (optF64 Cf penf m delay n) a + Cf a T + penf) - (FR (nthV F64 (optF64 Cf penf m delay n) a) + C a T + FR penf)) <= eps) -> (forall e : nat, (m <= e < 2 * m)%nat -> Rabs (FR (Cf 0%nat e) - C 0%nat e) <= eps) -> Rabs (nth (n - 1) (map FR (fst (gpelt F64 Cf penf m delay n))) 0 - pencostR C (FR penf) (snd (gpelt F64 Cf penf m delay n)) n) <= INR n * eps.
Proof. exact @pelt_F64_final_close. Qed.

Theorem C02_binary64_output_near_optimal_from_cost_error_and_magnitude : forall (Cf : nat -> nat -> float) (penf : float) (C : nat -> nat -> R) (delta Mag : R) (m delay n : nat), (1 <= m)%nat -> (m <= delay + 1)%nat -> (2 * m <= n)%nat -> pelt_trace_finite Cf penf m delay n = true -> (forall s k e : nat, (s + m <= k)%nat -> (k + m <= e)%nat -> (e <= n)%nat -> C s k + C k e <= C s e) -> (forall a T : nat, (a < T <= n)%nat -> Rabs (FR (Cf a T) - C a T) <= delta) -> (forall a T : nat, (a < T <= n)%nat -> Rabs (FR (nthV F64 (optF64 Cf penf m delay n) a) + FR (Cf a T)) <= Mag) -> (forall a T : nat, (a < T <= n)%nat -> Rabs (FR (nthV F64 (optF64 Cf penf m delay n) a + Cf a T) + FR penf) <= Mag) -> (forall T : nat, (T <= n)%nat -> Rabs (FR (nthV F64 (optF64 Cf penf m delay n) T) + FR penf) <= Mag) -> forall c : list nat, Adm m c n -> pencostR C (FR penf) (snd (gpelt F64 Cf penf m delay n)) n <= pencostR C (FR penf) c n + 3 * INR n * (delta + 2 * u53 * Mag).
Proof. exact @pelt_F64_near_optimal_bounds. Qed.

Theorem C02_binary64_premise_holds_on_an_example : pelt_trace_finite ex_Cf ex_pen 1 0 6 = true.
Proof. exact @ex_trace_finite. Qed.

Print Assumptions C02_binary64_run_is_the_inexact_real_run_on_realised_values.
Print Assumptions C02_binary64_one_candidate_rounding_error.
Print Assumptions C02_binary64_output_near_optimal.
Print Assumptions C02_binary64_final_score_close_to_true_cost.
Print Assumptions C02_binary64_output_near_optimal_from_cost_error_and_magnitude.
Print Assumptions C02_binary64_premise_holds_on_an_example.
