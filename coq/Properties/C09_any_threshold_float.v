(** C09 for binary64 scores and ANY threshold: instances of Proofs/AnyThreshold.v (Proofs/AnyThresholdF.v). Termination and well-formedness need no
    hypothesis on the numbers at all (NaN included); the specification clauses need non-NaN scores and threshold. *)
From Coq Require Import ZArith List Bool Arith Sorted Floats.
From SK Require Import Lib.Base Model.Mw Model.Sbs Model.Capa Model.Cbs Model.Generic Model.GenericF Model.GenericAny.
From SK Require Import Proofs.GenericRank Proofs.GenericOrder Proofs.GenericSpec Proofs.GenericInstances Proofs.AnyThreshold Proofs.AnyThresholdF.
Import ListNotations.


Theorem C09_float_any_threshold_total : forall (LS : nat -> nat -> nat -> nat -> T F64) (m : nat) (thr : T F64) (ivs : list (nat * nat)), exists r : list (nat * nat) * list (nat * nat * T F64), gcbs_any F64 LS m thr ivs = Some r.
Proof. exact @F64_cbs_any_total. Qed.

Theorem C09_float_any_threshold_wellformed : forall (LS : nat -> nat -> nat -> nat -> T F64) (m : nat) (thr : T F64) (n : nat) (ivs anoms : list (nat * nat)) (am : list (nat * nat * T F64)), (1 <= m)%nat -> (forall s e : nat, In (s, e) ivs -> (e <= n)%nat) -> gcbs_any F64 LS m thr ivs = Some (anoms, am) -> (forall i : nat, (S i < length anoms)%nat -> (fst (CbsProofs.nthP anoms i) < fst (CbsProofs.nthP anoms (S i)))%nat /\ (snd (CbsProofs.nthP anoms i) <= fst (CbsProofs.nthP anoms (S i)))%nat) /\ (forall a z : nat, In (a, z) anoms -> (1 <= a)%nat /\ (a + m <= z <= n - 1)%nat) /\ (forall ab : nat * nat, In ab anoms -> exists i : nat, (i < length ivs)%nat /\ fst (nth i am (0%nat, 0%nat, zero F64)) = ab /\ In ab (anomaly_intervals (fst (CbsProofs.nthP ivs i)) (snd (CbsProofs.nthP ivs i)) m)) /\ am = map (ginner_or_zero F64 LS m) ivs.
Proof. exact @F64_cbs_any_wellformed. Qed.

Theorem C09_float_any_threshold_supported_and_complete : forall (LS : nat -> nat -> nat -> nat -> T F64) (m : nat) (thr : T F64) (ivs : list (nat * nat)), cbs_table_ok F64 nonnan LS m ivs -> nonnan thr -> (1 <= m)%nat -> forall (anoms : list (nat * nat)) (am : list (nat * nat * T F64)), gcbs_any F64 LS m thr ivs = Some (anoms, am) -> (forall ab : nat * nat, In ab anoms -> exists i : nat, (i < length ivs)%nat /\ fst (nth i am (0%nat, 0%nat, zero F64)) = ab /\ gabove F64 thr (cbs_initial F64 (nth i am (0%nat, 0%nat, zero F64))) = true) /\ (forall i : nat, (i < length ivs)%nat -> gabove F64 thr (cbs_initial F64 (nth i am (0%nat, 0%nat, zero F64))) = true -> exists ab : nat * nat, In ab anoms /\ overlaps ab (CbsProofs.nthP ivs i) = true).
Proof. exact @F64_cbs_any_supported_and_complete. Qed.

Print Assumptions C09_float_any_threshold_total.
Print Assumptions C09_float_any_threshold_wellformed.
Print Assumptions C09_float_any_threshold_supported_and_complete.
