(** C03 under INEXACT arithmetic: the pruned dynamic programme of CAPA / MVCAPA in which every rounded arithmetic step (candidate value opt[a] + penalised saving, point option,
    the sum on the left of the prune test) is an ARBITRARY function within eps of the exact expression (Model/CapaA.v; with the exact functions it IS capaR).  The output is valid
    whatever the values, the reported final score is within n eps of the TRUE total penalised saving of the reported anomalies, and that total is within 3 n eps of the optimum.
    The `_run` versions need the eps-hypotheses only at the values the run itself stores. *)
From Coq Require Import Reals List Bool Arith.
From SK Require Import Lib.Base Model.Capa Model.PeltR Model.CapaR Model.CapaA Proofs.CapaReal Proofs.CapaApprox.
Import ListNotations.


Theorem C03_inexact_model_with_exact_steps_is_the_real_model : forall (Sc : nat -> nat -> list R) (Sp : nat -> list R) (ac : R) (bc : list R) (ap : R) (bp : list R) (m M delay n : nat), capaA (fun (a T : nat) (g : R) => g + PcR Sc ac bc a T) (fun (t : nat) (g : R) => g + PpR Sp ap bp t) (fun (_ _ : nat) (c : R) => c + (ac + RealLib.sumR bc)) m M delay n = capaR Sc Sp ac bc ap bp m M delay n.
Proof. exact @capaA_exact. Qed.

Theorem C03_inexact_output_valid : forall (Vc : nat -> nat -> R -> R) (Vp : nat -> R -> R) (Wk : nat -> nat -> R -> R) (m M delay : nat), (2 <= m)%nat -> (m <= M)%nat -> forall (n : nat) (scores : list R) (c p : list (nat * nat)), capaA Vc Vp Wk m M delay n = (scores, c, p) -> CapaSpec.Valid m M (map CapaSpec.to_anom (capa_predict false c p)) n.
Proof. exact @capaA_wellformed. Qed.

Theorem C03_inexact_final_score_close_to_true_total : forall (Vc : nat -> nat -> R -> R) (Vp : nat -> R -> R) (Wk : nat -> nat -> R -> R) (m M delay : nat) (pc : nat -> nat -> R) (pp : nat -> R) (eps : R), (2 <= m)%nat -> (m <= M)%nat -> 0 <= eps -> (forall (a T : nat) (g : R), Rabs (Vc a T g - (g + pc a T)) <= eps) -> (forall (t : nat) (g : R), Rabs (Vp t g - (g + pp t)) <= eps) -> forall (n : nat) (scores : list R) (c p : list (nat * nat)), capaA Vc Vp Wk m M delay n = (scores, c, p) -> (1 <= n)%nat -> Rabs (nthR scores (n - 1) - totalR pc pp (map CapaSpec.to_anom (capa_predict false c p))) <= INR n * eps.
Proof. exact @capaA_final_close. Qed.

Theorem C03_inexact_output_near_optimal : forall (Vc : nat -> nat -> R -> R) (Vp : nat -> R -> R) (Wk : nat -> nat -> R -> R) (m M delay : nat) (pc : nat -> nat -> R) (pp : nat -> R) (K eps : R), (2 <= m)%nat -> (m <= M)%nat -> (m <= delay + 1)%nat -> (forall s k e : nat, (s + m <= k)%nat -> (k + m <= e)%nat -> (e <= s + M)%nat -> pc s e <= pc s k + K + pc k e) -> 0 <= eps -> (forall (a T : nat) (g : R), Rabs (Vc a T g - (g + pc a T)) <= eps) -> (forall (t : nat) (g : R), Rabs (Vp t g - (g + pp t)) <= eps) -> (forall (a T : nat) (c : R), Rabs (Wk a T c - (c + K)) <= eps) -> forall (n : nat) (scores : list R) (c p : list (nat * nat)), capaA Vc Vp Wk m M delay n = (scores, c, p) -> forall l : list CapaSpec.anom, CapaSpec.Valid m M l n -> totalR pc pp l <= totalR pc pp (map CapaSpec.to_anom (capa_predict false c p)) + 3 * INR n * eps.
Proof. exact @capaA_near_optimal. Qed.

Theorem C03_inexact_final_score_close_realised_values : forall (Vc : nat -> nat -> R -> R) (Vp : nat -> R -> R) (Wk : nat -> nat -> R -> R) (m M delay : nat) (pc : nat -> nat -> R) (pp : nat -> R) (eps : R) (n : nat) (scores : list R) (c p : list (nat * nat)), (2 <= m)%nat -> (m <= M)%nat -> 0 <= eps -> (forall a T : nat, (a < T <= n)%nat -> Rabs (Vc a T (Grun Vc Vp Wk m M delay n a) - (Grun Vc Vp Wk m M delay n a + pc a T)) <= eps) -> (forall t : nat, (t < n)%nat -> Rabs (Vp t (Grun Vc Vp Wk m M delay n t) - (Grun Vc Vp Wk m M delay n t + pp t)) <= eps) -> capaA Vc Vp Wk m M delay n = (scores, c, p) -> (1 <= n)%nat -> Rabs (nthR scores (n - 1) - totalR pc pp (map CapaSpec.to_anom (capa_predict false c p))) <= INR n * eps.
Proof. exact @capaA_final_close_run. Qed.

Theorem C03_inexact_output_near_optimal_realised_values : forall (Vc : nat -> nat -> R -> R) (Vp : nat -> R -> R) (Wk : nat -> nat -> R -> R) (m M delay : nat) (pc : nat -> nat -> R) (pp : nat -> R) (K eps : R) (n : nat) (scores : list R) (c p : list (nat * nat)), (2 <= m)%nat -> (m <= M)%nat -> (m <= delay + 1)%nat -> 0 <= eps -> (forall s k e : nat, (s + m <= k)%nat -> (k + m <= e)%nat -> (e <= s + M)%nat -> pc s e <= pc s k + K + pc k e) -> (forall a T : nat, (a < T <= n)%nat -> Rabs (Vc a T (Grun Vc Vp Wk m M delay n a) - (Grun Vc Vp Wk m M delay n a + pc a T)) <= eps) -> (forall t : nat, (t < n)%nat -> Rabs (Vp t (Grun Vc Vp Wk m M delay n t) - (Grun Vc Vp Wk m M delay n t + pp t)) <= eps) -> (forall a T : nat, (a < T <= n)%nat -> Rabs (Wk a T (Vc a T (Grun Vc Vp Wk m M delay n a)) - (Vc a T (Grun Vc Vp Wk m M delay n a) + K)) <= eps) -> capaA Vc Vp Wk m M delay n = (scores, c, p) -> forall l : list CapaSpec.anom, CapaSpec.Valid m M l n -> totalR pc pp l <= totalR pc pp (map CapaSpec.to_anom (capa_predict false c p)) + 3 * INR n * eps.
Proof. exact @capaA_near_optimal_run. Qed.

Theorem C03_inexact_scores_close_to_prefix_optima : forall (Vc : nat -> nat -> R -> R) (Vp : nat -> R -> R) (Wk : nat -> nat -> R -> R) (m M delay : nat) (pc : nat -> nat -> R) (pp : nat -> R) (K eps : R), (2 <= m)%nat -> (m <= M)%nat -> (m <= delay + 1)%nat -> (forall s k e : nat, (s + m <= k)%nat -> (k + m <= e)%nat -> (e <= s + M)%nat -> pc s e <= pc s k + K + pc k e) -> 0 <= eps -> (forall (a T : nat) (g : R), Rabs (Vc a T g - (g + pc a T)) <= eps) -> (forall (t : nat) (g : R), Rabs (Vp t g - (g + pp t)) <= eps) -> (forall (a T : nat) (c : R), Rabs (Wk a T c - (c + K)) <= eps) -> forall (n : nat) (scores : list R) (c p : list (nat * nat)), capaA Vc Vp Wk m M delay n = (scores, c, p) -> forall t : nat, (t < n)%nat -> GR pc pp m M (S t) - 2 * INR (S t) * eps <= nthR scores t <= GR pc pp m M (S t) + INR (S t) * eps.
Proof. exact @capaA_scores_near_optimal. Qed.

Theorem C03_inexact_hypotheses_satisfiable : forall (n : nat) (scores : list R) (c p : list (nat * nat)), capaA (VcP pc_ex (/ 1024)) (VpP pp_ex (/ 1024)) (WkP 3 (/ 1024)) 2 4 1 n = (scores, c, p) -> forall l : list CapaSpec.anom, CapaSpec.Valid 2 4 l n -> totalR pc_ex pp_ex l <= totalR pc_ex pp_ex (map CapaSpec.to_anom (capa_predict false c p)) + 3 * INR n * / 1024.
Proof. exact @capaA_concrete_instance. Qed.

Print Assumptions C03_inexact_model_with_exact_steps_is_the_real_model.
Print Assumptions C03_inexact_output_valid.
Print Assumptions C03_inexact_final_score_close_to_true_total.
Print Assumptions C03_inexact_output_near_optimal.
Print Assumptions C03_inexact_final_score_close_realised_values.
Print Assumptions C03_inexact_output_near_optimal_realised_values.
Print Assumptions C03_inexact_scores_close_to_prefix_optima.
Print Assumptions C03_inexact_hypotheses_satisfiable.
