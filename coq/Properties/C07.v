(** C07 -- seeded binary segmentation reports exactly the greedy above-threshold splits.

    [sbs CS m thr ivs] is the model of run_seeded_binseg (per-interval first argmax +
    greedy_changepoint_selection) for ANY aggregated change score [CS s k e];
    [seeded_intervals n (2*m) lens] is the integer part of make_seeded_intervals, where
    [lens] (the (interval_len, step) pairs produced by the floating-point front end) is an
    oracle whose postconditions are the hypothesis [lens_ok]. *)
From Coq Require Import ZArith List Lia Permutation.
From SK Require Import Lib.Base Model.Sbs Proofs.ArgmaxLemmas Proofs.SbsProofs.
Import ListNotations.
Open Scope Z_scope.

From SK Require Import Check.Scores Check.SbsCheck Proofs.CheckerSoundness Proofs.ValidCuts.
From SK Require Import Model.Generic Proofs.GenericZ.
Definition lens_ok (n minlen maxlen : nat) (lens : list (nat * nat)) : Prop :=
  lens <> [] /\ forall len step, In (len, step) lens -> (minlen <= len <= Nat.min maxlen n /\ 1 <= step)%nat.

(** candidate intervals: inside [0,n], lengths between 2m and min(max_interval_length, n), non-empty list *)
Theorem C07_intervals : forall n m maxlen lens, (1 <= 2 * m <= n)%nat -> lens_ok n (2 * m) maxlen lens ->
  seeded_intervals n (2 * m) lens <> [] /\
  forall s e, In (s, e) (seeded_intervals n (2 * m) lens) ->
    (s < e <= n)%nat /\ (2 * m <= e - s <= Nat.min maxlen n)%nat.
Proof.
  intros n m maxlen lens Hn [Hne Hl].
  assert (Hl' : forall len step, In (len, step) lens -> (2 * m <= len <= n /\ 1 <= step)%nat).
  { intros len step H. specialize (Hl len step H). lia. }
  split; [apply seeded_nonempty; auto|].
  intros s e H. destruct (seeded_in_range n (2 * m) lens Hn Hl' s e H) as [(H1 & H2 & H3) (len & step & Hin & Hle)].
  specialize (Hl len step Hin). lia.
Qed.

Section Run.
Variables (CS : nat -> nat -> nat -> Z) (m n : nat) (thr : Z) (ivs : list (nat * nat)).
Hypothesis Hthr : 0 <= thr.
Hypothesis Hm : (1 <= m)%nat.
Hypothesis Hivs : forall s e, In (s, e) ivs -> (s + 2 * m <= e <= n)%nat.
Variables (cpts : list nat) (am : list (nat * Z)).
Hypothesis Hrun : sbs CS m thr ivs = Some (cpts, am).

(** reported score and maximiser of every interval = max and first argmax over admissible splits *)
Theorem C07_interval_scores : length am = length ivs /\
  forall i, (i < length ivs)%nat ->
    let '(s, e) := nth i ivs (0, 0)%nat in let '(k, v) := nth i am (0%nat, 0) in
    (s + m <= k /\ k + m <= e)%nat /\ v = CS s k e /\
    forall k', (s + m <= k' /\ k' + m <= e)%nat -> CS s k' e <= v /\ (CS s k' e = v -> (k <= k')%nat).
Proof.
  destruct (sbs_wellformed CS m thr n ivs cpts am Hthr Hm Hivs Hrun) as (_ & _ & picks & Ham & _).
  assert (H2 : forall s e, In (s, e) ivs -> (s + 2 * m <= e)%nat) by (intros s e H; specialize (Hivs s e H); lia).
  destruct (amocs_some CS m ivs H2) as (am' & Ham' & Hlen & Hnth).
  rewrite Ham in Ham'. inversion Ham'; subst am'. split; [exact Hlen|].
  intros i Hi. specialize (Hnth i Hi).
  destruct (nth i ivs (0, 0)%nat) as [s e] eqn:Ei. destruct (nth i am (0%nat, 0)) as [k v] eqn:Ea.
  apply amoc_spec in Hnth. exact Hnth.
Qed.

Lemma run_picks : exists picks, amocs CS m ivs = Some am /\
  greedy_cpts (length ivs) thr ivs (map fst am) (map snd am) = Some picks /\ Permutation cpts picks /\
  greedy_pre thr ivs (map fst am) (map snd am) (length ivs).
Proof.
  destruct (sbs_wellformed CS m thr n ivs cpts am Hthr Hm Hivs Hrun) as (_ & _ & picks & Ham & Hg & _ & Hp).
  exists picks. repeat split; auto.
  - destruct C07_interval_scores as [Hl _]. now rewrite map_length.
  - destruct C07_interval_scores as [Hl _]. now rewrite map_length.
  - intros i Hi. destruct C07_interval_scores as [Hl Hs]. specialize (Hs i Hi).
    destruct (nth i ivs (0, 0)%nat) as [s e] eqn:Ei. destruct (nth i am (0%nat, 0)) as [k v] eqn:Ea.
    destruct Hs as ((Hk1 & Hk2) & _).
    unfold nthN. change 0%nat with (fst (0%nat, 0)). rewrite map_nth, Ea. cbn [fst].
    unfold contains. cbn [fst snd]. apply andb_true_intro. split; [apply Nat.leb_le|apply Nat.ltb_lt]; lia.
Qed.

(** every changepoint is the maximiser of an interval that contains it and scores above the threshold *)
Theorem C07_changepoints_supported : forall c, In c cpts ->
  exists i, (i < length ivs)%nat /\ fst (nth i am (0%nat, 0)) = c /\ thr < snd (nth i am (0%nat, 0))
            /\ contains (nth i ivs (0, 0)%nat) c = true.
Proof.
  intros c Hc. destruct run_picks as (picks & _ & Hg & Hp & Hpre).
  assert (Hc' : In c picks) by (eapply Permutation_in; eauto).
  destruct (greedy_supported _ _ _ _ _ _ _ Hpre Hg c Hc') as (i & Hi & Hmax & Hsc).
  exists i. split; [exact Hi|].
  unfold nthN in Hmax. change 0%nat with (fst (0%nat, 0)) in Hmax. rewrite map_nth in Hmax.
  unfold nthZ in Hsc. change 0 with (snd (0%nat, 0)) in Hsc. rewrite map_nth in Hsc.
  split; [exact Hmax|]. split; [exact Hsc|].
  destruct Hpre as (_ & _ & _ & _ & Hin). specialize (Hin i Hi).
  unfold nthN in Hin. change 0%nat with (fst (0%nat, 0)) in Hin. rewrite map_nth in Hin. now rewrite Hmax in Hin.
Qed.

(** no above-threshold interval is left without a changepoint inside it *)
Theorem C07_no_interval_left : forall i, (i < length ivs)%nat -> thr < snd (nth i am (0%nat, 0)) ->
  exists c, In c cpts /\ contains (nth i ivs (0, 0)%nat) c = true.
Proof.
  intros i Hi Hs. destruct run_picks as (picks & _ & Hg & Hp & Hpre).
  assert (Hs' : thr < nthZ (map snd am) i).
  { unfold nthZ. change 0 with (snd (0%nat, 0)). now rewrite map_nth. }
  destruct (greedy_complete _ _ _ _ _ _ _ Hpre Hg i Hi Hs') as (c & Hc & Hcont).
  exists c. split; [|exact Hcont]. eapply Permutation_in; [apply Permutation_sym; eauto|exact Hc].
Qed.

(** changepoints are strictly increasing, at least m apart, and leave m samples at both ends (C04) *)
Theorem C07_changepoints_wellformed :
  (forall i, (S i < length cpts)%nat -> (nthN cpts i + m <= nthN cpts (S i))%nat) /\
  (forall c, In c cpts -> (m <= c /\ c + m <= n)%nat).
Proof.
  destruct (sbs_wellformed CS m thr n ivs cpts am Hthr Hm Hivs Hrun) as (H1 & H2 & _).
  split; [intros i Hi; apply H1; exact Hi|exact H2].
Qed.

(** raising the threshold can only remove changepoints *)
Theorem C07_threshold_monotone : forall thr' cpts' am', thr <= thr' ->
  sbs CS m thr' ivs = Some (cpts', am') -> incl cpts' cpts.
Proof.
  intros thr' cpts' am' Hle Hrun'.
  assert (Hthr' : 0 <= thr') by lia.
  destruct run_picks as (picks & Ham & Hg & Hp & Hpre).
  destruct (sbs_wellformed CS m thr' n ivs cpts' am' Hthr' Hm Hivs Hrun') as (_ & _ & picks' & Ham' & Hg' & _ & Hp').
  rewrite Ham in Ham'. inversion Ham'; subst am'.
  assert (Hl : length ivs = length (map snd am)).
  { destruct Hpre as (_ & _ & Hl & _). symmetry. exact Hl. }
  pose proof (greedy_threshold_incl _ _ _ _ _ _ _ _ _ Hl Hle Hg Hg') as Hincl.
  intros c Hc. eapply Permutation_in; [apply Permutation_sym; exact Hp|]. apply Hincl.
  eapply Permutation_in; eauto.
Qed.
End Run.

(** the run is total on every admissible input (C14) and depends only on the score values (C12) *)
Theorem C07_total : forall CS m thr n ivs, 0 <= thr -> (1 <= m)%nat ->
  (forall s e, In (s, e) ivs -> (s + 2 * m <= e <= n)%nat) -> exists r, sbs CS m thr ivs = Some r.
Proof. exact sbs_total. Qed.
Theorem C07_ext : forall CS1 CS2 m thr ivs, (forall s k e, CS1 s k e = CS2 s k e) -> sbs CS1 m thr ivs = sbs CS2 m thr ivs.
Proof. exact sbs_ext. Qed.

Print Assumptions C07_intervals.
Print Assumptions C07_interval_scores.
Print Assumptions C07_changepoints_supported.
Print Assumptions C07_no_interval_left.
Print Assumptions C07_changepoints_wellformed.
Print Assumptions C07_threshold_monotone.
Print Assumptions C07_total.
Print Assumptions C07_ext.

(** ---- added: statements re-derived from the lemma files by tools/append_props.py ---- *)
Theorem C07_checker_sound : forall c : sbs_case, sbs_spec_ok c = true -> (sc_rows c <> [] /\ (forall (s e k : nat) (v : Z), In (s, e, k, v) (sc_rows c) -> (s < e)%nat /\ (e <= sc_n c)%nat /\ (2 * sc_m c <= e - s <= Nat.min (sc_maxlen c) (sc_n c))%nat)) /\ (forall (s e k : nat) (v : Z), In (s, e, k, v) (sc_rows c) -> amoc (cs_agg (sc_score c)) (sc_m c) (s, e) = Some (k, v) /\ ((s + sc_m c <= k)%nat /\ (k + sc_m c <= e)%nat) /\ v = cs_agg (sc_score c) s k e /\ (forall k' : nat, (s + sc_m c <= k')%nat /\ (k' + sc_m c <= e)%nat -> cs_agg (sc_score c) s k' e <= v /\ (cs_agg (sc_score c) s k' e = v -> (k <= k')%nat))) /\ (forall cp : nat, In cp (sc_cpts c) -> exists (s e : nat) (v : Z), In (s, e, cp, v) (sc_rows c) /\ sc_thr c < v /\ (s <= cp < e)%nat) /\ (forall (s e k : nat) (v : Z), In (s, e, k, v) (sc_rows c) -> sc_thr c < v -> exists cp : nat, In cp (sc_cpts c) /\ (s <= cp < e)%nat) /\ (sc_m c <= sc_n c)%nat /\ (forall cp : nat, In cp (sc_cpts c) -> (sc_m c <= cp)%nat /\ (cp + sc_m c <= sc_n c)%nat) /\ (forall i : nat, (S i < length (sc_cpts c))%nat -> (nthN (sc_cpts c) i + sc_m c <= nthN (sc_cpts c) (S i))%nat).
Proof. exact @sbs_spec_ok_sound. Qed.

Theorem C07_model_equality_checker_sound : forall c : sbs_case, sbs_model_eq c = true -> let ivs := seeded_intervals (sc_n c) (2 * sc_m c) (sc_lens c) in map row_iv (sc_rows c) = ivs /\ (exists am : list (nat * Z), sbs (cs_agg (sc_score c)) (sc_m c) (sc_thr c) ivs = Some (sc_cpts c, am) /\ map fst am = map row_arg (sc_rows c) /\ map snd am = map row_score (sc_rows c)).
Proof. exact @sbs_model_eq_sound. Qed.

Theorem C07_only_valid_cuts_matter : forall (CS1 CS2 : nat -> nat -> nat -> Z) (m : nat) (thr : Z) (ivs : list (nat * nat)), (forall s e k : nat, In (s, e) ivs -> (s + m <= k)%nat -> (k + m <= e)%nat -> CS1 s k e = CS2 s k e) -> sbs CS1 m thr ivs = sbs CS2 m thr ivs.
Proof. exact @sbs_ext_valid. Qed.

Print Assumptions C07_checker_sound.
Print Assumptions C07_model_equality_checker_sound.
Print Assumptions C07_only_valid_cuts_matter.

(** ---- added: statements re-derived from the lemma files by tools/append_props.py ---- *)
Theorem C07_generic_loop_at_Z_is_the_model : forall (CS : nat -> nat -> nat -> T Zn) (m : nat) (thr : T Zn) (ivs : list (nat * nat)), gsbs Zn CS m thr ivs = sbs CS m thr ivs.
Proof. exact @gsbs_Z. Qed.

Print Assumptions C07_generic_loop_at_Z_is_the_model.
