(** C07 for binary64 scores and ANY threshold: instances of Proofs/AnyThreshold.v (Proofs/AnyThresholdF.v). Termination and well-formedness need no
    hypothesis on the numbers at all (NaN included); the specification clauses need non-NaN scores and threshold. *)
From Coq Require Import ZArith List Bool Arith Sorted Floats.
From SK Require Import Lib.Base Model.Mw Model.Sbs Model.Capa Model.Cbs Model.Generic Model.GenericF Model.GenericAny.
From SK Require Import Proofs.GenericRank Proofs.GenericOrder Proofs.GenericSpec Proofs.GenericInstances Proofs.AnyThreshold Proofs.AnyThresholdF.
Import ListNotations.


Theorem C07_float_any_threshold_total : forall (CS : nat -> nat -> nat -> T F64) (m : nat) (thr : T F64) (n : nat) (ivs : list (nat * nat)), (1 <= m)%nat -> (forall s e : nat, In (s, e) ivs -> (s + 2 * m <= e <= n)%nat) -> exists r : list nat * list (nat * T F64), gsbs_any F64 CS m thr ivs = Some r.
Proof. exact @F64_sbs_any_total. Qed.

Theorem C07_float_any_threshold_wellformed : forall (CS : nat -> nat -> nat -> T F64) (m : nat) (thr : T F64) (n : nat) (ivs : list (nat * nat)) (cpts : list nat) (am : list (nat * T F64)), (1 <= m)%nat -> (forall s e : nat, In (s, e) ivs -> (s + 2 * m <= e <= n)%nat) -> gsbs_any F64 CS m thr ivs = Some (cpts, am) -> (forall i : nat, (S i < length cpts)%nat -> (nthN cpts i < nthN cpts (S i))%nat /\ (nthN cpts i + m <= nthN cpts (S i))%nat) /\ (forall c : nat, In c cpts -> (m <= c)%nat /\ (c + m <= n)%nat) /\ (forall c : nat, In c cpts -> exists i : nat, (i < length ivs)%nat /\ fst (nth i am (0%nat, zero F64)) = c /\ contains (nth i ivs (0%nat, 0%nat)) c = true) /\ gamocs F64 CS m ivs = Some am.
Proof. exact @F64_sbs_any_wellformed. Qed.

Theorem C07_float_any_threshold_supported : forall (CS : nat -> nat -> nat -> T F64) (m n : nat) (thr : T F64) (ivs : list (nat * nat)), sbs_table_ok F64 nonnan CS m ivs -> nonnan thr -> (1 <= m)%nat -> (forall s e : nat, In (s, e) ivs -> (s + 2 * m <= e <= n)%nat) -> forall (cpts : list nat) (am : list (nat * T F64)), gsbs_any F64 CS m thr ivs = Some (cpts, am) -> forall c : nat, In c cpts -> exists i : nat, (i < length ivs)%nat /\ fst (nth i am (0%nat, zero F64)) = c /\ ltb F64 thr (snd (nth i am (0%nat, zero F64))) = true /\ contains (nth i ivs (0%nat, 0%nat)) c = true.
Proof. exact @F64_sbs_any_supported. Qed.

Theorem C07_float_any_threshold_no_interval_left : forall (CS : nat -> nat -> nat -> T F64) (m n : nat) (thr : T F64) (ivs : list (nat * nat)), sbs_table_ok F64 nonnan CS m ivs -> nonnan thr -> (1 <= m)%nat -> (forall s e : nat, In (s, e) ivs -> (s + 2 * m <= e <= n)%nat) -> forall (cpts : list nat) (am : list (nat * T F64)), gsbs_any F64 CS m thr ivs = Some (cpts, am) -> forall i : nat, (i < length ivs)%nat -> ltb F64 thr (snd (nth i am (0%nat, zero F64))) = true -> exists c : nat, In c cpts /\ contains (nth i ivs (0%nat, 0%nat)) c = true.
Proof. exact @F64_sbs_any_no_interval_left. Qed.

Theorem C07_float_any_threshold_monotone : forall (CS : nat -> nat -> nat -> T F64) (m n : nat) (thr : T F64) (ivs : list (nat * nat)), sbs_table_ok F64 nonnan CS m ivs -> nonnan thr -> (1 <= m)%nat -> (forall s e : nat, In (s, e) ivs -> (s + 2 * m <= e <= n)%nat) -> forall (cpts : list nat) (am : list (nat * T F64)), gsbs_any F64 CS m thr ivs = Some (cpts, am) -> forall (thr' : T F64) (cpts' : list nat) (am' : list (nat * T F64)), nonnan thr' -> ltb F64 thr' thr = false -> gsbs_any F64 CS m thr' ivs = Some (cpts', am') -> incl cpts' cpts.
Proof. exact @F64_sbs_any_threshold_monotone. Qed.

Print Assumptions C07_float_any_threshold_total.
Print Assumptions C07_float_any_threshold_wellformed.
Print Assumptions C07_float_any_threshold_supported.
Print Assumptions C07_float_any_threshold_no_interval_left.
Print Assumptions C07_float_any_threshold_monotone.
