(** C14 -- documented-valid configurations always run; invalid ones fail with ValueError.

    Model/Config.v states which (detector, configuration, data shape) combinations must end in
    ValueError and which must complete; the correspondence run enumerates the grid and compares
    the real outcome class with [expected].  The theorems below say (i) what [expected] means in
    terms of the documented domain, (ii) that inside the domain -- including the boundary values
    min_segment_length = 1, bandwidth = 1, max_interval_length = 2 * min_segment_length and n at
    the minimum length -- the algorithm models are total and their search ranges non-empty
    (the places where the originally pinned code crashed or silently detected nothing). *)
From Coq Require Import ZArith List Bool Lia.
From SK Require Import Lib.Base Model.Config Model.Sbs Model.Cbs Model.Mw Model.Pelt Model.Capa.
From SK Require Import Proofs.ArgmaxLemmas Proofs.SbsProofs Proofs.CbsProofs Proofs.MwProofs Proofs.PeltSpec Proofs.PeltRefine.
Import ListNotations.
Open Scope Z_scope.

(** (i) the run completes exactly on the documented domain *)
From SK Require Import Model.Cuts Proofs.ValidCuts.
Theorem C14_completes_iff : forall d c n nan,
  expected d c n nan = Completes <->
  config_ok d c = true /\ nan = false /\ min_len d c <= n /\ scorer_ok d c = true.
Proof.
  intros d c n nan. unfold expected.
  destruct (config_ok d c); cbn [negb]; [|split; [discriminate|intros (H & _); discriminate]].
  destruct nan; [split; [discriminate|intros (_ & H & _); discriminate]|].
  destruct (n <? min_len d c) eqn:En.
  - apply Z.ltb_lt in En. split; [discriminate|intros (_ & _ & H & _); lia].
  - apply Z.ltb_ge in En. destruct (scorer_ok d c); cbn [negb].
    + split; [intros _; repeat split; auto|reflexivity].
    + split; [discriminate|intros (_ & _ & _ & H); discriminate].
Qed.

(** ValueError is mandatory exactly outside the documented domain / on missing values / on short data *)
Theorem C14_must_raise_iff : forall d c n nan,
  expected d c n nan = RaisesValueError <-> config_ok d c = false \/ nan = true \/ n < min_len d c.
Proof.
  intros d c n nan. unfold expected.
  destruct (config_ok d c); cbn [negb]; [|split; [intros _; left; reflexivity|reflexivity]].
  destruct nan; [split; [intros _; right; left; reflexivity|reflexivity]|].
  destruct (n <? min_len d c) eqn:En.
  - apply Z.ltb_lt in En. split; [intros _; right; right; exact En|reflexivity].
  - apply Z.ltb_ge in En. destruct (scorer_ok d c); cbn [negb];
      (split; [discriminate|intros [H|[H|H]]; [discriminate|discriminate|lia]]).
Qed.

Theorem C14_invalid_configuration_raises : forall d c n nan, config_ok d c = false -> expected d c n nan = RaisesValueError.
Proof. intros d c n nan H. unfold expected. rewrite H. reflexivity. Qed.
Theorem C14_missing_values_raise : forall d c n, expected d c n true = RaisesValueError.
Proof. intros d c n. unfold expected. destruct (config_ok d c); reflexivity. Qed.
Theorem C14_short_data_raise : forall d c n nan, n < min_len d c -> expected d c n nan = RaisesValueError.
Proof.
  intros d c n nan H. unfold expected. destruct (config_ok d c); cbn [negb]; [|reflexivity].
  destruct nan; [reflexivity|]. apply Z.ltb_lt in H. rewrite H. reflexivity.
Qed.
Theorem C14_anomaliser_bounds : forall d c n nan, expected_anomaliser false d c n nan = RaisesValueError.
Proof. reflexivity. Qed.

(** the documented domains, spelled out *)
Theorem C14_domains : forall c,
  (config_ok Pelt c = true <-> c_scales_ok c = true /\ 1 <= c_m c) /\
  (config_ok Mw c = true <-> c_scales_ok c = true /\ 1 <= c_b c /\ 1 <= c_mdi c /\ (c_mdi c <= 1 \/ 2 * c_mdi c + 2 <= c_b c)) /\
  (config_ok Sbs c = true <-> c_scales_ok c = true /\ 1 <= c_m c /\ 2 * c_m c <= c_M c /\ c_gf_ok c = true) /\
  (config_ok Cbs c = true <-> config_ok Sbs c = true) /\
  (config_ok Capa c = true <-> c_scales_ok c = true /\ 2 <= c_m c /\ c_m c <= c_M c /\ c_pms c = 1) /\
  (config_ok Mvcapa c = true <-> config_ok Capa c = true).
Proof.
  intros c. unfold config_ok.
  rewrite !andb_true_iff, !orb_true_iff, !Z.leb_le, !Z.eqb_eq. tauto.
Qed.

(** (ii) boundary values: the search ranges are non-empty and the models total *)
(** seeded intervals exist for every n >= 2m, also when max_interval_length = 2m *)
Theorem C14_sbs_runs : forall CS m thr n maxlen lens, 0 <= thr -> (1 <= m)%nat -> (2 * m <= n)%nat ->
  lens <> [] -> (forall len step, In (len, step) lens -> (2 * m <= len <= Nat.min maxlen n /\ 1 <= step)%nat) ->
  seeded_intervals n (2 * m) lens <> [] /\ exists r, sbs CS m thr (seeded_intervals n (2 * m) lens) = Some r.
Proof.
  intros CS m thr n maxlen lens Hthr Hm Hn Hne Hl.
  assert (Hl' : forall len step, In (len, step) lens -> (2 * m <= len <= n /\ 1 <= step)%nat).
  { intros len step H. specialize (Hl len step H). lia. }
  assert (Hn' : (1 <= 2 * m <= n)%nat) by lia.
  split; [apply seeded_nonempty; auto|].
  apply (sbs_total CS m thr n); auto.
  intros s e H. destruct (seeded_in_range n (2 * m) lens Hn' Hl' s e H) as [(H1 & H2 & H3) _]. lia.
Qed.
(** circular binary segmentation is total for every m >= 1, including candidates without an inner interval *)
Theorem C14_cbs_runs : forall LS m thr ivs, 0 <= thr -> exists r, cbs LS m thr ivs = Some r.
Proof. exact cbs_total. Qed.
(** moving window with bandwidth 1: the score at every b <= t <= n - b is the symmetric change score (a valid, increasing cut) *)
Theorem C14_mw_bandwidth_one : forall CS n t, (1 <= t)%nat -> (t + 1 <= n)%nat ->
  nthZ (mw_scores CS 1 n) t = CS (t - 1)%nat t (t + 1)%nat.
Proof.
  intros CS n t H1 H2. rewrite mw_scores_nth by lia.
  replace ((1 <=? t)%nat && (t + 1 <=? n)%nat) with true; [reflexivity|].
  symmetry. apply andb_true_iff. split; apply Nat.leb_le; lia.
Qed.
(** PELT returns an admissible segmentation for every m >= 1 and n >= 2m, in particular n = 2m *)
Theorem C14_pelt_minimum_length : forall C pen m, (1 <= m)%nat -> Proofs.PeltSpec.Adm m (snd (pelt C pen m (m - 1) (2 * m))) (2 * m).
Proof. intros C pen m Hm. apply pelt_adm; [assumption|lia]. Qed.

Print Assumptions C14_completes_iff.
Print Assumptions C14_must_raise_iff.
Print Assumptions C14_invalid_configuration_raises.
Print Assumptions C14_missing_values_raise.
Print Assumptions C14_short_data_raise.
Print Assumptions C14_anomaliser_bounds.
Print Assumptions C14_domains.
Print Assumptions C14_sbs_runs.
Print Assumptions C14_cbs_runs.
Print Assumptions C14_mw_bandwidth_one.
Print Assumptions C14_pelt_minimum_length.

(** ---- added: statements re-derived from the lemma files by tools/append_props.py ---- *)
Theorem C14_pelt_asks_only_valid_cuts : forall (C1 C2 : nat -> nat -> Z) (pen : Z) (m n : nat), (1 <= m)%nat -> (2 * m <= n)%nat -> (forall s e : nat, (s + m <= e)%nat -> (e <= n)%nat -> C1 s e = C2 s e) -> pelt C1 pen m (m - 1) n = pelt C2 pen m (m - 1) n.
Proof. exact @pelt_ext_valid. Qed.

Theorem C14_moving_window_asks_only_valid_cuts : forall (CS1 CS2 : nat -> nat -> nat -> Z) (b n : nat) (thr : Z) (mdi : nat), (forall t : nat, (b <= t)%nat -> (t + b <= n)%nat -> CS1 (t - b)%nat t (t + b)%nat = CS2 (t - b)%nat t (t + b)%nat) -> mw CS1 b n thr mdi = mw CS2 b n thr mdi.
Proof. exact @mw_ext_valid. Qed.

Theorem C14_sbs_asks_only_valid_cuts : forall (CS1 CS2 : nat -> nat -> nat -> Z) (m : nat) (thr : Z) (ivs : list (nat * nat)), (forall s e k : nat, In (s, e) ivs -> (s + m <= k)%nat -> (k + m <= e)%nat -> CS1 s k e = CS2 s k e) -> sbs CS1 m thr ivs = sbs CS2 m thr ivs.
Proof. exact @sbs_ext_valid. Qed.

Theorem C14_cbs_asks_only_valid_cuts : forall (LS1 LS2 : nat -> nat -> nat -> nat -> Z) (m : nat) (thr : Z) (ivs : list (nat * nat)), (forall s e a z : nat, In (s, e) ivs -> (s < a)%nat -> (a + m <= z)%nat -> (z < e)%nat -> (m <= a - s + (e - z))%nat -> LS1 s a z e = LS2 s a z e) -> cbs LS1 m thr ivs = cbs LS2 m thr ivs.
Proof. exact @cbs_ext_valid_arith. Qed.

Theorem C14_capa_asks_only_valid_cuts : forall (Sc1 Sc2 : nat -> nat -> list Z) (Sp1 Sp2 : nat -> list Z) (ac : Z) (bc : list Z) (ap : Z) (bp : list Z) (m M delay n : nat), (1 <= m)%nat -> (m <= M)%nat -> (forall s e : nat, (s + m <= e)%nat -> (e <= s + M)%nat -> (e <= n)%nat -> Sc1 s e = Sc2 s e) -> (forall t : nat, (t < n)%nat -> Sp1 t = Sp2 t) -> capa Sc1 Sp1 ac bc ap bp m M delay n = capa Sc2 Sp2 ac bc ap bp m M delay n.
Proof. exact @capa_ext_valid_maxlen. Qed.

Theorem C14_interval_cut_accepted : forall (ms : Z) (m s e n : nat), ms <= Z.of_nat m -> (s + m <= e)%nat -> (e <= n)%nat -> (1 <= m)%nat -> row_ok (Plain 2 ms) (Z.of_nat n) [Z.of_nat s; Z.of_nat e] = true.
Proof. exact @plain2_cut_ok. Qed.

Theorem C14_split_cut_accepted : forall (ms : Z) (m s k e n : nat), ms <= Z.of_nat m -> (s + m <= k)%nat -> (k + m <= e)%nat -> (e <= n)%nat -> (1 <= m)%nat -> row_ok (Plain 3 ms) (Z.of_nat n) [Z.of_nat s; Z.of_nat k; Z.of_nat e] = true.
Proof. exact @plain3_cut_ok. Qed.

Theorem C14_window_cut_accepted : forall (ms : Z) (b t n : nat), ms <= Z.of_nat b -> (b <= t)%nat -> (t + b <= n)%nat -> (1 <= b)%nat -> row_ok (Plain 3 ms) (Z.of_nat n) [Z.of_nat (t - b); Z.of_nat t; Z.of_nat (t + b)] = true.
Proof. exact @mw_cut_ok. Qed.

Theorem C14_local_cut_accepted : forall (ms : Z) (m s a z e n : nat), ms <= Z.of_nat m -> (s < a)%nat -> (a + m <= z)%nat -> (z < e)%nat -> (m <= a - s + (e - z))%nat -> (e <= n)%nat -> (1 <= m)%nat -> row_ok (Local ms) (Z.of_nat n) [Z.of_nat s; Z.of_nat a; Z.of_nat z; Z.of_nat e] = true.
Proof. exact @local_cut_ok. Qed.

Print Assumptions C14_pelt_asks_only_valid_cuts.
Print Assumptions C14_moving_window_asks_only_valid_cuts.
Print Assumptions C14_sbs_asks_only_valid_cuts.
Print Assumptions C14_cbs_asks_only_valid_cuts.
Print Assumptions C14_capa_asks_only_valid_cuts.
Print Assumptions C14_interval_cut_accepted.
Print Assumptions C14_split_cut_accepted.
Print Assumptions C14_window_cut_accepted.
Print Assumptions C14_local_cut_accepted.
