(** C06, the L2 SAVING in binary64: `l2_saving_F` executes the operation order of skchange's `l2_saving` kernel (sequential cumsum, difference, square, division by the length)
    on primitive floats; the C06 harness compares it BIT FOR BIT with `L2Saving.evaluate` (Check/FloatSavingCheck.v).  Here: the rounding model, its distance from the regenerated
    real kernel `l2_saving_R`, and the refinement of the primitive-float programme to the rounding model under the boolean premise `l2_saving_trace_ok` (evaluated by the harness on
    every case). *)
From Coq Require Import Reals List Bool Arith PrimFloat.
From SK Require Import Lib.Base Proofs.RealLib Gen.KernelsR Proofs.FloatError Proofs.FloatRefine Check.FloatKernelCheck Check.FloatSavingCheck Proofs.FloatSaving.
Import ListNotations.


Theorem C06_float_l2_saving_rounding_error : forall (xs : list R) (s e : nat), (s < e)%nat -> INR e * u53 <= 1 / 100 -> Rabs (l2_saving_float53 xs s e - l2_saving_R (prefix xs) s e) <= (42 / 10 * INR e + 5) * u53 * (sumR (map Rabs (firstn e xs)) ^ 2 / INR (e - s)).
Proof. exact @l2_saving_float53_error. Qed.

Theorem C06_float_l2_saving_program_refines_rounding_model : forall (l : list float) (s e : nat), l2_saving_trace_ok l s e = true -> FR (l2_saving_F l s e) = l2_saving_float53 (map FR l) s e.
Proof. exact @l2_saving_F_refines. Qed.

Theorem C06_float_l2_saving_within_bound_of_real_kernel : forall (l : list float) (s e : nat), l2_saving_trace_ok l s e = true -> INR e * u53 <= 1 / 100 -> Rabs (FR (l2_saving_F l s e) - l2_saving_R (prefix (map FR l)) s e) <= (42 / 10 * INR e + 5) * u53 * (sumR (map Rabs (firstn e (map FR l))) ^ 2 / INR (e - s)).
Proof. exact @l2_saving_F_vs_R. Qed.

Theorem C06_float_l2_saving_nonnegative : forall (l : list float) (s e : nat), l2_saving_trace_ok l s e = true -> 0 <= FR (l2_saving_F l s e).
Proof. exact @l2_saving_F_nonneg. Qed.

Theorem C06_float_l2_saving_premise_holds_on_an_example : l2_saving_trace_ok demo_xs 1 7 = true.
Proof. exact @demo_saving_trace_ok. Qed.

Print Assumptions C06_float_l2_saving_rounding_error.
Print Assumptions C06_float_l2_saving_program_refines_rounding_model.
Print Assumptions C06_float_l2_saving_within_bound_of_real_kernel.
Print Assumptions C06_float_l2_saving_nonnegative.
Print Assumptions C06_float_l2_saving_premise_holds_on_an_example.
