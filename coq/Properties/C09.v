(** C09 -- circular binary segmentation reports greedy disjoint above-threshold anomalies.
    [cbs LS m thr ivs] models run_circular_binseg (code after the "fix:" commits) for ANY
    aggregated local anomaly score [LS s a z e]. *)
From Coq Require Import ZArith List Lia Permutation.
From SK Require Import Lib.Base Model.Sbs Model.Cbs Model.Capa Proofs.CbsProofs.
Import ListNotations.
Open Scope Z_scope.

(** the inner candidates of [s,e): strictly inside, length >= m, >= m surrounding samples *)
From SK Require Import Check.Scores Check.CbsCheck Proofs.CheckerSoundness Proofs.ValidCuts.
From SK Require Import Model.Generic Proofs.GenericZ.
Theorem C09_inner_candidates : forall s e m a z, In (a, z) (anomaly_intervals s e m) <->
  (s < a /\ a + m <= z /\ z < e /\ m <= (e - z) + (a - s))%nat.
Proof. exact anomaly_intervals_spec. Qed.

(** reported score / inner interval of a candidate = max / a maximiser over its inner candidates;
    a candidate without inner candidates has score 0 *)
Theorem C09_interval_scores : forall LS m s e a z v, best_inner LS m (s, e) = Some ((a, z), v) ->
  In (a, z) (anomaly_intervals s e m) /\ v = LS s a z e /\
  forall a' z', In (a', z') (anomaly_intervals s e m) -> LS s a' z' e <= v.
Proof. exact best_inner_spec. Qed.
Theorem C09_no_inner_candidate : forall LS m s e, best_inner LS m (s, e) = None <-> anomaly_intervals s e m = [].
Proof. exact best_inner_none. Qed.

(** anomalies are sorted, pairwise disjoint, of length >= m, strictly inside the data (C04);
    they are the sorted picks of the greedy loop over the per-interval maximisers *)
Theorem C09_wellformed : forall LS m thr n ivs anoms am, 0 <= thr -> (1 <= m)%nat ->
  (forall s e, In (s, e) ivs -> (e <= n)%nat) -> cbs LS m thr ivs = Some (anoms, am) ->
  (forall i, (S i < length anoms)%nat ->
      (fst (nthP anoms i) < fst (nthP anoms (S i)) /\ snd (nthP anoms i) <= fst (nthP anoms (S i)))%nat) /\
  (forall a z, In (a, z) anoms -> (1 <= a /\ a + m <= z <= n - 1)%nat) /\
  am = map (inner_or_zero LS m) ivs /\
  exists picks, greedy_anoms (length ivs) thr ivs (map fst am) (map snd am) = Some picks /\
                anoms = sort_pairs picks /\ Permutation anoms picks.
Proof. exact cbs_wellformed. Qed.

(** greedy characterisation: every pick is the inner interval of a candidate scoring above the
    threshold; no above-threshold candidate is left without an overlapping anomaly; raising the
    threshold can only remove anomalies *)
Theorem C09_picks_supported : forall thr ivs inner scores N fuel picks, anoms_pre thr ivs inner scores N ->
  greedy_anoms fuel thr ivs inner scores = Some picks ->
  forall ab, In ab picks -> exists i, (i < N)%nat /\ nthP inner i = ab /\ thr < nthZ scores i.
Proof. exact greedy_anoms_supported. Qed.
Theorem C09_no_candidate_left : forall thr ivs inner scores N fuel picks, anoms_pre thr ivs inner scores N ->
  greedy_anoms fuel thr ivs inner scores = Some picks ->
  forall i, (i < N)%nat -> thr < nthZ scores i -> exists ab, In ab picks /\ overlaps ab (nthP ivs i) = true.
Proof. exact greedy_anoms_complete. Qed.
Theorem C09_threshold_monotone : forall thr thr' ivs inner scores fuel fuel' picks picks',
  length ivs = length scores -> thr <= thr' ->
  greedy_anoms fuel thr ivs inner scores = Some picks -> greedy_anoms fuel' thr' ivs inner scores = Some picks' ->
  incl picks' picks.
Proof. exact greedy_anoms_threshold_incl. Qed.

(** total on every input with thr >= 0 (C14), depends only on score values (C12) *)
Theorem C09_total : forall LS m thr ivs, 0 <= thr -> exists r, cbs LS m thr ivs = Some r.
Proof. exact cbs_total. Qed.
Theorem C09_ext : forall LS1 LS2 m thr ivs, (forall s a z e, LS1 s a z e = LS2 s a z e) -> cbs LS1 m thr ivs = cbs LS2 m thr ivs.
Proof. exact cbs_ext. Qed.

(** with min_segment_length = 1 a candidate interval of length 2 has no inner candidate: the pinned
    code called np.argmax on an empty array there *)
Theorem C09_m1_len2_has_no_inner : forall s, anomaly_intervals s (s + 2) 1 = [].
Proof. intros s. apply anomaly_intervals_empty. lia. Qed.

Print Assumptions C09_inner_candidates.
Print Assumptions C09_interval_scores.
Print Assumptions C09_no_inner_candidate.
Print Assumptions C09_wellformed.
Print Assumptions C09_picks_supported.
Print Assumptions C09_no_candidate_left.
Print Assumptions C09_threshold_monotone.
Print Assumptions C09_total.
Print Assumptions C09_ext.
Print Assumptions C09_m1_len2_has_no_inner.

(** ---- added: statements re-derived from the lemma files by tools/append_props.py ---- *)
Theorem C09_checker_sound : forall c : cbs_case, cbs_spec_ok c = true -> (forall (s e a z : nat) (v : Z), In (s, e, (a, z), v) (bc_rows c) -> anomaly_intervals s e (bc_m c) = [] /\ v = 0 \/ In (a, z) (anomaly_intervals s e (bc_m c)) /\ ((s < a)%nat /\ (a + bc_m c <= z)%nat /\ (z < e)%nat /\ (bc_m c <= e - z + (a - s))%nat) /\ v = ls_agg (bc_score c) s a z e /\ (forall a' z' : nat, In (a', z') (anomaly_intervals s e (bc_m c)) -> ls_agg (bc_score c) s a' z' e <= v)) /\ ((forall a z : nat, In (a, z) (bc_anoms c) -> (1 <= a)%nat /\ (a + bc_m c <= z)%nat /\ (z + 1 <= bc_n c)%nat) /\ (forall i : nat, (S i < length (bc_anoms c))%nat -> (snd (nthP (bc_anoms c) i) <= fst (nthP (bc_anoms c) (S i)))%nat)) /\ (forall a z : nat, In (a, z) (bc_anoms c) -> exists (s e : nat) (v : Z), In (s, e, (a, z), v) (bc_rows c) /\ bc_thr c < v) /\ (forall (s e : nat) (ab : nat * nat) (v : Z), In (s, e, ab, v) (bc_rows c) -> bc_thr c < v -> exists a z : nat, In (a, z) (bc_anoms c) /\ (s < z)%nat /\ (a < e)%nat).
Proof. exact @cbs_spec_ok_sound. Qed.

Theorem C09_model_equality_checker_sound : forall c : cbs_case, cbs_model_eq c = true -> let ivs := seeded_intervals (bc_n c) (2 * bc_m c) (bc_lens c) in map brow_iv (bc_rows c) = ivs /\ (exists am : list (nat * nat * Z), cbs (ls_agg (bc_score c)) (bc_m c) (bc_thr c) ivs = Some (bc_anoms c, am) /\ map fst am = map brow_inner (bc_rows c) /\ map snd am = map brow_score (bc_rows c)).
Proof. exact @cbs_model_eq_sound. Qed.

Theorem C09_only_valid_cuts_matter : forall (LS1 LS2 : nat -> nat -> nat -> nat -> Z) (m : nat) (thr : Z) (ivs : list (nat * nat)), (forall s e a z : nat, In (s, e) ivs -> (s < a)%nat -> (a + m <= z)%nat -> (z < e)%nat -> (m <= a - s + (e - z))%nat -> LS1 s a z e = LS2 s a z e) -> cbs LS1 m thr ivs = cbs LS2 m thr ivs.
Proof. exact @cbs_ext_valid_arith. Qed.

Print Assumptions C09_checker_sound.
Print Assumptions C09_model_equality_checker_sound.
Print Assumptions C09_only_valid_cuts_matter.

(** ---- added: statements re-derived from the lemma files by tools/append_props.py ---- *)
Theorem C09_generic_loop_at_Z_is_the_model : forall (LS : nat -> nat -> nat -> nat -> T Zn) (m : nat) (thr : T Zn) (ivs : list (nat * nat)), gcbs Zn LS m thr ivs = cbs LS m thr ivs.
Proof. exact @gcbs_Z. Qed.

Print Assumptions C09_generic_loop_at_Z_is_the_model.
