(** Well-formedness of PELT's output for EVERY number type.

    [Model/Generic.v] states the PELT search loop [gpelt N C pen m delay n] over an arbitrary
    record [N : num] of operations (zero, addition, negation, the two comparisons) with NO laws.
    This file proves that the STRUCTURE of the output does not depend on the score values at all:

      - [gargmin_index_in_range] : whatever the comparison does, the index returned by the
        first-strict-improvement scan is inside the list and the value returned is the entry
        at that index;
      - [GInv] / [gstep_GInv] / [grun_GInv] : the state invariant of the loop (lengths of
        [gopt] / [gprev], which start positions may be in [gstarts] and in the queued prunings
        [gpending], the length of the queue, where the back-pointers in [gprev] may point);
      - [gpelt_adm] : the changepoints are an admissible segmentation ([Adm] of
        Proofs/PeltSpec.v: strictly increasing, every segment -- first and last included -- has
        at least [m] samples);
      - [gpelt_scores_length] : one score per sample;
      - [F64_pelt_adm], [F64_pelt_scores_length], [F64_pelt_wellformed] : the binary64 instance
        (Coq's primitive floats).  No hypothesis on the cost table: NaN, infinities and
        non-associative addition included;
      - [gpelt_wellformed], [gpelt_count] : the clauses of Properties/C04.v for the generic model.

    The proofs are the structural half of Proofs/PeltRefine.v ([SInv], [backtrack_chain],
    [pelt_adm]) with every statement about score VALUES removed -- which is exactly why no law of
    the operations is needed. *)
From Coq Require Import List Lia Bool Arith Sorted.
From SK Require Import Lib.Base Model.Pelt Proofs.PeltSpec Proofs.PeltLemmas Proofs.PeltRefine.
From SK Require Import Model.Generic Model.GenericF Proofs.WellFormed.
Import ListNotations.
Open Scope nat_scope.

(* ------------------------------------------------------------------ *)
(** * 1. The scan [gargmin]: index in range, value at the index -- for ANY comparison *)

Lemma gargmin_from_range (N : num) (d : T N) (l : list (T N)) : forall (bi : nat) (b : T N) (i : nat),
  (fst (gargmin_from N bi b i l) = bi /\ snd (gargmin_from N bi b i l) = b) \/
  (i <= fst (gargmin_from N bi b i l) < i + length l /\
   snd (gargmin_from N bi b i l) = nth (fst (gargmin_from N bi b i l) - i) l d).
Proof.
  induction l as [|x t IH]; intros bi b i.
  - cbn [gargmin_from fst snd]. left. split; reflexivity.
  - cbn [gargmin_from]. destruct (ltb N x b).
    + right. specialize (IH i x (S i)).
      remember (gargmin_from N i x (S i) t) as r eqn:Er. clear Er.
      destruct IH as [[Hf Hs]|[Hr Hn]].
      * rewrite Hf, Hs, Nat.sub_diag. cbn [length nth]. split; [lia|reflexivity].
      * cbn [length]. replace (fst r - i) with (S (fst r - S i)) by lia. cbn [nth].
        split; [lia|exact Hn].
    + specialize (IH bi b (S i)).
      remember (gargmin_from N bi b (S i) t) as r eqn:Er. clear Er.
      destruct IH as [[Hf Hs]|[Hr Hn]]; [left; split; assumption|right].
      cbn [length]. replace (fst r - i) with (S (fst r - S i)) by lia. cbn [nth].
      split; [lia|exact Hn].
Qed.

(** THEOREM 1 *)
Theorem gargmin_index_in_range : forall (N : num) (l : list (T N)) (d : T N) (i : nat) (b : T N),
  gargmin N l = Some (i, b) -> i < length l /\ b = nth i l d.
Proof.
  intros N l d i b H. destruct l as [|x t]; [discriminate H|].
  unfold gargmin in H.
  pose proof (gargmin_from_range N d t 0 x 1) as Hr.
  remember (gargmin_from N 0 x 1 t) as r eqn:Er. clear Er.
  destruct r as [i' b']. injection H as Ei Eb. subst i' b'. cbn [fst snd] in Hr.
  destruct Hr as [[Hf Hs]|[Hr Hn]].
  - subst i b. cbn [length nth]. split; [lia|reflexivity].
  - cbn [length]. replace i with (S (i - 1)) at 2 by lia. cbn [nth]. split; [lia|exact Hn].
Qed.

(** a non-empty list always has a result *)
Lemma gargmin_some (N : num) (l : list (T N)) : l <> [] -> exists i b, gargmin N l = Some (i, b).
Proof.
  destruct l as [|x t]; [congruence|]. intros _. unfold gargmin.
  destruct (gargmin_from N 0 x 1 t) as [i b]. exists i, b. reflexivity.
Qed.

Lemma gargmin_none (N : num) (l : list (T N)) : gargmin N l = None -> l = [].
Proof. destruct l; [reflexivity|discriminate]. Qed.

(* ------------------------------------------------------------------ *)
(** * small list facts (nat components only) *)

Lemma in_map_fst_filter_combine {A B} (f : A * B -> bool) (l1 : list A) (l2 : list B) (a : A) :
  In a (map fst (filter f (combine l1 l2))) -> In a l1.
Proof.
  intros Ha. apply in_map_iff in Ha as ([a' c] & Ea & Hin). cbn [fst] in Ea. subst a'.
  apply filter_In in Hin as [Hin _]. exact (in_combine_l l1 l2 a c Hin).
Qed.

Lemma in_hd_in {A} (L : list (list A)) (D : list A) (a : A) :
  In a (hd [] L) -> exists D0, In D0 L /\ In a D0.
Proof. destruct L as [|D0 L']; cbn [hd]; [intros []|]. intros H. exists D0. split; [now left|exact H]. Qed.

Lemma in_tl_in {A} (L : list A) (x : A) : In x (tl L) -> In x L.
Proof. destruct L as [|y L']; cbn [tl]; [intros []|]. intros H. now right. Qed.

Lemma admseg_snoc_nat (m p : nat) (cpts : list nat) (c T : nat) :
  admseg m p (cpts ++ [c]) T <-> admseg m p cpts c /\ c + m <= T.
Proof. revert p; induction cpts as [|a l IH]; intros p; cbn [app admseg]; [tauto|]. rewrite IH. tauto. Qed.

(** [full m T a] (Proofs/PeltRefine.v): [a = 0 \/ (m <= a /\ a + m <= T)] *)
Lemma gfull_mono (m T a : nat) : full m T a -> full m (S T) a.
Proof. unfold full. lia. Qed.

(* ------------------------------------------------------------------ *)
(** * 2. The state invariant of [gstep], for any instance *)
Section GWf.
Variable N : num.
Variable C : nat -> nat -> T N.
Variable pen : T N.
Variable m delay : nat.
Hypothesis m_pos : 1 <= m.

Notation gstepM := (gstep N C pen m delay).
Notation ginitM := (ginit N C pen m).
Notation grunM := (grun N C pen m delay).

(** unfolding one step *)
Definition gstarts1 (s : gst N) (t : nat) : list nat := gstarts N s ++ [t - (m - 1)].
Definition gcandv (s : gst N) (t a : nat) : T N :=
  add N (add N (nthV N (gopt N s) a) (C a (S t))) pen.
Definition gcands (s : gst N) (t : nat) : list (T N) := map (gcandv s t) (gstarts1 s t).
Definition gdropl (s : gst N) (t : nat) (b : T N) : list nat :=
  map fst (filter (fun ac => negb (leb N (snd ac) (add N b pen))) (combine (gstarts1 s t) (gcands s t))).

Lemma gstarts1_nonempty s t : gstarts1 s t <> [].
Proof. unfold gstarts1. destruct (gstarts N s); discriminate. Qed.

Lemma gcands_length s t : length (gcands s t) = length (gstarts1 s t).
Proof. unfold gcands. apply map_length. Qed.

(** everything queued for pruning at this step is one of the evaluated starts *)
Lemma in_gdropl s t b a : In a (gdropl s t b) -> In a (gstarts1 s t).
Proof. unfold gdropl. apply in_map_fst_filter_combine. Qed.

(** the step never takes the unreachable [None] branch; the selected index is in range and the
    selected value is the candidate at that index -- whatever the comparisons return *)
Lemma gstep_cases s t :
  exists i b now pend',
    gargmin N (gcands s t) = Some (i, b) /\
    i < length (gstarts1 s t) /\
    b = gcandv s t (nthN (gstarts1 s t) i) /\
    gstepM s t = {| gopt := gopt N s ++ [b];
                    gprev := gprev N s ++ [nthN (gstarts1 s t) i];
                    gstarts := removeall now (gstarts1 s t);
                    gpending := pend' |} /\
    ( (delay < length (gpending N s ++ [gdropl s t b]) /\
        now = hd [] (gpending N s ++ [gdropl s t b]) /\ pend' = tl (gpending N s ++ [gdropl s t b]))
      \/
      (length (gpending N s ++ [gdropl s t b]) <= delay /\
        now = [] /\ pend' = gpending N s ++ [gdropl s t b]) ).
Proof.
  assert (Hne : gcands s t <> []).
  { unfold gcands. intros E. apply map_eq_nil in E. now apply gstarts1_nonempty in E. }
  destruct (gargmin_some N (gcands s t) Hne) as (i & b & Harg).
  destruct (gargmin_index_in_range N (gcands s t) (gcandv s t 0) i b Harg) as [Hi Hnth].
  rewrite gcands_length in Hi.
  assert (Hb : b = gcandv s t (nthN (gstarts1 s t) i)).
  { rewrite Hnth. unfold gcands, nthN. apply map_nth. }
  assert (Hstep : gstepM s t =
     let pend := gpending N s ++ [gdropl s t b] in
     if (delay <? length pend)
     then {| gopt := gopt N s ++ [b]; gprev := gprev N s ++ [nthN (gstarts1 s t) i];
             gstarts := removeall (hd [] pend) (gstarts1 s t); gpending := tl pend |}
     else {| gopt := gopt N s ++ [b]; gprev := gprev N s ++ [nthN (gstarts1 s t) i];
             gstarts := removeall [] (gstarts1 s t); gpending := pend |}).
  { unfold gstep.
    change (map (fun a => add N (add N (nthV N (gopt N s) a) (C a (S t))) pen)
                (gstarts N s ++ [t - (m - 1)]))
      with (gcands s t).
    change (gstarts N s ++ [t - (m - 1)]) with (gstarts1 s t).
    cbv zeta. rewrite Harg. fold (gdropl s t b).
    destruct (delay <? length (gpending N s ++ [gdropl s t b])); reflexivity. }
  cbv zeta in Hstep.
  destruct (delay <? length (gpending N s ++ [gdropl s t b])) eqn:Hc.
  - apply Nat.ltb_lt in Hc.
    exists i, b, (hd [] (gpending N s ++ [gdropl s t b])), (tl (gpending N s ++ [gdropl s t b])).
    repeat split; auto.
  - apply Nat.ltb_ge in Hc.
    exists i, b, [], (gpending N s ++ [gdropl s t b]).
    repeat split; auto.
Qed.

(** THEOREM 2: the invariant.  A state "at T" has [gopt] of length [T + 1] (entries for the
    segment ends 0..T) and [gprev] of length [T] ([gprev[e-1]] is the back-pointer of end [e]).
    [full m T a] (Proofs/PeltRefine.v) : [a = 0] or [m <= a /\ a + m <= T], i.e. [a] is an
    admissible start of a last segment ending at [T]. *)
Record GInv (T : nat) (s : gst N) : Prop := {
  gi_len_opt : length (gopt N s) = S T;
  gi_len_prev : length (gprev N s) = T;
  gi_starts : forall a, In a (gstarts N s) -> full m T a;
  gi_pend_len : length (gpending N s) <= delay;
  gi_pend : forall D a, In D (gpending N s) -> In a D -> full m T a;
  gi_bp : forall e, m <= e <= T -> full m e (nthN (gprev N s) (e - 1)) }.

Lemma ginit_len_opt : length (gopt N ginitM) = S (2 * m - 1).
Proof. unfold ginit. cbn [gopt]. rewrite app_length, repeat_length, map_length, seq_length. lia. Qed.

Lemma ginit_GInv : GInv (2 * m - 1) ginitM.
Proof.
  constructor.
  - apply ginit_len_opt.
  - unfold ginit. cbn [gprev]. apply repeat_length.
  - unfold ginit. cbn [gstarts]. intros a [<-|[]]. now left.
  - unfold ginit. cbn [gpending length]. lia.
  - unfold ginit. cbn [gpending]. intros D a [].
  - intros e He.
    assert (Hp : nthN (gprev N ginitM) (e - 1) = 0).
    { unfold nthN, ginit. cbn [gprev]. apply nth_repeat_lt. lia. }
    rewrite Hp. now left.
Qed.

Lemma gstarts1_full T s : 2 * m - 1 <= T -> GInv T s ->
  forall a, In a (gstarts1 s T) -> full m (S T) a.
Proof.
  intros HT HS a Ha. unfold gstarts1 in Ha. apply in_app_or in Ha as [Ha|[<-|[]]].
  - apply gfull_mono. now apply (gi_starts T s HS).
  - right. lia.
Qed.

Theorem gstep_GInv T s : 2 * m - 1 <= T -> GInv T s -> GInv (S T) (gstepM s T).
Proof.
  intros HT HS.
  destruct (gstep_cases s T) as (i & b & now & pend' & _ & Hi & _ & Hstep & Hq).
  pose proof (gstarts1_full T s HT HS) as Hfull1.
  set (a0 := nthN (gstarts1 s T) i) in *.
  assert (Ha0 : In a0 (gstarts1 s T)) by (unfold a0, nthN; now apply nth_In).
  assert (Hfa0 : full m (S T) a0) by now apply Hfull1.
  destruct HS as [Hlo Hlp Hst Hpl Hpe Hbp].
  assert (Hpend1 : forall D a, In D (gpending N s ++ [gdropl s T b]) -> In a D -> full m (S T) a).
  { intros D a HD Ha. apply in_app_or in HD as [HD|[<-|[]]].
    - apply gfull_mono. exact (Hpe D a HD Ha).
    - apply Hfull1. exact (in_gdropl s T b a Ha). }
  assert (Hlen1 : length (gpending N s ++ [gdropl s T b]) = S (length (gpending N s))).
  { rewrite app_length. cbn [length]. lia. }
  rewrite Hstep. constructor; cbn [gopt gprev gstarts gpending].
  - rewrite app_length, Hlo. cbn [length]. lia.
  - rewrite app_length, Hlp. cbn [length]. lia.
  - intros a Ha. apply in_removeall in Ha as [Ha _]. now apply Hfull1.
  - destruct Hq as [(Hc & _ & Epend)|(Hc & _ & Epend)]; rewrite Epend.
    + rewrite length_tl, Hlen1. lia.
    + exact Hc.
  - intros D a HD Ha. destruct Hq as [(_ & _ & Epend)|(_ & _ & Epend)]; rewrite Epend in HD.
    + apply in_tl_in in HD. exact (Hpend1 D a HD Ha).
    + exact (Hpend1 D a HD Ha).
  - intros e He. destruct (Nat.eq_dec e (S T)) as [->|Hne].
    + replace (S T - 1) with T by lia.
      assert (Hp : nthN (gprev N s ++ [a0]) T = a0).
      { unfold nthN. rewrite app_nth2 by lia. rewrite Hlp, Nat.sub_diag. reflexivity. }
      rewrite Hp. exact Hfa0.
    + assert (HeT : m <= e <= T) by lia.
      assert (Hp : nthN (gprev N s ++ [a0]) (e - 1) = nthN (gprev N s) (e - 1)).
      { unfold nthN. rewrite app_nth1 by lia. reflexivity. }
      rewrite Hp. exact (Hbp e HeT).
Qed.

Theorem grun_GInv n : 2 * m <= n -> GInv n (grunM n).
Proof.
  intros Hn. unfold grun.
  replace n with (2 * m - 1 + (n - (2 * m - 1))) at 1 by lia.
  apply (fold_left_seq_inv GInv gstepM).
  - intros T s HT HS. now apply gstep_GInv.
  - apply ginit_GInv.
Qed.

(* ------------------------------------------------------------------ *)
(** * Back-pointer chains are admissible segmentations (nat components only) *)

Lemma gbacktrack_chain (pv : list nat) T :
  (forall e, m <= e <= T -> full m e (nthN pv (e - 1))) ->
  forall fuel e acc, m <= e <= T -> e <= fuel ->
    exists cp, backtrack fuel pv e acc = 0 :: cp ++ acc /\ Adm m cp e.
Proof.
  intros Hbp. induction fuel as [|f IH]; intros e acc He Hf; [lia|].
  destruct e as [|i]; [lia|]. cbn [backtrack].
  pose proof (Hbp (S i) He) as Hfull. replace (S i - 1) with i in Hfull by lia.
  set (c := nthN pv i) in *.
  destruct Hfull as [Hc|[Hc1 Hc2]].
  - exists []. rewrite Hc. split.
    + destruct f; reflexivity.
    + unfold Adm. cbn [admseg]. lia.
  - destruct (IH c (c :: acc) ltac:(lia) ltac:(lia)) as (cp & Hbt & Hadm).
    exists (cp ++ [c]). split.
    + rewrite Hbt. rewrite <- app_assoc. reflexivity.
    + unfold Adm. apply admseg_snoc_nat. split; [exact Hadm|lia].
Qed.

(** for every end [T] in [m, n] the chain from [T] is an admissible segmentation of [0, T) *)
Lemma gpelt_prefix n T : 2 * m <= n -> m <= T <= n ->
  Adm m (changepoints (gprev N (grunM n)) T) T.
Proof.
  intros Hn HT. pose proof (grun_GInv n Hn) as HS.
  destruct (gbacktrack_chain (gprev N (grunM n)) n (gi_bp n _ HS) T T [] HT (le_n T))
    as (cp & Hbt & Hadm).
  unfold changepoints. rewrite Hbt. cbn [tl]. rewrite app_nil_r. exact Hadm.
Qed.

Lemma gpelt_adm_sec n : 2 * m <= n -> Adm m (snd (gpelt N C pen m delay n)) n.
Proof. intros Hn. unfold gpelt. cbn [snd]. apply (gpelt_prefix n n Hn). lia. Qed.

Lemma gpelt_scores_length_sec n : 2 * m <= n -> length (fst (gpelt N C pen m delay n)) = n.
Proof.
  intros Hn. unfold gpelt. cbn [fst]. rewrite length_tl, (gi_len_opt n _ (grun_GInv n Hn)). lia.
Qed.

(** the back-pointers recorded by the run, spelled out: every recorded end points to 0 or to a
    position leaving [m] samples on both sides *)
Lemma gpelt_backpointers n e : 2 * m <= n -> m <= e <= n ->
  nthN (gprev N (grunM n)) (e - 1) = 0 \/
  (m <= nthN (gprev N (grunM n)) (e - 1) /\ nthN (gprev N (grunM n)) (e - 1) + m <= e).
Proof. intros Hn He. exact (gi_bp n _ (grun_GInv n Hn) e He). Qed.

End GWf.

(* ------------------------------------------------------------------ *)
(** * 3, 4. The theorems in closed form: any instance, any cost table, any penalty, any delay *)

(** THEOREM 3 *)
Theorem gpelt_adm : forall (N : num) (C : nat -> nat -> T N) (pen : T N) (m delay n : nat),
  1 <= m -> 2 * m <= n -> Adm m (snd (gpelt N C pen m delay n)) n.
Proof. intros N C pen m delay n Hm Hn. exact (gpelt_adm_sec N C pen m delay Hm n Hn). Qed.

(** THEOREM 4 *)
Theorem gpelt_scores_length : forall (N : num) (C : nat -> nat -> T N) (pen : T N) (m delay n : nat),
  1 <= m -> 2 * m <= n -> length (fst (gpelt N C pen m delay n)) = n.
Proof. intros N C pen m delay n Hm Hn. exact (gpelt_scores_length_sec N C pen m delay Hm n Hn). Qed.

(* ------------------------------------------------------------------ *)
(** * 6. The clauses of Properties/C04.v for the generic model *)

(** THEOREM 6a: strictly increasing; every changepoint in [1, n-1] and in [m, n-m]; consecutive
    changepoints at least [m] apart *)
Theorem gpelt_wellformed : forall (N : num) (C : nat -> nat -> T N) (pen : T N) (m delay n : nat),
  1 <= m -> 2 * m <= n ->
  let cpts := snd (gpelt N C pen m delay n) in
  StronglySorted lt cpts /\
  (forall c, In c cpts -> 1 <= c <= n - 1 /\ m <= c /\ c + m <= n) /\
  (forall i, S i < length cpts -> nthN cpts i + m <= nthN cpts (S i)).
Proof.
  intros N C pen m delay n Hm Hn cpts. apply adm_concrete; [exact Hm|].
  exact (gpelt_adm N C pen m delay n Hm Hn).
Qed.

(** THEOREM 6b: the number of changepoints is bounded by the data length *)
Theorem gpelt_count : forall (N : num) (C : nat -> nat -> T N) (pen : T N) (m delay n : nat),
  1 <= m -> 2 * m <= n -> (length (snd (gpelt N C pen m delay n)) + 1) * m <= n.
Proof.
  intros N C pen m delay n Hm Hn.
  exact (proj2 (adm_length m _ n Hm (gpelt_adm N C pen m delay n Hm Hn))).
Qed.

(** THEOREM 6c: no duplicates (a consequence of strict increase) *)
Theorem gpelt_nodup : forall (N : num) (C : nat -> nat -> T N) (pen : T N) (m delay n : nat),
  1 <= m -> 2 * m <= n -> NoDup (snd (gpelt N C pen m delay n)).
Proof.
  intros N C pen m delay n Hm Hn.
  destruct (gpelt_wellformed N C pen m delay n Hm Hn) as [Hs _].
  induction Hs as [|a l Hs IH Hall]; constructor; [|exact IH].
  intros Hin. rewrite Forall_forall in Hall. specialize (Hall a Hin). lia.
Qed.

(* ------------------------------------------------------------------ *)
(** * 5. The binary64 instance: no hypothesis on the scores (NaN / infinities included) *)

(** THEOREM 5 *)
Theorem F64_pelt_adm : forall (C : nat -> nat -> T F64) (pen : T F64) (m delay n : nat),
  1 <= m -> 2 * m <= n -> Adm m (snd (gpelt F64 C pen m delay n)) n.
Proof. exact (gpelt_adm F64). Qed.

Theorem F64_pelt_scores_length : forall (C : nat -> nat -> T F64) (pen : T F64) (m delay n : nat),
  1 <= m -> 2 * m <= n -> length (fst (gpelt F64 C pen m delay n)) = n.
Proof. exact (gpelt_scores_length F64). Qed.

Theorem F64_pelt_wellformed : forall (C : nat -> nat -> T F64) (pen : T F64) (m delay n : nat),
  1 <= m -> 2 * m <= n ->
  let cpts := snd (gpelt F64 C pen m delay n) in
  StronglySorted lt cpts /\
  (forall c, In c cpts -> 1 <= c <= n - 1 /\ m <= c /\ c + m <= n) /\
  (forall i, S i < length cpts -> nthN cpts i + m <= nthN cpts (S i)).
Proof. exact (gpelt_wellformed F64). Qed.

(** the same at a cost table that is NaN everywhere, as a sanity instance of "any score values" *)
Example F64_pelt_adm_all_nan : forall (m delay n : nat), 1 <= m -> 2 * m <= n ->
  Adm m (snd (gpelt F64 (fun _ _ => PrimFloat.nan) PrimFloat.nan m delay n)) n.
Proof. intros m delay n. exact (F64_pelt_adm (fun _ _ => PrimFloat.nan) PrimFloat.nan m delay n). Qed.

(* ------------------------------------------------------------------ *)
Print Assumptions gargmin_index_in_range.
Print Assumptions gstep_GInv.
Print Assumptions grun_GInv.
Print Assumptions gpelt_adm.
Print Assumptions gpelt_scores_length.
Print Assumptions F64_pelt_adm.
Print Assumptions F64_pelt_scores_length.
Print Assumptions F64_pelt_wellformed.
Print Assumptions gpelt_wellformed.
Print Assumptions gpelt_count.
Print Assumptions gpelt_nodup.
