(** A larger penalty never yields more changepoints -- over the reals, and end to end for the built-in squared-error cost
    (real twin of [pelt_penalty_monotone], Proofs/PeltRefine.v; stated in Properties/C15.v). *)
From Coq Require Import Reals Lra List Lia Arith.
From SK Require Import Lib.Base Model.PeltR Proofs.PeltSpec Gen.KernelsR Proofs.RealLib Proofs.CostKernels Proofs.ScoreKernels Proofs.PeltReal.
Import ListNotations.
Open Scope R_scope.

Lemma more_penalty_fewer_cptsR (C : nat -> nat -> R) (m n : nat) (pen1 pen2 : R) (c1 c2 : list nat) :
  pen1 < pen2 -> Adm m c1 n -> Adm m c2 n ->
  (forall c, Adm m c n -> pencostR C pen1 c1 n <= pencostR C pen1 c n) ->
  (forall c, Adm m c n -> pencostR C pen2 c2 n <= pencostR C pen2 c n) ->
  (length c2 <= length c1)%nat.
Proof.
  intros Hlt A1 A2 O1 O2. specialize (O1 c2 A2). specialize (O2 c1 A1).
  unfold pencostR in O1, O2.
  set (S1 := segcostR C 0 c1 n) in *. set (S2 := segcostR C 0 c2 n) in *.
  destruct (le_lt_dec (length c2) (length c1)) as [Hle|Hgt]; [exact Hle|exfalso].
  apply lt_INR in Hgt.
  set (k1 := INR (length c1)) in *. set (k2 := INR (length c2)) in *.
  assert (Hpos : 0 < (pen2 - pen1) * (k2 - k1)) by (apply Rmult_lt_0_compat; lra).
  nra.
Qed.

Theorem peltR_penalty_monotone (C : nat -> nat -> R) (pen1 pen2 : R) (m delay n : nat) :
  (1 <= m)%nat -> (2 * m <= n)%nat -> 0 <= pen1 < pen2 -> (m <= delay + 1)%nat ->
  (forall s k e, (s + m <= k)%nat -> (k + m <= e)%nat -> (e <= n)%nat -> C s k + C k e <= C s e) ->
  (length (snd (peltR C pen2 m delay n)) <= length (snd (peltR C pen1 m delay n)))%nat.
Proof.
  intros Hm Hn Hp Hd Hs.
  apply (more_penalty_fewer_cptsR C m n pen1 pen2); [lra| | | |].
  - now apply peltR_adm.
  - now apply peltR_adm.
  - intros c Hc. apply peltR_optimal_bounded; auto; lra.
  - intros c Hc. apply peltR_optimal_bounded; auto; lra.
Qed.

(** end to end: PELT with the squared-error cost on any real data *)
Theorem pelt_l2_penalty_monotone (xs : list R) (pen1 pen2 : R) (m : nat) :
  (1 <= m)%nat -> (2 * m <= length xs)%nat -> 0 <= pen1 < pen2 ->
  let C := l2_cost_optim_R (prefix xs) (prefix (sq xs)) in
  (length (snd (peltR C pen2 m (m - 1) (length xs))) <= length (snd (peltR C pen1 m (m - 1) (length xs))))%nat.
Proof.
  intros Hm Hn Hp C. apply peltR_penalty_monotone; auto; [lia|].
  intros s k e Hsk Hke _. apply l2_split; lia.
Qed.

Print Assumptions peltR_penalty_monotone.
Print Assumptions pelt_l2_penalty_monotone.
