(** End-to-end binary64 theorems: circular binary segmentation, run FROM THE DATA with the squared-error local anomaly
    score on one column.

    The harness runs   gcbs_any F64 (local_l2_F xs) m thr ivs   on the float data [xs] ([fcbs2_case_ok],
    Check/FloatRunCheck.v) and it reproduces CircularBinarySegmentation bit for bit.  [local_l2_F] is the binary64 twin
    of skchange's LocalAnomalyScore(L2Cost()) on one column:

        outer - (inner + surrounding),   surrounding = cost of the CONCATENATED rows  xs[s:a] ++ xs[b:e]  fitted afresh.

    Three layers are composed, as in Proofs/MwSbsFloatCusum.v:

      kernel   [local_l2_F_vs_R]: under the boolean premise [local_l2_trace_ok] (and [small_n]) the computed score is within
               [local_E] of the TRUE local anomaly score [local_R] of the real data  map FR xs;
      order    [ltb_FR] (Proofs/PeltFloat.v): the comparison of finite floats is the comparison of their real values;
      search   the specification theorems of the greedy search for non-NaN floats and ANY threshold
               ([gcbs_any_supported_and_complete], Proofs/AnyThreshold.v; [G09_interval_scores], Proofs/GenericSpec.v).

    The threshold only has to be a finite float. *)
From Coq Require Import Reals Lra Lia List Arith ZArith Bool Floats Psatz Sorted.
From Flocq Require Import Core Relative BinarySingleNaN.
From Flocq Require IEEE754.PrimFloat.
From SK Require Import Gen.KernelsR Proofs.RealLib Proofs.CostKernels Proofs.ScoreKernels Proofs.FloatError
  Check.FloatKernelCheck Check.FloatKernelCheck2 Proofs.FloatRefine Proofs.FloatKernels2 Proofs.PeltFloat Proofs.PeltFloatL2.
(* the list vocabulary of the detectors ([slice] on any list) is imported last: it shadows the real-number one *)
From SK Require Import Lib.Base Model.Mw Model.Sbs Model.Capa Model.Cbs Model.PeltR Model.Generic Model.GenericF Model.GenericAny.
From SK Require Import Proofs.ArgmaxLemmas Proofs.MwProofs Proofs.CbsProofs Proofs.GenericRank Proofs.GenericOrder Proofs.GenericSpec
  Proofs.GenericInstances Proofs.AnyThreshold Proofs.AnyThresholdF Proofs.MwSbsFloatCusum Check.FloatRunCheck.
Import ListNotations.

Local Open Scope R_scope.

Notation rslice := RealLib.slice (only parsing).

(* ------------------------------------------------------------------------- *)
(** * 0. One rounding, relative to the ROUNDED result                          *)
(* ------------------------------------------------------------------------- *)

(** round to nearest:  |rnd x - x| <= 2^-53 |rnd x|  *)
Lemma rnd53_rel_round x : Rabs (rnd53 x - x) <= u53 * Rabs (rnd53 x).
Proof.
  pose proof (relative_error_N_FLX_round radix2 53 ltac:(lia) (fun n => negb (Z.even n)) x) as H.
  unfold rnd53, u53.
  replace (/ 2 * bpow radix2 (- (53) + 1)) with (bpow radix2 (-53)) in H.
  - exact H.
  - change (- (53) + 1)%Z with (-53 + 1)%Z. rewrite bpow_plus.
    change (bpow radix2 1) with 2. field.
Qed.

Lemma FR_add_error_round (x y : float) :
  finF x = true -> finF y = true -> finF (x + y)%float = true ->
  Rabs (FR (x + y)%float - (FR x + FR y)) <= u53 * Rabs (FR (x + y)%float).
Proof. intros Hx Hy Hs. rewrite (FR_add53 x y Hx Hy Hs). apply rnd53_rel_round. Qed.

Lemma FR_sub_error_round (x y : float) :
  finF x = true -> finF y = true -> finF (x - y)%float = true ->
  Rabs (FR (x - y)%float - (FR x - FR y)) <= u53 * Rabs (FR (x - y)%float).
Proof. intros Hx Hy Hs. rewrite (FR_sub53 x y Hx Hy Hs). apply rnd53_rel_round. Qed.

(* ------------------------------------------------------------------------- *)
(** * 1. The true local anomaly score, the premise, the error bound            *)
(* ------------------------------------------------------------------------- *)

(** the TRUE score of the inner interval (a, b) inside (s, e): the residual sum of squares of the whole interval minus those of
    the inner interval and of the surrounding rows taken together *)
Definition local_R (xs : list R) (s a b e : nat) : R :=
  rss (rslice s e xs) - (rss (rslice a b xs) + rss (rslice s a xs ++ rslice b e xs)).

Definition sur_data (l : list float) (s a b e : nat) : list float := fslice s a l ++ fslice b e l.

Lemma local_l2_F_unfold l s a b e :
  local_l2_F l s a b e
  = (l2_cost_F l s e - (l2_cost_F l a b + l2_cost_F (sur_data l s a b e) 0 (length (sur_data l s a b e))))%float.
Proof. reflexivity. Qed.

(** the premise, a boolean computed from the data: the three cost evaluations pass the kernel checker [l2_trace_ok]
    (the surrounding one on the concatenated list), and the sum and the final difference are finite *)
Definition local_l2_trace_ok (l : list float) (s a b e : nat) : bool :=
  let sd := sur_data l s a b e in
  let outer := l2_cost_F l s e in
  let inner := l2_cost_F l a b in
  let sur := l2_cost_F sd 0 (length sd) in
  l2_trace_ok l s e && l2_trace_ok l a b && l2_trace_ok sd 0 (length sd)
  && finF (inner + sur)%float && finF (outer - (inner + sur))%float.

(** the bound of one cost evaluation ([l2_cost_F_vs_rss]) *)
Definition l2_E (l : list float) (s e : nat) : R :=
  (42 / 10 * INR e + 6) * u53 * l2_scale (map FR l) s e.

(** the rounded sum  inner + surrounding  of the computation *)
Definition local_sum_F (l : list float) (s a b e : nat) : float :=
  (l2_cost_F l a b + l2_cost_F (sur_data l s a b e) 0 (length (sur_data l s a b e)))%float.

(** the three cost errors, and the two roundings (of the sum and of the difference) relative to the ROUNDED results *)
Definition local_E (l : list float) (s a b e : nat) : R :=
  l2_E l s e + l2_E l a b + l2_E (sur_data l s a b e) 0 (length (sur_data l s a b e))
  + u53 * Rabs (FR (local_sum_F l s a b e))
  + u53 * Rabs (FR (local_l2_F l s a b e)).

Lemma l2_E_nonneg l s e : (s < e)%nat -> 0 <= l2_E l s e.
Proof.
  intros H. unfold l2_E. pose proof (l2_scale_nonneg (map FR l) s e H). pose proof (pos_INR e). pose proof u53_nonneg.
  apply Rmult_le_pos; [apply Rmult_le_pos; lra | assumption].
Qed.

Lemma fslice_map_FR s e l : map FR (fslice s e l) = rslice s e (map FR l).
Proof. unfold fslice, RealLib.slice. now rewrite <- firstn_map, <- skipn_map. Qed.

(** the surrounding data of the float run are the surrounding rows of the real data *)
Lemma sur_data_map_FR l s a b e :
  map FR (sur_data l s a b e) = rslice s a (map FR l) ++ rslice b e (map FR l).
Proof. unfold sur_data. rewrite map_app, !fslice_map_FR. reflexivity. Qed.

Lemma rslice_all (l : list R) : rslice 0 (length l) l = l.
Proof. unfold RealLib.slice. rewrite Nat.sub_0_r. cbn [skipn]. apply firstn_all. Qed.

Lemma sur_data_length l s a b e : (length (sur_data l s a b e) <= (a - s) + (e - b))%nat.
Proof.
  unfold sur_data, fslice. rewrite app_length, !firstn_length. lia.
Qed.

Record local_trace_spec (l : list float) (s a b e : nat) : Prop := {
  lt_outer : l2_trace_ok l s e = true;
  lt_inner : l2_trace_ok l a b = true;
  lt_sur : l2_trace_ok (sur_data l s a b e) 0 (length (sur_data l s a b e)) = true;
  lt_sum : finF (l2_cost_F l a b + l2_cost_F (sur_data l s a b e) 0 (length (sur_data l s a b e)))%float = true;
  lt_res : finF (local_l2_F l s a b e) = true
}.

Lemma local_l2_trace_ok_spec l s a b e : local_l2_trace_ok l s a b e = true -> local_trace_spec l s a b e.
Proof.
  unfold local_l2_trace_ok. cbv zeta. intros H.
  do 4 (apply andb_true_iff in H; let H' := fresh "H" in destruct H as [H H']).
  constructor; assumption.
Qed.

(** a checked cost is a finite float *)
Lemma l2_cost_F_finite l s e : l2_trace_ok l s e = true -> finF (l2_cost_F l s e) = true.
Proof.
  intros Hok. apply l2_trace_ok_spec in Hok. destruct Hok. cbv zeta in ts_r.
  unfold l2_cost_F. cbv zeta. exact ts_r.
Qed.

Lemma local_l2_F_finite l s a b e : local_l2_trace_ok l s a b e = true -> finF (local_l2_F l s a b e) = true.
Proof. intros H. apply local_l2_trace_ok_spec in H. destruct H. assumption. Qed.

Lemma local_E_nonneg l s a b e : local_l2_trace_ok l s a b e = true -> 0 <= local_E l s a b e.
Proof.
  intros H. apply local_l2_trace_ok_spec in H. destruct H as [Ho Hi Hs _ _].
  pose proof (l2_E_nonneg l s e (proj1 (l2_trace_ok_bounds _ _ _ Ho))).
  pose proof (l2_E_nonneg l a b (proj1 (l2_trace_ok_bounds _ _ _ Hi))).
  pose proof (l2_E_nonneg (sur_data l s a b e) 0 _ (proj1 (l2_trace_ok_bounds _ _ _ Hs))).
  unfold local_E. pose proof u53_nonneg.
  pose proof (Rabs_pos (FR (local_sum_F l s a b e))).
  pose proof (Rabs_pos (FR (local_l2_F l s a b e))).
  assert (0 <= u53 * Rabs (FR (local_sum_F l s a b e)))
    by (apply Rmult_le_pos; assumption).
  assert (0 <= u53 * Rabs (FR (local_l2_F l s a b e))) by (apply Rmult_le_pos; assumption).
  lra.
Qed.

(** KERNEL ERROR: the computed local anomaly score against the TRUE one *)
Theorem local_l2_F_vs_R l s a b e :
  local_l2_trace_ok l s a b e = true -> small_n (length l) = true ->
  Rabs (FR (local_l2_F l s a b e) - local_R (map FR l) s a b e) <= local_E l s a b e.
Proof.
  intros Hok Hsm. apply local_l2_trace_ok_spec in Hok. destruct Hok as [Ho Hi Hs Hsum Hres].
  pose proof (l2_trace_ok_bounds _ _ _ Ho) as Bo.
  pose proof (l2_trace_ok_bounds _ _ _ Hi) as Bi.
  pose proof (sur_data_length l s a b e) as Bs.
  set (sd := sur_data l s a b e) in *.
  assert (Hn : (length sd <= length l)%nat) by lia.
  pose proof (l2_cost_F_vs_rss l s e Ho (small_n_ok _ _ Hsm (proj2 Bo))) as Eo.
  pose proof (l2_cost_F_vs_rss l a b Hi (small_n_ok _ _ Hsm (proj2 Bi))) as Ei.
  pose proof (l2_cost_F_vs_rss sd 0 (length sd) Hs (small_n_ok _ _ Hsm Hn)) as Es.
  rewrite <- (map_length FR sd) in Es at 2. rewrite rslice_all in Es.
  unfold sd in Es at 3. rewrite sur_data_map_FR in Es.
  pose proof (l2_cost_F_finite _ _ _ Ho) as Fo.
  pose proof (l2_cost_F_finite _ _ _ Hi) as Fi.
  pose proof (l2_cost_F_finite _ _ _ Hs) as Fs.
  rewrite local_l2_F_unfold in Hres. fold sd in Hres.
  pose proof (FR_add_error_round _ _ Fi Fs Hsum) as R1.
  pose proof (FR_sub_error_round _ _ Fo Hsum Hres) as R2.
  unfold local_E, local_R, local_sum_F. fold sd. rewrite local_l2_F_unfold. fold sd.
  fold (l2_E l s e) in Eo. fold (l2_E l a b) in Ei. fold (l2_E sd 0 (length sd)) in Es.
  set (O := l2_cost_F l s e) in *. set (I := l2_cost_F l a b) in *. set (S := l2_cost_F sd 0 (length sd)) in *.
  set (ro := rss (rslice s e (map FR l))) in *. set (ri := rss (rslice a b (map FR l))) in *.
  set (rs := rss (rslice s a (map FR l) ++ rslice b e (map FR l))) in *.
  replace (FR (O - (I + S))%float - (ro - (ri + rs)))
    with ((FR (O - (I + S))%float - (FR O - FR (I + S)%float)) + (FR O - ro)
          - (FR (I + S)%float - (FR I + FR S)) - (FR I - ri) - (FR S - rs)) by ring.
  apply Rabs_le_both in Eo. apply Rabs_le_both in Ei. apply Rabs_le_both in Es.
  apply Rabs_le_both in R1. apply Rabs_le_both in R2.
  apply Rabs_le_of. lra.
Qed.

(* ------------------------------------------------------------------------- *)
(** * 2. Circular binary segmentation: the premise of the run                  *)
(* ------------------------------------------------------------------------- *)

(** the premise: the series is shorter than 2^46, 1 <= m, every seeded interval (s, e) has  e <= n,  and the score computation
    passes the checker [local_l2_trace_ok] at every inner candidate (a, b) of [anomaly_intervals s e m] (the model's enumeration,
    Model/Cbs.v:  s < a,  a + m <= b < e,  m <= (e - b) + (a - s)) *)
Definition cbs_local_trace_ok (xs : list float) (m : nat) (ivs : list (nat * nat)) : bool :=
  small_n (length xs) && (1 <=? m)%nat &&
  forallb (fun se =>
             (snd se <=? length xs)%nat &&
             forallb (fun ab => local_l2_trace_ok xs (fst se) (fst ab) (snd ab) (snd se))
                     (anomaly_intervals (fst se) (snd se) m))
          ivs.

Lemma cbs_premise_shape xs m ivs : cbs_local_trace_ok xs m ivs = true ->
  small_n (length xs) = true /\ (1 <= m)%nat /\ forall s e, In (s, e) ivs -> (e <= length xs)%nat.
Proof.
  intros H. unfold cbs_local_trace_ok in H. apply andb_true_iff in H. destruct H as [H Hf].
  apply andb_true_iff in H. destruct H as [Hs Hm]. apply Nat.leb_le in Hm. split; [exact Hs|]. split; [exact Hm|].
  intros s e Hin. rewrite forallb_forall in Hf. specialize (Hf (s, e) Hin). cbn [fst snd] in Hf.
  apply andb_true_iff in Hf. destruct Hf as [Hf _]. apply Nat.leb_le in Hf. exact Hf.
Qed.

Lemma cbs_trace_at xs m ivs s e a b : cbs_local_trace_ok xs m ivs = true -> In (s, e) ivs ->
  In (a, b) (anomaly_intervals s e m) -> local_l2_trace_ok xs s a b e = true.
Proof.
  intros H Hin Hab. unfold cbs_local_trace_ok in H. apply andb_true_iff in H. destruct H as [_ Hf].
  rewrite forallb_forall in Hf. specialize (Hf (s, e) Hin). cbn [fst snd] in Hf.
  apply andb_true_iff in Hf. destruct Hf as [_ Hf]. rewrite forallb_forall in Hf.
  exact (Hf (a, b) Hab).
Qed.

Lemma cbs_score_facts xs m ivs s e a b : cbs_local_trace_ok xs m ivs = true -> In (s, e) ivs ->
  In (a, b) (anomaly_intervals s e m) ->
  finF (local_l2_F xs s a b e) = true /\
  Rabs (FR (local_l2_F xs s a b e) - local_R (map FR xs) s a b e) <= local_E xs s a b e.
Proof.
  intros H Hin Hab. pose proof (cbs_trace_at xs m ivs s e a b H Hin Hab) as Htr.
  destruct (cbs_premise_shape xs m ivs H) as (Hs & _ & _).
  split; [exact (local_l2_F_finite _ _ _ _ _ Htr) | exact (local_l2_F_vs_R _ _ _ _ _ Htr Hs)].
Qed.

Lemma cbs_local_table_ok xs m ivs : cbs_local_trace_ok xs m ivs = true ->
  cbs_table_ok F64 nonnan (local_l2_F xs) m ivs.
Proof.
  intros H s e a b Hin Hab. apply finF_nonnan. exact (proj1 (cbs_score_facts xs m ivs s e a b H Hin Hab)).
Qed.

(** the per-interval search reports the FIRST float maximiser over the inner candidates, in the order of the enumeration
    [anomaly_intervals] (non-NaN scores) *)
Lemma gbest_inner_first_max (LS : nat -> nat -> nat -> nat -> float) m s e a z v :
  (forall a' z', In (a', z') (anomaly_intervals s e m) -> nonnan (LS s a' z' e)) ->
  gbest_inner F64 LS m (s, e) = Some ((a, z), v) ->
  In (a, z) (anomaly_intervals s e m) /\ v = LS s a z e /\
  (forall a' z', In (a', z') (anomaly_intervals s e m) -> PrimFloat.ltb v (LS s a' z' e) = false) /\
  exists j, (j < length (anomaly_intervals s e m))%nat /\ nth j (anomaly_intervals s e m) (0, 0)%nat = (a, z) /\
    forall j', (j' < j)%nat ->
      PrimFloat.ltb (LS s (fst (nth j' (anomaly_intervals s e m) (0, 0)%nat))
                          (snd (nth j' (anomaly_intervals s e m) (0, 0)%nat)) e) v = true.
Proof.
  intros Htab H. destruct (gbest_inner_inv F64 LS m s e a z v H) as (A1 & A2).
  split; [exact A1|]. split; [exact A2|].
  unfold gbest_inner in H.
  match type of H with match ?g with _ => _ end = _ => destruct g as [[j w]|] eqn:G end; [|discriminate].
  cbn [T F64] in G.
  inversion H as [[H1 H2]]. subst w. clear H.
  set (cands := anomaly_intervals s e m) in *.
  set (l := map (fun ab => LS s (fst ab) (snd ab) e) cands) in *.
  assert (Hl : Forall nonnan l).
  { apply Forall_forall. intros x Hx. unfold l in Hx. apply in_map_iff in Hx. destruct Hx as ([a0 z0] & <- & Hk0).
    cbn [fst snd]. apply Htab. exact Hk0. }
  destruct (gargmax_first_max F64 nonnan F64_swo 0%float l j v Hl G) as (Hj & Hv & Hmax & Hfirst).
  cbn [T F64 ltb] in Hj, Hv, Hmax, Hfirst.
  assert (Hlen : length l = length cands) by (unfold l; apply map_length).
  assert (Hnth : forall j', (j' < length cands)%nat ->
            nth j' l 0%float = LS s (fst (nth j' cands (0, 0)%nat)) (snd (nth j' cands (0, 0)%nat)) e).
  { intros j' Hj'. unfold l. rewrite (nth_map_lt _ cands j' (0, 0)%nat) by exact Hj'. reflexivity. }
  split.
  - intros a' z' Hin. destruct (In_nth _ _ (0, 0)%nat Hin) as (j' & Hj' & Ej').
    specialize (Hmax j'). rewrite Hlen in Hmax. specialize (Hmax Hj'). rewrite (Hnth j' Hj'), Ej' in Hmax. exact Hmax.
  - exists j. rewrite Hlen in Hj. split; [exact Hj|]. split; [first [exact H1 | reflexivity]|].
    intros j' Hj'. rewrite <- (Hnth j') by lia. apply Hfirst. exact Hj'.
Qed.

Lemma gcbs_any_am_nth (LS : nat -> nat -> nat -> nat -> float) m (thr : float) ivs (anoms : list (nat * nat))
    (am : list ((nat * nat) * float)) i s e :
  gcbs_any F64 LS m thr ivs = Some (anoms, am) -> (i < length ivs)%nat -> nth i ivs (0, 0)%nat = (s, e) ->
  length am = length ivs /\ nth i am ((0, 0)%nat, 0%float) = ginner_or_zero F64 LS m (s, e).
Proof.
  intros Hrun Hi Hse. destruct (gcbs_any_inv F64 _ _ _ _ _ _ Hrun) as (-> & _).
  split; [apply map_length|].
  rewrite (nth_map_lt (ginner_or_zero F64 LS m) ivs i (0, 0)%nat) by exact Hi. rewrite Hse. reflexivity.
Qed.

(* ------------------------------------------------------------------------- *)
(** * 3. The theorems of the run                                               *)
(* ------------------------------------------------------------------------- *)

(** 3a.  the per-interval maxima.  A seeded interval without inner candidates keeps the placeholder ((0, 0), 0).  Otherwise the
    reported inner interval is the first float maximiser over the inner candidates, and the reported maximum is within the rounding
    errors of the maximum of the TRUE local anomaly score over the inner candidates:
        R (a', b') - E (a', b')  <=  FR v  <=  R (a, b) + E (a, b)      for every inner candidate (a', b'). *)
Theorem cbs_F64_local_interval_max xs m (thr : float) ivs (anoms : list (nat * nat)) (am : list ((nat * nat) * float)) :
  cbs_local_trace_ok xs m ivs = true ->
  gcbs_any F64 (local_l2_F xs) m thr ivs = Some (anoms, am) ->
  length am = length ivs /\
  forall i s e, (i < length ivs)%nat -> nth i ivs (0, 0)%nat = (s, e) ->
    (anomaly_intervals s e m = [] /\ nth i am ((0, 0)%nat, 0%float) = ((0, 0)%nat, 0%float)) \/
    exists a b,
      nth i am ((0, 0)%nat, 0%float) = ((a, b), local_l2_F xs s a b e) /\
      In (a, b) (anomaly_intervals s e m) /\
      ((s < a)%nat /\ (a + m <= b)%nat /\ (b < e)%nat /\ (m <= (e - b) + (a - s))%nat) /\
      finF (local_l2_F xs s a b e) = true /\
      (forall a' b', In (a', b') (anomaly_intervals s e m) ->
                     PrimFloat.ltb (local_l2_F xs s a b e) (local_l2_F xs s a' b' e) = false) /\
      (exists j, (j < length (anomaly_intervals s e m))%nat /\ nth j (anomaly_intervals s e m) (0, 0)%nat = (a, b) /\
         forall j', (j' < j)%nat ->
           PrimFloat.ltb (local_l2_F xs s (fst (nth j' (anomaly_intervals s e m) (0, 0)%nat))
                                        (snd (nth j' (anomaly_intervals s e m) (0, 0)%nat)) e)
                         (local_l2_F xs s a b e) = true) /\
      Rabs (FR (local_l2_F xs s a b e) - local_R (map FR xs) s a b e) <= local_E xs s a b e /\
      (forall a' b', In (a', b') (anomaly_intervals s e m) ->
                     local_R (map FR xs) s a' b' e - local_E xs s a' b' e <= FR (local_l2_F xs s a b e)) /\
      (forall a' b', In (a', b') (anomaly_intervals s e m) ->
                     local_R (map FR xs) s a' b' e
                     <= local_R (map FR xs) s a b e + local_E xs s a b e + local_E xs s a' b' e).
Proof.
  intros Hok Hrun.
  split; [destruct (gcbs_any_inv F64 _ _ _ _ _ _ Hrun) as (-> & _); apply map_length|].
  intros i s e Hi Hse.
  destruct (gcbs_any_am_nth _ _ _ _ _ _ i s e Hrun Hi Hse) as [_ Hn]. rewrite Hn. clear Hn.
  assert (Hin : In (s, e) ivs) by (rewrite <- Hse; apply nth_In; exact Hi).
  unfold ginner_or_zero.
  destruct (gbest_inner F64 (local_l2_F xs) m (s, e)) as [[[a b] v]|] eqn:B.
  2:{ left. split; [|reflexivity]. apply (gbest_inner_none F64 (local_l2_F xs) m s e). exact B. }
  right.
  assert (Htab : forall a' b', In (a', b') (anomaly_intervals s e m) -> nonnan (local_l2_F xs s a' b' e))
    by (intros a' b' Hab; exact (cbs_local_table_ok xs m ivs Hok s e a' b' Hin Hab)).
  destruct (gbest_inner_first_max (local_l2_F xs) m s e a b v Htab B) as (A1 & -> & Hmax & Hfirst).
  exists a, b. split; [reflexivity|]. split; [exact A1|].
  split; [apply anomaly_intervals_spec; exact A1|].
  destruct (cbs_score_facts xs m ivs s e a b Hok Hin A1) as [Fk Ck].
  split; [exact Fk|]. split; [exact Hmax|]. split; [exact Hfirst|]. split; [exact Ck|].
  assert (Hle : forall a' b', In (a', b') (anomaly_intervals s e m) ->
            local_R (map FR xs) s a' b' e - local_E xs s a' b' e <= FR (local_l2_F xs s a b e)).
  { intros a' b' Hab. destruct (cbs_score_facts xs m ivs s e a' b' Hok Hin Hab) as [Fk' Ck'].
    specialize (Hmax a' b' Hab). rewrite (ltb_FR _ _ Fk Fk') in Hmax. apply Rltb_false in Hmax.
    apply Rabs_le_both in Ck'. lra. }
  split; [exact Hle|].
  intros a' b' Hab. specialize (Hle a' b' Hab). apply Rabs_le_both in Ck. lra.
Qed.

(** 3b.  SOUNDNESS: every reported anomaly (a, b) is the inner float maximiser of some seeded interval (s, e) of [ivs] whose float
    maximum exceeds the threshold; hence the TRUE local anomaly score of (a, b) inside (s, e) exceeds the threshold up to the rounding
    error, and is within the rounding errors of the true score of every other inner candidate of (s, e).  Any finite threshold. *)
Theorem cbs_F64_local_sound xs m (thr : float) ivs (anoms : list (nat * nat)) (am : list ((nat * nat) * float)) :
  cbs_local_trace_ok xs m ivs = true -> finF thr = true ->
  gcbs_any F64 (local_l2_F xs) m thr ivs = Some (anoms, am) ->
  forall a b, In (a, b) anoms ->
  exists i s e,
    (i < length ivs)%nat /\ nth i ivs (0, 0)%nat = (s, e) /\
    nth i am ((0, 0)%nat, 0%float) = ((a, b), local_l2_F xs s a b e) /\
    In (a, b) (anomaly_intervals s e m) /\
    ((s < a)%nat /\ (a + m <= b)%nat /\ (b < e)%nat /\ (e <= length xs)%nat /\ (m <= (e - b) + (a - s))%nat) /\
    PrimFloat.ltb thr (local_l2_F xs s a b e) = true /\
    (forall a' b', In (a', b') (anomaly_intervals s e m) ->
                   PrimFloat.ltb (local_l2_F xs s a b e) (local_l2_F xs s a' b' e) = false) /\
    local_R (map FR xs) s a b e > FR thr - local_E xs s a b e /\
    (forall a' b', In (a', b') (anomaly_intervals s e m) ->
                   local_R (map FR xs) s a' b' e
                   <= local_R (map FR xs) s a b e + local_E xs s a b e + local_E xs s a' b' e).
Proof.
  intros Hok Hthr Hrun a b Hab.
  destruct (cbs_premise_shape xs m ivs Hok) as (_ & Hm & Hivs).
  destruct (F64_cbs_any_supported_and_complete (local_l2_F xs) m thr ivs (cbs_local_table_ok xs m ivs Hok)
              (finF_nonnan _ Hthr) Hm anoms am Hrun) as [Hsup _].
  destruct (Hsup (a, b) Hab) as (i & Hi & H1 & H2). cbn [T zero F64] in H1, H2.
  destruct (cbs_F64_local_interval_max xs m thr ivs anoms am Hok Hrun) as [_ Hint].
  destruct (nth i ivs (0, 0)%nat) as [s e] eqn:Hse.
  assert (Hin : In (s, e) ivs) by (rewrite <- Hse; apply nth_In; exact Hi).
  destruct (Hint i s e Hi Hse) as [[_ Hz] | (a0 & b0 & Hk & A1 & A2 & Fk & Hmax & _ & Ck & _ & Hstat)].
  { exfalso. rewrite Hz in H2. cbn in H2. discriminate H2. }
  rewrite Hk in H1, H2. cbn [fst] in H1. inversion H1; subst a0 b0. clear H1.
  unfold cbs_initial in H2. cbn [fst snd] in H2.
  assert (E : (b <=? a)%nat = false) by (apply Nat.leb_gt; lia). rewrite E in H2. cbn [gabove ltb F64] in H2.
  exists i, s, e. split; [exact Hi|]. split; [exact Hse|]. split; [exact Hk|]. split; [exact A1|].
  split; [pose proof (Hivs s e Hin); lia|]. split; [exact H2|]. split; [exact Hmax|].
  split; [|exact Hstat].
  exact (above_sound thr _ _ _ Hthr Fk Ck H2).
Qed.

(** 3c.  the reported anomalies are well formed: sorted, pairwise disjoint, inside the series, at least [m] long *)
Theorem cbs_F64_local_wellformed xs m (thr : float) ivs (anoms : list (nat * nat)) (am : list ((nat * nat) * float)) :
  cbs_local_trace_ok xs m ivs = true ->
  gcbs_any F64 (local_l2_F xs) m thr ivs = Some (anoms, am) ->
  (forall i, (S i < length anoms)%nat ->
     (fst (nthP anoms i) < fst (nthP anoms (S i)))%nat /\ (snd (nthP anoms i) <= fst (nthP anoms (S i)))%nat) /\
  (forall a b, In (a, b) anoms -> (1 <= a)%nat /\ (a + m <= b <= length xs - 1)%nat).
Proof.
  intros Hok Hrun. destruct (cbs_premise_shape xs m ivs Hok) as (_ & Hm & Hivs).
  destruct (F64_cbs_any_wellformed (local_l2_F xs) m thr (length xs) ivs anoms am Hm Hivs Hrun) as (A & B & _).
  split; [exact A | exact B].
Qed.

(** 3d.  COMPLETENESS, in the form the specification of the greedy search allows: if some inner candidate (a, b) of a seeded interval
    (s, e) has a TRUE local anomaly score exceeding the threshold by more than the rounding error, then its float score and the
    interval's float maximum exceed the threshold, and an anomaly is reported that OVERLAPS the seeded interval (s, e)
    ("no seeded interval above the threshold is left without a reported anomaly overlapping it": the loop removes the candidates
    whose seeded interval overlaps the chosen anomaly; the stronger "overlapping its inner maximiser" is NOT what the code does: a
    seeded interval is removed as soon as the chosen anomaly meets it anywhere, inside or outside its own inner maximiser).
    Any finite threshold. *)
Theorem cbs_F64_local_complete xs m (thr : float) ivs (anoms : list (nat * nat)) (am : list ((nat * nat) * float)) :
  cbs_local_trace_ok xs m ivs = true -> finF thr = true ->
  gcbs_any F64 (local_l2_F xs) m thr ivs = Some (anoms, am) ->
  forall i s e a b, (i < length ivs)%nat -> nth i ivs (0, 0)%nat = (s, e) ->
    In (a, b) (anomaly_intervals s e m) ->
    local_R (map FR xs) s a b e > FR thr + local_E xs s a b e ->
    PrimFloat.ltb thr (local_l2_F xs s a b e) = true /\
    PrimFloat.ltb thr (snd (nth i am ((0, 0)%nat, 0%float))) = true /\
    exists a' b', In (a', b') anoms /\ (s < b')%nat /\ (a' < e)%nat.
Proof.
  intros Hok Hthr Hrun i s e a b Hi Hse Hab Hgt.
  destruct (cbs_premise_shape xs m ivs Hok) as (_ & Hm & Hivs).
  assert (Hin : In (s, e) ivs) by (rewrite <- Hse; apply nth_In; exact Hi).
  destruct (cbs_score_facts xs m ivs s e a b Hok Hin Hab) as [Fk Ck].
  assert (Habove : PrimFloat.ltb thr (local_l2_F xs s a b e) = true)
    by exact (above_complete thr _ _ _ Hthr Fk Ck Hgt).
  split; [exact Habove|].
  destruct (cbs_F64_local_interval_max xs m thr ivs anoms am Hok Hrun) as [_ Hint].
  destruct (Hint i s e Hi Hse) as [[Hz _] | (a0 & b0 & Hk0 & A1 & A2 & Fk0 & Hmax & _)].
  { exfalso. rewrite Hz in Hab. exact Hab. }
  assert (Hv : PrimFloat.ltb thr (local_l2_F xs s a0 b0 e) = true).
  { specialize (Hmax a b Hab).
    rewrite (ltb_FR _ _ Fk0 Fk) in Hmax. apply Rltb_false in Hmax.
    rewrite (ltb_FR _ _ Hthr Fk) in Habove. apply Rltb_true in Habove.
    rewrite (ltb_FR _ _ Hthr Fk0). apply Rltb_true. lra. }
  split; [rewrite Hk0; exact Hv|].
  destruct (F64_cbs_any_supported_and_complete (local_l2_F xs) m thr ivs (cbs_local_table_ok xs m ivs Hok)
              (finF_nonnan _ Hthr) Hm anoms am Hrun) as [_ Hcomp].
  destruct (Hcomp i Hi) as ([a' b'] & Hc & Hov).
  { cbn [T zero F64]. rewrite Hk0. unfold cbs_initial. cbn [fst snd].
    assert (E : (b0 <=? a0)%nat = false) by (apply Nat.leb_gt; lia). rewrite E. exact Hv. }
  exists a', b'. split; [exact Hc|]. unfold nthP in Hov. rewrite Hse in Hov. unfold overlaps in Hov. cbn [fst snd] in Hov.
  apply andb_true_iff in Hov. destruct Hov as [C1 C2]. apply Nat.ltb_lt in C1. apply Nat.ltb_lt in C2. lia.
Qed.

(* ------------------------------------------------------------------------- *)
(** * 4. Non-vacuity: a bump in the middle                                     *)
(* ------------------------------------------------------------------------- *)

(** twelve binary64 numbers: four around 0, four around 5, four around 0 (all exactly representable, so the literals are the data) *)
Definition demo_bump : list float :=
  [0.25; -0.5; 0.125; 0; 5.25; 4.75; 5.5; 5; -0.25; 0.5; 0.25; -0.125]%float.

(** min_segment_length 2, threshold 3.0, four seeded intervals *)
Definition demo_civs : list (nat * nat) := [(0, 12); (0, 8); (4, 12); (2, 10)]%nat.

Example demo_cbs_premise : cbs_local_trace_ok demo_bump 2 demo_civs = true.
Proof. vm_compute. reflexivity. Qed.

Example demo_cthr_finite : finF 3%float = true.
Proof. vm_compute. reflexivity. Qed.

Eval vm_compute in gcbs_any F64 (local_l2_F demo_bump) 2 3%float demo_civs.

Example demo_cbs_anoms :
  option_map fst (gcbs_any F64 (local_l2_F demo_bump) 2 3%float demo_civs) = Some [(4, 8)%nat].
Proof. vm_compute. reflexivity. Qed.

(** soundness, instantiated: the anomaly (4, 8) is the inner float maximiser of one of the seeded intervals, that interval's float
    maximum exceeds 3.0, and the true local anomaly score of (4, 8) inside that interval exceeds 3.0 up to the rounding error *)
Example demo_cbs_sound :
  exists s e, In (s, e) demo_civs /\ In (4, 8)%nat (anomaly_intervals s e 2) /\
    PrimFloat.ltb 3%float (local_l2_F demo_bump s 4 8 e) = true /\
    local_R (map FR demo_bump) s 4 8 e > FR 3%float - local_E demo_bump s 4 8 e.
Proof.
  destruct (gcbs_any F64 (local_l2_F demo_bump) 2 3%float demo_civs) as [[anoms am]|] eqn:Hrun.
  2:{ pose proof demo_cbs_anoms as H. rewrite Hrun in H. discriminate H. }
  assert (Hc : In (4, 8)%nat anoms).
  { pose proof demo_cbs_anoms as H. rewrite Hrun in H. cbn [option_map fst] in H. inversion H. left. reflexivity. }
  destruct (cbs_F64_local_sound demo_bump 2 3%float demo_civs anoms am demo_cbs_premise demo_cthr_finite Hrun 4%nat 8%nat Hc)
    as (i & s & e & Hi & Hse & _ & A1 & _ & H1 & _ & H2 & _).
  exists s, e. split; [rewrite <- Hse; apply nth_In; exact Hi|].
  split; [exact A1|]. split; [exact H1 | exact H2].
Qed.

(** the per-interval maximum, instantiated at the seeded interval (2, 10): the reported inner interval is (4, 8) and the reported
    maximum is within the kernel error of the true local anomaly score *)
Example demo_cbs_interval_2_10 :
  Rabs (FR (local_l2_F demo_bump 2 4 8 10) - local_R (map FR demo_bump) 2 4 8 10) <= local_E demo_bump 2 4 8 10.
Proof.
  assert (Hin : In (2, 10)%nat demo_civs) by (cbn; tauto).
  assert (Hab : In (4, 8)%nat (anomaly_intervals 2 10 2)) by (apply anomaly_intervals_spec; lia).
  exact (proj2 (cbs_score_facts demo_bump 2 demo_civs 2 10 4 8 demo_cbs_premise Hin Hab)).
Qed.

(** ** an explicit bound of the error from the largest magnitude of the data *)

Lemma In_firstn_in {A} (x : A) n l : In x (firstn n l) -> In x l.
Proof. intros H. rewrite <- (firstn_skipn n l). apply in_or_app. left. exact H. Qed.

Lemma In_skipn_in {A} (x : A) n l : In x (skipn n l) -> In x l.
Proof. intros H. rewrite <- (firstn_skipn n l). apply in_or_app. right. exact H. Qed.

Lemma sur_data_incl l s a b e x : In x (sur_data l s a b e) -> In x l.
Proof.
  unfold sur_data, fslice. intros H. apply in_app_or in H.
  destruct H as [H | H]; apply In_firstn_in in H; apply In_skipn_in in H; exact H.
Qed.

Lemma l2_E_absmax (l : list float) (B : R) (N s e : nat) :
  (forall x, In x (map FR l) -> Rabs x <= B) -> (s < e <= length l)%nat -> (length l <= N)%nat ->
  l2_E l s e <= (42 / 10 * INR N + 6) * u53 * (INR N * (INR N + 1) * B ^ 2).
Proof.
  intros HB Hse HN. unfold l2_E.
  pose proof (l2_scale_le_absmax (map FR l) B HB s e) as H. rewrite map_length in H. specialize (H Hse).
  pose proof (l2_scale_nonneg (map FR l) s e (proj1 Hse)) as H0.
  pose proof u53_nonneg as Hu. pose proof (pos_INR e) as He. pose proof (pos_INR (length l)) as Hl.
  assert (HeN : INR e <= INR N) by (apply le_INR; lia).
  assert (HlN : INR (length l) <= INR N) by (apply le_INR; lia).
  pose proof (pow2_ge_0 B) as HB2.
  assert (H1 : INR (length l) * (INR (length l) + 1) * B ^ 2 <= INR N * (INR N + 1) * B ^ 2).
  { apply Rmult_le_compat_r; [exact HB2|]. apply Rmult_le_compat; lra. }
  apply Rmult_le_compat; [apply Rmult_le_pos; lra | exact H0 | | lra].
  apply Rmult_le_compat_r; [exact Hu | lra].
Qed.

(** with |x_i| <= B and n the length of the series:
      E <= 3 (4.2 n + 6) 2^-53 n (n + 1) B^2 + 2^-53 (|inner + surrounding| + |score|)   (the computed numbers) *)
Lemma local_E_absmax (l : list float) (Bf : float) s a b e :
  l2_absmax_ok l Bf = true -> local_l2_trace_ok l s a b e = true ->
  local_E l s a b e
  <= 3 * ((42 / 10 * INR (length l) + 6) * u53 * (INR (length l) * (INR (length l) + 1) * FR Bf ^ 2))
     + u53 * Rabs (FR (local_sum_F l s a b e)) + u53 * Rabs (FR (local_l2_F l s a b e)).
Proof.
  intros HB Hok. apply local_l2_trace_ok_spec in Hok. destruct Hok as [Ho Hi Hs _ _].
  pose proof (l2_absmax_ok_spec l Bf HB) as HBl.
  pose proof (l2_trace_ok_bounds _ _ _ Ho) as Bo.
  pose proof (l2_trace_ok_bounds _ _ _ Hi) as Bi.
  pose proof (l2_trace_ok_bounds _ _ _ Hs) as Bs.
  pose proof (sur_data_length l s a b e) as Ls.
  assert (HBs : forall x, In x (map FR (sur_data l s a b e)) -> Rabs x <= FR Bf).
  { intros x Hx. apply HBl. apply in_map_iff in Hx. destruct Hx as (y & <- & Hy).
    apply in_map. exact (sur_data_incl _ _ _ _ _ _ Hy). }
  pose proof (l2_E_absmax l (FR Bf) (length l) s e HBl Bo (le_n _)) as E1.
  pose proof (l2_E_absmax l (FR Bf) (length l) a b HBl Bi (le_n _)) as E2.
  pose proof (l2_E_absmax (sur_data l s a b e) (FR Bf) (length l) 0 _ HBs Bs ltac:(lia)) as E3.
  unfold local_E. lra.
Qed.

(** here: below 10^-9 *)
Example demo_cbs_absmax : l2_absmax_ok demo_bump 5.5%float = true.
Proof. vm_compute. reflexivity. Qed.

Example demo_cbs_error_small : local_E demo_bump 2 4 8 10 <= 1 / 1000000000.
Proof.
  assert (Hin : In (2, 10)%nat demo_civs) by (cbn; tauto).
  assert (Hab : In (4, 8)%nat (anomaly_intervals 2 10 2)) by (apply anomaly_intervals_spec; lia).
  pose proof (local_E_absmax demo_bump 5.5%float 2 4 8 10 demo_cbs_absmax
                (cbs_trace_at demo_bump 2 demo_civs 2 10 4 8 demo_cbs_premise Hin Hab)) as H.
  FR_eval 5.5%float HB. FR_eval (local_sum_F demo_bump 2 4 8 10) H1. FR_eval (local_l2_F demo_bump 2 4 8 10) H2.
  rewrite HB, H1, H2 in H. change (length demo_bump) with 12%nat in H.
  rewrite u53_value in H.
  replace (INR 12) with 12 in H by (cbn [INR]; lra).
  rewrite !Rabs_pos_eq in H by lra. lra.
Qed.

(** completeness, instantiated: its hypothesis on the TRUE score is satisfiable -- the true local anomaly score of (4, 8) inside
    (2, 10) exceeds 3.0 by far more than the rounding error -- and its conclusion is the run displayed above *)
Example demo_cbs_complete_hypothesis :
  local_R (map FR demo_bump) 2 4 8 10 > FR 3%float + local_E demo_bump 2 4 8 10.
Proof.
  pose proof demo_cbs_interval_2_10 as Hc. apply Rabs_le_both in Hc.
  pose proof demo_cbs_error_small as HE.
  FR_eval (local_l2_F demo_bump 2 4 8 10) Hv. rewrite Hv in Hc. FR_eval 3%float H3. rewrite H3. lra.
Qed.

Example demo_cbs_complete :
  forall anoms am, gcbs_any F64 (local_l2_F demo_bump) 2 3%float demo_civs = Some (anoms, am) ->
  exists a' b', In (a', b') anoms /\ (2 < b')%nat /\ (a' < 10)%nat.
Proof.
  intros anoms am Hrun.
  assert (Hab : In (4, 8)%nat (anomaly_intervals 2 10 2)) by (apply anomaly_intervals_spec; lia).
  destruct (cbs_F64_local_complete demo_bump 2 3%float demo_civs anoms am demo_cbs_premise demo_cthr_finite Hrun
              3%nat 2%nat 10%nat 4%nat 8%nat ltac:(cbn; lia) eq_refl Hab demo_cbs_complete_hypothesis)
    as (_ & _ & Hc).
  exact Hc.
Qed.

Print Assumptions local_l2_F_vs_R.
Print Assumptions cbs_F64_local_interval_max.
Print Assumptions cbs_F64_local_sound.
Print Assumptions cbs_F64_local_wellformed.
Print Assumptions cbs_F64_local_complete.
Print Assumptions demo_cbs_sound.
Print Assumptions demo_cbs_complete.
