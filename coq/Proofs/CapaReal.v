(** CAPA / MVCAPA over REAL-valued savings and penalties.

    Model/CapaR.v is the twin of the executable model Model/Capa.v with per-column
    savings [Sc : nat -> nat -> list R], [Sp : nat -> list R] and real penalties.  This
    file ports Proofs/Penalise.v, Proofs/CapaSpec.v and Proofs/CapaDP.v to it (index
    arithmetic by [lia], value arithmetic by [lra]) and then

    - Part A: [penaliseR] against its set-level specification [PbestR]
              ([PbestR_upper], [PbestR_attained], [penaliseR_tiny] / [penaliseR_equal] /
              [penaliseR_general] for the constant / linear / general penalty shapes,
              [penaliseR_eq_Pbest], [penaliseR_spec], [penaliseR_subadditive]);
    - Part B: the unpruned recursion [GR] and the total penalised saving [totalR]
              ([GR_upper], [GR_attained], [GR_insensitive], [GR_penalise_eq_Pbest]);
    - Part C: the pruned dynamic programme [capaR] (structural invariant for any savings,
              optimality for a pruning delay >= m - 1 under sub-additivity) and the six
              main theorems for delay = m - 1 under the hypotheses of Properties/C03.v;
    - Part D: ties the real model to the executable one: [capaR] on the injection [IZR] of
              integer savings / penalties is the image of the integer run ([capaR_of_Z];
              also [penaliseR_IZR], [GR_of_Z], [totalR_of_Z]);
    - Part E: instantiates the optimality theorem with the built-in L2 saving
              [l2_saving_R] on the prefix sums of any list of columns, using
              [l2_saving_nonneg] / [l2_saving_subadditive] of Proofs/ScoreKernels.v, so that
              NO hypothesis on the savings is left ([capa_l2_end_to_end]);
    - Part F: a concrete integer instance pushed through the embedding. *)
From Coq Require Import Reals Lra ZArith List Lia Bool Arith Permutation Sorted.
From SK Require Import Lib.Base Proofs.RealLib Proofs.CapaSpec Proofs.CapaDP Proofs.Penalise
                       Proofs.PeltReal Model.PeltR Model.Capa Model.CapaR.
From SK Require Import Gen.KernelsR Proofs.ScoreKernels.
Import ListNotations.
Open Scope R_scope.

(* ================================================================== *)
(** * Part A: penalise_savings over R (twin of Proofs/Penalise.v)       *)
(* ================================================================== *)

(** case analysis on every [Rmax] in sight, then linear arithmetic *)
Ltac rmax :=
  unfold Rmax in *;
  repeat (match goal with
          | |- context [Rle_dec ?a ?b] => destruct (Rle_dec a b)
          | H : context [Rle_dec ?a ?b] |- _ => destruct (Rle_dec a b)
          end);
  try lra.

Lemma Reqb_true x y : Reqb x y = true <-> x = y.
Proof.
  unfold Reqb. destruct (Req_EM_T x y) as [H|H]; split; intros H';
    [exact H|reflexivity|discriminate|contradiction].
Qed.

(** ---------- statement-level definitions ([subset_ok] of Proofs/Penalise.v is reused) ---------- *)

Definition pen_kR (betas : list R) (k : nat) : R := sumR (firstn k betas).
Definition subset_valueR (sav : list R) (alpha : R) (betas : list R) (J : list nat) : R :=
  sumR (map (nthR sav) J) - alpha - pen_kR betas (length J).
(** the general branch of penalise_savings *)
Definition PbestR (sav : list R) (alpha : R) (betas : list R) : R :=
  match argmaxR (map (fun c => c - alpha) (cumsumR (sub_listsR (sort_descR sav) betas))) with
  | Some (_, v) => v
  | None => 0
  end.

(** ---------- sums ---------- *)

Lemma sumR_perm (l1 l2 : list R) : Permutation l1 l2 -> sumR l1 = sumR l2.
Proof. intros HP; induction HP; simpl; lra. Qed.

Lemma sumR_nonneg (l : list R) : (forall x, In x l -> 0 <= x) -> 0 <= sumR l.
Proof.
  induction l as [|x t IH]; simpl; intros H; [lra|].
  assert (0 <= x) by (apply H; left; reflexivity).
  assert (0 <= sumR t) by (apply IH; intros y Hy; apply H; right; exact Hy).
  lra.
Qed.

Lemma sumR_firstn_le (l : list R) :
  (forall x, In x l -> 0 <= x) -> forall k, sumR (firstn k l) <= sumR l.
Proof.
  intros H k.
  rewrite <- (firstn_skipn k l) at 2. rewrite sumR_app.
  assert (0 <= sumR (skipn k l)).
  { apply sumR_nonneg. intros x Hx. apply H.
    rewrite <- (firstn_skipn k l). apply in_or_app. right. exact Hx. }
  lra.
Qed.

(** ---------- argmaxR = first maximum ---------- *)

Definition best_ofR (L : list R) (i : nat) (v : R) : Prop :=
  (i < length L)%nat /\ nth i L 0 = v /\
  (forall j, (j < length L)%nat -> nth j L 0 <= v) /\
  (forall j, (j < i)%nat -> nth j L 0 < v).

Lemma argmaxR_from_best : forall l pre bi b,
  best_ofR pre bi b ->
  best_ofR (pre ++ l) (fst (argmaxR_from bi b (length pre) l))
                      (snd (argmaxR_from bi b (length pre) l)).
Proof.
  induction l as [|x t IH]; intros pre bi b HB.
  - simpl. rewrite app_nil_r. exact HB.
  - cbn [argmaxR_from].
    replace (pre ++ x :: t) with ((pre ++ [x]) ++ t)
      by (rewrite <- app_assoc; reflexivity).
    replace (S (length pre)) with (length (pre ++ [x]))
      by (rewrite app_length; simpl; lia).
    destruct HB as (H1 & H2 & H3 & H4).
    destruct (Rltb b x) eqn:E.
    + apply Rltb_true in E. apply IH. unfold best_ofR. rewrite app_length. cbn [length].
      split; [lia|]. split.
      { rewrite app_nth2 by lia. rewrite Nat.sub_diag. reflexivity. }
      split.
      * intros j Hj. destruct (Nat.lt_ge_cases j (length pre)) as [Hl|Hg].
        -- rewrite app_nth1 by lia. specialize (H3 j Hl). lra.
        -- rewrite app_nth2 by lia.
           replace (j - length pre)%nat with 0%nat by lia. simpl. lra.
      * intros j Hj. rewrite app_nth1 by lia. specialize (H3 j Hj). lra.
    + apply Rltb_false in E. apply IH. unfold best_ofR. rewrite app_length. cbn [length].
      split; [lia|]. split.
      { rewrite app_nth1 by lia. exact H2. }
      split.
      * intros j Hj. destruct (Nat.lt_ge_cases j (length pre)) as [Hl|Hg].
        -- rewrite app_nth1 by lia. apply H3. exact Hl.
        -- rewrite app_nth2 by lia.
           replace (j - length pre)%nat with 0%nat by lia. simpl. lra.
      * intros j Hj. rewrite app_nth1 by lia. apply H4. exact Hj.
Qed.

Lemma argmaxR_spec (l : list R) (i : nat) (v : R) :
  argmaxR l = Some (i, v) -> best_ofR l i v.
Proof.
  destruct l as [|x t]; simpl; intros H; [discriminate|].
  inversion H as [H1].
  pose proof (argmaxR_from_best t [x] 0%nat x) as HB.
  cbn [length app] in HB. rewrite H1 in HB. cbn [fst snd] in HB.
  apply HB. unfold best_ofR. cbn [length].
  split; [lia|]. split; [reflexivity|]. split.
  - intros j Hj. destruct j as [|j]; [simpl; lra|lia].
  - intros j Hj. lia.
Qed.

Lemma argmaxR_some (l : list R) : l <> [] -> exists i v, argmaxR l = Some (i, v).
Proof.
  destruct l as [|x t]; intros H; [congruence|].
  simpl. destruct (argmaxR_from 0 x 1 t) as [i v]. exists i, v. reflexivity.
Qed.

Lemma argmaxR_none (l : list R) : argmaxR l = None -> l = [].
Proof. destruct l; simpl; [reflexivity|discriminate]. Qed.

(** the weaker form used by the dynamic programme (twin of CapaDP.argmax_spec) *)
Lemma argmaxR_spec_in l i v : argmaxR l = Some (i, v) ->
  (i < length l)%nat /\ nthR l i = v /\ (forall x, In x l -> x <= v).
Proof.
  intros H. apply argmaxR_spec in H. destruct H as (H1 & H2 & H3 & _).
  split; [exact H1|]. split; [exact H2|].
  intros x Hx. destruct (In_nth _ _ 0 Hx) as (j & Hj & <-). apply H3. exact Hj.
Qed.

(** ---------- cumsum, sub_lists, the penalised-savings vector ---------- *)

Lemma cumsumR_from_length (l : list R) : forall acc, length (cumsumR_from acc l) = length l.
Proof. induction l as [|x t IH]; intros acc; simpl; [reflexivity|]. rewrite IH. reflexivity. Qed.

Lemma cumsumR_from_nth (l : list R) : forall acc k, (k < length l)%nat ->
  nth k (cumsumR_from acc l) 0 = acc + sumR (firstn (S k) l).
Proof.
  induction l as [|x t IH]; intros acc k H; cbn [length] in H; [lia|].
  cbn [cumsumR_from]. rewrite firstn_cons. cbn [sumR].
  destruct k as [|k].
  - rewrite firstn_O. simpl. lra.
  - cbn [nth]. rewrite IH by lia. lra.
Qed.

Lemma sub_listsR_cons x a y b : sub_listsR (x :: a) (y :: b) = (x - y) :: sub_listsR a b.
Proof. reflexivity. Qed.

Lemma sub_listsR_length (a b : list R) : length a = length b -> length (sub_listsR a b) = length a.
Proof. intros H. unfold sub_listsR. rewrite map_length, combine_length. lia. Qed.

Lemma sub_listsR_firstn_sum : forall (a b : list R) k, length a = length b ->
  sumR (firstn k (sub_listsR a b)) = sumR (firstn k a) - sumR (firstn k b).
Proof.
  induction a as [|x a IH]; intros b k H; destruct b as [|y b]; try discriminate.
  - rewrite !firstn_nil. simpl. lra.
  - rewrite sub_listsR_cons. destruct k as [|k].
    + rewrite !firstn_O. simpl. lra.
    + rewrite !firstn_cons. cbn [sumR]. rewrite IH by (simpl in H; lia). lra.
Qed.

Definition pensavR (s : list R) (alpha : R) (betas : list R) : list R :=
  map (fun c => c - alpha) (cumsumR (sub_listsR s betas)).

Lemma pensavR_length s alpha betas : length s = length betas ->
  length (pensavR s alpha betas) = length s.
Proof.
  intros H. unfold pensavR, cumsumR.
  rewrite map_length, cumsumR_from_length. apply sub_listsR_length. exact H.
Qed.

Lemma pensavR_nth s alpha betas k : length s = length betas -> (k < length s)%nat ->
  nth k (pensavR s alpha betas) 0 = sumR (firstn (S k) s) - alpha - pen_kR betas (S k).
Proof.
  intros H Hk. unfold pensavR, cumsumR, pen_kR.
  rewrite (Penalise.nth_map_lt _ _ _ 0 0)
    by (rewrite cumsumR_from_length, sub_listsR_length; assumption).
  rewrite cumsumR_from_nth by (rewrite sub_listsR_length; assumption).
  rewrite sub_listsR_firstn_sum by exact H. lra.
Qed.

Lemma PbestR_unfold sav alpha betas :
  PbestR sav alpha betas =
  match argmaxR (pensavR (sort_descR sav) alpha betas) with Some (_, v) => v | None => 0 end.
Proof. reflexivity. Qed.

(** ---------- decreasing insertion sort ---------- *)

Definition descR (l : list R) : Prop := StronglySorted (fun a b => b <= a) l.

Lemma insert_descR_perm x l : Permutation (insert_descR x l) (x :: l).
Proof.
  induction l as [|y t IH]; simpl; [apply Permutation_refl|].
  destruct (Rltb y x); [apply Permutation_refl|].
  eapply Permutation_trans; [apply perm_skip; exact IH|apply perm_swap].
Qed.

Lemma sort_descR_perm l : Permutation (sort_descR l) l.
Proof.
  induction l as [|x t IH]; simpl; [apply perm_nil|].
  eapply Permutation_trans; [apply insert_descR_perm|apply perm_skip; exact IH].
Qed.

Lemma sort_descR_length l : length (sort_descR l) = length l.
Proof. apply Permutation_length, sort_descR_perm. Qed.

Lemma insert_descR_sorted x l : descR l -> descR (insert_descR x l).
Proof.
  unfold descR. induction l as [|y t IH]; intros HS; simpl.
  - constructor; constructor.
  - apply StronglySorted_inv in HS. destruct HS as [HS HF].
    destruct (Rltb y x) eqn:E.
    + apply Rltb_true in E. constructor.
      * constructor; assumption.
      * constructor; [lra|].
        eapply Forall_impl; [|exact HF]. intros a Ha; simpl in Ha; lra.
    + apply Rltb_false in E. constructor.
      * apply IH; exact HS.
      * rewrite Forall_forall. intros a Ha.
        apply (Permutation_in _ (insert_descR_perm x t)) in Ha.
        destruct Ha as [Ha|Ha]; [lra|].
        rewrite Forall_forall in HF. apply HF; exact Ha.
Qed.

Lemma sort_descR_sorted l : descR (sort_descR l).
Proof.
  induction l as [|x t IH]; simpl; [constructor|].
  apply insert_descR_sorted; exact IH.
Qed.

Lemma descR_nth (s : list R) : descR s -> forall i i', (i <= i')%nat -> (i' < length s)%nat ->
  nth i' s 0 <= nth i s 0.
Proof.
  unfold descR. induction s as [|x t IH]; intros HS i i' Hle Hlt; cbn [length] in Hlt; [lia|].
  apply StronglySorted_inv in HS. destruct HS as [HS HF].
  destruct i' as [|i'].
  - replace i with 0%nat by lia. lra.
  - destruct i as [|i].
    + cbn [nth]. rewrite Forall_forall in HF. apply HF. apply nth_In. lia.
    + cbn [nth]. apply IH; [exact HS|lia|lia].
Qed.

(** ---------- the k largest entries dominate any k distinct entries ---------- *)

Lemma topk_boundR : forall s, descR s -> forall l' rest,
  Permutation (l' ++ rest) s -> sumR l' <= sumR (firstn (length l') s).
Proof.
  unfold descR. induction s as [|x s IH]; intros HS l' rest HP.
  - apply Permutation_sym, Permutation_nil in HP.
    apply app_eq_nil in HP. destruct HP as [-> _]. simpl. lra.
  - apply StronglySorted_inv in HS. destruct HS as [HS HF].
    rewrite Forall_forall in HF.
    assert (Hin : In x (l' ++ rest)).
    { apply (Permutation_in _ (Permutation_sym HP)). left; reflexivity. }
    apply in_app_or in Hin. destruct Hin as [Hin|Hin].
    + apply in_split in Hin. destruct Hin as (a & b & ->).
      rewrite <- app_assoc in HP. cbn [app] in HP.
      apply Permutation_sym, Permutation_cons_app_inv, Permutation_sym in HP.
      rewrite app_assoc in HP.
      specialize (IH HS (a ++ b) rest HP).
      rewrite sumR_app in *. cbn [sumR].
      rewrite app_length in *. cbn [length].
      replace (length a + S (length b))%nat with (S (length a + length b)) by lia.
      rewrite firstn_cons. cbn [sumR]. lra.
    + apply in_split in Hin. destruct Hin as (a & b & ->).
      rewrite app_assoc in HP.
      apply Permutation_sym, Permutation_cons_app_inv, Permutation_sym in HP.
      rewrite <- app_assoc in HP.
      destruct l' as [|y l'']; [simpl; lra|].
      cbn [app] in HP.
      assert (HP' : Permutation (l'' ++ (y :: a ++ b)) s).
      { eapply Permutation_trans; [|exact HP].
        apply Permutation_sym.
        apply (Permutation_middle l'' (a ++ b) y). }
      assert (Hy : y <= x).
      { apply HF. apply (Permutation_in _ HP). left; reflexivity. }
      specialize (IH HS l'' (y :: a ++ b) HP').
      cbn [length sumR]. rewrite firstn_cons. cbn [sumR]. lra.
Qed.

Lemma map_nthR_seq_gen : forall (l pre : list R),
  map (nthR (pre ++ l)) (seq (length pre) (length l)) = l.
Proof.
  induction l as [|x t IH]; intros pre; cbn [length seq map]; [reflexivity|].
  f_equal.
  - unfold nthR. rewrite app_nth2 by lia. rewrite Nat.sub_diag. reflexivity.
  - specialize (IH (pre ++ [x])). rewrite <- app_assoc in IH. cbn [app] in IH.
    rewrite app_length in IH. cbn [length] in IH.
    replace (length pre + 1)%nat with (S (length pre)) in IH by lia. exact IH.
Qed.

Lemma map_nthR_seq (sav : list R) : map (nthR sav) (seq 0 (length sav)) = sav.
Proof. exact (map_nthR_seq_gen sav []). Qed.

Lemma index_subset_permR (sav : list R) (J : list nat) :
  NoDup J -> (forall j, In j J -> (j < length sav)%nat) ->
  exists rest, Permutation (map (nthR sav) J ++ rest) sav.
Proof.
  intros HJ Hlt.
  destruct (nodup_incl_split J (seq 0 (length sav)) HJ (seq_NoDup _ _)) as [R0 HR].
  { intros j Hj. apply in_seq. specialize (Hlt j Hj). lia. }
  exists (map (nthR sav) R0).
  rewrite <- map_app. rewrite <- (map_nthR_seq sav) at 2.
  apply Permutation_map. exact HR.
Qed.

Lemma subset_sum_le_topkR (sav : list R) (J : list nat) :
  NoDup J -> (forall j, In j J -> (j < length sav)%nat) ->
  sumR (map (nthR sav) J) <= sumR (firstn (length J) (sort_descR sav)).
Proof.
  intros HJ Hlt.
  destruct (index_subset_permR sav J HJ Hlt) as [rest HP].
  rewrite <- (map_length (nthR sav) J).
  apply (topk_boundR (sort_descR sav) (sort_descR_sorted sav) _ rest).
  eapply Permutation_trans; [exact HP|]. apply Permutation_sym, sort_descR_perm.
Qed.

(** value of the best entry of the penalised-savings vector *)
Lemma PbestR_ge_nth sav alpha betas k :
  length betas = length sav -> (k < length sav)%nat ->
  nth k (pensavR (sort_descR sav) alpha betas) 0 <= PbestR sav alpha betas.
Proof.
  intros HL Hk. rewrite PbestR_unfold.
  assert (Hlen : length (pensavR (sort_descR sav) alpha betas) = length sav).
  { rewrite pensavR_length; rewrite sort_descR_length; [reflexivity|lia]. }
  destruct (argmaxR (pensavR (sort_descR sav) alpha betas)) as [[i v]|] eqn:E.
  - apply argmaxR_spec in E. destruct E as (_ & _ & Hmax & _).
    apply Hmax. lia.
  - apply argmaxR_none in E. rewrite E in Hlen. simpl in Hlen. lia.
Qed.

Lemma PbestR_is_nth sav alpha betas :
  length betas = length sav -> (1 <= length sav)%nat ->
  exists k, (k < length sav)%nat /\
    argmaxR (pensavR (sort_descR sav) alpha betas) = Some (k, PbestR sav alpha betas) /\
    PbestR sav alpha betas = nth k (pensavR (sort_descR sav) alpha betas) 0.
Proof.
  intros HL Hp. rewrite PbestR_unfold.
  assert (Hlen : length (pensavR (sort_descR sav) alpha betas) = length sav).
  { rewrite pensavR_length; rewrite sort_descR_length; [reflexivity|lia]. }
  destruct (argmaxR (pensavR (sort_descR sav) alpha betas)) as [[i v]|] eqn:E.
  - pose proof (argmaxR_spec _ _ _ E) as (Hi & Hv & _ & _).
    exists i. split; [lia|]. split; [reflexivity|]. symmetry; exact Hv.
  - apply argmaxR_none in E. rewrite E in Hlen. simpl in Hlen. lia.
Qed.

(** ---------- P1: no admissible component set beats PbestR ---------- *)

Theorem PbestR_upper sav alpha betas J :
  length betas = length sav ->
  subset_ok (length sav) J ->
  subset_valueR sav alpha betas J <= PbestR sav alpha betas.
Proof.
  intros HL HJ.
  pose proof (subset_ok_length _ _ HJ) as [H1 Hp].
  destruct HJ as (Hne & Hnd & Hlt).
  pose proof (subset_sum_le_topkR sav J Hnd Hlt) as Hsum.
  pose proof (PbestR_ge_nth sav alpha betas (length J - 1) HL ltac:(lia)) as Hb.
  rewrite pensavR_nth in Hb by (rewrite sort_descR_length; lia).
  replace (S (length J - 1)) with (length J) in Hb by lia.
  unfold subset_valueR. lra.
Qed.

(** ---------- decreasing argsort ---------- *)

Lemma insert_idxR_map sav j l :
  map (nthR sav) (insert_idxR sav j l) = insert_descR (nthR sav j) (map (nthR sav) l).
Proof.
  induction l as [|k t IH]; simpl; [reflexivity|].
  destruct (Rltb (nthR sav k) (nthR sav j)); simpl; [reflexivity|].
  rewrite IH. reflexivity.
Qed.

Lemma argsortR_gen_map sav idx :
  map (nthR sav) (fold_right (insert_idxR sav) [] idx) = sort_descR (map (nthR sav) idx).
Proof.
  induction idx as [|j t IH]; simpl; [reflexivity|].
  rewrite insert_idxR_map, IH. reflexivity.
Qed.

(** the two insertion sorts agree, ties included *)
Lemma argsort_descR_values sav : map (nthR sav) (argsort_descR sav) = sort_descR sav.
Proof. unfold argsort_descR. rewrite argsortR_gen_map, map_nthR_seq. reflexivity. Qed.

Lemma insert_idxR_perm sav j l : Permutation (insert_idxR sav j l) (j :: l).
Proof.
  induction l as [|k t IH]; simpl; [apply Permutation_refl|].
  destruct (Rltb (nthR sav k) (nthR sav j)); [apply Permutation_refl|].
  eapply Permutation_trans; [apply perm_skip; exact IH|apply perm_swap].
Qed.

Lemma argsortR_gen_perm sav idx : Permutation (fold_right (insert_idxR sav) [] idx) idx.
Proof.
  induction idx as [|j t IH]; simpl; [apply perm_nil|].
  eapply Permutation_trans; [apply insert_idxR_perm|apply perm_skip; exact IH].
Qed.

Theorem argsort_descR_perm sav : Permutation (argsort_descR sav) (seq 0 (length sav)).
Proof. apply argsortR_gen_perm. Qed.

Lemma argsort_descR_length sav : length (argsort_descR sav) = length sav.
Proof. rewrite (Permutation_length (argsort_descR_perm sav)). apply seq_length. Qed.

Lemma argsort_descR_NoDup sav : NoDup (argsort_descR sav).
Proof.
  apply (Permutation_NoDup (Permutation_sym (argsort_descR_perm sav))). apply seq_NoDup.
Qed.

Lemma argsort_descR_In sav j : In j (argsort_descR sav) <-> (j < length sav)%nat.
Proof.
  split; intros H.
  - apply (Permutation_in _ (argsort_descR_perm sav)) in H. apply in_seq in H. lia.
  - apply (Permutation_in _ (Permutation_sym (argsort_descR_perm sav))).
    apply in_seq. lia.
Qed.

(** prefixes of the decreasing order: admissible sets whose value is an entry of the
    penalised-savings vector *)
Lemma prefixR_length sav k : (k <= length sav)%nat ->
  length (firstn k (argsort_descR sav)) = k.
Proof. intros H. apply firstn_length_le. rewrite argsort_descR_length. exact H. Qed.

Lemma prefixR_ok sav k : (1 <= k <= length sav)%nat ->
  subset_ok (length sav) (firstn k (argsort_descR sav)).
Proof.
  intros [H1 H2]. split; [|split].
  - intros E. pose proof (prefixR_length sav k H2) as HL. rewrite E in HL. simpl in HL. lia.
  - apply NoDup_firstn, argsort_descR_NoDup.
  - intros j Hj. apply argsort_descR_In. eapply In_firstn; exact Hj.
Qed.

Lemma prefixR_value sav alpha betas k :
  length betas = length sav -> (1 <= k <= length sav)%nat ->
  subset_valueR sav alpha betas (firstn k (argsort_descR sav)) =
  nth (k - 1) (pensavR (sort_descR sav) alpha betas) 0.
Proof.
  intros HL [H1 H2]. unfold subset_valueR.
  rewrite prefixR_length by exact H2.
  rewrite <- firstn_map, argsort_descR_values.
  rewrite pensavR_nth by (rewrite sort_descR_length; lia).
  replace (S (k - 1)) with k by lia. reflexivity.
Qed.

(** ---------- P2: PbestR is attained by an admissible component set ---------- *)

Theorem PbestR_attained sav alpha betas :
  length betas = length sav -> (1 <= length sav)%nat ->
  exists J, subset_ok (length sav) J /\
            subset_valueR sav alpha betas J = PbestR sav alpha betas.
Proof.
  intros HL Hp.
  destruct (PbestR_is_nth sav alpha betas HL Hp) as (k & Hk & _ & Hv).
  exists (firstn (S k) (argsort_descR sav)). split.
  - apply prefixR_ok. lia.
  - rewrite prefixR_value by (try exact HL; lia).
    replace (S k - 1)%nat with k by lia. symmetry; exact Hv.
Qed.

(** find_affected_components returns such a set *)
Lemma affectedR_unfold sav alpha betas :
  affectedR sav alpha betas =
  match argmaxR (pensavR (sort_descR sav) alpha betas) with
  | Some (k, _) => firstn (S k) (argsort_descR sav)
  | None => []
  end.
Proof. unfold affectedR. cbv zeta. rewrite argsort_descR_values. reflexivity. Qed.

Theorem affectedR_optimal sav alpha betas :
  length betas = length sav -> (1 <= length sav)%nat ->
  subset_ok (length sav) (affectedR sav alpha betas) /\
  subset_valueR sav alpha betas (affectedR sav alpha betas) = PbestR sav alpha betas.
Proof.
  intros HL Hp. destruct (PbestR_is_nth sav alpha betas HL Hp) as (k & Hk & Harg & Hv).
  rewrite affectedR_unfold, Harg. split.
  - apply prefixR_ok. lia.
  - rewrite prefixR_value by (try exact HL; lia).
    replace (S k - 1)%nat with k by lia. symmetry; exact Hv.
Qed.

(** ---------- P5, P3, P4, P6: the three penalty shapes ---------- *)

Theorem penaliseR_general sav alpha betas :
  all_tinyR betas = false -> all_equalR betas = false ->
  penaliseR sav alpha betas = PbestR sav alpha betas.
Proof. intros H1 H2. unfold penaliseR. rewrite H1, H2. reflexivity. Qed.

Lemma pen_kR_const (l : list R) (c : R) : (forall b, In b l -> b = c) ->
  forall k, (k <= length l)%nat -> pen_kR l k = INR k * c.
Proof.
  unfold pen_kR. induction l as [|x t IH]; intros Hc k Hk.
  - cbn [length] in Hk. replace k with 0%nat by lia. simpl. lra.
  - destruct k as [|k]; [rewrite firstn_O; simpl; lra|].
    rewrite firstn_cons. cbn [sumR].
    rewrite IH; [|intros b Hb; apply Hc; right; exact Hb|cbn [length] in Hk; lia].
    rewrite (Hc x) by (left; reflexivity). rewrite S_INR. lra.
Qed.

Lemma pen_kR_nonneg betas k : (forall b, In b betas -> 0 <= b) -> 0 <= pen_kR betas k.
Proof.
  intros H. unfold pen_kR. apply sumR_nonneg.
  intros x Hx. apply H. eapply In_firstn; exact Hx.
Qed.

Lemma pen_kR_le_sum betas k : (forall b, In b betas -> 0 <= b) -> pen_kR betas k <= sumR betas.
Proof. intros H. unfold pen_kR. apply sumR_firstn_le. exact H. Qed.

Lemma all_tinyR_zero betas :
  all_tinyR betas = true -> (forall b, In b betas -> 0 <= b) -> forall b, In b betas -> b = 0.
Proof.
  intros Ht Hn b Hb. unfold all_tinyR in Ht. rewrite forallb_forall in Ht.
  specialize (Ht b Hb). apply Rleb_true in Ht. specialize (Hn b Hb). lra.
Qed.

(** constant penalty (all betas = 0, "dense" regime): the plain sum is the best subset *)
Theorem penaliseR_tiny sav alpha betas :
  length betas = length sav -> (1 <= length sav)%nat ->
  all_tinyR betas = true -> (forall b, In b betas -> 0 <= b) ->
  (forall x, In x sav -> 0 <= x) ->
  penaliseR sav alpha betas = PbestR sav alpha betas.
Proof.
  intros HL Hp Ht Hb Hs. unfold penaliseR. rewrite Ht.
  pose proof (all_tinyR_zero betas Ht Hb) as Hz.
  assert (Hpen : forall k, (k <= length sav)%nat -> pen_kR betas k = 0).
  { intros k Hk. rewrite (pen_kR_const betas 0 Hz) by lia. lra. }
  assert (Hsum : sumR (sort_descR sav) = sumR sav) by (apply sumR_perm, sort_descR_perm).
  assert (Hnn : forall x, In x (sort_descR sav) -> 0 <= x).
  { intros x Hx. apply Hs. apply (Permutation_in _ (sort_descR_perm sav)). exact Hx. }
  destruct (PbestR_is_nth sav alpha betas HL Hp) as (k & Hk & _ & Hv).
  rewrite pensavR_nth in Hv by (rewrite sort_descR_length; lia).
  rewrite Hpen in Hv by lia.
  pose proof (sumR_firstn_le (sort_descR sav) Hnn (S k)) as Hle.
  pose proof (PbestR_ge_nth sav alpha betas (length sav - 1) HL ltac:(lia)) as Hge.
  rewrite pensavR_nth in Hge by (rewrite sort_descR_length; lia).
  rewrite Hpen in Hge by lia.
  rewrite firstn_all2 in Hge by (rewrite sort_descR_length; lia).
  lra.
Qed.

(** sum of the positive parts of (s - c) *)
Definition posumR (c : R) (l : list R) : R := sumR (map (fun s => Rmax (s - c) 0) l).

Lemma posumR_perm c l1 l2 : Permutation l1 l2 -> posumR c l1 = posumR c l2.
Proof. intros H. unfold posumR. apply sumR_perm, Permutation_map. exact H. Qed.

Lemma posumR_nonneg c l : 0 <= posumR c l.
Proof.
  unfold posumR. apply sumR_nonneg. intros x Hx. apply in_map_iff in Hx.
  destruct Hx as (s & <- & _). apply Rmax_r.
Qed.

Lemma posumR_cons c x t : posumR c (x :: t) = Rmax (x - c) 0 + posumR c t.
Proof. reflexivity. Qed.

Lemma posumR_upper c : forall s k, (k <= length s)%nat ->
  sumR (firstn k s) - INR k * c <= posumR c s.
Proof.
  induction s as [|x t IH]; intros k Hk.
  - cbn [length] in Hk. replace k with 0%nat by lia. simpl. unfold posumR. simpl. lra.
  - destruct k as [|k].
    + rewrite firstn_O. pose proof (posumR_nonneg c (x :: t)). simpl. lra.
    + rewrite firstn_cons. cbn [sumR]. cbn [length] in Hk.
      specialize (IH k ltac:(lia)). rewrite posumR_cons, S_INR.
      pose proof (Rmax_l (x - c) 0). lra.
Qed.

Lemma posumR_zero c l : (forall x, In x l -> x <= c) -> posumR c l = 0.
Proof.
  induction l as [|x t IH]; intros H; [reflexivity|].
  rewrite posumR_cons.
  rewrite IH by (intros y Hy; apply H; right; exact Hy).
  specialize (H x (or_introl eq_refl)). rewrite Rmax_right by lra. lra.
Qed.

Lemma posumR_attained c : forall s, descR s ->
  exists k, (k <= length s)%nat /\ sumR (firstn k s) - INR k * c = posumR c s.
Proof.
  unfold descR. induction s as [|x t IH]; intros HS.
  - exists 0%nat. split; [simpl; lia|]. unfold posumR. simpl. lra.
  - apply StronglySorted_inv in HS. destruct HS as [HS HF].
    rewrite Forall_forall in HF.
    destruct (Rle_dec x c) as [Hle|Hgt].
    + exists 0%nat. split; [simpl; lia|].
      rewrite posumR_zero; [rewrite firstn_O; simpl; lra|].
      intros y [Hy|Hy]; [lra|]. specialize (HF y Hy). lra.
    + destruct (IH HS) as (k & Hk & Hv).
      exists (S k). split; [simpl; lia|].
      rewrite firstn_cons, posumR_cons, S_INR. cbn [sumR].
      rewrite Rmax_left by lra. lra.
Qed.

Lemma all_equalR_hd betas :
  all_equalR betas = true -> forall b, In b betas -> b = hd 0 betas.
Proof.
  destruct betas as [|b0 t]; intros H b Hb; [destruct Hb|].
  unfold all_equalR in H. rewrite forallb_forall in H.
  specialize (H b Hb). apply Reqb_true in H. exact H.
Qed.

Lemma all_tinyR_false_nonempty betas : all_tinyR betas = false -> (1 <= length betas)%nat.
Proof. destruct betas; simpl; [discriminate|lia]. Qed.

(** linear penalty (all betas equal, "sparse" regime): componentwise thresholding is the
    best subset, except that the code's value is floored at - alpha *)
Theorem penaliseR_equal sav alpha betas :
  length betas = length sav ->
  all_tinyR betas = false -> all_equalR betas = true ->
  penaliseR sav alpha betas = Rmax (PbestR sav alpha betas) (- alpha).
Proof.
  intros HL Ht He. unfold penaliseR. rewrite Ht, He.
  pose proof (all_tinyR_false_nonempty betas Ht) as Hp. rewrite HL in Hp.
  set (c := hd 0 betas).
  change (sumR (map (fun s => Rmax (s - c) 0) sav)) with (posumR c sav).
  rewrite <- (posumR_perm c _ _ (sort_descR_perm sav)).
  pose proof (all_equalR_hd betas He) as Hc. fold c in Hc.
  assert (Hpen : forall k, (k <= length sav)%nat -> pen_kR betas k = INR k * c).
  { intros k Hk. apply pen_kR_const; [exact Hc|lia]. }
  apply Rle_antisym.
  - destruct (posumR_attained c (sort_descR sav) (sort_descR_sorted sav)) as (k & Hk & Hv).
    rewrite sort_descR_length in Hk.
    destruct k as [|k].
    + rewrite firstn_O in Hv. simpl in Hv.
      pose proof (Rmax_r (PbestR sav alpha betas) (- alpha)). lra.
    + pose proof (PbestR_ge_nth sav alpha betas k HL ltac:(lia)) as Hge.
      rewrite pensavR_nth in Hge by (rewrite sort_descR_length; lia).
      rewrite Hpen in Hge by lia.
      pose proof (Rmax_l (PbestR sav alpha betas) (- alpha)). lra.
  - pose proof (posumR_nonneg c (sort_descR sav)) as Hnn.
    destruct (PbestR_is_nth sav alpha betas HL Hp) as (k & Hk & _ & Hv).
    rewrite pensavR_nth in Hv by (rewrite sort_descR_length; lia).
    rewrite Hpen in Hv by lia.
    pose proof (posumR_upper c (sort_descR sav) (S k)
                  ltac:(rewrite sort_descR_length; lia)) as Hup.
    apply Rmax_lub; lra.
Qed.

Theorem penaliseR_ge_Pbest sav alpha betas :
  length betas = length sav -> (1 <= length sav)%nat ->
  (forall b, In b betas -> 0 <= b) -> (forall x, In x sav -> 0 <= x) ->
  PbestR sav alpha betas <= penaliseR sav alpha betas.
Proof.
  intros HL Hp Hb Hs.
  destruct (all_tinyR betas) eqn:Ht.
  - rewrite penaliseR_tiny by assumption. lra.
  - destruct (all_equalR betas) eqn:He.
    + rewrite penaliseR_equal by assumption. apply Rmax_l.
    + rewrite penaliseR_general by assumption. lra.
Qed.

Theorem penaliseR_spec sav alpha betas :
  length betas = length sav -> (1 <= length sav)%nat ->
  (forall b, In b betas -> 0 <= b) -> (forall x, In x sav -> 0 <= x) ->
  PbestR sav alpha betas <= penaliseR sav alpha betas <= Rmax (PbestR sav alpha betas) (- alpha).
Proof.
  intros HL Hp Hb Hs. split; [apply penaliseR_ge_Pbest; assumption|].
  destruct (all_tinyR betas) eqn:Ht.
  - rewrite penaliseR_tiny by assumption. apply Rmax_l.
  - destruct (all_equalR betas) eqn:He.
    + rewrite penaliseR_equal by assumption. lra.
    + rewrite penaliseR_general by assumption. apply Rmax_l.
Qed.

(** the statement asked for: the value computed by the code's sort-and-cumulate rule
    (whichever of the three branches runs) is the best over non-empty component sets,
    floored at - alpha in the linear branch only *)
Theorem penaliseR_eq_Pbest sav alpha betas :
  length betas = length sav -> (1 <= length sav)%nat ->
  (forall b, In b betas -> 0 <= b) -> (forall x, In x sav -> 0 <= x) ->
  penaliseR sav alpha betas =
    if all_tinyR betas then PbestR sav alpha betas
    else if all_equalR betas then Rmax (PbestR sav alpha betas) (- alpha)
    else PbestR sav alpha betas.
Proof.
  intros HL Hp Hb Hs.
  destruct (all_tinyR betas) eqn:Ht; [apply penaliseR_tiny; assumption|].
  destruct (all_equalR betas) eqn:He;
    [apply penaliseR_equal; assumption|apply penaliseR_general; assumption].
Qed.

Theorem PbestR_is_best_subset sav alpha betas :
  length betas = length sav -> (1 <= length sav)%nat ->
  (forall J, subset_ok (length sav) J -> subset_valueR sav alpha betas J <= PbestR sav alpha betas) /\
  (exists J, subset_ok (length sav) J /\ subset_valueR sav alpha betas J = PbestR sav alpha betas).
Proof. intros; split; [intros; apply PbestR_upper; auto|apply PbestR_attained; auto]. Qed.

(** ---------- P7: sub-additivity lifts from the savings to the penalised savings ---------- *)

Lemma sumR_map_le3 (f g h : nat -> R) (J : list nat) :
  (forall j, In j J -> f j <= g j + h j) ->
  sumR (map f J) <= sumR (map g J) + sumR (map h J).
Proof.
  induction J as [|j J IH]; intros H; cbn [map sumR]; [lra|].
  assert (f j <= g j + h j) by (apply H; left; reflexivity).
  assert (sumR (map f J) <= sumR (map g J) + sumR (map h J))
    by (apply IH; intros k Hk; apply H; right; exact Hk).
  lra.
Qed.

Theorem PbestR_subadditive a l r alpha betas :
  length a = length betas -> length l = length betas -> length r = length betas ->
  (1 <= length betas)%nat ->
  (forall b, In b betas -> 0 <= b) ->
  (forall j, (j < length betas)%nat -> nthR a j <= nthR l j + nthR r j) ->
  PbestR a alpha betas <= PbestR l alpha betas + (alpha + sumR betas) + PbestR r alpha betas.
Proof.
  intros Ha Hl Hr Hp Hb Hsub.
  destruct (PbestR_attained a alpha betas ltac:(lia) ltac:(lia)) as (J & HJ & HV).
  assert (HJl : subset_ok (length l) J) by (rewrite Hl, <- Ha; exact HJ).
  assert (HJr : subset_ok (length r) J) by (rewrite Hr, <- Ha; exact HJ).
  pose proof (PbestR_upper l alpha betas J ltac:(lia) HJl) as Hul.
  pose proof (PbestR_upper r alpha betas J ltac:(lia) HJr) as Hur.
  pose proof (pen_kR_le_sum betas (length J) Hb) as Hpen.
  assert (Hsum : sumR (map (nthR a) J) <= sumR (map (nthR l) J) + sumR (map (nthR r) J)).
  { apply sumR_map_le3. intros j Hj. apply Hsub.
    destruct HJ as (_ & _ & Hlt). specialize (Hlt j Hj). lia. }
  rewrite <- HV. unfold subset_valueR in *. lra.
Qed.

Theorem penaliseR_subadditive a l r alpha betas :
  length a = length betas -> length l = length betas -> length r = length betas ->
  (1 <= length betas)%nat ->
  (forall b, In b betas -> 0 <= b) ->
  (forall x, In x a -> 0 <= x) -> (forall x, In x l -> 0 <= x) -> (forall x, In x r -> 0 <= x) ->
  (forall j, (j < length betas)%nat -> nthR a j <= nthR l j + nthR r j) ->
  penaliseR a alpha betas <= penaliseR l alpha betas + (alpha + sumR betas) + penaliseR r alpha betas.
Proof.
  intros Ha Hl Hr Hp Hb Hna Hnl Hnr Hsub.
  pose proof (PbestR_subadditive a l r alpha betas Ha Hl Hr Hp Hb Hsub) as HP.
  pose proof (sumR_nonneg betas Hb) as HS.
  destruct (all_tinyR betas) eqn:Ht.
  - rewrite !penaliseR_tiny by (assumption || lia). exact HP.
  - destruct (all_equalR betas) eqn:He.
    + rewrite !penaliseR_equal by (assumption || lia).
      pose proof (Rmax_l (PbestR l alpha betas) (- alpha)).
      pose proof (Rmax_r (PbestR l alpha betas) (- alpha)).
      pose proof (Rmax_l (PbestR r alpha betas) (- alpha)).
      pose proof (Rmax_r (PbestR r alpha betas) (- alpha)).
      apply Rmax_lub; lra.
    + rewrite !penaliseR_general by assumption. exact HP.
Qed.

(* ================================================================== *)
(** * Part B: the unpruned recursion over R (twin of Proofs/CapaSpec.v and of the
      specification layer of Proofs/CapaDP.v)                            *)
(* ================================================================== *)

(** [anom], [a_start], [a_end], [a_ok], [valid_from], [Valid], [coll_starts], [to_anom],
    [is_point] of Proofs/CapaSpec.v only talk about nat and are reused. *)

Lemma maxlR_ge_head d l : d <= maxlR d l.
Proof.
  unfold maxlR. revert d; induction l as [|a l IH]; intros d; cbn [fold_left]; [lra|].
  specialize (IH (Rmax d a)). pose proof (Rmax_l d a). lra.
Qed.
Lemma maxlR_ge_in d l y : In y l -> y <= maxlR d l.
Proof.
  revert d; induction l as [|a l IH]; intros d Hin; [destruct Hin|].
  destruct Hin as [->|Hin].
  - pose proof (maxlR_ge_head (Rmax d y) l) as H. pose proof (Rmax_r d y).
    unfold maxlR in *. cbn [fold_left]. lra.
  - unfold maxlR in *. cbn [fold_left]. now apply IH.
Qed.
Lemma maxlR_in d l : maxlR d l = d \/ In (maxlR d l) l.
Proof.
  unfold maxlR. revert d; induction l as [|a l IH]; intros d; cbn [fold_left]; [now left|].
  destruct (IH (Rmax d a)) as [H|H]; [|now right; right].
  rewrite H. unfold Rmax. destruct (Rle_dec d a); [right; left; reflexivity|left; reflexivity].
Qed.
Lemma maxlR_le_iff (l : list R) : forall d z,
  maxlR d l <= z <-> d <= z /\ forall x, In x l -> x <= z.
Proof.
  intros d z. split.
  - intros H. split.
    + pose proof (maxlR_ge_head d l). lra.
    + intros x Hx. pose proof (maxlR_ge_in d l x Hx). lra.
  - intros [H1 H2]. destruct (maxlR_in d l) as [E|E]; [rewrite E; exact H1|now apply H2].
Qed.

Lemma app_nthR_lt l r i : (i < length l)%nat -> nthR (l ++ r) i = nthR l i.
Proof. intros H. unfold nthR. now apply app_nth1. Qed.
Lemma app_nthR_last l x k : length l = k -> nthR (l ++ [x]) k = x.
Proof.
  intros <-. unfold nthR. rewrite app_nth2 by lia. now rewrite Nat.sub_diag.
Qed.
Lemma nthR_map_lt (f : nat -> R) l i :
  (i < length l)%nat -> nthR (map f l) i = f (nthN l i).
Proof.
  intros H. unfold nthR, nthN.
  rewrite (nth_indep _ 0 (f 0%nat)) by (rewrite map_length; exact H).
  apply map_nth.
Qed.
Lemma in_combine_mapR (f : nat -> R) l a c :
  In (a, c) (combine l (map f l)) -> In a l /\ c = f a.
Proof.
  induction l as [|x l IH]; cbn [map combine In]; [tauto|].
  intros [E|H]; [inversion E; subst; auto|]. destruct (IH H); auto.
Qed.

Section SpecR.
Variable pc : nat -> nat -> R.   (* penalised saving of the collective anomaly [s,e) *)
Variable pp : nat -> R.          (* penalised saving of the point anomaly at t *)
Variables m M : nat.

Definition a_valR (a : anom) : R := match a with Coll s e => pc s e | Pt t => pp t end.
(** total penalised saving of an anomaly set (twin of [value]) *)
Definition totalR (l : list anom) : R := sumR (map a_valR l).

(** unpruned recursion: GR 0 = 0,
    GR (S t) = max (GR t) (GR t + pp t) (max_{s : m <= S t - s <= M} GR s + pc s (S t)) *)
Definition gnextR (tab : list R) (T : nat) : R :=
  let gt := nthR tab (T - 1) in
  maxlR (Rmax gt (gt + pp (T - 1)))
        (map (fun s => nthR tab s + pc s T) (coll_starts m M T)).
Fixpoint GRtab (t : nat) : list R :=
  match t with O => [0] | S t' => GRtab t' ++ [gnextR (GRtab t') (S t')] end.
Definition GR (t : nat) : R := nthR (GRtab t) t.

Hypothesis Hm1 : (1 <= m)%nat.

Notation Valid := (Valid m M).
Notation valid_from := (valid_from m M).

Lemma in_coll_startsR T s :
  In s (coll_starts m M T) <-> (s + m <= T /\ T <= s + M)%nat.
Proof. apply in_coll_starts. exact Hm1. Qed.

Lemma GRtab_length t : length (GRtab t) = S t.
Proof using.
  clear Hm1.
  induction t as [|t IHt]; cbn [GRtab]; [reflexivity|]. rewrite app_length, IHt. cbn [length]. lia.
Qed.

Lemma GRtab_nth s t : (s <= t)%nat -> nthR (GRtab t) s = GR s.
Proof using.
  clear Hm1.
  induction t as [|t IH]; intros H.
  - now replace s with 0%nat by lia.
  - destruct (Nat.eq_dec s (S t)) as [->|Hn]; [reflexivity|].
    cbn [GRtab]. rewrite app_nthR_lt by (rewrite GRtab_length; lia).
    apply IH. lia.
Qed.

Lemma GR_0 : GR 0 = 0.
Proof using. clear Hm1. reflexivity. Qed.

Lemma GR_S t :
  GR (S t) = maxlR (Rmax (GR t) (GR t + pp t))
                   (map (fun s => GR s + pc s (S t)) (coll_starts m M (S t))).
Proof.
  unfold GR at 1. cbn [GRtab].
  rewrite app_nthR_last by apply GRtab_length.
  unfold gnextR. replace (S t - 1)%nat with t by lia.
  rewrite GRtab_nth by lia. f_equal.
  apply map_ext_in. intros s Hs. apply in_coll_startsR in Hs.
  rewrite GRtab_nth by lia. reflexivity.
Qed.

Lemma GR_step_id t : GR t <= GR (S t).
Proof.
  rewrite GR_S. eapply Rle_trans; [|apply maxlR_ge_head]. apply Rmax_l.
Qed.
Lemma GR_step_pt t : GR t + pp t <= GR (S t).
Proof.
  rewrite GR_S. eapply Rle_trans; [|apply maxlR_ge_head]. apply Rmax_r.
Qed.
Lemma GR_step_coll s e : (s + m <= e)%nat -> (e <= s + M)%nat -> GR s + pc s e <= GR e.
Proof.
  intros H1 H2. destruct e as [|e]; [lia|]. rewrite GR_S. apply maxlR_ge_in.
  apply (in_map (fun s => GR s + pc s (S e))). apply in_coll_startsR. lia.
Qed.

Lemma GR_attained_step t :
  GR (S t) = GR t \/ GR (S t) = GR t + pp t \/
  exists s, (s + m <= S t)%nat /\ (S t <= s + M)%nat /\ GR (S t) = GR s + pc s (S t).
Proof.
  rewrite GR_S.
  destruct (maxlR_in (Rmax (GR t) (GR t + pp t))
              (map (fun s => GR s + pc s (S t)) (coll_starts m M (S t)))) as [H|H].
  - rewrite H. unfold Rmax. destruct (Rle_dec (GR t) (GR t + pp t)); auto.
  - right; right. apply in_map_iff in H as (s & E & Hs). apply in_coll_startsR in Hs.
    exists s. split; [lia|]. split; [lia|]. now rewrite <- E.
Qed.

Theorem GR_mono T : GR T <= GR (S T).
Proof. apply GR_step_id. Qed.

Lemma GR_mono_le s t : (s <= t)%nat -> GR s <= GR t.
Proof.
  induction t as [|t IH]; intros H.
  - replace s with 0%nat by lia. lra.
  - destruct (Nat.eq_dec s (S t)) as [->|Hn]; [lra|].
    eapply Rle_trans; [apply IH; lia|apply GR_step_id].
Qed.

Theorem GR_nonneg T : 0 <= GR T.
Proof. rewrite <- GR_0. apply GR_mono_le. lia. Qed.

Lemma totalR_snoc l a : totalR (l ++ [a]) = totalR l + a_valR a.
Proof using. clear Hm1. unfold totalR. rewrite map_app, sumR_app. cbn [map sumR]. lra. Qed.

Lemma aR_step a : a_ok m M a -> GR (a_start a) + a_valR a <= GR (a_end a).
Proof.
  destruct a as [s e|t]; cbn [a_ok a_start a_end a_valR].
  - intros [H1 H2]. now apply GR_step_coll.
  - intros _. apply GR_step_pt.
Qed.

Lemma GR_upper_from l : forall lo T, valid_from lo l T -> GR lo + totalR l <= GR T.
Proof.
  induction l as [|a l IH]; intros lo T; cbn [CapaSpec.valid_from].
  - intros H. unfold totalR. cbn [map sumR]. pose proof (GR_mono_le lo T H). lra.
  - intros (H1 & H2 & H3). apply IH in H3. pose proof (aR_step a H2) as Ha.
    pose proof (GR_mono_le lo (a_start a) H1) as Hlo.
    unfold totalR in *. cbn [map sumR]. lra.
Qed.

(** (S1) no admissible anomaly set beats GR *)
Theorem GR_upper : forall T l, Valid l T -> totalR l <= GR T.
Proof.
  intros T l H. apply GR_upper_from in H. rewrite GR_0 in H. lra.
Qed.

(** (S2) GR is attained *)
Theorem GR_attained : forall T, exists l, Valid l T /\ totalR l = GR T.
Proof.
  induction T as [T IH] using lt_wf_ind.
  destruct T as [|t].
  - exists []. split; [cbn; lia|reflexivity].
  - destruct (GR_attained_step t) as [E|[E|(s & H1 & H2 & E)]].
    + destruct (IH t ltac:(lia)) as (l & V & P). exists l. split.
      * apply valid_from_weaken with (T := t); [exact V|lia].
      * now rewrite E.
    + destruct (IH t ltac:(lia)) as (l & V & P). exists (l ++ [Pt t]). split.
      * apply valid_from_snoc. cbn [a_start a_end a_ok]. split; [exact V|]. split; [exact I|lia].
      * rewrite totalR_snoc, E, P. reflexivity.
    + destruct (IH s ltac:(lia)) as (l & V & P). exists (l ++ [Coll s (S t)]). split.
      * apply valid_from_snoc. cbn [a_start a_end a_ok]. split; [exact V|]. split; [lia|lia].
      * rewrite totalR_snoc, E, P. reflexivity.
Qed.
End SpecR.

(** ---------- the recursion ignores changes of non-positive options ---------- *)
Section InsensitiveR.
Variables (Pc Pc' : nat -> nat -> R) (Pp Pp' : nat -> R) (m M : nat).
Hypothesis HPc : forall s e, Pc s e <= Pc' s e <= Rmax (Pc s e) 0.
Hypothesis HPp : forall t, Pp t <= Pp' t <= Rmax (Pp t) 0.

Lemma coll_startsR_lt T s : In s (coll_starts m M T) -> (s < T)%nat.
Proof using.
  unfold coll_starts. intros H. apply filter_In in H. destruct H as [H _].
  apply in_seq in H. lia.
Qed.

Lemma GRtab_nth_stable (P : nat -> nat -> R) (Q : nat -> R) t i : (i <= t)%nat ->
  nthR (GRtab P Q m M (S t)) i = nthR (GRtab P Q m M t) i.
Proof using.
  intros H. cbn [GRtab]. apply app_nthR_lt. rewrite GRtab_length. lia.
Qed.

Lemma GRtab_nth_last (P : nat -> nat -> R) (Q : nat -> R) t :
  nthR (GRtab P Q m M (S t)) (S t) = gnextR P Q m M (GRtab P Q m M t) (S t).
Proof using. cbn [GRtab]. apply app_nthR_last. apply GRtab_length. Qed.

Lemma gnextR_ge_prev (P : nat -> nat -> R) (Q : nat -> R) tab T :
  nthR tab (T - 1) <= gnextR P Q m M tab T.
Proof using.
  unfold gnextR. cbv zeta.
  eapply Rle_trans; [|apply maxlR_ge_head]. apply Rmax_l.
Qed.

(** the table of optimal values is non-decreasing *)
Lemma GRtab_mono (P : nat -> nat -> R) (Q : nat -> R) : forall t i j, (i <= j <= t)%nat ->
  nthR (GRtab P Q m M t) i <= nthR (GRtab P Q m M t) j.
Proof using.
  induction t as [|t IH]; intros i j Hij.
  - replace i with 0%nat by lia. replace j with 0%nat by lia. lra.
  - destruct (Nat.eq_dec j (S t)) as [->|Hne].
    + destruct (Nat.eq_dec i (S t)) as [->|Hne']; [lra|].
      rewrite GRtab_nth_last, (GRtab_nth_stable P Q t i) by lia.
      eapply Rle_trans; [|apply gnextR_ge_prev].
      replace (S t - 1)%nat with t by lia. apply IH. lia.
    + rewrite !GRtab_nth_stable by lia. apply IH. lia.
Qed.

Lemma gnextR_insensitive tab T :
  (forall s, (s < T)%nat -> nthR tab s <= nthR tab (T - 1)) ->
  gnextR Pc' Pp' m M tab T = gnextR Pc Pp m M tab T.
Proof.
  intros Hmono. unfold gnextR. cbv zeta.
  set (gt := nthR tab (T - 1)).
  set (d := Rmax gt (gt + Pp (T - 1))).
  set (d' := Rmax gt (gt + Pp' (T - 1))).
  set (L := map (fun s => nthR tab s + Pc s T) (coll_starts m M T)).
  set (L' := map (fun s => nthR tab s + Pc' s T) (coll_starts m M T)).
  assert (Hd : d' = d).
  { unfold d, d'. pose proof (HPp (T - 1)%nat) as Hq. clear - Hq. rmax. }
  apply Rle_antisym; apply maxlR_le_iff; split.
  - rewrite Hd. apply maxlR_ge_head.
  - intros x Hx. unfold L' in Hx. apply in_map_iff in Hx. destruct Hx as (s & <- & Hs).
    assert (H1 : nthR tab s + Pc s T <= maxlR d L).
    { apply maxlR_ge_in. unfold L. apply in_map_iff. exists s. split; [reflexivity|exact Hs]. }
    assert (H2 : nthR tab s <= maxlR d L).
    { eapply Rle_trans; [apply Hmono, coll_startsR_lt; exact Hs|].
      eapply Rle_trans; [|apply maxlR_ge_head]. unfold d. fold gt. apply Rmax_l. }
    pose proof (HPc s T) as Hq. clear - Hq H1 H2. rmax.
  - rewrite <- Hd. apply maxlR_ge_head.
  - intros x Hx. unfold L in Hx. apply in_map_iff in Hx. destruct Hx as (s & <- & Hs).
    assert (H1 : nthR tab s + Pc' s T <= maxlR d' L').
    { apply maxlR_ge_in. unfold L'. apply in_map_iff. exists s. split; [reflexivity|exact Hs]. }
    pose proof (HPc s T) as Hq. lra.
Qed.

Lemma GRtab_insensitive : forall T, GRtab Pc' Pp' m M T = GRtab Pc Pp m M T.
Proof.
  induction T as [|t IH]; [reflexivity|].
  cbn [GRtab]. rewrite IH. f_equal. f_equal.
  apply gnextR_insensitive. intros s Hs.
  replace (S t - 1)%nat with t by lia. apply GRtab_mono. lia.
Qed.

Theorem GR_insensitive : forall T, GR Pc' Pp' m M T = GR Pc Pp m M T.
Proof. intros T. unfold GR. rewrite GRtab_insensitive. reflexivity. Qed.
End InsensitiveR.

(** with alpha >= 0 the optimal values are the same whether an anomaly is valued by the
    implemented [penaliseR] or by the set-level optimum [PbestR] *)
Corollary GR_penalise_eq_Pbest
  (Sc : nat -> nat -> list R) (Sp : nat -> list R) (ac : R) (bc : list R) (ap : R) (bp : list R)
  (m M : nat) :
  0 <= ac -> 0 <= ap -> (1 <= length bc)%nat -> (1 <= length bp)%nat ->
  (forall s e, length (Sc s e) = length bc) -> (forall t, length (Sp t) = length bp) ->
  (forall b, In b bc -> 0 <= b) -> (forall b, In b bp -> 0 <= b) ->
  (forall s e x, In x (Sc s e) -> 0 <= x) -> (forall t x, In x (Sp t) -> 0 <= x) ->
  forall T,
    GR (PcR Sc ac bc) (PpR Sp ap bp) m M T =
    GR (fun s e => PbestR (Sc s e) ac bc) (fun t => PbestR (Sp t) ap bp) m M T.
Proof.
  intros Hac Hap Hbc Hbp HLc HLp Hnbc Hnbp Hnc Hnp T.
  apply GR_insensitive.
  - intros s e. unfold PcR.
    pose proof (penaliseR_spec (Sc s e) ac bc ltac:(rewrite HLc; reflexivity)
                  ltac:(rewrite HLc; exact Hbc) Hnbc (Hnc s e)) as H.
    clear - H Hac. rmax.
  - intros t. unfold PpR.
    pose proof (penaliseR_spec (Sp t) ap bp ltac:(rewrite HLp; reflexivity)
                  ltac:(rewrite HLp; exact Hbp) Hnbp (Hnp t)) as H.
    clear - H Hap. rmax.
Qed.

(* ================================================================== *)
(** * Part C: the pruned dynamic programme over R (twin of the model layer of
      Proofs/CapaDP.v)                                                   *)
(* ================================================================== *)

(** [chain], [get_anoms_chain], [predict_ignore_points], [to_anom_pt], [to_anom_coll],
    [valid_from_snoc], [valid_from_weaken], [in_memb] of Proofs/CapaDP.v only talk about
    nat and are reused. *)

Section ModelR.
Variable Sc : nat -> nat -> list R.
Variable Sp : nat -> list R.
Variables (ac : R) (bc : list R) (ap : R) (bp : list R).
Variables (m M delay : nat).
Hypothesis Hm2 : (2 <= m)%nat.
Hypothesis HmM : (m <= M)%nat.

Notation PC := (PcR Sc ac bc).
Notation PP := (PpR Sp ap bp).
Notation K := (ac + sumR bc).
Notation stepM := (stepC Sc Sp ac bc ap bp m M delay).
Notation runM := (runC Sc Sp ac bc ap bp m M delay).
Notation capaM := (capaR Sc Sp ac bc ap bp m M delay).
Notation GG := (GR PC PP m M).
Notation ValidM := (Valid m M).
Notation totalM := (totalR PC PP).

(** the pieces of one iteration *)
Definition starts1C (s : stC) (t : nat) : list nat :=
  if (m <=? S t)%nat then startsC s ++ [S t - m]%nat else startsC s.
Definition candsC (s : stC) (t : nat) : list R :=
  map (fun a => nthR (optC s) a + PC a (S t)) (starts1C s t).
Definition chooseC (s : stC) (t : nat) : option nat * R :=
  let ot := nthR (optC s) t in
  let optp := ot + PP t in
  match argmaxR (candsC s t) with
  | None => if Rltb ot optp then (Some t, optp) else (None, ot)
  | Some (i, oc) =>
      if Rltb ot oc then (if Rltb oc optp then (Some t, optp) else (Some (nthN (starts1C s t) i), oc))
      else (if Rltb ot optp then (Some t, optp) else (None, ot))
  end.
Definition lowC (s : stC) (t : nat) (best : R) : list nat :=
  map fst (filter (fun ac0 => Rltb (snd ac0 + K) best) (combine (starts1C s t) (candsC s t))).
Definition poppedC (s : stC) (lw : list nat) : list nat * list (list nat) :=
  let pend := pendingC s ++ [lw] in
  if (delay <? length pend)%nat then (hd [] pend, tl pend) else ([], pend).
Definition keepC (s : stC) (t : nat) (now : list nat) : list nat :=
  filter (fun a => negb (memb a now) && negb (a + M <? S t + 1)%nat) (starts1C s t).

Lemma stepC_eq s t :
  stepM s t =
  let '(choice, best) := chooseC s t in
  let '(now, pend') := poppedC s (lowC s t best) in
  {| optC := optC s ++ [best]; astartC := astartC s ++ [choice];
     startsC := keepC s t now; pendingC := pend' |}.
Proof. reflexivity. Qed.

Lemma runC_S n : runM (S n) = stepM (runM n) n.
Proof.
  unfold runC. rewrite seq_S, fold_left_app. reflexivity.
Qed.

Lemma chooseC_spec s t choice best : chooseC s t = (choice, best) ->
  nthR (optC s) t <= best /\ nthR (optC s) t + PP t <= best /\
  (forall x, In x (candsC s t) -> x <= best) /\
  match choice with
  | None => best = nthR (optC s) t
  | Some a => (a = t /\ best = nthR (optC s) t + PP t) \/
              (exists i, (i < length (starts1C s t))%nat /\ a = nthN (starts1C s t) i /\
                         best = nthR (candsC s t) i)
  end.
Proof.
  unfold chooseC. cbv zeta.
  destruct (argmaxR (candsC s t)) as [[i oc]|] eqn:E.
  - apply argmaxR_spec_in in E as (Hi & Hv & Hmax).
    assert (Hi' : (i < length (starts1C s t))%nat)
      by (unfold candsC in Hi; now rewrite map_length in Hi).
    destruct (Rltb (nthR (optC s) t) oc) eqn:E1;
      [apply Rltb_true in E1|apply Rltb_false in E1].
    + destruct (Rltb oc (nthR (optC s) t + PP t)) eqn:E2;
        [apply Rltb_true in E2|apply Rltb_false in E2];
        intros E'; inversion E'; subst choice best.
      * split; [lra|]. split; [lra|]. split; [|now left].
        intros x Hx. specialize (Hmax x Hx). lra.
      * split; [lra|]. split; [lra|]. split; [exact Hmax|].
        right. exists i. auto.
    + destruct (Rltb (nthR (optC s) t) (nthR (optC s) t + PP t)) eqn:E2;
        [apply Rltb_true in E2|apply Rltb_false in E2];
        intros E'; inversion E'; subst choice best.
      * split; [lra|]. split; [lra|]. split; [|now left].
        intros x Hx. specialize (Hmax x Hx). lra.
      * split; [lra|]. split; [lra|]. split; [|reflexivity].
        intros x Hx. specialize (Hmax x Hx). lra.
  - apply argmaxR_none in E. rewrite E.
    destruct (Rltb (nthR (optC s) t) (nthR (optC s) t + PP t)) eqn:E2;
      [apply Rltb_true in E2|apply Rltb_false in E2];
      intros E'; inversion E'; subst choice best.
    + split; [lra|]. split; [lra|]. split; [intros ? []|now left].
    + split; [lra|]. split; [lra|]. split; [intros ? []|reflexivity].
Qed.

(** structural invariant after T iterations *)
Definition as_okR (o : list R) (i : nat) (ch : option nat) : Prop :=
  match ch with
  | None => nthR o (S i) = nthR o i
  | Some a => (a = i /\ nthR o (S i) = nthR o i + PP i) \/
              ((a + m <= S i)%nat /\ (S i <= a + M)%nat /\
               nthR o (S i) = nthR o a + PC a (S i))
  end.

Record WInvR (T : nat) (s : stC) : Prop := {
  wR_len_opt : length (optC s) = S T;
  wR_len_as : length (astartC s) = T;
  wR_opt0 : nthR (optC s) 0 = 0;
  wR_mono : forall i, (i < T)%nat -> nthR (optC s) i <= nthR (optC s) (S i);
  wR_as : forall i, (i < T)%nat -> as_okR (optC s) i (nth i (astartC s) None);
  wR_starts : forall a, In a (startsC s) -> (a + m <= T)%nat /\ (S T <= a + M)%nat }.

Lemma as_okR_ext o o' i ch :
  (forall j, (j <= S i)%nat -> nthR o' j = nthR o j) -> as_okR o i ch -> as_okR o' i ch.
Proof.
  intros H. unfold as_okR. destruct ch as [a|].
  - intros [[-> E]|(H1 & H2 & E)].
    + left. split; [reflexivity|]. rewrite !H by lia. exact E.
    + right. split; [exact H1|]. split; [exact H2|]. rewrite !H by lia. exact E.
  - intros E. rewrite !H by lia. exact E.
Qed.

Lemma starts1C_range t s : WInvR t s ->
  forall a, In a (starts1C s t) -> (a + m <= S t)%nat /\ (S t <= a + M)%nat.
Proof.
  intros W a Ha. unfold starts1C in Ha.
  destruct (m <=? S t)%nat eqn:E.
  - apply Nat.leb_le in E. apply in_app_or in Ha as [Ha|[<-|[]]].
    + destruct (wR_starts _ _ W a Ha). lia.
    + lia.
  - destruct (wR_starts _ _ W a Ha). lia.
Qed.

Lemma startsC_sub_starts1C s t a : In a (startsC s) -> In a (starts1C s t).
Proof.
  intros H. unfold starts1C. destruct (m <=? S t)%nat; [apply in_or_app; now left|exact H].
Qed.

Lemma candsC_nth t s i : (i < length (starts1C s t))%nat ->
  nthR (candsC s t) i = nthR (optC s) (nthN (starts1C s t) i) + PC (nthN (starts1C s t) i) (S t).
Proof. intros Hi. unfold candsC. now rewrite nthR_map_lt. Qed.

Lemma initC_WInv : WInvR 0 initC.
Proof.
  constructor; cbn [initC optC astartC startsC pendingC length]; try reflexivity;
    try (intros; lia); try (intros a []).
Qed.

Lemma stepC_WInv t s : WInvR t s -> WInvR (S t) (stepM s t).
Proof.
  intros W. pose proof W as [Hlo Hla H0 Hmono Has Hst].
  rewrite stepC_eq. destruct (chooseC s t) as [choice best] eqn:Ech.
  destruct (poppedC s (lowC s t best)) as [now pend'] eqn:Epop.
  apply chooseC_spec in Ech as (Hb1 & Hb2 & Hb3 & Hch).
  assert (Hold : forall j, (j <= t)%nat -> nthR (optC s ++ [best]) j = nthR (optC s) j)
    by (intros j Hj; apply app_nthR_lt; lia).
  assert (Hnew : nthR (optC s ++ [best]) (S t) = best) by now apply app_nthR_last.
  constructor; cbn [optC astartC startsC pendingC].
  - rewrite app_length, Hlo. cbn [length]. lia.
  - rewrite app_length, Hla. cbn [length]. lia.
  - rewrite Hold by lia. exact H0.
  - intros i Hi. destruct (Nat.eq_dec i t) as [->|Hne].
    + rewrite Hnew, Hold by lia. exact Hb1.
    + rewrite !Hold by lia. apply Hmono. lia.
  - intros i Hi. destruct (Nat.eq_dec i t) as [->|Hne].
    + rewrite app_nth2 by lia. rewrite Hla, Nat.sub_diag. cbn [nth].
      unfold as_okR. destruct choice as [a|].
      * destruct Hch as [[-> E]|(i0 & Hi0 & Ea & E)].
        -- left. split; [reflexivity|]. now rewrite Hnew, Hold by lia.
        -- right. assert (Hin : In a (starts1C s t)) by (subst a; now apply nth_In).
           destruct (starts1C_range t s W a Hin) as [R1 R2].
           split; [exact R1|]. split; [exact R2|].
           rewrite Hnew, Hold by lia. rewrite E, (candsC_nth t s i0 Hi0), <- Ea. reflexivity.
      * now rewrite Hnew, Hold by lia.
    + rewrite app_nth1 by lia. apply as_okR_ext with (o := optC s).
      * intros j Hj. apply Hold. lia.
      * apply Has. lia.
  - intros a Ha. unfold keepC in Ha. apply filter_In in Ha as [Hin Hf].
    apply andb_true_iff in Hf as [_ Hf]. apply negb_true_iff, Nat.ltb_ge in Hf.
    destruct (starts1C_range t s W a Hin). lia.
Qed.

Lemma runC_WInv n : WInvR n (runM n).
Proof.
  induction n as [|n IH]; [exact initC_WInv|]. rewrite runC_S. now apply stepC_WInv.
Qed.

(** the chain from any [e <= T] is a valid anomaly set for [0,e) of value opt[e] *)
Lemma chainR_valid T s : WInvR T s -> forall fuel e, (e <= fuel)%nat -> (e <= T)%nat ->
  valid_from m M 0 (map to_anom (chain fuel (astartC s) e)) e /\
  totalM (map to_anom (chain fuel (astartC s) e)) = nthR (optC s) e.
Proof.
  intros W. induction fuel as [|f IH]; intros e Hf HT.
  - replace e with 0%nat by lia. cbn [chain map valid_from]. split; [lia|].
    symmetry. apply (wR_opt0 _ _ W).
  - destruct e as [|i].
    + cbn [chain map valid_from]. split; [lia|]. symmetry. apply (wR_opt0 _ _ W).
    + cbn [chain]. pose proof (wR_as _ _ W i ltac:(lia)) as Hok. unfold as_okR in Hok.
      destruct (nth i (astartC s) None) as [a|].
      * destruct Hok as [[-> E]|(H1 & H2 & E)].
        -- rewrite Nat.ltb_irrefl, Nat.eqb_refl.
           destruct (IH i ltac:(lia) ltac:(lia)) as [V P].
           rewrite map_app. cbn [map]. rewrite to_anom_pt.
           split.
           ++ apply valid_from_snoc. cbn [a_start a_end a_ok].
              split; [exact V|]. split; [exact I|lia].
           ++ rewrite totalR_snoc, P, E. reflexivity.
        -- replace (a <? i)%nat with true by (symmetry; apply Nat.ltb_lt; lia).
           destruct (IH a ltac:(lia) ltac:(lia)) as [V P].
           rewrite map_app. cbn [map]. rewrite to_anom_coll by lia.
           split.
           ++ apply valid_from_snoc. cbn [a_start a_end a_ok].
              split; [exact V|]. split; [lia|lia].
           ++ rewrite totalR_snoc, P, E. reflexivity.
      * destruct (IH i ltac:(lia) ltac:(lia)) as [V P]. split.
        -- apply valid_from_weaken with (T := i); [exact V|lia].
        -- now rewrite P.
Qed.

Lemma capaR_eq n scores c p : capaM n = (scores, c, p) ->
  scores = tl (optC (runM n)) /\ get_anoms n (astartC (runM n)) n = (c, p).
Proof.
  unfold capaR. destruct (get_anoms n (astartC (runM n)) n) as [c' p'].
  intros H. inversion H; subst. auto.
Qed.

Lemma optC_cons T s : WInvR T s -> optC s = 0 :: tl (optC s).
Proof.
  intros W. pose proof (wR_len_opt _ _ W) as Hl. pose proof (wR_opt0 _ _ W) as H0.
  destruct (optC s) as [|x l]; [discriminate|]. cbn [tl]. unfold nthR in H0. cbn [nth] in H0.
  now subst.
Qed.

Lemma capaR_prefix n scores c p T c' p' : capaM n = (scores, c, p) -> (T <= n)%nat ->
  get_anoms T (astartC (runM n)) T = (c', p') ->
  ValidM (map to_anom (capa_predict false c' p')) T /\
  totalM (map to_anom (capa_predict false c' p')) = nthR (0 :: scores) T.
Proof.
  intros Hc HT Hg. apply capaR_eq in Hc as [-> _].
  pose proof (runC_WInv n) as W. rewrite <- (optC_cons n _ W).
  apply get_anoms_chain in Hg as (H1 & _ & _). unfold capa_predict. rewrite H1.
  apply (chainR_valid n _ W); lia.
Qed.

(** (W1) *)
Theorem capaR_scores_length n scores c p : capaM n = (scores, c, p) -> length scores = n.
Proof.
  intros Hc. apply capaR_eq in Hc as [-> _].
  pose proof (wR_len_opt _ _ (runC_WInv n)) as Hl.
  destruct (optC (runM n)); cbn [length tl] in *; lia.
Qed.

(** (W2) *)
Theorem capaR_wellformed n scores c p : capaM n = (scores, c, p) ->
  ValidM (map to_anom (capa_predict false c p)) n.
Proof.
  intros Hc. pose proof (capaR_eq _ _ _ _ Hc) as [_ Hg].
  exact (proj1 (capaR_prefix n scores c p n c p Hc (le_n n) Hg)).
Qed.

(** (W3) *)
Theorem capaR_value_is_final_score n scores c p : capaM n = (scores, c, p) ->
  totalM (map to_anom (capa_predict false c p)) = nthR (0 :: scores) n.
Proof.
  intros Hc. pose proof (capaR_eq _ _ _ _ Hc) as [_ Hg].
  exact (proj2 (capaR_prefix n scores c p n c p Hc (le_n n) Hg)).
Qed.

(** (W4) *)
Theorem capaR_ignore_points n scores c p : capaM n = (scores, c, p) ->
  capa_predict true c p = filter (fun se => negb (is_point se)) (capa_predict false c p).
Proof.
  intros Hc. apply capaR_eq in Hc as [_ Hg]. now apply predict_ignore_points in Hg.
Qed.

(** (W5) *)
Lemma scoresR_nth n scores c p t : capaM n = (scores, c, p) ->
  nthR scores t = nthR (optC (runM n)) (S t).
Proof.
  intros Hc. apply capaR_eq in Hc as [-> _].
  rewrite (optC_cons n _ (runC_WInv n)) at 2. reflexivity.
Qed.

Theorem capaR_scores_monotone n scores c p : capaM n = (scores, c, p) ->
  forall t, (S t < n)%nat -> nthR scores t <= nthR scores (S t).
Proof.
  intros Hc t Ht. rewrite !(scoresR_nth n scores c p) by exact Hc.
  apply (wR_mono _ _ (runC_WInv n)). lia.
Qed.

Lemma optC_nonneg T s : WInvR T s -> forall i, (i <= T)%nat -> 0 <= nthR (optC s) i.
Proof.
  intros W. induction i as [|i IH]; intros Hi.
  - rewrite (wR_opt0 _ _ W). lra.
  - pose proof (wR_mono _ _ W i ltac:(lia)). specialize (IH ltac:(lia)). lra.
Qed.

Theorem capaR_scores_nonneg n scores c p : capaM n = (scores, c, p) ->
  forall t, (t < n)%nat -> 0 <= nthR scores t.
Proof.
  intros Hc t Ht. rewrite (scoresR_nth n scores c p) by exact Hc.
  apply (optC_nonneg n _ (runC_WInv n)). lia.
Qed.

(** ---------------------------------------------------------------------- *)
(** ** Optimality of the pruned programme                                    *)
(** ---------------------------------------------------------------------- *)
Hypothesis Hd : (m <= delay + 1)%nat.
Hypothesis Hsub : forall s k e, (s + m <= k)%nat -> (k + m <= e)%nat -> (e <= s + M)%nat ->
  PC s e <= PC s k + K + PC k e.

Lemma Hm1R : (1 <= m)%nat.
Proof using Hm2. clear - Hm2. lia. Qed.

(** start [a] was found too low at end [tau] *)
Definition condemnedC (a tau : nat) : Prop :=
  (a + m <= tau)%nat /\ GG a + PC a tau + K < GG tau.

Lemma condemnedC_worse a tau T' :
  condemnedC a tau -> (tau + m <= T')%nat -> (T' <= a + M)%nat -> GG a + PC a T' < GG T'.
Proof.
  intros [H1 H2] H3 H4.
  pose proof (Hsub a tau T' H1 H3 H4) as Hs.
  assert (H5 : (T' <= tau + M)%nat) by lia.
  pose proof (GR_step_coll PC PP m M Hm1R tau T' H3 H5) as Hg.
  lra.
Qed.

Record OInvR (T : nat) (s : stC) : Prop := {
  oR_opt : forall i, (i <= T)%nat -> nthR (optC s) i = GG i;
  oR_missing : forall a, (a + m <= T)%nat -> (S T <= a + M)%nat -> ~ In a (startsC s) ->
      exists tau, condemnedC a tau /\ (tau + m <= S T)%nat;
  oR_pend_len : (length (pendingC s) <= delay)%nat;
  oR_pend : forall i D, nth_error (pendingC s) i = Some D ->
      forall a, In a D -> condemnedC a (T + 1 + i - length (pendingC s))%nat }.

Lemma poppedC_spec s lw now pend' : poppedC s lw = (now, pend') ->
  (delay < length (pendingC s ++ [lw]) /\ now = hd [] (pendingC s ++ [lw]) /\
     pend' = tl (pendingC s ++ [lw]))%nat \/
  (length (pendingC s ++ [lw]) <= delay /\ now = [] /\ pend' = pendingC s ++ [lw])%nat.
Proof.
  unfold poppedC. cbv zeta. destruct (delay <? length (pendingC s ++ [lw]))%nat eqn:E.
  - apply Nat.ltb_lt in E. intros H. inversion H; subst. left. auto.
  - apply Nat.ltb_ge in E. intros H. inversion H; subst. right. auto.
Qed.

Lemma initC_OInv : OInvR 0 initC.
Proof.
  constructor; cbn [optC astartC startsC pendingC initC].
  - intros i Hi. replace i with 0%nat by lia. reflexivity.
  - intros a H. lia.
  - cbn [length]. lia.
  - intros i D H. destruct i; discriminate.
Qed.

Lemma stepC_OInv t s : WInvR t s -> OInvR t s -> OInvR (S t) (stepM s t).
Proof.
  intros W O. pose proof W as [Hlo Hla H0 Hmono Has Hst].
  pose proof O as [Hopt Hmiss Hplen Hpend].
  rewrite stepC_eq. destruct (chooseC s t) as [choice best] eqn:Ech.
  apply chooseC_spec in Ech as (Hb1 & Hb2 & Hb3 & Hch).
  assert (Hcand : forall a, In a (starts1C s t) ->
            nthR (optC s) a + PC a (S t) = GG a + PC a (S t)).
  { intros a Ha. destruct (starts1C_range t s W a Ha). rewrite Hopt by lia. reflexivity. }
  (* admissible starts absent from the list were condemned long enough ago *)
  assert (Hmiss0 : forall a, (a + m <= S t)%nat -> (S t <= a + M)%nat ->
            ~ In a (starts1C s t) -> exists tau, condemnedC a tau /\ (tau + m <= S t)%nat).
  { intros a A1 A2 Hn.
    assert (Hne : a <> (S t - m)%nat).
    { intros ->. apply Hn. unfold starts1C.
      replace (m <=? S t)%nat with true by (symmetry; apply Nat.leb_le; lia).
      apply in_or_app; right; now left. }
    assert (Hn' : ~ In a (startsC s)) by (intros Hin; apply Hn; now apply startsC_sub_starts1C).
    apply Hmiss; [lia|lia|exact Hn']. }
  assert (Hmiss1 : forall a, (a + m <= S t)%nat -> (S t <= a + M)%nat ->
            ~ In a (starts1C s t) -> GG a + PC a (S t) < GG (S t)).
  { intros a A1 A2 Hn. destruct (Hmiss0 a A1 A2 Hn) as (tau & Hc & Htau).
    now apply (condemnedC_worse a tau). }
  (* the pruned maximum is the unpruned one *)
  assert (Hbest : best = GG (S t)).
  { apply Rle_antisym.
    - destruct choice as [a|].
      + destruct Hch as [[-> ->]|(i0 & Hi0 & Ea & ->)].
        * rewrite Hopt by lia. apply (GR_step_pt PC PP m M Hm1R).
        * assert (Hin : In a (starts1C s t)) by (subst a; now apply nth_In).
          rewrite (candsC_nth t s i0 Hi0), <- Ea, Hcand by exact Hin.
          destruct (starts1C_range t s W a Hin) as [R1 R2].
          now apply (GR_step_coll PC PP m M Hm1R).
      + rewrite Hch, Hopt by lia. apply (GR_step_id PC PP m M Hm1R).
    - destruct (GR_attained_step PC PP m M Hm1R t) as [E|[E|(a & A1 & A2 & E)]].
      + rewrite E, <- Hopt by lia. exact Hb1.
      + rewrite E, <- Hopt by lia. exact Hb2.
      + destruct (in_dec Nat.eq_dec a (starts1C s t)) as [Hin|Hn].
        * rewrite E, <- Hcand by exact Hin. apply Hb3. unfold candsC.
          apply (in_map (fun a => nthR (optC s) a + PC a (S t))). exact Hin.
        * pose proof (Hmiss1 a A1 A2 Hn). lra. }
  (* starts recorded as too low at this end are condemned at S t *)
  assert (Hlow : forall a, In a (lowC s t best) -> condemnedC a (S t)).
  { intros a Ha. unfold lowC in Ha. apply in_map_iff in Ha as ([a' c0] & Ea & Hin).
    cbn [fst] in Ea. subst a'. apply filter_In in Hin as [Hin Hc].
    unfold candsC in Hin. apply in_combine_mapR in Hin as [Hin ->]. cbn [snd] in Hc.
    apply Rltb_true in Hc. destruct (starts1C_range t s W a Hin) as [R1 R2].
    split; [lia|]. rewrite Hcand in Hc by exact Hin. rewrite <- Hbest. exact Hc. }
  set (lw := lowC s t best) in *.
  destruct (poppedC s lw) as [now pend'] eqn:Epop.
  apply poppedC_spec in Epop.
  set (pend := pendingC s ++ [lw]) in *.
  assert (Hlen : length pend = S (length (pendingC s)))
    by (unfold pend; rewrite app_length; cbn [length]; lia).
  assert (Hpend1 : forall i D, nth_error pend i = Some D ->
            forall a, In a D -> condemnedC a (S t + 1 + i - length pend)%nat).
  { intros i D Hi a Ha. rewrite Hlen.
    destruct (lt_dec i (length (pendingC s))) as [Hlt|Hge].
    - unfold pend in Hi. rewrite nth_error_app1 in Hi by exact Hlt.
      specialize (Hpend i D Hi a Ha).
      replace (S t + 1 + i - S (length (pendingC s)))%nat
        with (t + 1 + i - length (pendingC s))%nat by lia. exact Hpend.
    - unfold pend in Hi. rewrite nth_error_app2 in Hi by lia.
      destruct (i - length (pendingC s))%nat as [|j] eqn:Ej; cbn [nth_error] in Hi;
        [|destruct j; discriminate].
      inversion Hi; subst D.
      replace (S t + 1 + i - S (length (pendingC s)))%nat with (S t) by lia.
      now apply Hlow. }
  assert (Hopt' : forall i, (i <= S t)%nat -> nthR (optC s ++ [best]) i = GG i).
  { intros i Hi. destruct (Nat.eq_dec i (S t)) as [->|Hne].
    - rewrite app_nthR_last by exact Hlo. exact Hbest.
    - rewrite app_nthR_lt by lia. apply Hopt. lia. }
  destruct Epop as [(Hcmp & -> & ->)|(Hcmp & -> & ->)].
  - (* the oldest pending decision is applied *)
    assert (Hk : length (pendingC s) = delay) by lia.
    destruct pend as [|D0 ptl] eqn:Ep; [cbn [length] in Hlen; lia|]. cbn [hd tl].
    assert (HD0 : forall a, In a D0 -> condemnedC a (S t - delay)%nat).
    { intros a Ha. specialize (Hpend1 0%nat D0 eq_refl a Ha).
      replace (S t + 1 + 0 - length (D0 :: ptl))%nat with (S t - delay)%nat in Hpend1
        by (rewrite Hlen; lia). exact Hpend1. }
    constructor; cbn [optC astartC startsC pendingC].
    + exact Hopt'.
    + intros a A1 A2 Hn.
      destruct (in_dec Nat.eq_dec a (starts1C s t)) as [Hin|Hnin].
      * assert (Hnow : In a D0).
        { destruct (in_dec Nat.eq_dec a D0) as [i|ni]; [exact i|]. exfalso. apply Hn.
          unfold keepC. apply filter_In. split; [exact Hin|]. apply andb_true_iff. split.
          - apply negb_true_iff. destruct (memb a D0) eqn:Em; [|reflexivity].
            apply in_memb in Em. contradiction.
          - apply negb_true_iff, Nat.ltb_ge. lia. }
        exists (S t - delay)%nat. split; [now apply HD0|].
        destruct (HD0 a Hnow) as [Hm' _]. lia.
      * destruct (Hmiss0 a A1 ltac:(lia) Hnin) as (tau & Hc & Htau).
        exists tau. split; [exact Hc|lia].
    + cbn [length] in Hlen. lia.
    + intros i D Hi a Ha. specialize (Hpend1 (S i) D Hi a Ha).
      replace (S t + 1 + i - length ptl)%nat
        with (S t + 1 + S i - length (D0 :: ptl))%nat by (cbn [length]; lia).
      exact Hpend1.
  - (* nothing is applied yet *)
    constructor; cbn [optC astartC startsC pendingC].
    + exact Hopt'.
    + intros a A1 A2 Hn.
      assert (Hnin : ~ In a (starts1C s t)).
      { intros Hin. apply Hn. unfold keepC. apply filter_In. split; [exact Hin|].
        apply andb_true_iff. split; [reflexivity|]. apply negb_true_iff, Nat.ltb_ge. lia. }
      destruct (Hmiss0 a A1 ltac:(lia) Hnin) as (tau & Hc & Htau).
      exists tau. split; [exact Hc|lia].
    + exact Hcmp.
    + exact Hpend1.
Qed.

Lemma runC_OInv n : OInvR n (runM n).
Proof.
  induction n as [|n IH]; [exact initC_OInv|]. rewrite runC_S.
  apply stepC_OInv; [apply runC_WInv|exact IH].
Qed.

(** (O1) *)
Theorem capaR_scores_optimal n scores c p : capaM n = (scores, c, p) ->
  forall t, (t < n)%nat -> nthR scores t = GG (S t).
Proof.
  intros Hc t Ht. rewrite (scoresR_nth n scores c p) by exact Hc.
  apply (oR_opt _ _ (runC_OInv n)). lia.
Qed.

(** (O2) *)
Theorem capaR_optimal n scores c p : capaM n = (scores, c, p) ->
  forall l, ValidM l n -> totalM l <= totalM (map to_anom (capa_predict false c p)).
Proof.
  intros Hc l Hl. rewrite (capaR_value_is_final_score n scores c p Hc).
  pose proof (capaR_eq _ _ _ _ Hc) as [-> _].
  rewrite <- (optC_cons n _ (runC_WInv n)).
  rewrite (oR_opt _ _ (runC_OInv n)) by lia.
  now apply (GR_upper PC PP m M Hm1R).
Qed.

(** the predicted anomaly set attains the optimum GR n *)
Corollary capaR_value_optimal n scores c p : capaM n = (scores, c, p) ->
  totalM (map to_anom (capa_predict false c p)) = GG n.
Proof.
  intros Hc. apply Rle_antisym.
  - apply (GR_upper PC PP m M Hm1R). now apply (capaR_wellformed n scores c p).
  - destruct (GR_attained PC PP m M Hm1R n) as (l & V & <-).
    now apply (capaR_optimal n scores c p).
Qed.

End ModelR.

(* ================================================================== *)
(** * Part C (continued): the main theorems in closed form, delay = m - 1  *)
(* ================================================================== *)

(** the code as it stands: pruning decisions are delayed by m - 1 iterations *)
Definition capaR_code Sc Sp ac bc ap bp m M n := capaR Sc Sp ac bc ap bp m M (m - 1) n.

Section MainR.
Variables (Sc : nat -> nat -> list R) (Sp : nat -> list R) (ac : R) (bc : list R) (ap : R) (bp : list R).
Variables (m M n : nat).
Hypothesis Hm : (2 <= m)%nat.
Hypothesis HM : (m <= M)%nat.

Notation PC := (PcR Sc ac bc).
Notation PP := (PpR Sp ap bp).

(** hypotheses of the property, word for word those of Properties/C03.v: p >= 1 columns,
    non-negative penalties, non-negative savings that are sub-additive under splitting
    (column by column) *)
Definition penalties_okR : Prop :=
  (1 <= length bc)%nat /\ (1 <= length bp)%nat /\ 0 <= ac /\ 0 <= ap /\
  (forall b, In b bc -> 0 <= b) /\ (forall b, In b bp -> 0 <= b).
Definition savings_okR : Prop :=
  (forall s e, length (Sc s e) = length bc) /\ (forall t, length (Sp t) = length bp) /\
  (forall s e x, In x (Sc s e) -> 0 <= x) /\ (forall t x, In x (Sp t) -> 0 <= x).
Definition subadditiveR : Prop :=
  forall s k e j, (s + m <= k)%nat -> (k + m <= e)%nat -> (e <= s + M)%nat -> (j < length bc)%nat ->
    nthR (Sc s e) j <= nthR (Sc s k) j + nthR (Sc k e) j.

Lemma HsubR_from_columns : penalties_okR -> savings_okR -> subadditiveR ->
  forall s k e, (s + m <= k)%nat -> (k + m <= e)%nat -> (e <= s + M)%nat ->
    PC s e <= PC s k + (ac + sumR bc) + PC k e.
Proof.
  intros (Hb1 & _ & _ & _ & Hbc & _) (Hl & _ & Hnn & _) Hsa s k e H1 H2 H3.
  unfold PcR. apply penaliseR_subadditive; auto.
  - intros x Hx. eapply Hnn; eauto.
  - intros x Hx. eapply Hnn; eauto.
  - intros x Hx. eapply Hnn; eauto.
Qed.

Variables (scores : list R) (c p : list (nat * nat)).
Hypothesis Hrun : capaR_code Sc Sp ac bc ap bp m M n = (scores, c, p).

(** (1) the cumulative score at every time is the optimum for that prefix, the optimum
        being taken w.r.t. the TRUE best-subset penalised saving [PbestR] *)
Theorem capaR_scores_are_prefix_optima : penalties_okR -> savings_okR -> subadditiveR ->
  forall t, (t < n)%nat ->
    nthR scores t = GR (fun s e => PbestR (Sc s e) ac bc) (fun t => PbestR (Sp t) ap bp) m M (S t).
Proof.
  intros Hp Hs Hsa t Ht.
  rewrite <- GR_penalise_eq_Pbest; try tauto.
  - eapply (capaR_scores_optimal Sc Sp ac bc ap bp m M (m - 1)); eauto; [lia|].
    apply HsubR_from_columns; auto.
  - destruct Hp; tauto. - destruct Hp; tauto. - destruct Hp; tauto. - destruct Hp; tauto.
  - destruct Hs; tauto. - destruct Hs; tauto.
  - destruct Hp as (_&_&_&_&H&_); exact H. - destruct Hp as (_&_&_&_&_&H); exact H.
  - destruct Hs as (_&_&H&_); exact H. - destruct Hs as (_&_&_&H); exact H.
Qed.

(** (2) the reported anomalies are a valid anomaly set (any savings) *)
Theorem capaR_output_valid :
  Valid m M (map to_anom (capa_predict false c p)) n.
Proof. eapply capaR_wellformed; eauto. Qed.

(** (3) re-evaluating the reported anomalies gives exactly the final score (any savings) *)
Theorem capaR_reevaluation_gives_final_score :
  totalR PC PP (map to_anom (capa_predict false c p)) = nthR (0 :: scores) n.
Proof. eapply capaR_value_is_final_score; eauto. Qed.

(** (4) the reported anomalies maximise the total penalised saving over ALL valid sets *)
Theorem capaR_output_is_maximiser : penalties_okR -> savings_okR -> subadditiveR ->
  forall l, Valid m M l n ->
    totalR PC PP l <= totalR PC PP (map to_anom (capa_predict false c p)).
Proof.
  intros Hp Hs Hsa. eapply capaR_optimal; eauto; [lia|]. apply HsubR_from_columns; auto.
Qed.

(** (5) scores are non-negative and non-decreasing (any savings) *)
Theorem capaR_scores_nonneg_monotone :
  (forall t, (t < n)%nat -> 0 <= nthR scores t) /\
  (forall t, (S t < n)%nat -> nthR scores t <= nthR scores (S t)).
Proof. split; [eapply capaR_scores_nonneg|eapply capaR_scores_monotone]; eauto. Qed.

(** (6) ignore_point_anomalies drops exactly the point anomalies *)
Theorem capaR_ignore_point_anomalies :
  capa_predict true c p = filter (fun se => negb (is_point se)) (capa_predict false c p).
Proof. eapply capaR_ignore_points; eauto. Qed.
End MainR.

(* ================================================================== *)
(** * Part D: embedding -- the real model on integer savings / penalties is the image
      of the executable model                                            *)
(* ================================================================== *)

Lemma Reqb_IZR x y : Reqb (IZR x) (IZR y) = (x =? y)%Z.
Proof.
  destruct (x =? y)%Z eqn:E.
  - apply Reqb_true. apply Z.eqb_eq in E. now subst.
  - apply Z.eqb_neq in E. unfold Reqb. destruct (Req_EM_T (IZR x) (IZR y)) as [H|H]; [|reflexivity].
    apply eq_IZR in H. contradiction.
Qed.

Lemma Rmax_IZR x y : Rmax (IZR x) (IZR y) = IZR (Z.max x y).
Proof.
  destruct (Z.max_spec x y) as [[H ->]|[H ->]].
  - apply Rmax_right. apply IZR_le. lia.
  - apply Rmax_left. apply IZR_le. lia.
Qed.

Lemma sumR_IZR l : sumR (map IZR l) = IZR (sumZ l).
Proof. induction l as [|x t IH]; cbn [map sumR sumZ]; [reflexivity|]. now rewrite IH, plus_IZR. Qed.

Lemma hd_IZR l : hd 0 (map IZR l) = IZR (hd 0%Z l).
Proof. destruct l; reflexivity. Qed.

Lemma insert_descR_IZR x l : insert_descR (IZR x) (map IZR l) = map IZR (insert_desc x l).
Proof.
  induction l as [|y t IH]; cbn [map insert_descR insert_desc]; [reflexivity|].
  rewrite Rltb_IZR. destruct (y <? x)%Z; cbn [map]; [reflexivity|]. now rewrite IH.
Qed.

Lemma sort_descR_IZR l : sort_descR (map IZR l) = map IZR (sort_desc l).
Proof.
  induction l as [|x t IH]; cbn [map sort_descR sort_desc]; [reflexivity|].
  now rewrite IH, insert_descR_IZR.
Qed.

Lemma cumsumR_from_IZR l : forall acc,
  cumsumR_from (IZR acc) (map IZR l) = map IZR (cumsum_from acc l).
Proof.
  induction l as [|x t IH]; intros acc; cbn [map cumsumR_from cumsum_from]; [reflexivity|].
  rewrite <- plus_IZR. now rewrite IH.
Qed.

Lemma cumsumR_IZR l : cumsumR (map IZR l) = map IZR (cumsum l).
Proof. exact (cumsumR_from_IZR l 0%Z). Qed.

Lemma sub_listsR_IZR : forall a b, sub_listsR (map IZR a) (map IZR b) = map IZR (sub_lists a b).
Proof.
  induction a as [|x a IH]; intros b; [reflexivity|].
  destruct b as [|y b]; [reflexivity|].
  cbn [map]. rewrite sub_listsR_cons, sub_lists_cons. cbn [map]. now rewrite IH, minus_IZR.
Qed.

Lemma forallb_map {A B} (f : B -> bool) (g : A -> B) l : forallb f (map g l) = forallb (fun x => f (g x)) l.
Proof. induction l as [|x t IH]; cbn [map forallb]; [reflexivity|]. now rewrite IH. Qed.

Lemma forallb_ext_all {A} (f g : A -> bool) l : (forall x, f x = g x) -> forallb f l = forallb g l.
Proof. intros H. induction l as [|x t IH]; cbn [forallb]; [reflexivity|]. now rewrite H, IH. Qed.

Lemma all_tinyR_IZR l : all_tinyR (map IZR l) = all_tiny l.
Proof.
  unfold all_tinyR, all_tiny. rewrite forallb_map. apply forallb_ext_all. intros b.
  apply (Rleb_IZR b 0).
Qed.

Lemma all_equalR_IZR l : all_equalR (map IZR l) = all_equal l.
Proof.
  destruct l as [|b0 t]; [reflexivity|].
  change (all_equalR (map IZR (b0 :: t)))
    with (forallb (fun b => Reqb b (IZR b0)) (map IZR (b0 :: t))).
  change (all_equal (b0 :: t)) with (forallb (fun b => (b =? b0)%Z) (b0 :: t)).
  rewrite forallb_map. apply forallb_ext_all. intros b. apply Reqb_IZR.
Qed.

Lemma argmaxR_from_IZR l : forall bi b i,
  argmaxR_from bi (IZR b) i (map IZR l) = liftp (argmax_from bi b i l).
Proof.
  induction l as [|x t IH]; intros bi b i; cbn [map argmaxR_from argmax_from]; [reflexivity|].
  rewrite Rltb_IZR. destruct (b <? x)%Z; apply IH.
Qed.

Lemma argmaxR_IZR l : argmaxR (map IZR l) = option_map liftp (argmax l).
Proof.
  destruct l as [|x t]; cbn [map argmaxR argmax option_map]; [reflexivity|].
  now rewrite argmaxR_from_IZR.
Qed.

(** penalise_savings commutes with the injection of Z into R *)
Theorem penaliseR_IZR sav alpha betas :
  penaliseR (map IZR sav) (IZR alpha) (map IZR betas) = IZR (penalise sav alpha betas).
Proof.
  unfold penaliseR, penalise. rewrite all_tinyR_IZR, all_equalR_IZR.
  destruct (all_tiny betas).
  - now rewrite sumR_IZR, minus_IZR.
  - destruct (all_equal betas).
    + rewrite hd_IZR, map_map.
      rewrite (map_ext _ (fun s => IZR (Z.max (s - hd 0%Z betas) 0))).
      * rewrite <- (map_map (fun s => Z.max (s - hd 0%Z betas) 0) IZR), sumR_IZR, minus_IZR.
        reflexivity.
      * intros s. rewrite <- minus_IZR. apply (Rmax_IZR (s - hd 0%Z betas) 0).
    + rewrite sort_descR_IZR, sub_listsR_IZR, cumsumR_IZR, map_map.
      rewrite (map_ext _ (fun c => IZR (c - alpha))) by (intros c; now rewrite minus_IZR).
      rewrite <- (map_map (fun c => (c - alpha)%Z) IZR), argmaxR_IZR.
      destruct (argmax (map (fun c => (c - alpha)%Z) (cumsum (sub_lists (sort_desc sav) betas))))
        as [[i v]|]; reflexivity.
Qed.

(** the simulation relation is a function: lift an integer state *)
Definition liftC (s : st) : stC :=
  {| optC := map IZR (opt s); astartC := astart s; startsC := starts s; pendingC := pending s |}.

Lemma lowfilter_IZR (l1 : list nat) (k z : Z) : forall cz : list Z,
  map fst (filter (fun ac0 : nat * R => Rltb (snd ac0 + IZR k) (IZR z)) (combine l1 (map IZR cz)))
  = map fst (filter (fun ac0 : nat * Z => (snd ac0 + k <? z)%Z) (combine l1 cz)).
Proof.
  induction l1 as [|a l1 IH]; intros cz; [reflexivity|].
  destruct cz as [|c0 cz]; [reflexivity|].
  cbn [map combine filter snd]. rewrite <- plus_IZR, Rltb_IZR.
  destruct (c0 + k <? z)%Z; cbn [map fst]; now rewrite IH.
Qed.

Section EmbedC.
Variable Sc : nat -> nat -> list Z.
Variable Sp : nat -> list Z.
Variables (ac : Z) (bc : list Z) (ap : Z) (bp : list Z).
Variables (m M delay : nat).

Notation ScR := (fun s e : nat => map IZR (Sc s e)).
Notation SpR := (fun t : nat => map IZR (Sp t)).

Lemma PcR_of_Z a T : PcR ScR (IZR ac) (map IZR bc) a T = IZR (Pc Sc ac bc a T).
Proof. unfold PcR, Pc. apply penaliseR_IZR. Qed.
Lemma PpR_of_Z t : PpR SpR (IZR ap) (map IZR bp) t = IZR (Pp Sp ap bp t).
Proof. unfold PpR, Pp. apply penaliseR_IZR. Qed.

Lemma starts1C_of_Z s t : starts1C m (liftC s) t = starts1 m s t.
Proof. reflexivity. Qed.

Lemma candsC_of_Z s t :
  candsC ScR (IZR ac) (map IZR bc) m (liftC s) t = map IZR (cands Sc ac bc m s t).
Proof.
  unfold candsC, cands. rewrite starts1C_of_Z, map_map. apply map_ext. intros a.
  cbn [liftC optC]. now rewrite nthR_map_IZR, PcR_of_Z, <- plus_IZR.
Qed.

Lemma chooseC_of_Z s t :
  chooseC ScR SpR (IZR ac) (map IZR bc) (IZR ap) (map IZR bp) m (liftC s) t
  = (fst (choose Sc Sp ac bc ap bp m s t), IZR (snd (choose Sc Sp ac bc ap bp m s t))).
Proof.
  unfold chooseC, choose. cbv zeta. rewrite candsC_of_Z, argmaxR_IZR, starts1C_of_Z.
  cbn [liftC optC]. rewrite nthR_map_IZR, PpR_of_Z, <- plus_IZR.
  destruct (argmax (cands Sc ac bc m s t)) as [[i oc]|]; cbn [option_map liftp fst snd];
    repeat rewrite Rltb_IZR;
    repeat match goal with |- context [(?a <? ?b)%Z] => destruct (a <? b)%Z end;
    reflexivity.
Qed.

Lemma lowC_of_Z s t best :
  lowC ScR (IZR ac) (map IZR bc) m (liftC s) t (IZR best) = low Sc ac bc m s t best.
Proof.
  unfold lowC, low. rewrite candsC_of_Z, starts1C_of_Z, sumR_IZR, <- plus_IZR.
  apply lowfilter_IZR.
Qed.

Lemma stepC_of_Z s t :
  stepC ScR SpR (IZR ac) (map IZR bc) (IZR ap) (map IZR bp) m M delay (liftC s) t
  = liftC (step Sc Sp ac bc ap bp m M delay s t).
Proof.
  rewrite stepC_eq, step_eq, chooseC_of_Z.
  destruct (choose Sc Sp ac bc ap bp m s t) as [choice best]. cbn [fst snd].
  rewrite lowC_of_Z.
  change (poppedC delay (liftC s) (low Sc ac bc m s t best))
    with (popped delay s (low Sc ac bc m s t best)).
  destruct (popped delay s (low Sc ac bc m s t best)) as [now pend'].
  unfold liftC. cbn [opt astart starts pending optC astartC].
  rewrite (map_app IZR (opt s) [best]). reflexivity.
Qed.

Lemma runC_of_Z n :
  runC ScR SpR (IZR ac) (map IZR bc) (IZR ap) (map IZR bp) m M delay n
  = liftC (run Sc Sp ac bc ap bp m M delay n).
Proof.
  unfold runC, run.
  change (initC) with (liftC init).
  apply fold_left_sim. exact stepC_of_Z.
Qed.
End EmbedC.

Theorem capaR_of_Z : forall (Sc : nat -> nat -> list Z) (Sp : nat -> list Z)
    (ac : Z) (bc : list Z) (ap : Z) (bp : list Z) (m M d n : nat)
    (scores : list Z) (c p : list (nat * nat)),
  capa Sc Sp ac bc ap bp m M d n = (scores, c, p) ->
  capaR (fun s e => map IZR (Sc s e)) (fun t => map IZR (Sp t))
        (IZR ac) (map IZR bc) (IZR ap) (map IZR bp) m M d n
  = (map IZR scores, c, p).
Proof.
  intros Sc Sp ac bc ap bp m M d n scores c p H.
  unfold capaR, capa in *. cbv zeta in *. rewrite runC_of_Z.
  cbn [liftC optC astartC].
  destruct (get_anoms n (astart (run Sc Sp ac bc ap bp m M d n)) n) as [c' p'].
  inversion H; subst. now rewrite tl_map.
Qed.

(** the specification objects commute with the injection as well *)
Lemma maxlR_IZR l : forall d, maxlR (IZR d) (map IZR l) = IZR (maxl d l).
Proof.
  unfold maxlR, maxl. induction l as [|a l IH]; intros d; cbn [map fold_left]; [reflexivity|].
  rewrite Rmax_IZR. apply IH.
Qed.

Lemma GRtab_of_Z (pc : nat -> nat -> Z) (pp : nat -> Z) m M t :
  GRtab (fun s e => IZR (pc s e)) (fun t => IZR (pp t)) m M t = map IZR (Gtab pc pp m M t).
Proof.
  induction t as [|t IH]; [reflexivity|].
  cbn [GRtab Gtab]. rewrite IH, map_app. cbn [map]. f_equal. f_equal.
  unfold gnextR, gnext. cbv zeta. rewrite nthR_map_IZR, <- plus_IZR, Rmax_IZR.
  rewrite <- maxlR_IZR. f_equal. rewrite map_map. apply map_ext. intros s.
  now rewrite nthR_map_IZR, <- plus_IZR.
Qed.

Theorem GR_of_Z (pc : nat -> nat -> Z) (pp : nat -> Z) m M T :
  GR (fun s e => IZR (pc s e)) (fun t => IZR (pp t)) m M T = IZR (G pc pp m M T).
Proof. unfold GR, G. rewrite GRtab_of_Z. apply nthR_map_IZR. Qed.

Theorem totalR_of_Z (pc : nat -> nat -> Z) (pp : nat -> Z) l :
  totalR (fun s e => IZR (pc s e)) (fun t => IZR (pp t)) l = IZR (value pc pp l).
Proof.
  unfold totalR, value. induction l as [|a l IH]; cbn [map sumR sumZ]; [reflexivity|].
  rewrite IH, plus_IZR. destruct a; reflexivity.
Qed.

(* ================================================================== *)
(** * Part E: end to end -- the built-in L2 saving, any number of columns   *)
(* ================================================================== *)

(** the saving kernel is non-negative on EVERY pair of indices: for an empty or reversed
    interval the code's division by the length 0 is [x * / 0 = 0] in Coq's reals *)
Lemma l2_saving_nonneg_all S1 s e : 0 <= l2_saving_R S1 s e.
Proof.
  destruct (lt_dec s e) as [H|H]; [now apply l2_saving_nonneg|].
  unfold l2_saving_R. replace (e - s)%nat with 0%nat by lia. cbn [INR].
  unfold Rdiv. rewrite Rinv_0. lra.
Qed.

Section L2Columns.
Variable xss : list (list R).       (* the columns of the data *)

(** what collective_saving.evaluate / point_saving.evaluate return for one interval:
    one L2 saving per column, computed from the column's prefix sums *)
Definition l2Sc (s e : nat) : list R := map (fun xs => l2_saving_R (prefix xs) s e) xss.
Definition l2Sp (t : nat) : list R := map (fun xs => l2_saving_R (prefix xs) t (S t)) xss.

Lemma l2Sc_length s e : length (l2Sc s e) = length xss.
Proof. apply map_length. Qed.
Lemma l2Sp_length t : length (l2Sp t) = length xss.
Proof. apply map_length. Qed.

Lemma l2Sc_nonneg s e x : In x (l2Sc s e) -> 0 <= x.
Proof. intros H. apply in_map_iff in H as (xs & <- & _). apply l2_saving_nonneg_all. Qed.
Lemma l2Sp_nonneg t x : In x (l2Sp t) -> 0 <= x.
Proof. intros H. apply in_map_iff in H as (xs & <- & _). apply l2_saving_nonneg_all. Qed.

Lemma l2Sc_nth s e j : (j < length xss)%nat ->
  nthR (l2Sc s e) j = l2_saving_R (prefix (nth j xss [])) s e.
Proof.
  intros H. unfold nthR, l2Sc.
  rewrite (nth_indep _ 0 (l2_saving_R (prefix []) s e)) by (rewrite map_length; exact H).
  apply (map_nth (fun xs => l2_saving_R (prefix xs) s e)).
Qed.

Lemma l2Sc_subadditive m s k e j : (1 <= m)%nat -> (s + m <= k)%nat -> (k + m <= e)%nat ->
  (j < length xss)%nat ->
  nthR (l2Sc s e) j <= nthR (l2Sc s k) j + nthR (l2Sc k e) j.
Proof.
  intros Hm H1 H2 Hj. rewrite !l2Sc_nth by exact Hj. apply l2_saving_subadditive; lia.
Qed.

Variables (ac : R) (bc : list R) (ap : R) (bp : list R).
Variables (m M n : nat).

(** CAPA / MVCAPA run on the per-column L2 savings of ANY data [xss] (p >= 1 columns),
    with one non-negative penalty component per column: the reported anomalies are a
    valid anomaly set, re-evaluating them gives the final score, every score is the
    optimum for its prefix, and no valid anomaly set has a larger total penalised saving.
    No hypothesis about the savings is left. *)
Theorem capa_l2_end_to_end (scores : list R) (c p : list (nat * nat)) :
  (2 <= m)%nat -> (m <= M)%nat -> (1 <= length xss)%nat ->
  length bc = length xss -> length bp = length xss ->
  0 <= ac -> 0 <= ap -> (forall b, In b bc -> 0 <= b) -> (forall b, In b bp -> 0 <= b) ->
  capaR l2Sc l2Sp ac bc ap bp m M (m - 1) n = (scores, c, p) ->
  let PC := PcR l2Sc ac bc in
  let PP := PpR l2Sp ap bp in
  let out := map to_anom (capa_predict false c p) in
  Valid m M out n /\
  totalR PC PP out = nthR (0 :: scores) n /\
  (forall l, Valid m M l n -> totalR PC PP l <= totalR PC PP out) /\
  (forall t, (t < n)%nat ->
     nthR scores t = GR (fun s e => PbestR (l2Sc s e) ac bc) (fun t => PbestR (l2Sp t) ap bp) m M (S t)).
Proof.
  intros Hm HM Hp Hlc Hlp Hac Hap Hbc Hbp Hrun PC PP out.
  assert (HPen : penalties_okR ac bc ap bp) by (unfold penalties_okR; repeat split; auto; lia).
  assert (HSav : savings_okR l2Sc l2Sp bc bp).
  { unfold savings_okR. repeat split.
    - intros s e. now rewrite l2Sc_length.
    - intros t. now rewrite l2Sp_length.
    - apply l2Sc_nonneg.
    - apply l2Sp_nonneg. }
  assert (HSub : subadditiveR l2Sc bc m M).
  { intros s k e j H1 H2 _ Hj. apply (l2Sc_subadditive m); [lia|exact H1|exact H2|].
    rewrite <- Hlc. exact Hj. }
  split; [|split; [|split]].
  - exact (capaR_output_valid l2Sc l2Sp ac bc ap bp m M n Hm HM scores c p Hrun).
  - exact (capaR_reevaluation_gives_final_score l2Sc l2Sp ac bc ap bp m M n Hm HM scores c p Hrun).
  - exact (capaR_output_is_maximiser l2Sc l2Sp ac bc ap bp m M n Hm HM scores c p Hrun HPen HSav HSub).
  - exact (capaR_scores_are_prefix_optima l2Sc l2Sp ac bc ap bp m M n Hm HM scores c p Hrun HPen HSav HSub).
Qed.
End L2Columns.

(* ================================================================== *)
(** * Part F: non-vacuity -- a concrete integer instance, computed on the executable side *)
(* ================================================================== *)

(** two columns, two candidate levels each, ten observations; the saving of a
    column on [s,e) is [lsav] of Proofs/CapaDP.v (loss at the baseline level minus the
    smallest summed loss), which is non-negative and sub-additive.  Penalties with
    distinct components, so that the general sort-and-cumulate branch runs. *)
Definition ex_la : list (list Z) :=
  [[0;3];[1;2];[4;0];[5;0];[3;1];[0;2];[0;6];[9;0];[0;4];[1;3]]%Z.
Definition ex_lb : list (list Z) :=
  [[0;1];[0;2];[3;0];[2;0];[4;0];[1;1];[0;3];[0;0];[0;5];[0;2]]%Z.
Definition exSc (s e : nat) : list Z := [lsav ex_la 1 s e; lsav ex_lb 1 s e].
Definition exSp (t : nat) : list Z := [lsav ex_la 1 t (S t); lsav ex_lb 1 t (S t)].

Lemma ex_capa_Z :
  capa exSc exSp 1 [1; 2]%Z 3 [1; 2]%Z 2 5 1 10
  = ([0; 0; 1; 10; 16; 16; 16; 21; 21; 21]%Z, [(2, 5)]%nat, [(7, 8)]%nat).
Proof. vm_compute. reflexivity. Qed.

Notation exScR := (fun s e : nat => map IZR (exSc s e)).
Notation exSpR := (fun t : nat => map IZR (exSp t)).

(** the real model on that instance, through the embedding: one collective anomaly
    [2,5) and one point anomaly at 7 *)
Example capaR_of_Z_example :
  capaR exScR exSpR 1 (map IZR [1; 2]%Z) 3 (map IZR [1; 2]%Z) 2 5 1 10
  = (map IZR [0; 0; 1; 10; 16; 16; 16; 21; 21; 21]%Z, [(2, 5)]%nat, [(7, 8)]%nat).
Proof. exact (capaR_of_Z exSc exSp 1 [1; 2]%Z 3 [1; 2]%Z 2 5 1 10 _ _ _ ex_capa_Z). Qed.

Lemma minover_le_0 (f : nat -> Z) q : (minover f q <= f 0%nat)%Z.
Proof. induction q as [|q IH]; cbn [minover]; lia. Qed.

Lemma lsav_nonneg loss Q s e : (0 <= lsav loss Q s e)%Z.
Proof.
  unfold lsav. pose proof (minover_le_0 (fun th => segsum loss th s e) Q) as H. cbv beta in H. lia.
Qed.

(** the hypotheses of the real optimality theorem are satisfiable and its conclusion is
    the expected one on that instance: no valid anomaly set has a total penalised saving
    above 21, and the reported set {[2,5), point 7} attains it *)
Example capaR_optimal_example :
  let PC := PcR exScR 1 (map IZR [1; 2]%Z) in
  let PP := PpR exSpR 3 (map IZR [1; 2]%Z) in
  totalR PC PP [Coll 2 5; Pt 7] = 21 /\
  forall l, Valid 2 5 l 10 -> totalR PC PP l <= 21.
Proof.
  intros PC PP.
  assert (Hpen : penalties_okR 1 (map IZR [1; 2]%Z) 3 (map IZR [1; 2]%Z)).
  { unfold penalties_okR. cbn [map length In]. repeat split; try lia; try lra;
      intros b [<-|[<-|[]]]; lra. }
  assert (Hsav : savings_okR exScR exSpR (map IZR [1; 2]%Z) (map IZR [1; 2]%Z)).
  { unfold savings_okR. repeat split.
    - intros s e x Hx. apply in_map_iff in Hx as (z & <- & Hz). apply IZR_le.
      destruct Hz as [<-|[<-|[]]]; apply lsav_nonneg.
    - intros t x Hx. apply in_map_iff in Hx as (z & <- & Hz). apply IZR_le.
      destruct Hz as [<-|[<-|[]]]; apply lsav_nonneg. }
  assert (Hsub : subadditiveR exScR (map IZR [1; 2]%Z) 2 5).
  { intros s k e j H1 H2 _ Hj. rewrite !nthR_map_IZR, <- plus_IZR. apply IZR_le.
    cbn [map length] in Hj. unfold exSc, nthZ.
    destruct j as [|[|j]]; [| |lia]; cbn [nth]; apply lsav_subadd; lia. }
  pose proof (capaR_reevaluation_gives_final_score exScR exSpR 1 (map IZR [1; 2]%Z) 3
                (map IZR [1; 2]%Z) 2 5 10 ltac:(lia) ltac:(lia) _ _ _ capaR_of_Z_example) as Hval.
  pose proof (capaR_output_is_maximiser exScR exSpR 1 (map IZR [1; 2]%Z) 3
                (map IZR [1; 2]%Z) 2 5 10 ltac:(lia) ltac:(lia) _ _ _ capaR_of_Z_example
                Hpen Hsav Hsub) as Hopt.
  assert (Hout : map to_anom (capa_predict false [(2, 5)]%nat [(7, 8)]%nat) = [Coll 2 5; Pt 7])
    by reflexivity.
  rewrite Hout in Hval, Hopt. fold PC PP in Hval, Hopt.
  assert (Hfin : nthR (0 :: map IZR [0; 0; 1; 10; 16; 16; 16; 21; 21; 21]%Z) 10 = 21) by reflexivity.
  rewrite Hfin in Hval. split; [exact Hval|].
  intros l Hl. rewrite <- Hval. now apply Hopt.
Qed.

(* ------------------------------------------------------------------ *)
Print Assumptions PbestR_upper.
Print Assumptions PbestR_attained.
Print Assumptions penaliseR_eq_Pbest.
Print Assumptions penaliseR_spec.
Print Assumptions penaliseR_subadditive.
Print Assumptions GR_upper.
Print Assumptions GR_attained.
Print Assumptions GR_penalise_eq_Pbest.
Print Assumptions capaR_scores_are_prefix_optima.
Print Assumptions capaR_output_valid.
Print Assumptions capaR_reevaluation_gives_final_score.
Print Assumptions capaR_output_is_maximiser.
Print Assumptions capaR_scores_nonneg_monotone.
Print Assumptions capaR_ignore_point_anomalies.
Print Assumptions penaliseR_IZR.
Print Assumptions capaR_of_Z.
Print Assumptions GR_of_Z.
Print Assumptions capa_l2_end_to_end.
Print Assumptions capaR_of_Z_example.
Print Assumptions capaR_optimal_example.
