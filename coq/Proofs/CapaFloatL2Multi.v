(** END TO END in binary64: CAPA with the L2 saving on SEVERAL columns, every beta negligible
    (what the CAPA class uses: betas = zeros(p); every beta passes the code's "beta < 1e-8" test
    [F64_tiny]).

    Data [ls : list (list float)] (p = length ls columns, every column of length n), penalties
    [acf] / [apf], betas [repeat 0 p], minimum / maximum segment length [m] / [M], pruning delay
    m - 1.  The float savings of an interval are the ROW
        l2ScFM ls s e = map (fun l => l2_saving_F l s e) ls,
        l2SpFM ls t   = map (fun l => l2_saving_F l t (S t)) ls
    and skchange's penalise_savings adds the row with  savings.sum(axis=1):  for fewer than 8
    columns NumPy adds sequentially from the left starting from the first element,
        ((x0 + x1) + x2) + ...          (one rounding per addition; ONE column: the value itself)
    which IS [gsum F64] of Model/GenericCapa.v (and [aggF] of Proofs/PeltFloatL2Multi.v, lemma
    [gsum_F64_is_aggF]).

    FLOAT SHAPE of the penalised saving (lemma [penalise_l2_multi_shape], all betas 0):
        gpenalise F64 F64_tiny sav alpha (repeat 0 p)  =  gsum F64 sav + (- alpha)
    The prune constant is  Kf = alpha + gsum (repeat 0 p) = alpha + 0  ([Kf_multi_shape]), whose real
    value is exactly FR alpha.

    Boolean, [vm_compute]-able premises:
      - [cols_length_ok ls n]               every column has n observations;
      - [l2_saving_all_trace_ok_cols ls]    every column, every saving a < T <= n passes the trace
                                            checker [l2_saving_trace_ok] of Proofs/FloatSaving.v;
      - [capa_trace_finite ..]              every float the CAPA run stores or compares is finite;
      - [capa_mag_ok .. Magf]               every ROUNDED sum the run forms is <= Magf in magnitude;
      - [sav_agg_mag_ok ls n Magf]          every per-column saving and every ROUNDED partial sum of
                                            the row sum, a < T <= n, is finite and at most [Magf]
                                            in magnitude ([agg_ok] of Proofs/PeltFloatL2Multi.v);
      - [l2_absmax_ok_cols ls Bf]           every observation is finite and |x| <= Bf.

    TRUE penalised savings (on the real values of the data):
        pc s e = (sum over the columns l of l2_saving_R (prefix (map FR l)) s e) - FR acf,
        pp t   = (sum over the columns l of l2_saving_R (prefix (map FR l)) t (S t)) - FR apf
    ([l2_multi_pc_is_PcR]: these are [PcR] / [PpR] of Proofs/CapaReal.v on the columns
    [map (map FR) ls] with betas [repeat 0 p], the objective of [capa_l2_end_to_end]).

    Conclusions ([capa_F64_l2_multi_end_to_end], [capa_F64_l2_multi_final_score]): the anomalies
    reported by the binary64 run are a valid anomaly set whose total TRUE penalised saving is within
        3 n (p delta + (p + 1) u53 Mag),
        delta = (4.2 n + 5) u53 (n FR Bf)^2,   Mag = FR Magf / (1 - u53)
    of that of ANY valid anomaly set, and the reported final score is within
    n (p delta + (p + 1) u53 Mag) of the total true penalised saving of the reported anomalies.
    For p = 1 this is the bound of Proofs/CapaFloatL2.v. *)
From Coq Require Import Reals Lra Lia List Arith ZArith Bool Floats.
From Flocq Require Import Core BinarySingleNaN.
From Flocq Require IEEE754.PrimFloat.
From SK Require Import Lib.Base Model.Capa Proofs.CapaSpec Model.PeltR Proofs.RealLib Model.CapaR
                       Proofs.CapaReal Model.CapaA Proofs.CapaApprox
                       Model.Generic Model.GenericCapa Model.GenericF Proofs.GenericCapaWf
                       Gen.KernelsR Proofs.ScoreKernels
                       Proofs.FloatError Proofs.FloatRefine Proofs.CapaFloat
                       Check.FloatKernelCheck Check.FloatSavingCheck Proofs.FloatSaving
                       Proofs.PeltFloatL2 Proofs.PeltFloatL2Multi Proofs.CapaFloatL2.
Import ListNotations.
Local Open Scope R_scope.

Notation FR := FloatRefine.FR.
Notation float := PrimFloat.float (only parsing).

(* ------------------------------------------------------------------------- *)
(** * 1. The saving rows, the betas, and the float shape                       *)
(* ------------------------------------------------------------------------- *)

Definition l2ScFM (ls : list (list float)) (s e : nat) : list float :=
  map (fun l => l2_saving_F l s e) ls.
Definition l2SpFM (ls : list (list float)) (t : nat) : list float :=
  map (fun l => l2_saving_F l t (S t)) ls.

(** the model's row sum at binary64 IS the left fold of Proofs/PeltFloatL2Multi.v *)
Lemma gsum_F64_is_aggF (cs : list float) : gsum F64 cs = aggF cs.
Proof. reflexivity. Qed.

Lemma F64_tiny_zero : F64_tiny 0%float = true.
Proof. vm_compute. reflexivity. Qed.

Lemma gall_tiny_zeros (p : nat) : gall_tiny F64 F64_tiny (repeat 0%float p) = true.
Proof.
  unfold gall_tiny. induction p as [|p IH]; cbn [repeat forallb]; [reflexivity|].
  rewrite F64_tiny_zero, IH. reflexivity.
Qed.

(** the float shape: (row sum, left fold) + (- alpha) *)
Lemma penalise_l2_multi_shape (sav : list float) (alpha : float) (p : nat) :
  gpenalise F64 F64_tiny sav alpha (repeat 0%float p) = (gsum F64 sav + - alpha)%float.
Proof. unfold gpenalise. rewrite gall_tiny_zeros. reflexivity. Qed.

Lemma PcF_multi_shape ls acf p a T :
  PcF F64_tiny (l2ScFM ls) acf (repeat 0%float p) a T
  = (gsum F64 (map (fun l => l2_saving_F l a T) ls) + - acf)%float.
Proof. unfold PcF, gPc. apply penalise_l2_multi_shape. Qed.

Lemma PpF_multi_shape ls apf p t :
  PpF F64_tiny (l2SpFM ls) apf (repeat 0%float p) t
  = (gsum F64 (map (fun l => l2_saving_F l t (S t)) ls) + - apf)%float.
Proof. unfold PpF, gPp. apply penalise_l2_multi_shape. Qed.

(** the sum of the betas is the float 0 *)
Lemma fold_zeros (k : nat) : fold_left PrimFloat.add (repeat 0%float k) 0%float = 0%float.
Proof.
  induction k as [|k IH]; cbn [repeat fold_left]; [reflexivity|].
  change (0 + 0)%float with 0%float. exact IH.
Qed.

Lemma gsum_zeros (p : nat) : gsum F64 (repeat 0%float p) = 0%float.
Proof. destruct p as [|p]; [reflexivity|]. cbn [repeat gsum]. apply fold_zeros. Qed.

Lemma Kf_multi_shape acf p : Kf acf (repeat 0%float p) = (acf + 0)%float.
Proof. unfold Kf. rewrite gsum_zeros. reflexivity. Qed.

(** the real value of the prune constant is exactly FR alpha *)
Lemma Kf_multi_value acf p :
  finF (Kf acf (repeat 0%float p)) = true -> FR (Kf acf (repeat 0%float p)) = FR acf.
Proof.
  rewrite Kf_multi_shape. intros H.
  apply finF_add_inv in H as [Ha _]. exact (proj2 (add_zero_r acf Ha)).
Qed.

(* ------------------------------------------------------------------------- *)
(** * 2. Boolean premises on the columns                                        *)
(* ------------------------------------------------------------------------- *)

Definition l2_saving_all_trace_ok_cols (ls : list (list float)) : bool :=
  forallb l2_saving_all_trace_ok ls.

(** every per-column saving and every rounded partial sum of the row sum, for every a < T <= n,
    is finite and (the partial sums) at most [Magf] in magnitude; the point savings are the
    rows (t, t + 1) *)
Definition sav_agg_mag_ok (ls : list (list float)) (n : nat) (Magf : float) : bool :=
  finF Magf &&
  forallb (fun T =>
      forallb (fun a => agg_ok Magf (map (fun l => l2_saving_F l a T) ls)) (seq 0 T))
    (seq 0 (S n)).

Lemma sav_agg_mag_ok_spec ls n Magf :
  sav_agg_mag_ok ls n Magf = true ->
  finF Magf = true /\
  forall a T, (a < T <= n)%nat -> agg_ok Magf (map (fun l => l2_saving_F l a T) ls) = true.
Proof.
  unfold sav_agg_mag_ok. intros H. apply andb_prop in H as [H1 H2]. split; [exact H1|].
  intros a T HaT. rewrite forallb_forall in H2. specialize (H2 T). rewrite in_seq in H2.
  specialize (H2 ltac:(lia)). rewrite forallb_forall in H2. apply H2. rewrite in_seq. lia.
Qed.

(* ------------------------------------------------------------------------- *)
(** * 3. The true objective: the column sum of the L2 savings                   *)
(* ------------------------------------------------------------------------- *)

(** the exact row sum of the true savings *)
Definition savM (ls : list (list float)) (s e : nat) : R :=
  sumRl (map (fun l => l2_saving_R (prefix (map FR l)) s e) ls).

Lemma sumR_sumRl (rs : list R) : sumR rs = sumRl rs.
Proof. induction rs as [|r rs IH]; cbn [sumR sumRl fold_right]; [reflexivity|]. now rewrite IH. Qed.

Lemma all_tinyR_zeros (p : nat) : all_tinyR (repeat 0 p) = true.
Proof.
  unfold all_tinyR. induction p as [|p IH]; cbn [repeat forallb]; [reflexivity|].
  rewrite IH. unfold Rleb. destruct (Rle_dec 0 0) as [_|H]; [reflexivity|exfalso; lra].
Qed.

(** the true penalised savings are those of the real-number model of CAPA (Proofs/CapaReal.v) on
    the columns [map (map FR) ls] with betas [repeat 0 p] *)
Lemma l2_multi_pc_is_PcR (ls : list (list float)) (alpha : R) (p : nat) s e :
  PcR (l2Sc (map (map FR) ls)) alpha (repeat 0 p) s e = savM ls s e - alpha.
Proof.
  unfold PcR, penaliseR. rewrite all_tinyR_zeros, sumR_sumRl. unfold l2Sc, savM.
  now rewrite map_map.
Qed.

Lemma l2_multi_pp_is_PpR (ls : list (list float)) (alpha : R) (p : nat) t :
  PpR (l2Sp (map (map FR) ls)) alpha (repeat 0 p) t = savM ls t (S t) - alpha.
Proof.
  unfold PpR, penaliseR. rewrite all_tinyR_zeros, sumR_sumRl. unfold l2Sp, savM.
  now rewrite map_map.
Qed.

(** sub-additivity of the row sum, from the per-column one *)
Lemma savM_subadditive (ls : list (list float)) s k e : (s < k)%nat -> (k < e)%nat ->
  savM ls s e <= savM ls s k + savM ls k e.
Proof.
  intros H1 H2. unfold savM.
  induction ls as [|l ls IH]; cbn [map sumRl fold_right]; [lra|].
  fold (sumRl (map (fun l0 => l2_saving_R (prefix (map FR l0)) s e) ls)).
  fold (sumRl (map (fun l0 => l2_saving_R (prefix (map FR l0)) s k) ls)).
  fold (sumRl (map (fun l0 => l2_saving_R (prefix (map FR l0)) k e) ls)).
  pose proof (l2_saving_subadditive (prefix (map FR l)) s k e H1 H2). lra.
Qed.

(** the sub-additivity hypothesis of the CAPA theorem with K = alpha (1 <= m suffices) *)
Lemma l2_multi_pc_subadditive (ls : list (list float)) (alpha : R) (m : nat) :
  (1 <= m)%nat ->
  forall s k e, (s + m <= k)%nat -> (k + m <= e)%nat ->
    savM ls s e - alpha <= (savM ls s k - alpha) + alpha + (savM ls k e - alpha).
Proof.
  intros Hm s k e H1 H2.
  pose proof (savM_subadditive ls s k e ltac:(lia) ltac:(lia)). lra.
Qed.

(* ------------------------------------------------------------------------- *)
(** * 4. The error of the row sum and of the penalised saving                   *)
(* ------------------------------------------------------------------------- *)

(** the float row sum against the exact row sum, from a bound [dS] on every column *)
Lemma l2_row_sum_error (ls : list (list float)) (n : nat) (Magf : float) (dS : R) :
  sav_agg_mag_ok ls n Magf = true ->
  (forall l, In l ls -> forall a T, (a < T <= n)%nat ->
     Rabs (FR (l2_saving_F l a T) - l2_saving_R (prefix (map FR l)) a T) <= dS) ->
  forall a T, (a < T <= n)%nat ->
    Rabs (FR (gsum F64 (map (fun l => l2_saving_F l a T) ls)) - savM ls a T)
    <= INR (length ls) * dS + INR (length ls - 1) * u53 * (FR Magf / (1 - u53)).
Proof.
  intros Hagg HdS a T HaT.
  apply sav_agg_mag_ok_spec in Hagg as [HM Hagg].
  rewrite gsum_F64_is_aggF. unfold savM.
  pose proof (agg_error Magf dS (map (fun l => l2_saving_F l a T) ls)
                (map (fun l => l2_saving_R (prefix (map FR l)) a T) ls)
                HM (Hagg a T HaT)) as H.
  rewrite map_length in H. apply H. clear H.
  apply close_list_map. intros l Hin. now apply HdS.
Qed.

(** the per-column error of the saving table from the bound on the data *)
Lemma l2_saving_cols_error (ls : list (list float)) (n : nat) (Bf : float) :
  INR n * u53 <= 1 / 100 ->
  cols_length_ok ls n = true ->
  l2_saving_all_trace_ok_cols ls = true ->
  l2_absmax_ok_cols ls Bf = true ->
  forall l, In l ls -> forall a T, (a < T <= n)%nat ->
    Rabs (FR (l2_saving_F l a T) - l2_saving_R (prefix (map FR l)) a T)
    <= (42 / 10 * INR n + 5) * u53 * (INR n * FR Bf) ^ 2.
Proof.
  intros Hsmall Hlen Htr Habs l Hin a T HaT.
  pose proof (cols_length_ok_spec ls n Hlen l Hin) as Hn.
  unfold l2_saving_all_trace_ok_cols in Htr. rewrite forallb_forall in Htr.
  unfold l2_absmax_ok_cols in Habs. rewrite forallb_forall in Habs.
  pose proof (l2_saving_table_error l ((INR n * FR Bf) ^ 2)) as H.
  rewrite Hn in H. apply H; try assumption.
  - apply Htr; exact Hin.
  - intros a' T' Ha'. pose proof (l2_saving_scale_absmax_ok l Bf (Habs l Hin) a' T') as H'.
    rewrite Hn in H'. apply H'. exact Ha'.
Qed.

(* ------------------------------------------------------------------------- *)
(** * 5. The hypotheses of [capa_F64_near_optimal_bounds] for several columns   *)
(* ------------------------------------------------------------------------- *)

Lemma INR_pred (p : nat) : (1 <= p)%nat -> INR (p - 1) = INR p - 1.
Proof. intros Hp. rewrite minus_INR by lia. reflexivity. Qed.

(** CORE: any bound [dS >= 0] on the error of every per-column float saving *)
Section L2MultiCore.
Variable ls : list (list float).
Variables acf apf Magf : float.
Variables m M n : nat.
Variable dS : R.
Notation p := (length ls).
Notation z := (repeat 0%float (length ls)).
Notation pc := (fun s e : nat => savM ls s e - FR acf).
Notation pp := (fun t : nat => savM ls t (S t) - FR apf).
Notation Mag := (FR Magf / (1 - u53)).
Notation dP := (INR (length ls) * dS + INR (length ls - 1) * u53 * (FR Magf / (1 - u53))).

Hypothesis Hfin : capa_trace_finite F64_tiny (l2ScFM ls) (l2SpFM ls) acf apf z z m M (m - 1) n = true.
Hypothesis Hmag : capa_mag_ok F64_tiny (l2ScFM ls) (l2SpFM ls) acf apf z z m M (m - 1) n Magf = true.
Hypothesis Hagg : sav_agg_mag_ok ls n Magf = true.
Hypothesis HdS0 : 0 <= dS.
Hypothesis HdS : forall l, In l ls -> forall a T, (a < T <= n)%nat ->
  Rabs (FR (l2_saving_F l a T) - l2_saving_R (prefix (map FR l)) a T) <= dS.

(** the error of the float penalised savings: the row sum, then ONE rounding for "- alpha" *)
Lemma l2_multi_PcF_error a T : (a < T <= n)%nat ->
  Rabs (FR (PcF F64_tiny (l2ScFM ls) acf z a T) - pc a T) <= dP + u53 * Mag.
Proof.
  intros HaT. rewrite PcF_multi_shape.
  destruct (trace_finite_spec _ _ _ _ _ _ _ _ _ _ _ Hfin) as (_ & _ & Hf & _).
  destruct (capa_mag_ok_spec _ _ _ _ _ _ _ _ _ _ _ _ Hmag) as (HM & _ & Hc & _).
  destruct (Hf a T HaT) as (F1 & _). destruct (Hc a T HaT) as (C1 & _).
  rewrite PcF_multi_shape in F1, C1.
  apply l2_pen_error; try assumption.
  - exact (proj1 (finF_add_inv _ _ F1)).
  - now apply (l2_row_sum_error ls n Magf dS Hagg HdS).
Qed.

Lemma l2_multi_PpF_error t : (t < n)%nat ->
  Rabs (FR (PpF F64_tiny (l2SpFM ls) apf z t) - pp t) <= dP + u53 * Mag.
Proof.
  intros Ht. rewrite PpF_multi_shape.
  destruct (trace_finite_spec _ _ _ _ _ _ _ _ _ _ _ Hfin) as (_ & _ & _ & Hf).
  destruct (capa_mag_ok_spec _ _ _ _ _ _ _ _ _ _ _ _ Hmag) as (HM & _ & _ & Hc).
  destruct (Hf t Ht) as (F1 & _). destruct (Hc t Ht) as (C1 & _).
  rewrite PpF_multi_shape in F1, C1.
  apply l2_pen_error; try assumption.
  - exact (proj1 (finF_add_inv _ _ F1)).
  - apply (l2_row_sum_error ls n Magf dS Hagg HdS). lia.
Qed.

Lemma Mag_multi_nonneg : 0 <= Mag.
Proof. exact (capa_Mag_nonneg _ _ _ _ _ _ _ _ _ _ _ _ Hfin Hmag). Qed.

Lemma dP_nonneg : 0 <= dP.
Proof.
  pose proof Mag_multi_nonneg as H0. pose proof u53_pos as Hu.
  pose proof (pos_INR (length ls)) as H1. pose proof (pos_INR (length ls - 1)) as H2.
  assert (0 <= INR (length ls) * dS) by (apply Rmult_le_pos; assumption).
  assert (0 <= INR (length ls - 1) * u53 * Mag).
  { apply Rmult_le_pos; [apply Rmult_le_pos; lra|exact H0]. }
  lra.
Qed.

Lemma l2_multi_Kf_error : Rabs (FR (Kf acf z) - FR acf) <= dP + u53 * Mag.
Proof.
  destruct (trace_finite_spec _ _ _ _ _ _ _ _ _ _ _ Hfin) as (_ & Hk & _).
  rewrite (Kf_multi_value acf _ Hk).
  replace (FR acf - FR acf) with 0 by ring. rewrite Rabs_R0.
  pose proof Mag_multi_nonneg as H0. pose proof dP_nonneg as H1. pose proof u53_pos as Hu.
  assert (0 <= u53 * Mag) by (apply Rmult_le_pos; lra). lra.
Qed.

Lemma capa_F64_l2_multi_core scoresF c pa :
  (2 <= m)%nat -> (m <= M)%nat ->
  gcapa F64 F64_tiny (l2ScFM ls) (l2SpFM ls) acf z apf z m M (m - 1) n = (scoresF, c, pa) ->
  forall l', Valid m M l' n ->
    totalR pc pp l'
    <= totalR pc pp (map to_anom (capa_predict false c pa))
       + 3 * INR n * ((dP + u53 * Mag) + u53 * Mag).
Proof.
  intros Hm HmM HG.
  refine (capa_F64_near_optimal_bounds F64_tiny (l2ScFM ls) (l2SpFM ls) acf apf z z m M (m - 1) n
            pc pp (FR acf) (dP + u53 * Mag) Mag Hfin l2_multi_PcF_error l2_multi_PpF_error
            l2_multi_Kf_error _ _ _ _ scoresF c pa Hm HmM _ _ HG).
  - apply magc_cand; assumption.
  - apply magc_point; assumption.
  - apply magc_prune; assumption.
  - exact Mag_multi_nonneg.
  - lia.
  - intros s k e H1 H2 _. apply (l2_multi_pc_subadditive ls (FR acf) m); lia.
Qed.

Lemma capa_F64_l2_multi_core_final scoresF c pa :
  (2 <= m)%nat -> (m <= M)%nat -> (1 <= n)%nat ->
  gcapa F64 F64_tiny (l2ScFM ls) (l2SpFM ls) acf z apf z m M (m - 1) n = (scoresF, c, pa) ->
  Rabs (FR (nthV F64 scoresF (n - 1)) - totalR pc pp (map to_anom (capa_predict false c pa)))
  <= INR n * ((dP + u53 * Mag) + u53 * Mag).
Proof.
  intros Hm HmM Hn HG.
  refine (capa_F64_final_close_bounds F64_tiny (l2ScFM ls) (l2SpFM ls) acf apf z z m M (m - 1) n
            pc pp (FR acf) (dP + u53 * Mag) Mag Hfin l2_multi_PcF_error l2_multi_PpF_error
            l2_multi_Kf_error _ _ _ scoresF c pa Hm HmM HG Hn).
  - apply magc_cand; assumption.
  - apply magc_point; assumption.
  - exact Mag_multi_nonneg.
Qed.
End L2MultiCore.

(* ------------------------------------------------------------------------- *)
(** * 6. MAIN THEOREM (every premise boolean)                                   *)
(* ------------------------------------------------------------------------- *)

(** The anomalies reported by the binary64 CAPA run on the rows of binary64 L2 savings of the
    columns [ls] (row sum in NumPy's order, all betas 0) are a valid anomaly set, and their total
    TRUE penalised saving (column sum of the L2 savings of the real values of the data, penalties
    [FR acf] / [FR apf]) is within 3 n (p delta + (p + 1) u53 Mag) of that of ANY valid anomaly
    set. *)
Theorem capa_F64_l2_multi_end_to_end (ls : list (list float)) (acf apf Magf Bf : float)
    (m M n : nat) (scoresF : list float) (c pa : list (nat * nat)) :
  let p := length ls in
  let z := repeat 0%float p in
  (2 <= m)%nat -> (m <= M)%nat -> INR n * u53 <= 1 / 100 -> (1 <= p)%nat ->
  cols_length_ok ls n = true ->
  l2_saving_all_trace_ok_cols ls = true ->
  capa_trace_finite F64_tiny (l2ScFM ls) (l2SpFM ls) acf apf z z m M (m - 1) n = true ->
  capa_mag_ok F64_tiny (l2ScFM ls) (l2SpFM ls) acf apf z z m M (m - 1) n Magf = true ->
  sav_agg_mag_ok ls n Magf = true ->
  l2_absmax_ok_cols ls Bf = true ->
  gcapa F64 F64_tiny (l2ScFM ls) (l2SpFM ls) acf z apf z m M (m - 1) n = (scoresF, c, pa) ->
  let pc := fun s e : nat =>
    sumRl (map (fun l => l2_saving_R (prefix (map FR l)) s e) ls) - FR acf in
  let pp := fun t : nat =>
    sumRl (map (fun l => l2_saving_R (prefix (map FR l)) t (S t)) ls) - FR apf in
  let out := map to_anom (capa_predict false c pa) in
  let Mag := FR Magf / (1 - u53) in
  let delta := (42 / 10 * INR n + 5) * u53 * (INR n * FR Bf) ^ 2 in
  Valid m M out n /\
  forall l', Valid m M l' n ->
    totalR pc pp l'
    <= totalR pc pp out + 3 * INR n * (INR p * delta + (INR p + 1) * u53 * Mag).
Proof.
  intros p z Hm HmM Hsmall Hp Hlen Htr Hfin Hmag Hagg Habs HG pc pp out Mag delta.
  split.
  { exact (proj1 (F64_capa_output_valid _ _ _ _ _ _ m M (m - 1) n scoresF c pa
                    (conj Hm HmM) HG)). }
  intros l' Hl'.
  pose proof u53_pos as Hu. pose proof (pos_INR n) as Hn.
  assert (HdS0 : 0 <= delta).
  { unfold delta. apply Rmult_le_pos; [apply Rmult_le_pos; lra|apply pow2_ge_0]. }
  pose proof (capa_F64_l2_multi_core ls acf apf Magf m M n delta Hfin Hmag Hagg HdS0
                (l2_saving_cols_error ls n Bf Hsmall Hlen Htr Habs)
                scoresF c pa Hm HmM HG l' Hl') as H.
  unfold savM in H. fold pc pp out Mag p in H.
  eapply Rle_trans; [exact H|]. apply Rplus_le_compat_l. apply Req_le.
  rewrite (INR_pred p Hp). ring.
Qed.

(** COMPANION: the reported final score (the last entry of the score array, a float) is within
    n (p delta + (p + 1) u53 Mag) of the total true penalised saving of the reported anomalies *)
Theorem capa_F64_l2_multi_final_score (ls : list (list float)) (acf apf Magf Bf : float)
    (m M n : nat) (scoresF : list float) (c pa : list (nat * nat)) :
  let p := length ls in
  let z := repeat 0%float p in
  (2 <= m)%nat -> (m <= M)%nat -> (1 <= n)%nat -> INR n * u53 <= 1 / 100 -> (1 <= p)%nat ->
  cols_length_ok ls n = true ->
  l2_saving_all_trace_ok_cols ls = true ->
  capa_trace_finite F64_tiny (l2ScFM ls) (l2SpFM ls) acf apf z z m M (m - 1) n = true ->
  capa_mag_ok F64_tiny (l2ScFM ls) (l2SpFM ls) acf apf z z m M (m - 1) n Magf = true ->
  sav_agg_mag_ok ls n Magf = true ->
  l2_absmax_ok_cols ls Bf = true ->
  gcapa F64 F64_tiny (l2ScFM ls) (l2SpFM ls) acf z apf z m M (m - 1) n = (scoresF, c, pa) ->
  let pc := fun s e : nat =>
    sumRl (map (fun l => l2_saving_R (prefix (map FR l)) s e) ls) - FR acf in
  let pp := fun t : nat =>
    sumRl (map (fun l => l2_saving_R (prefix (map FR l)) t (S t)) ls) - FR apf in
  let out := map to_anom (capa_predict false c pa) in
  let Mag := FR Magf / (1 - u53) in
  let delta := (42 / 10 * INR n + 5) * u53 * (INR n * FR Bf) ^ 2 in
  Rabs (FR (nthV F64 scoresF (n - 1)) - totalR pc pp out)
  <= INR n * (INR p * delta + (INR p + 1) * u53 * Mag).
Proof.
  intros p z Hm HmM Hn1 Hsmall Hp Hlen Htr Hfin Hmag Hagg Habs HG pc pp out Mag delta.
  pose proof u53_pos as Hu. pose proof (pos_INR n) as Hn.
  assert (HdS0 : 0 <= delta).
  { unfold delta. apply Rmult_le_pos; [apply Rmult_le_pos; lra|apply pow2_ge_0]. }
  pose proof (capa_F64_l2_multi_core_final ls acf apf Magf m M n delta Hfin Hmag Hagg HdS0
                (l2_saving_cols_error ls n Bf Hsmall Hlen Htr Habs)
                scoresF c pa Hm HmM Hn1 HG) as H.
  unfold savM in H. fold pc pp out Mag p in H.
  eapply Rle_trans; [exact H|]. apply Req_le.
  rewrite (INR_pred p Hp). ring.
Qed.

(* ------------------------------------------------------------------------- *)
(** * 7. Specialisation: ONE column is the run of Proofs/CapaFloatL2.v           *)
(* ------------------------------------------------------------------------- *)

Lemma l2ScFM_one_column (l : list float) : l2ScFM [l] = l2ScF l.
Proof. reflexivity. Qed.
Lemma l2SpFM_one_column (l : list float) : l2SpFM [l] = l2SpF l.
Proof. reflexivity. Qed.

Lemma capa_multi_one_column_run (l : list float) (acf apf : float) (m M n : nat) :
  gcapa F64 F64_tiny (l2ScFM [l]) (l2SpFM [l]) acf (repeat 0%float 1) apf (repeat 0%float 1)
        m M (m - 1) n
  = gcapa F64 F64_tiny (l2ScF l) (l2SpF l) acf [0%float] apf [0%float] m M (m - 1) n.
Proof. reflexivity. Qed.

(* ------------------------------------------------------------------------- *)
(** * 8. Non-vacuity: three columns, eight rows                                 *)
(* ------------------------------------------------------------------------- *)

(** from three columns on, NumPy's order (the left fold, [gsum]) and the right fold ending in
    zero are DIFFERENT binary64 numbers: (0.1 + 0.2) + 0.3 = 0.6000000000000001, whereas
    0.1 + (0.2 + (0.3 + 0)) = 0.6 *)
Example gsum_F64_is_numpy_order :
  gsum F64 [0.1; 0.2; 0.3]%float = ((0.1 + 0.2) + 0.3)%float /\
  PrimFloat.eqb (gsum F64 [0.1; 0.2; 0.3]%float) (0.1 + (0.2 + (0.3 + 0)))%float = false.
Proof. split; vm_compute; reflexivity. Qed.

(** a spike at row 1 and a level shift on [4,7) in the first two columns, noise in the third;
    alpha_collective = 12, alpha_point = 20, m = 2, M = 4, delay = m - 1 = 1 *)
Definition m3_cols : list (list float) :=
  [ [0.125; 6; 0.25; -0.125; 3; 3.25; 2.75; 0.125];
    [0.25; 5; -0.25; 0.125; 2; 2.25; 1.75; -0.125];
    [-0.125; 0.25; 0.125; 0.5; 0.25; -0.25; 0.125; 0.375] ]%float.
Definition m3_z : list float := repeat 0%float 3.
Definition m3_ac : float := 12%float.
Definition m3_ap : float := 20%float.
Definition m3_Mag : float := 128%float.
Definition m3_B : float := 6%float.
(** the last two scores are ROUNDED: 13069/192 = 68.0677083... is not a binary64 number *)
Definition m3_scores : list float :=
  [0; 41.0625; 41.0625; 41.0625; 41.0625; 57.625; 0x1.1045555555556p+6; 0x1.1045555555556p+6]%float.

(** the output of the binary64 run, displayed: scores, collective anomalies, point anomalies *)
Eval vm_compute in
  (gcapa F64 F64_tiny (l2ScFM m3_cols) (l2SpFM m3_cols) m3_ac m3_z m3_ap m3_z 2 4 1 8).

Example m3_gcapa :
  gcapa F64 F64_tiny (l2ScFM m3_cols) (l2SpFM m3_cols) m3_ac m3_z m3_ap m3_z 2 4 1 8
  = (m3_scores, [(4, 7)]%nat, [(1, 2)]%nat).
Proof. vm_compute. reflexivity. Qed.
Example m3_anoms :
  map to_anom (capa_predict false [(4, 7)]%nat [(1, 2)]%nat) = [Pt 1; Coll 4 7].
Proof. vm_compute. reflexivity. Qed.

(** the rows of the two reported anomalies and their float row sums (the third summand of the
    collective row is 1/192 rounded, and so is the row sum) *)
Example m3_rows :
  l2ScFM m3_cols 4 7 = [27; 12; 0x1.5555555555555p-8]%float /\
  gsum F64 (l2ScFM m3_cols 4 7) = 0x1.380aaaaaaaaabp+5%float /\
  l2SpFM m3_cols 1 = [36; 25; 0.0625]%float /\
  gsum F64 (l2SpFM m3_cols 1) = 61.0625%float.
Proof. repeat split; vm_compute; reflexivity. Qed.

(** every premise is TRUE, by computation *)
Example m3_length_ok : cols_length_ok m3_cols 8 = true.
Proof. vm_compute. reflexivity. Qed.
Example m3_all_trace_ok : l2_saving_all_trace_ok_cols m3_cols = true.
Proof. vm_compute. reflexivity. Qed.
Example m3_trace_finite :
  capa_trace_finite F64_tiny (l2ScFM m3_cols) (l2SpFM m3_cols) m3_ac m3_ap m3_z m3_z 2 4 1 8 = true.
Proof. vm_compute. reflexivity. Qed.
Example m3_mag_ok :
  capa_mag_ok F64_tiny (l2ScFM m3_cols) (l2SpFM m3_cols) m3_ac m3_ap m3_z m3_z 2 4 1 8 m3_Mag
  = true.
Proof. vm_compute. reflexivity. Qed.
Example m3_agg_mag_ok : sav_agg_mag_ok m3_cols 8 m3_Mag = true.
Proof. vm_compute. reflexivity. Qed.
Example m3_absmax_ok : l2_absmax_ok_cols m3_cols m3_B = true.
Proof. vm_compute. reflexivity. Qed.

(** the checkers are not trivially true *)
Example m3_mag_rejected :
  capa_mag_ok F64_tiny (l2ScFM m3_cols) (l2SpFM m3_cols) m3_ac m3_ap m3_z m3_z 2 4 1 8 64%float
  = false.
Proof. vm_compute. reflexivity. Qed.
Example m3_agg_mag_rejected : sav_agg_mag_ok m3_cols 8 32%float = false.
Proof. vm_compute. reflexivity. Qed.
Example m3_absmax_rejected : l2_absmax_ok_cols m3_cols 5.5%float = false.
Proof. vm_compute. reflexivity. Qed.
Example m3_length_rejected : cols_length_ok ([0.5; 0.25]%float :: m3_cols) 8 = false.
Proof. vm_compute. reflexivity. Qed.
Example m3_trace_finite_rejected :
  capa_trace_finite F64_tiny (l2ScFM m3_cols) (l2SpFM m3_cols) infinity m3_ap m3_z m3_z 2 4 1 8
  = false.
Proof. vm_compute. reflexivity. Qed.

Lemma m3_small : INR 8 * u53 <= 1 / 100.
Proof. rewrite u53_value. cbn [INR]. lra. Qed.

(** the main theorem on this instance, in terms of the float data *)
Example m3_end_to_end_F :
  let pc := fun s e : nat =>
    sumRl (map (fun l => l2_saving_R (prefix (map FR l)) s e) m3_cols) - FR m3_ac in
  let pp := fun t : nat =>
    sumRl (map (fun l => l2_saving_R (prefix (map FR l)) t (S t)) m3_cols) - FR m3_ap in
  let Mag := FR m3_Mag / (1 - u53) in
  let delta := (42 / 10 * INR 8 + 5) * u53 * (INR 8 * FR m3_B) ^ 2 in
  Valid 2 4 [Pt 1; Coll 4 7] 8 /\
  forall l', Valid 2 4 l' 8 ->
    totalR pc pp l'
    <= totalR pc pp [Pt 1; Coll 4 7] + 3 * INR 8 * (INR 3 * delta + (INR 3 + 1) * u53 * Mag).
Proof.
  pose proof (capa_F64_l2_multi_end_to_end m3_cols m3_ac m3_ap m3_Mag m3_B 2 4 8
                m3_scores [(4, 7)]%nat [(1, 2)]%nat) as H.
  cbv zeta in H. change (length m3_cols) with 3%nat in H. change (2 - 1)%nat with 1%nat in H.
  change (repeat 0%float 3) with m3_z in H.
  specialize (H ltac:(lia) ltac:(lia) m3_small ltac:(lia) m3_length_ok m3_all_trace_ok
                m3_trace_finite m3_mag_ok m3_agg_mag_ok m3_absmax_ok m3_gcapa).
  rewrite m3_anoms in H. exact H.
Qed.

Lemma FR_m3_ac : FR m3_ac = 12.
Proof. FR_eval m3_ac H. rewrite H. lra. Qed.
Lemma FR_m3_ap : FR m3_ap = 20.
Proof. FR_eval m3_ap H. rewrite H. lra. Qed.
Lemma FR_m3_Mag : FR m3_Mag = 128.
Proof. FR_eval m3_Mag H. rewrite H. lra. Qed.
Lemma FR_m3_B : FR m3_B = 6.
Proof. FR_eval m3_B H. rewrite H. lra. Qed.

Definition m3_colsR : list (list R) :=
  [ [1/8; 6; 1/4; -1/8; 3; 13/4; 11/4; 1/8];
    [1/4; 5; -1/4; 1/8; 2; 9/4; 7/4; -1/8];
    [-1/8; 1/4; 1/8; 1/2; 1/4; -1/4; 1/8; 3/8] ].

Lemma FR_m3_cols : map (map FR) m3_cols = m3_colsR.
Proof.
  unfold m3_cols, m3_colsR. cbn [map].
  FR_eval 0.125%float H1. FR_eval 6%float H2. FR_eval 0.25%float H3. FR_eval (-0.125)%float H4.
  FR_eval 3%float H5. FR_eval 3.25%float H6. FR_eval 2.75%float H7.
  FR_eval 5%float G1. FR_eval (-0.25)%float G2. FR_eval 2%float G3. FR_eval 2.25%float G4.
  FR_eval 1.75%float G5. FR_eval 0.5%float K1. FR_eval 0.375%float K2.
  cbn [Z.opp] in H4, G2.
  rewrite H1, H2, H3, H4, H5, H6, H7, G1, G2, G3, G4, G5, K1, K2.
  repeat (apply f_equal2; [repeat (apply f_equal2; [lra|]); reflexivity|]). reflexivity.
Qed.

Lemma m3_objective s e :
  sumRl (map (fun l => l2_saving_R (prefix (map FR l)) s e) m3_cols)
  = sumRl (map (fun xs => l2_saving_R (prefix xs) s e) m3_colsR).
Proof. rewrite <- FR_m3_cols, map_map. reflexivity. Qed.

(** the instantiated main theorem with the concrete numbers: the binary64 run reports the point
    anomaly at 1 and the collective anomaly [4,7), and NO valid anomaly set has a total penalised
    summed L2 saving (of the real data, alpha = 12 / 20) exceeding theirs by more than
    3 * 8 * (3 delta + 4 u53 Mag),  delta = (4.2 * 8 + 5) u53 (8 * 6)^2,  Mag = 128 / (1 - u53) *)
Example m3_end_to_end :
  let pc := fun s e : nat => sumRl (map (fun xs => l2_saving_R (prefix xs) s e) m3_colsR) - 12 in
  let pp := fun t : nat => sumRl (map (fun xs => l2_saving_R (prefix xs) t (S t)) m3_colsR) - 20 in
  Valid 2 4 [Pt 1; Coll 4 7] 8 /\
  forall l', Valid 2 4 l' 8 ->
    totalR pc pp l'
    <= totalR pc pp [Pt 1; Coll 4 7]
       + 3 * 8 * (3 * ((42 / 10 * 8 + 5) * u53 * (8 * 6) ^ 2)
                  + (3 + 1) * u53 * (128 / (1 - u53))).
Proof.
  pose proof m3_end_to_end_F as H. cbv zeta in H |- *.
  rewrite FR_m3_ac, FR_m3_ap, FR_m3_Mag, FR_m3_B in H.
  replace (INR 8) with 8 in H by (cbn [INR]; lra).
  replace (INR 3) with 3 in H by (cbn [INR]; lra).
  destruct H as [Hv Ho]. split; [exact Hv|]. intros l' Hl'. specialize (Ho l' Hl').
  assert (E : forall l0,
    totalR (fun s e : nat =>
              sumRl (map (fun l => l2_saving_R (prefix (map FR l)) s e) m3_cols) - 12)
           (fun t : nat =>
              sumRl (map (fun l => l2_saving_R (prefix (map FR l)) t (S t)) m3_cols) - 20) l0
    = totalR (fun s e : nat => sumRl (map (fun xs => l2_saving_R (prefix xs) s e) m3_colsR) - 12)
             (fun t : nat => sumRl (map (fun xs => l2_saving_R (prefix xs) t (S t)) m3_colsR) - 20)
             l0).
  { intros l0. unfold totalR. f_equal. apply map_ext. intros [s e|t]; cbn [a_valR];
      now rewrite m3_objective. }
  rewrite !E in Ho. exact Ho.
Qed.

(** the total true penalised saving of the reported anomalies:
    (36 + 25 + 1/16 - 20) + (27 + 12 + 1/192 - 12) = 13069 / 192 *)
Example m3_total_reported :
  totalR (fun s e : nat => sumRl (map (fun xs => l2_saving_R (prefix xs) s e) m3_colsR) - 12)
         (fun t : nat => sumRl (map (fun xs => l2_saving_R (prefix xs) t (S t)) m3_colsR) - 20)
         [Pt 1; Coll 4 7] = 13069 / 192.
Proof.
  unfold totalR, a_valR, l2_saving_R, prefix, m3_colsR, sumRl.
  cbn [map sumR fold_right firstn Nat.sub INR]. field.
Qed.

(** ... so no valid anomaly set has a total penalised saving above 13069/192 + 1e-9 *)
Example m3_end_to_end_1e9 :
  forall l', Valid 2 4 l' 8 ->
    totalR (fun s e : nat => sumRl (map (fun xs => l2_saving_R (prefix xs) s e) m3_colsR) - 12)
           (fun t : nat => sumRl (map (fun xs => l2_saving_R (prefix xs) t (S t)) m3_colsR) - 20) l'
    <= 13069 / 192 + 1 / 1000000000.
Proof.
  intros l' Hl'. pose proof (proj2 m3_end_to_end l' Hl') as H. cbv zeta in H.
  rewrite m3_total_reported in H.
  eapply Rle_trans; [exact H|]. apply Rplus_le_compat_l.
  rewrite u53_value. lra.
Qed.

(** the reported (rounded) final score against the total penalised saving of the reported
    anomalies *)
Example m3_final_score_close :
  Rabs (FR 0x1.1045555555556p+6%float - 13069 / 192)
  <= 8 * (3 * ((42 / 10 * 8 + 5) * u53 * (8 * 6) ^ 2) + (3 + 1) * u53 * (128 / (1 - u53))).
Proof.
  pose proof (capa_F64_l2_multi_final_score m3_cols m3_ac m3_ap m3_Mag m3_B 2 4 8
                m3_scores [(4, 7)]%nat [(1, 2)]%nat) as H.
  cbv zeta in H. change (length m3_cols) with 3%nat in H. change (2 - 1)%nat with 1%nat in H.
  change (8 - 1)%nat with 7%nat in H. change (repeat 0%float 3) with m3_z in H.
  specialize (H ltac:(lia) ltac:(lia) ltac:(lia) m3_small ltac:(lia) m3_length_ok m3_all_trace_ok
                m3_trace_finite m3_mag_ok m3_agg_mag_ok m3_absmax_ok m3_gcapa).
  change (nthV F64 m3_scores 7) with 0x1.1045555555556p+6%float in H.
  rewrite m3_anoms, FR_m3_ac, FR_m3_ap, FR_m3_Mag, FR_m3_B in H.
  replace (INR 8) with 8 in H by (cbn [INR]; lra).
  replace (INR 3) with 3 in H by (cbn [INR]; lra).
  assert (E :
    totalR (fun s e : nat =>
              sumRl (map (fun l => l2_saving_R (prefix (map FR l)) s e) m3_cols) - 12)
           (fun t : nat =>
              sumRl (map (fun l => l2_saving_R (prefix (map FR l)) t (S t)) m3_cols) - 20)
           [Pt 1; Coll 4 7] = 13069 / 192).
  { rewrite <- m3_total_reported. unfold totalR. f_equal. apply map_ext.
    intros [s e|t]; cbn [a_valR]; now rewrite m3_objective. }
  rewrite E in H. exact H.
Qed.

Print Assumptions penalise_l2_multi_shape.
Print Assumptions capa_F64_l2_multi_end_to_end.
Print Assumptions capa_F64_l2_multi_final_score.
Print Assumptions m3_end_to_end.
