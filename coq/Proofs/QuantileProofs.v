(** The tuned threshold np.quantile(scores, 1 - level): sorting facts, bracketing of
    the interpolated quantile, the exceedance bound, and a refutation of the naive
    "at most a fraction [level] of the training scores exceed the threshold" reading.
    Everything is over Q and axiom-free. *)
From Coq Require Import QArith Qround Lia List ZArith Lqa.
From Coq Require Import Sorting.Permutation Sorting.Sorted.
From SK Require Import Model.Quantile.
Import ListNotations.
Open Scope Q_scope.

(* ------------------------------------------------------------------ *)
(** * B1. Sorting facts *)

Lemma insertQ_perm (x : Q) (l : list Q) : Permutation (x :: l) (insertQ x l).
Proof.
  induction l as [|y t IH]; simpl.
  - apply Permutation_refl.
  - destruct (Qle_bool x y).
    + apply Permutation_refl.
    + eapply Permutation_trans; [apply perm_swap|]. apply perm_skip. exact IH.
Qed.

Theorem sortQ_perm (l : list Q) : Permutation l (sortQ l).
Proof.
  induction l as [|x t IH]; simpl.
  - apply perm_nil.
  - eapply Permutation_trans; [apply perm_skip; exact IH|]. apply insertQ_perm.
Qed.

Lemma sortQ_length (l : list Q) : length (sortQ l) = length l.
Proof. symmetry. apply Permutation_length. apply sortQ_perm. Qed.

Lemma Forall_insertQ (P : Q -> Prop) (x : Q) (l : list Q) :
  P x -> Forall P l -> Forall P (insertQ x l).
Proof.
  intros Hx Hl. induction Hl as [|y t Hy Ht IH]; simpl.
  - constructor; [exact Hx | constructor].
  - destruct (Qle_bool x y).
    + constructor; [exact Hx|]. constructor; assumption.
    + constructor; assumption.
Qed.

Lemma insertQ_sorted (x : Q) (l : list Q) :
  StronglySorted Qle l -> StronglySorted Qle (insertQ x l).
Proof.
  intros Hs. induction Hs as [|y t Hst IH Hall]; simpl.
  - constructor; constructor.
  - destruct (Qle_bool x y) eqn:Hb.
    + apply Qle_bool_iff in Hb.
      constructor.
      * constructor; assumption.
      * constructor; [exact Hb|].
        eapply Forall_impl; [|exact Hall]. intros z Hz. simpl in Hz.
        eapply Qle_trans; eassumption.
    + assert (Hyx : y <= x).
      { destruct (Qlt_le_dec y x) as [Hlt|Hle].
        - apply Qlt_le_weak; exact Hlt.
        - apply Qle_bool_iff in Hle. rewrite Hle in Hb. discriminate Hb. }
      constructor; [exact IH|].
      apply Forall_insertQ; assumption.
Qed.

Theorem sortQ_strongly_sorted (l : list Q) : StronglySorted Qle (sortQ l).
Proof.
  induction l as [|x t IH]; simpl.
  - constructor.
  - apply insertQ_sorted. exact IH.
Qed.

Theorem sortQ_sorted (l : list Q) : Sorted Qle (sortQ l).
Proof. apply StronglySorted_Sorted. apply sortQ_strongly_sorted. Qed.

(** index-wise monotonicity of a sorted list *)
Lemma sorted_nth_mono (xs : list Q) :
  StronglySorted Qle xs ->
  forall i j : nat, (i <= j)%nat -> (j < length xs)%nat -> nth i xs 0 <= nth j xs 0.
Proof.
  intros Hs. induction Hs as [|a t Hst IH Hall]; intros i j Hij Hj.
  - simpl in Hj. lia.
  - destruct j as [|j'].
    + assert (Hi : i = 0%nat) by lia. subst i. simpl. apply Qle_refl.
    + destruct i as [|i'].
      * simpl. simpl in Hj.
        assert (Hin : In (nth j' t 0) t) by (apply nth_In; lia).
        rewrite Forall_forall in Hall. apply Hall. exact Hin.
      * simpl. apply IH; simpl in Hj; lia.
Qed.

(* ------------------------------------------------------------------ *)
(** * Facts on the virtual index *)

Section Index.
  Variables (N : nat) (q : Q).
  Hypothesis HN : (1 <= N)%nat.
  Hypothesis Hq0 : 0 <= q.
  Hypothesis Hq1 : q <= 1.

  Lemma quantile_h_nonneg : 0 <= quantile_h N q.
  Proof.
    unfold quantile_h. apply Qmult_le_0_compat; [|exact Hq0].
    change 0 with (inject_Z 0). rewrite <- Zle_Qle. lia.
  Qed.

  Lemma quantile_h_le : quantile_h N q <= inject_Z (Z.of_nat (N - 1)).
  Proof.
    unfold quantile_h.
    assert (H0 : 0 <= inject_Z (Z.of_nat (N - 1))).
    { change 0 with (inject_Z 0). rewrite <- Zle_Qle. lia. }
    nra.
  Qed.

  Lemma quantile_floor_nonneg : (0 <= Qfloor (quantile_h N q))%Z.
  Proof.
    rewrite <- (Qfloor_Z 0). apply Qfloor_resp_le. exact quantile_h_nonneg.
  Qed.

  Lemma quantile_floor_le : (Qfloor (quantile_h N q) <= Z.of_nat (N - 1))%Z.
  Proof.
    rewrite <- (Qfloor_Z (Z.of_nat (N - 1))). apply Qfloor_resp_le. exact quantile_h_le.
  Qed.

  Lemma quantile_lo_lt : (quantile_lo N q < N)%nat.
  Proof.
    unfold quantile_lo.
    pose proof quantile_floor_nonneg as H0. pose proof quantile_floor_le as H1. lia.
  Qed.

  Lemma quantile_lo_le_hi : (quantile_lo N q <= quantile_hi N q)%nat.
  Proof. unfold quantile_hi. pose proof quantile_lo_lt as H. lia. Qed.

  Lemma quantile_hi_lt : (quantile_hi N q < N)%nat.
  Proof. unfold quantile_hi. lia. Qed.

  Lemma quantile_frac_nonneg : 0 <= quantile_frac N q.
  Proof.
    unfold quantile_frac. pose proof (Qfloor_le (quantile_h N q)) as H. lra.
  Qed.

  Lemma quantile_frac_lt1 : quantile_frac N q < 1.
  Proof.
    unfold quantile_frac. pose proof (Qlt_floor (quantile_h N q)) as H.
    rewrite inject_Z_plus in H. change (inject_Z 1) with 1 in H. lra.
  Qed.
End Index.

(* ------------------------------------------------------------------ *)
(** * B2. The interpolated quantile lies between its two order statistics *)

Theorem quantile_between (scores : list Q) (q : Q) :
  scores <> [] -> 0 <= q -> q <= 1 ->
  let xs := sortQ scores in
  let N := length scores in
  nth (quantile_lo N q) xs 0 <= quantile_linear scores q /\
  quantile_linear scores q <= nth (quantile_hi N q) xs 0.
Proof.
  intros Hne Hq0 Hq1 xs N.
  assert (HN : (1 <= N)%nat).
  { subst N. destruct scores; [congruence | simpl; lia]. }
  assert (Hlen : length xs = N) by (subst xs N; apply sortQ_length).
  assert (Hmono : nth (quantile_lo N q) xs 0 <= nth (quantile_hi N q) xs 0).
  { apply sorted_nth_mono.
    - subst xs. apply sortQ_strongly_sorted.
    - apply quantile_lo_le_hi; assumption.
    - rewrite Hlen. apply quantile_hi_lt; assumption. }
  pose proof (quantile_frac_nonneg N q) as Hf0.
  pose proof (quantile_frac_lt1 N q) as Hf1.
  unfold quantile_linear. fold xs. fold N.
  set (xlo := nth (quantile_lo N q) xs 0) in *.
  set (xhi := nth (quantile_hi N q) xs 0) in *.
  set (f := quantile_frac N q) in *.
  split; nra.
Qed.

(** every score lies between the first and last order statistic *)
Lemma sorted_bounds (scores : list Q) (x : Q) :
  In x scores ->
  nth 0 (sortQ scores) 0 <= x /\ x <= nth (length scores - 1) (sortQ scores) 0.
Proof.
  intros Hin.
  assert (Hin' : In x (sortQ scores)).
  { eapply Permutation_in; [apply sortQ_perm | exact Hin]. }
  destruct (In_nth _ _ 0 Hin') as [i [Hi Hx]].
  rewrite sortQ_length in Hi.
  pose proof (sortQ_strongly_sorted scores) as Hs.
  rewrite <- Hx. split.
  - apply sorted_nth_mono; [exact Hs | lia | rewrite sortQ_length; lia].
  - apply sorted_nth_mono; [exact Hs | lia | rewrite sortQ_length; lia].
Qed.

Theorem quantile_between_min_max (scores : list Q) (q : Q) :
  scores <> [] -> 0 <= q -> q <= 1 ->
  nth 0 (sortQ scores) 0 <= quantile_linear scores q /\
  quantile_linear scores q <= nth (length scores - 1) (sortQ scores) 0.
Proof.
  intros Hne Hq0 Hq1.
  destruct (quantile_between scores q Hne Hq0 Hq1) as [Hlo Hhi].
  cbv zeta in Hlo, Hhi.
  assert (HN : (1 <= length scores)%nat).
  { destruct scores; [congruence | simpl; lia]. }
  pose proof (sortQ_strongly_sorted scores) as Hs.
  pose proof (quantile_lo_lt (length scores) q HN Hq0 Hq1) as Hlolt.
  pose proof (quantile_hi_lt (length scores) q HN) as Hhilt.
  split.
  - eapply Qle_trans; [|exact Hlo].
    apply sorted_nth_mono; [exact Hs | lia | rewrite sortQ_length; lia].
  - eapply Qle_trans; [exact Hhi|].
    apply sorted_nth_mono; [exact Hs | lia | rewrite sortQ_length; lia].
Qed.

(* ------------------------------------------------------------------ *)
(** * B3. Exceedance bound *)

Lemma count_above_app (thr : Q) (l1 l2 : list Q) :
  count_above thr (l1 ++ l2) = (count_above thr l1 + count_above thr l2)%nat.
Proof. unfold count_above. rewrite filter_app, app_length. reflexivity. Qed.

Lemma count_above_le_length (thr : Q) (l : list Q) : (count_above thr l <= length l)%nat.
Proof.
  unfold count_above. induction l as [|x t IH]; simpl; [lia|].
  destruct (negb (Qle_bool x thr)); simpl; lia.
Qed.

Lemma count_above_perm (thr : Q) (l1 l2 : list Q) :
  Permutation l1 l2 -> count_above thr l1 = count_above thr l2.
Proof.
  intros Hp. unfold count_above.
  induction Hp as [| x l l' Hp IH | x y l | l l' l'' Hp1 IH1 Hp2 IH2]; simpl.
  - reflexivity.
  - destruct (negb (Qle_bool x thr)); simpl; lia.
  - destruct (negb (Qle_bool x thr)); destruct (negb (Qle_bool y thr)); simpl; lia.
  - lia.
Qed.

Lemma count_above_zero (thr : Q) (l : list Q) :
  Forall (fun y => y <= thr) l -> count_above thr l = 0%nat.
Proof.
  intros Hall. unfold count_above. induction Hall as [|x t Hx Ht IH]; simpl; [reflexivity|].
  apply Qle_bool_iff in Hx. rewrite Hx. simpl. exact IH.
Qed.

Lemma sorted_firstn_le (xs : list Q) :
  StronglySorted Qle xs ->
  forall lo : nat, (lo < length xs)%nat ->
  Forall (fun y => y <= nth lo xs 0) (firstn (S lo) xs).
Proof.
  intros Hs. induction Hs as [|a t Hst IH Hall]; intros lo Hlo.
  - simpl in Hlo. lia.
  - destruct lo as [|lo'].
    + simpl. constructor; [apply Qle_refl | constructor].
    + simpl in Hlo. change (firstn (S (S lo')) (a :: t)) with (a :: firstn (S lo') t).
      change (nth (S lo') (a :: t) 0) with (nth lo' t 0).
      constructor.
      * rewrite Forall_forall in Hall. apply Hall. apply nth_In. lia.
      * apply IH. lia.
Qed.

(** generic form: a threshold at or above the order statistic x_lo is exceeded by
    at most N - 1 - lo scores *)
Lemma count_above_order_stat (scores : list Q) (thr : Q) (lo : nat) :
  (lo < length scores)%nat -> nth lo (sortQ scores) 0 <= thr ->
  (count_above thr scores <= length scores - 1 - lo)%nat.
Proof.
  intros Hlo Hthr.
  rewrite (count_above_perm thr scores (sortQ scores) (sortQ_perm scores)).
  pose proof (sortQ_strongly_sorted scores) as Hs.
  pose proof (sortQ_length scores) as Hlen.
  set (xs := sortQ scores) in *.
  rewrite <- (firstn_skipn (S lo) xs) at 1.
  rewrite count_above_app.
  assert (H0 : count_above thr (firstn (S lo) xs) = 0%nat).
  { apply count_above_zero.
    eapply Forall_impl; [|apply sorted_firstn_le; [exact Hs | lia]].
    intros y Hy. simpl in Hy. eapply Qle_trans; eassumption. }
  pose proof (count_above_le_length thr (skipn (S lo) xs)) as H1.
  rewrite skipn_length in H1. lia.
Qed.

Theorem exceed_bound (scores : list Q) (q : Q) :
  scores <> [] -> 0 <= q -> q <= 1 ->
  let N := length scores in
  let lo := Z.to_nat (Qfloor (inject_Z (Z.of_nat (N - 1)) * q)) in
  (count_above (quantile_linear scores q) scores <= N - 1 - lo)%nat.
Proof.
  intros Hne Hq0 Hq1 N lo.
  assert (HN : (1 <= N)%nat).
  { subst N. destruct scores; [congruence | simpl; lia]. }
  change lo with (quantile_lo N q).
  apply count_above_order_stat.
  - apply quantile_lo_lt; assumption.
  - destruct (quantile_between scores q Hne Hq0 Hq1) as [Hlo _]. exact Hlo.
Qed.

(* ------------------------------------------------------------------ *)
(** * B4. The naive "fraction level" reading is false *)

Definition refute_scores : list Q := map (fun z => inject_Z z) [1; 2; 3; 4; 5; 6; 7; 8; 9; 10]%Z.

Theorem exceed_fraction_refuted :
  exists (scores : list Q) (level : Q),
    (0 < level /\ level < 1) /\
    ~ (inject_Z (Z.of_nat (count_above (quantile_linear scores (1 - level)) scores))
       <= level * inject_Z (Z.of_nat (length scores))).
Proof.
  exists refute_scores, (1 # 100).
  split.
  - split; reflexivity.
  - intros H. vm_compute in H. apply H. reflexivity.
Qed.

(** the witness, spelled out: threshold 9.91, exactly one of ten scores above it *)
Lemma refute_witness_values :
  quantile_linear refute_scores (1 - (1 # 100)) == 991 # 100 /\
  count_above (quantile_linear refute_scores (1 - (1 # 100))) refute_scores = 1%nat.
Proof. split; vm_compute; reflexivity. Qed.

(* ------------------------------------------------------------------ *)
(** * B5. Extreme quantiles *)

Theorem quantile_q1_is_max (scores : list Q) :
  scores <> [] ->
  quantile_linear scores 1 == nth (length scores - 1) (sortQ scores) 0 /\
  (forall x : Q, In x scores -> x <= quantile_linear scores 1) /\
  count_above (quantile_linear scores 1) scores = 0%nat.
Proof.
  intros Hne.
  assert (HN : (1 <= length scores)%nat).
  { destruct scores; [congruence | simpl; lia]. }
  assert (Hh : quantile_h (length scores) 1 == inject_Z (Z.of_nat (length scores - 1))).
  { unfold quantile_h. ring. }
  assert (Hfl : Qfloor (quantile_h (length scores) 1) = Z.of_nat (length scores - 1)).
  { rewrite Hh. apply Qfloor_Z. }
  assert (Hlo : quantile_lo (length scores) 1 = (length scores - 1)%nat).
  { unfold quantile_lo. rewrite Hfl. lia. }
  assert (Hhi : quantile_hi (length scores) 1 = (length scores - 1)%nat).
  { unfold quantile_hi. rewrite Hlo. lia. }
  assert (Heq : quantile_linear scores 1 == nth (length scores - 1) (sortQ scores) 0).
  { unfold quantile_linear. cbv zeta. rewrite Hlo, Hhi. ring. }
  assert (Hmax : forall x : Q, In x scores -> x <= quantile_linear scores 1).
  { intros x Hx. rewrite Heq. apply (sorted_bounds scores x Hx). }
  split; [exact Heq|]. split; [exact Hmax|].
  apply count_above_zero. rewrite Forall_forall. exact Hmax.
Qed.

Theorem quantile_q0_is_min (scores : list Q) :
  scores <> [] ->
  quantile_linear scores 0 == nth 0 (sortQ scores) 0 /\
  (forall x : Q, In x scores -> quantile_linear scores 0 <= x).
Proof.
  intros Hne.
  assert (Hh : quantile_h (length scores) 0 == 0).
  { unfold quantile_h. ring. }
  assert (Hfl : Qfloor (quantile_h (length scores) 0) = 0%Z).
  { rewrite Hh. reflexivity. }
  assert (Hlo : quantile_lo (length scores) 0 = 0%nat).
  { unfold quantile_lo. rewrite Hfl. reflexivity. }
  assert (Hfr : quantile_frac (length scores) 0 == 0).
  { unfold quantile_frac. rewrite Hfl, Hh. reflexivity. }
  assert (Heq : quantile_linear scores 0 == nth 0 (sortQ scores) 0).
  { unfold quantile_linear. cbv zeta. rewrite Hlo, Hfr. ring. }
  split; [exact Heq|].
  intros x Hx. rewrite Heq. apply (sorted_bounds scores x Hx).
Qed.

Print Assumptions sortQ_perm.
Print Assumptions sortQ_sorted.
Print Assumptions quantile_between.
Print Assumptions quantile_between_min_max.
Print Assumptions exceed_bound.
Print Assumptions exceed_fraction_refuted.
Print Assumptions quantile_q1_is_max.
Print Assumptions quantile_q0_is_min.
