(** Refinement proof: the executable PELT model (Model/Pelt.v, a transcription of
    run_pelt + get_changepoints) against the unpruned optimal-partitioning recursion
    [F] of Proofs/PeltSpec.v.

    Index conventions.  [step s t] handles observation index [t] and computes the entry
    for the (exclusive) segment end [T = S t].  A state "at T" has [opt] of length
    [T + 1] (entries for ends 0..T) and [prev] of length [T] ([prev[e-1]] is the
    back-pointer of end [e]).  [init] is a state at [2m - 1]; [run n] folds [step] over
    t = 2m-1 .. n-1 and is a state at [n]. *)
From Coq Require Import ZArith List Lia Bool Arith.
From SK Require Import Lib.Base Model.Pelt Proofs.PeltSpec Proofs.PeltLemmas.
Import ListNotations.
Open Scope Z_scope.

Section Refine.
Variable C : nat -> nat -> Z.
Variable pen : Z.
Variable m delay : nat.
Hypothesis m_pos : (1 <= m)%nat.

Notation stepM := (step C pen m delay).
Notation initM := (init C pen m).
Notation runM := (run C pen m delay).
Notation Fn := (F C pen m).
Notation candFn := (candF C pen m).

(** admissible last-segment starts for end [T] *)
Definition full (T a : nat) : Prop := a = 0%nat \/ (m <= a /\ a + m <= T)%nat.

Lemma full_mono T a : full T a -> full (S T) a.
Proof. unfold full. lia. Qed.
Lemma full_le T a : full T a -> (1 <= T)%nat -> (a < T)%nat.
Proof. unfold full. lia. Qed.

(* ------------------------------------------------------------------ *)
(** * Unfolding one step *)

Definition starts1 (s : st) (t : nat) : list nat := starts s ++ [t - (m - 1)]%nat.
Definition candv (s : st) (t a : nat) : Z := nthZ (opt s) a + C a (S t) + pen.
Definition cands (s : st) (t : nat) : list Z := map (candv s t) (starts1 s t).
Definition dropl (s : st) (t : nat) (b : Z) : list nat :=
  map fst (filter (fun ac => negb (snd ac <=? b + pen)) (combine (starts1 s t) (cands s t))).

Lemma starts1_nonempty s t : starts1 s t <> [].
Proof. unfold starts1. destruct (starts s); discriminate. Qed.

Lemma step_cases s t :
  exists i b now pend',
    argmin (cands s t) = Some (i, b) /\
    (i < length (starts1 s t))%nat /\
    b = candv s t (nthN (starts1 s t) i) /\
    (forall a, In a (starts1 s t) -> b <= candv s t a) /\
    stepM s t = {| opt := opt s ++ [b];
                   prev := prev s ++ [nthN (starts1 s t) i];
                   starts := removeall now (starts1 s t);
                   pending := pend' |} /\
    ( ((delay < length (pending s ++ [dropl s t b]))%nat /\
        now = hd [] (pending s ++ [dropl s t b]) /\ pend' = tl (pending s ++ [dropl s t b]))
      \/
      ((length (pending s ++ [dropl s t b]) <= delay)%nat /\
        now = [] /\ pend' = pending s ++ [dropl s t b]) ).
Proof.
  assert (Hne : cands s t <> []).
  { unfold cands. intros E. apply map_eq_nil in E. now apply starts1_nonempty in E. }
  destruct (argmin_spec (cands s t) Hne) as (i & b & Harg & Hi & Hnth & Hmin & _).
  assert (Hlen : length (cands s t) = length (starts1 s t)) by (unfold cands; apply map_length).
  assert (Hb : b = candv s t (nthN (starts1 s t) i)).
  { rewrite <- Hnth. unfold cands, nthN.
    rewrite (nth_indep _ 0 (candv s t 0%nat)) by (rewrite map_length; lia).
    apply map_nth. }
  assert (Hmin' : forall a, In a (starts1 s t) -> b <= candv s t a).
  { intros a Ha. apply Hmin. unfold cands. now apply in_map. }
  assert (Hstep : stepM s t =
     let pend := pending s ++ [dropl s t b] in
     if (delay <? length pend)%nat
     then {| opt := opt s ++ [b]; prev := prev s ++ [nthN (starts1 s t) i];
             starts := removeall (hd [] pend) (starts1 s t); pending := tl pend |}
     else {| opt := opt s ++ [b]; prev := prev s ++ [nthN (starts1 s t) i];
             starts := removeall [] (starts1 s t); pending := pend |}).
  { unfold step.
    change (map (fun a => nthZ (opt s) a + C a (S t) + pen) (starts s ++ [(t - (m - 1))%nat]))
      with (cands s t).
    change (starts s ++ [(t - (m - 1))%nat]) with (starts1 s t).
    cbv zeta. rewrite Harg. fold (dropl s t b).
    destruct (delay <? length (pending s ++ [dropl s t b]))%nat; reflexivity. }
  cbv zeta in Hstep.
  destruct (delay <? length (pending s ++ [dropl s t b]))%nat eqn:Hc.
  - apply Nat.ltb_lt in Hc.
    exists i, b, (hd [] (pending s ++ [dropl s t b])), (tl (pending s ++ [dropl s t b])).
    rewrite Hlen in Hi. repeat split; auto.
  - apply Nat.ltb_ge in Hc.
    exists i, b, [], (pending s ++ [dropl s t b]).
    rewrite Hlen in Hi. repeat split; auto.
Qed.

Lemma in_dropl s t b a :
  In a (dropl s t b) -> In a (starts1 s t) /\ candv s t a > b + pen.
Proof.
  unfold dropl. intros Ha. apply in_map_iff in Ha as ([a' c] & Ea & Hin). cbn [fst] in Ea. subst a'.
  apply filter_In in Hin as [Hin Hc]. cbn [snd] in Hc.
  unfold cands in Hin. apply in_combine_map in Hin as [Hin Ec]. subst c.
  apply negb_true_iff, Z.leb_gt in Hc. split; [exact Hin|lia].
Qed.

(* ------------------------------------------------------------------ *)
(** * Structural invariant (arbitrary C, pen, delay) *)

Record SInv (T : nat) (s : st) : Prop := {
  si_len_opt : length (opt s) = S T;
  si_len_prev : length (prev s) = T;
  si_starts : forall a, In a (starts s) -> full T a;
  si_small : forall e, (e < m)%nat -> nthZ (opt s) e = - pen;
  si_bp : forall e, (m <= e <= T)%nat ->
      full e (nthN (prev s) (e - 1)) /\
      nthZ (opt s) e = nthZ (opt s) (nthN (prev s) (e - 1)) + C (nthN (prev s) (e - 1)) e + pen }.

Lemma init_opt_small e : (e < m)%nat -> nthZ (opt initM) e = - pen.
Proof.
  intros H. unfold nthZ, init. cbn [opt].
  rewrite app_nth1 by (rewrite repeat_length; lia). now apply nth_repeat_lt.
Qed.

Lemma init_opt_mid e : (m <= e < 2 * m)%nat -> nthZ (opt initM) e = C 0 e.
Proof.
  intros H. unfold nthZ, init. cbn [opt].
  rewrite app_nth2 by (rewrite repeat_length; lia). rewrite repeat_length.
  rewrite (nth_indep _ 0 (C 0 0)) by (rewrite map_length, seq_length; lia).
  rewrite (map_nth (fun e0 => C 0 e0)). rewrite seq_nth by lia. f_equal. lia.
Qed.

Lemma init_len_opt : length (opt initM) = S (2 * m - 1).
Proof. unfold init. cbn [opt]. rewrite app_length, repeat_length, map_length, seq_length. lia. Qed.

Lemma init_SInv : SInv (2 * m - 1) initM.
Proof.
  constructor.
  - apply init_len_opt.
  - unfold init. cbn [prev]. apply repeat_length.
  - unfold init. cbn [starts]. intros a [<-|[]]. now left.
  - apply init_opt_small.
  - intros e He.
    assert (Hp : nthN (prev initM) (e - 1) = 0%nat).
    { unfold nthN, init. cbn [prev]. apply nth_repeat_lt. lia. }
    rewrite Hp. split; [now left|].
    rewrite init_opt_mid by lia. rewrite init_opt_small by lia. lia.
Qed.

Lemma starts1_full T s : (2 * m - 1 <= T)%nat -> SInv T s ->
  forall a, In a (starts1 s T) -> full (S T) a.
Proof.
  intros HT HS a Ha. unfold starts1 in Ha. apply in_app_or in Ha as [Ha|[<-|[]]].
  - apply full_mono. now apply (si_starts T s HS).
  - right. lia.
Qed.

Lemma step_SInv T s : (2 * m - 1 <= T)%nat -> SInv T s -> SInv (S T) (stepM s T).
Proof.
  intros HT HS.
  destruct (step_cases s T) as (i & b & now & pend' & _ & Hi & Hb & _ & Hstep & _).
  pose proof (starts1_full T s HT HS) as Hfull1.
  set (a0 := nthN (starts1 s T) i) in *.
  assert (Ha0 : In a0 (starts1 s T)) by (unfold a0, nthN; now apply nth_In).
  assert (Hfa0 : full (S T) a0) by now apply Hfull1.
  destruct HS as [Hlo Hlp Hst Hsm Hbp].
  rewrite Hstep. constructor; cbn [opt prev starts pending].
  - rewrite app_length, Hlo. cbn [length]. lia.
  - rewrite app_length, Hlp. cbn [length]. lia.
  - intros a Ha. apply in_removeall in Ha as [Ha _]. now apply Hfull1.
  - intros e He. unfold nthZ. rewrite app_nth1 by lia. now apply Hsm.
  - intros e He. destruct (Nat.eq_dec e (S T)) as [->|Hne].
    + replace (S T - 1)%nat with T by lia.
      assert (Hp : nthN (prev s ++ [a0]) T = a0).
      { unfold nthN. rewrite app_nth2 by lia. rewrite Hlp, Nat.sub_diag. reflexivity. }
      rewrite Hp. split; [exact Hfa0|].
      assert (Ha0T : (a0 < S T)%nat) by (apply full_le; [exact Hfa0|lia]).
      unfold nthZ. rewrite app_nth2 by lia. rewrite Hlo, Nat.sub_diag. cbn [nth].
      rewrite app_nth1 by lia. rewrite Hb. unfold candv, nthZ. reflexivity.
    + assert (HeT : (m <= e <= T)%nat) by lia.
      destruct (Hbp e HeT) as [Hf Ho].
      assert (Hp : nthN (prev s ++ [a0]) (e - 1) = nthN (prev s) (e - 1)).
      { unfold nthN. rewrite app_nth1 by lia. reflexivity. }
      rewrite Hp. split; [exact Hf|].
      assert (Hlt : (nthN (prev s) (e - 1) < e)%nat) by (apply full_le; [exact Hf|lia]).
      unfold nthZ in *. rewrite !app_nth1 by lia. exact Ho.
Qed.

Lemma run_SInv n : (2 * m <= n)%nat -> SInv n (runM n).
Proof.
  intros Hn. unfold run.
  replace n with (2 * m - 1 + (n - (2 * m - 1)))%nat at 1 by lia.
  apply (fold_left_seq_inv SInv stepM).
  - intros T s HT HS. now apply step_SInv.
  - apply init_SInv.
Qed.

(* ------------------------------------------------------------------ *)
(** * Back-pointer chains are admissible segmentations with the recorded cost *)

Lemma backtrack_chain (op : list Z) (pv : list nat) T :
  nthZ op 0 = - pen ->
  (forall e, (m <= e <= T)%nat ->
      full e (nthN pv (e - 1)) /\
      nthZ op e = nthZ op (nthN pv (e - 1)) + C (nthN pv (e - 1)) e + pen) ->
  forall fuel e acc, (m <= e <= T)%nat -> (e <= fuel)%nat ->
    exists cp, backtrack fuel pv e acc = 0%nat :: cp ++ acc /\
               Adm m cp e /\ pencost C pen cp e = nthZ op e.
Proof.
  intros H0 Hbp. induction fuel as [|f IH]; intros e acc He Hf; [lia|].
  destruct e as [|i]; [lia|]. cbn [backtrack].
  destruct (Hbp (S i) He) as [Hfull Ho]. replace (S i - 1)%nat with i in * by lia.
  set (c := nthN pv i) in *.
  destruct Hfull as [Hc|[Hc1 Hc2]].
  - exists []. rewrite Hc in *. split; [|split].
    + destruct f; reflexivity.
    + unfold Adm. cbn [admseg]. lia.
    + unfold pencost. cbn [segcost length]. rewrite Ho, H0. lia.
  - destruct (IH c (c :: acc) ltac:(lia) ltac:(lia)) as (cp & Hbt & Hadm & Hcost).
    exists (cp ++ [c]). split; [|split].
    + rewrite Hbt. rewrite <- app_assoc. reflexivity.
    + unfold Adm. apply (admseg_snoc C). split; [exact Hadm|lia].
    + unfold pencost in *. rewrite (segcost_snoc C m m_pos), app_length. cbn [length].
      rewrite Ho, <- Hcost. lia.
Qed.

(** prefix version of T2/T3: for every end [T] in [m, n] the chain from [T] is an admissible
    segmentation of [0, T) whose penalised cost is the recorded [opt[T]] *)
Lemma pelt_prefix n T : (2 * m <= n)%nat -> (m <= T <= n)%nat ->
  Adm m (changepoints (prev (runM n)) T) T /\
  pencost C pen (changepoints (prev (runM n)) T) T = nthZ (opt (runM n)) T.
Proof.
  intros Hn HT. pose proof (run_SInv n Hn) as HS.
  destruct (backtrack_chain (opt (runM n)) (prev (runM n)) n
              (si_small n _ HS 0%nat ltac:(lia)) (si_bp n _ HS) T T [] HT (le_n T))
    as (cp & Hbt & Hadm & Hcost).
  unfold changepoints. rewrite Hbt. cbn [tl]. rewrite app_nil_r. auto.
Qed.

(* ------------------------------------------------------------------ *)
(** * Main structural theorems T1, T2, T3, T5 *)
Section Main.
Variable n : nat.
Hypothesis n_big : (2 * m <= n)%nat.

Notation scores := (fst (pelt C pen m delay n)).
Notation cpts := (snd (pelt C pen m delay n)).

Lemma scores_nth t : (1 <= t)%nat -> nth (t - 1) scores 0 = nthZ (opt (runM n)) t.
Proof.
  intros Ht. unfold pelt. cbn [fst]. rewrite nth_tl. unfold nthZ. f_equal. lia.
Qed.

Theorem pelt_scores_length : length scores = n.
Proof.
  unfold pelt. cbn [fst]. rewrite length_tl, (si_len_opt n _ (run_SInv n n_big)). lia.
Qed.

Theorem pelt_adm : Adm m cpts n.
Proof. unfold pelt. cbn [snd]. apply (pelt_prefix n n n_big). lia. Qed.

Theorem pelt_final_is_pencost : nth (n - 1) scores 0 = pencost C pen cpts n.
Proof.
  rewrite scores_nth by lia. unfold pelt. cbn [snd].
  symmetry. apply (pelt_prefix n n n_big). lia.
Qed.

Theorem pelt_scores_dummy : forall t, (1 <= t < m)%nat -> nth (t - 1) scores 0 = - pen.
Proof.
  intros t Ht. rewrite scores_nth by lia. apply (si_small n _ (run_SInv n n_big)). lia.
Qed.
End Main.

(** small facts about the recursion [F] *)
Lemma F_small e : (e < m)%nat -> Fn e = - pen.
Proof.
  intros He. destruct e as [|e]; [reflexivity|].
  unfold F. cbn [Ftab]. rewrite app_nth2 by (rewrite (Ftab_length C pen m m_pos); lia).
  rewrite (Ftab_length C pen m m_pos), Nat.sub_diag. cbn [nth]. unfold next.
  replace (S e <? m)%nat with true by (symmetry; apply Nat.ltb_lt; lia). reflexivity.
Qed.

Lemma F_mid e : (m <= e < 2 * m)%nat -> Fn e = C 0 e.
Proof.
  intros He. rewrite (F_unfold C pen m m_pos) by lia. unfold adm.
  replace (e + 1 - 2 * m)%nat with 0%nat by lia. cbn [seq map]. unfold min1. cbn [fold_left].
  unfold candF. rewrite (F0 C pen m). lia.
Qed.

Lemma F_le_full T a : (m <= T)%nat -> full T a -> Fn T <= candFn T a.
Proof.
  intros HT [->|[H1 H2]]; [now apply F_le_cand0|now apply F_le_cand].
Qed.

(* ------------------------------------------------------------------ *)
(** * Optimality (T4, T6): pruning never removes a start that can still be optimal *)
Section Optimal.
Hypothesis delay_ok : (m <= delay + 1)%nat.
Hypothesis split : forall s k e, (s + m <= k)%nat -> (k + m <= e)%nat -> C s k + C k e <= C s e.

(** [a] was found strictly worse than the optimum at end [tau] *)
Definition condemned (a tau : nat) : Prop :=
  full tau a /\ (m <= tau)%nat /\ Fn a + C a tau > Fn tau.

Record Inv (T : nat) (s : st) : Prop := {
  inv_opt : forall e, (e <= T)%nat -> nthZ (opt s) e = Fn e;
  inv_missing : forall a, full T a -> ~ In a (starts s) ->
      exists tau, (tau + m <= T + 1)%nat /\ condemned a tau;
  inv_pend_len : (length (pending s) <= delay)%nat;
  inv_pend : forall i D, nth_error (pending s) i = Some D ->
      forall a, In a D -> condemned a (T + 1 + i - length (pending s))%nat }.

(** a condemned start is strictly worse than [tau] for every later admissible end *)
Lemma condemned_worse a tau T : condemned a tau -> (tau + m <= T)%nat -> candFn T a > Fn T.
Proof.
  intros [Hf [Htau Hgt]] HT. unfold candF.
  assert (Hsp : C a tau + C tau T <= C a T).
  { apply split; [|lia]. destruct Hf as [->|[? ?]]; lia. }
  pose proof (F_le_cand C pen m m_pos T tau Htau HT) as Hle. unfold candF in Hle. lia.
Qed.

Lemma init_Inv : Inv (2 * m - 1) initM.
Proof.
  constructor.
  - intros e He. destruct (lt_dec e m) as [Hlt|Hge].
    + rewrite init_opt_small, F_small by lia. reflexivity.
    + rewrite init_opt_mid, F_mid by lia. reflexivity.
  - intros a Hf Hn. exfalso. apply Hn. unfold init. cbn [starts].
    destruct Hf as [->|[H1 H2]]; [now left|lia].
  - unfold init. cbn [pending length]. lia.
  - unfold init. cbn [pending]. intros i D Hi. destruct i; discriminate.
Qed.

Theorem step_inv T s : (2 * m - 1 <= T)%nat -> SInv T s -> Inv T s -> Inv (S T) (stepM s T).
Proof.
  intros HT HS [Hopt Hmiss Hplen Hpend].
  destruct (step_cases s T) as (i & b & now & pend' & _ & Hi & Hb & Hmin & Hstep & Hq).
  pose proof (starts1_full T s HT HS) as Hsub1.
  pose proof (si_len_opt T s HS) as Hlo.
  set (R1 := starts1 s T) in *.
  assert (Hcand : forall a, In a R1 -> candv s T a = candFn (S T) a).
  { intros a Ha. unfold candv, candF. rewrite Hopt; [reflexivity|].
    pose proof (full_le (S T) a (Hsub1 a Ha)). lia. }
  assert (Hmiss0 : forall a, full (S T) a -> ~ In a R1 ->
             exists tau, (tau + m <= T + 1)%nat /\ condemned a tau).
  { intros a Hf Hn.
    assert (Hne : a <> (T - (m - 1))%nat).
    { intros ->. apply Hn. unfold R1, starts1. apply in_or_app. right. now left. }
    assert (HfT : full T a) by (destruct Hf as [->|[? ?]]; [now left|right; lia]).
    assert (Hn' : ~ In a (starts s)).
    { intros Hin. apply Hn. unfold R1, starts1. apply in_or_app. now left. }
    exact (Hmiss a HfT Hn'). }
  assert (Hmiss1 : forall a, full (S T) a -> ~ In a R1 -> candFn (S T) a > Fn (S T)).
  { intros a Hf Hn. destruct (Hmiss0 a Hf Hn) as (tau & Htau & Hc).
    apply (condemned_worse a tau); [exact Hc|lia]. }
  (* the selected value is F (S T) *)
  set (a0 := nthN R1 i) in *.
  assert (Ha0 : In a0 R1) by (unfold a0, nthN; now apply nth_In).
  assert (HbF : b = Fn (S T)).
  { apply Z.le_antisymm.
    - assert (Hatt : exists a, full (S T) a /\ Fn (S T) = candFn (S T) a).
      { destruct (F_attained C pen m m_pos (S T) ltac:(lia)) as [E|(a & Ha & E)].
        - exists 0%nat. split; [now left|exact E].
        - exists a. split; [now right|exact E]. }
      destruct Hatt as (a & Hfa & Ea).
      destruct (in_dec Nat.eq_dec a R1) as [Hin|Hnin].
      + rewrite Ea, <- (Hcand a Hin). now apply Hmin.
      + pose proof (Hmiss1 a Hfa Hnin). lia.
    - rewrite Hb, (Hcand a0 Ha0). apply F_le_full; [lia|]. now apply Hsub1. }
  assert (Hdrop : forall a, In a (dropl s T b) -> In a R1 /\ condemned a (S T)).
  { intros a Ha. apply in_dropl in Ha as [Hin Hgt]. split; [exact Hin|].
    split; [now apply Hsub1|]. split; [lia|].
    rewrite (Hcand a Hin), HbF in Hgt. unfold candF in Hgt. lia. }
  set (pend := pending s ++ [dropl s T b]) in *.
  assert (Hpend1 : forall j D, nth_error pend j = Some D ->
            forall a, In a D -> condemned a (S T + 1 + j - length pend)%nat).
  { intros j D Hj a Ha. unfold pend in *. rewrite app_length. cbn [length].
    destruct (lt_dec j (length (pending s))) as [Hlt|Hge].
    - rewrite nth_error_app1 in Hj by auto. specialize (Hpend j D Hj a Ha).
      replace (S T + 1 + j - (length (pending s) + 1))%nat
        with (T + 1 + j - length (pending s))%nat by lia. exact Hpend.
    - rewrite nth_error_app2 in Hj by lia.
      destruct (j - length (pending s))%nat as [|j'] eqn:Ej; cbn in Hj; [|destruct j'; discriminate].
      assert (ED : D = dropl s T b) by congruence. subst D.
      replace (S T + 1 + j - (length (pending s) + 1))%nat with (S T) by lia.
      now apply Hdrop. }
  assert (Hlen : length pend = S (length (pending s))).
  { unfold pend. rewrite app_length. cbn [length]. lia. }
  assert (Hopt' : forall e, (e <= S T)%nat -> nthZ (opt s ++ [b]) e = Fn e).
  { intros e He. unfold nthZ. destruct (Nat.eq_dec e (S T)) as [->|Hne].
    - rewrite app_nth2 by lia. rewrite Hlo, Nat.sub_diag. cbn [nth]. exact HbF.
    - rewrite app_nth1 by lia. apply Hopt. lia. }
  rewrite Hstep.
  destruct Hq as [(Hc & Enow & Epend)|(Hc & Enow & Epend)]; subst now pend'.
  - assert (Hk : length (pending s) = delay) by lia.
    destruct pend as [|D0 ptl] eqn:Ep; [cbn in Hlen; lia|]. cbn [hd tl].
    assert (HD0 : forall a, In a D0 -> condemned a (S T - delay)%nat).
    { intros a Ha. specialize (Hpend1 0%nat D0 eq_refl a Ha).
      replace (S T + 1 + 0 - length (D0 :: ptl))%nat with (S T - delay)%nat in Hpend1
        by (rewrite Hlen; lia). exact Hpend1. }
    constructor; cbn [opt prev starts pending].
    + exact Hopt'.
    + intros a Hf Hn.
      destruct (in_dec Nat.eq_dec a R1) as [Hin|Hnin].
      * assert (Hnow : In a D0).
        { destruct (in_dec Nat.eq_dec a D0) as [Hi0|Hni0]; [exact Hi0|].
          exfalso. apply Hn, in_removeall. auto. }
        exists (S T - delay)%nat. split; [|now apply HD0].
        pose proof (HD0 a Hnow) as (_ & Hm & _). lia.
      * destruct (Hmiss0 a Hf Hnin) as (tau & Htau & Hcd). exists tau. split; [lia|exact Hcd].
    + cbn [length] in Hlen. lia.
    + intros j D Hj a Ha. specialize (Hpend1 (S j) D Hj a Ha).
      replace (S T + 1 + j - length ptl)%nat
        with (S T + 1 + S j - length (D0 :: ptl))%nat by (cbn [length]; lia). exact Hpend1.
  - constructor; cbn [opt prev starts pending].
    + exact Hopt'.
    + intros a Hf Hn.
      assert (Hnin : ~ In a R1).
      { intros Hin. apply Hn, in_removeall. split; [exact Hin|intros []]. }
      destruct (Hmiss0 a Hf Hnin) as (tau & Htau & Hcd). exists tau. split; [lia|exact Hcd].
    + exact Hc.
    + exact Hpend1.
Qed.

Lemma run_Inv n : (2 * m <= n)%nat -> Inv n (runM n).
Proof.
  intros Hn.
  assert (H : SInv n (runM n) /\ Inv n (runM n)); [|apply H].
  unfold run.
  replace n with (2 * m - 1 + (n - (2 * m - 1)))%nat at 1 3 by lia.
  apply (fold_left_seq_inv (fun T s => SInv T s /\ Inv T s) stepM).
  - intros T s HT [HS HI]. split; [now apply step_SInv|now apply step_inv].
  - split; [apply init_SInv|apply init_Inv].
Qed.

Section MainOpt.
Variable n : nat.
Hypothesis n_big : (2 * m <= n)%nat.

Notation scores := (fst (pelt C pen m delay n)).
Notation cpts := (snd (pelt C pen m delay n)).

(** every entry of [scores] (dummies included) equals the unpruned recursion *)
Theorem pelt_scores_optimal_all : forall t, (1 <= t <= n)%nat -> nth (t - 1) scores 0 = Fn t.
Proof.
  intros t Ht. rewrite (scores_nth n) by lia. apply (inv_opt n _ (run_Inv n n_big)). lia.
Qed.

Theorem pelt_optimal_nopen : forall c, Adm m c n -> pencost C pen cpts n <= pencost C pen c n.
Proof.
  intros c Hc. rewrite <- (pelt_final_is_pencost n n_big).
  rewrite pelt_scores_optimal_all by lia. now apply F_lower.
Qed.
End MainOpt.
End Optimal.
End Refine.

(* ------------------------------------------------------------------ *)
(** * T4 / T6 in the requested form.  ([0 <= pen] is not actually needed: the pruning test
      with split_cost = 0 is exactly "F a + C a tau > F tau", which is sound for any pen.) *)

Theorem pelt_scores_optimal (C : nat -> nat -> Z) (pen : Z) (m delay n : nat) :
  (1 <= m)%nat -> (2 * m <= n)%nat -> 0 <= pen -> (m <= delay + 1)%nat ->
  (forall s k e, (s + m <= k)%nat -> (k + m <= e)%nat -> C s k + C k e <= C s e) ->
  forall t, (m <= t <= n)%nat -> nth (t - 1) (fst (pelt C pen m delay n)) 0 = F C pen m t.
Proof.
  intros Hm Hn _ Hd Hs t Ht. apply pelt_scores_optimal_all; auto. lia.
Qed.

Theorem pelt_optimal (C : nat -> nat -> Z) (pen : Z) (m delay n : nat) :
  (1 <= m)%nat -> (2 * m <= n)%nat -> 0 <= pen -> (m <= delay + 1)%nat ->
  (forall s k e, (s + m <= k)%nat -> (k + m <= e)%nat -> C s k + C k e <= C s e) ->
  forall c, Adm m c n ->
    pencost C pen (snd (pelt C pen m delay n)) n <= pencost C pen c n.
Proof.
  intros Hm Hn _ Hd Hs c Hc. apply pelt_optimal_nopen; auto.
Qed.

(* ------------------------------------------------------------------ *)
(** * T7: the result only depends on the values of the cost *)

Lemma fold_left_ext {A B} (f g : A -> B -> A) (l : list B) :
  (forall a b, f a b = g a b) -> forall a, fold_left f l a = fold_left g l a.
Proof. intros H. induction l as [|x l IH]; intros a; cbn; [reflexivity|]. rewrite H. apply IH. Qed.

Lemma step_ext C1 C2 pen m delay : (forall s e, C1 s e = C2 s e) ->
  forall s t, step C1 pen m delay s t = step C2 pen m delay s t.
Proof.
  intros H s t. unfold step.
  assert (E : map (fun a => nthZ (opt s) a + C1 a (S t) + pen) (starts s ++ [(t - (m - 1))%nat])
            = map (fun a => nthZ (opt s) a + C2 a (S t) + pen) (starts s ++ [(t - (m - 1))%nat])).
  { apply map_ext. intros a. now rewrite H. }
  cbv zeta. rewrite E. reflexivity.
Qed.

Theorem pelt_ext C1 C2 pen m delay n : (forall s e, C1 s e = C2 s e) ->
  pelt C1 pen m delay n = pelt C2 pen m delay n.
Proof.
  intros H. unfold pelt, run.
  assert (Ei : init C1 pen m = init C2 pen m).
  { unfold init. f_equal. f_equal. apply map_ext. intros e. apply H. }
  rewrite Ei. rewrite (fold_left_ext _ _ _ (step_ext C1 C2 pen m delay H)). reflexivity.
Qed.

(* ------------------------------------------------------------------ *)
(** * T8: a larger penalty never yields more changepoints *)

Lemma more_penalty_fewer_cpts (C : nat -> nat -> Z) (m n : nat) (pen1 pen2 : Z) (c1 c2 : list nat) :
  pen1 < pen2 -> Adm m c1 n -> Adm m c2 n ->
  (forall c, Adm m c n -> pencost C pen1 c1 n <= pencost C pen1 c n) ->
  (forall c, Adm m c n -> pencost C pen2 c2 n <= pencost C pen2 c n) ->
  (length c2 <= length c1)%nat.
Proof.
  intros Hlt A1 A2 O1 O2. specialize (O1 c2 A2). specialize (O2 c1 A1).
  unfold pencost in O1, O2. apply Nat2Z.inj_le.
  set (k1 := Z.of_nat (length c1)) in *. set (k2 := Z.of_nat (length c2)) in *.
  set (S1 := segcost C 0 c1 n) in *. set (S2 := segcost C 0 c2 n) in *.
  destruct (Z.le_gt_cases k2 k1) as [Hle|Hgt]; [exact Hle|exfalso].
  assert (Hpos : 0 < (pen2 - pen1) * (k2 - k1)) by (apply Z.mul_pos_pos; lia).
  lia.
Qed.

Theorem pelt_penalty_monotone (C : nat -> nat -> Z) (pen1 pen2 : Z) (m delay n : nat) :
  (1 <= m)%nat -> (2 * m <= n)%nat -> 0 <= pen1 < pen2 -> (m <= delay + 1)%nat ->
  (forall s k e, (s + m <= k)%nat -> (k + m <= e)%nat -> C s k + C k e <= C s e) ->
  (length (snd (pelt C pen2 m delay n)) <= length (snd (pelt C pen1 m delay n)))%nat.
Proof.
  intros Hm Hn Hp Hd Hs.
  apply (more_penalty_fewer_cpts C m n pen1 pen2); [lia| | | |].
  - now apply pelt_adm.
  - now apply pelt_adm.
  - intros c Hc. apply pelt_optimal; auto; lia.
  - intros c Hc. apply pelt_optimal; auto; lia.
Qed.

(* ------------------------------------------------------------------ *)
(** * T9: reversing the data leaves the optimal value unchanged *)

Definition Crev (C : nat -> nat -> Z) (n : nat) : nat -> nat -> Z :=
  fun s e => C (n - e)%nat (n - s)%nat.
Definition revc (n : nat) (c : list nat) : list nat := rev (map (fun x => (n - x)%nat) c).

Section Reverse.
Variable C : nat -> nat -> Z.
Variable pen : Z.
Variable m n : nat.
Hypothesis m_pos : (1 <= m)%nat.

Lemma revc_cons a l : revc n (a :: l) = revc n l ++ [(n - a)%nat].
Proof. reflexivity. Qed.

Lemma revc_length c : length (revc n c) = length c.
Proof. unfold revc. now rewrite rev_length, map_length. Qed.

Lemma admseg_in : forall c p T x, admseg m p c T -> In x c -> (p + m <= x /\ x + m <= T)%nat.
Proof.
  induction c as [|a l IH]; intros p T x H Hin; [destruct Hin|].
  cbn [admseg] in H. destruct H as [H1 H2].
  pose proof (admseg_ge m m_pos a l T H2) as Hge.
  destruct Hin as [<-|Hin]; [lia|]. destruct (IH a T x H2 Hin). lia.
Qed.

Lemma segcost_rev : forall c p T, admseg m p c T -> (T <= n)%nat ->
  segcost (Crev C n) (n - T) (revc n c) (n - p) = segcost C p c T.
Proof.
  induction c as [|a l IH]; intros p T H HT.
  - cbn [admseg] in H. cbn [revc map rev segcost]. unfold revc. cbn [map rev segcost].
    unfold Crev. f_equal; lia.
  - cbn [admseg] in H. destruct H as [H1 H2].
    pose proof (admseg_ge m m_pos a l T H2) as Hge.
    rewrite revc_cons, (segcost_snoc (Crev C n) m m_pos), (IH a T H2 HT). cbn [segcost].
    unfold Crev. replace (n - (n - p))%nat with p by lia. replace (n - (n - a))%nat with a by lia.
    lia.
Qed.

Lemma admseg_rev : forall c p T, admseg m p c T -> (T <= n)%nat ->
  admseg m (n - T) (revc n c) (n - p).
Proof.
  induction c as [|a l IH]; intros p T H HT.
  - cbn [admseg] in H. unfold revc. cbn [map rev admseg]. lia.
  - cbn [admseg] in H. destruct H as [H1 H2].
    pose proof (admseg_ge m m_pos a l T H2) as Hge.
    rewrite revc_cons. apply (admseg_snoc C). split; [now apply IH|lia].
Qed.

Lemma revc_invol c : (forall x, In x c -> (x <= n)%nat) -> revc n (revc n c) = c.
Proof.
  intros H. unfold revc. rewrite map_rev, rev_involutive, map_map.
  rewrite <- (map_id c) at 2. apply map_ext_in. intros x Hx. specialize (H x Hx). lia.
Qed.

Lemma pencost_rev c : Adm m c n ->
  Adm m (revc n c) n /\ pencost (Crev C n) pen (revc n c) n = pencost C pen c n.
Proof.
  intros A. unfold Adm in *. split.
  - pose proof (admseg_rev c 0%nat n A (le_n n)) as H.
    now rewrite Nat.sub_diag, Nat.sub_0_r in H.
  - unfold pencost. rewrite revc_length.
    pose proof (segcost_rev c 0%nat n A (le_n n)) as H.
    rewrite Nat.sub_diag, Nat.sub_0_r in H. now rewrite H.
Qed.

Theorem F_reverse : F (Crev C n) pen m n = F C pen m n.
Proof.
  destruct (lt_dec n m) as [Hlt|Hge].
  - rewrite !F_small by assumption. reflexivity.
  - assert (Hmn : (m <= n)%nat) by lia. apply Z.le_antisymm.
    + destruct (F_upper C pen m m_pos n Hmn) as (c & A & P). rewrite <- P.
      destruct (pencost_rev c A) as [A' P']. rewrite <- P'. now apply F_lower.
    + destruct (F_upper (Crev C n) pen m m_pos n Hmn) as (c & A & P). rewrite <- P.
      destruct (pencost_rev c A) as [A' _].
      destruct (pencost_rev (revc n c) A') as [_ P''].
      rewrite revc_invol in P''.
      * rewrite P''. now apply F_lower.
      * intros x Hx. destruct (admseg_in c 0%nat n x A Hx). lia.
Qed.
End Reverse.

(* ------------------------------------------------------------------ *)
(** * T10: immediate pruning (delay = 0) is NOT exact when m >= 2 *)

(** piecewise-constant-parameter table costs:
      C s e = min_{theta <= K} sum_{i in [s,e)} loss[i][theta]
    (rows beyond the table, and columns beyond a row, count 0) *)
Definition lossAt (loss : list (list Z)) (th i : nat) : Z := nth th (nth i loss []) 0.
Definition segsum (loss : list (list Z)) (th s e : nat) : Z :=
  sumZ (map (lossAt loss th) (seq s (e - s))).
Definition tcost (loss : list (list Z)) (K : nat) (s e : nat) : Z :=
  min1 (segsum loss 0 s e) (map (fun th => segsum loss th s e) (seq 1 K)).

Lemma sumZ_app l1 l2 : sumZ (l1 ++ l2) = sumZ l1 + sumZ l2.
Proof. induction l1 as [|x l IH]; cbn [app sumZ]; [lia|]. rewrite IH. lia. Qed.

Lemma segsum_split loss th s k e : (s <= k)%nat -> (k <= e)%nat ->
  segsum loss th s e = segsum loss th s k + segsum loss th k e.
Proof.
  intros H1 H2. unfold segsum.
  replace (e - s)%nat with ((k - s) + (e - k))%nat by lia.
  rewrite seq_app, map_app, sumZ_app.
  replace (s + (k - s))%nat with k by lia. replace (k - s + (e - k) - (k - s))%nat with (e - k)%nat by lia.
  reflexivity.
Qed.

Lemma tcost_le loss K th s e : (th <= K)%nat -> tcost loss K s e <= segsum loss th s e.
Proof.
  intros H. unfold tcost. destruct th as [|th]; [apply min1_le_head|].
  apply min1_le_in. apply (in_map (fun th0 => segsum loss th0 s e)). apply in_seq. lia.
Qed.

Lemma tcost_attained loss K s e : exists th, (th <= K)%nat /\ tcost loss K s e = segsum loss th s e.
Proof.
  unfold tcost.
  destruct (min1_in (segsum loss 0 s e) (map (fun th => segsum loss th s e) (seq 1 K))) as [E|Hin].
  - exists 0%nat. split; [lia|exact E].
  - apply in_map_iff in Hin as (th & E & Hth). apply in_seq in Hth.
    exists th. split; [lia|]. now rewrite E.
Qed.

(** min of sums >= sum of mins: the split inequality holds for ALL s <= k <= e *)
Lemma tcost_split loss K s k e : (s <= k)%nat -> (k <= e)%nat ->
  tcost loss K s k + tcost loss K k e <= tcost loss K s e.
Proof.
  intros H1 H2. destruct (tcost_attained loss K s e) as (th & Hth & E).
  rewrite E, (segsum_split loss th s k e H1 H2).
  pose proof (tcost_le loss K th s k Hth). pose proof (tcost_le loss K th k e Hth). lia.
Qed.

(** witness found by random search (two parameter values, five observations) *)
Definition wloss : list (list Z) := [[3; 0]; [1; 0]; [0; 1]; [0; 2]; [3; 0]].

Lemma witness_values :
  nth 4 (fst (pelt (tcost wloss 1) 1 2 0 5)) 0 = 4 /\ F (tcost wloss 1) 1 2 5 = 3 /\
  nth 4 (fst (pelt (tcost wloss 1) 1 2 1 5)) 0 = 3.
Proof. vm_compute. repeat split. Qed.

Theorem pelt_immediate_pruning_refuted :
  exists (C : nat -> nat -> Z) (pen : Z) (m n : nat),
    (1 <= m)%nat /\ (2 * m <= n)%nat /\ 0 <= pen /\
    (forall s k e, (s + m <= k)%nat -> (k + m <= e)%nat -> C s k + C k e <= C s e) /\
    nth (n - 1) (fst (pelt C pen m 0 n)) 0 <> F C pen m n.
Proof.
  exists (tcost wloss 1), 1, 2%nat, 5%nat.
  split; [lia|]. split; [lia|]. split; [lia|]. split.
  - intros s k e H1 H2. apply tcost_split; lia.
  - destruct witness_values as (H1 & H2 & _).
    change (5 - 1)%nat with 4%nat. rewrite H1, H2. discriminate.
Qed.

(* ------------------------------------------------------------------ *)
Print Assumptions pelt_scores_length.
Print Assumptions pelt_adm.
Print Assumptions pelt_final_is_pencost.
Print Assumptions pelt_scores_optimal.
Print Assumptions pelt_scores_dummy.
Print Assumptions pelt_optimal.
Print Assumptions pelt_ext.
Print Assumptions pelt_penalty_monotone.
Print Assumptions F_reverse.
Print Assumptions pelt_immediate_pruning_refuted.
