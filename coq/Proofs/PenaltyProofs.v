(** Default penalties / thresholds: documented closed forms, proportionality to the
    scale, non-negativity, and the combined (pointwise-minimum) MVCAPA penalty.

    Gen/KernelsR.v is regenerated on every run, so every proof below unfolds the
    generated definition, normalises INR of products/sums and closes with
    ring / field / lra / nra -- never by reflexivity on the syntactic shape. *)
From Coq Require Import Reals Lra Lia Psatz List.
From SK Require Import Gen.KernelsR Model.Penalty.
Open Scope R_scope.

(* ------------------------------------------------------------------ *)
(** * Small real-analysis helpers *)

Lemma INR_2 : INR 2 = 2.
Proof. simpl; lra. Qed.

Ltac inr_norm := repeat (rewrite ?mult_INR, ?plus_INR, ?INR_2); try (simpl INR).

(** make the arguments of sqrt / ln on the left syntactically equal to ring-equal arguments on the right
    (so that a harmless reordering inside sqrt(...) or ln(...) in the source does not break [ring]) *)
Ltac align_args :=
  repeat match goal with
  | |- ?lhs = ?rhs =>
    match lhs with
    | context [sqrt ?a] => match rhs with context [sqrt ?b] => lazymatch a with b => fail | _ => replace a with b by ring end end
    | context [ln ?a] => match rhs with context [ln ?b] => lazymatch a with b => fail | _ => replace a with b by ring end end
    end
  end.

Lemma ln_INR_nonneg (n : nat) : (1 <= n)%nat -> 0 <= ln (INR n).
Proof.
  intros Hn.
  assert (H1 : 1 <= INR n) by (replace 1 with (INR 1) by reflexivity; apply le_INR; exact Hn).
  destruct (Rle_lt_or_eq_dec _ _ H1) as [Hlt | Heq].
  - left. rewrite <- ln_1. apply ln_increasing; lra.
  - rewrite <- Heq, ln_1. lra.
Qed.

Lemma ln_ge1_nonneg (x : R) : 1 <= x -> 0 <= ln x.
Proof.
  intros H1.
  destruct (Rle_lt_or_eq_dec _ _ H1) as [Hlt | Heq].
  - left. rewrite <- ln_1. apply ln_increasing; lra.
  - rewrite <- Heq, ln_1. lra.
Qed.

Lemma INR_ge1 (n : nat) : (1 <= n)%nat -> 1 <= INR n.
Proof. intros Hn. replace 1 with (INR 1) by reflexivity. apply le_INR; exact Hn. Qed.

(* ------------------------------------------------------------------ *)
(** * A1. Documented formulas *)

Theorem pelt_penalty_formula (n p : nat) :
  pelt_default_penalty_R n p = 2 * INR p * ln (INR n).
Proof. unfold pelt_default_penalty_R. inr_norm. align_args. ring. Qed.

Theorem sbs_threshold_formula (n p : nat) :
  sbs_default_threshold_R n p = 2 * INR p * sqrt (ln (INR n)).
Proof. unfold sbs_default_threshold_R. inr_norm. align_args. ring. Qed.

Theorem cbs_threshold_formula (n p maxlen : nat) :
  cbs_default_threshold_R n p maxlen = 2 * INR p * ln (INR n * INR maxlen).
Proof. unfold cbs_default_threshold_R. inr_norm. align_args. ring. Qed.

Theorem capa_penalty_formula (n k : nat) (scale : R) :
  capa_penalty_R n k scale = scale * (INR k + 2 * sqrt (INR k * ln (INR n)) + 2 * ln (INR n)).
Proof. unfold capa_penalty_R. inr_norm. align_args. ring. Qed.

Theorem dense_formula (n p npv : nat) (scale : R) :
  dense_mvcapa_penalty_alpha_R n p npv scale = capa_penalty_R n (p * npv) scale /\
  dense_mvcapa_penalty_beta_R n p npv scale = 0.
Proof.
  split.
  - unfold dense_mvcapa_penalty_alpha_R, capa_penalty_R. ring.
  - unfold dense_mvcapa_penalty_beta_R. ring.
Qed.

Theorem sparse_formula (n p npv : nat) (scale : R) :
  sparse_mvcapa_penalty_alpha_R n p npv scale = scale * (2 * ln (INR n)) /\
  sparse_mvcapa_penalty_beta_R n p npv scale = scale * (2 * ln (INR npv * INR p)).
Proof.
  split.
  - unfold sparse_mvcapa_penalty_alpha_R. ring.
  - unfold sparse_mvcapa_penalty_beta_R. inr_norm. ring.
Qed.

(* ------------------------------------------------------------------ *)
(** * A2. Proportionality to the scale, non-negativity *)

Theorem capa_penalty_scale (n k : nat) (scale : R) :
  capa_penalty_R n k scale = scale * capa_penalty_R n k 1.
Proof. rewrite !capa_penalty_formula. ring. Qed.

Theorem dense_scale (n p npv : nat) (scale : R) :
  dense_mvcapa_penalty_alpha_R n p npv scale = scale * dense_mvcapa_penalty_alpha_R n p npv 1 /\
  dense_mvcapa_penalty_beta_R n p npv scale = scale * dense_mvcapa_penalty_beta_R n p npv 1.
Proof.
  destruct (dense_formula n p npv scale) as [Ha Hb].
  destruct (dense_formula n p npv 1) as [Ha1 Hb1].
  split.
  - rewrite Ha, Ha1. apply capa_penalty_scale.
  - rewrite Hb, Hb1. ring.
Qed.

Theorem sparse_scale (n p npv : nat) (scale : R) :
  sparse_mvcapa_penalty_alpha_R n p npv scale = scale * sparse_mvcapa_penalty_alpha_R n p npv 1 /\
  sparse_mvcapa_penalty_beta_R n p npv scale = scale * sparse_mvcapa_penalty_beta_R n p npv 1.
Proof.
  destruct (sparse_formula n p npv scale) as [Ha Hb].
  destruct (sparse_formula n p npv 1) as [Ha1 Hb1].
  split.
  - rewrite Ha, Ha1. ring.
  - rewrite Hb, Hb1. ring.
Qed.

Theorem capa_penalty_nonneg (n k : nat) (scale : R) :
  (1 <= n)%nat -> 0 <= scale -> 0 <= capa_penalty_R n k scale.
Proof.
  intros Hn Hs. rewrite capa_penalty_formula.
  assert (Hk : 0 <= INR k) by apply pos_INR.
  assert (Hl : 0 <= ln (INR n)) by (apply ln_INR_nonneg; exact Hn).
  assert (Hq : 0 <= sqrt (INR k * ln (INR n))) by apply sqrt_pos.
  apply Rmult_le_pos; [exact Hs | lra].
Qed.

Theorem dense_alpha_nonneg (n p npv : nat) (scale : R) :
  (1 <= n)%nat -> 0 <= scale -> 0 <= dense_mvcapa_penalty_alpha_R n p npv scale.
Proof.
  intros Hn Hs. destruct (dense_formula n p npv scale) as [Ha _]. rewrite Ha.
  apply capa_penalty_nonneg; assumption.
Qed.

Theorem dense_beta_nonneg (n p npv : nat) (scale : R) :
  0 <= dense_mvcapa_penalty_beta_R n p npv scale.
Proof. destruct (dense_formula n p npv scale) as [_ Hb]. rewrite Hb. lra. Qed.

Theorem sparse_alpha_nonneg (n p npv : nat) (scale : R) :
  (1 <= n)%nat -> 0 <= scale -> 0 <= sparse_mvcapa_penalty_alpha_R n p npv scale.
Proof.
  intros Hn Hs. destruct (sparse_formula n p npv scale) as [Ha _]. rewrite Ha.
  assert (Hl : 0 <= ln (INR n)) by (apply ln_INR_nonneg; exact Hn).
  apply Rmult_le_pos; [exact Hs | lra].
Qed.

Theorem sparse_beta_nonneg (n p npv : nat) (scale : R) :
  (1 <= npv)%nat -> (1 <= p)%nat -> 0 <= scale ->
  0 <= sparse_mvcapa_penalty_beta_R n p npv scale.
Proof.
  intros Hv Hp Hs. destruct (sparse_formula n p npv scale) as [_ Hb]. rewrite Hb.
  assert (H1 : 1 <= INR npv) by (apply INR_ge1; exact Hv).
  assert (H2 : 1 <= INR p) by (apply INR_ge1; exact Hp).
  assert (H3 : 1 <= INR npv * INR p) by nra.
  assert (Hl : 0 <= ln (INR npv * INR p)) by (apply ln_ge1_nonneg; exact H3).
  apply Rmult_le_pos; [exact Hs | lra].
Qed.

(* ------------------------------------------------------------------ *)
(** * A3. The combined (pointwise-minimum) penalty *)

Theorem combined_cumulative (d sp im : nat -> R) (k : nat) :
  cum_of (combined_beta d sp im) k = cum_min d sp im k.
Proof.
  induction k as [|k IH].
  - unfold cum_of, cum_min. ring.
  - cbn [cum_of]. rewrite IH. unfold combined_beta. ring.
Qed.

Theorem combined_is_pointwise_min (d sp im : nat -> R) (k : nat) :
  (1 <= k)%nat -> cum_of (combined_beta d sp im) k = Rmin (d k) (Rmin (sp k) (im k)).
Proof.
  intros Hk. rewrite combined_cumulative.
  destruct k as [|k']; [lia|]. unfold cum_min. ring.
Qed.

Theorem combined_le_each (d sp im : nat -> R) (k : nat) :
  (1 <= k)%nat ->
  cum_of (combined_beta d sp im) k <= d k /\
  cum_of (combined_beta d sp im) k <= sp k /\
  cum_of (combined_beta d sp im) k <= im k.
Proof.
  intros Hk. rewrite (combined_is_pointwise_min d sp im k Hk).
  pose proof (Rmin_l (d k) (Rmin (sp k) (im k))) as H1.
  pose proof (Rmin_r (d k) (Rmin (sp k) (im k))) as H2.
  pose proof (Rmin_l (sp k) (im k)) as H3.
  pose proof (Rmin_r (sp k) (im k)) as H4.
  repeat split; lra.
Qed.

(** [f] is non-decreasing on the index range [1, p] *)
Definition nondecr_on (f : nat -> R) (p : nat) : Prop :=
  forall i : nat, (1 <= i)%nat -> (S i <= p)%nat -> f i <= f (S i).

Lemma Rmin3_mono (a b c a' b' c' : R) :
  a <= a' -> b <= b' -> c <= c' -> Rmin a (Rmin b c) <= Rmin a' (Rmin b' c').
Proof.
  intros Ha Hb Hc.
  pose proof (Rmin_l a (Rmin b c)) as H1.
  pose proof (Rmin_r a (Rmin b c)) as H2.
  pose proof (Rmin_l b c) as H3.
  pose proof (Rmin_r b c) as H4.
  apply Rmin_glb; [lra|]. apply Rmin_glb; lra.
Qed.

Theorem combined_betas_nonneg (d sp im : nat -> R) (p j : nat) :
  0 <= d 1%nat -> 0 <= sp 1%nat -> 0 <= im 1%nat ->
  nondecr_on d p -> nondecr_on sp p -> nondecr_on im p ->
  (j < p)%nat -> 0 <= combined_beta d sp im j.
Proof.
  intros Hd1 Hs1 Hi1 Hd Hs Hi Hj. unfold combined_beta.
  destruct j as [|j'].
  - unfold cum_min.
    assert (H : 0 <= Rmin (d 1%nat) (Rmin (sp 1%nat) (im 1%nat))).
    { apply Rmin_glb; [exact Hd1|]. apply Rmin_glb; assumption. }
    lra.
  - unfold cum_min.
    assert (H : Rmin (d (S j')) (Rmin (sp (S j')) (im (S j')))
                <= Rmin (d (S (S j'))) (Rmin (sp (S (S j'))) (im (S (S j'))))).
    { apply Rmin3_mono; [apply Hd | apply Hs | apply Hi]; lia. }
    lra.
Qed.

Lemma Rmin_scale (c a b : R) : 0 <= c -> Rmin (c * a) (c * b) = c * Rmin a b.
Proof.
  intros Hc. unfold Rmin.
  destruct (Rle_dec a b) as [Hab | Hab]; destruct (Rle_dec (c * a) (c * b)) as [Hcab | Hcab].
  - ring.
  - exfalso. apply Hcab. apply Rmult_le_compat_l; assumption.
  - apply Rnot_le_lt in Hab. apply Rle_antisym; [exact Hcab|].
    apply Rmult_le_compat_l; [exact Hc | lra].
  - ring.
Qed.

Theorem combined_scale (d sp im : nat -> R) (c : R) (k : nat) :
  0 <= c ->
  cum_min (fun j => c * d j) (fun j => c * sp j) (fun j => c * im j) k = c * cum_min d sp im k.
Proof.
  intros Hc. destruct k as [|k'].
  - unfold cum_min. ring.
  - unfold cum_min. rewrite !Rmin_scale by exact Hc. ring.
Qed.

(** hence the combined betas scale as well *)
Corollary combined_beta_scale (d sp im : nat -> R) (c : R) (j : nat) :
  0 <= c ->
  combined_beta (fun j => c * d j) (fun j => c * sp j) (fun j => c * im j) j
  = c * combined_beta d sp im j.
Proof.
  intros Hc. unfold combined_beta. rewrite !combined_scale by exact Hc. ring.
Qed.

(** ** the dense and sparse cumulative sequences from the generated kernels *)

Theorem dense_cum_const (n p npv : nat) (scale : R) (j : nat) :
  dense_cum n p npv scale j = capa_penalty_R n (p * npv) scale.
Proof.
  unfold dense_cum. destruct (dense_formula n p npv scale) as [Ha Hb].
  rewrite Ha, Hb. ring.
Qed.

Theorem dense_cum_nondecr (n p npv : nat) (scale : R) (j : nat) :
  dense_cum n p npv scale j <= dense_cum n p npv scale (S j).
Proof. rewrite !dense_cum_const. lra. Qed.

Theorem dense_cum_nonneg (n p npv : nat) (scale : R) (j : nat) :
  (1 <= n)%nat -> 0 <= scale -> 0 <= dense_cum n p npv scale j.
Proof. intros Hn Hs. rewrite dense_cum_const. apply capa_penalty_nonneg; assumption. Qed.

Theorem sparse_cum_nondecr (n p npv : nat) (scale : R) (j : nat) :
  (1 <= npv)%nat -> (1 <= p)%nat -> 0 <= scale ->
  sparse_cum n p npv scale j <= sparse_cum n p npv scale (S j).
Proof.
  intros Hv Hp Hs. unfold sparse_cum. rewrite S_INR.
  pose proof (sparse_beta_nonneg n p npv scale Hv Hp Hs) as Hb.
  set (b := sparse_mvcapa_penalty_beta_R n p npv scale) in *.
  set (a := sparse_mvcapa_penalty_alpha_R n p npv scale).
  nra.
Qed.

Theorem sparse_cum_nonneg (n p npv : nat) (scale : R) (j : nat) :
  (1 <= n)%nat -> (1 <= npv)%nat -> (1 <= p)%nat -> 0 <= scale ->
  0 <= sparse_cum n p npv scale j.
Proof.
  intros Hn Hv Hp Hs. unfold sparse_cum.
  pose proof (sparse_alpha_nonneg n p npv scale Hn Hs) as Ha.
  pose proof (sparse_beta_nonneg n p npv scale Hv Hp Hs) as Hb.
  pose proof (pos_INR j) as Hj.
  set (b := sparse_mvcapa_penalty_beta_R n p npv scale) in *.
  set (a := sparse_mvcapa_penalty_alpha_R n p npv scale) in *.
  nra.
Qed.

(** both cumulative sequences are proportional to the scale *)
Theorem dense_cum_scale (n p npv : nat) (scale : R) (j : nat) :
  dense_cum n p npv scale j = scale * dense_cum n p npv 1 j.
Proof.
  unfold dense_cum. destruct (dense_scale n p npv scale) as [Ha Hb]. rewrite Ha, Hb. ring.
Qed.

Theorem sparse_cum_scale (n p npv : nat) (scale : R) (j : nat) :
  sparse_cum n p npv scale j = scale * sparse_cum n p npv 1 j.
Proof.
  unfold sparse_cum. destruct (sparse_scale n p npv scale) as [Ha Hb]. rewrite Ha, Hb. ring.
Qed.

(** the combined penalty built from the generated dense/sparse kernels and ANY
    non-negative, non-decreasing intermediate oracle has non-negative betas *)
Theorem combined_betas_nonneg_inst (n p npv : nat) (scale : R) (im : nat -> R) (j : nat) :
  (1 <= n)%nat -> (1 <= npv)%nat -> (1 <= p)%nat -> 0 <= scale ->
  0 <= im 1%nat -> nondecr_on im p -> (j < p)%nat ->
  0 <= combined_beta (dense_cum n p npv scale) (sparse_cum n p npv scale) im j.
Proof.
  intros Hn Hv Hp Hs Hi1 Hi Hj.
  apply (combined_betas_nonneg _ _ _ p j).
  - apply dense_cum_nonneg; assumption.
  - apply sparse_cum_nonneg; assumption.
  - exact Hi1.
  - intros i _ _. apply dense_cum_nondecr.
  - intros i _ _. apply sparse_cum_nondecr; assumption.
  - exact Hi.
  - exact Hj.
Qed.

(* ------------------------------------------------------------------ *)
(** * Observation on the library's call inside combined_mvcapa_penalty

    The library computes the dense component of the combined penalty as
        dense_mvcapa_penalty(n, p * n_params_per_variable, scale)
    i.e. positionally (n, p := p * npv, n_params_per_variable := scale, scale := 1.0),
    whereas the documented intent is dense_mvcapa_penalty(n, p, npv, scale).
    The two agree for scale = 1 but not in general; e.g. for scale = 4 the
    library's value is strictly smaller whenever n >= 2. *)

Lemma ln_INR_pos (n : nat) : (2 <= n)%nat -> 0 < ln (INR n).
Proof.
  intros Hn.
  assert (H2 : 2 <= INR n) by (rewrite <- INR_2; apply le_INR; exact Hn).
  rewrite <- ln_1. apply ln_increasing; lra.
Qed.

Theorem combined_dense_slip_agrees_at_scale1 (n p npv : nat) :
  dense_mvcapa_penalty_alpha_R n (p * npv) 1 1 = dense_mvcapa_penalty_alpha_R n p npv 1.
Proof.
  destruct (dense_formula n (p * npv) 1 1) as [Ha _].
  destruct (dense_formula n p npv 1) as [Hb _].
  rewrite Ha, Hb, !capa_penalty_formula. inr_norm. rewrite !Rmult_1_r. ring.
Qed.

Theorem combined_dense_slip_differs (n p npv : nat) :
  (2 <= n)%nat ->
  dense_mvcapa_penalty_alpha_R n (p * npv) 4 1 < dense_mvcapa_penalty_alpha_R n p npv 4.
Proof.
  intros Hn.
  destruct (dense_formula n (p * npv) 4 1) as [Ha _].
  destruct (dense_formula n p npv 4) as [Hb _].
  rewrite Ha, Hb, !capa_penalty_formula.
  pose proof (ln_INR_pos n Hn) as Hl.
  assert (H4 : INR 4 = 4) by (simpl; lra).
  rewrite (mult_INR (p * npv) 4), H4.
  set (K := INR (p * npv)).
  assert (HK : 0 <= K) by (subst K; apply pos_INR).
  set (psi := ln (INR n)) in *.
  assert (HKp : 0 <= K * psi) by (apply Rmult_le_pos; lra).
  assert (Hsq : sqrt (K * 4 * psi) = 2 * sqrt (K * psi)).
  { replace (K * 4 * psi) with ((2 * 2) * (K * psi)) by ring.
    rewrite sqrt_mult by lra. rewrite sqrt_square by lra. reflexivity. }
  rewrite Hsq.
  pose proof (sqrt_pos (K * psi)) as Hs.
  lra.
Qed.

Print Assumptions pelt_penalty_formula.
Print Assumptions sbs_threshold_formula.
Print Assumptions cbs_threshold_formula.
Print Assumptions capa_penalty_formula.
Print Assumptions dense_formula.
Print Assumptions sparse_formula.
Print Assumptions capa_penalty_scale.
Print Assumptions dense_scale.
Print Assumptions sparse_scale.
Print Assumptions capa_penalty_nonneg.
Print Assumptions dense_alpha_nonneg.
Print Assumptions sparse_alpha_nonneg.
Print Assumptions sparse_beta_nonneg.
Print Assumptions combined_cumulative.
Print Assumptions combined_is_pointwise_min.
Print Assumptions combined_le_each.
Print Assumptions combined_betas_nonneg.
Print Assumptions combined_scale.
Print Assumptions dense_cum_nondecr.
Print Assumptions sparse_cum_nondecr.
Print Assumptions combined_betas_nonneg_inst.
Print Assumptions combined_dense_slip_differs.
