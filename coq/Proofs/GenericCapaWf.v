(** Well-formedness of the OUTPUT of the generic CAPA / MVCAPA (Model/GenericCapa.v) for EVERY record of
    operations [N : num] -- no law of [add], [neg], [ltb], [leb] is used, nor any property of the
    "negligible beta" test [tiny].  In particular the statements hold at binary64 ([F64] of
    Model/GenericF.v) whatever the scores are, NaN and infinities included: comparisons only steer the
    choice among back-pointers that are admissible by construction.

    Port of the structural part of Proofs/CapaDP.v ([WInv], [chain_valid], [capa_wellformed],
    [capa_scores_length], [capa_ignore_points]).  The value part of the Z invariant (monotone scores,
    "opt[i+1] = opt[a] + Pc a (i+1)") needs the order laws and is dropped; what remains is:
      - the lengths of the score and back-pointer arrays;
      - every back-pointer recorded at index i is NaN ([None]), the point [i], or a start [a] with
        m <= i + 1 - a <= M;
      - every start in the pruned list is admissible for the next end.
    The nat-only lemmas of Proofs/CapaDP.v ([chain], [get_anoms_chain], [valid_from_snoc], ...) are
    reused as they are. *)
From Coq Require Import List Lia Bool Arith.
From SK Require Import Lib.Base Model.Capa Proofs.CapaSpec Proofs.CapaDP
                       Model.Generic Model.GenericCapa Model.GenericF.
Import ListNotations.

(** ---------- the first-maximum scan returns a position of the list (no laws) ---------- *)
Lemma gargmax_from_index (N : num) (l : list (T N)) : forall bi b i j v,
  gargmax_from N bi b i l = (j, v) -> j = bi \/ (i <= j < i + length l).
Proof.
  induction l as [|x t IH]; intros bi b i j v H; cbn [gargmax_from] in H.
  - inversion H; subst. left. reflexivity.
  - cbn [length]. destruct (ltb N b x).
    + apply IH in H as [->|Hr]; right; lia.
    + apply IH in H as [->|Hr]; [left; reflexivity|right; lia].
Qed.

Lemma gargmax_index (N : num) (l : list (T N)) i v : gargmax N l = Some (i, v) -> i < length l.
Proof.
  destruct l as [|x t]; cbn [gargmax]; [discriminate|].
  intros H. inversion H as [H']. apply gargmax_from_index in H' as [->|Hr]; cbn [length]; lia.
Qed.

Section Wf.
Variable N : num.
Notation V := (T N).
Variable tiny : V -> bool.
Variable Sc : nat -> nat -> list V.
Variable Sp : nat -> list V.
Variables (ac : V) (bc : list V) (ap : V) (bp : list V).
Variables (m M delay : nat).
Hypothesis Hm2 : 2 <= m.
Hypothesis HmM : m <= M.

Notation PC := (gPc N tiny Sc ac bc).
Notation PP := (gPp N tiny Sp ap bp).
Notation stepG := (gcstep N tiny Sc Sp ac bc ap bp m M delay).
Notation runG := (gcrun N tiny Sc Sp ac bc ap bp m M delay).
Notation capaG := (gcapa N tiny Sc Sp ac bc ap bp m M delay).

(** the pieces of one iteration *)
Definition gstarts1 (s : gcst N) (t : nat) : list nat :=
  if m <=? S t then gcstarts N s ++ [S t - m] else gcstarts N s.
Definition gcands (s : gcst N) (t : nat) : list V :=
  map (fun a => add N (nthV N (gcopt N s) a) (PC a (S t))) (gstarts1 s t).
Definition gchoose (s : gcst N) (t : nat) : option nat * V :=
  let ot := nthV N (gcopt N s) t in
  let optp := add N ot (PP t) in
  match gargmax N (gcands s t) with
  | None => if ltb N ot optp then (Some t, optp) else (None, ot)
  | Some (i, oc) =>
      if ltb N ot oc then (if ltb N oc optp then (Some t, optp) else (Some (nthN (gstarts1 s t) i), oc))
      else (if ltb N ot optp then (Some t, optp) else (None, ot))
  end.
Definition glow (s : gcst N) (t : nat) (best : V) : list nat :=
  map fst (filter (fun ac0 => ltb N (add N (snd ac0) (add N ac (gsum N bc))) best)
                  (combine (gstarts1 s t) (gcands s t))).
Definition gpopped (s : gcst N) (lw : list nat) : list nat * list (list nat) :=
  let pend := gcpending N s ++ [lw] in
  if delay <? length pend then (hd [] pend, tl pend) else ([], pend).
Definition gkeep (s : gcst N) (t : nat) (now : list nat) : list nat :=
  filter (fun a => negb (memb a now) && negb (a + M <? S t + 1)) (gstarts1 s t).

Lemma gcstep_eq s t :
  stepG s t =
  let '(choice, best) := gchoose s t in
  let '(now, pend') := gpopped s (glow s t best) in
  {| gcopt := gcopt N s ++ [best]; gcastart := gcastart N s ++ [choice];
     gcstarts := gkeep s t now; gcpending := pend' |}.
Proof. reflexivity. Qed.

Lemma gcrun_S n : runG (S n) = stepG (runG n) n.
Proof. unfold gcrun. rewrite seq_S, fold_left_app. reflexivity. Qed.

(** whatever the comparisons answer, the recorded back-pointer is NaN, the point [t], or an element of
    the current start list *)
Lemma gchoose_spec s t choice best : gchoose s t = (choice, best) ->
  match choice with
  | None => True
  | Some a => a = t \/ exists i, i < length (gstarts1 s t) /\ a = nthN (gstarts1 s t) i
  end.
Proof.
  unfold gchoose. cbv zeta.
  destruct (gargmax N (gcands s t)) as [[i oc]|] eqn:E.
  - apply gargmax_index in E. unfold gcands in E. rewrite map_length in E.
    destruct (ltb N (nthV N (gcopt N s) t) oc).
    + destruct (ltb N oc _); intros E'; inversion E'; subst choice best.
      * left. reflexivity.
      * right. exists i. split; [exact E|reflexivity].
    + destruct (ltb N (nthV N (gcopt N s) t) _); intros E'; inversion E'; subst choice best.
      * left. reflexivity.
      * exact I.
  - destruct (ltb N (nthV N (gcopt N s) t) _); intros E'; inversion E'; subst choice best.
    + left. reflexivity.
    + exact I.
Qed.

(** structural invariant after T iterations *)
Definition gas_ok (i : nat) (ch : option nat) : Prop :=
  match ch with
  | None => True
  | Some a => a = i \/ (a + m <= S i /\ S i <= a + M)
  end.

Record GInv (T : nat) (s : gcst N) : Prop := {
  g_len_opt : length (gcopt N s) = S T;
  g_len_as : length (gcastart N s) = T;
  g_as : forall i, i < T -> gas_ok i (nth i (gcastart N s) None);
  g_starts : forall a, In a (gcstarts N s) -> a + m <= T /\ S T <= a + M }.

Lemma gstarts1_range t s : GInv t s ->
  forall a, In a (gstarts1 s t) -> a + m <= S t /\ S t <= a + M.
Proof.
  intros W a Ha. unfold gstarts1 in Ha.
  destruct (m <=? S t) eqn:E.
  - apply Nat.leb_le in E. apply in_app_or in Ha as [Ha|[<-|[]]].
    + destruct (g_starts _ _ W a Ha). lia.
    + lia.
  - destruct (g_starts _ _ W a Ha). lia.
Qed.

Lemma gcinit_GInv : GInv 0 (gcinit N).
Proof.
  constructor; cbn [gcinit gcopt gcastart gcstarts length].
  - reflexivity.
  - reflexivity.
  - intros i Hi. lia.
  - intros a [].
Qed.

Lemma gcstep_GInv t s : GInv t s -> GInv (S t) (stepG s t).
Proof.
  intros W. pose proof W as [Hlo Hla Has Hst].
  rewrite gcstep_eq. destruct (gchoose s t) as [choice best] eqn:Ech.
  destruct (gpopped s (glow s t best)) as [now pend'] eqn:Epop.
  apply gchoose_spec in Ech.
  constructor; cbn [gcopt gcastart gcstarts gcpending].
  - rewrite app_length, Hlo. cbn [length]. lia.
  - rewrite app_length, Hla. cbn [length]. lia.
  - intros i Hi. destruct (Nat.eq_dec i t) as [->|Hne].
    + rewrite app_nth2 by lia. rewrite Hla, Nat.sub_diag. cbn [nth].
      unfold gas_ok. destruct choice as [a|]; [|exact I].
      destruct Ech as [->|(i0 & Hi0 & Ea)].
      * left. reflexivity.
      * right. assert (Hin : In a (gstarts1 s t)) by (subst a; now apply nth_In).
        exact (gstarts1_range t s W a Hin).
    + rewrite app_nth1 by lia. apply Has. lia.
  - intros a Ha. unfold gkeep in Ha. apply filter_In in Ha as [Hin Hf].
    apply andb_true_iff in Hf as [_ Hf]. apply negb_true_iff, Nat.ltb_ge in Hf.
    destruct (gstarts1_range t s W a Hin). lia.
Qed.

Lemma gcrun_GInv n : GInv n (runG n).
Proof.
  induction n as [|n IH]; [exact gcinit_GInv|]. rewrite gcrun_S. now apply gcstep_GInv.
Qed.

(** the back-pointer chain from any [e <= T] is a valid anomaly set for [0,e) *)
Lemma gchain_valid T s : GInv T s -> forall fuel e, e <= fuel -> e <= T ->
  valid_from m M 0 (map to_anom (chain fuel (gcastart N s) e)) e.
Proof.
  intros W. induction fuel as [|f IH]; intros e Hf HT.
  - replace e with 0 by lia. cbn. lia.
  - destruct e as [|i].
    + cbn. lia.
    + cbn [chain]. pose proof (g_as _ _ W i ltac:(lia)) as Hok. unfold gas_ok in Hok.
      destruct (nth i (gcastart N s) None) as [a|].
      * destruct Hok as [->|(H1 & H2)].
        -- rewrite Nat.ltb_irrefl, Nat.eqb_refl.
           pose proof (IH i ltac:(lia) ltac:(lia)) as V0.
           rewrite map_app. cbn [map]. rewrite to_anom_pt.
           apply valid_from_snoc. cbn [a_start a_end a_ok]. split; [exact V0|]. split; [exact I|lia].
        -- replace (a <? i) with true by (symmetry; apply Nat.ltb_lt; lia).
           pose proof (IH a ltac:(lia) ltac:(lia)) as V0.
           rewrite map_app. cbn [map]. rewrite to_anom_coll by lia.
           apply valid_from_snoc. cbn [a_start a_end a_ok]. split; [exact V0|]. split; [lia|lia].
      * pose proof (IH i ltac:(lia) ltac:(lia)) as V0.
        apply valid_from_weaken with (T := i); [exact V0|lia].
Qed.

Lemma gcapa_eq n scores c p : capaG n = (scores, c, p) ->
  scores = tl (gcopt N (runG n)) /\ get_anoms n (gcastart N (runG n)) n = (c, p).
Proof.
  unfold gcapa. cbv zeta. destruct (get_anoms n (gcastart N (runG n)) n) as [c' p'].
  intros H. inversion H; subst. auto.
Qed.

(** prefix version: the back-pointer chain from any T <= n *)
Lemma gcapa_prefix_valid n scores c p T c' p' : capaG n = (scores, c, p) -> T <= n ->
  get_anoms T (gcastart N (runG n)) T = (c', p') ->
  Valid m M (map to_anom (capa_predict false c' p')) T.
Proof.
  intros _ HT Hg. pose proof (gcrun_GInv n) as W.
  apply get_anoms_chain in Hg as (H1 & _ & _). unfold capa_predict. rewrite H1.
  apply (gchain_valid n _ W); lia.
Qed.

(** (W1) one cumulative score per sample (needs neither 2 <= m nor m <= M) *)
Lemma gcrun_len_opt n : length (gcopt N (runG n)) = S n.
Proof using.
  clear Hm2 HmM. induction n as [|n IH]; [reflexivity|].
  rewrite gcrun_S, gcstep_eq. destruct (gchoose (runG n) n) as [choice best].
  destruct (gpopped (runG n) (glow (runG n) n best)) as [now pend'].
  cbn [gcopt]. rewrite app_length, IH. cbn [length]. lia.
Qed.

Theorem gcapa_scores_length n scores c p : capaG n = (scores, c, p) -> length scores = n.
Proof using.
  clear Hm2 HmM. intros Hc. apply gcapa_eq in Hc as [-> _].
  pose proof (gcrun_len_opt n) as Hl.
  destruct (gcopt N (runG n)); cbn [length tl] in *; lia.
Qed.

(** (W2) the reported anomalies are a valid anomaly set *)
Theorem gcapa_output_valid n scores c p : capaG n = (scores, c, p) ->
  Valid m M (map to_anom (capa_predict false c p)) n.
Proof.
  intros Hc. pose proof (gcapa_eq _ _ _ _ Hc) as [_ Hg].
  exact (gcapa_prefix_valid n scores c p n c p Hc (le_n n) Hg).
Qed.

(** (W4) ignore_point_anomalies only removes the point anomalies (needs neither 2 <= m nor m <= M) *)
Theorem gcapa_ignore_points n scores c p : capaG n = (scores, c, p) ->
  capa_predict true c p = filter (fun se => negb (is_point se)) (capa_predict false c p).
Proof using.
  intros Hc. apply gcapa_eq in Hc as [_ Hg]. now apply predict_ignore_points in Hg.
Qed.

(** every reported interval lies inside [0, n) and is non-empty *)
Theorem gcapa_intervals_in_range n scores c p : capaG n = (scores, c, p) ->
  forall se, In se (capa_predict false c p) -> fst se < snd se /\ snd se <= n.
Proof using.
  intros Hc se Hse. apply gcapa_eq in Hc as [_ Hg].
  apply get_anoms_chain in Hg as (_ & _ & H3).
  unfold capa_predict in Hse. apply (proj1 (in_sort_pairs _ _)) in Hse. exact (H3 se Hse).
Qed.
End Wf.

(** the statement asked for: the hypotheses of [capa_wellformed] / [C03_output_valid] of the Z model,
    for every instance *)
Theorem gcapa_wellformed (N : num) (tiny : T N -> bool)
  (Sc : nat -> nat -> list (T N)) (Sp : nat -> list (T N))
  (ac : T N) (bc : list (T N)) (ap : T N) (bp : list (T N)) (m M delay n : nat)
  (scores : list (T N)) (c p : list (nat * nat)) :
  2 <= m <= M ->
  gcapa N tiny Sc Sp ac bc ap bp m M delay n = (scores, c, p) ->
  Valid m M (map to_anom (capa_predict false c p)) n /\ length scores = n.
Proof.
  intros [Hm HM] Hrun. split.
  - eapply gcapa_output_valid; eassumption.
  - eapply gcapa_scores_length; eassumption.
Qed.

(** ---------- binary64 ---------- *)
From Coq Require Import PrimFloat.

(** the test of the code: beta < 1e-8 (the binary64 value closest to 1e-8) *)
Definition F64_tiny : float -> bool := gtiny_lt F64 0x1.5798ee2308c3ap-27%float.

(** any float savings and penalties -- finite, infinite or NaN --, any "negligible beta" test *)
Theorem F64_capa_output_valid_gen (tiny : float -> bool)
  (Sc : nat -> nat -> list float) (Sp : nat -> list float)
  (ac : float) (bc : list float) (ap : float) (bp : list float) (m M delay n : nat)
  (scores : list float) (c p : list (nat * nat)) :
  2 <= m <= M ->
  gcapa F64 tiny Sc Sp ac bc ap bp m M delay n = (scores, c, p) ->
  Valid m M (map to_anom (capa_predict false c p)) n /\ length scores = n.
Proof. exact (gcapa_wellformed F64 tiny Sc Sp ac bc ap bp m M delay n scores c p). Qed.

Theorem F64_capa_output_valid
  (Sc : nat -> nat -> list float) (Sp : nat -> list float)
  (ac : float) (bc : list float) (ap : float) (bp : list float) (m M delay n : nat)
  (scores : list float) (c p : list (nat * nat)) :
  2 <= m <= M ->
  gcapa F64 F64_tiny Sc Sp ac bc ap bp m M delay n = (scores, c, p) ->
  Valid m M (map to_anom (capa_predict false c p)) n /\ length scores = n.
Proof. apply F64_capa_output_valid_gen. Qed.

Theorem F64_capa_ignore_points
  (Sc : nat -> nat -> list float) (Sp : nat -> list float)
  (ac : float) (bc : list float) (ap : float) (bp : list float) (m M delay n : nat)
  (scores : list float) (c p : list (nat * nat)) :
  gcapa F64 F64_tiny Sc Sp ac bc ap bp m M delay n = (scores, c, p) ->
  capa_predict true c p = filter (fun se => negb (is_point se)) (capa_predict false c p).
Proof. apply (gcapa_ignore_points F64). Qed.

Print Assumptions gcapa_wellformed.
Print Assumptions gcapa_ignore_points.
Print Assumptions gcapa_intervals_in_range.
Print Assumptions F64_capa_output_valid_gen.
Print Assumptions F64_capa_output_valid.
Print Assumptions F64_capa_ignore_points.
