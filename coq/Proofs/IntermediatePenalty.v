(** The per-j curve of MVCAPA's intermediate penalty (closure [penalty_func] inside
    intermediate_mvcapa_penalty, REGENERATED from /repo on every run): documented closed form,
    proportionality to the scale, non-negativity.  SciPy's chi-square quantile c_j and density f_j
    are oracles (arbitrary reals); their only assumed property is c_j >= 0, f_j >= 0. *)
From Coq Require Import Reals Lra Lia Psatz.
From SK Require Import Gen.KernelsR Proofs.PenaltyProofs.
Open Scope R_scope.

Definition inter_doc (n p npv : nat) (scale : R) (j : nat) (c f : R) : R :=
  let L := ln (INR n) + ln (INR p) in
  let A := INR j * INR npv + 2 * INR p * c * f in
  scale * (2 * L + A + 2 * sqrt (A * L)).

Theorem intermediate_curve_formula (n p npv : nat) (scale : R) (j : nat) (c f : R) :
  intermediate_penalty_curve_R n p npv scale j c f = inter_doc n p npv scale j c f.
Proof.
  unfold intermediate_penalty_curve_R, inter_doc. cbv zeta.
  rewrite ?mult_INR. replace (INR 2) with 2 by (simpl; lra).
  replace (INR j * INR npv + 2 * INR p * c * f) with (INR j * INR npv + 2 * INR p * c * f) by ring.
  ring_simplify. reflexivity.
Qed.

Theorem intermediate_curve_scale (n p npv : nat) (scale : R) (j : nat) (c f : R) :
  intermediate_penalty_curve_R n p npv scale j c f = scale * intermediate_penalty_curve_R n p npv 1 j c f.
Proof. rewrite !intermediate_curve_formula. unfold inter_doc. cbv zeta. ring. Qed.

Theorem intermediate_curve_nonneg (n p npv : nat) (scale : R) (j : nat) (c f : R) :
  (1 <= n)%nat -> (1 <= p)%nat -> 0 <= scale -> 0 <= c -> 0 <= f ->
  0 <= intermediate_penalty_curve_R n p npv scale j c f.
Proof.
  intros Hn Hp Hs Hc Hf. rewrite intermediate_curve_formula. unfold inter_doc. cbv zeta.
  pose proof (ln_INR_nonneg n Hn) as H1. pose proof (ln_INR_nonneg p Hp) as H2.
  assert (HA : 0 <= INR j * INR npv + 2 * INR p * c * f).
  { pose proof (pos_INR j). pose proof (pos_INR npv). pose proof (pos_INR p).
    assert (0 <= INR j * INR npv) by (apply Rmult_le_pos; assumption).
    assert (0 <= 2 * INR p * c * f) by (repeat apply Rmult_le_pos; lra). lra. }
  pose proof (sqrt_pos ((INR j * INR npv + 2 * INR p * c * f) * (ln (INR n) + ln (INR p)))) as Hq.
  apply Rmult_le_pos; [exact Hs|]. lra.
Qed.

Print Assumptions intermediate_curve_formula.
Print Assumptions intermediate_curve_scale.
Print Assumptions intermediate_curve_nonneg.
