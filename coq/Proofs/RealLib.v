(** Real-number vocabulary shared by the kernel theorems: sums over a slice, the
    model of col_cumsum(init_zero=True) as a prefix-sum function, and the direct
    (definition-level) statistics the properties talk about. *)
From Coq Require Import Reals List Lia Lra Arith.
Import ListNotations.
Open Scope R_scope.

Fixpoint sumR (l : list R) : R := match l with [] => 0 | x :: t => x + sumR t end.
Definition slice (s e : nat) (l : list R) : list R := firstn (e - s) (skipn s l).
Definition sq (l : list R) : list R := map (fun x => x ^ 2) l.

(** col_cumsum(x, init_zero=True)[i] for one column: the sum of the first i entries *)
Definition prefix (l : list R) (i : nat) : R := sumR (firstn i l).

(** direct definitions on a (non-empty) slice *)
Definition meanR (l : list R) : R := sumR l / INR (length l).
Definition sse (mu : R) (l : list R) : R := sumR (map (fun x => (x - mu) ^ 2) l).   (* sum of squared errors around mu *)
Definition rss (l : list R) : R := sse (meanR l) l.                                  (* residual sum of squares *)
Definition varR (l : list R) : R := rss l / INR (length l).                          (* ML variance estimate *)
Definition floor_var : R := 1 / 10000000000000000.                                   (* 1e-16 *)
(** twice the negative Gaussian log-likelihood of the slice at mean mu, variance v *)
Definition nll2 (mu v : R) (l : list R) : R := sumR (map (fun x => ln (2 * PI * v) + (x - mu) ^ 2 / v) l).

Lemma sumR_app l1 l2 : sumR (l1 ++ l2) = sumR l1 + sumR l2.
Proof. induction l1; simpl; lra. Qed.

Lemma firstn_add {A} (l : list A) s k : firstn (s + k) l = firstn s l ++ firstn k (skipn s l).
Proof.
  revert l; induction s as [|s IH]; intros [|a l]; simpl; try reflexivity.
  - now rewrite firstn_nil.
  - now rewrite IH.
Qed.

Lemma prefix_diff l s e : (s <= e)%nat -> prefix l e - prefix l s = sumR (slice s e l).
Proof.
  intros H. unfold prefix, slice. replace e with (s + (e - s))%nat at 1 by lia.
  rewrite firstn_add, sumR_app. lra.
Qed.

Lemma slice_length s e (l : list R) : (s <= e <= length l)%nat -> length (slice s e l) = (e - s)%nat.
Proof. intros. unfold slice. rewrite firstn_length, skipn_length. lia. Qed.

Lemma map_slice (f : R -> R) s e l : map f (slice s e l) = slice s e (map f l).
Proof. unfold slice. now rewrite <- firstn_map, <- skipn_map. Qed.

Lemma sse_expand mu l :
  sse mu l = sumR (sq l) - 2 * mu * sumR l + INR (length l) * mu ^ 2.
Proof.
  unfold sse, sq. induction l as [|a k IH]; [simpl; lra|].
  change (length (a :: k)) with (S (length k)). rewrite S_INR. cbn [map sumR]. rewrite IH. ring.
Qed.

Lemma rss_expand l : (0 < length l)%nat -> rss l = sumR (sq l) - (sumR l) ^ 2 / INR (length l).
Proof.
  intros Hl. unfold rss. rewrite sse_expand. unfold meanR.
  assert (Hn : INR (length l) <> 0) by (apply not_0_INR; lia). field. exact Hn.
Qed.
