(** Instances of the strict-weak-order hypothesis of Proofs/GenericSpec.v.

      (a) Z        : [Z.ltb] on all integers;
      (b) R        : [Rltb] (Model/PeltR.v) on all reals;
      (c) binary64 : [PrimFloat.ltb] on the floats that are not NaN -- finite numbers, both zeros and
                     BOTH INFINITIES (removed scores may be -infinity in the real code).

    For (c) the comparison of primitive floats is specified by the standard library
    (the statements [ltb_spec], [eqb_spec] of Coq.Floats) through [SFcompare] on [spec_float]; [SFcompare] is a lexicographic
    comparison of (sign class, exponent, mantissa), i.e. of the integer triple [key] below, on ALL
    non-NaN [spec_float]s -- validity of the representation is not needed.

    The theorems of GenericSpec.v are then restated for the binary64 instance [F64], the instance the
    harness executes on the score tables of the real scorers. *)
From Coq Require Import ZArith Reals Lra List Bool Arith Lia Permutation Sorted Floats.
From SK Require Import Lib.Base Model.Mw Model.Sbs Model.Capa Model.Cbs Model.PeltR Model.Generic Model.GenericF.
From SK Require Import Proofs.CbsProofs Proofs.GenericR Proofs.GenericRank Proofs.GenericOrder Proofs.GenericSpec.
Import ListNotations.

(** ============================== (a) Z ============================== *)
Theorem Zn_embedding : embedding Zn (fun _ => True) (fun x => x).
Proof. split; [reflexivity|]. intros x y _ _. reflexivity. Qed.

Theorem Zn_swo : swo Zn (fun _ => True).
Proof. apply embeds_swo. exists (fun x => x). exact Zn_embedding. Qed.

(** ============================== (b) R ============================== *)
Lemma Rltb_true : forall x y, Rltb x y = true <-> (x < y)%R.
Proof.
  intros x y. unfold Rltb. destruct (Rlt_dec x y) as [H | H]; split; intros H'; try assumption;
    try reflexivity; [discriminate | contradiction].
Qed.

Lemma Rltb_false : forall x y, Rltb x y = false <-> (y <= x)%R.
Proof.
  intros x y. unfold Rltb. destruct (Rlt_dec x y) as [H | H]; split; intros H'; try reflexivity;
    [discriminate | lra | lra].
Qed.

Theorem Rn_swo : swo Rn (fun _ => True).
Proof.
  constructor; cbn [ltb Rn T].
  - intros x _. apply Rltb_false. lra.
  - intros x y z _ _ _. rewrite !Rltb_true. lra.
  - intros x y z _ _ _. rewrite !Rltb_false. lra.
Qed.

(** ==================== the theorems at the instance of the reals ==================== *)
Section RTheorems.
Local Open Scope nat_scope.
Let okR : R -> Prop := fun _ => True.

Theorem Rn_C08_run : forall (CS : nat -> nat -> nat -> R) b n (thr : R) mdi scores cpts,
  gmw Rn CS b n thr mdi = (scores, cpts) ->
  scores = gmw_scores Rn CS b n /\ StronglySorted lt cpts /\
  forall c, In c cpts <->
    exists a z, In (a, z) (where_runs (map (fun v => Rltb thr v) scores)) /\ mdi <= z - a /\ a <= c < z /\
      (forall i, a <= i < z -> (nthV Rn scores i <= nthV Rn scores c)%R) /\
      (forall i, a <= i < c -> (nthV Rn scores i < nthV Rn scores c)%R).
Proof.
  intros CS b n thr mdi scores cpts H.
  destruct (G08_run Rn okR Rn_swo I CS b n thr mdi scores cpts (fun _ _ _ => I) I H) as (H1 & _ & H3 & H4).
  split; [exact H1|]. split; [exact H3|]. intros c. rewrite H4. cbn [ltb Rn].
  split; intros (a & z & A1 & A2 & A3 & A4 & A5); exists a, z; (split; [exact A1|]); (split; [exact A2|]);
    (split; [exact A3|]); split; intros i Hi.
  - apply Rltb_false. apply A4. exact Hi.
  - apply Rltb_true. apply A5. exact Hi.
  - apply Rltb_false. apply A4. exact Hi.
  - apply Rltb_true. apply A5. exact Hi.
Qed.

Theorem Rn_C07_changepoints_supported_and_complete :
  forall (CS : nat -> nat -> nat -> R) m n (thr : R) ivs cpts am,
  (0 <= thr)%R -> 1 <= m -> (forall s e, In (s, e) ivs -> s + 2 * m <= e <= n) ->
  gsbs Rn CS m thr ivs = Some (cpts, am) ->
  (forall c, In c cpts -> exists i, i < length ivs /\ fst (nth i am (0%nat, 0%R)) = c /\
                                    (thr < snd (nth i am (0%nat, 0%R)))%R /\ contains (nth i ivs (0, 0)) c = true) /\
  (forall i, i < length ivs -> (thr < snd (nth i am (0%nat, 0%R)))%R ->
             exists c, In c cpts /\ contains (nth i ivs (0, 0)) c = true).
Proof.
  intros CS m n thr ivs cpts am Hthr Hm Hivs H.
  assert (Hthr' : ltb Rn thr (zero Rn) = false) by (apply Rltb_false; exact Hthr).
  split.
  - intros c Hc.
    destruct (G07_changepoints_supported Rn okR Rn_swo I CS m n thr ivs (fun _ _ _ _ _ _ => I) I Hthr' Hm Hivs
                cpts am H c Hc) as (i & Hi & H1 & H2 & H3).
    exists i. split; [exact Hi|]. split; [exact H1|]. split; [|exact H3]. apply Rltb_true. exact H2.
  - intros i Hi Hlt.
    apply (G07_no_interval_left Rn okR Rn_swo I CS m n thr ivs (fun _ _ _ _ _ _ => I) I Hthr' Hm Hivs cpts am H i Hi).
    apply Rltb_true. exact Hlt.
Qed.
End RTheorems.

(** ============================ (c) binary64 ============================ *)
Open Scope Z_scope.

(** [SFcompare] compares these integer triples lexicographically *)
Definition key (x : spec_float) : Z * Z * Z :=
  match x with
  | S754_zero _ => (0, 0, 0)
  | S754_infinity true => (-2, 0, 0)
  | S754_infinity false => (2, 0, 0)
  | S754_nan => (0, 0, 0)
  | S754_finite true m e => (-1, - e, - Zpos m)
  | S754_finite false m e => (1, e, Zpos m)
  end.

Definition lexlt (a b : Z * Z * Z) : Prop :=
  let '(a1, a2, a3) := a in let '(b1, b2, b3) := b in
  a1 < b1 \/ (a1 = b1 /\ (a2 < b2 \/ (a2 = b2 /\ a3 < b3))).

Lemma lexlt_irrefl : forall a, ~ lexlt a a.
Proof. intros [[a1 a2] a3]. unfold lexlt. lia. Qed.

Lemma lexlt_trans : forall a b c, lexlt a b -> lexlt b c -> lexlt a c.
Proof. intros [[a1 a2] a3] [[b1 b2] b3] [[c1 c2] c3]. unfold lexlt. lia. Qed.

Lemma lexlt_incomp : forall a b c, ~ lexlt a b -> ~ lexlt b a -> ~ lexlt b c -> ~ lexlt c b -> ~ lexlt a c.
Proof. intros [[a1 a2] a3] [[b1 b2] b3] [[c1 c2] c3]. unfold lexlt. lia. Qed.

Lemma SFltb_key : forall x y, x <> S754_nan -> y <> S754_nan ->
  (SFltb x y = true <-> lexlt (key x) (key y)).
Proof.
  intros x y Hx Hy.
  destruct x as [sx|sx| |sx mx ex]; [| |congruence|];
    (destruct y as [sy|sy| |sy my ey]; [| |congruence|]); clear Hx Hy;
    unfold SFltb, SFcompare, key, lexlt; destruct sx; destruct sy;
    try (change (Pos.compare_cont Eq mx my) with (Pos.compare mx my);
         destruct (Z.compare_spec ex ey); destruct (Pos.compare_spec mx my));
    cbn [CompOpp]; split; intros Hgoal; try discriminate Hgoal; try reflexivity; try lia.
Qed.

Lemma SFltb_key_false : forall x y, x <> S754_nan -> y <> S754_nan ->
  (SFltb x y = false <-> ~ lexlt (key x) (key y)).
Proof.
  intros x y Hx Hy. pose proof (SFltb_key x y Hx Hy) as H.
  destruct (SFltb x y); split; intros H'; try reflexivity; try discriminate.
  - exfalso. apply H'. apply H. reflexivity.
  - intro K. apply H in K. discriminate.
Qed.

(** the admissible binary64 values: everything but NaN *)
Definition nonnan (x : float) : Prop := PrimFloat.is_nan x = false.

Lemma nonnan_SF : forall x, nonnan x -> Prim2SF x <> S754_nan.
Proof.
  intros x H E. unfold nonnan, PrimFloat.is_nan in H. rewrite eqb_spec, E in H.
  cbn in H. discriminate H.
Qed.

Lemma SF_nonnan : forall x, Prim2SF x <> S754_nan -> nonnan x.
Proof.
  intros x H. unfold nonnan, PrimFloat.is_nan. rewrite eqb_spec.
  destruct (Prim2SF x) as [s|s| |s m e]; [| |congruence|]; unfold SFeqb, SFcompare.
  - reflexivity.
  - destruct s; reflexivity.
  - destruct s; rewrite Z.compare_refl, Pos.compare_cont_refl; reflexivity.
Qed.

Lemma nonnan_zero : nonnan 0%float.
Proof. reflexivity. Qed.
Lemma nonnan_infinity : nonnan PrimFloat.infinity.
Proof. reflexivity. Qed.
Lemma nonnan_neg_infinity : nonnan PrimFloat.neg_infinity.
Proof. reflexivity. Qed.

Lemma F64_ltb_key : forall x y, nonnan x -> nonnan y ->
  (PrimFloat.ltb x y = true <-> lexlt (key (Prim2SF x)) (key (Prim2SF y))).
Proof. intros x y Hx Hy. rewrite ltb_spec. apply SFltb_key; apply nonnan_SF; assumption. Qed.

Lemma F64_ltb_key_false : forall x y, nonnan x -> nonnan y ->
  (PrimFloat.ltb x y = false <-> ~ lexlt (key (Prim2SF x)) (key (Prim2SF y))).
Proof. intros x y Hx Hy. rewrite ltb_spec. apply SFltb_key_false; apply nonnan_SF; assumption. Qed.

(** the three order laws of [PrimFloat.ltb] on non-NaN floats *)
Theorem F64_ltb_irrefl : forall x, nonnan x -> PrimFloat.ltb x x = false.
Proof. intros x Hx. apply F64_ltb_key_false; [exact Hx | exact Hx|]. apply lexlt_irrefl. Qed.

Theorem F64_ltb_trans : forall x y z, nonnan x -> nonnan y -> nonnan z ->
  PrimFloat.ltb x y = true -> PrimFloat.ltb y z = true -> PrimFloat.ltb x z = true.
Proof.
  intros x y z Hx Hy Hz H1 H2. apply F64_ltb_key in H1; [|assumption..]. apply F64_ltb_key in H2; [|assumption..].
  apply F64_ltb_key; [assumption..|]. exact (lexlt_trans _ _ _ H1 H2).
Qed.

Theorem F64_ltb_incomp : forall x y z, nonnan x -> nonnan y -> nonnan z ->
  PrimFloat.ltb x y = false -> PrimFloat.ltb y x = false ->
  PrimFloat.ltb y z = false -> PrimFloat.ltb z y = false -> PrimFloat.ltb x z = false.
Proof.
  intros x y z Hx Hy Hz H1 H2 H3 H4.
  apply F64_ltb_key_false in H1; [|assumption..]. apply F64_ltb_key_false in H2; [|assumption..].
  apply F64_ltb_key_false in H3; [|assumption..]. apply F64_ltb_key_false in H4; [|assumption..].
  apply F64_ltb_key_false; [assumption..|]. exact (lexlt_incomp _ _ _ H1 H2 H3 H4).
Qed.

Theorem F64_swo : swo F64 nonnan.
Proof.
  constructor; cbn [ltb F64 T].
  - exact F64_ltb_irrefl.
  - exact F64_ltb_trans.
  - exact F64_ltb_incomp.
Qed.

(** NaN is the only obstruction: with a NaN the comparison is not even a weak order
    (everything is incomparable to NaN, yet 0 < 1) *)
Theorem F64_nan_breaks_incomp :
  PrimFloat.ltb 0 PrimFloat.nan = false /\ PrimFloat.ltb PrimFloat.nan 0 = false /\
  PrimFloat.ltb PrimFloat.nan 1 = false /\ PrimFloat.ltb 1 PrimFloat.nan = false /\
  PrimFloat.ltb 0 1 = true.
Proof. repeat split; reflexivity. Qed.

(** ==================== the theorems at the binary64 instance ==================== *)

Section F64Theorems.
Local Open Scope nat_scope.

(** ---- moving window (C08) ---- *)
Theorem F64_C08_run : forall (CS : nat -> nat -> nat -> float) b n (thr : float) mdi scores cpts,
  (forall t, b <= t -> t + b <= n -> nonnan (CS (t - b) t (t + b))) -> nonnan thr ->
  gmw F64 CS b n thr mdi = (scores, cpts) ->
  scores = gmw_scores F64 CS b n /\ Forall nonnan scores /\ StronglySorted lt cpts /\
  forall c, In c cpts <->
    exists a z, In (a, z) (where_runs (map (fun v => (thr <? v)%float) scores)) /\ mdi <= z - a /\ a <= c < z /\
      (forall i, a <= i < z -> (nthV F64 scores c <? nthV F64 scores i)%float = false) /\
      (forall i, a <= i < c -> (nthV F64 scores i <? nthV F64 scores c)%float = true).
Proof. exact (G08_run F64 nonnan F64_swo nonnan_zero). Qed.

Theorem F64_C08_changepoints_in_range : forall (CS : nat -> nat -> nat -> float) b n (thr : float) mdi c,
  (forall t, b <= t -> t + b <= n -> nonnan (CS (t - b) t (t + b))) -> nonnan thr ->
  (thr <? 0)%float = false -> In c (snd (gmw F64 CS b n thr mdi)) -> b <= c /\ c + b <= n.
Proof. exact (G08_changepoints_in_range F64 nonnan F64_swo nonnan_zero). Qed.

Theorem F64_C08_changepoints_above_threshold : forall (scores : list float) (thr : float) mdi c,
  Forall nonnan scores -> nonnan thr ->
  In c (gmw_cpts F64 scores thr mdi) -> c < length scores /\ (thr <? nthV F64 scores c)%float = true.
Proof. exact (G08_changepoints_above_threshold F64 nonnan F64_swo nonnan_zero). Qed.

(** ---- seeded binary segmentation (C07) ---- *)
Section F64Sbs.
Variables (CS : nat -> nat -> nat -> float) (m n : nat) (thr : float) (ivs : list (nat * nat)).
Hypothesis Htab : forall s e k, In (s, e) ivs -> s + m <= k -> k + m <= e -> nonnan (CS s k e).
Hypothesis Hokthr : nonnan thr.
Hypothesis Hthr : (thr <? 0)%float = false.
Hypothesis Hm : 1 <= m.
Hypothesis Hivs : forall s e, In (s, e) ivs -> s + 2 * m <= e <= n.

Theorem F64_C07_total : exists r, gsbs F64 CS m thr ivs = Some r.
Proof. exact (G07_total F64 nonnan F64_swo nonnan_zero CS m n thr ivs Htab Hokthr Hthr Hm Hivs). Qed.

Variables (cpts : list nat) (am : list (nat * float)).
Hypothesis Hrun : gsbs F64 CS m thr ivs = Some (cpts, am).

Theorem F64_C07_interval_scores : length am = length ivs /\
  forall i, i < length ivs ->
    let '(s, e) := nth i ivs (0, 0) in let '(k, v) := nth i am (0, 0%float) in
    (s + m <= k /\ k + m <= e) /\ v = CS s k e /\
    forall k', s + m <= k' /\ k' + m <= e ->
      (v <? CS s k' e)%float = false /\ (k' < k -> (CS s k' e <? v)%float = true).
Proof. exact (G07_interval_scores F64 nonnan F64_swo nonnan_zero CS m n thr ivs Htab Hokthr Hthr Hm Hivs cpts am Hrun). Qed.

Theorem F64_C07_changepoints_supported : forall c, In c cpts ->
  exists i, i < length ivs /\ fst (nth i am (0%nat, 0%float)) = c /\
            (thr <? snd (nth i am (0%nat, 0%float)))%float = true /\ contains (nth i ivs (0, 0)) c = true.
Proof. exact (G07_changepoints_supported F64 nonnan F64_swo nonnan_zero CS m n thr ivs Htab Hokthr Hthr Hm Hivs cpts am Hrun). Qed.

Theorem F64_C07_no_interval_left : forall i, i < length ivs -> (thr <? snd (nth i am (0%nat, 0%float)))%float = true ->
  exists c, In c cpts /\ contains (nth i ivs (0, 0)) c = true.
Proof. exact (G07_no_interval_left F64 nonnan F64_swo nonnan_zero CS m n thr ivs Htab Hokthr Hthr Hm Hivs cpts am Hrun). Qed.

Theorem F64_C07_changepoints_wellformed :
  (forall i, S i < length cpts -> nthN cpts i + m <= nthN cpts (S i)) /\
  (forall c, In c cpts -> m <= c /\ c + m <= n).
Proof. exact (G07_changepoints_wellformed F64 nonnan F64_swo nonnan_zero CS m n thr ivs Htab Hokthr Hthr Hm Hivs cpts am Hrun). Qed.

Theorem F64_C07_threshold_monotone : forall (thr' : float) cpts' am', nonnan thr' -> (thr' <? thr)%float = false ->
  gsbs F64 CS m thr' ivs = Some (cpts', am') -> incl cpts' cpts.
Proof. exact (G07_threshold_monotone F64 nonnan F64_swo nonnan_zero CS m n thr ivs Htab Hokthr Hthr Hm Hivs cpts am Hrun). Qed.
End F64Sbs.

(** ---- circular binary segmentation (C09) ---- *)
Definition F64_cbs_table_ok (LS : nat -> nat -> nat -> nat -> float) (m : nat) (ivs : list (nat * nat)) : Prop :=
  forall s e a z, In (s, e) ivs -> In (a, z) (anomaly_intervals s e m) -> nonnan (LS s a z e).

Theorem F64_C09_interval_scores : forall (LS : nat -> nat -> nat -> nat -> float) m s e a z v,
  (forall a z, In (a, z) (anomaly_intervals s e m) -> nonnan (LS s a z e)) ->
  gbest_inner F64 LS m (s, e) = Some ((a, z), v) ->
  In (a, z) (anomaly_intervals s e m) /\ v = LS s a z e /\
  forall a' z', In (a', z') (anomaly_intervals s e m) -> (v <? LS s a' z' e)%float = false.
Proof. exact (G09_interval_scores F64 nonnan F64_swo nonnan_zero). Qed.

Theorem F64_C09_wellformed : forall (LS : nat -> nat -> nat -> nat -> float) m (thr : float) n ivs anoms am,
  F64_cbs_table_ok LS m ivs -> nonnan thr -> (thr <? 0)%float = false -> 1 <= m ->
  (forall s e, In (s, e) ivs -> e <= n) -> gcbs F64 LS m thr ivs = Some (anoms, am) ->
  (forall i, S i < length anoms ->
      fst (nthP anoms i) < fst (nthP anoms (S i)) /\ snd (nthP anoms i) <= fst (nthP anoms (S i))) /\
  (forall a z, In (a, z) anoms -> 1 <= a /\ a + m <= z <= n - 1) /\
  am = map (ginner_or_zero F64 LS m) ivs /\
  exists picks, ggreedy_anoms F64 (length ivs) thr ivs (map fst am) (map snd am) = Some picks /\
                anoms = sort_pairs picks /\ Permutation anoms picks.
Proof. exact (G09_wellformed F64 nonnan F64_swo nonnan_zero). Qed.

Theorem F64_C09_total : forall (LS : nat -> nat -> nat -> nat -> float) m (thr : float) ivs,
  F64_cbs_table_ok LS m ivs -> nonnan thr -> (thr <? 0)%float = false ->
  exists r, gcbs F64 LS m thr ivs = Some r.
Proof. exact (G09_total F64 nonnan F64_swo nonnan_zero). Qed.

(** every reported anomaly is the inner interval of a candidate scoring above the threshold, and no
    above-threshold candidate is left without an overlapping anomaly -- on the run itself *)
Theorem F64_C09_anomalies_supported_and_complete :
  forall (LS : nat -> nat -> nat -> nat -> float) m (thr : float) ivs anoms am,
  F64_cbs_table_ok LS m ivs -> nonnan thr -> (thr <? 0)%float = false ->
  gcbs F64 LS m thr ivs = Some (anoms, am) ->
  (forall ab, In ab anoms -> exists i, i < length ivs /\ fst (nth i am ((0%nat, 0%nat), 0%float)) = ab /\
                                       (thr <? snd (nth i am ((0%nat, 0%nat), 0%float)))%float = true) /\
  (forall i, i < length ivs -> (thr <? snd (nth i am ((0%nat, 0%nat), 0%float)))%float = true ->
             exists ab, In ab anoms /\ overlaps ab (nthP ivs i) = true).
Proof. exact (G09_anomalies_supported_and_complete F64 nonnan F64_swo nonnan_zero). Qed.
End F64Theorems.

Print Assumptions Zn_swo.
Print Assumptions Rn_swo.
Print Assumptions F64_swo.
Print Assumptions Rn_C08_run.
Print Assumptions Rn_C07_changepoints_supported_and_complete.
Print Assumptions F64_C08_run.
Print Assumptions F64_C07_interval_scores.
Print Assumptions F64_C07_changepoints_supported.
Print Assumptions F64_C07_no_interval_left.
Print Assumptions F64_C07_threshold_monotone.
Print Assumptions F64_C09_wellformed.
Print Assumptions F64_C09_anomalies_supported_and_complete.
