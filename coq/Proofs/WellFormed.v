(** Concrete well-formedness of the detector outputs (property C04).

    The detector theorems of PeltRefine / CapaDP / SbsProofs / CbsProofs / MwProofs / Penalise
    state well-formedness through the recursive predicates [admseg] / [Adm]
    (changepoints) and [valid_from] / [Valid] (anomaly sets).  This file unpacks those
    predicates into the elementary clauses a reader of the Python output cares about:

      changepoints  strictly increasing, each in [1, n-1], at least m samples before the
                    first, between two consecutive ones, and after the last;
      anomalies     (start, end) pairs with start < end <= n, in increasing order,
                    pairwise disjoint, point anomalies of length 1, collective anomalies
                    of length in [m, M];
      components    non-empty, duplicate-free, inside [0, p).

    No new induction over the algorithms: every detector-level theorem below is a
    corollary of an existing one. *)
From Coq Require Import ZArith List Lia Bool Arith Sorted Permutation.
From SK Require Import Lib.Base Model.Pelt Proofs.PeltSpec Proofs.PeltRefine Properties.C02.
From SK Require Import Model.Capa Proofs.CapaSpec Proofs.CapaDP Proofs.Penalise.
From SK Require Import Model.Sbs Model.Cbs Model.Mw Proofs.SbsProofs Proofs.CbsProofs Proofs.MwProofs.
Import ListNotations.
Open Scope Z_scope.

(** ====================================================================== *)
(** * 0. Generic list facts *)

(** consecutive strict increase gives (strong) sortedness *)
Lemma consec_lt_sorted : forall l : list nat,
  (forall i, (S i < length l)%nat -> (nthN l i < nthN l (S i))%nat) -> StronglySorted lt l.
Proof.
  intros l H. apply Sorted_StronglySorted; [intros x y z Hxy Hyz; lia|].
  induction l as [|a l IH]; [constructor|]. constructor.
  - apply IH. intros i Hi. apply (H (S i)). cbn [length]. lia.
  - destruct l as [|b l]; constructor. apply (H 0%nat). cbn [length]. lia.
Qed.

Lemma consec_gap_sorted : forall (m : nat) (l : list nat), (1 <= m)%nat ->
  (forall i, (S i < length l)%nat -> (nthN l i + m <= nthN l (S i))%nat) -> StronglySorted lt l.
Proof.
  intros m l Hm H. apply consec_lt_sorted. intros i Hi. specialize (H i Hi). lia.
Qed.

(** a strongly sorted list is related at every pair of consecutive positions *)
Lemma ssorted_consec {A} (R : A -> A -> Prop) (d : A) : forall l, StronglySorted R l ->
  forall i, (S i < length l)%nat -> R (nth i l d) (nth (S i) l d).
Proof.
  intros l HS. induction HS as [|a l HS IH Hall]; intros i Hi; [cbn in Hi; lia|].
  destruct i as [|i].
  - cbn [nth]. rewrite Forall_forall in Hall. apply Hall.
    destruct l as [|b l]; [cbn in Hi; lia|now left].
  - change (nth (S i) (a :: l) d) with (nth i l d).
    change (nth (S (S i)) (a :: l) d) with (nth (S i) l d).
    apply IH. cbn [length] in Hi. lia.
Qed.

Lemma ssorted_filter {A} (R : A -> A -> Prop) (f : A -> bool) : forall l,
  StronglySorted R l -> StronglySorted R (filter f l).
Proof.
  intros l HS. induction HS as [|a l HS IH Hall]; [constructor|].
  cbn [filter]. destruct (f a); [|exact IH]. constructor; [exact IH|].
  rewrite Forall_forall in *. intros x Hx. apply filter_In in Hx. apply Hall. tauto.
Qed.

(** intervals: [a] ends before [b] starts *)
Definition iv_before (a b : nat * nat) : Prop := (snd a <= fst b)%nat.

(** non-empty intervals that are consecutively ordered are pairwise ordered *)
Lemma consec_ivs_pairwise : forall l : list (nat * nat),
  (forall s e, In (s, e) l -> (s < e)%nat) ->
  (forall i, (S i < length l)%nat -> (snd (nth i l (0, 0)%nat) <= fst (nth (S i) l (0, 0)%nat))%nat) ->
  StronglySorted iv_before l.
Proof.
  induction l as [|a l IH]; intros Hne Hc; [constructor|].
  assert (HS : StronglySorted iv_before l).
  { apply IH.
    - intros s e H. apply Hne. now right.
    - intros i Hi. apply (Hc (S i)). cbn [length]. lia. }
  constructor; [exact HS|].
  destruct l as [|b l]; [constructor|].
  assert (Hab : (snd a <= fst b)%nat) by (apply (Hc 0%nat); cbn [length]; lia).
  constructor; [exact Hab|].
  apply StronglySorted_inv in HS as [_ Hall].
  assert (Hb : (fst b < snd b)%nat).
  { destruct b as [s e]. apply Hne. right. now left. }
  eapply Forall_impl; [|exact Hall]. unfold iv_before. intros y Hy. lia.
Qed.

(** ====================================================================== *)
(** * 1. Changepoint lists: [admseg] / [Adm] in concrete clauses *)

Theorem admseg_concrete : forall m cpts p T, (1 <= m)%nat -> admseg m p cpts T ->
  (forall c, In c cpts -> (p + m <= c /\ c + m <= T)%nat) /\
  (forall i, (S i < length cpts)%nat -> (nthN cpts i + m <= nthN cpts (S i))%nat) /\
  StronglySorted lt cpts.
Proof.
  intros m cpts p T Hm Hadm.
  assert (Hin : forall c, In c cpts -> (p + m <= c /\ c + m <= T)%nat).
  { intros c Hc. exact (admseg_in m Hm cpts p T c Hadm Hc). }
  assert (Hgap : forall i, (S i < length cpts)%nat -> (nthN cpts i + m <= nthN cpts (S i))%nat).
  { clear Hin. revert p Hadm. induction cpts as [|a l IH]; intros p Hadm i Hi; [cbn in Hi; lia|].
    cbn [admseg] in Hadm. destruct Hadm as [_ Hl].
    destruct i as [|i].
    - destruct l as [|b l]; [cbn in Hi; lia|]. cbn [admseg] in Hl. unfold nthN. cbn [nth]. lia.
    - unfold nthN in *. change (nth (S i) (a :: l) 0%nat) with (nth i l 0%nat).
      change (nth (S (S i)) (a :: l) 0%nat) with (nth (S i) l 0%nat).
      apply (IH a Hl). cbn [length] in Hi. lia. }
  split; [exact Hin|]. split; [exact Hgap|]. exact (consec_gap_sorted m cpts Hm Hgap).
Qed.

Theorem adm_concrete : forall m cpts n, (1 <= m)%nat -> Adm m cpts n ->
  StronglySorted lt cpts /\
  (forall c, In c cpts -> (1 <= c <= n - 1 /\ m <= c /\ c + m <= n)%nat) /\
  (forall i, (S i < length cpts)%nat -> (nthN cpts i + m <= nthN cpts (S i))%nat).
Proof.
  intros m cpts n Hm Hadm. unfold Adm in Hadm.
  destruct (admseg_concrete m cpts 0%nat n Hm Hadm) as (Hin & Hgap & Hsort).
  split; [exact Hsort|]. split; [|exact Hgap].
  intros c Hc. specialize (Hin c Hc). lia.
Qed.

(** the data must hold at least one full segment *)
Theorem adm_length : forall m cpts n, (1 <= m)%nat -> Adm m cpts n ->
  (m <= n /\ (length cpts + 1) * m <= n)%nat.
Proof.
  intros m cpts n Hm Hadm. unfold Adm in Hadm.
  assert (H : forall l p T, admseg m p l T -> (p + (length l + 1) * m <= T)%nat).
  { induction l as [|a l IH]; intros p T Hl; cbn [admseg length] in *; [lia|].
    destruct Hl as [H1 H2]. specialize (IH a T H2). lia. }
  specialize (H cpts 0%nat n Hadm). split; [|lia].
  assert ((length cpts + 1) * m >= m)%nat by nia. lia.
Qed.

(** converse: the concrete clauses characterise [admseg] / [Adm] *)
Lemma concrete_admseg : forall m cpts p T, (p + m <= T)%nat ->
  (forall c, In c cpts -> (c + m <= T)%nat) ->
  (forall i, (S i < length (p :: cpts))%nat -> (nthN (p :: cpts) i + m <= nthN (p :: cpts) (S i))%nat) ->
  admseg m p cpts T.
Proof.
  intros m cpts. induction cpts as [|a l IH]; intros p T HpT Hin Hgap; cbn [admseg]; [exact HpT|].
  split.
  - specialize (Hgap 0%nat). unfold nthN in Hgap. cbn [nth length] in Hgap. lia.
  - apply IH.
    + apply Hin. now left.
    + intros c Hc. apply Hin. now right.
    + intros i Hi. specialize (Hgap (S i)). unfold nthN in *.
      change (nth (S i) (p :: a :: l) 0%nat) with (nth i (a :: l) 0%nat) in Hgap.
      change (nth (S (S i)) (p :: a :: l) 0%nat) with (nth (S i) (a :: l) 0%nat) in Hgap.
      apply Hgap. cbn [length] in *. lia.
Qed.

Theorem concrete_adm : forall m cpts n, (m <= n)%nat ->
  (forall c, In c cpts -> (m <= c /\ c + m <= n)%nat) ->
  (forall i, (S i < length cpts)%nat -> (nthN cpts i + m <= nthN cpts (S i))%nat) ->
  Adm m cpts n.
Proof.
  intros m cpts n Hn Hin Hgap. unfold Adm. apply concrete_admseg.
  - lia.
  - intros c Hc. apply Hin. exact Hc.
  - intros i Hi. destruct i as [|i].
    + destruct cpts as [|a l]; [cbn in Hi; lia|]. unfold nthN. cbn [nth].
      assert (Ha : In a (a :: l)) by now left. specialize (Hin a Ha). lia.
    + unfold nthN in *. change (nth (S i) (0%nat :: cpts) 0%nat) with (nth i cpts 0%nat).
      change (nth (S (S i)) (0%nat :: cpts) 0%nat) with (nth (S i) cpts 0%nat).
      apply Hgap. cbn [length] in Hi. lia.
Qed.

Theorem adm_iff_concrete : forall m cpts n, (1 <= m)%nat ->
  Adm m cpts n <->
  (m <= n)%nat /\
  (forall c, In c cpts -> (m <= c /\ c + m <= n)%nat) /\
  (forall i, (S i < length cpts)%nat -> (nthN cpts i + m <= nthN cpts (S i))%nat).
Proof.
  intros m cpts n Hm. split.
  - intros Hadm. destruct (adm_concrete m cpts n Hm Hadm) as (_ & Hin & Hgap).
    destruct (adm_length m cpts n Hm Hadm) as [Hn _].
    split; [exact Hn|]. split; [|exact Hgap]. intros c Hc. specialize (Hin c Hc). lia.
  - intros (Hn & Hin & Hgap). apply concrete_adm; assumption.
Qed.

(** executable checker for the concrete clauses, sound for them *)
Definition cpts_wf_b (m n : nat) (cpts : list nat) : bool :=
  forallb (fun c => (1 <=? c)%nat && (c <=? n - 1)%nat && (m <=? c)%nat && (c + m <=? n)%nat) cpts &&
  forallb (fun i => (nthN cpts i + m <=? nthN cpts (S i))%nat) (seq 0 (length cpts - 1)).

Lemma cpts_wf_b_sound : forall m n cpts, (1 <= m)%nat -> cpts_wf_b m n cpts = true ->
  StronglySorted lt cpts /\
  (forall c, In c cpts -> (1 <= c <= n - 1 /\ m <= c /\ c + m <= n)%nat) /\
  (forall i, (S i < length cpts)%nat -> (nthN cpts i + m <= nthN cpts (S i))%nat).
Proof.
  intros m n cpts Hm H. unfold cpts_wf_b in H. apply andb_true_iff in H as [H1 H2].
  rewrite forallb_forall in H1, H2.
  assert (Hgap : forall i, (S i < length cpts)%nat -> (nthN cpts i + m <= nthN cpts (S i))%nat).
  { intros i Hi. apply Nat.leb_le. apply H2. apply in_seq. lia. }
  split; [exact (consec_gap_sorted m cpts Hm Hgap)|]. split; [|exact Hgap].
  intros c Hc. specialize (H1 c Hc).
  apply andb_true_iff in H1 as [H1 Hd]. apply andb_true_iff in H1 as [H1 Hc3].
  apply andb_true_iff in H1 as [Ha Hb].
  apply Nat.leb_le in Ha, Hb, Hc3, Hd. lia.
Qed.

(** ====================================================================== *)
(** * 2. PELT *)

(** any cost function, any pruning delay *)
Theorem pelt_wellformed_any_delay : forall C pen m delay n, (1 <= m)%nat -> (2 * m <= n)%nat ->
  let cpts := snd (pelt C pen m delay n) in
  StronglySorted lt cpts /\
  (forall c, In c cpts -> (1 <= c <= n - 1 /\ m <= c /\ c + m <= n)%nat) /\
  (forall i, (S i < length cpts)%nat -> (nthN cpts i + m <= nthN cpts (S i))%nat).
Proof.
  intros C pen m delay n Hm Hn cpts. apply adm_concrete; [exact Hm|].
  exact (pelt_adm C pen m delay Hm n Hn).
Qed.

Theorem pelt_wellformed : forall C pen m n, (1 <= m)%nat -> (2 * m <= n)%nat ->
  let cpts := snd (pelt_code C pen m n) in
  StronglySorted lt cpts /\
  (forall c, In c cpts -> (1 <= c <= n - 1 /\ m <= c /\ c + m <= n)%nat) /\
  (forall i, (S i < length cpts)%nat -> (nthN cpts i + m <= nthN cpts (S i))%nat).
Proof.
  intros C pen m n Hm Hn. unfold pelt_code. exact (pelt_wellformed_any_delay C pen m (m - 1) n Hm Hn).
Qed.

(** the number of changepoints is bounded by the data length *)
Theorem pelt_count : forall C pen m n, (1 <= m)%nat -> (2 * m <= n)%nat ->
  ((length (snd (pelt_code C pen m n)) + 1) * m <= n)%nat.
Proof.
  intros C pen m n Hm Hn. unfold pelt_code.
  exact (proj2 (adm_length m _ n Hm (pelt_adm C pen m (m - 1) Hm n Hn))).
Qed.

(** ====================================================================== *)
(** * 3. CAPA / MVCAPA *)

Lemma to_anom_start : forall s e, a_start (to_anom (s, e)) = s.
Proof. intros s e. unfold to_anom. cbn [fst snd]. destruct (e =? S s)%nat; reflexivity. Qed.

Lemma to_anom_end : forall s e, a_end (to_anom (s, e)) = e.
Proof.
  intros s e. unfold to_anom. cbn [fst snd]. destruct (e =? S s)%nat eqn:E; cbn [a_end]; [|reflexivity].
  apply Nat.eqb_eq in E. congruence.
Qed.

Lemma to_anom_ok : forall m M s e, a_ok m M (to_anom (s, e)) ->
  e = S s \/ (s + m <= e /\ e <= s + M)%nat.
Proof.
  intros m M s e. unfold to_anom. cbn [fst snd]. destruct (e =? S s)%nat eqn:E; cbn [a_ok].
  - intros _. left. now apply Nat.eqb_eq.
  - intros H. right. exact H.
Qed.

(** the general form: anomaly list inside [lo, T) *)
Lemma valid_from_concrete : forall m M ivs lo T, (1 <= m)%nat ->
  valid_from m M lo (map to_anom ivs) T ->
  (lo <= T)%nat /\
  (forall s e, In (s, e) ivs ->
     (lo <= s /\ s < e <= T)%nat /\ (e = S s \/ (s + m <= e /\ e <= s + M)%nat)) /\
  (forall i, (S i < length ivs)%nat ->
     (snd (nth i ivs (0, 0)%nat) <= fst (nth (S i) ivs (0, 0)%nat))%nat).
Proof.
  intros m M ivs. induction ivs as [|[s0 e0] l IH]; intros lo T Hm Hv.
  - cbn in Hv. split; [exact Hv|]. split; [intros s e []|]. intros i Hi. cbn in Hi. lia.
  - cbn [map valid_from] in Hv. destruct Hv as (Hlo & Hok & Hrest).
    rewrite to_anom_start in Hlo. rewrite to_anom_end in Hrest.
    apply to_anom_ok in Hok.
    destruct (IH e0 T Hm Hrest) as (HeT & Hin & Hcons).
    assert (Hse : (s0 < e0)%nat) by lia.
    split; [lia|]. split.
    + intros s e [Heq|Hl].
      * inversion Heq; subst s e. split; [lia|exact Hok].
      * destruct (Hin s e Hl) as [H1 H2]. split; [lia|exact H2].
    + intros i Hi. destruct i as [|i].
      * cbn [nth snd]. destruct l as [|[s1 e1] l']; [cbn in Hi; lia|]. cbn [nth fst].
        destruct (Hin s1 e1 (or_introl eq_refl)) as [H1 _]. lia.
      * change (nth (S i) ((s0, e0) :: l) (0, 0)%nat) with (nth i l (0, 0)%nat).
        change (nth (S (S i)) ((s0, e0) :: l) (0, 0)%nat) with (nth (S i) l (0, 0)%nat).
        apply Hcons. cbn [length] in Hi. lia.
Qed.

Theorem valid_concrete : forall m M ivs n, (2 <= m)%nat -> (m <= M)%nat ->
  Valid m M (map to_anom ivs) n ->
  (forall s e, In (s, e) ivs ->
     (s < e <= n)%nat /\ (e = S s \/ (s + m <= e /\ e <= s + M)%nat)) /\
  (forall i, (S i < length ivs)%nat ->
     (snd (nth i ivs (0, 0)%nat) <= fst (nth (S i) ivs (0, 0)%nat))%nat).
Proof.
  intros m M ivs n Hm _ Hv. unfold Valid in Hv.
  destruct (valid_from_concrete m M ivs 0%nat n ltac:(lia) Hv) as (_ & Hin & Hcons).
  split; [|exact Hcons]. intros s e H. destruct (Hin s e H) as [H1 H2]. split; [lia|exact H2].
Qed.

(** the concrete clauses as one predicate on an interval list *)
Definition intervals_wf (m M n : nat) (ivs : list (nat * nat)) : Prop :=
  (forall s e, In (s, e) ivs ->
     (s < e <= n)%nat /\ (e = S s \/ (s + m <= e /\ e <= s + M)%nat)) /\
  (forall i, (S i < length ivs)%nat ->
     (snd (nth i ivs (0, 0)%nat) <= fst (nth (S i) ivs (0, 0)%nat))%nat).

(** consecutive disjointness extends to every pair: the intervals are pairwise disjoint *)
Lemma intervals_wf_pairwise : forall m M n ivs, intervals_wf m M n ivs ->
  StronglySorted iv_before ivs.
Proof.
  intros m M n ivs [Hin Hcons]. apply consec_ivs_pairwise; [|exact Hcons].
  intros s e H. destruct (Hin s e H) as [H1 _]. lia.
Qed.

Lemma intervals_wf_filter : forall m M n ivs f, intervals_wf m M n ivs ->
  intervals_wf m M n (filter f ivs).
Proof.
  intros m M n ivs f Hwf. pose proof (intervals_wf_pairwise m M n ivs Hwf) as HS.
  destruct Hwf as [Hin _]. split.
  - intros s e H. apply filter_In in H as [H _]. exact (Hin s e H).
  - intros i Hi. exact (ssorted_consec iv_before (0, 0)%nat _ (ssorted_filter iv_before f ivs HS) i Hi).
Qed.

Definition intervals_wf_b (m M n : nat) (ivs : list (nat * nat)) : bool :=
  forallb (fun se => (fst se <? snd se)%nat && (snd se <=? n)%nat &&
                     ((snd se =? S (fst se))%nat || ((fst se + m <=? snd se)%nat && (snd se <=? fst se + M)%nat))) ivs &&
  forallb (fun i => (snd (nth i ivs (0, 0)%nat) <=? fst (nth (S i) ivs (0, 0)%nat))%nat) (seq 0 (length ivs - 1)).

Lemma intervals_wf_b_sound : forall m M n ivs, intervals_wf_b m M n ivs = true -> intervals_wf m M n ivs.
Proof.
  intros m M n ivs H. unfold intervals_wf_b in H. apply andb_true_iff in H as [H1 H2].
  rewrite forallb_forall in H1, H2. split.
  - intros s e Hin. specialize (H1 (s, e) Hin). cbn [fst snd] in H1.
    apply andb_true_iff in H1 as [H1 Hc]. apply andb_true_iff in H1 as [Ha Hb].
    apply Nat.ltb_lt in Ha. apply Nat.leb_le in Hb. split; [lia|].
    apply orb_true_iff in Hc as [Hc|Hc].
    + left. now apply Nat.eqb_eq.
    + right. apply andb_true_iff in Hc as [Hc1 Hc2]. apply Nat.leb_le in Hc1, Hc2. lia.
  - intros i Hi. apply Nat.leb_le. apply H2. apply in_seq. lia.
Qed.

Section CapaOutput.
Variables (Sc : nat -> nat -> list Z) (Sp : nat -> list Z) (ac : Z) (bc : list Z) (ap : Z) (bp : list Z).
Variables (m M delay n : nat).
Hypothesis Hm : (2 <= m)%nat.
Hypothesis HM : (m <= M)%nat.
Variables (scores : list Z) (c p : list (nat * nat)).
Hypothesis Hrun : capa Sc Sp ac bc ap bp m M delay n = (scores, c, p).

(** any savings, any penalties, any pruning delay *)
Theorem capa_output_wellformed :
  (* with point anomalies *)
  ((forall s e, In (s, e) (capa_predict false c p) ->
      (s < e <= n)%nat /\ (e = S s \/ (s + m <= e /\ e <= s + M)%nat)) /\
   (forall i, (S i < length (capa_predict false c p))%nat ->
      (snd (nth i (capa_predict false c p) (0, 0)%nat) <=
       fst (nth (S i) (capa_predict false c p) (0, 0)%nat))%nat)) /\
  (* ignore_point_anomalies = True *)
  ((forall s e, In (s, e) (capa_predict true c p) ->
      (s < e <= n)%nat /\ (e = S s \/ (s + m <= e /\ e <= s + M)%nat)) /\
   (forall i, (S i < length (capa_predict true c p))%nat ->
      (snd (nth i (capa_predict true c p) (0, 0)%nat) <=
       fst (nth (S i) (capa_predict true c p) (0, 0)%nat))%nat)) /\
  (* ... and then no interval of length 1 is left: all are collective *)
  (forall s e, In (s, e) (capa_predict true c p) ->
      e <> S s /\ (s + m <= e /\ e <= s + M)%nat /\ In (s, e) (capa_predict false c p)).
Proof.
  pose proof (capa_wellformed Sc Sp ac bc ap bp m M delay Hm HM n scores c p Hrun) as Hv.
  pose proof (valid_concrete m M _ n Hm HM Hv) as Hwf.
  pose proof (capa_ignore_points Sc Sp ac bc ap bp m M delay n scores c p Hrun) as Hig.
  split; [exact Hwf|].
  assert (Hwf' : intervals_wf m M n (capa_predict true c p)).
  { rewrite Hig. apply intervals_wf_filter. exact Hwf. }
  split; [exact Hwf'|].
  intros s e H. destruct (proj1 Hwf' s e H) as [_ Hlen].
  rewrite Hig in H. apply filter_In in H as [Hin Hnp].
  unfold is_point in Hnp. cbn [fst snd] in Hnp. apply negb_true_iff in Hnp. apply Nat.eqb_neq in Hnp.
  split; [exact Hnp|]. split; [|exact Hin]. destruct Hlen as [Hlen|Hlen]; [contradiction|exact Hlen].
Qed.

(** both variants are pairwise disjoint, not only consecutively *)
Theorem capa_output_pairwise_disjoint :
  StronglySorted iv_before (capa_predict false c p) /\ StronglySorted iv_before (capa_predict true c p).
Proof.
  destruct capa_output_wellformed as (H1 & H2 & _).
  split; [exact (intervals_wf_pairwise m M n _ H1)|exact (intervals_wf_pairwise m M n _ H2)].
Qed.
End CapaOutput.

(** ====================================================================== *)
(** * 4. Seeded binary segmentation *)

Theorem sbs_output_wellformed : forall CS m thr n ivs cpts am,
  0 <= thr -> (1 <= m)%nat ->
  (forall s e, In (s, e) ivs -> (s + 2 * m <= e <= n)%nat) ->
  sbs CS m thr ivs = Some (cpts, am) ->
  StronglySorted lt cpts /\
  (forall c, In c cpts -> (1 <= c <= n - 1 /\ m <= c /\ c + m <= n)%nat) /\
  (forall i, (S i < length cpts)%nat -> (nthN cpts i + m <= nthN cpts (S i))%nat).
Proof.
  intros CS m thr n ivs cpts am Hthr Hm Hivs Hrun.
  destruct (sbs_wellformed CS m thr n ivs cpts am Hthr Hm Hivs Hrun) as (Hgap & Hin & _).
  assert (Hgap' : forall i, (S i < length cpts)%nat -> (nthN cpts i + m <= nthN cpts (S i))%nat).
  { intros i Hi. exact (proj2 (Hgap i Hi)). }
  split; [exact (consec_gap_sorted m cpts Hm Hgap')|]. split; [|exact Hgap'].
  intros c Hc. specialize (Hin c Hc). lia.
Qed.

(** the output is an admissible segmentation in the sense of PELT's [Adm] whenever one exists *)
Corollary sbs_output_adm : forall CS m thr n ivs cpts am,
  0 <= thr -> (1 <= m)%nat -> (m <= n)%nat ->
  (forall s e, In (s, e) ivs -> (s + 2 * m <= e <= n)%nat) ->
  sbs CS m thr ivs = Some (cpts, am) -> Adm m cpts n.
Proof.
  intros CS m thr n ivs cpts am Hthr Hm Hn Hivs Hrun.
  destruct (sbs_output_wellformed CS m thr n ivs cpts am Hthr Hm Hivs Hrun) as (_ & Hin & Hgap).
  apply concrete_adm; [exact Hn| |exact Hgap]. intros c Hc. specialize (Hin c Hc). lia.
Qed.

(** ====================================================================== *)
(** * 5. Moving window *)

Theorem mw_output_wellformed : forall CS b n thr mdi, 0 <= thr -> (1 <= b)%nat ->
  let cpts := snd (mw CS b n thr mdi) in
  StronglySorted lt cpts /\
  forall c, In c cpts -> (b <= c /\ c + b <= n /\ 1 <= c <= n - 1)%nat.
Proof.
  intros CS b n thr mdi Hthr Hb cpts. split.
  - unfold cpts, mw. cbn [snd]. apply mw_cpts_sorted.
  - intros c Hc. destruct (mw_cpts_range CS b n thr mdi c Hthr Hc) as [H1 H2]. lia.
Qed.

(** ====================================================================== *)
(** * 6. Circular binary segmentation *)

Theorem cbs_output_wellformed : forall LS m thr n ivs anoms am,
  0 <= thr -> (1 <= m)%nat ->
  (forall s e, In (s, e) ivs -> (e <= n)%nat) ->
  cbs LS m thr ivs = Some (anoms, am) ->
  (* consecutive anomalies: increasing and disjoint *)
  (forall i, (S i < length anoms)%nat ->
     (fst (nthP anoms i) < fst (nthP anoms (S i)) /\
      snd (nthP anoms i) <= fst (nthP anoms (S i)))%nat) /\
  (* every anomaly: non-empty, strictly inside the data, length >= m *)
  (forall a z, In (a, z) anoms -> (a < z /\ 1 <= a /\ z <= n - 1 /\ z < n /\ a + m <= z)%nat) /\
  (* pairwise disjoint *)
  StronglySorted iv_before anoms.
Proof.
  intros LS m thr n ivs anoms am Hthr Hm Hivs Hrun.
  destruct (cbs_wellformed LS m thr n ivs anoms am Hthr Hm Hivs Hrun) as (Hcons & Hin & _).
  assert (Hin' : forall a z, In (a, z) anoms -> (a < z /\ 1 <= a /\ z <= n - 1 /\ z < n /\ a + m <= z)%nat).
  { intros a z H. specialize (Hin a z H). lia. }
  split; [exact Hcons|]. split; [exact Hin'|].
  apply consec_ivs_pairwise.
  - intros s e H. specialize (Hin' s e H). lia.
  - intros i Hi. exact (proj2 (Hcons i Hi)).
Qed.

(** ====================================================================== *)
(** * 7. MVCAPA affected columns *)

Theorem affected_columns_wellformed : forall sav alpha betas,
  length betas = length sav -> (1 <= length sav)%nat ->
  affected sav alpha betas <> [] /\ NoDup (affected sav alpha betas) /\
  forall j, In j (affected sav alpha betas) -> (j < length sav)%nat.
Proof. intros sav alpha betas HL Hp. exact (affected_ok sav alpha betas HL Hp). Qed.

Corollary affected_columns_count : forall sav alpha betas,
  length betas = length sav -> (1 <= length sav)%nat ->
  (1 <= length (affected sav alpha betas) <= length sav)%nat.
Proof.
  intros sav alpha betas HL Hp. apply subset_ok_length. exact (affected_ok sav alpha betas HL Hp).
Qed.

(** ====================================================================== *)
(** * 8. Output frame: labels 1..K of the dense output, RangeIndex 0..K-1 of the sparse one *)

Definition event_labels (K : nat) : list nat := seq 1 K.
Definition range_index (K : nat) : list nat := seq 0 K.

Lemma event_labels_length : forall K, length (event_labels K) = K.
Proof. intros K. apply seq_length. Qed.
Lemma range_index_length : forall K, length (range_index K) = K.
Proof. intros K. apply seq_length. Qed.
Lemma event_labels_spec : forall K i, (i < K)%nat -> nth i (event_labels K) 0%nat = S i.
Proof. intros K i Hi. unfold event_labels. rewrite seq_nth by exact Hi. reflexivity. Qed.
Lemma range_index_spec : forall K i, (i < K)%nat -> nth i (range_index K) 0%nat = i.
Proof. intros K i Hi. unfold range_index. rewrite seq_nth by exact Hi. reflexivity. Qed.
Lemma event_labels_in : forall K l, In l (event_labels K) <-> (1 <= l <= K)%nat.
Proof. intros K l. unfold event_labels. rewrite in_seq. lia. Qed.
Lemma range_index_in : forall K i, In i (range_index K) <-> (i < K)%nat.
Proof. intros K i. unfold range_index. rewrite in_seq. lia. Qed.
Lemma event_labels_nodup : forall K, NoDup (event_labels K).
Proof. intros K. apply seq_NoDup. Qed.
Lemma range_index_nodup : forall K, NoDup (range_index K).
Proof. intros K. apply seq_NoDup. Qed.
(** label 0 (= "no event") is never an event label *)
Lemma event_labels_positive : forall K, ~ In 0%nat (event_labels K).
Proof. intros K H. apply event_labels_in in H. lia. Qed.

(** ====================================================================== *)
(** * 9. Worked examples (vm_compute) *)

(** PELT: nine observations, two candidate levels, level shifts after 3 and 6 *)
Definition ex_loss : list (list Z) := [[0;3];[0;3];[0;3];[3;0];[3;0];[3;0];[0;3];[0;3];[0;3]].
Example pelt_example :
  snd (pelt_code (tcost ex_loss 1) 1 2 9) = [3; 6]%nat /\
  cpts_wf_b 2 9 (snd (pelt_code (tcost ex_loss 1) 1 2 9)) = true.
Proof. vm_compute. split; reflexivity. Qed.

(** CAPA: a point anomaly at 2 and a collective anomaly [4,7) *)
Definition ex_closs : list (list Z) := [[0;3;9];[0;3;9];[9;9;0];[0;3;9];[3;0;9];[3;0;9];[3;0;9];[0;3;9]].
Definition ex_Sc (s e : nat) : list Z := [lsav ex_closs 2 s e].
Definition ex_Sp (t : nat) : list Z := [lsav ex_closs 2 t (S t)].
Example capa_example :
  capa ex_Sc ex_Sp 1 [0] 4 [0] 2 4 1 8 = ([0; 0; 5; 5; 5; 10; 13; 13], [(4, 7)]%nat, [(2, 3)]%nat) /\
  capa_predict false [(4, 7)]%nat [(2, 3)]%nat = [(2, 3); (4, 7)]%nat /\
  capa_predict true [(4, 7)]%nat [(2, 3)]%nat = [(4, 7)]%nat /\
  intervals_wf_b 2 4 8 (capa_predict false [(4, 7)]%nat [(2, 3)]%nat) = true /\
  intervals_wf_b 2 4 8 (capa_predict true [(4, 7)]%nat [(2, 3)]%nat) = true.
Proof. vm_compute. repeat split; reflexivity. Qed.

(** seeded binary segmentation and moving window on the same score profile *)
Definition ex_tab : list Z := [0; 0; 0; 9; 0; 0; 7; 0; 0; 0].
Definition ex_CS (s k e : nat) : Z := nthZ ex_tab k.
Example sbs_example :
  sbs ex_CS 2 1 [(0, 10); (0, 5); (4, 10)]%nat = Some ([3; 6]%nat, [(3%nat, 9); (3%nat, 9); (6%nat, 7)]) /\
  cpts_wf_b 2 10 [3; 6]%nat = true.
Proof. vm_compute. split; reflexivity. Qed.
Example mw_example :
  snd (mw ex_CS 2 10 1 1) = [3; 6]%nat /\ cpts_wf_b 2 10 (snd (mw ex_CS 2 10 1 1)) = true.
Proof. vm_compute. split; reflexivity. Qed.

(** circular binary segmentation: two disjoint anomalies *)
Definition ex_LS (s a z e : nat) : Z :=
  if ((s =? 0) && (a =? 3) && (z =? 5))%nat then 9
  else if ((s =? 5) && (a =? 7) && (z =? 9))%nat then 7 else 0.
Example cbs_example :
  cbs ex_LS 2 1 [(0, 10); (5, 10)]%nat = Some ([(3, 5); (7, 9)]%nat, [((3, 5)%nat, 9); ((7, 9)%nat, 7)]) /\
  intervals_wf_b 2 10 9 [(3, 5); (7, 9)]%nat = true.
Proof. vm_compute. split; reflexivity. Qed.

(** MVCAPA: columns ordered by decreasing saving, cut where the penalised sum peaks *)
Example affected_example : affected [3; 5; 1] 0 [1; 2; 3] = [1; 0]%nat.
Proof. vm_compute. reflexivity. Qed.

Example labels_example : event_labels 3 = [1; 2; 3]%nat /\ range_index 3 = [0; 1; 2]%nat.
Proof. vm_compute. split; reflexivity. Qed.

(** the checkers applied to the examples give the Prop-level clauses *)
Example pelt_example_clauses :
  let cpts := snd (pelt_code (tcost ex_loss 1) 1 2 9) in
  StronglySorted lt cpts /\
  (forall c, In c cpts -> (1 <= c <= 9 - 1 /\ 2 <= c /\ c + 2 <= 9)%nat) /\
  (forall i, (S i < length cpts)%nat -> (nthN cpts i + 2 <= nthN cpts (S i))%nat).
Proof. apply cpts_wf_b_sound; [lia|]. exact (proj2 pelt_example). Qed.

(* ------------------------------------------------------------------ *)
Print Assumptions admseg_concrete.
Print Assumptions adm_concrete.
Print Assumptions concrete_adm.
Print Assumptions adm_iff_concrete.
Print Assumptions cpts_wf_b_sound.
Print Assumptions pelt_wellformed_any_delay.
Print Assumptions pelt_wellformed.
Print Assumptions pelt_count.
Print Assumptions valid_concrete.
Print Assumptions intervals_wf_filter.
Print Assumptions intervals_wf_b_sound.
Print Assumptions capa_output_wellformed.
Print Assumptions capa_output_pairwise_disjoint.
Print Assumptions sbs_output_wellformed.
Print Assumptions sbs_output_adm.
Print Assumptions mw_output_wellformed.
Print Assumptions cbs_output_wellformed.
Print Assumptions affected_columns_wellformed.
Print Assumptions affected_columns_count.
Print Assumptions event_labels_spec.
Print Assumptions event_labels_length.
Print Assumptions range_index_length.
Print Assumptions range_index_spec.
Print Assumptions pelt_example.
Print Assumptions capa_example.
Print Assumptions sbs_example.
Print Assumptions mw_example.
Print Assumptions cbs_example.
Print Assumptions affected_example.
Print Assumptions pelt_example_clauses.
