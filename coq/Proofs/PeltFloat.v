(** The BINARY64 run of PELT and the inexact-arithmetic theorem.

    [gpelt F64 Cf penf m delay n] (Model/Generic.v at the instance Model/GenericF.v) is the PELT
    loop on Coq's primitive floats; the harness runs it on the float cost tables of the real
    scorers and it reproduces the real detector bit for bit.  Proofs/PeltApprox.v proves that
    PELT over the reals with ARBITRARY candidate / threshold / initial functions [V], [W], [I0]
    within [eps] of exact arithmetic loses at most [3 n eps] in the true objective.

    This file links the two:

      1  [pelt_trace_finite Cf penf m delay n : bool] -- a [vm_compute]-able test that every
         float the run looks at is finite;
      2  [gpelt_F64_is_peltA] -- under that test, the float run IS the inexact real run
         [peltA Vt Wt I0t (FR penf)] for the REALISED tables
            Vt a T _ = FR ((opt[a] + Cf a T) + penf),  Wt T _ = FR (opt[T] + penf),
            I0t e = FR (Cf 0 e)
         (opt = the final array of stored values; stored values are never overwritten:
         [grun_opt_prefix]);
      3  [FR_cand_error], [FR_thr_error] -- the rounding error of one candidate / threshold;
      4  [pelt_F64_near_optimal], [pelt_F64_final_close] -- the theorems of PeltApprox.v for the
         binary64 run, with the error hypotheses stated on the floats of the run;
      5  [pelt_F64_near_optimal_bounds], [pelt_F64_final_close_bounds] -- the same from an error
         bound [delta] on the cost table and a magnitude bound [Mag] on the sums:
         eps = delta + 2 * u53 * Mag;
      6  a concrete example. *)
From Coq Require Import Reals Lra Lia List Arith ZArith Bool Floats.
From Flocq Require Import Core BinarySingleNaN.
From Flocq Require IEEE754.PrimFloat.
From SK Require Import Lib.Base Model.Pelt Model.Generic Model.GenericF Model.PeltR Model.PeltA
                       Proofs.PeltSpec Proofs.PeltLemmas Proofs.PeltRefine Proofs.PeltReal
                       Proofs.PeltApprox Proofs.FloatError Proofs.FloatRefine.
Import ListNotations.
Local Open Scope R_scope.

(** [FR] is the real value of a float (Proofs/FloatRefine.v), not the optimal-partitioning
    recursion of Proofs/PeltReal.v *)
Notation FR := FloatRefine.FR.
(** [float] is the type of primitive floats (not Flocq's record of the same name) *)
Notation float := PrimFloat.float (only parsing).

(* ------------------------------------------------------------------------- *)
(** * 0. Comparisons and negation of finite floats                             *)
(* ------------------------------------------------------------------------- *)

Lemma ltb_FR x y : finF x = true -> finF y = true ->
  PrimFloat.ltb x y = Rltb (FR x) (FR y).
Proof.
  intros Hx Hy. rewrite finF_B in Hx, Hy.
  rewrite FP.ltb_equiv, (Bltb_correct _ _ _ _ Hx Hy). unfold FloatRefine.FR.
  destruct (Rlt_bool_spec (B2R (FP.Prim2B x)) (B2R (FP.Prim2B y))) as [H|H]; symmetry.
  - now apply Rltb_true.
  - now apply Rltb_false.
Qed.

Lemma leb_FR x y : finF x = true -> finF y = true ->
  PrimFloat.leb x y = Rleb (FR x) (FR y).
Proof.
  intros Hx Hy. rewrite finF_B in Hx, Hy.
  rewrite FP.leb_equiv, (Bleb_correct _ _ _ _ Hx Hy). unfold FloatRefine.FR.
  destruct (Rle_bool_spec (B2R (FP.Prim2B x)) (B2R (FP.Prim2B y))) as [H|H]; symmetry.
  - now apply Rleb_true.
  - now apply Rleb_false.
Qed.

Lemma FR_opp x : FR (- x)%float = - FR x.
Proof. unfold FloatRefine.FR. rewrite FP.opp_equiv. apply B2R_Bopp. Qed.

Lemma finF_opp x : finF (- x)%float = finF x.
Proof. rewrite !finF_B, FP.opp_equiv. apply is_finite_Bopp. Qed.

Lemma nthR_map_FR (l : list float) a : nthR (map FR l) a = FR (nthV F64 l a).
Proof.
  unfold nthR, nthV. rewrite <- FR_zero. change (zero F64) with 0%float. apply map_nth.
Qed.

Lemma map_FR_repeat x k : map FR (repeat x k) = repeat (FR x) k.
Proof. induction k as [|k IH]; cbn [repeat map]; [reflexivity|]. now rewrite IH. Qed.

(* ------------------------------------------------------------------------- *)
(** * 1. Structure of the generic run (any number type)                        *)
(* ------------------------------------------------------------------------- *)

Section GStruct.
Variable N : num.
Variable C : nat -> nat -> T N.
Variable pen : T N.
Variable m delay : nat.
Hypothesis m_pos : (1 <= m)%nat.

Notation stepG := (gstep N C pen m delay).
Notation runG := (grun N C pen m delay).
Notation initG := (ginit N C pen m).

Definition gstarts1 (s : gst N) (t : nat) : list nat := gstarts N s ++ [t - (m - 1)]%nat.
Definition gcands (s : gst N) (t : nat) : list (T N) :=
  map (fun a => add N (add N (nthV N (gopt N s) a) (C a (S t))) pen) (gstarts1 s t).
Definition gdrop (s : gst N) (t : nat) (b : T N) : list nat :=
  map fst (filter (fun ac => negb (leb N (snd ac) (add N b pen)))
                  (combine (gstarts1 s t) (gcands s t))).

Lemma gstep_unfold s t :
  stepG s t =
  match gargmin N (gcands s t) with
  | None => s
  | Some (i, b) =>
    if (delay <? length (gpending N s ++ [gdrop s t b]))%nat
    then {| gopt := gopt N s ++ [b]; gprev := gprev N s ++ [nthN (gstarts1 s t) i];
            gstarts := removeall (hd [] (gpending N s ++ [gdrop s t b])) (gstarts1 s t);
            gpending := tl (gpending N s ++ [gdrop s t b]) |}
    else {| gopt := gopt N s ++ [b]; gprev := gprev N s ++ [nthN (gstarts1 s t) i];
            gstarts := removeall [] (gstarts1 s t);
            gpending := gpending N s ++ [gdrop s t b] |}
  end.
Proof.
  unfold gstep, gcands, gdrop, gstarts1. cbv zeta.
  destruct (gargmin N _) as [[i b]|]; [|reflexivity].
  destruct (delay <? _)%nat; reflexivity.
Qed.

Lemma gstep_gopt s t :
  gopt N (stepG s t) =
  match gargmin N (gcands s t) with None => gopt N s | Some (_, b) => gopt N s ++ [b] end.
Proof.
  rewrite gstep_unfold. destruct (gargmin N (gcands s t)) as [[i b]|]; [|reflexivity].
  destruct (delay <? _)%nat; reflexivity.
Qed.

Lemma gcands_nonempty s t : gcands s t <> [].
Proof.
  unfold gcands, gstarts1. intros E. apply map_eq_nil in E.
  destruct (gstarts N s); discriminate E.
Qed.

Lemma gargmin_none l : gargmin N l = None -> l = [].
Proof. destruct l; [reflexivity|discriminate]. Qed.

Lemma gstep_len s t : length (gopt N (stepG s t)) = S (length (gopt N s)).
Proof.
  rewrite gstep_gopt. destruct (gargmin N (gcands s t)) as [[i b]|] eqn:E.
  - rewrite app_length. cbn [length]. lia.
  - apply gargmin_none in E. now apply gcands_nonempty in E.
Qed.

Lemma grun_init : runG (2 * m - 1) = initG.
Proof. unfold grun. rewrite Nat.sub_diag. reflexivity. Qed.

Lemma grun_S t : (2 * m - 1 <= t)%nat -> runG (S t) = stepG (runG t) t.
Proof.
  intros Ht. unfold grun.
  replace (S t - (2 * m - 1))%nat with (S (t - (2 * m - 1))) by lia.
  rewrite seq_S, fold_left_app. cbn [fold_left].
  replace (2 * m - 1 + (t - (2 * m - 1)))%nat with t by lia. reflexivity.
Qed.

Lemma grun_len t : (2 * m - 1 <= t)%nat -> length (gopt N (runG t)) = S t.
Proof.
  intros Ht. induction Ht as [|t Ht IH].
  - rewrite grun_init. unfold ginit. cbn [gopt].
    rewrite app_length, repeat_length, map_length, seq_length. lia.
  - rewrite grun_S by exact Ht. rewrite gstep_len, IH. reflexivity.
Qed.

(** stored values are never overwritten *)
Lemma grun_opt_prefix n t : (2 * m - 1 <= t)%nat -> (t <= n)%nat ->
  forall e, (e <= t)%nat -> nthV N (gopt N (runG n)) e = nthV N (gopt N (runG t)) e.
Proof.
  intros Ht Htn. induction Htn as [|n' Hle IH]; intros e He; [reflexivity|].
  rewrite grun_S by lia. rewrite gstep_gopt.
  destruct (gargmin N (gcands (runG n') n')) as [[i b]|]; [|now apply IH].
  pose proof (grun_len n' ltac:(lia)) as Hlen.
  unfold nthV at 1. rewrite app_nth1 by lia. now apply IH.
Qed.
End GStruct.

(* ------------------------------------------------------------------------- *)
(** * 2. The realised tables and the finiteness test                           *)
(* ------------------------------------------------------------------------- *)

(** the final array of stored values [opt_cost[0..n]] of the binary64 run *)
Definition optF64 (Cf : nat -> nat -> float) (penf : float) (m delay n : nat) : list float :=
  gopt F64 (grun F64 Cf penf m delay n).

(** the float candidate, from the FINAL run's stored [opt[a]] *)
Definition Vt (Cf : nat -> nat -> float) (penf : float) (m delay n : nat)
    (a t : nat) (_ : R) : R :=
  FR ((nthV F64 (optF64 Cf penf m delay n) a + Cf a t) + penf)%float.
Definition Wt (Cf : nat -> nat -> float) (penf : float) (m delay n : nat)
    (t : nat) (_ : R) : R :=
  FR (nthV F64 (optF64 Cf penf m delay n) t + penf)%float.
Definition I0t (Cf : nat -> nat -> float) (e : nat) : R := FR (Cf 0%nat e).

(** every float the run can look at is finite *)
Definition pelt_trace_finite (Cf : nat -> nat -> float) (penf : float) (m delay n : nat) : bool :=
  let o := optF64 Cf penf m delay n in
  finF penf && finF (- penf)%float && forallb finF o &&
  forallb (fun t =>
      finF (nthV F64 o t + penf)%float &&
      forallb (fun a =>
          finF (Cf a t) && finF (nthV F64 o a + Cf a t)%float &&
          finF ((nthV F64 o a + Cf a t) + penf)%float) (seq 0 t))
    (seq 0 (S n)).

Record trace_fin (Cf : nat -> nat -> float) (penf : float) (m delay n : nat) : Prop := {
  tf_pen : finF penf = true;
  tf_negpen : finF (- penf)%float = true;
  tf_opt : forall a, finF (nthV F64 (optF64 Cf penf m delay n) a) = true;
  tf_thr : forall t, (t <= n)%nat -> finF (nthV F64 (optF64 Cf penf m delay n) t + penf)%float = true;
  tf_cost : forall a t, (a < t <= n)%nat -> finF (Cf a t) = true;
  tf_sum : forall a t, (a < t <= n)%nat ->
      finF (nthV F64 (optF64 Cf penf m delay n) a + Cf a t)%float = true;
  tf_cand : forall a t, (a < t <= n)%nat ->
      finF ((nthV F64 (optF64 Cf penf m delay n) a + Cf a t) + penf)%float = true }.

Lemma pelt_trace_finite_spec Cf penf m delay n :
  pelt_trace_finite Cf penf m delay n = true -> trace_fin Cf penf m delay n.
Proof.
  unfold pelt_trace_finite. cbv zeta. intros H.
  apply andb_prop in H as [H H4]. apply andb_prop in H as [H H3]. apply andb_prop in H as [H1 H2].
  rewrite forallb_forall in H3, H4.
  assert (Hin : forall t, (t <= n)%nat ->
     finF (nthV F64 (optF64 Cf penf m delay n) t + penf)%float = true /\
     forall a, (a < t)%nat ->
       finF (Cf a t) = true /\
       finF (nthV F64 (optF64 Cf penf m delay n) a + Cf a t)%float = true /\
       finF ((nthV F64 (optF64 Cf penf m delay n) a + Cf a t) + penf)%float = true).
  { intros t Ht. specialize (H4 t). rewrite in_seq in H4. specialize (H4 ltac:(lia)).
    apply andb_prop in H4 as [Ha Hb]. split; [exact Ha|].
    rewrite forallb_forall in Hb. intros a Ha'. specialize (Hb a). rewrite in_seq in Hb.
    specialize (Hb ltac:(lia)). apply andb_prop in Hb as [Hb Hb3]. apply andb_prop in Hb as [Hb1 Hb2].
    auto. }
  constructor.
  - exact H1.
  - exact H2.
  - intros a. unfold nthV.
    destruct (Nat.lt_ge_cases a (length (optF64 Cf penf m delay n))) as [Hlt|Hge].
    + apply H3. now apply nth_In.
    + rewrite nth_overflow by exact Hge. exact finF_zero.
  - intros t Ht. apply (Hin t Ht).
  - intros a t Hat. apply (Hin t); lia.
  - intros a t Hat. apply (Hin t); lia.
  - intros a t Hat. apply (Hin t); lia.
Qed.

(* ------------------------------------------------------------------------- *)
(** * 3. Simulation: the binary64 run is the inexact real run                  *)
(* ------------------------------------------------------------------------- *)

Definition liftpF (p : nat * float) : nat * R := (fst p, FR (snd p)).

Lemma argminR_from_FR (l : list float) : forall bi (b : float) i,
  finF b = true -> forallb finF l = true ->
  argminR_from bi (FR b) i (map FR l) = liftpF (gargmin_from F64 bi b i l).
Proof.
  induction l as [|x t IH]; intros bi b i Hb Hl; cbn [map argminR_from gargmin_from]; [reflexivity|].
  cbn [forallb] in Hl. apply andb_prop in Hl as [Hx Ht].
  change (ltb F64 x b) with (PrimFloat.ltb x b). rewrite (ltb_FR x b Hx Hb).
  destruct (Rltb (FR x) (FR b)); apply IH; assumption.
Qed.

Lemma argminR_FR (l : list float) : forallb finF l = true ->
  argminR (map FR l) = option_map liftpF (gargmin F64 l).
Proof.
  destruct l as [|x t]; cbn [map argminR gargmin option_map forallb]; [reflexivity|].
  intros H. apply andb_prop in H as [Hx Ht]. now rewrite argminR_from_FR.
Qed.

Lemma drop_FR (l1 : list nat) (z : float) : finF z = true ->
  forall cz : list float, forallb finF cz = true ->
  map fst (filter (fun ac : nat * R => negb (Rleb (snd ac) (FR z))) (combine l1 (map FR cz)))
  = map fst (filter (fun ac : nat * float => negb (leb F64 (snd ac) z)) (combine l1 cz)).
Proof.
  intros Hz. induction l1 as [|a l1 IH]; intros cz Hc; [reflexivity|].
  destruct cz as [|c cz]; [reflexivity|].
  cbn [forallb] in Hc. apply andb_prop in Hc as [Hc1 Hc2].
  cbn [map combine filter snd].
  change (leb F64 c z) with (PrimFloat.leb c z). rewrite (leb_FR c z Hc1 Hz).
  destruct (Rleb (FR c) (FR z)); cbn [negb map fst]; now rewrite IH.
Qed.

Definition liftF (s : gst F64) : stR :=
  {| optR := map FR (gopt F64 s); prevR := gprev F64 s;
     startsR := gstarts F64 s; pendingR := gpending F64 s |}.

Lemma stepA_unfold V W m delay s t :
  stepA V W m delay s t =
  match argminR (candsA V m s t) with
  | None => s
  | Some (i, b) =>
    if (delay <? length (pendingR s ++ [droplA V W m s t b]))%nat
    then {| optR := optR s ++ [b]; prevR := prevR s ++ [nthN (starts1A m s t) i];
            startsR := removeall (hd [] (pendingR s ++ [droplA V W m s t b])) (starts1A m s t);
            pendingR := tl (pendingR s ++ [droplA V W m s t b]) |}
    else {| optR := optR s ++ [b]; prevR := prevR s ++ [nthN (starts1A m s t) i];
            startsR := removeall [] (starts1A m s t);
            pendingR := pendingR s ++ [droplA V W m s t b] |}
  end.
Proof.
  unfold stepA, candsA, droplA, candvA, starts1A. cbv zeta.
  destruct (argminR _) as [[i b]|]; [|reflexivity].
  destruct (delay <? _)%nat; reflexivity.
Qed.

Section Sim.
Variable Cf : nat -> nat -> float.
Variable penf : float.
Variable m delay n : nat.
Hypothesis m_pos : (1 <= m)%nat.
Hypothesis fin : trace_fin Cf penf m delay n.

Notation oF := (optF64 Cf penf m delay n).
Notation VtS := (Vt Cf penf m delay n).
Notation WtS := (Wt Cf penf m delay n).
Notation stepF := (gstep F64 Cf penf m delay).
Notation runF := (grun F64 Cf penf m delay).

Lemma step_sim (s : gst F64) t :
  length (gopt F64 s) = S t -> (S t <= n)%nat ->
  (forall a, In a (gstarts1 F64 m s t) -> (a <= t)%nat) ->
  (forall e, (e <= S t)%nat -> nthV F64 oF e = nthV F64 (gopt F64 (stepF s t)) e) ->
  stepA VtS WtS m delay (liftF s) t = liftF (stepF s t).
Proof.
  intros Hlen HtN Hst Hpre.
  rewrite gstep_gopt in Hpre.
  assert (Hold : forall e, (e <= t)%nat -> nthV F64 oF e = nthV F64 (gopt F64 s) e).
  { intros e He. rewrite (Hpre e) by lia.
    destruct (gargmin F64 (gcands F64 Cf penf m s t)) as [[i b]|]; [|reflexivity].
    unfold nthV. rewrite app_nth1 by lia. reflexivity. }
  assert (Hnew : forall i b, gargmin F64 (gcands F64 Cf penf m s t) = Some (i, b) ->
                             nthV F64 oF (S t) = b).
  { intros i b E. rewrite (Hpre (S t)) by lia. rewrite E.
    unfold nthV. rewrite app_nth2 by lia. rewrite Hlen, Nat.sub_diag. reflexivity. }
  clear Hpre.
  (* the candidates *)
  assert (Hc : candsA VtS m (liftF s) t = map FR (gcands F64 Cf penf m s t)).
  { unfold candsA, gcands. rewrite map_map.
    change (starts1A m (liftF s) t) with (gstarts1 F64 m s t).
    apply map_ext_in. intros a Ha. unfold candvA, Vt.
    rewrite (Hold a) by (now apply Hst). reflexivity. }
  assert (Hfc : forallb finF (gcands F64 Cf penf m s t) = true).
  { apply forallb_forall. intros x Hx. unfold gcands in Hx. apply in_map_iff in Hx as (a & <- & Ha).
    pose proof (Hst a Ha) as Hat. rewrite <- (Hold a Hat).
    apply (tf_cand _ _ _ _ _ fin). lia. }
  rewrite stepA_unfold, gstep_unfold, Hc, (argminR_FR _ Hfc).
  destruct (gargmin F64 (gcands F64 Cf penf m s t)) as [[i b]|] eqn:E;
    cbn [option_map liftpF fst snd]; [|reflexivity].
  pose proof (Hnew i b eq_refl) as Hb.
  assert (Hd : droplA VtS WtS m (liftF s) t (FR b) = gdrop F64 Cf penf m s t b).
  { unfold droplA, gdrop. rewrite Hc.
    change (starts1A m (liftF s) t) with (gstarts1 F64 m s t).
    unfold Wt. rewrite Hb.
    apply drop_FR; [|exact Hfc].
    rewrite <- Hb. apply (tf_thr _ _ _ _ _ fin). lia. }
  rewrite Hd.
  change (starts1A m (liftF s) t) with (gstarts1 F64 m s t).
  change (pendingR (liftF s)) with (gpending F64 s).
  destruct (delay <? length (gpending F64 s ++ [gdrop F64 Cf penf m s t b]))%nat;
    unfold liftF; cbn [gopt gprev gstarts gpending optR prevR startsR pendingR];
    (f_equal; symmetry; apply (map_app FR)).
Qed.

Lemma init_sim : initA (I0t Cf) (FR penf) m = liftF (ginit F64 Cf penf m).
Proof.
  unfold initA, ginit, liftF. cbn [gopt gprev gstarts gpending]. f_equal.
  rewrite map_app, map_FR_repeat, map_map.
  change (neg F64 penf) with (- penf)%float. rewrite FR_opp. reflexivity.
Qed.

Lemma run_sim t : (2 * m - 1 <= t)%nat -> (t <= n)%nat ->
  runA VtS WtS (I0t Cf) (FR penf) m delay t = liftF (runF t).
Proof.
  intros Ht. induction Ht as [|t Ht IH]; intros Htn.
  - rewrite runA_init, grun_init. apply init_sim.
  - rewrite (runA_S _ _ _ _ _ _ m_pos) by exact Ht.
    pose proof (runA_SInv' VtS WtS (I0t Cf) (FR penf) m delay m_pos t Ht) as HS.
    rewrite IH in * by lia.
    rewrite (grun_S F64 Cf penf m delay m_pos) by exact Ht.
    apply step_sim.
    + apply grun_len; assumption.
    + exact Htn.
    + intros a Ha. unfold gstarts1 in Ha. apply in_app_or in Ha as [Ha|[<-|[]]]; [|lia].
      pose proof (siA_starts _ _ _ _ _ _ HS a Ha) as Hf. unfold full in Hf. lia.
    + intros e He. rewrite <- (grun_S F64 Cf penf m delay m_pos) by exact Ht.
      unfold optF64. apply grun_opt_prefix; [exact m_pos|lia|exact Htn|exact He].
Qed.
End Sim.

(** SIMULATION: on a finite trace the binary64 PELT is the inexact real PELT of the realised
    tables, value for value (scores mapped by [FR]) and changepoint for changepoint *)
Theorem gpelt_F64_is_peltA (Cf : nat -> nat -> float) (penf : float) (m delay n : nat) :
  pelt_trace_finite Cf penf m delay n = true -> (1 <= m)%nat -> (2 * m <= n)%nat ->
  peltA (Vt Cf penf m delay n) (Wt Cf penf m delay n) (I0t Cf) (FR penf) m delay n
  = (map FR (fst (gpelt F64 Cf penf m delay n)), snd (gpelt F64 Cf penf m delay n)).
Proof.
  intros Hfin Hm Hn. apply pelt_trace_finite_spec in Hfin.
  unfold peltA, gpelt. cbv zeta.
  rewrite (run_sim Cf penf m delay n Hm Hfin n) by lia.
  cbn [liftF optR prevR fst snd]. rewrite tl_map. reflexivity.
Qed.

(** the stored values of the inexact real run are the real values of the stored floats *)
Lemma storedA_F64 (Cf : nat -> nat -> float) (penf : float) (m delay n : nat) :
  pelt_trace_finite Cf penf m delay n = true -> (1 <= m)%nat -> (2 * m <= n)%nat ->
  forall a, storedA (Vt Cf penf m delay n) (Wt Cf penf m delay n) (I0t Cf) (FR penf) m delay n a
            = FR (nthV F64 (optF64 Cf penf m delay n) a).
Proof.
  intros Hfin Hm Hn a. apply pelt_trace_finite_spec in Hfin. unfold storedA.
  rewrite (run_sim Cf penf m delay n Hm Hfin n) by lia.
  cbn [liftF optR]. apply nthR_map_FR.
Qed.

(* ------------------------------------------------------------------------- *)
(** * 4. Rounding error of one candidate / one threshold                       *)
(* ------------------------------------------------------------------------- *)

Lemma FR_thr_error (b p : float) :
  finF b = true -> finF p = true -> finF (b + p)%float = true ->
  Rabs (FR (b + p)%float - (FR b + FR p)) <= u53 * Rabs (FR b + FR p).
Proof.
  intros Hb Hp Hs. rewrite (FR_add53 b p Hb Hp Hs). apply rnd53_rel.
Qed.

Lemma FR_cand_error (g c p : float) :
  finF g = true -> finF c = true -> finF p = true ->
  finF (g + c)%float = true -> finF ((g + c) + p)%float = true ->
  Rabs (FR ((g + c) + p)%float - (FR g + FR c + FR p))
  <= u53 * Rabs (FR g + FR c) + u53 * Rabs (FR (g + c)%float + FR p).
Proof.
  intros Hg Hc Hp Hs Hr.
  pose proof (FR_thr_error g c Hg Hc Hs) as H1.
  pose proof (FR_thr_error (g + c)%float p Hs Hp Hr) as H2.
  replace (FR ((g + c) + p)%float - (FR g + FR c + FR p))
    with ((FR ((g + c) + p)%float - (FR (g + c)%float + FR p))
          + (FR (g + c)%float - (FR g + FR c))) by ring.
  eapply Rle_trans; [apply Rabs_triang|]. lra.
Qed.

(* ------------------------------------------------------------------------- *)
(** * 5. The main theorems for the binary64 run                                *)
(* ------------------------------------------------------------------------- *)

(** MAIN THEOREM.  [C] is the TRUE aggregated cost (split inequality); [eps] bounds the
    distance between every float candidate / threshold / initial value of the run and the
    exact expression on [C] evaluated at the stored floats.  Then the changepoints reported
    by the binary64 run are within [3 n eps] of optimal for the TRUE penalised cost. *)
Theorem pelt_F64_near_optimal (Cf : nat -> nat -> float) (penf : float) (C : nat -> nat -> R)
    (eps : R) (m delay n : nat) :
  (1 <= m)%nat -> (m <= delay + 1)%nat -> (2 * m <= n)%nat ->
  pelt_trace_finite Cf penf m delay n = true ->
  (forall s k e, (s + m <= k)%nat -> (k + m <= e)%nat -> (e <= n)%nat ->
                 C s k + C k e <= C s e) ->
  (forall a T, (a < T <= n)%nat ->
     Rabs (FR ((nthV F64 (optF64 Cf penf m delay n) a + Cf a T) + penf)%float
           - (FR (nthV F64 (optF64 Cf penf m delay n) a) + C a T + FR penf)) <= eps) ->
  (forall T, (T <= n)%nat ->
     Rabs (FR (nthV F64 (optF64 Cf penf m delay n) T + penf)%float
           - (FR (nthV F64 (optF64 Cf penf m delay n) T) + FR penf)) <= eps) ->
  (forall e, (m <= e < 2 * m)%nat -> Rabs (FR (Cf 0%nat e) - C 0%nat e) <= eps) ->
  forall c, Adm m c n ->
    pencostR C (FR penf) (snd (gpelt F64 Cf penf m delay n)) n
    <= pencostR C (FR penf) c n + 3 * INR n * eps.
Proof.
  intros Hm Hd Hn Hfin Hs HV HW HI c Hc.
  pose proof (gpelt_F64_is_peltA Cf penf m delay n Hfin Hm Hn) as Hsim.
  pose proof (storedA_F64 Cf penf m delay n Hfin Hm Hn) as Hst.
  pose proof (peltA_near_optimal_run (Vt Cf penf m delay n) (Wt Cf penf m delay n) (I0t Cf)
                C (FR penf) eps m delay n n Hm Hd Hn (le_n n) Hs) as H.
  rewrite Hsim in H. cbn [snd] in H. unfold K_pelt in H. apply H; [| |exact HI|exact Hc].
  - intros a T HaT. rewrite Hst. unfold Vt. now apply HV.
  - intros T HT. rewrite Hst. unfold Wt. now apply HW.
Qed.

(** the reported final score (a float) is within [n eps] of the TRUE penalised cost of the
    reported changepoints *)
Theorem pelt_F64_final_close (Cf : nat -> nat -> float) (penf : float) (C : nat -> nat -> R)
    (eps : R) (m delay n : nat) :
  (1 <= m)%nat -> (2 * m <= n)%nat ->
  pelt_trace_finite Cf penf m delay n = true ->
  (forall a T, (a < T <= n)%nat ->
     Rabs (FR ((nthV F64 (optF64 Cf penf m delay n) a + Cf a T) + penf)%float
           - (FR (nthV F64 (optF64 Cf penf m delay n) a) + C a T + FR penf)) <= eps) ->
  (forall e, (m <= e < 2 * m)%nat -> Rabs (FR (Cf 0%nat e) - C 0%nat e) <= eps) ->
  Rabs (nth (n - 1) (map FR (fst (gpelt F64 Cf penf m delay n))) 0
        - pencostR C (FR penf) (snd (gpelt F64 Cf penf m delay n)) n) <= INR n * eps.
Proof.
  intros Hm Hn Hfin HV HI.
  pose proof (gpelt_F64_is_peltA Cf penf m delay n Hfin Hm Hn) as Hsim.
  pose proof (storedA_F64 Cf penf m delay n Hfin Hm Hn) as Hst.
  pose proof (peltA_final_close_run (Vt Cf penf m delay n) (Wt Cf penf m delay n) (I0t Cf)
                C (FR penf) eps m delay n Hm Hn) as H.
  rewrite Hsim in H. cbn [fst snd] in H. apply H; [|exact HI].
  intros a T HaT. rewrite Hst. unfold Vt. now apply HV.
Qed.

(** the final score as a float: the last entry of the score array *)
Lemma pelt_F64_final_score (Cf : nat -> nat -> float) (penf : float) (m delay n : nat) :
  nth (n - 1) (map FR (fst (gpelt F64 Cf penf m delay n))) 0
  = FR (nthV F64 (fst (gpelt F64 Cf penf m delay n)) (n - 1)).
Proof. exact (nthR_map_FR _ _). Qed.

(* ------------------------------------------------------------------------- *)
(** * 6. The error hypotheses from a table error and a magnitude bound         *)
(* ------------------------------------------------------------------------- *)

Section Bounds.
Variable Cf : nat -> nat -> float.
Variable penf : float.
Variable C : nat -> nat -> R.
Variable delta Mag : R.
Variable m delay n : nat.
Hypothesis m_pos : (1 <= m)%nat.
Hypothesis n_big : (2 * m <= n)%nat.
Hypothesis fin : pelt_trace_finite Cf penf m delay n = true.
Notation oF := (optF64 Cf penf m delay n).
Hypothesis table_ok : forall a T, (a < T <= n)%nat -> Rabs (FR (Cf a T) - C a T) <= delta.
Hypothesis mag_sum : forall a T, (a < T <= n)%nat ->
  Rabs (FR (nthV F64 oF a) + FR (Cf a T)) <= Mag.
Hypothesis mag_cand : forall a T, (a < T <= n)%nat ->
  Rabs (FR (nthV F64 oF a + Cf a T)%float + FR penf) <= Mag.
Hypothesis mag_thr : forall T, (T <= n)%nat ->
  Rabs (FR (nthV F64 oF T) + FR penf) <= Mag.

Let eps : R := delta + 2 * u53 * Mag.

Lemma delta_nonneg : 0 <= delta.
Proof. eapply Rle_trans; [apply Rabs_pos|apply (table_ok 0%nat 1%nat); lia]. Qed.

Lemma Mag_nonneg : 0 <= Mag.
Proof. eapply Rle_trans; [apply Rabs_pos|apply (mag_thr 0%nat); lia]. Qed.

Lemma bounds_V : forall a T, (a < T <= n)%nat ->
  Rabs (FR ((nthV F64 oF a + Cf a T) + penf)%float
        - (FR (nthV F64 oF a) + C a T + FR penf)) <= eps.
Proof.
  intros a T HaT. pose proof (pelt_trace_finite_spec _ _ _ _ _ fin) as F.
  pose proof (FR_cand_error (nthV F64 oF a) (Cf a T) penf
                (tf_opt _ _ _ _ _ F a) (tf_cost _ _ _ _ _ F a T HaT) (tf_pen _ _ _ _ _ F)
                (tf_sum _ _ _ _ _ F a T HaT) (tf_cand _ _ _ _ _ F a T HaT)) as H.
  pose proof (table_ok a T HaT) as Ht.
  pose proof (mag_sum a T HaT) as H1. pose proof (mag_cand a T HaT) as H2.
  pose proof u53_nonneg as Hu.
  replace (FR ((nthV F64 oF a + Cf a T) + penf)%float - (FR (nthV F64 oF a) + C a T + FR penf))
    with ((FR ((nthV F64 oF a + Cf a T) + penf)%float
           - (FR (nthV F64 oF a) + FR (Cf a T) + FR penf))
          + (FR (Cf a T) - C a T)) by ring.
  eapply Rle_trans; [apply Rabs_triang|]. unfold eps.
  assert (u53 * Rabs (FR (nthV F64 oF a) + FR (Cf a T)) <= u53 * Mag)
    by (apply Rmult_le_compat_l; assumption).
  assert (u53 * Rabs (FR (nthV F64 oF a + Cf a T)%float + FR penf) <= u53 * Mag)
    by (apply Rmult_le_compat_l; assumption).
  lra.
Qed.

Lemma bounds_W : forall T, (T <= n)%nat ->
  Rabs (FR (nthV F64 oF T + penf)%float - (FR (nthV F64 oF T) + FR penf)) <= eps.
Proof.
  intros T HT. pose proof (pelt_trace_finite_spec _ _ _ _ _ fin) as F.
  pose proof (FR_thr_error (nthV F64 oF T) penf (tf_opt _ _ _ _ _ F T) (tf_pen _ _ _ _ _ F)
                (tf_thr _ _ _ _ _ F T HT)) as H.
  pose proof (mag_thr T HT) as H1. pose proof u53_nonneg as Hu.
  pose proof delta_nonneg as Hd. pose proof Mag_nonneg as HM.
  assert (u53 * Rabs (FR (nthV F64 oF T) + FR penf) <= u53 * Mag)
    by (apply Rmult_le_compat_l; assumption).
  assert (0 <= u53 * Mag) by (apply Rmult_le_pos; assumption).
  unfold eps. lra.
Qed.

Lemma bounds_I : forall e, (m <= e < 2 * m)%nat -> Rabs (FR (Cf 0%nat e) - C 0%nat e) <= eps.
Proof.
  intros e He. pose proof (table_ok 0%nat e ltac:(lia)) as H.
  pose proof u53_nonneg as Hu. pose proof Mag_nonneg as HM.
  assert (0 <= u53 * Mag) by (apply Rmult_le_pos; assumption).
  unfold eps. lra.
Qed.
End Bounds.

Corollary pelt_F64_near_optimal_bounds (Cf : nat -> nat -> float) (penf : float)
    (C : nat -> nat -> R) (delta Mag : R) (m delay n : nat) :
  (1 <= m)%nat -> (m <= delay + 1)%nat -> (2 * m <= n)%nat ->
  pelt_trace_finite Cf penf m delay n = true ->
  (forall s k e, (s + m <= k)%nat -> (k + m <= e)%nat -> (e <= n)%nat ->
                 C s k + C k e <= C s e) ->
  (forall a T, (a < T <= n)%nat -> Rabs (FR (Cf a T) - C a T) <= delta) ->
  (forall a T, (a < T <= n)%nat ->
     Rabs (FR (nthV F64 (optF64 Cf penf m delay n) a) + FR (Cf a T)) <= Mag) ->
  (forall a T, (a < T <= n)%nat ->
     Rabs (FR (nthV F64 (optF64 Cf penf m delay n) a + Cf a T)%float + FR penf) <= Mag) ->
  (forall T, (T <= n)%nat ->
     Rabs (FR (nthV F64 (optF64 Cf penf m delay n) T) + FR penf) <= Mag) ->
  forall c, Adm m c n ->
    pencostR C (FR penf) (snd (gpelt F64 Cf penf m delay n)) n
    <= pencostR C (FR penf) c n + 3 * INR n * (delta + 2 * u53 * Mag).
Proof.
  intros Hm Hd Hn Hfin Hs Ht H1 H2 H3 c Hc.
  apply (pelt_F64_near_optimal Cf penf C (delta + 2 * u53 * Mag) m delay n); auto.
  - apply (bounds_V Cf penf C delta Mag m delay n); auto.
  - apply (bounds_W Cf penf C delta Mag m delay n); auto.
  - apply (bounds_I Cf penf C delta Mag m delay n); auto.
Qed.

Corollary pelt_F64_final_close_bounds (Cf : nat -> nat -> float) (penf : float)
    (C : nat -> nat -> R) (delta Mag : R) (m delay n : nat) :
  (1 <= m)%nat -> (2 * m <= n)%nat ->
  pelt_trace_finite Cf penf m delay n = true ->
  (forall a T, (a < T <= n)%nat -> Rabs (FR (Cf a T) - C a T) <= delta) ->
  (forall a T, (a < T <= n)%nat ->
     Rabs (FR (nthV F64 (optF64 Cf penf m delay n) a) + FR (Cf a T)) <= Mag) ->
  (forall a T, (a < T <= n)%nat ->
     Rabs (FR (nthV F64 (optF64 Cf penf m delay n) a + Cf a T)%float + FR penf) <= Mag) ->
  (forall T, (T <= n)%nat ->
     Rabs (FR (nthV F64 (optF64 Cf penf m delay n) T) + FR penf) <= Mag) ->
  Rabs (nth (n - 1) (map FR (fst (gpelt F64 Cf penf m delay n))) 0
        - pencostR C (FR penf) (snd (gpelt F64 Cf penf m delay n)) n)
  <= INR n * (delta + 2 * u53 * Mag).
Proof.
  intros Hm Hn Hfin Ht H1 H2 H3.
  apply (pelt_F64_final_close Cf penf C (delta + 2 * u53 * Mag) m delay n); auto.
  - apply (bounds_V Cf penf C delta Mag m delay n); auto.
  - apply (bounds_I Cf penf C delta Mag m delay n); auto.
Qed.

(* ------------------------------------------------------------------------- *)
(** * 7. Non-vacuity: a concrete binary64 run                                  *)
(* ------------------------------------------------------------------------- *)

(** six observations with a level shift after the third one; the cost table is the squared-error
    kernel in the library's operation order, executed on primitive floats *)
Definition ex_xs : list float := [0.125; 0.375; 0.25; 5.125; 5.375; 5.25]%float.
Definition ex_Cf (a t : nat) : float := Check.FloatKernelCheck.l2_cost_F ex_xs a t.
Definition ex_pen : float := 1.5%float.

Example ex_trace_finite : pelt_trace_finite ex_Cf ex_pen 1 0 6 = true.
Proof. vm_compute. reflexivity. Qed.

(** the run finds the level shift *)
Example ex_changepoints : snd (gpelt F64 ex_Cf ex_pen 1 0 6) = [3%nat].
Proof. vm_compute. reflexivity. Qed.

(** the checker is not trivially true: an infinite penalty, or data whose squares overflow,
    are rejected *)
Example ex_trace_rejected_pen : pelt_trace_finite ex_Cf infinity 1 0 6 = false.
Proof. vm_compute. reflexivity. Qed.
Example ex_trace_rejected_data :
  pelt_trace_finite (Check.FloatKernelCheck.l2_cost_F [0x1p600; 1; 2; 3; 4; 5]%float) ex_pen 1 0 6
  = false.
Proof. vm_compute. reflexivity. Qed.

Example ex_simulation :
  peltA (Vt ex_Cf ex_pen 1 0 6) (Wt ex_Cf ex_pen 1 0 6) (I0t ex_Cf) (FR ex_pen) 1 0 6
  = (map FR (fst (gpelt F64 ex_Cf ex_pen 1 0 6)), [3%nat]).
Proof.
  rewrite <- ex_changepoints.
  apply gpelt_F64_is_peltA; [exact ex_trace_finite|lia|lia].
Qed.

(** the binary64 changepoints of the example are an admissible segmentation (through the
    simulation and [peltA_adm]) *)
Example ex_adm : Adm 1 (snd (gpelt F64 ex_Cf ex_pen 1 0 6)) 6.
Proof.
  pose proof (peltA_adm (Vt ex_Cf ex_pen 1 0 6) (Wt ex_Cf ex_pen 1 0 6) (I0t ex_Cf) (FR ex_pen)
                1 0 6 ltac:(lia) ltac:(lia)) as H.
  rewrite (gpelt_F64_is_peltA ex_Cf ex_pen 1 0 6 ex_trace_finite ltac:(lia) ltac:(lia)) in H.
  exact H.
Qed.

Print Assumptions gpelt_F64_is_peltA.
Print Assumptions pelt_F64_near_optimal.
Print Assumptions pelt_F64_final_close.
Print Assumptions pelt_F64_near_optimal_bounds.
