(** Score kernels: the cost-to-score adapters (change score, saving, local score)
    applied to the generated cost kernels of Gen/KernelsR.v.

    All kernel facts are proved by (1) one "normal form" lemma per generated kernel,
    obtained by unfolding and closing with [field]/[ring] (so that harmless upstream
    refactorings of the generated expression are absorbed there), and (2) pure algebra
    over real atoms (the prefix-sum differences and the segment lengths). *)
From Coq Require Import Reals Lra Lia List Arith Psatz.
From SK Require Import Gen.KernelsR Proofs.RealLib.
Import ListNotations.
Open Scope R_scope.

(* ------------------------------------------------------------------------- *)
(** * Adapters (hand models of the library's cost-to-score adapters)          *)
(* ------------------------------------------------------------------------- *)

Definition change_score (C : nat -> nat -> R) (s k e : nat) : R := C s e - (C s k + C k e).
Definition saving (Cfixed Coptim : nat -> nat -> R) (s e : nat) : R := Cfixed s e - Coptim s e.
(* Cpool = cost of the rows of [s,a) and [b,e) pooled together *)
Definition local_score (C : nat -> nat -> R) (Cpool : R) (s a b e : nat) : R := C s e - (C a b + Cpool).

(** (J6) the adapters compose as defined *)
Lemma change_score_def C s k e : change_score C s k e = C s e - (C s k + C k e).
Proof. unfold change_score. ring. Qed.
Lemma saving_def Cf Co s e : saving Cf Co s e = Cf s e - Co s e.
Proof. unfold saving. ring. Qed.
Lemma local_score_def C Cpool s a b e : local_score C Cpool s a b e = C s e - (C a b + Cpool).
Proof. unfold local_score. ring. Qed.

Lemma change_score_nonneg_of_split C s k e :
  C s k + C k e <= C s e -> 0 <= change_score C s k e.
Proof. intros Hsplit. rewrite change_score_def. lra. Qed.

Lemma saving_nonneg_of_optim_le_fixed Cf Co s e :
  Co s e <= Cf s e -> 0 <= saving Cf Co s e.
Proof. intros Hle. rewrite saving_def. lra. Qed.

Lemma local_score_nonneg_of_split C Cpool s a b e :
  C a b + Cpool <= C s e -> 0 <= local_score C Cpool s a b e.
Proof. intros Hsplit. rewrite local_score_def. lra. Qed.

(* ------------------------------------------------------------------------- *)
(** * Segment lengths as reals                                                *)
(* ------------------------------------------------------------------------- *)

Lemma len_pos s e : (s < e)%nat -> 0 < INR (e - s).
Proof. intros Hse. apply lt_0_INR. lia. Qed.

Lemma len_neq0 s e : (s < e)%nat -> INR (e - s) <> 0.
Proof. intros Hse. apply Rgt_not_eq. apply len_pos. exact Hse. Qed.

Lemma len_split s k e : (s <= k)%nat -> (k <= e)%nat ->
  INR (e - s) = INR (k - s) + INR (e - k).
Proof.
  intros Hsk Hke. rewrite <- plus_INR. f_equal. lia.
Qed.

(* ------------------------------------------------------------------------- *)
(** * Normal forms of the generated kernels                                   *)
(* ------------------------------------------------------------------------- *)

(** the un-floored variance of the kernel *)
Definition V (S1 S2 : nat -> R) (s e : nat) : R :=
  (S2 e - S2 s) / INR (e - s) - ((S1 e - S1 s) / INR (e - s)) ^ 2.

Lemma l2_optim_form S1 S2 s e : (s < e)%nat ->
  l2_cost_optim_R S1 S2 s e = (S2 e - S2 s) - (S1 e - S1 s) ^ 2 / INR (e - s).
Proof.
  intros Hse. pose proof (len_neq0 s e Hse) as Hn.
  unfold l2_cost_optim_R. field. exact Hn.
Qed.

Lemma l2_fixed_form S1 S2 mu s e :
  l2_cost_fixed_R S1 S2 mu s e
  = (S2 e - S2 s) - 2 * mu * (S1 e - S1 s) + INR (e - s) * mu ^ 2.
Proof. unfold l2_cost_fixed_R. ring. Qed.

Lemma l2_saving_form S1 s e : (s < e)%nat ->
  l2_saving_R S1 s e = (S1 e - S1 s) ^ 2 / INR (e - s).
Proof.
  intros Hse. pose proof (len_neq0 s e Hse) as Hn.
  unfold l2_saving_R. field. exact Hn.
Qed.

(* ------------------------------------------------------------------------- *)
(** * (J2) the L2 saving is the saving of the L2 cost at mu = 0               *)
(* ------------------------------------------------------------------------- *)

Theorem l2_saving_is_saving_of_l2 S1 S2 s e : (s < e)%nat ->
  l2_saving_R S1 s e = saving (l2_cost_fixed_R S1 S2 0) (l2_cost_optim_R S1 S2) s e.
Proof.
  intros Hse. pose proof (len_neq0 s e Hse) as Hn.
  rewrite saving_def, l2_saving_form, l2_fixed_form, l2_optim_form by exact Hse.
  set (A := S1 e - S1 s). set (Q := S2 e - S2 s). set (n := INR (e - s)) in *.
  field. exact Hn.
Qed.

(* ------------------------------------------------------------------------- *)
(** * (J3) optimal-mean L2 cost is below any fixed-mean L2 cost               *)
(* ------------------------------------------------------------------------- *)

Lemma l2_fixed_minus_optim_alg (A Q n mu : R) : n <> 0 ->
  (Q - 2 * mu * A + n * mu ^ 2) - (Q - A ^ 2 / n) = n * (A / n - mu) ^ 2.
Proof. intros Hn. field. exact Hn. Qed.

Lemma l2_fixed_minus_optim S1 S2 mu s e : (s < e)%nat ->
  l2_cost_fixed_R S1 S2 mu s e - l2_cost_optim_R S1 S2 s e
  = INR (e - s) * ((S1 e - S1 s) / INR (e - s) - mu) ^ 2.
Proof.
  intros Hse. pose proof (len_neq0 s e Hse) as Hn.
  rewrite l2_fixed_form, l2_optim_form by exact Hse.
  apply l2_fixed_minus_optim_alg. exact Hn.
Qed.

Theorem l2_optim_le_fixed S1 S2 mu s e : (s < e)%nat ->
  l2_cost_optim_R S1 S2 s e <= l2_cost_fixed_R S1 S2 mu s e.
Proof.
  intros Hse. pose proof (len_pos s e Hse) as Hn.
  pose proof (l2_fixed_minus_optim S1 S2 mu s e Hse) as Hd.
  set (d := (S1 e - S1 s) / INR (e - s) - mu) in *.
  assert (Hsq : 0 <= INR (e - s) * d ^ 2).
  { apply Rmult_le_pos; [lra | apply pow2_ge_0]. }
  lra.
Qed.

(* ------------------------------------------------------------------------- *)
(** * (J4) splitting a segment never increases the L2 cost                    *)
(* ------------------------------------------------------------------------- *)

Lemma l2_split_alg (A B nb na : R) : 0 < nb -> 0 < na ->
  (A ^ 2 / nb + B ^ 2 / na) - (A + B) ^ 2 / (nb + na)
  = (nb * na / (nb + na)) * (A / nb - B / na) ^ 2.
Proof. intros Hnb Hna. field. repeat split; lra. Qed.

Lemma l2_split_gap S1 S2 s k e : (s < k)%nat -> (k < e)%nat ->
  l2_cost_optim_R S1 S2 s e - (l2_cost_optim_R S1 S2 s k + l2_cost_optim_R S1 S2 k e)
  = (INR (k - s) * INR (e - k) / INR (e - s))
    * ((S1 k - S1 s) / INR (k - s) - (S1 e - S1 k) / INR (e - k)) ^ 2.
Proof.
  intros Hsk Hke.
  pose proof (len_pos s k Hsk) as Hnb. pose proof (len_pos k e Hke) as Hna.
  rewrite !l2_optim_form by lia.
  rewrite (len_split s k e) by lia.
  set (nb := INR (k - s)) in *. set (na := INR (e - k)) in *.
  set (A := S1 k - S1 s). set (B := S1 e - S1 k).
  replace (S1 e - S1 s) with (A + B) by (unfold A, B; ring).
  rewrite <- (l2_split_alg A B nb na Hnb Hna). ring.
Qed.

Theorem l2_split S1 S2 s k e : (s < k)%nat -> (k < e)%nat ->
  l2_cost_optim_R S1 S2 s k + l2_cost_optim_R S1 S2 k e <= l2_cost_optim_R S1 S2 s e.
Proof.
  intros Hsk Hke.
  pose proof (len_pos s k Hsk) as Hnb. pose proof (len_pos k e Hke) as Hna.
  pose proof (len_pos s e ltac:(lia)) as Hn.
  pose proof (l2_split_gap S1 S2 s k e Hsk Hke) as Hgap.
  set (d := (S1 k - S1 s) / INR (k - s) - (S1 e - S1 k) / INR (e - k)) in *.
  assert (Hc : 0 <= INR (k - s) * INR (e - k) / INR (e - s)).
  { apply Rlt_le. apply Rdiv_lt_0_compat; [apply Rmult_lt_0_compat|]; assumption. }
  assert (Hsq : 0 <= (INR (k - s) * INR (e - k) / INR (e - s)) * d ^ 2).
  { apply Rmult_le_pos; [exact Hc | apply pow2_ge_0]. }
  lra.
Qed.

Corollary l2_change_score_nonneg S1 S2 s k e : (s < k)%nat -> (k < e)%nat ->
  0 <= change_score (l2_cost_optim_R S1 S2) s k e.
Proof.
  intros Hsk Hke. apply change_score_nonneg_of_split. apply l2_split; assumption.
Qed.

Corollary l2_saving_nonneg S1 s e : (s < e)%nat -> 0 <= l2_saving_R S1 s e.
Proof.
  intros Hse.
  rewrite (l2_saving_is_saving_of_l2 S1 (fun _ => 0) s e Hse).
  apply saving_nonneg_of_optim_le_fixed. apply l2_optim_le_fixed. exact Hse.
Qed.

(** the L2 saving is sub-additive under splitting: the hypothesis under which CAPA / MVCAPA are
    optimal (C03) holds for the built-in saving, column by column *)
Theorem l2_saving_subadditive S1 s k e : (s < k)%nat -> (k < e)%nat ->
  l2_saving_R S1 s e <= l2_saving_R S1 s k + l2_saving_R S1 k e.
Proof.
  intros Hsk Hke.
  pose proof (len_pos s k Hsk) as Hnb. pose proof (len_pos k e Hke) as Hna.
  rewrite !l2_saving_form by lia.
  rewrite (len_split s k e) by lia.
  set (nb := INR (k - s)) in *. set (na := INR (e - k)) in *.
  set (A := S1 k - S1 s). set (B := S1 e - S1 k).
  replace (S1 e - S1 s) with (A + B) by (unfold A, B; ring).
  pose proof (l2_split_alg A B nb na Hnb Hna) as Hgap.
  assert (Hc : 0 <= nb * na / (nb + na)).
  { apply Rlt_le. apply Rdiv_lt_0_compat; [apply Rmult_lt_0_compat; assumption | lra]. }
  assert (Hsq : 0 <= (nb * na / (nb + na)) * (A / nb - B / na) ^ 2).
  { apply Rmult_le_pos; [exact Hc | apply pow2_ge_0]. }
  lra.
Qed.

(** ... and the gap is exactly the squared CUSUM statistic's value, i.e. the L2 change score *)
Theorem l2_saving_split_gap_is_change_score S1 S2 s k e : (s < k)%nat -> (k < e)%nat ->
  l2_saving_R S1 s k + l2_saving_R S1 k e - l2_saving_R S1 s e
  = change_score (l2_cost_optim_R S1 S2) s k e.
Proof.
  intros Hsk Hke.
  pose proof (len_neq0 s k Hsk) as Hnb. pose proof (len_neq0 k e Hke) as Hna.
  pose proof (len_neq0 s e ltac:(lia)) as Hn.
  rewrite change_score_def, !l2_saving_form, !l2_optim_form by lia.
  field. repeat split; assumption.
Qed.

(* ------------------------------------------------------------------------- *)
(** * (J1) the squared CUSUM score is the L2 change score                     *)
(* ------------------------------------------------------------------------- *)

(** pure algebra: with x = sqrt (na/(n nb)), y = sqrt (nb/(n na)), n = nb + na *)
Lemma cusum_sq_alg (A B nb na : R) : 0 < nb -> 0 < na ->
  Rabs (sqrt (na / ((nb + na) * nb)) * A - sqrt (nb / ((nb + na) * na)) * B) ^ 2
  = (A ^ 2 / nb + B ^ 2 / na) - (A + B) ^ 2 / (nb + na).
Proof.
  intros Hnb Hna.
  set (a := na / ((nb + na) * nb)). set (b := nb / ((nb + na) * na)).
  assert (Hn : 0 < nb + na) by lra.
  assert (Ha : 0 <= a).
  { apply Rlt_le. apply Rdiv_lt_0_compat; [lra | apply Rmult_lt_0_compat; lra]. }
  assert (Hb : 0 <= b).
  { apply Rlt_le. apply Rdiv_lt_0_compat; [lra | apply Rmult_lt_0_compat; lra]. }
  assert (Hxx : sqrt a * sqrt a = a) by (apply sqrt_sqrt; exact Ha).
  assert (Hyy : sqrt b * sqrt b = b) by (apply sqrt_sqrt; exact Hb).
  assert (Hxy : sqrt a * sqrt b = / (nb + na)).
  { rewrite <- sqrt_mult by assumption.
    replace (a * b) with ((/ (nb + na)) ^ 2) by (unfold a, b; field; repeat split; lra).
    apply sqrt_pow2. apply Rlt_le. apply Rinv_0_lt_compat. exact Hn. }
  rewrite pow2_abs.
  replace ((sqrt a * A - sqrt b * B) ^ 2)
    with ((sqrt a * sqrt a) * A ^ 2 - 2 * (sqrt a * sqrt b) * (A * B) + (sqrt b * sqrt b) * B ^ 2)
    by ring.
  rewrite Hxx, Hyy, Hxy. unfold a, b. field. repeat split; lra.
Qed.

(** normal form of the generated CUSUM kernel; the arguments of the two square roots
    are identified up to [field], so their exact generated shape does not matter *)
Lemma cusum_form S1 s k e : (s < k)%nat -> (k < e)%nat ->
  cusum_score_R S1 s k e
  = Rabs (sqrt (INR (e - k) / ((INR (k - s) + INR (e - k)) * INR (k - s))) * (S1 k - S1 s)
          - sqrt (INR (k - s) / ((INR (k - s) + INR (e - k)) * INR (e - k))) * (S1 e - S1 k)).
Proof.
  intros Hsk Hke.
  pose proof (len_pos s k Hsk) as Hnb. pose proof (len_pos k e Hke) as Hna.
  unfold cusum_score_R. rewrite ?mult_INR, ?plus_INR. rewrite ?(len_split s k e) by lia.
  set (nb := INR (k - s)) in *. set (na := INR (e - k)) in *.
  set (a := na / ((nb + na) * nb)). set (b := nb / ((nb + na) * na)).
  repeat match goal with
  | |- context [sqrt ?x] =>
      lazymatch x with
      | a => fail
      | b => fail
      | _ => first [ replace x with a by (unfold a; field; repeat split; lra)
                   | replace x with b by (unfold b; field; repeat split; lra) ]
      end
  end.
  first [ apply f_equal; ring
        | rewrite <- Rabs_Ropp; apply f_equal; ring ].
Qed.

Theorem cusum_sq_is_l2_change_score S1 S2 s k e : (s < k)%nat -> (k < e)%nat ->
  (cusum_score_R S1 s k e) ^ 2 = change_score (l2_cost_optim_R S1 S2) s k e.
Proof.
  intros Hsk Hke.
  pose proof (len_pos s k Hsk) as Hnb. pose proof (len_pos k e Hke) as Hna.
  rewrite (cusum_form S1 s k e Hsk Hke).
  rewrite cusum_sq_alg by assumption.
  rewrite change_score_def, !l2_optim_form by lia.
  rewrite (len_split s k e) by lia.
  set (nb := INR (k - s)) in *. set (na := INR (e - k)) in *.
  field. repeat split; lra.
Qed.

Corollary cusum_sq_formula S1 s k e : (s < k)%nat -> (k < e)%nat ->
  (cusum_score_R S1 s k e) ^ 2
  = (INR (k - s) * INR (e - k) / INR (e - s))
    * ((S1 k - S1 s) / INR (k - s) - (S1 e - S1 k) / INR (e - k)) ^ 2.
Proof.
  intros Hsk Hke.
  rewrite (cusum_sq_is_l2_change_score S1 (fun _ => 0) s k e Hsk Hke), change_score_def.
  apply l2_split_gap; assumption.
Qed.

Corollary cusum_nonneg S1 s k e : (s < k)%nat -> (k < e)%nat -> 0 <= cusum_score_R S1 s k e.
Proof.
  intros Hsk Hke. rewrite (cusum_form S1 s k e Hsk Hke). apply Rabs_pos.
Qed.

(* ------------------------------------------------------------------------- *)
(** * Logarithm facts                                                         *)
(* ------------------------------------------------------------------------- *)

Lemma ln_le_sub1 u : 0 < u -> ln u <= u - 1.
Proof.
  intros Hu. pose proof (exp_ineq1_le (ln u)) as Hexp.
  rewrite (exp_ln u Hu) in Hexp. lra.
Qed.

Lemma ln_le_mono x y : 0 < x -> x <= y -> ln x <= ln y.
Proof.
  intros Hx [Hlt | Heq].
  - apply Rlt_le. apply ln_increasing; assumption.
  - subst y. apply Rle_refl.
Qed.

Lemma ln_div_pos x y : 0 < x -> 0 < y -> ln (x / y) = ln x - ln y.
Proof.
  intros Hx Hy. unfold Rdiv.
  rewrite ln_mult by (try apply Rinv_0_lt_compat; assumption).
  rewrite ln_Rinv by assumption. ring.
Qed.

(** weighted Jensen inequality for ln, two points *)
Lemma ln_jensen2 (p q x y : R) : 0 < p -> 0 < q -> 0 < x -> 0 < y ->
  p * ln x + q * ln y <= (p + q) * ln ((p * x + q * y) / (p + q)).
Proof.
  intros Hp Hq Hx Hy.
  set (W := (p * x + q * y) / (p + q)).
  assert (Hpx : 0 < p * x) by (apply Rmult_lt_0_compat; assumption).
  assert (Hqy : 0 < q * y) by (apply Rmult_lt_0_compat; assumption).
  assert (HW : 0 < W).
  { unfold W. apply Rdiv_lt_0_compat; lra. }
  pose proof (ln_le_sub1 (x / W) (Rdiv_lt_0_compat _ _ Hx HW)) as Hlx.
  pose proof (ln_le_sub1 (y / W) (Rdiv_lt_0_compat _ _ Hy HW)) as Hly.
  rewrite ln_div_pos in Hlx, Hly by assumption.
  assert (Hpl : p * (ln x - ln W) <= p * (x / W - 1)).
  { apply Rmult_le_compat_l; lra. }
  assert (Hql : q * (ln y - ln W) <= q * (y / W - 1)).
  { apply Rmult_le_compat_l; lra. }
  assert (Hsum : p * (x / W - 1) + q * (y / W - 1) = 0).
  { unfold W. field. split; lra. }
  lra.
Qed.

(* ------------------------------------------------------------------------- *)
(** * (J5) Gaussian mean+variance cost, above the variance floor              *)
(* ------------------------------------------------------------------------- *)

Lemma floor_var_pos : 0 < floor_var.
Proof. unfold floor_var. lra. Qed.

Lemma two_PI_pos : 0 < 2 * PI.
Proof. pose proof PI_RGT_0 as HPI. lra. Qed.

(** bring every [Rmax] of the goal to the form [Rmax (V S1 S2 s e) floor_var], whatever
    (field-equal) expression the generator produced for the variance and the floor *)
Ltac norm_rmax S1 S2 s e Hn :=
  repeat match goal with
  | |- context [Rmax ?x ?y] =>
      lazymatch x with
      | V S1 S2 s e => fail
      | _ =>
        first
          [ replace (Rmax x y) with (Rmax (V S1 S2 s e) floor_var)
              by (apply f_equal2; [unfold V; field; exact Hn | unfold floor_var; lra])
          | replace (Rmax x y) with (Rmax (V S1 S2 s e) floor_var)
              by (rewrite (Rmax_comm x y);
                  apply f_equal2; [unfold V; field; exact Hn | unfold floor_var; lra]) ]
      end
  end.

Lemma var_from_sums_form S1 S2 s e : (s < e)%nat ->
  var_from_sums_R S1 S2 s e = Rmax (V S1 S2 s e) floor_var.
Proof.
  intros Hse. pose proof (len_neq0 s e Hse) as Hn.
  unfold var_from_sums_R. norm_rmax S1 S2 s e Hn. ring.
Qed.

Lemma gvar_optim_form S1 S2 s e : (s < e)%nat ->
  gaussian_var_cost_optim_R S1 S2 s e
  = INR (e - s) * ln (2 * PI * Rmax (V S1 S2 s e) floor_var) + INR (e - s).
Proof.
  intros Hse. pose proof (len_neq0 s e Hse) as Hn.
  unfold gaussian_var_cost_optim_R. norm_rmax S1 S2 s e Hn.
  repeat match goal with
  | |- context [ln ?x] =>
      lazymatch x with
      | 2 * PI * Rmax (V S1 S2 s e) floor_var => fail
      | _ => replace x with (2 * PI * Rmax (V S1 S2 s e) floor_var) by ring
      end
  end.
  ring.
Qed.

Lemma gvar_fixed_form S1 S2 mu v s e : v <> 0 ->
  gaussian_var_cost_fixed_R S1 S2 mu v s e
  = INR (e - s) * ln (2 * PI * v)
    + ((S2 e - S2 s) - 2 * mu * (S1 e - S1 s) + INR (e - s) * mu ^ 2) / v.
Proof.
  intros Hv. unfold gaussian_var_cost_fixed_R.
  repeat match goal with
  | |- context [ln ?x] =>
      lazymatch x with
      | 2 * PI * v => fail
      | _ => replace x with (2 * PI * v) by ring
      end
  end.
  field. exact Hv.
Qed.

Theorem gvar_optim_above_floor S1 S2 s e : (s < e)%nat -> floor_var <= V S1 S2 s e ->
  gaussian_var_cost_optim_R S1 S2 s e
  = INR (e - s) * ln (2 * PI * V S1 S2 s e) + INR (e - s).
Proof.
  intros Hse Hfloor. rewrite gvar_optim_form by exact Hse.
  rewrite (Rmax_left _ _ Hfloor). ring.
Qed.

(** the quadratic form of the fixed-parameter cost *)
Lemma quad_form_alg (A Q n mu : R) : n <> 0 ->
  Q - 2 * mu * A + n * mu ^ 2 = n * ((Q / n - (A / n) ^ 2) + (A / n - mu) ^ 2).
Proof. intros Hn. field. exact Hn. Qed.

Lemma quad_form_V S1 S2 mu s e : (s < e)%nat ->
  (S2 e - S2 s) - 2 * mu * (S1 e - S1 s) + INR (e - s) * mu ^ 2
  = INR (e - s) * (V S1 S2 s e + ((S1 e - S1 s) / INR (e - s) - mu) ^ 2).
Proof.
  intros Hse. unfold V. apply quad_form_alg. apply len_neq0. exact Hse.
Qed.

Theorem gvar_optim_le_fixed S1 S2 mu v s e :
  (s < e)%nat -> floor_var <= V S1 S2 s e -> 0 < v ->
  gaussian_var_cost_optim_R S1 S2 s e <= gaussian_var_cost_fixed_R S1 S2 mu v s e.
Proof.
  intros Hse Hfloor Hv.
  pose proof (len_pos s e Hse) as Hn. pose proof floor_var_pos as Hfl.
  pose proof two_PI_pos as H2pi.
  rewrite gvar_optim_above_floor by assumption.
  rewrite gvar_fixed_form by lra.
  rewrite quad_form_V by exact Hse.
  set (n := INR (e - s)) in *. set (V0 := V S1 S2 s e) in *.
  set (d := (S1 e - S1 s) / n - mu).
  assert (HV0 : 0 < V0) by lra.
  rewrite (ln_mult (2 * PI) V0), (ln_mult (2 * PI) v) by assumption.
  pose proof (ln_le_sub1 (V0 / v) (Rdiv_lt_0_compat _ _ HV0 Hv)) as Hln.
  rewrite ln_div_pos in Hln by assumption.
  assert (Hd : 0 <= d ^ 2 / v).
  { apply Rmult_le_pos; [apply pow2_ge_0 | apply Rlt_le, Rinv_0_lt_compat, Hv]. }
  assert (Hkey : ln V0 - ln v + 1 <= (V0 + d ^ 2) / v).
  { replace ((V0 + d ^ 2) / v) with (V0 / v + d ^ 2 / v) by (field; lra). lra. }
  assert (Hmul : n * (ln V0 - ln v + 1) <= n * ((V0 + d ^ 2) / v)).
  { apply Rmult_le_compat_l; lra. }
  replace (n * (V0 + d ^ 2) / v) with (n * ((V0 + d ^ 2) / v)) by (field; lra).
  lra.
Qed.

(** n V is the L2 cost (for arbitrary S1 S2) *)
Lemma l2_optim_is_nV S1 S2 s e : (s < e)%nat ->
  l2_cost_optim_R S1 S2 s e = INR (e - s) * V S1 S2 s e.
Proof.
  intros Hse. rewrite l2_optim_form by exact Hse. unfold V. field. apply len_neq0. exact Hse.
Qed.

Lemma V_split S1 S2 s k e : (s < k)%nat -> (k < e)%nat ->
  INR (k - s) * V S1 S2 s k + INR (e - k) * V S1 S2 k e <= INR (e - s) * V S1 S2 s e.
Proof.
  intros Hsk Hke. rewrite <- !l2_optim_is_nV by lia. apply l2_split; assumption.
Qed.

Theorem gvar_split S1 S2 s k e : (s < k)%nat -> (k < e)%nat ->
  floor_var <= V S1 S2 s k -> floor_var <= V S1 S2 k e -> floor_var <= V S1 S2 s e ->
  gaussian_var_cost_optim_R S1 S2 s k + gaussian_var_cost_optim_R S1 S2 k e
  <= gaussian_var_cost_optim_R S1 S2 s e.
Proof.
  intros Hsk Hke Hfb Hfa Hfn.
  pose proof (len_pos s k Hsk) as Hnb. pose proof (len_pos k e Hke) as Hna.
  pose proof floor_var_pos as Hfl. pose proof two_PI_pos as H2pi.
  pose proof (V_split S1 S2 s k e Hsk Hke) as HVs.
  rewrite !gvar_optim_above_floor by (assumption || lia).
  rewrite (len_split s k e) in * by lia.
  set (nb := INR (k - s)) in *. set (na := INR (e - k)) in *.
  set (Vb := V S1 S2 s k) in *. set (Va := V S1 S2 k e) in *. set (Vn := V S1 S2 s e) in *.
  assert (HVb : 0 < Vb) by lra. assert (HVa : 0 < Va) by lra. assert (HVn : 0 < Vn) by lra.
  rewrite (ln_mult (2 * PI) Vb), (ln_mult (2 * PI) Va), (ln_mult (2 * PI) Vn) by assumption.
  pose proof (ln_jensen2 nb na Vb Va Hnb Hna HVb HVa) as Hj.
  set (W := (nb * Vb + na * Va) / (nb + na)) in *.
  assert (HW : 0 < W).
  { unfold W. apply Rdiv_lt_0_compat; [|lra].
    apply Rplus_lt_0_compat; apply Rmult_lt_0_compat; assumption. }
  assert (HWV : W <= Vn).
  { unfold W. apply (Rmult_le_reg_l (nb + na)); [lra|].
    replace ((nb + na) * ((nb * Vb + na * Va) / (nb + na))) with (nb * Vb + na * Va)
      by (field; lra).
    exact HVs. }
  pose proof (ln_le_mono W Vn HW HWV) as Hmono.
  assert (Hmul : (nb + na) * ln W <= (nb + na) * ln Vn).
  { apply Rmult_le_compat_l; lra. }
  lra.
Qed.

Corollary gvar_change_score_nonneg S1 S2 s k e : (s < k)%nat -> (k < e)%nat ->
  floor_var <= V S1 S2 s k -> floor_var <= V S1 S2 k e -> floor_var <= V S1 S2 s e ->
  0 <= change_score (gaussian_var_cost_optim_R S1 S2) s k e.
Proof.
  intros Hsk Hke Hfb Hfa Hfn. apply change_score_nonneg_of_split.
  apply gvar_split; assumption.
Qed.

Corollary gvar_saving_nonneg S1 S2 mu v s e :
  (s < e)%nat -> floor_var <= V S1 S2 s e -> 0 < v ->
  0 <= saving (gaussian_var_cost_fixed_R S1 S2 mu v) (gaussian_var_cost_optim_R S1 S2) s e.
Proof.
  intros Hse Hfloor Hv. apply saving_nonneg_of_optim_le_fixed.
  apply gvar_optim_le_fixed; assumption.
Qed.

(* ------------------------------------------------------------------------- *)
(** * (J6b) savings derived from costs are sub-additive under splitting        *)
(* ------------------------------------------------------------------------- *)

(** a fixed-parameter cost is ADDITIVE over adjacent intervals, the optimised cost satisfies the
    split inequality: hence Saving(baseline_cost) is sub-additive -- the hypothesis of the CAPA
    optimality theorem (C03) for every cost-derived saving *)
Lemma saving_subadditive_of_parts Cf Co s k e :
  Cf s e = Cf s k + Cf k e -> Co s k + Co k e <= Co s e ->
  saving Cf Co s e <= saving Cf Co s k + saving Cf Co k e.
Proof. intros Hadd Hsplit. rewrite !saving_def. lra. Qed.

Theorem l2_fixed_additive S1 S2 mu s k e : (s <= k)%nat -> (k <= e)%nat ->
  l2_cost_fixed_R S1 S2 mu s e = l2_cost_fixed_R S1 S2 mu s k + l2_cost_fixed_R S1 S2 mu k e.
Proof.
  intros Hsk Hke. rewrite !l2_fixed_form. rewrite (len_split s k e) by lia. ring.
Qed.

Theorem gvar_fixed_additive S1 S2 mu v s k e : (s <= k)%nat -> (k <= e)%nat -> v <> 0 ->
  gaussian_var_cost_fixed_R S1 S2 mu v s e
  = gaussian_var_cost_fixed_R S1 S2 mu v s k + gaussian_var_cost_fixed_R S1 S2 mu v k e.
Proof.
  intros Hsk Hke Hv. rewrite !gvar_fixed_form by exact Hv. rewrite (len_split s k e) by lia.
  field. exact Hv.
Qed.

Theorem l2_cost_saving_subadditive S1 S2 mu s k e : (s < k)%nat -> (k < e)%nat ->
  saving (l2_cost_fixed_R S1 S2 mu) (l2_cost_optim_R S1 S2) s e
  <= saving (l2_cost_fixed_R S1 S2 mu) (l2_cost_optim_R S1 S2) s k
     + saving (l2_cost_fixed_R S1 S2 mu) (l2_cost_optim_R S1 S2) k e.
Proof.
  intros Hsk Hke. apply saving_subadditive_of_parts.
  - apply l2_fixed_additive; lia.
  - apply l2_split; assumption.
Qed.

Theorem gvar_cost_saving_subadditive S1 S2 mu v s k e : (s < k)%nat -> (k < e)%nat -> v <> 0 ->
  floor_var <= V S1 S2 s k -> floor_var <= V S1 S2 k e -> floor_var <= V S1 S2 s e ->
  saving (gaussian_var_cost_fixed_R S1 S2 mu v) (gaussian_var_cost_optim_R S1 S2) s e
  <= saving (gaussian_var_cost_fixed_R S1 S2 mu v) (gaussian_var_cost_optim_R S1 S2) s k
     + saving (gaussian_var_cost_fixed_R S1 S2 mu v) (gaussian_var_cost_optim_R S1 S2) k e.
Proof.
  intros Hsk Hke Hv Hfb Hfa Hfn. apply saving_subadditive_of_parts.
  - apply gvar_fixed_additive; [lia | lia | exact Hv].
  - apply gvar_split; assumption.
Qed.

(** with the variance floor ACTIVE the Gaussian cost can violate the split inequality: two halves of
    equal mean, one constant (variance floored up to 1e-16) and one of variance 2e-16 -- the pooled
    variance is exactly the floor, and the two parts cost n/2 * ln 2 more than the whole.  (Stated on
    the algebraic normal form: [W] is what the kernel computes for variance inputs [Vb Va Vn].) *)
Theorem gvar_split_can_fail_at_the_floor :
  let W (n V : R) := n * ln (2 * PI * Rmax V floor_var) + n in
  exists nb na Vb Va Vn : R,
    0 < nb /\ 0 < na /\ 0 <= Vb /\ 0 <= Va /\ nb * Vb + na * Va = (nb + na) * Vn /\
    W (nb + na) Vn < W nb Vb + W na Va.
Proof.
  intros W. exists 1, 1, 0, (2 * floor_var), floor_var.
  pose proof floor_var_pos as Hf. pose proof two_PI_pos as Hpi.
  repeat split; try lra.
  unfold W. rewrite (Rmax_right 0 floor_var) by lra.
  rewrite (Rmax_left (2 * floor_var) floor_var) by lra.
  rewrite (Rmax_left floor_var floor_var) by lra.
  replace (2 * PI * (2 * floor_var)) with (2 * (2 * PI * floor_var)) by ring.
  rewrite (ln_mult 2 (2 * PI * floor_var)) by (try lra; apply Rmult_lt_0_compat; lra).
  assert (H2 : 0 < ln 2) by (rewrite <- ln_1; apply ln_increasing; lra).
  lra.
Qed.

(* ------------------------------------------------------------------------- *)
(** * (J7) real data: S1, S2 are the prefix sums of a list and of its squares *)
(* ------------------------------------------------------------------------- *)

Lemma sse_nonneg mu l : 0 <= sse mu l.
Proof.
  unfold sse. induction l as [|x t IH]; cbn [map sumR]; [lra|].
  pose proof (pow2_ge_0 (x - mu)) as Hsq. lra.
Qed.

Lemma rss_nonneg l : 0 <= rss l.
Proof. unfold rss. apply sse_nonneg. Qed.

Lemma l2_optim_is_rss xs s e : (s < e)%nat -> (e <= length xs)%nat ->
  l2_cost_optim_R (prefix xs) (prefix (sq xs)) s e = rss (slice s e xs).
Proof.
  intros Hse Hlen.
  assert (Hl : length (slice s e xs) = (e - s)%nat) by (apply slice_length; lia).
  rewrite l2_optim_form by exact Hse.
  rewrite !prefix_diff by lia.
  rewrite rss_expand by lia. rewrite Hl.
  unfold sq. rewrite map_slice. reflexivity.
Qed.

Theorem l2_optim_nonneg xs s e : (s < e)%nat -> (e <= length xs)%nat ->
  0 <= l2_cost_optim_R (prefix xs) (prefix (sq xs)) s e.
Proof.
  intros Hse Hlen. rewrite l2_optim_is_rss by assumption. apply rss_nonneg.
Qed.

Lemma V_is_varR xs s e : (s < e)%nat -> (e <= length xs)%nat ->
  V (prefix xs) (prefix (sq xs)) s e = varR (slice s e xs).
Proof.
  intros Hse Hlen. pose proof (len_neq0 s e Hse) as Hn.
  assert (Hl : length (slice s e xs) = (e - s)%nat) by (apply slice_length; lia).
  unfold varR. rewrite Hl, <- l2_optim_is_rss by assumption.
  rewrite l2_optim_is_nV by exact Hse. field. exact Hn.
Qed.

Theorem V_nonneg xs s e : (s < e)%nat -> (e <= length xs)%nat ->
  0 <= V (prefix xs) (prefix (sq xs)) s e.
Proof.
  intros Hse Hlen. pose proof (len_pos s e Hse) as Hn.
  pose proof (l2_optim_nonneg xs s e Hse Hlen) as Hc.
  rewrite l2_optim_is_nV in Hc by exact Hse.
  destruct (Rle_or_lt 0 (V (prefix xs) (prefix (sq xs)) s e)) as [Hge | Hneg]; [exact Hge|].
  exfalso.
  assert (Hprod : INR (e - s) * V (prefix xs) (prefix (sq xs)) s e < 0).
  { rewrite <- (Rmult_0_r (INR (e - s))). apply Rmult_lt_compat_l; assumption. }
  lra.
Qed.

(** Cauchy-Schwarz on a slice, as a by-product: (sum x)^2 <= n * sum x^2 *)
Corollary cauchy_schwarz_slice xs s e : (s < e)%nat -> (e <= length xs)%nat ->
  (prefix xs e - prefix xs s) ^ 2 <= INR (e - s) * (prefix (sq xs) e - prefix (sq xs) s).
Proof.
  intros Hse Hlen. pose proof (len_pos s e Hse) as Hn.
  pose proof (l2_optim_nonneg xs s e Hse Hlen) as Hc.
  rewrite l2_optim_form in Hc by exact Hse.
  set (A := prefix xs e - prefix xs s) in *. set (Q := prefix (sq xs) e - prefix (sq xs) s) in *.
  assert (Hmul : 0 <= INR (e - s) * (Q - A ^ 2 / INR (e - s))).
  { apply Rmult_le_pos; lra. }
  replace (INR (e - s) * (Q - A ^ 2 / INR (e - s))) with (INR (e - s) * Q - A ^ 2) in Hmul
    by (field; lra).
  lra.
Qed.

(** The floored kernel variance always dominates the floor and the data variance. *)
Lemma var_from_sums_ge_floor S1 S2 s e : (s < e)%nat -> floor_var <= var_from_sums_R S1 S2 s e.
Proof. intros Hse. rewrite var_from_sums_form by exact Hse. apply Rmax_r. Qed.

Print Assumptions cusum_sq_is_l2_change_score.
Print Assumptions l2_saving_is_saving_of_l2.
Print Assumptions l2_optim_le_fixed.
Print Assumptions l2_split.
Print Assumptions gvar_optim_le_fixed.
Print Assumptions gvar_split.
Print Assumptions l2_saving_subadditive.
Print Assumptions gvar_cost_saving_subadditive.
Print Assumptions gvar_split_can_fail_at_the_floor.

(** NOTE on axioms.  The four L2/CUSUM theorems above depend only on the axioms of the
    stdlib reals.  The two Gaussian theorems additionally list [Classical_Prop.classic]:
    this is inherited from the stdlib DEFINITION of [ln] itself ([ln_exists] is proved
    with the classical IVT), so every statement that mentions [ln] -- including the
    generated kernels [gaussian_var_cost_*_R] on their own -- lists it: *)
Print Assumptions ln.
Print Assumptions gaussian_var_cost_optim_R.
Print Assumptions l2_optim_nonneg.
Print Assumptions V_nonneg.
