(** penalise_savings / find_affected_components (Model/Capa.v) against their
    set-level specification.

    A non-empty set J of components of one interval costs
    alpha + betas[0] + ... + betas[|J|-1]; [subset_value] is the penalised saving
    of the set J, [Pbest] is the value computed by the general branch of
    [penalise_savings].  Main results:

    P1  Pbest_upper            every admissible J has subset_value <= Pbest
    P2  Pbest_attained         some admissible J attains Pbest
    P3  penalise_tiny          "all betas tiny" branch  = Pbest   (betas = 0, savings >= 0)
    P4  penalise_equal         "all betas equal" branch = max Pbest (-alpha)
    P5  penalise_general       general branch           = Pbest
    P6  penalise_ge_Pbest, penalise_spec
    P7  Pbest_subadditive, penalise_subadditive
    P8  G_insensitive          the CAPA recursion G ignores changes of non-positive options
    A1  affected_*             find_affected_components (property C16) *)
From Coq Require Import ZArith List Lia Bool Arith Permutation Sorted.
From SK Require Import Lib.Base Model.Capa Proofs.CapaSpec.
Import ListNotations.
Open Scope Z_scope.

(** ---------- statement-level definitions ---------- *)

Definition subset_ok (p : nat) (J : list nat) : Prop :=
  J <> [] /\ NoDup J /\ forall j, In j J -> (j < p)%nat.
Definition pen_k (betas : list Z) (k : nat) : Z := sumZ (firstn k betas).
Definition subset_value (sav : list Z) (alpha : Z) (betas : list Z) (J : list nat) : Z :=
  sumZ (map (nthZ sav) J) - alpha - pen_k betas (length J).
(** the general branch of penalise_savings *)
Definition Pbest (sav : list Z) (alpha : Z) (betas : list Z) : Z :=
  match argmax (map (fun c => c - alpha) (cumsum (sub_lists (sort_desc sav) betas))) with
  | Some (_, v) => v
  | None => 0
  end.

(** ---------- sums ---------- *)

Lemma sumZ_app (l1 l2 : list Z) : sumZ (l1 ++ l2) = sumZ l1 + sumZ l2.
Proof. induction l1 as [|x t IH]; simpl; lia. Qed.

Lemma sumZ_perm (l1 l2 : list Z) : Permutation l1 l2 -> sumZ l1 = sumZ l2.
Proof. intros HP; induction HP; simpl; lia. Qed.

Lemma sumZ_nonneg (l : list Z) : (forall x, In x l -> 0 <= x) -> 0 <= sumZ l.
Proof.
  induction l as [|x t IH]; simpl; intros H; [lia|].
  assert (0 <= x) by (apply H; left; reflexivity).
  assert (0 <= sumZ t) by (apply IH; intros y Hy; apply H; right; exact Hy).
  lia.
Qed.

Lemma sumZ_firstn_le (l : list Z) :
  (forall x, In x l -> 0 <= x) -> forall k, sumZ (firstn k l) <= sumZ l.
Proof.
  intros H k.
  rewrite <- (firstn_skipn k l) at 2. rewrite sumZ_app.
  assert (0 <= sumZ (skipn k l)).
  { apply sumZ_nonneg. intros x Hx. apply H.
    rewrite <- (firstn_skipn k l). apply in_or_app. right. exact Hx. }
  lia.
Qed.

Lemma nth_map_lt {A B} (g : A -> B) (l : list A) (k : nat) (d : B) (d' : A) :
  (k < length l)%nat -> nth k (map g l) d = g (nth k l d').
Proof.
  intros H. rewrite (nth_indep _ d (g d')) by (rewrite map_length; exact H).
  apply map_nth.
Qed.

Lemma nth_firstn_lt {A} (l : list A) (d : A) : forall n i,
  (i < n)%nat -> nth i (firstn n l) d = nth i l d.
Proof.
  induction l as [|x t IH]; intros n i H.
  - rewrite firstn_nil. reflexivity.
  - destruct n as [|n]; [lia|]. rewrite firstn_cons.
    destruct i as [|i]; simpl; [reflexivity|]. apply IH. lia.
Qed.

(** ---------- argmax = first maximum ---------- *)

Definition best_of (L : list Z) (i : nat) (v : Z) : Prop :=
  (i < length L)%nat /\ nth i L 0 = v /\
  (forall j, (j < length L)%nat -> nth j L 0 <= v) /\
  (forall j, (j < i)%nat -> nth j L 0 < v).

Lemma argmax_from_best : forall l pre bi b,
  best_of pre bi b ->
  best_of (pre ++ l) (fst (argmax_from bi b (length pre) l))
                     (snd (argmax_from bi b (length pre) l)).
Proof.
  induction l as [|x t IH]; intros pre bi b HB.
  - simpl. rewrite app_nil_r. exact HB.
  - cbn [argmax_from].
    replace (pre ++ x :: t) with ((pre ++ [x]) ++ t)
      by (rewrite <- app_assoc; reflexivity).
    replace (S (length pre)) with (length (pre ++ [x]))
      by (rewrite app_length; simpl; lia).
    destruct HB as (H1 & H2 & H3 & H4).
    destruct (Z.ltb_spec b x) as [Hlt|Hge].
    + apply IH. unfold best_of. rewrite app_length. cbn [length].
      split; [lia|]. split.
      { rewrite app_nth2 by lia. rewrite Nat.sub_diag. reflexivity. }
      split.
      * intros j Hj. destruct (Nat.lt_ge_cases j (length pre)) as [Hl|Hg].
        -- rewrite app_nth1 by lia. specialize (H3 j Hl). lia.
        -- rewrite app_nth2 by lia.
           replace (j - length pre)%nat with 0%nat by lia. simpl. lia.
      * intros j Hj. rewrite app_nth1 by lia. specialize (H3 j Hj). lia.
    + apply IH. unfold best_of. rewrite app_length. cbn [length].
      split; [lia|]. split.
      { rewrite app_nth1 by lia. exact H2. }
      split.
      * intros j Hj. destruct (Nat.lt_ge_cases j (length pre)) as [Hl|Hg].
        -- rewrite app_nth1 by lia. apply H3. exact Hl.
        -- rewrite app_nth2 by lia.
           replace (j - length pre)%nat with 0%nat by lia. simpl. lia.
      * intros j Hj. rewrite app_nth1 by lia. apply H4. exact Hj.
Qed.

Lemma argmax_spec (l : list Z) (i : nat) (v : Z) :
  argmax l = Some (i, v) -> best_of l i v.
Proof.
  destruct l as [|x t]; simpl; intros H; [discriminate|].
  inversion H as [H1].
  pose proof (argmax_from_best t [x] 0%nat x) as HB.
  cbn [length app] in HB. rewrite H1 in HB. cbn [fst snd] in HB.
  apply HB. unfold best_of. cbn [length].
  split; [lia|]. split; [reflexivity|]. split.
  - intros j Hj. destruct j as [|j]; [simpl; lia|lia].
  - intros j Hj. lia.
Qed.

(** the form announced in the task statement *)
Lemma argmax_facts (l : list Z) (i : nat) (v : Z) :
  argmax l = Some (i, v) ->
  (i < length l)%nat /\ nth i l 0 = v /\
  (forall j, (j < length l)%nat -> nth j l 0 <= v) /\
  (forall j, (j < i)%nat -> nth j l 0 < v).
Proof. exact (argmax_spec l i v). Qed.

Lemma argmax_some (l : list Z) : l <> [] -> exists i v, argmax l = Some (i, v).
Proof.
  destruct l as [|x t]; intros H; [congruence|].
  simpl. destruct (argmax_from 0 x 1 t) as [i v]. exists i, v. reflexivity.
Qed.

Lemma argmax_none (l : list Z) : argmax l = None -> l = [].
Proof. destruct l; simpl; [reflexivity|discriminate]. Qed.

(** ---------- cumsum, sub_lists, the penalised-savings vector ---------- *)

Lemma cumsum_from_length (l : list Z) : forall acc, length (cumsum_from acc l) = length l.
Proof. induction l as [|x t IH]; intros acc; simpl; [reflexivity|]. rewrite IH. reflexivity. Qed.

Lemma cumsum_from_nth (l : list Z) : forall acc k, (k < length l)%nat ->
  nth k (cumsum_from acc l) 0 = acc + sumZ (firstn (S k) l).
Proof.
  induction l as [|x t IH]; intros acc k H; cbn [length] in H; [lia|].
  cbn [cumsum_from]. rewrite firstn_cons. cbn [sumZ].
  destruct k as [|k].
  - rewrite firstn_O. simpl. lia.
  - cbn [nth]. rewrite IH by lia. lia.
Qed.

Lemma sub_lists_cons x a y b : sub_lists (x :: a) (y :: b) = (x - y) :: sub_lists a b.
Proof. reflexivity. Qed.

Lemma sub_lists_length (a b : list Z) : length a = length b -> length (sub_lists a b) = length a.
Proof. intros H. unfold sub_lists. rewrite map_length, combine_length. lia. Qed.

Lemma sub_lists_firstn_sum : forall (a b : list Z) k, length a = length b ->
  sumZ (firstn k (sub_lists a b)) = sumZ (firstn k a) - sumZ (firstn k b).
Proof.
  induction a as [|x a IH]; intros b k H; destruct b as [|y b]; try discriminate.
  - rewrite !firstn_nil. reflexivity.
  - rewrite sub_lists_cons. destruct k as [|k].
    + rewrite !firstn_O. reflexivity.
    + rewrite !firstn_cons. cbn [sumZ]. rewrite IH by (simpl in H; lia). lia.
Qed.

Definition pensav (s : list Z) (alpha : Z) (betas : list Z) : list Z :=
  map (fun c => c - alpha) (cumsum (sub_lists s betas)).

Lemma pensav_length s alpha betas : length s = length betas ->
  length (pensav s alpha betas) = length s.
Proof.
  intros H. unfold pensav, cumsum.
  rewrite map_length, cumsum_from_length. apply sub_lists_length. exact H.
Qed.

Lemma pensav_nth s alpha betas k : length s = length betas -> (k < length s)%nat ->
  nth k (pensav s alpha betas) 0 = sumZ (firstn (S k) s) - alpha - pen_k betas (S k).
Proof.
  intros H Hk. unfold pensav, cumsum, pen_k.
  rewrite (nth_map_lt _ _ _ 0 0)
    by (rewrite cumsum_from_length, sub_lists_length; assumption).
  rewrite cumsum_from_nth by (rewrite sub_lists_length; assumption).
  rewrite sub_lists_firstn_sum by exact H. lia.
Qed.

Lemma Pbest_unfold sav alpha betas :
  Pbest sav alpha betas =
  match argmax (pensav (sort_desc sav) alpha betas) with Some (_, v) => v | None => 0 end.
Proof. reflexivity. Qed.

(** ---------- decreasing insertion sort ---------- *)

Definition desc (l : list Z) : Prop := StronglySorted (fun a b => b <= a) l.

Lemma insert_desc_perm x l : Permutation (insert_desc x l) (x :: l).
Proof.
  induction l as [|y t IH]; simpl; [apply Permutation_refl|].
  destruct (y <? x); [apply Permutation_refl|].
  eapply Permutation_trans; [apply perm_skip; exact IH|apply perm_swap].
Qed.

Lemma sort_desc_perm l : Permutation (sort_desc l) l.
Proof.
  induction l as [|x t IH]; simpl; [apply perm_nil|].
  eapply Permutation_trans; [apply insert_desc_perm|apply perm_skip; exact IH].
Qed.

Lemma sort_desc_length l : length (sort_desc l) = length l.
Proof. apply Permutation_length, sort_desc_perm. Qed.

Lemma insert_desc_sorted x l : desc l -> desc (insert_desc x l).
Proof.
  unfold desc. induction l as [|y t IH]; intros HS; simpl.
  - constructor; constructor.
  - apply StronglySorted_inv in HS. destruct HS as [HS HF].
    destruct (Z.ltb_spec y x) as [Hlt|Hge].
    + constructor.
      * constructor; assumption.
      * constructor; [lia|].
        eapply Forall_impl; [|exact HF]. intros a Ha; simpl in Ha; lia.
    + constructor.
      * apply IH; exact HS.
      * rewrite Forall_forall. intros a Ha.
        apply (Permutation_in _ (insert_desc_perm x t)) in Ha.
        destruct Ha as [Ha|Ha]; [lia|].
        rewrite Forall_forall in HF. apply HF; exact Ha.
Qed.

Lemma sort_desc_sorted l : desc (sort_desc l).
Proof.
  induction l as [|x t IH]; simpl; [constructor|].
  apply insert_desc_sorted; exact IH.
Qed.

Lemma desc_nth (s : list Z) : desc s -> forall i i', (i <= i')%nat -> (i' < length s)%nat ->
  nth i' s 0 <= nth i s 0.
Proof.
  unfold desc. induction s as [|x t IH]; intros HS i i' Hle Hlt; cbn [length] in Hlt; [lia|].
  apply StronglySorted_inv in HS. destruct HS as [HS HF].
  destruct i' as [|i'].
  - replace i with 0%nat by lia. lia.
  - destruct i as [|i].
    + cbn [nth]. rewrite Forall_forall in HF. apply HF. apply nth_In. lia.
    + cbn [nth]. apply IH; [exact HS|lia|lia].
Qed.

(** ---------- the k largest entries dominate any k distinct entries ---------- *)

Lemma topk_bound : forall s, desc s -> forall l' rest,
  Permutation (l' ++ rest) s -> sumZ l' <= sumZ (firstn (length l') s).
Proof.
  unfold desc. induction s as [|x s IH]; intros HS l' rest HP.
  - apply Permutation_sym, Permutation_nil in HP.
    apply app_eq_nil in HP. destruct HP as [-> _]. simpl. lia.
  - apply StronglySorted_inv in HS. destruct HS as [HS HF].
    rewrite Forall_forall in HF.
    assert (Hin : In x (l' ++ rest)).
    { apply (Permutation_in _ (Permutation_sym HP)). left; reflexivity. }
    apply in_app_or in Hin. destruct Hin as [Hin|Hin].
    + apply in_split in Hin. destruct Hin as (a & b & ->).
      rewrite <- app_assoc in HP. cbn [app] in HP.
      apply Permutation_sym, Permutation_cons_app_inv, Permutation_sym in HP.
      rewrite app_assoc in HP.
      specialize (IH HS (a ++ b) rest HP).
      rewrite sumZ_app in *. cbn [sumZ].
      rewrite app_length in *. cbn [length].
      replace (length a + S (length b))%nat with (S (length a + length b)) by lia.
      rewrite firstn_cons. cbn [sumZ]. lia.
    + apply in_split in Hin. destruct Hin as (a & b & ->).
      rewrite app_assoc in HP.
      apply Permutation_sym, Permutation_cons_app_inv, Permutation_sym in HP.
      rewrite <- app_assoc in HP.
      destruct l' as [|y l'']; [simpl; lia|].
      cbn [app] in HP.
      assert (HP' : Permutation (l'' ++ (y :: a ++ b)) s).
      { eapply Permutation_trans; [|exact HP].
        apply Permutation_sym.
        apply (Permutation_middle l'' (a ++ b) y). }
      assert (Hy : y <= x).
      { apply HF. apply (Permutation_in _ HP). left; reflexivity. }
      specialize (IH HS l'' (y :: a ++ b) HP').
      cbn [length sumZ]. rewrite firstn_cons. cbn [sumZ]. lia.
Qed.

Lemma nodup_incl_split : forall (J U : list nat),
  NoDup J -> NoDup U -> (forall j, In j J -> In j U) ->
  exists R, Permutation (J ++ R) U.
Proof.
  induction J as [|j J IH]; intros U HJ HU Hincl.
  - exists U. apply Permutation_refl.
  - assert (HjU : In j U) by (apply Hincl; left; reflexivity).
    apply in_split in HjU. destruct HjU as (U1 & U2 & ->).
    inversion HJ as [|? ? Hnotin HJ']; subst.
    destruct (IH (U1 ++ U2) HJ' (NoDup_remove_1 _ _ _ HU)) as [R HR].
    { intros k Hk. assert (Hk' : In k (U1 ++ j :: U2)) by (apply Hincl; right; exact Hk).
      apply in_app_or in Hk'. apply in_or_app.
      destruct Hk' as [Hk'|[Hk'|Hk']]; [left; exact Hk'| |right; exact Hk'].
      subst k. contradiction. }
    exists R. cbn [app]. apply Permutation_cons_app. exact HR.
Qed.

Lemma map_nthZ_seq_gen : forall (l pre : list Z),
  map (nthZ (pre ++ l)) (seq (length pre) (length l)) = l.
Proof.
  induction l as [|x t IH]; intros pre; cbn [length seq map]; [reflexivity|].
  f_equal.
  - unfold nthZ. rewrite app_nth2 by lia. rewrite Nat.sub_diag. reflexivity.
  - specialize (IH (pre ++ [x])). rewrite <- app_assoc in IH. cbn [app] in IH.
    rewrite app_length in IH. cbn [length] in IH.
    replace (length pre + 1)%nat with (S (length pre)) in IH by lia. exact IH.
Qed.

Lemma map_nthZ_seq (sav : list Z) : map (nthZ sav) (seq 0 (length sav)) = sav.
Proof. exact (map_nthZ_seq_gen sav []). Qed.

Lemma index_subset_perm (sav : list Z) (J : list nat) :
  NoDup J -> (forall j, In j J -> (j < length sav)%nat) ->
  exists rest, Permutation (map (nthZ sav) J ++ rest) sav.
Proof.
  intros HJ Hlt.
  destruct (nodup_incl_split J (seq 0 (length sav)) HJ (seq_NoDup _ _)) as [R HR].
  { intros j Hj. apply in_seq. specialize (Hlt j Hj). lia. }
  exists (map (nthZ sav) R).
  rewrite <- map_app. rewrite <- (map_nthZ_seq sav) at 2.
  apply Permutation_map. exact HR.
Qed.

Lemma subset_sum_le_topk (sav : list Z) (J : list nat) :
  NoDup J -> (forall j, In j J -> (j < length sav)%nat) ->
  sumZ (map (nthZ sav) J) <= sumZ (firstn (length J) (sort_desc sav)).
Proof.
  intros HJ Hlt.
  destruct (index_subset_perm sav J HJ Hlt) as [rest HP].
  rewrite <- (map_length (nthZ sav) J).
  apply (topk_bound (sort_desc sav) (sort_desc_sorted sav) _ rest).
  eapply Permutation_trans; [exact HP|]. apply Permutation_sym, sort_desc_perm.
Qed.

Lemma subset_ok_length (p : nat) (J : list nat) :
  subset_ok p J -> (1 <= length J <= p)%nat.
Proof.
  intros (Hne & Hnd & Hlt). split.
  - destruct J; [congruence|simpl; lia].
  - rewrite <- (seq_length p 0). apply NoDup_incl_length; [exact Hnd|].
    intros j Hj. apply in_seq. specialize (Hlt j Hj). lia.
Qed.

(** value of the best entry of the penalised-savings vector *)
Lemma Pbest_ge_nth sav alpha betas k :
  length betas = length sav -> (k < length sav)%nat ->
  nth k (pensav (sort_desc sav) alpha betas) 0 <= Pbest sav alpha betas.
Proof.
  intros HL Hk. rewrite Pbest_unfold.
  assert (Hlen : length (pensav (sort_desc sav) alpha betas) = length sav).
  { rewrite pensav_length; rewrite sort_desc_length; [reflexivity|lia]. }
  destruct (argmax (pensav (sort_desc sav) alpha betas)) as [[i v]|] eqn:E.
  - apply argmax_spec in E. destruct E as (_ & _ & Hmax & _).
    apply Hmax. lia.
  - apply argmax_none in E. rewrite E in Hlen. simpl in Hlen. lia.
Qed.

Lemma Pbest_is_nth sav alpha betas :
  length betas = length sav -> (1 <= length sav)%nat ->
  exists k, (k < length sav)%nat /\
    argmax (pensav (sort_desc sav) alpha betas) = Some (k, Pbest sav alpha betas) /\
    Pbest sav alpha betas = nth k (pensav (sort_desc sav) alpha betas) 0.
Proof.
  intros HL Hp. rewrite Pbest_unfold.
  assert (Hlen : length (pensav (sort_desc sav) alpha betas) = length sav).
  { rewrite pensav_length; rewrite sort_desc_length; [reflexivity|lia]. }
  destruct (argmax (pensav (sort_desc sav) alpha betas)) as [[i v]|] eqn:E.
  - pose proof (argmax_spec _ _ _ E) as (Hi & Hv & _ & _).
    exists i. split; [lia|]. split; [reflexivity|]. symmetry; exact Hv.
  - apply argmax_none in E. rewrite E in Hlen. simpl in Hlen. lia.
Qed.

(** ---------- P1 ---------- *)

Theorem Pbest_upper sav alpha betas J :
  length betas = length sav ->
  subset_ok (length sav) J ->
  subset_value sav alpha betas J <= Pbest sav alpha betas.
Proof.
  intros HL HJ.
  pose proof (subset_ok_length _ _ HJ) as [H1 Hp].
  destruct HJ as (Hne & Hnd & Hlt).
  pose proof (subset_sum_le_topk sav J Hnd Hlt) as Hsum.
  pose proof (Pbest_ge_nth sav alpha betas (length J - 1) HL ltac:(lia)) as Hb.
  rewrite pensav_nth in Hb by (rewrite sort_desc_length; lia).
  replace (S (length J - 1)) with (length J) in Hb by lia.
  unfold subset_value. lia.
Qed.

(** ---------- decreasing argsort ---------- *)

Lemma insert_idx_map sav j l :
  map (nthZ sav) (insert_idx sav j l) = insert_desc (nthZ sav j) (map (nthZ sav) l).
Proof.
  induction l as [|k t IH]; simpl; [reflexivity|].
  destruct (nthZ sav k <? nthZ sav j); simpl; [reflexivity|].
  rewrite IH. reflexivity.
Qed.

Lemma argsort_gen_map sav idx :
  map (nthZ sav) (fold_right (insert_idx sav) [] idx) = sort_desc (map (nthZ sav) idx).
Proof.
  induction idx as [|j t IH]; simpl; [reflexivity|].
  rewrite insert_idx_map, IH. reflexivity.
Qed.

(** NOTE on ties: [insert_idx] moves the new column past every entry whose saving is
    >= its own, and columns are inserted from p-1 down to 0, so among equal savings
    the LARGER column comes first (the comment in Model/Capa.v says the opposite). *)
Example argsort_desc_ties : argsort_desc [3; 5; 3; 5] = [3; 1; 2; 0]%nat.
Proof. reflexivity. Qed.

(** p = 0 is excluded below: penalise [] alpha [] = - alpha but Pbest [] alpha [] = 0. *)
Example penalise_p0 : penalise [] 3 [] = -3 /\ Pbest [] 3 [] = 0.
Proof. split; reflexivity. Qed.

(** the two insertion sorts agree, ties included *)
Lemma argsort_desc_values sav : map (nthZ sav) (argsort_desc sav) = sort_desc sav.
Proof. unfold argsort_desc. rewrite argsort_gen_map, map_nthZ_seq. reflexivity. Qed.

Lemma insert_idx_perm sav j l : Permutation (insert_idx sav j l) (j :: l).
Proof.
  induction l as [|k t IH]; simpl; [apply Permutation_refl|].
  destruct (nthZ sav k <? nthZ sav j); [apply Permutation_refl|].
  eapply Permutation_trans; [apply perm_skip; exact IH|apply perm_swap].
Qed.

Lemma argsort_gen_perm sav idx : Permutation (fold_right (insert_idx sav) [] idx) idx.
Proof.
  induction idx as [|j t IH]; simpl; [apply perm_nil|].
  eapply Permutation_trans; [apply insert_idx_perm|apply perm_skip; exact IH].
Qed.

Theorem argsort_desc_perm sav : Permutation (argsort_desc sav) (seq 0 (length sav)).
Proof. apply argsort_gen_perm. Qed.

Lemma argsort_desc_length sav : length (argsort_desc sav) = length sav.
Proof. rewrite (Permutation_length (argsort_desc_perm sav)). apply seq_length. Qed.

Lemma argsort_desc_NoDup sav : NoDup (argsort_desc sav).
Proof.
  apply (Permutation_NoDup (Permutation_sym (argsort_desc_perm sav))). apply seq_NoDup.
Qed.

Lemma argsort_desc_In sav j : In j (argsort_desc sav) <-> (j < length sav)%nat.
Proof.
  split; intros H.
  - apply (Permutation_in _ (argsort_desc_perm sav)) in H. apply in_seq in H. lia.
  - apply (Permutation_in _ (Permutation_sym (argsort_desc_perm sav))).
    apply in_seq. lia.
Qed.

Lemma argsort_desc_nth sav i : (i < length sav)%nat ->
  nthZ sav (nth i (argsort_desc sav) 0%nat) = nth i (sort_desc sav) 0.
Proof.
  intros H. rewrite <- argsort_desc_values.
  symmetry. apply nth_map_lt. rewrite argsort_desc_length. exact H.
Qed.

Theorem argsort_desc_sorted sav : forall i i', (i <= i' < length sav)%nat ->
  nthZ sav (nth i' (argsort_desc sav) 0%nat) <= nthZ sav (nth i (argsort_desc sav) 0%nat).
Proof.
  intros i i' [H1 H2]. rewrite !argsort_desc_nth by lia.
  apply desc_nth; [apply sort_desc_sorted|exact H1|rewrite sort_desc_length; exact H2].
Qed.

Lemma In_firstn {A} (x : A) (l : list A) n : In x (firstn n l) -> In x l.
Proof.
  intros H. rewrite <- (firstn_skipn n l). apply in_or_app. left; exact H.
Qed.

Lemma NoDup_firstn {A} (l : list A) : NoDup l -> forall n, NoDup (firstn n l).
Proof.
  induction l as [|x t IH]; intros HN n.
  - rewrite firstn_nil. constructor.
  - destruct n as [|n]; [rewrite firstn_O; constructor|].
    rewrite firstn_cons. inversion HN as [|? ? Hnotin HN']; subst.
    constructor; [|apply IH; exact HN'].
    intros Hin. apply Hnotin. eapply In_firstn; exact Hin.
Qed.

(** prefixes of the decreasing order: admissible sets whose value is an entry of the
    penalised-savings vector *)
Lemma prefix_length sav k : (k <= length sav)%nat ->
  length (firstn k (argsort_desc sav)) = k.
Proof. intros H. apply firstn_length_le. rewrite argsort_desc_length. exact H. Qed.

Lemma prefix_ok sav k : (1 <= k <= length sav)%nat ->
  subset_ok (length sav) (firstn k (argsort_desc sav)).
Proof.
  intros [H1 H2]. split; [|split].
  - intros E. pose proof (prefix_length sav k H2) as HL. rewrite E in HL. simpl in HL. lia.
  - apply NoDup_firstn, argsort_desc_NoDup.
  - intros j Hj. apply argsort_desc_In. eapply In_firstn; exact Hj.
Qed.

Lemma prefix_value sav alpha betas k :
  length betas = length sav -> (1 <= k <= length sav)%nat ->
  subset_value sav alpha betas (firstn k (argsort_desc sav)) =
  nth (k - 1) (pensav (sort_desc sav) alpha betas) 0.
Proof.
  intros HL [H1 H2]. unfold subset_value.
  rewrite prefix_length by exact H2.
  rewrite <- firstn_map, argsort_desc_values.
  rewrite pensav_nth by (rewrite sort_desc_length; lia).
  replace (S (k - 1)) with k by lia. reflexivity.
Qed.

(** ---------- P2 ---------- *)

Theorem Pbest_attained sav alpha betas :
  length betas = length sav -> (1 <= length sav)%nat ->
  exists J, subset_ok (length sav) J /\
            subset_value sav alpha betas J = Pbest sav alpha betas.
Proof.
  intros HL Hp.
  destruct (Pbest_is_nth sav alpha betas HL Hp) as (k & Hk & _ & Hv).
  exists (firstn (S k) (argsort_desc sav)). split.
  - apply prefix_ok. lia.
  - rewrite prefix_value by (try exact HL; lia).
    replace (S k - 1)%nat with k by lia. symmetry; exact Hv.
Qed.

(** ---------- P5, P3, P4, P6 ---------- *)

Theorem penalise_general sav alpha betas :
  all_tiny betas = false -> all_equal betas = false ->
  penalise sav alpha betas = Pbest sav alpha betas.
Proof. intros H1 H2. unfold penalise. rewrite H1, H2. reflexivity. Qed.

Lemma pen_k_const (l : list Z) (c : Z) : (forall b, In b l -> b = c) ->
  forall k, (k <= length l)%nat -> pen_k l k = Z.of_nat k * c.
Proof.
  unfold pen_k. induction l as [|x t IH]; intros Hc k Hk.
  - cbn [length] in Hk. replace k with 0%nat by lia. simpl. lia.
  - destruct k as [|k]; [rewrite firstn_O; simpl; lia|].
    rewrite firstn_cons. cbn [sumZ].
    rewrite IH; [|intros b Hb; apply Hc; right; exact Hb|cbn [length] in Hk; lia].
    rewrite (Hc x) by (left; reflexivity). lia.
Qed.

Lemma pen_k_nonneg betas k : (forall b, In b betas -> 0 <= b) -> 0 <= pen_k betas k.
Proof.
  intros H. unfold pen_k. apply sumZ_nonneg.
  intros x Hx. apply H. eapply In_firstn; exact Hx.
Qed.

Lemma pen_k_le_sum betas k : (forall b, In b betas -> 0 <= b) -> pen_k betas k <= sumZ betas.
Proof. intros H. unfold pen_k. apply sumZ_firstn_le. exact H. Qed.

Lemma all_tiny_zero betas :
  all_tiny betas = true -> (forall b, In b betas -> 0 <= b) -> forall b, In b betas -> b = 0.
Proof.
  intros Ht Hn b Hb. unfold all_tiny in Ht. rewrite forallb_forall in Ht.
  specialize (Ht b Hb). apply Z.leb_le in Ht. specialize (Hn b Hb). lia.
Qed.

Theorem penalise_tiny sav alpha betas :
  length betas = length sav -> (1 <= length sav)%nat ->
  all_tiny betas = true -> (forall b, In b betas -> 0 <= b) ->
  (forall x, In x sav -> 0 <= x) ->
  penalise sav alpha betas = Pbest sav alpha betas.
Proof.
  intros HL Hp Ht Hb Hs. unfold penalise. rewrite Ht.
  pose proof (all_tiny_zero betas Ht Hb) as Hz.
  assert (Hpen : forall k, (k <= length sav)%nat -> pen_k betas k = 0).
  { intros k Hk. rewrite (pen_k_const betas 0 Hz) by lia. lia. }
  assert (Hsum : sumZ (sort_desc sav) = sumZ sav) by (apply sumZ_perm, sort_desc_perm).
  assert (Hnn : forall x, In x (sort_desc sav) -> 0 <= x).
  { intros x Hx. apply Hs. apply (Permutation_in _ (sort_desc_perm sav)). exact Hx. }
  destruct (Pbest_is_nth sav alpha betas HL Hp) as (k & Hk & _ & Hv).
  rewrite pensav_nth in Hv by (rewrite sort_desc_length; lia).
  rewrite Hpen in Hv by lia.
  pose proof (sumZ_firstn_le (sort_desc sav) Hnn (S k)) as Hle.
  pose proof (Pbest_ge_nth sav alpha betas (length sav - 1) HL ltac:(lia)) as Hge.
  rewrite pensav_nth in Hge by (rewrite sort_desc_length; lia).
  rewrite Hpen in Hge by lia.
  rewrite firstn_all2 in Hge by (rewrite sort_desc_length; lia).
  lia.
Qed.

(** sum of the positive parts of (s - c) *)
Definition posum (c : Z) (l : list Z) : Z := sumZ (map (fun s => Z.max (s - c) 0) l).

Lemma posum_perm c l1 l2 : Permutation l1 l2 -> posum c l1 = posum c l2.
Proof. intros H. unfold posum. apply sumZ_perm, Permutation_map. exact H. Qed.

Lemma posum_nonneg c l : 0 <= posum c l.
Proof.
  unfold posum. apply sumZ_nonneg. intros x Hx. apply in_map_iff in Hx.
  destruct Hx as (s & <- & _). lia.
Qed.

Lemma posum_upper c : forall s k, (k <= length s)%nat ->
  sumZ (firstn k s) - Z.of_nat k * c <= posum c s.
Proof.
  induction s as [|x t IH]; intros k Hk.
  - cbn [length] in Hk. replace k with 0%nat by lia. simpl. unfold posum. simpl. lia.
  - destruct k as [|k].
    + rewrite firstn_O. pose proof (posum_nonneg c (x :: t)). simpl. lia.
    + rewrite firstn_cons. cbn [sumZ]. cbn [length] in Hk.
      specialize (IH k ltac:(lia)). unfold posum in *. cbn [map sumZ]. lia.
Qed.

Lemma posum_zero c l : (forall x, In x l -> x <= c) -> posum c l = 0.
Proof.
  unfold posum. induction l as [|x t IH]; intros H; cbn [map sumZ]; [reflexivity|].
  rewrite IH by (intros y Hy; apply H; right; exact Hy).
  specialize (H x (or_introl eq_refl)). lia.
Qed.

Lemma posum_attained c : forall s, desc s ->
  exists k, (k <= length s)%nat /\ sumZ (firstn k s) - Z.of_nat k * c = posum c s.
Proof.
  unfold desc. induction s as [|x t IH]; intros HS.
  - exists 0%nat. split; [simpl; lia|reflexivity].
  - apply StronglySorted_inv in HS. destruct HS as [HS HF].
    rewrite Forall_forall in HF.
    destruct (Z_le_gt_dec x c) as [Hle|Hgt].
    + exists 0%nat. split; [simpl; lia|].
      rewrite posum_zero; [rewrite firstn_O; simpl; lia|].
      intros y [Hy|Hy]; [lia|]. specialize (HF y Hy). lia.
    + destruct (IH HS) as (k & Hk & Hv).
      exists (S k). split; [simpl; lia|].
      rewrite firstn_cons. unfold posum in *. cbn [map sumZ]. lia.
Qed.

Lemma all_equal_hd betas :
  all_equal betas = true -> forall b, In b betas -> b = hd 0 betas.
Proof.
  destruct betas as [|b0 t]; intros H b Hb; [destruct Hb|].
  unfold all_equal in H. rewrite forallb_forall in H.
  specialize (H b Hb). apply Z.eqb_eq in H. exact H.
Qed.

Lemma all_tiny_false_nonempty betas : all_tiny betas = false -> (1 <= length betas)%nat.
Proof. destruct betas; simpl; [discriminate|lia]. Qed.

Theorem penalise_equal sav alpha betas :
  length betas = length sav ->
  all_tiny betas = false -> all_equal betas = true ->
  penalise sav alpha betas = Z.max (Pbest sav alpha betas) (- alpha).
Proof.
  intros HL Ht He. unfold penalise. rewrite Ht, He.
  pose proof (all_tiny_false_nonempty betas Ht) as Hp. rewrite HL in Hp.
  set (c := hd 0 betas).
  change (sumZ (map (fun s => Z.max (s - c) 0) sav)) with (posum c sav).
  rewrite <- (posum_perm c _ _ (sort_desc_perm sav)).
  pose proof (all_equal_hd betas He) as Hc. fold c in Hc.
  assert (Hpen : forall k, (k <= length sav)%nat -> pen_k betas k = Z.of_nat k * c).
  { intros k Hk. apply pen_k_const; [exact Hc|lia]. }
  apply Z.le_antisymm.
  - destruct (posum_attained c (sort_desc sav) (sort_desc_sorted sav)) as (k & Hk & Hv).
    rewrite sort_desc_length in Hk.
    destruct k as [|k].
    + rewrite firstn_O in Hv. simpl in Hv. lia.
    + pose proof (Pbest_ge_nth sav alpha betas k HL ltac:(lia)) as Hge.
      rewrite pensav_nth in Hge by (rewrite sort_desc_length; lia).
      rewrite Hpen in Hge by lia. lia.
  - pose proof (posum_nonneg c (sort_desc sav)) as Hnn.
    destruct (Pbest_is_nth sav alpha betas HL Hp) as (k & Hk & _ & Hv).
    rewrite pensav_nth in Hv by (rewrite sort_desc_length; lia).
    rewrite Hpen in Hv by lia.
    pose proof (posum_upper c (sort_desc sav) (S k)
                  ltac:(rewrite sort_desc_length; lia)) as Hup.
    lia.
Qed.

Theorem penalise_ge_Pbest sav alpha betas :
  length betas = length sav -> (1 <= length sav)%nat ->
  (forall b, In b betas -> 0 <= b) -> (forall x, In x sav -> 0 <= x) ->
  Pbest sav alpha betas <= penalise sav alpha betas.
Proof.
  intros HL Hp Hb Hs.
  destruct (all_tiny betas) eqn:Ht.
  - rewrite penalise_tiny by assumption. lia.
  - destruct (all_equal betas) eqn:He.
    + rewrite penalise_equal by assumption. lia.
    + rewrite penalise_general by assumption. lia.
Qed.

Theorem penalise_spec sav alpha betas :
  length betas = length sav -> (1 <= length sav)%nat ->
  (forall b, In b betas -> 0 <= b) -> (forall x, In x sav -> 0 <= x) ->
  Pbest sav alpha betas <= penalise sav alpha betas <= Z.max (Pbest sav alpha betas) (- alpha).
Proof.
  intros HL Hp Hb Hs. split; [apply penalise_ge_Pbest; assumption|].
  destruct (all_tiny betas) eqn:Ht.
  - rewrite penalise_tiny by assumption. lia.
  - destruct (all_equal betas) eqn:He.
    + rewrite penalise_equal by assumption. lia.
    + rewrite penalise_general by assumption. lia.
Qed.

(** ---------- A1: find_affected_components (property C16) ---------- *)

Lemma affected_unfold sav alpha betas :
  affected sav alpha betas =
  match argmax (pensav (sort_desc sav) alpha betas) with
  | Some (k, _) => firstn (S k) (argsort_desc sav)
  | None => []
  end.
Proof. unfold affected. cbv zeta. rewrite argsort_desc_values. reflexivity. Qed.

(** the returned set is the prefix of the decreasing order that ends at the FIRST
    maximum of the penalised-savings vector *)
Lemma affected_char sav alpha betas :
  length betas = length sav -> (1 <= length sav)%nat ->
  exists k, (k < length sav)%nat /\
    best_of (pensav (sort_desc sav) alpha betas) k (Pbest sav alpha betas) /\
    affected sav alpha betas = firstn (S k) (argsort_desc sav).
Proof.
  intros HL Hp.
  destruct (Pbest_is_nth sav alpha betas HL Hp) as (k & Hk & Harg & _).
  exists k. split; [exact Hk|]. split; [apply argmax_spec; exact Harg|].
  rewrite affected_unfold, Harg. reflexivity.
Qed.

Theorem affected_prefix sav alpha betas :
  length betas = length sav -> (1 <= length sav)%nat ->
  exists k, (1 <= k <= length sav)%nat /\
            affected sav alpha betas = firstn k (argsort_desc sav).
Proof.
  intros HL Hp. destruct (affected_char sav alpha betas HL Hp) as (k & Hk & _ & HJ).
  exists (S k). split; [lia|exact HJ].
Qed.

Theorem affected_ok sav alpha betas :
  length betas = length sav -> (1 <= length sav)%nat ->
  subset_ok (length sav) (affected sav alpha betas).
Proof.
  intros HL Hp. destruct (affected_prefix sav alpha betas HL Hp) as (k & Hk & ->).
  apply prefix_ok. exact Hk.
Qed.

(** J is listed in order of non-increasing saving *)
Theorem affected_decreasing sav alpha betas :
  length betas = length sav -> (1 <= length sav)%nat ->
  forall i i', (i <= i' < length (affected sav alpha betas))%nat ->
    nthZ sav (nth i' (affected sav alpha betas) 0%nat) <=
    nthZ sav (nth i (affected sav alpha betas) 0%nat).
Proof.
  intros HL Hp. destruct (affected_prefix sav alpha betas HL Hp) as (k & Hk & ->).
  rewrite prefix_length by lia. intros i i' Hi.
  rewrite !nth_firstn_lt by lia. apply argsort_desc_sorted. lia.
Qed.

Theorem affected_excluded_not_larger sav alpha betas :
  length betas = length sav -> (1 <= length sav)%nat ->
  forall j j', In j (affected sav alpha betas) -> (j' < length sav)%nat ->
    ~ In j' (affected sav alpha betas) -> nthZ sav j' <= nthZ sav j.
Proof.
  intros HL Hp. destruct (affected_prefix sav alpha betas HL Hp) as (k & Hk & ->).
  intros j j' Hj Hj' Hnot.
  destruct (In_nth _ _ 0%nat Hj) as (i & Hi & Hij).
  rewrite prefix_length in Hi by lia.
  rewrite nth_firstn_lt in Hij by exact Hi.
  apply argsort_desc_In in Hj'.
  destruct (In_nth _ _ 0%nat Hj') as (i' & Hi' & Hij').
  rewrite argsort_desc_length in Hi'.
  assert (Hge : (k <= i')%nat).
  { destruct (Nat.lt_ge_cases i' k) as [Hlt|Hge]; [|exact Hge].
    exfalso. apply Hnot. rewrite <- Hij'.
    rewrite <- (nth_firstn_lt (argsort_desc sav) 0%nat k i' Hlt).
    apply nth_In. rewrite prefix_length by lia. exact Hlt. }
  rewrite <- Hij, <- Hij'. apply argsort_desc_sorted. lia.
Qed.

Theorem affected_value sav alpha betas :
  length betas = length sav -> (1 <= length sav)%nat ->
  subset_value sav alpha betas (affected sav alpha betas) = Pbest sav alpha betas.
Proof.
  intros HL Hp. destruct (affected_char sav alpha betas HL Hp) as (k & Hk & HB & ->).
  rewrite prefix_value by (try exact HL; lia).
  replace (S k - 1)%nat with k by lia.
  destruct HB as (_ & Hv & _). exact Hv.
Qed.

Theorem affected_optimal sav alpha betas :
  length betas = length sav -> (1 <= length sav)%nat ->
  subset_value sav alpha betas (affected sav alpha betas) = Pbest sav alpha betas /\
  forall J', subset_ok (length sav) J' ->
    subset_value sav alpha betas J' <= subset_value sav alpha betas (affected sav alpha betas).
Proof.
  intros HL Hp. split; [apply affected_value; assumption|].
  intros J' HJ'. rewrite affected_value by assumption.
  apply Pbest_upper; assumption.
Qed.

(** first argmax = smallest optimal size: every shorter prefix is strictly worse *)
Theorem affected_smallest_k sav alpha betas :
  length betas = length sav -> (1 <= length sav)%nat ->
  forall k', (1 <= k' < length (affected sav alpha betas))%nat ->
    subset_value sav alpha betas (firstn k' (argsort_desc sav)) <
    subset_value sav alpha betas (affected sav alpha betas).
Proof.
  intros HL Hp k' Hk'. rewrite affected_value by assumption.
  destruct (affected_char sav alpha betas HL Hp) as (k & Hk & HB & HJ).
  rewrite HJ in Hk'. rewrite prefix_length in Hk' by lia.
  rewrite prefix_value by (try exact HL; lia).
  destruct HB as (_ & _ & _ & Hfirst). apply Hfirst. lia.
Qed.

(** ---------- P7: sub-additivity lifts from the savings to the penalised savings ---------- *)

Lemma sum_map_le3 (f g h : nat -> Z) (J : list nat) :
  (forall j, In j J -> f j <= g j + h j) ->
  sumZ (map f J) <= sumZ (map g J) + sumZ (map h J).
Proof.
  induction J as [|j J IH]; intros H; cbn [map sumZ]; [lia|].
  assert (f j <= g j + h j) by (apply H; left; reflexivity).
  assert (sumZ (map f J) <= sumZ (map g J) + sumZ (map h J))
    by (apply IH; intros k Hk; apply H; right; exact Hk).
  lia.
Qed.

Theorem Pbest_subadditive a l r alpha betas :
  length a = length betas -> length l = length betas -> length r = length betas ->
  (1 <= length betas)%nat ->
  (forall b, In b betas -> 0 <= b) ->
  (forall j, (j < length betas)%nat -> nthZ a j <= nthZ l j + nthZ r j) ->
  Pbest a alpha betas <= Pbest l alpha betas + (alpha + sumZ betas) + Pbest r alpha betas.
Proof.
  intros Ha Hl Hr Hp Hb Hsub.
  destruct (Pbest_attained a alpha betas ltac:(lia) ltac:(lia)) as (J & HJ & HV).
  assert (HJl : subset_ok (length l) J) by (rewrite Hl, <- Ha; exact HJ).
  assert (HJr : subset_ok (length r) J) by (rewrite Hr, <- Ha; exact HJ).
  pose proof (Pbest_upper l alpha betas J ltac:(lia) HJl) as Hul.
  pose proof (Pbest_upper r alpha betas J ltac:(lia) HJr) as Hur.
  pose proof (pen_k_le_sum betas (length J) Hb) as Hpen.
  assert (Hsum : sumZ (map (nthZ a) J) <= sumZ (map (nthZ l) J) + sumZ (map (nthZ r) J)).
  { apply sum_map_le3. intros j Hj. apply Hsub.
    destruct HJ as (_ & _ & Hlt). specialize (Hlt j Hj). lia. }
  rewrite <- HV. unfold subset_value in *. lia.
Qed.

Theorem penalise_subadditive a l r alpha betas :
  length a = length betas -> length l = length betas -> length r = length betas ->
  (1 <= length betas)%nat ->
  (forall b, In b betas -> 0 <= b) ->
  (forall x, In x a -> 0 <= x) -> (forall x, In x l -> 0 <= x) -> (forall x, In x r -> 0 <= x) ->
  (forall j, (j < length betas)%nat -> nthZ a j <= nthZ l j + nthZ r j) ->
  penalise a alpha betas <= penalise l alpha betas + (alpha + sumZ betas) + penalise r alpha betas.
Proof.
  intros Ha Hl Hr Hp Hb Hna Hnl Hnr Hsub.
  pose proof (Pbest_subadditive a l r alpha betas Ha Hl Hr Hp Hb Hsub) as HP.
  pose proof (sumZ_nonneg betas Hb) as HS.
  destruct (all_tiny betas) eqn:Ht.
  - rewrite !penalise_tiny by (assumption || lia). exact HP.
  - destruct (all_equal betas) eqn:He.
    + rewrite !penalise_equal by (assumption || lia). lia.
    + rewrite !penalise_general by assumption. exact HP.
Qed.

(** ---------- P8: the CAPA recursion ignores changes of non-positive options ---------- *)

Lemma maxl_le_iff (l : list Z) : forall d z,
  maxl d l <= z <-> d <= z /\ forall x, In x l -> x <= z.
Proof.
  unfold maxl. induction l as [|a t IH]; intros d z; cbn [fold_left].
  - split; [intros H; split; [exact H|intros x []]|intros [H _]; exact H].
  - rewrite IH. split.
    + intros [H1 H2]. split; [lia|]. intros x [<-|Hx]; [lia|apply H2; exact Hx].
    + intros [H1 H2]. split.
      * specialize (H2 a (or_introl eq_refl)). lia.
      * intros x Hx. apply H2. right; exact Hx.
Qed.

Lemma maxl_ge_d d l : d <= maxl d l.
Proof.
  destruct (proj1 (maxl_le_iff l d (maxl d l)) (Z.le_refl _)) as [H _]. exact H.
Qed.

Lemma maxl_ge_in d l x : In x l -> x <= maxl d l.
Proof.
  destruct (proj1 (maxl_le_iff l d (maxl d l)) (Z.le_refl _)) as [_ H]. apply H.
Qed.

Section Insensitive.
Variables (Pc Pc' : nat -> nat -> Z) (Pp Pp' : nat -> Z) (m M : nat).
Hypothesis HPc : forall s e, Pc s e <= Pc' s e <= Z.max (Pc s e) 0.
Hypothesis HPp : forall t, Pp t <= Pp' t <= Z.max (Pp t) 0.

Lemma coll_starts_lt T s : In s (coll_starts m M T) -> (s < T)%nat.
Proof.
  unfold coll_starts. intros H. apply filter_In in H. destruct H as [H _].
  apply in_seq in H. lia.
Qed.

Lemma Gtab_length (P : nat -> nat -> Z) (Q : nat -> Z) t : length (Gtab P Q m M t) = S t.
Proof.
  induction t as [|t IH]; [reflexivity|].
  cbn [Gtab]. rewrite app_length, IH. simpl. lia.
Qed.

Lemma Gtab_nth_stable (P : nat -> nat -> Z) (Q : nat -> Z) t i : (i <= t)%nat ->
  nthZ (Gtab P Q m M (S t)) i = nthZ (Gtab P Q m M t) i.
Proof.
  intros H. cbn [Gtab]. unfold nthZ. apply app_nth1. rewrite Gtab_length. lia.
Qed.

Lemma Gtab_nth_last (P : nat -> nat -> Z) (Q : nat -> Z) t :
  nthZ (Gtab P Q m M (S t)) (S t) = gnext P Q m M (Gtab P Q m M t) (S t).
Proof.
  cbn [Gtab]. unfold nthZ. rewrite app_nth2 by (rewrite Gtab_length; lia).
  rewrite Gtab_length, Nat.sub_diag. reflexivity.
Qed.

Lemma gnext_ge_prev (P : nat -> nat -> Z) (Q : nat -> Z) tab T :
  nthZ tab (T - 1) <= gnext P Q m M tab T.
Proof.
  unfold gnext. cbv zeta.
  eapply Z.le_trans; [|apply maxl_ge_d]. lia.
Qed.

(** the table of optimal values is non-decreasing *)
Lemma Gtab_mono (P : nat -> nat -> Z) (Q : nat -> Z) : forall t i j, (i <= j <= t)%nat ->
  nthZ (Gtab P Q m M t) i <= nthZ (Gtab P Q m M t) j.
Proof.
  induction t as [|t IH]; intros i j Hij.
  - replace i with 0%nat by lia. replace j with 0%nat by lia. lia.
  - destruct (Nat.eq_dec j (S t)) as [->|Hne].
    + destruct (Nat.eq_dec i (S t)) as [->|Hne']; [lia|].
      rewrite Gtab_nth_last, (Gtab_nth_stable P Q t i) by lia.
      eapply Z.le_trans; [|apply gnext_ge_prev].
      replace (S t - 1)%nat with t by lia. apply IH. lia.
    + rewrite !Gtab_nth_stable by lia. apply IH. lia.
Qed.

Lemma gnext_insensitive tab T :
  (forall s, (s < T)%nat -> nthZ tab s <= nthZ tab (T - 1)) ->
  gnext Pc' Pp' m M tab T = gnext Pc Pp m M tab T.
Proof.
  intros Hmono. unfold gnext. cbv zeta.
  set (gt := nthZ tab (T - 1)).
  set (d := Z.max gt (gt + Pp (T - 1))).
  set (d' := Z.max gt (gt + Pp' (T - 1))).
  set (L := map (fun s => nthZ tab s + Pc s T) (coll_starts m M T)).
  set (L' := map (fun s => nthZ tab s + Pc' s T) (coll_starts m M T)).
  assert (Hd : d' = d) by (unfold d, d'; specialize (HPp (T - 1)%nat); lia).
  apply Z.le_antisymm; apply maxl_le_iff; split.
  - rewrite Hd. apply maxl_ge_d.
  - intros x Hx. unfold L' in Hx. apply in_map_iff in Hx. destruct Hx as (s & <- & Hs).
    assert (H1 : nthZ tab s + Pc s T <= maxl d L).
    { apply maxl_ge_in. unfold L. apply in_map_iff. exists s. split; [reflexivity|exact Hs]. }
    assert (H2 : nthZ tab s <= maxl d L).
    { eapply Z.le_trans; [apply Hmono, coll_starts_lt; exact Hs|].
      eapply Z.le_trans; [|apply maxl_ge_d]. unfold d. fold gt. lia. }
    specialize (HPc s T). lia.
  - rewrite <- Hd. apply maxl_ge_d.
  - intros x Hx. unfold L in Hx. apply in_map_iff in Hx. destruct Hx as (s & <- & Hs).
    assert (H1 : nthZ tab s + Pc' s T <= maxl d' L').
    { apply maxl_ge_in. unfold L'. apply in_map_iff. exists s. split; [reflexivity|exact Hs]. }
    specialize (HPc s T). lia.
Qed.

Lemma Gtab_insensitive : forall T, Gtab Pc' Pp' m M T = Gtab Pc Pp m M T.
Proof.
  induction T as [|t IH]; [reflexivity|].
  cbn [Gtab]. rewrite IH. f_equal. f_equal.
  apply gnext_insensitive. intros s Hs.
  replace (S t - 1)%nat with t by lia. apply Gtab_mono. lia.
Qed.

Theorem G_insensitive : forall T, G Pc' Pp' m M T = G Pc Pp m M T.
Proof. intros T. unfold G. rewrite Gtab_insensitive. reflexivity. Qed.
End Insensitive.

(** P8 with [penalise] plugged in (alpha >= 0): the optimal values of the CAPA
    recursion are the same whether an anomaly is valued by the implemented
    [penalise] (Model.Capa.Pc / Pp) or by the set-level optimum [Pbest]; the two
    differ only in the "all betas equal" branch, and only where both are <= 0. *)
Corollary G_penalise_eq_Pbest
  (Sc : nat -> nat -> list Z) (Sp : nat -> list Z) (ac : Z) (bc : list Z) (ap : Z) (bp : list Z)
  (m M : nat) :
  0 <= ac -> 0 <= ap -> (1 <= length bc)%nat -> (1 <= length bp)%nat ->
  (forall s e, length (Sc s e) = length bc) -> (forall t, length (Sp t) = length bp) ->
  (forall b, In b bc -> 0 <= b) -> (forall b, In b bp -> 0 <= b) ->
  (forall s e x, In x (Sc s e) -> 0 <= x) -> (forall t x, In x (Sp t) -> 0 <= x) ->
  forall T,
    G (Pc Sc ac bc) (Pp Sp ap bp) m M T =
    G (fun s e => Pbest (Sc s e) ac bc) (fun t => Pbest (Sp t) ap bp) m M T.
Proof.
  intros Hac Hap Hbc Hbp HLc HLp Hnbc Hnbp Hnc Hnp T.
  apply G_insensitive.
  - intros s e. unfold Pc.
    pose proof (penalise_spec (Sc s e) ac bc ltac:(rewrite HLc; reflexivity)
                  ltac:(rewrite HLc; exact Hbc) Hnbc (Hnc s e)) as H.
    lia.
  - intros t. unfold Pp.
    pose proof (penalise_spec (Sp t) ap bp ltac:(rewrite HLp; reflexivity)
                  ltac:(rewrite HLp; exact Hbp) Hnbp (Hnp t)) as H.
    lia.
Qed.

Check G_insensitive :
  forall (Pc Pc' : nat -> nat -> Z) (Pp Pp' : nat -> Z) (m M : nat),
    (forall s e, Pc s e <= Pc' s e <= Z.max (Pc s e) 0) ->
    (forall t, Pp t <= Pp' t <= Z.max (Pp t) 0) ->
    forall T, G Pc' Pp' m M T = G Pc Pp m M T.

Print Assumptions Pbest_upper.
Print Assumptions Pbest_attained.
Print Assumptions penalise_spec.
Print Assumptions penalise_subadditive.
Print Assumptions G_insensitive.
Print Assumptions G_penalise_eq_Pbest.
Print Assumptions affected_ok.
Print Assumptions affected_optimal.
Print Assumptions affected_excluded_not_larger.
