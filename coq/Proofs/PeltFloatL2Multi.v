(** END TO END in binary64: PELT with the squared-error cost on SEVERAL columns.

    Data [ls : list (list float)] (p = length ls columns, every column of length n), penalty
    [penf : float], minimum segment length [m] (pruning delay m - 1).  PELT aggregates the
    per-column costs of an interval with  np.sum(costs, axis=1);  for fewer than 8 columns
    NumPy adds them sequentially from the left starting from the first element,
        ((c0 + c1) + c2) + ...          (one rounding per addition; ONE column: the value itself)
    which is [aggF] below.  The cost table of the run is
        CfM ls a T = aggF (map (fun l => l2_cost_F l a T) ls).

    Boolean, [vm_compute]-able premises:
      - [l2_all_trace_ok_cols ls]            every column, every cut a < T <= n passes the trace
                                             checker [l2_trace_ok] of Proofs/FloatRefine.v;
      - [pelt_trace_finite (CfM ls) penf m (m-1) n]    every float the PELT run reads is finite;
      - [pelt_mag_ok (CfM ls) penf m (m-1) n Magf]     every ROUNDED sum of the run is <= Magf;
      - [agg_mag_ok ls n Magf]               every per-column cost and every ROUNDED partial sum
                                             of the aggregation, a < T <= n, is finite and
                                             at most [Magf] in magnitude;
      - [l2_absmax_ok_cols ls Bf]            every observation is finite and |x| <= Bf;
      - [cols_length_ok ls n]                every column has n observations.

    Conclusion ([pelt_F64_l2_multi_end_to_end]): the reported changepoints are an admissible
    segmentation whose penalised SUMMED (over the columns) residual sum of squares is within
        3 n (p delta + (p + 1) u53 Mag),
        delta = (4.2 n + 6) u53 (n (n + 1) (FR Bf)^2),   Mag = FR Magf / (1 - u53)
    of that of ANY admissible segmentation; the final score is within n (p delta + (p+1) u53 Mag)
    of the penalised summed RSS of the reported changepoints. *)
From Coq Require Import Reals Lra Lia List Arith ZArith Bool Floats.
From Flocq Require Import Core BinarySingleNaN.
From Flocq Require IEEE754.PrimFloat.
From SK Require Import Lib.Base Model.Pelt Model.Generic Model.GenericF Model.PeltR Model.PeltA
                       Gen.KernelsR Proofs.RealLib Proofs.CostKernels
                       Proofs.PeltSpec Proofs.PeltLemmas Proofs.PeltRefine Proofs.PeltReal
                       Proofs.PeltApprox Proofs.FloatError Proofs.FloatRefine Proofs.PeltFloat
                       Check.FloatKernelCheck Proofs.PeltFloatL2.
Import ListNotations.
Local Open Scope R_scope.

Notation FR := FloatRefine.FR.
Notation float := PrimFloat.float (only parsing).

(* ------------------------------------------------------------------------- *)
(** * 1. The aggregation np.sum(costs, axis=1) for fewer than 8 columns         *)
(* ------------------------------------------------------------------------- *)

Definition aggF (cs : list float) : float :=
  match cs with [] => 0%float | c :: t => fold_left PrimFloat.add t c end.

Definition CfM (ls : list (list float)) (a T : nat) : float :=
  aggF (map (fun l => l2_cost_F l a T) ls).

(** the exact sum of a list of reals *)
Definition sumRl (rs : list R) : R := fold_right Rplus 0 rs.

(** the running test: every summand and every ROUNDED partial sum is finite, and every
    rounded partial sum is at most [Magf] in magnitude *)
Fixpoint fold_ok (Magf acc : float) (t : list float) : bool :=
  match t with
  | [] => true
  | x :: t' => finF x && finF (acc + x)%float && absleF (acc + x)%float Magf
               && fold_ok Magf (acc + x)%float t'
  end.

Definition agg_ok (Magf : float) (cs : list float) : bool :=
  match cs with [] => true | c :: t => finF c && fold_ok Magf c t end.

(** pointwise closeness of a list of floats to a list of reals *)
Inductive close_list (delta : R) : list float -> list R -> Prop :=
| close_nil : close_list delta [] []
| close_cons c r cs rs : Rabs (FR c - r) <= delta -> close_list delta cs rs ->
    close_list delta (c :: cs) (r :: rs).

Lemma fold_error (Magf : float) (delta : R) :
  finF Magf = true ->
  forall (t : list float) (rs : list R) (acc : float) (ra ea : R),
    close_list delta t rs ->
    finF acc = true -> fold_ok Magf acc t = true ->
    Rabs (FR acc - ra) <= ea ->
    Rabs (FR (fold_left PrimFloat.add t acc) - (ra + sumRl rs))
    <= ea + INR (length t) * delta + INR (length t) * u53 * (FR Magf / (1 - u53)).
Proof.
  intros HM t. induction t as [|x t IH]; intros rs acc ra ea Hcl Hacc Hok Hea.
  - inversion Hcl; subst. cbn [fold_left sumRl fold_right length INR].
    replace (ra + 0) with ra by ring. lra.
  - inversion Hcl as [|c r cs rs' Hxr Hcl' E1 E2]; subst.
    cbn [fold_ok] in Hok.
    apply andb_prop in Hok as [Hok Hrest]. apply andb_prop in Hok as [Hok Hle].
    apply andb_prop in Hok as [Hx Hs].
    pose proof (FR_thr_error acc x Hacc Hx Hs) as Hrnd.
    pose proof (sum_mag_from_rounded acc x Magf Hacc Hx Hs HM Hle) as Hmag.
    pose proof u53_pos as Hu.
    assert (Hstep : Rabs (FR (acc + x)%float - (ra + r))
                    <= ea + delta + u53 * (FR Magf / (1 - u53))).
    { replace (FR (acc + x)%float - (ra + r))
        with ((FR (acc + x)%float - (FR acc + FR x)) + ((FR acc - ra) + (FR x - r))) by ring.
      eapply Rle_trans; [apply Rabs_triang|].
      assert (Rabs ((FR acc - ra) + (FR x - r)) <= ea + delta)
        by (eapply Rle_trans; [apply Rabs_triang|]; lra).
      assert (u53 * Rabs (FR acc + FR x) <= u53 * (FR Magf / (1 - u53)))
        by (apply Rmult_le_compat_l; lra).
      lra. }
    specialize (IH rs' (acc + x)%float (ra + r) _ Hcl' Hs Hrest Hstep).
    cbn [fold_left sumRl fold_right]. fold (sumRl rs').
    replace (ra + (r + sumRl rs')) with (ra + r + sumRl rs') by ring.
    eapply Rle_trans; [exact IH|].
    change (length (x :: t)) with (S (length t)). rewrite S_INR. lra.
Qed.

Lemma FR_zero : FR 0%float = 0.
Proof. rewrite FR_SF. vm_compute. ring. Qed.

(** ERROR OF THE AGGREGATION: p = length cs summands each within [delta] of a real, every
    rounded partial sum finite and at most [Magf] in magnitude (boolean test [agg_ok]):
    the float sum is within  p delta + (p - 1) u53 Mag  of the exact sum of the reals *)
Theorem agg_error (Magf : float) (delta : R) (cs : list float) (rs : list R) :
  finF Magf = true -> agg_ok Magf cs = true -> close_list delta cs rs ->
  Rabs (FR (aggF cs) - sumRl rs)
  <= INR (length cs) * delta + INR (length cs - 1) * u53 * (FR Magf / (1 - u53)).
Proof.
  intros HM Hok Hcl. destruct Hcl as [|c r cs rs Hcr Hcl].
  - cbn [aggF sumRl fold_right length Nat.sub INR]. rewrite FR_zero.
    replace (0 - 0) with 0 by ring. rewrite Rabs_R0. lra.
  - cbn [agg_ok] in Hok. apply andb_prop in Hok as [Hc Hok].
    pose proof (fold_error Magf delta HM cs rs c r delta Hcl Hc Hok Hcr) as H.
    cbn [aggF sumRl fold_right]. fold (sumRl rs).
    eapply Rle_trans; [exact H|].
    change (length (c :: cs)) with (S (length cs)).
    replace (S (length cs) - 1)%nat with (length cs) by lia. rewrite S_INR. lra.
Qed.

(** one summand: the value itself, no rounding *)
Lemma aggF_one c : aggF [c] = c.
Proof. reflexivity. Qed.

(* ------------------------------------------------------------------------- *)
(** * 2. Boolean premises on the columns                                        *)
(* ------------------------------------------------------------------------- *)

Definition cols_length_ok (ls : list (list float)) (n : nat) : bool :=
  forallb (fun l => Nat.eqb (length l) n) ls.

Definition l2_all_trace_ok_cols (ls : list (list float)) : bool :=
  forallb l2_all_trace_ok ls.

Definition l2_absmax_ok_cols (ls : list (list float)) (Bf : float) : bool :=
  forallb (fun l => l2_absmax_ok l Bf) ls.

(** every per-column cost and every rounded partial sum of the aggregation, for every cut
    a < T <= n, is finite and (the partial sums) at most [Magf] in magnitude *)
Definition agg_mag_ok (ls : list (list float)) (n : nat) (Magf : float) : bool :=
  finF Magf &&
  forallb (fun T =>
      forallb (fun a => agg_ok Magf (map (fun l => l2_cost_F l a T) ls)) (seq 0 T))
    (seq 0 (S n)).

Lemma cols_length_ok_spec ls n :
  cols_length_ok ls n = true -> forall l, In l ls -> length l = n.
Proof.
  unfold cols_length_ok. rewrite forallb_forall. intros H l Hl.
  apply Nat.eqb_eq. now apply H.
Qed.

Lemma agg_mag_ok_spec ls n Magf :
  agg_mag_ok ls n Magf = true ->
  finF Magf = true /\
  forall a T, (a < T <= n)%nat -> agg_ok Magf (map (fun l => l2_cost_F l a T) ls) = true.
Proof.
  unfold agg_mag_ok. intros H. apply andb_prop in H as [H1 H2]. split; [exact H1|].
  intros a T HaT. rewrite forallb_forall in H2. specialize (H2 T). rewrite in_seq in H2.
  specialize (H2 ltac:(lia)). rewrite forallb_forall in H2. apply H2. rewrite in_seq. lia.
Qed.

(* ------------------------------------------------------------------------- *)
(** * 3. The error of the aggregated table                                      *)
(* ------------------------------------------------------------------------- *)

(** the true objective: the SUM over the columns of the residual sums of squares
    ([rss_multi] of Proofs/PeltReal.v on the real values of the data) *)
Definition CtrueM (ls : list (list float)) (s e : nat) : R :=
  rss_multi (map (map FR) ls) s e.

Lemma CtrueM_unfold ls s e :
  CtrueM ls s e = sumRl (map (fun l => rss (slice s e (map FR l))) ls).
Proof. unfold CtrueM, rss_multi, sumRl. now rewrite map_map. Qed.

Lemma l2_multi_FR_unfold ls s e :
  l2_multi (map (map FR) ls) s e
  = sumRl (map (fun l => l2_cost_optim_R (prefix (map FR l)) (prefix (sq (map FR l))) s e) ls).
Proof. unfold l2_multi, sumRl. now rewrite map_map. Qed.

Lemma close_list_map {A} (delta : R) (f : A -> float) (g : A -> R) (k : list A) :
  (forall x, In x k -> Rabs (FR (f x) - g x) <= delta) ->
  close_list delta (map f k) (map g k).
Proof.
  induction k as [|x k IH]; intros H; cbn [map]; constructor.
  - apply H. now left.
  - apply IH. intros y Hy. apply H. now right.
Qed.

(** the aggregated float table against the aggregated real kernel *)
Lemma l2_multi_table_error (ls : list (list float)) (n : nat) (Magf Bf : float) :
  INR n * u53 <= 1 / 100 ->
  cols_length_ok ls n = true ->
  l2_all_trace_ok_cols ls = true ->
  agg_mag_ok ls n Magf = true ->
  l2_absmax_ok_cols ls Bf = true ->
  forall a T, (a < T <= n)%nat ->
    Rabs (FR (CfM ls a T) - l2_multi (map (map FR) ls) a T)
    <= INR (length ls) * ((42 / 10 * INR n + 6) * u53 * (INR n * (INR n + 1) * FR Bf ^ 2))
       + INR (length ls - 1) * u53 * (FR Magf / (1 - u53)).
Proof.
  intros Hsmall Hlen Htr Hagg Habs a T HaT.
  apply agg_mag_ok_spec in Hagg as [HM Hagg].
  pose proof (cols_length_ok_spec ls n Hlen) as Hl.
  unfold l2_all_trace_ok_cols in Htr. rewrite forallb_forall in Htr.
  unfold l2_absmax_ok_cols in Habs. rewrite forallb_forall in Habs.
  rewrite l2_multi_FR_unfold. unfold CfM.
  pose proof (agg_error Magf
                ((42 / 10 * INR n + 6) * u53 * (INR n * (INR n + 1) * FR Bf ^ 2))
                (map (fun l => l2_cost_F l a T) ls)
                (map (fun l => l2_cost_optim_R (prefix (map FR l)) (prefix (sq (map FR l))) a T) ls)
                HM (Hagg a T HaT)) as H.
  rewrite map_length in H. apply H. clear H.
  apply close_list_map. intros l Hin.
  pose proof (Hl l Hin) as Hn.
  pose proof (l2_table_error l (INR n * (INR n + 1) * FR Bf ^ 2)) as H.
  rewrite Hn in H. apply H; try assumption.
  - apply Htr; exact Hin.
  - intros a' T' Ha'. pose proof (l2_scale_absmax_ok l Bf (Habs l Hin) a' T') as H'.
    rewrite Hn in H'. apply H'. exact Ha'.
Qed.

(* ------------------------------------------------------------------------- *)
(** * 4. MAIN THEOREM (every premise boolean)                                   *)
(* ------------------------------------------------------------------------- *)

Lemma INR_pred_succ p : (1 <= p)%nat -> INR (p - 1) = INR p - 1.
Proof. intros Hp. rewrite minus_INR by lia. reflexivity. Qed.

Theorem pelt_F64_l2_multi_end_to_end (ls : list (list float)) (penf Magf Bf : float)
    (m n : nat) :
  let p := length ls in
  let Cf := CfM ls in
  (1 <= m)%nat -> (2 * m <= n)%nat -> INR n * u53 <= 1 / 100 -> (1 <= p)%nat ->
  cols_length_ok ls n = true ->
  l2_all_trace_ok_cols ls = true ->
  pelt_trace_finite Cf penf m (m - 1) n = true ->
  pelt_mag_ok Cf penf m (m - 1) n Magf = true ->
  agg_mag_ok ls n Magf = true ->
  l2_absmax_ok_cols ls Bf = true ->
  let cpts := snd (gpelt F64 Cf penf m (m - 1) n) in
  let Ctrue := fun s e => sumRl (map (fun l => rss (slice s e (map FR l))) ls) in
  let delta := (42 / 10 * INR n + 6) * u53 * (INR n * (INR n + 1) * FR Bf ^ 2) in
  let Mag := FR Magf / (1 - u53) in
  Adm m cpts n /\
  forall c, Adm m c n ->
    pencostR Ctrue (FR penf) cpts n
    <= pencostR Ctrue (FR penf) c n
       + 3 * INR n * (INR p * delta + (INR p + 1) * u53 * Mag).
Proof.
  intros p Cf Hm Hn Hsmall Hp Hlen Htr Hfin Hmag Hagg Habs cpts Ctrue delta Mag.
  assert (Ha : Adm m cpts n) by (apply gpelt_F64_adm; assumption).
  split; [exact Ha|]. intros c Hc.
  assert (HlenR : forall xs, In xs (map (map FR) ls) -> length xs = n).
  { intros xs Hxs. apply in_map_iff in Hxs as (l & <- & Hl). rewrite map_length.
    now apply (cols_length_ok_spec ls n Hlen). }
  assert (Hext : forall s e, (s + m <= e)%nat -> (e <= n)%nat ->
     l2_multi (map (map FR) ls) s e = Ctrue s e).
  { intros s e H1 H2. unfold Ctrue. rewrite <- CtrueM_unfold. unfold CtrueM.
    now apply (l2_multi_is_rss (map (map FR) ls) m n Hm HlenR). }
  rewrite <- (pencostR_ext _ _ (FR penf) m n Hm Hext cpts Ha).
  rewrite <- (pencostR_ext _ _ (FR penf) m n Hm Hext c Hc).
  replace (INR p * delta + (INR p + 1) * u53 * Mag)
    with ((INR p * delta + INR (p - 1) * u53 * Mag) + 2 * u53 * Mag)
    by (rewrite (INR_pred_succ p Hp); ring).
  apply (pelt_F64_near_optimal_magf Cf penf Magf (l2_multi (map (map FR) ls))
           (INR p * delta + INR (p - 1) * u53 * Mag) m (m - 1) n);
    try assumption; try lia.
  - intros s k e H1 H2 _. now apply (l2_multi_split (map (map FR) ls) m Hm).
  - exact (l2_multi_table_error ls n Magf Bf Hsmall Hlen Htr Hagg Habs).
Qed.

(** COMPANION: the reported final score (a float) against the penalised summed RSS of the
    reported changepoints *)
Theorem pelt_F64_l2_multi_final_score (ls : list (list float)) (penf Magf Bf : float)
    (m n : nat) :
  let p := length ls in
  let Cf := CfM ls in
  (1 <= m)%nat -> (2 * m <= n)%nat -> INR n * u53 <= 1 / 100 -> (1 <= p)%nat ->
  cols_length_ok ls n = true ->
  l2_all_trace_ok_cols ls = true ->
  pelt_trace_finite Cf penf m (m - 1) n = true ->
  pelt_mag_ok Cf penf m (m - 1) n Magf = true ->
  agg_mag_ok ls n Magf = true ->
  l2_absmax_ok_cols ls Bf = true ->
  let out := gpelt F64 Cf penf m (m - 1) n in
  let Ctrue := fun s e => sumRl (map (fun l => rss (slice s e (map FR l))) ls) in
  let delta := (42 / 10 * INR n + 6) * u53 * (INR n * (INR n + 1) * FR Bf ^ 2) in
  let Mag := FR Magf / (1 - u53) in
  Rabs (FR (nthV F64 (fst out) (n - 1)) - pencostR Ctrue (FR penf) (snd out) n)
  <= INR n * (INR p * delta + (INR p + 1) * u53 * Mag).
Proof.
  intros p Cf Hm Hn Hsmall Hp Hlen Htr Hfin Hmag Hagg Habs out Ctrue delta Mag.
  assert (Ha : Adm m (snd out) n) by (apply gpelt_F64_adm; assumption).
  assert (HlenR : forall xs, In xs (map (map FR) ls) -> length xs = n).
  { intros xs Hxs. apply in_map_iff in Hxs as (l & <- & Hl). rewrite map_length.
    now apply (cols_length_ok_spec ls n Hlen). }
  assert (Hext : forall s e, (s + m <= e)%nat -> (e <= n)%nat ->
     l2_multi (map (map FR) ls) s e = Ctrue s e).
  { intros s e H1 H2. unfold Ctrue. rewrite <- CtrueM_unfold. unfold CtrueM.
    now apply (l2_multi_is_rss (map (map FR) ls) m n Hm HlenR). }
  rewrite <- (pencostR_ext _ _ (FR penf) m n Hm Hext (snd out) Ha).
  replace (INR p * delta + (INR p + 1) * u53 * Mag)
    with ((INR p * delta + INR (p - 1) * u53 * Mag) + 2 * u53 * Mag)
    by (rewrite (INR_pred_succ p Hp); ring).
  apply (pelt_F64_final_close_magf Cf penf Magf (l2_multi (map (map FR) ls))
           (INR p * delta + INR (p - 1) * u53 * Mag) m (m - 1) n);
    try assumption.
  exact (l2_multi_table_error ls n Magf Bf Hsmall Hlen Htr Hagg Habs).
Qed.

(* ------------------------------------------------------------------------- *)
(** * 5. Specialisation: ONE column is the table of Proofs/PeltFloatL2.v         *)
(* ------------------------------------------------------------------------- *)

Lemma CfM_one_column (l : list float) : CfM [l] = l2_cost_F l.
Proof. reflexivity. Qed.

Lemma CfM_one_column_run (l : list float) (penf : float) (m n : nat) :
  gpelt F64 (CfM [l]) penf m (m - 1) n = gpelt F64 (l2_cost_F l) penf m (m - 1) n.
Proof. reflexivity. Qed.

(** for one column the premises on the columns are the one-column premises ... *)
Lemma one_column_premises (l : list float) (Bf : float) :
  cols_length_ok [l] (length l) = true /\
  l2_all_trace_ok_cols [l] = l2_all_trace_ok l /\
  l2_absmax_ok_cols [l] Bf = l2_absmax_ok l Bf.
Proof.
  unfold cols_length_ok, l2_all_trace_ok_cols, l2_absmax_ok_cols. cbn [forallb].
  rewrite Nat.eqb_refl, !andb_true_r. auto.
Qed.

(** ... and the bound is the one-column bound  3 n (delta + 2 u53 Mag) *)
Corollary pelt_F64_l2_multi_one_column (l : list float) (penf Magf Bf : float) (m : nat) :
  let n := length l in
  let Cf := l2_cost_F l in
  (1 <= m)%nat -> (2 * m <= n)%nat -> INR n * u53 <= 1 / 100 ->
  l2_all_trace_ok l = true ->
  pelt_trace_finite Cf penf m (m - 1) n = true ->
  pelt_mag_ok Cf penf m (m - 1) n Magf = true ->
  agg_mag_ok [l] n Magf = true ->
  l2_absmax_ok l Bf = true ->
  let cpts := snd (gpelt F64 Cf penf m (m - 1) n) in
  let delta := (42 / 10 * INR n + 6) * u53 * (INR n * (INR n + 1) * FR Bf ^ 2) in
  let Mag := FR Magf / (1 - u53) in
  Adm m cpts n /\
  forall c, Adm m c n ->
    pencostR (fun s e => rss (slice s e (map FR l))) (FR penf) cpts n
    <= pencostR (fun s e => rss (slice s e (map FR l))) (FR penf) c n
       + 3 * INR n * (delta + 2 * u53 * Mag).
Proof.
  intros n Cf Hm Hn Hsmall Htr Hfin Hmag Hagg Habs cpts delta Mag.
  destruct (one_column_premises l Bf) as (P1 & P2 & P3).
  pose proof (pelt_F64_l2_multi_end_to_end [l] penf Magf Bf m n) as H. cbv zeta in H.
  rewrite P2, P3, CfM_one_column in H.
  specialize (H Hm Hn Hsmall ltac:(cbn [length]; lia) P1 Htr Hfin Hmag Hagg Habs).
  destruct H as [Ha Ho]. split; [exact Ha|]. intros c Hc. specialize (Ho c Hc).
  cbn [length INR map sumRl fold_right] in Ho.
  assert (Hext : forall s e, (s + m <= e)%nat -> (e <= n)%nat ->
     rss (slice s e (map FR l)) + 0 = rss (slice s e (map FR l))) by (intros; ring).
  rewrite (pencostR_ext _ _ (FR penf) m n Hm Hext _ Ha) in Ho.
  rewrite (pencostR_ext _ _ (FR penf) m n Hm Hext c Hc) in Ho.
  eapply Rle_trans; [exact Ho|]. apply Req_le. unfold delta, Mag. ring.
Qed.

(* ------------------------------------------------------------------------- *)
(** * 6. Non-vacuity: three columns, eight rows                                 *)
(* ------------------------------------------------------------------------- *)

(** a level shift after the fourth row in the first and in the third column, none in the
    second one *)
Definition e3_cols : list (list float) :=
  [ [0.125; 0.375; 0.25; 0.5; 5.125; 5.375; 5.25; 5.5];
    [1.5; 1.25; 1.75; 1.5; 1.25; 1.5; 1.75; 1.25];
    [-2.25; -2.5; -2.125; -2.375; 3.25; 3.5; 3.125; 3.375] ]%float.
Definition e3_pen : float := 3.0%float.
Definition e3_Mag : float := 128%float.
Definition e3_B : float := 5.5%float.

Example e3_length_ok : cols_length_ok e3_cols 8 = true.
Proof. vm_compute. reflexivity. Qed.
Example e3_all_trace_ok : l2_all_trace_ok_cols e3_cols = true.
Proof. vm_compute. reflexivity. Qed.
Example e3_trace_finite : pelt_trace_finite (CfM e3_cols) e3_pen 2 1 8 = true.
Proof. vm_compute. reflexivity. Qed.
Example e3_mag_ok : pelt_mag_ok (CfM e3_cols) e3_pen 2 1 8 e3_Mag = true.
Proof. vm_compute. reflexivity. Qed.
Example e3_agg_mag_ok : agg_mag_ok e3_cols 8 e3_Mag = true.
Proof. vm_compute. reflexivity. Qed.
Example e3_absmax_ok : l2_absmax_ok_cols e3_cols e3_B = true.
Proof. vm_compute. reflexivity. Qed.

(** the run: scores and changepoints; the aggregated cost of the whole series and its three
    per-column summands *)
Example e3_run :
  gpelt F64 (CfM e3_cols) e3_pen 2 1 8
  = ([(-3)%float; 0.09375%float; 0x1.d55555555554p-3%float; 0.28125%float;
      0x1.dc6aaaaaaaaaap+4%float; 3.375%float; 0x1.c15555555555p+1%float; 3.609375%float],
     [4%nat]).
Proof. vm_compute. reflexivity. Qed.
Example e3_changepoints : snd (gpelt F64 (CfM e3_cols) e3_pen 2 1 8) = [4%nat].
Proof. vm_compute. reflexivity. Qed.
Example e3_final_score :
  nthV F64 (fst (gpelt F64 (CfM e3_cols) e3_pen 2 1 8)) 7 = 3.609375%float.
Proof. vm_compute. reflexivity. Qed.
Example e3_whole_cost :
  map (fun l => l2_cost_F l 0 8) e3_cols = [50.15625; 0.3046875; 63.4375]%float /\
  CfM e3_cols 0 8 = 113.8984375%float.
Proof. split; vm_compute; reflexivity. Qed.

(** the checkers are not trivially true *)
Example e3_mag_rejected : pelt_mag_ok (CfM e3_cols) e3_pen 2 1 8 64%float = false.
Proof. vm_compute. reflexivity. Qed.
Example e3_agg_mag_rejected : agg_mag_ok e3_cols 8 64%float = false.
Proof. vm_compute. reflexivity. Qed.
Example e3_absmax_rejected : l2_absmax_ok_cols e3_cols 5.25%float = false.
Proof. vm_compute. reflexivity. Qed.
Example e3_length_rejected : cols_length_ok ([0.5; 0.25]%float :: e3_cols) 8 = false.
Proof. vm_compute. reflexivity. Qed.
Example e3_agg_overflow_rejected :
  agg_ok 0x1p1023%float [0x1p1023; 0x1p1023; (-0x1p1023)]%float = false.
Proof. vm_compute. reflexivity. Qed.

Lemma FR_e3_pen : FR e3_pen = 3.
Proof. FR_eval e3_pen H. rewrite H. lra. Qed.
Lemma FR_e3_Mag : FR e3_Mag = 128.
Proof. FR_eval e3_Mag H. rewrite H. lra. Qed.
Lemma FR_e3_B : FR e3_B = 11 / 2.
Proof. FR_eval e3_B H. rewrite H. lra. Qed.

Definition e3_colsR : list (list R) :=
  [ [1/8; 3/8; 1/4; 1/2; 41/8; 43/8; 21/4; 11/2];
    [3/2; 5/4; 7/4; 3/2; 5/4; 3/2; 7/4; 5/4];
    [-9/4; -5/2; -17/8; -19/8; 13/4; 7/2; 25/8; 27/8] ].

Lemma FR_e3_cols : map (map FR) e3_cols = e3_colsR.
Proof.
  unfold e3_cols, e3_colsR. cbn [map].
  FR_eval 0.125%float H1. FR_eval 0.375%float H2. FR_eval 0.25%float H3. FR_eval 0.5%float H4.
  FR_eval 5.125%float H5. FR_eval 5.375%float H6. FR_eval 5.25%float H7. FR_eval 5.5%float H8.
  FR_eval 1.5%float G1. FR_eval 1.25%float G2. FR_eval 1.75%float G3.
  FR_eval (-2.25)%float K1. FR_eval (-2.5)%float K2. FR_eval (-2.125)%float K3.
  FR_eval (-2.375)%float K4. FR_eval 3.25%float K5. FR_eval 3.5%float K6.
  FR_eval 3.125%float K7. FR_eval 3.375%float K8.
  rewrite H1, H2, H3, H4, H5, H6, H7, H8, G1, G2, G3, K1, K2, K3, K4, K5, K6, K7, K8.
  cbn [Z.opp].
  repeat (apply f_equal2; [repeat (apply f_equal2; [lra|]); reflexivity|]). reflexivity.
Qed.

Lemma e3_small : INR 8 * u53 <= 1 / 100.
Proof. rewrite u53_value. cbn [INR]. lra. Qed.

Lemma e3_Ctrue s e :
  sumRl (map (fun l => rss (slice s e (map FR l))) e3_cols) = rss_multi e3_colsR s e.
Proof. rewrite <- CtrueM_unfold. unfold CtrueM. now rewrite FR_e3_cols. Qed.

(** the instantiated main theorem with the concrete numbers: the binary64 run reports the single
    changepoint 4, and the penalised summed residual sum of squares of [4] is within
    3 * 8 * (3 delta + 4 u53 Mag) of that of ANY admissible segmentation, where
    delta = (4.2 * 8 + 6) u53 * (8 * 9 * 5.5^2), Mag = 128 / (1 - u53) *)
Example e3_end_to_end :
  Adm 2 [4%nat] 8 /\
  forall c, Adm 2 c 8 ->
    pencostR (rss_multi e3_colsR) 3 [4%nat] 8
    <= pencostR (rss_multi e3_colsR) 3 c 8
       + 3 * 8 * (3 * ((42 / 10 * 8 + 6) * u53 * (8 * (8 + 1) * (11 / 2) ^ 2))
                  + (3 + 1) * u53 * (128 / (1 - u53))).
Proof.
  pose proof (pelt_F64_l2_multi_end_to_end e3_cols e3_pen e3_Mag e3_B 2 8) as H.
  cbv zeta in H. change (length e3_cols) with 3%nat in H. change (2 - 1)%nat with 1%nat in H.
  specialize (H ltac:(lia) ltac:(lia) e3_small ltac:(lia) e3_length_ok e3_all_trace_ok
                e3_trace_finite e3_mag_ok e3_agg_mag_ok e3_absmax_ok).
  rewrite e3_changepoints, FR_e3_pen, FR_e3_Mag, FR_e3_B in H.
  replace (INR 8) with 8 in H by (cbn [INR]; lra).
  replace (INR 3) with 3 in H by (cbn [INR]; lra).
  destruct H as [Ha Ho]. split; [exact Ha|]. intros c Hc. specialize (Ho c Hc).
  assert (Hext : forall s e, (s + 2 <= e)%nat -> (e <= 8)%nat ->
     sumRl (map (fun l => rss (slice s e (map FR l))) e3_cols) = rss_multi e3_colsR s e)
    by (intros; apply e3_Ctrue).
  rewrite (pencostR_ext _ _ 3 2 8 ltac:(lia) Hext _ Ha) in Ho.
  rewrite (pencostR_ext _ _ 3 2 8 ltac:(lia) Hext c Hc) in Ho.
  exact Ho.
Qed.

(** ... which is less than 1e-9 *)
Example e3_end_to_end_1e9 :
  forall c, Adm 2 c 8 ->
    pencostR (rss_multi e3_colsR) 3 [4%nat] 8
    <= pencostR (rss_multi e3_colsR) 3 c 8 + 1 / 1000000000.
Proof.
  intros c Hc. pose proof (proj2 e3_end_to_end c Hc) as H.
  eapply Rle_trans; [exact H|]. apply Rplus_le_compat_l.
  rewrite u53_value. lra.
Qed.

(** the reported final score 3.609375 against the penalised summed RSS of the changepoint *)
Example e3_final_score_close :
  Rabs (FR 3.609375%float - pencostR (rss_multi e3_colsR) 3 [4%nat] 8)
  <= 8 * (3 * ((42 / 10 * 8 + 6) * u53 * (8 * (8 + 1) * (11 / 2) ^ 2))
          + (3 + 1) * u53 * (128 / (1 - u53))).
Proof.
  pose proof (pelt_F64_l2_multi_final_score e3_cols e3_pen e3_Mag e3_B 2 8) as H.
  cbv zeta in H. change (length e3_cols) with 3%nat in H. change (2 - 1)%nat with 1%nat in H.
  change (8 - 1)%nat with 7%nat in H.
  specialize (H ltac:(lia) ltac:(lia) e3_small ltac:(lia) e3_length_ok e3_all_trace_ok
                e3_trace_finite e3_mag_ok e3_agg_mag_ok e3_absmax_ok).
  rewrite e3_changepoints, e3_final_score, FR_e3_pen, FR_e3_Mag, FR_e3_B in H.
  replace (INR 8) with 8 in H by (cbn [INR]; lra).
  replace (INR 3) with 3 in H by (cbn [INR]; lra).
  assert (Hext : forall s e, (s + 2 <= e)%nat -> (e <= 8)%nat ->
     sumRl (map (fun l => rss (slice s e (map FR l))) e3_cols) = rss_multi e3_colsR s e)
    by (intros; apply e3_Ctrue).
  rewrite (pencostR_ext _ _ 3 2 8 ltac:(lia) Hext _ (proj1 e3_end_to_end)) in H.
  exact H.
Qed.

Print Assumptions agg_error.
Print Assumptions pelt_F64_l2_multi_end_to_end.
Print Assumptions pelt_F64_l2_multi_final_score.
Print Assumptions pelt_F64_l2_multi_one_column.
Print Assumptions e3_end_to_end.
