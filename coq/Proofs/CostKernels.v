(** Cost kernels: the generated element-wise meanings of the vectorised NumPy kernels
    (Gen/KernelsR.v) agree with the definition-level statistics of Proofs/RealLib.v.

    Proof discipline (Gen/KernelsR.v is regenerated on every run): no proof below
    depends on the syntactic shape of a generated definition.  Each proof unfolds the
    kernel, rewrites EVERY occurrence of [prefix _ e] into [prefix _ s + (sum over the
    slice)] (lemmas [prefix_split], [prefix_sq_split], both corollaries of the general
    [prefix_diff]) and closes with field / ring / lra.  Where an [Rmax] or [ln] is
    involved its argument is located with [context] matching and replaced using
    [field]/[ring], again without reference to the way it was written. *)
From Coq Require Import Reals Lra Lia List Arith Psatz.
From Coq Require Import Permutation.   (* only for the statement of K10 *)
From SK Require Import Gen.KernelsR Proofs.RealLib.
Import ListNotations.
Open Scope R_scope.

(* ------------------------------------------------------------------------- *)
(** * Generic facts about slices, sse, rss, varR, nll2  (K7, K9)              *)
(* ------------------------------------------------------------------------- *)

Lemma floor_var_pos : 0 < floor_var.
Proof. unfold floor_var. lra. Qed.

Lemma two_PI_pos : 0 < 2 * PI.
Proof. pose proof PI_RGT_0 as HPI. lra. Qed.

Lemma sumR_sq_slice s e xs : sumR (slice s e (sq xs)) = sumR (sq (slice s e xs)).
Proof. unfold sq. now rewrite map_slice. Qed.

(** [prefix_diff] in "rewrite every occurrence of the right end-point" form *)
Lemma prefix_split xs s e :
  (s <= e)%nat -> prefix xs e = prefix xs s + sumR (slice s e xs).
Proof. intros Hse. pose proof (prefix_diff xs s e Hse) as HD. lra. Qed.

Lemma prefix_sq_split xs s e :
  (s <= e)%nat -> prefix (sq xs) e = prefix (sq xs) s + sumR (sq (slice s e xs)).
Proof.
  intros Hse. pose proof (prefix_diff (sq xs) s e Hse) as HD.
  rewrite sumR_sq_slice in HD. lra.
Qed.

(** K9 *)
Lemma sse_nonneg mu l : 0 <= sse mu l.
Proof.
  unfold sse. induction l as [|a k IH]; cbn [map sumR]; [lra|].
  pose proof (pow2_ge_0 (a - mu)) as Hsq. lra.
Qed.

Lemma rss_nonneg l : 0 <= rss l.
Proof. unfold rss. apply sse_nonneg. Qed.

Lemma varR_nonneg l : (0 < length l)%nat -> 0 <= varR l.
Proof.
  intros Hl. unfold varR.
  assert (Hn : 0 < INR (length l)) by (apply lt_0_INR; lia).
  pose proof (rss_nonneg l) as Hr.
  apply Rmult_le_pos; [exact Hr|]. left. apply Rinv_0_lt_compat. exact Hn.
Qed.

(** the bias/variance identity behind "the mean minimises the squared error" *)
Lemma sse_decomp mu l :
  (0 < length l)%nat ->
  sse mu l = rss l + INR (length l) * (meanR l - mu) ^ 2.
Proof.
  intros Hl. unfold rss. rewrite !sse_expand. unfold meanR.
  assert (Hn : INR (length l) <> 0) by (apply not_0_INR; lia).
  field. exact Hn.
Qed.

Lemma sse_min_at_mean mu l : (0 < length l)%nat -> rss l <= sse mu l.
Proof.
  intros Hl. rewrite (sse_decomp mu l Hl).
  pose proof (pos_INR (length l)) as Hn.
  pose proof (pow2_ge_0 (meanR l - mu)) as Hsq.
  pose proof (Rmult_le_pos _ _ Hn Hsq) as Hp. lra.
Qed.

(** K7.  Holds for every v (in Coq x / 0 is a total function and distributes over +);
    the hypothesis [v <> 0] of the informal statement is therefore not needed. *)
Lemma nll2_expand mu v l :
  nll2 mu v l = INR (length l) * ln (2 * PI * v) + sse mu l / v.
Proof.
  unfold nll2, sse. induction l as [|a k IH].
  - cbn [map sumR length]. change (INR 0) with 0. unfold Rdiv. ring.
  - cbn [map sumR]. change (length (a :: k)) with (S (length k)).
    rewrite S_INR, IH. unfold Rdiv. ring.
Qed.

(** the form asked for (with the redundant side condition) *)
Lemma nll2_expand_nz mu v l :
  v <> 0 -> nll2 mu v l = INR (length l) * ln (2 * PI * v) + sse mu l / v.
Proof. intros _. apply nll2_expand. Qed.

Lemma varR_rss l : (0 < length l)%nat -> rss l = varR l * INR (length l).
Proof.
  intros Hl. unfold varR.
  assert (Hn : INR (length l) <> 0) by (apply not_0_INR; lia).
  field. exact Hn.
Qed.

(** sum of (x - mean)^2 / var = n *)
Lemma rss_over_var l :
  (0 < length l)%nat -> 0 < varR l -> rss l / varR l = INR (length l).
Proof.
  intros Hl Hv. rewrite (varR_rss l Hl) at 1. field. lra.
Qed.

(** variance from sums, direct form *)
Lemma varR_from_sums l :
  (0 < length l)%nat ->
  varR l = sumR (sq l) / INR (length l) - (sumR l / INR (length l)) ^ 2.
Proof.
  intros Hl. unfold varR. rewrite (rss_expand l Hl).
  assert (Hn : INR (length l) <> 0) by (apply not_0_INR; lia).
  field. exact Hn.
Qed.

(* ------------------------------------------------------------------------- *)
(** * Univariate kernels (K1 - K6)                                            *)
(* ------------------------------------------------------------------------- *)

(** Locate the (first) [Rmax a c] on the left-hand side of the goal and turn it into
    [Rmax (varR l) floor_var]; [Hlen : length l = (e - s)%nat], [Hn : INR (e-s) <> 0]. *)
Ltac fold_var l Hl Hlen Hn :=
  match goal with
  | |- ?lhs = _ =>
    match lhs with
    | context [Rmax ?a ?c] =>
      replace a with (varR l)
        by (rewrite (varR_from_sums l Hl), Hlen; field; exact Hn);
      replace c with floor_var by (unfold floor_var; lra)
    end
  end.

Section Univariate.
  Variable xs : list R.
  Notation P1 := (prefix xs).
  Notation P2 := (prefix (sq xs)).

  Section NonEmpty.
    Variables s e : nat.
    Hypothesis Hse : (s < e <= length xs)%nat.
    Notation l := (slice s e xs).

    Let Hle : (s <= e)%nat.
    Proof. lia. Qed.
    Let Hlen : length l = (e - s)%nat.
    Proof. apply slice_length. lia. Qed.
    Let Hl : (0 < length l)%nat.
    Proof. rewrite Hlen. lia. Qed.
    Let Hn : INR (e - s) <> 0.
    Proof. apply not_0_INR. lia. Qed.

    (** K1 *)
    Theorem l2_optim_is_rss : l2_cost_optim_R P1 P2 s e = rss l.
    Proof.
      unfold l2_cost_optim_R.
      rewrite (prefix_split xs s e Hle), (prefix_sq_split xs s e Hle).
      rewrite (rss_expand l Hl), Hlen.
      field. exact Hn.
    Qed.

    (** K3 *)
    Theorem var_from_sums_is_var :
      var_from_sums_R P1 P2 s e = Rmax (varR l) floor_var.
    Proof.
      unfold var_from_sums_R.
      rewrite (prefix_split xs s e Hle), (prefix_sq_split xs s e Hle).
      fold_var (slice s e xs) Hl Hlen Hn.
      reflexivity.
    Qed.

    (** K4 *)
    Theorem gvar_optim_value :
      gaussian_var_cost_optim_R P1 P2 s e
      = INR (e - s) * ln (2 * PI * Rmax (varR l) floor_var) + INR (e - s).
    Proof.
      unfold gaussian_var_cost_optim_R.
      rewrite (prefix_split xs s e Hle), (prefix_sq_split xs s e Hle).
      fold_var (slice s e xs) Hl Hlen Hn.
      match goal with
      | |- ?lhs = _ =>
        match lhs with
        | context [ln ?a] =>
          replace a with (2 * PI * Rmax (varR l) floor_var) by ring
        end
      end.
      ring.
    Qed.

    (** K5: twice the negative log-likelihood at the maximum-likelihood estimate *)
    Theorem gvar_optim_is_nll_at_mle :
      floor_var <= varR l ->
      gaussian_var_cost_optim_R P1 P2 s e = nll2 (meanR l) (varR l) l.
    Proof.
      intros Hfv. pose proof floor_var_pos as Hfp.
      rewrite gvar_optim_value, (Rmax_left _ _ Hfv), nll2_expand.
      change (sse (meanR l) l) with (rss l).
      rewrite (rss_over_var l Hl) by lra.
      rewrite Hlen. reflexivity.
    Qed.
  End NonEmpty.

  Section PossiblyEmpty.
    Variables s e : nat.
    Hypothesis Hse : (s <= e <= length xs)%nat.
    Notation l := (slice s e xs).

    Let Hle : (s <= e)%nat.
    Proof. lia. Qed.
    Let Hlen : length l = (e - s)%nat.
    Proof. apply slice_length. lia. Qed.

    (** K2 *)
    Theorem l2_fixed_is_sse mu : l2_cost_fixed_R P1 P2 mu s e = sse mu l.
    Proof.
      unfold l2_cost_fixed_R.
      rewrite (prefix_split xs s e Hle), (prefix_sq_split xs s e Hle).
      rewrite sse_expand, Hlen.
      ring.
    Qed.

    (** K6 *)
    Theorem gvar_fixed_is_nll mu v :
      0 < v -> gaussian_var_cost_fixed_R P1 P2 mu v s e = nll2 mu v l.
    Proof.
      intros Hv.
      unfold gaussian_var_cost_fixed_R.
      rewrite (prefix_split xs s e Hle), (prefix_sq_split xs s e Hle).
      rewrite nll2_expand, sse_expand, Hlen.
      match goal with
      | |- ?lhs = _ =>
        match lhs with
        | context [ln ?a] => replace a with (2 * PI * v) by ring
        end
      end.
      field. lra.
    Qed.
  End PossiblyEmpty.
End Univariate.

(* ------------------------------------------------------------------------- *)
(** * Multivariate assembly (K8); the linear algebra is an oracle             *)
(* ------------------------------------------------------------------------- *)

Theorem gcov_mle_cost p logdet s e :
  (s <= e)%nat ->
  - gaussian_ll_at_mle_for_segment_R p logdet s e
  = INR (e - s) * INR p * ln (2 * PI) + INR (e - s) * logdet + INR p * INR (e - s).
Proof.
  intros Hse. unfold gaussian_ll_at_mle_for_segment_R.
  rewrite ?mult_INR. ring.
Qed.

Theorem gcov_fixed_cost p logdet quadsum s e :
  - gaussian_ll_at_fixed_for_segment_R p logdet quadsum s e
  = INR (e - s) * INR p * ln (2 * PI) + INR (e - s) * logdet + quadsum.
Proof.
  unfold gaussian_ll_at_fixed_for_segment_R.
  rewrite ?mult_INR. ring.
Qed.

Theorem gcov_mle_p1_is_gvar xs s e logdet :
  (s < e <= length xs)%nat ->
  logdet = ln (varR (slice s e xs)) ->
  floor_var <= varR (slice s e xs) ->
  - gaussian_ll_at_mle_for_segment_R 1 logdet s e
  = gaussian_var_cost_optim_R (prefix xs) (prefix (sq xs)) s e.
Proof.
  intros Hse Hld Hfv.
  pose proof floor_var_pos as Hfp. pose proof two_PI_pos as H2pi.
  rewrite gcov_mle_cost by lia.
  rewrite (gvar_optim_value xs s e Hse), (Rmax_left _ _ Hfv).
  rewrite (ln_mult (2 * PI) (varR (slice s e xs))) by lra.
  rewrite Hld. change (INR 1) with 1. ring.
Qed.

Theorem gcov_fixed_p1_is_gvar xs s e mu v logdet quadsum :
  (s <= e <= length xs)%nat ->
  0 < v ->
  logdet = ln v ->
  quadsum = sse mu (slice s e xs) / v ->
  - gaussian_ll_at_fixed_for_segment_R 1 logdet quadsum s e
  = gaussian_var_cost_fixed_R (prefix xs) (prefix (sq xs)) mu v s e.
Proof.
  intros Hse Hv Hld Hq. pose proof two_PI_pos as H2pi.
  rewrite gcov_fixed_cost.
  rewrite (gvar_fixed_is_nll xs s e Hse mu v Hv), nll2_expand.
  rewrite (slice_length s e xs Hse).
  rewrite (ln_mult (2 * PI) v) by lra.
  rewrite Hld, Hq. change (INR 1) with 1. ring.
Qed.

(* ------------------------------------------------------------------------- *)
(** * Batch independence of the [evaluate] wrapper (K10)                      *)
(* ------------------------------------------------------------------------- *)

Definition evaluate_rows {A} (k : nat -> nat -> A) (cuts : list (nat * nat)) : list A :=
  map (fun c => k (fst c) (snd c)) cuts.

Lemma evaluate_rows_length {A} (k : nat -> nat -> A) cuts :
  length (evaluate_rows k cuts) = length cuts.
Proof. unfold evaluate_rows. apply map_length. Qed.

Lemma evaluate_rows_nth {A} (k : nat -> nat -> A) cuts i d :
  (i < length cuts)%nat ->
  nth i (evaluate_rows k cuts) d
  = k (fst (nth i cuts (0, 0)%nat)) (snd (nth i cuts (0, 0)%nat)).
Proof.
  intros Hi. unfold evaluate_rows.
  rewrite (nth_indep _ d ((fun c => k (fst c) (snd c)) (0, 0)%nat))
    by (rewrite map_length; exact Hi).
  rewrite (map_nth (fun c => k (fst c) (snd c))). reflexivity.
Qed.

Lemma evaluate_rows_app {A} (k : nat -> nat -> A) cuts1 cuts2 :
  evaluate_rows k (cuts1 ++ cuts2) = evaluate_rows k cuts1 ++ evaluate_rows k cuts2.
Proof. unfold evaluate_rows. apply map_app. Qed.

Lemma evaluate_rows_perm {A} (k : nat -> nat -> A) cuts cuts' :
  Permutation cuts cuts' -> Permutation (evaluate_rows k cuts) (evaluate_rows k cuts').
Proof. intros HP. unfold evaluate_rows. apply Permutation_map. exact HP. Qed.

(** the value computed for a cut does not depend on which other cuts are in the batch *)
Lemma evaluate_rows_In {A} (k : nat -> nat -> A) cuts y :
  In y (evaluate_rows k cuts) <-> exists c, In c cuts /\ y = k (fst c) (snd c).
Proof.
  unfold evaluate_rows. rewrite in_map_iff. split.
  - intros [c [Hc Hin]]. exists c. split; [exact Hin | now symmetry].
  - intros [c [Hin Hc]]. exists c. split; [now symmetry | exact Hin].
Qed.

(* ------------------------------------------------------------------------- *)
(** Axiom audit.  K1-K3 and sse_min_at_mean list only the axioms of the stdlib reals.
    Every theorem whose STATEMENT mentions [ln] (K4-K6, K8) additionally lists
    [Classical_Prop.classic] and [ClassicalDedekindReals.sig_not_dec]: in Coq 8.16 the
    stdlib constant [ln] itself depends on them ([Print Assumptions ln] shows exactly
    this list), so this is inherited from the vocabulary of Gen/KernelsR.v and
    Proofs/RealLib.v ([nll2]), not introduced by the proofs in this file. *)
Print Assumptions l2_optim_is_rss.
Print Assumptions l2_fixed_is_sse.
Print Assumptions var_from_sums_is_var.
Print Assumptions gvar_optim_value.
Print Assumptions gvar_optim_is_nll_at_mle.
Print Assumptions gvar_fixed_is_nll.
Print Assumptions gcov_mle_p1_is_gvar.
Print Assumptions sse_min_at_mean.
